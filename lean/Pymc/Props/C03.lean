import Pymc.Proofs.ReadersEintr
/-!
# C03 — the incremental readers do not depend on how the reply is cut into `recv()` results

Model: `Readers.readline`, `Readers.readvalue`, `Readers.readsegment` (Pymc/Model/Readers.lean)
transliterate `_readline`, `_readvalue`, `_readsegment`, `_recv` of pymemcache/client/base.py over an
explicit list of `recv()` results (`Ev.data b`, `Ev.eintr`, `Ev.err c`).  A *clean* schedule has no
fault and no empty data piece (an empty piece is end-of-stream).  `joinData evs` is the byte stream
the schedule delivers.  The flat specifications `splitLine`, `splitValue`, `splitSegment` say what
the whole stream `buf ++ joinData evs` means when it is available in one piece.

All theorems hold for arbitrary `buf`, arbitrary schedules and without any bound on lengths.
-/
namespace Readers
open Bytes

/-! ## what the flat specifications mean -/

/-- C03 (spec sanity): `splitSegment tok s = some (seg, tail)` means exactly: `s = seg ++ tok ++ tail`
and `tok` does not occur at any earlier position; `none` means exactly: `tok` does not occur in `s`. -/
theorem C03_splitSegment_first_occurrence (tok s : Bytes) :
    (∀ seg tail, splitSegment tok s = some (seg, tail) ↔
        s = seg ++ tok ++ tail ∧ ∀ q, q < seg.length → ¬ tok <+: s.drop q) ∧
    (splitSegment tok s = none ↔ ¬ tok <:+: s) := by
  refine ⟨fun seg tail => ⟨?_, ?_⟩, ?_⟩
  · intro h
    simp only [splitSegment, Option.map_eq_some_iff, Prod.mk.injEq] at h
    obtain ⟨p, hp, rfl, rfl⟩ := h
    have hb := findSub_bound hp
    obtain ⟨post, hpost⟩ := findSub_prefix hp
    have hlen : (s.take p).length = p := by simp; omega
    refine ⟨?_, ?_⟩
    · have : post = s.drop (p + tok.length) := by
        have := congrArg (List.drop tok.length) hpost
        simpa [Nat.add_comm] using this
      rw [← this, List.append_assoc, hpost, List.take_append_drop]
    · rw [hlen]; exact findSub_first hp
  · intro ⟨hs, hf⟩
    have hp : findSub tok s = some seg.length := by
      rw [findSub_eq_some_iff]
      refine ⟨by rw [hs]; simp, ?_, hf⟩
      rw [hs, List.append_assoc, List.drop_left]
      exact List.prefix_append tok tail
    simp only [splitSegment, hp, Option.map_some, Option.some.injEq, Prod.mk.injEq]
    constructor
    · rw [hs, List.append_assoc, List.take_left]
    · have : seg.length + tok.length = (seg ++ tok).length := by simp
      rw [this, hs, List.drop_left]
  · simp only [splitSegment, Option.map_eq_none_iff]
    exact findSub_eq_none_iff

/-- C03 (spec sanity): the line specification is the segment specification for the token CR LF. -/
theorem C03_splitLine_eq_splitSegment (s : Bytes) : splitLine s = splitSegment CRLF s := by
  simp [splitLine, splitSegment, findCRLF_eq_findSub, CRLF]

/-! ## each reader against its flat specification -/

/-- C03 (`_readline`, main): on a fault-free delivery, if the stream `buf ++ joinData evs` contains
CR LF then `_readline` returns the bytes before the first CR LF and leaves exactly the bytes after
it unread (`rest` plus the data of the unread events); if it contains no CR LF the call ends with
`MemcacheUnexpectedCloseError`.  Nothing else can happen. -/
theorem C03_readline_flat (buf : Bytes) (evs : List Ev) (hclean : clean evs) :
    (∀ line tail, splitLine (buf ++ joinData evs) = some (line, tail) →
      ∃ rest evs', readline [] buf evs = .ok (rest, line, evs') ∧
        rest ++ joinData evs' = tail ∧ clean evs') ∧
    (splitLine (buf ++ joinData evs) = none → readline [] buf evs = .error .unexpectedClose) :=
  readline_flat [] buf evs rfl hclean

example : clean [.data [1], .eintr, .data [CR], .data [LF, 7], .data [8]] ∧
    splitLine ([5] ++ joinData [.data [1], .eintr, .data [CR], .data [LF, 7], .data [8]])
      = some ([5, 1], [7, 8]) ∧
    readline [] [5] [.data [1], .eintr, .data [CR], .data [LF, 7], .data [8]]
      = .ok ([7], [5, 1], [.data [8]]) := by
  refine ⟨by simp [clean], by decide, by simp [readline, findCRLF, CR, LF]⟩

/-- C03 (`_readline`, any loop state): the same from every state of the loop, i.e. with chunks
`acc` already accumulated (they contain no CR LF, otherwise the loop would have returned). -/
theorem C03_readline_flat_acc (acc buf : Bytes) (evs : List Ev) (hacc : findCRLF acc = none)
    (hclean : clean evs) :
    (∀ line tail, splitLine (acc ++ buf ++ joinData evs) = some (line, tail) →
      ∃ rest evs', readline acc buf evs = .ok (rest, line, evs') ∧
        rest ++ joinData evs' = tail ∧ clean evs') ∧
    (splitLine (acc ++ buf ++ joinData evs) = none →
      readline acc buf evs = .error .unexpectedClose) :=
  readline_flat acc buf evs hacc hclean

example : findCRLF [5, CR] = none ∧ clean [.data [LF, 7]] ∧
    splitLine ([5, CR] ++ [] ++ joinData [.data [LF, 7]]) = some ([5], [7]) := by
  refine ⟨by decide, by simp [clean], by decide⟩

/-- C03 (`_readvalue`, main): on a fault-free delivery, if the stream holds at least `size + 2`
bytes then `_readvalue` returns the first `size` bytes and leaves exactly the bytes after position
`size + 2` unread; otherwise the call ends with `MemcacheUnexpectedCloseError`. -/
theorem C03_readvalue_flat (buf : Bytes) (size : Nat) (evs : List Ev) (hclean : clean evs) :
    (∀ v tail, splitValue size (buf ++ joinData evs) = some (v, tail) →
      ∃ rest evs', readvalue buf size evs = .ok (rest, v, evs') ∧
        rest ++ joinData evs' = tail ∧ clean evs') ∧
    (splitValue size (buf ++ joinData evs) = none →
      readvalue buf size evs = .error .unexpectedClose) :=
  readvalue_flat buf size evs hclean

example : clean [.data [2], .eintr, .data [3, CR], .data [LF, 9]] ∧
    splitValue 3 ([1] ++ joinData [.data [2], .eintr, .data [3, CR], .data [LF, 9]])
      = some ([1, 2, 3], [9]) ∧
    readvalue [1] 3 [.data [2], .eintr, .data [3, CR], .data [LF, 9]]
      = .ok ([9], [1, 2, 3], []) := by
  refine ⟨by simp [clean], by decide, ?_⟩
  simp [readvalue, readvalueLoop, pyDrop, CR, LF]

/-- C03 (`_readvalue`, `chunks[-1]`): the branch `rlen == 1` indexes `chunks[-1]`; for every
announced size other than `-1` (in particular every size a server can announce) and *every*
sequence of `recv()` results — faults included — the list is non-empty there, so no `IndexError`. -/
theorem C03_readvalue_no_index_error (buf : Bytes) (size : Int) (evs : List Ev)
    (hsize : size ≠ -1) : readvalue buf size evs ≠ .error .indexError :=
  readvalueLoop_no_index_error [] buf (size + 2) evs (fun _ => by omega)

/-- the exit `rlen == 1` with non-trivial chunks is really taken (size 0, one byte at a time) -/
example : readvalue [] 0 [.data [CR], .data [LF]] = .ok ([], [], []) := by
  simp [readvalue, readvalueLoop, pyDrop, CR, LF]

/-- C03 (`_readvalue`, the excluded size): with `size = -1` the `IndexError` does occur. -/
theorem C03_readvalue_index_error_reachable :
    readvalue [1] (-1) [] = .error .indexError := by
  simp [readvalue, readvalueLoop]

/-- C03 (`_readsegment` after the fix, main): on a fault-free delivery, if the stream contains the
end token then `_readsegment` returns the bytes before its first occurrence and leaves exactly the
bytes after it unread; otherwise the call ends with `MemcacheUnexpectedCloseError`.  (Holds for the
empty token too, which `bytes.find` finds at position 0.) -/
theorem C03_readsegment_flat (tok buf : Bytes) (evs : List Ev) (hclean : clean evs) :
    (∀ seg tail, splitSegment tok (buf ++ joinData evs) = some (seg, tail) →
      ∃ rest evs', readsegment tok buf evs = .ok (rest, seg, evs') ∧
        rest ++ joinData evs' = tail ∧ clean evs') ∧
    (splitSegment tok (buf ++ joinData evs) = none →
      readsegment tok buf evs = .error .unexpectedClose) :=
  readsegment_flat tok buf evs hclean

example : clean [.data [97, 98, CR], .eintr, .data [LF, 99], .data [100]] ∧
    splitSegment CRLF ([] ++ joinData [.data [97, 98, CR], .eintr, .data [LF, 99], .data [100]])
      = some ([97, 98], [99, 100]) ∧
    readsegment CRLF [] [.data [97, 98, CR], .eintr, .data [LF, 99], .data [100]]
      = .ok ([99], [97, 98], [.data [100]]) := by
  refine ⟨by simp [clean], by decide, ?_⟩
  simp [readsegment, findSub, CRLF, CR, LF]

/-! ## independence of the division into pieces -/

/-- C03 (`_readline`, segmentation independence): two fault-free deliveries of the same byte stream
(however divided between the buffer passed in and the `recv()` results) give the same line and the
same unread remainder, or both end with `MemcacheUnexpectedCloseError`. -/
theorem C03_readline_seg_indep (buf buf' : Bytes) (evs evs' : List Ev)
    (h : clean evs) (h' : clean evs') (hs : buf ++ joinData evs = buf' ++ joinData evs') :
    match readline [] buf evs, readline [] buf' evs' with
    | .ok (rest, line, e), .ok (rest', line', e') =>
        line = line' ∧ rest ++ joinData e = rest' ++ joinData e'
    | .error a, .error b => a = .unexpectedClose ∧ b = .unexpectedClose
    | _, _ => False := by
  have r₁ := readline_flat [] buf evs rfl h
  have r₂ := readline_flat [] buf' evs' rfl h'
  simp only [List.nil_append] at r₁ r₂
  rw [← hs] at r₂
  exact r₁.segAgree r₂

/-- single bytes with an interrupted call in between, versus everything in one piece -/
example : clean [.data [1], .data [CR], .eintr, .data [LF], .data [7]] ∧ clean [] ∧
    [] ++ joinData [.data [1], .data [CR], .eintr, .data [LF], .data [7]]
      = [1, CR, LF, 7] ++ joinData [] := by
  refine ⟨by simp [clean], by simp [clean], by decide⟩

/-- C03 (`_readvalue`, segmentation independence) -/
theorem C03_readvalue_seg_indep (buf buf' : Bytes) (size : Nat) (evs evs' : List Ev)
    (h : clean evs) (h' : clean evs') (hs : buf ++ joinData evs = buf' ++ joinData evs') :
    match readvalue buf size evs, readvalue buf' size evs' with
    | .ok (rest, v, e), .ok (rest', v', e') =>
        v = v' ∧ rest ++ joinData e = rest' ++ joinData e'
    | .error a, .error b => a = .unexpectedClose ∧ b = .unexpectedClose
    | _, _ => False := by
  have r₁ := readvalue_flat buf size evs h
  have r₂ := readvalue_flat buf' size evs' h'
  rw [← hs] at r₂
  exact r₁.segAgree r₂

example : clean [.data [1, 2], .data [CR], .eintr, .data [LF, 7]] ∧ clean [.data [2, CR, LF, 7]] ∧
    [] ++ joinData [.data [1, 2], .data [CR], .eintr, .data [LF, 7]]
      = [1] ++ joinData [.data [2, CR, LF, 7]] := by
  refine ⟨by simp [clean], by simp [clean], by decide⟩

/-- C03 (`_readsegment` after the fix, segmentation independence) -/
theorem C03_readsegment_seg_indep (tok buf buf' : Bytes) (evs evs' : List Ev)
    (h : clean evs) (h' : clean evs') (hs : buf ++ joinData evs = buf' ++ joinData evs') :
    match readsegment tok buf evs, readsegment tok buf' evs' with
    | .ok (rest, seg, e), .ok (rest', seg', e') =>
        seg = seg' ∧ rest ++ joinData e = rest' ++ joinData e'
    | .error a, .error b => a = .unexpectedClose ∧ b = .unexpectedClose
    | _, _ => False := by
  have r₁ := readsegment_flat tok buf evs h
  have r₂ := readsegment_flat tok buf' evs' h'
  rw [← hs] at r₂
  exact r₁.segAgree r₂

example : clean [.data [97], .data [98, CR], .data [LF, 99]] ∧ clean [.data [CR, LF, 99]] ∧
    [] ++ joinData [.data [97], .data [98, CR], .data [LF, 99]]
      = [97, 98] ++ joinData [.data [CR, LF, 99]] := by
  refine ⟨by simp [clean], by simp [clean], by decide⟩

/-! ## interrupted system calls -/

/-- C03 (EINTR): deleting every interrupted `recv()` from an *arbitrary* schedule (faults and early
end-of-stream allowed) changes nothing in the outcome of any of the three readers: same item, same
`rest`, same error; the unread events are the old unread events with the interrupted ones deleted.
`size` is any integer, `tok` any token. -/
theorem C03_eintr_irrelevant (tok buf : Bytes) (size : Int) (evs : List Ev) :
    (match readline [] buf evs with
      | .ok (rest, line, e) =>
          readline [] buf (evs.filter (· ≠ .eintr)) = .ok (rest, line, e.filter (· ≠ .eintr))
      | .error x => readline [] buf (evs.filter (· ≠ .eintr)) = .error x) ∧
    (match readvalue buf size evs with
      | .ok (rest, v, e) =>
          readvalue buf size (evs.filter (· ≠ .eintr)) = .ok (rest, v, e.filter (· ≠ .eintr))
      | .error x => readvalue buf size (evs.filter (· ≠ .eintr)) = .error x) ∧
    (match readsegment tok buf evs with
      | .ok (rest, seg, e) =>
          readsegment tok buf (evs.filter (· ≠ .eintr)) = .ok (rest, seg, e.filter (· ≠ .eintr))
      | .error x => readsegment tok buf (evs.filter (· ≠ .eintr)) = .error x) := by
  simp only [notEintr_eq]
  refine ⟨?_, ?_, ?_⟩
  · have := readline_filter [] buf evs
    cases e : readline [] buf evs with
    | ok v => obtain ⟨a, b, c⟩ := v; simpa [e] using this
    | error x => simpa [e] using this
  · have := readvalueLoop_filter [] buf (size + 2) evs
    simp only [readvalue]
    cases e : readvalueLoop [] buf (size + 2) evs with
    | ok v => obtain ⟨a, b, c⟩ := v; simpa [e] using this
    | error x => simpa [e] using this
  · have := readsegment_filter tok buf evs
    cases e : readsegment tok buf evs with
    | ok v => obtain ⟨a, b, c⟩ := v; simpa [e] using this
    | error x => simpa [e] using this

/-- C03 (EINTR, schedule facts): deleting interrupted calls keeps a schedule fault-free and
delivers the same bytes. -/
theorem C03_eintr_filter_clean_joinData (evs : List Ev) :
    (clean evs → clean (evs.filter (· ≠ .eintr))) ∧
    joinData (evs.filter (· ≠ .eintr)) = joinData evs := by
  simp only [notEintr_eq]
  exact ⟨clean_filter, joinData_filter evs⟩

example : clean [.eintr, .data [1], .eintr, .eintr, .data [2]] ∧
    ([.eintr, .data [1], .eintr, .eintr, .data [2]] : List Ev).filter (· ≠ .eintr)
      = [.data [1], .data [2]] := by
  refine ⟨by simp [clean], by decide⟩

/-! ## the code before the fix -/

/-- C03 (`_readsegment` before the fix, counterexamples).  Token CR LF, empty buffer.
(1) `"ab"`, `"c\r\n"`: the call returns segment `"c"`; the piece `"ab"` is lost (the repaired code
returns `"abc"`).
(2) `"ab\r"`, `"\nxyz"`: the token straddles two pieces; the old code does not see it and ends with
`MemcacheUnexpectedCloseError` although the stream contains the token (the repaired code returns
`"ab"` and leaves `"xyz"`).
(3) `"ab\r"`, `"\ncd\r\nEND"`: same, but a later token exists; the old code returns the wrong
segment `"\ncd"`. -/
theorem C03_readsegment_orig_drops_data :
    (readsegmentOrig CRLF [] [.data [97, 98], .data [99, 13, 10]] = .ok ([], [99], []) ∧
     readsegment CRLF [] [.data [97, 98], .data [99, 13, 10]] = .ok ([], [97, 98, 99], [])) ∧
    (readsegmentOrig CRLF [] [.data [97, 98, 13], .data [10, 120, 121, 122]]
        = .error .unexpectedClose ∧
     readsegment CRLF [] [.data [97, 98, 13], .data [10, 120, 121, 122]]
        = .ok ([120, 121, 122], [97, 98], [])) ∧
    (readsegmentOrig CRLF [] [.data [97, 98, 13], .data [10, 99, 100, 13, 10, 69, 78, 68]]
        = .ok ([69, 78, 68], [10, 99, 100], []) ∧
     readsegment CRLF [] [.data [97, 98, 13], .data [10, 99, 100, 13, 10, 69, 78, 68]]
        = .ok ([99, 100, 13, 10, 69, 78, 68], [97, 98], [])) := by
  simp [readsegmentOrig, readsegment, findSub, CRLF]

/-- C03 (`_readsegment` before the fix, where it was right): if the end token is already in the
buffer passed in, or the buffer is empty and the whole reply arrives in a single `recv()` result,
the old code returns what the repaired code returns. -/
theorem C03_readsegment_orig_single_piece (tok buf : Bytes) (evs : List Ev) :
    ((findSub tok buf).isSome → readsegmentOrig tok buf evs = readsegment tok buf evs) ∧
    (tok ≠ [] → readsegmentOrig tok [] [.data buf] = readsegment tok [] [.data buf]) := by
  refine ⟨?_, readsegmentOrig_nil_buf_single tok buf⟩
  intro h
  obtain ⟨p, hp⟩ := Option.isSome_iff_exists.mp h
  exact readsegmentOrig_eq_of_found tok buf evs p hp

example : (findSub CRLF [97, 13, 10, 98]).isSome ∧ CRLF ≠ [] := by decide

end Readers
