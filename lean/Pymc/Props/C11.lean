import Pymc.Proofs.Rendezvous
import Pymc.Proofs.RendezvousServerSpec
/-!
# C11 — rendezvous placement depends only on the key and the set of servers

Model: `Rendezvous.getNode score nodes` (Pymc/Model/Rendezvous.lean) transliterates the loop of
`RendezvousHash.get_node` in pymemcache/client/rendezvous.py, with
`score node = hash_function(f"{node}-{key}", seed)` as a parameter.  Every theorem below holds for an
ARBITRARY `score : String → Nat` — in particular for score functions with collisions, so the tie rule
(`max` on node names, code-point order) is covered — and for node lists of any length.

Specification: `Rendezvous.IsLexMax score nodes w` (the published rule: `w` is in rotation and its
`(score, name)` pair is lexicographically greatest) and, for histories, `Rendezvous.setHistory`
(fold of set insert / set erase on membership predicates; defined in Pymc/Proofs/Rendezvous.lean).

Each theorem with hypotheses is followed by an `example` instantiating it on concrete data with the
constant score `fun _ => 7` (every comparison is a tie) and at least three nodes.
-/
namespace Rendezvous

/-! ## 1. the loop computes the published rule -/

/-- C11 (rule): on a non-empty rotation `get_node` returns a node, and that node is the lexicographic
maximum of `(score, name)` over the nodes in rotation. -/
theorem C11_getNode_is_lexmax (score : String → Nat) (nodes : List String) (hne : nodes ≠ []) :
    ∃ w, getNode score nodes = some w ∧ IsLexMax score nodes w :=
  getNode_isLexMax score hne

example : ∃ w, getNode (fun _ => 7) ["b", "c", "a"] = some w ∧ IsLexMax (fun _ => 7) ["b", "c", "a"] w :=
  C11_getNode_is_lexmax _ _ (by decide)
/-- all scores tie, so the greatest name wins, wherever it stands in the list -/
example : getNode (fun _ => 7) ["b", "c", "a"] = some "c" := by decide

/-- C11 (rule, empty rotation): with no node in rotation `get_node` returns `None`. -/
theorem C11_getNode_nil (score : String → Nat) : getNode score [] = none := rfl

/-- C11 (rule, both directions): `get_node` returns `w` exactly when `w` satisfies the published rule. -/
theorem C11_getNode_eq_some_iff (score : String → Nat) (nodes : List String) (w : String) :
    getNode score nodes = some w ↔ IsLexMax score nodes w :=
  getNode_eq_some_iff score nodes w

example : IsLexMax (fun _ => 7) ["b", "c", "a"] "c" :=
  (C11_getNode_eq_some_iff _ _ _).mp (by decide)

/-! ## 2. the published rule determines the winner -/

/-- C11 (uniqueness): the published rule picks at most one node. -/
theorem C11_lexmax_unique (score : String → Nat) (nodes : List String) (w w' : String)
    (h : IsLexMax score nodes w) (h' : IsLexMax score nodes w') : w = w' :=
  h.unique h'

example (w : String) (h : IsLexMax (fun _ => 7) ["b", "c", "a"] w) : w = "c" :=
  C11_lexmax_unique _ _ _ _ h ((C11_getNode_eq_some_iff _ _ _).mp (by decide))

/-- C11 (a strictly highest score wins, whatever the names): if `w` is in rotation and every other
node in rotation scores strictly lower, `get_node` returns `w`. -/
theorem C11_strict_highest_wins (score : String → Nat) (nodes : List String) (w : String)
    (hw : w ∈ nodes) (hmax : ∀ n ∈ nodes, n ≠ w → score n < score w) :
    getNode score nodes = some w := by
  refine (getNode_eq_some_iff score nodes w).mpr ⟨hw, fun n hn => ?_⟩
  by_cases h : n = w
  · subst h; exact .inr ⟨rfl, String.le_refl _⟩
  · exact .inl (hmax n hn h)

example : getNode (fun s => if s = "a" then 9 else 7) ["b", "c", "a", "d"] = some "a" :=
  C11_strict_highest_wins _ _ _ (by decide) (by decide)

/-! ## 3. order and multiplicity of the node list are irrelevant -/

/-- C11 (set extensionality): two node lists with the same members (in any order, with any
multiplicities) give the same placement. -/
theorem C11_getNode_set_ext (score : String → Nat) (nodes nodes' : List String)
    (hm : ∀ n, n ∈ nodes ↔ n ∈ nodes') : getNode score nodes = getNode score nodes' :=
  getNode_set_ext score hm

example : getNode (fun _ => 7) ["b", "c", "a", "c"] = getNode (fun _ => 7) ["a", "b", "c"] :=
  C11_getNode_set_ext _ _ _ (by intro n; simp only [List.mem_cons, List.not_mem_nil]; grind)

/-- C11 (order independence): permuting the node list does not change the placement. -/
theorem C11_getNode_perm (score : String → Nat) (nodes nodes' : List String)
    (hp : nodes.Perm nodes') : getNode score nodes = getNode score nodes' :=
  getNode_set_ext score (fun _ => hp.mem_iff)

example : getNode (fun _ => 7) ["b", "c", "a"] = getNode (fun _ => 7) ["a", "b", "c"] :=
  C11_getNode_perm _ _ _ (by decide)

/-! ## 4. `add_node` / `remove_node` keep the list duplicate-free and act as set insert / erase -/

/-- C11 (invariant): starting from a duplicate-free list, any history of `add_node` / `remove_node`
calls leaves the list duplicate-free. -/
theorem C11_nodes_nodup_invariant (nodes : List String) (h : List Change) (hd : nodes.Nodup) :
    (applyHistory nodes h).Nodup :=
  nodup_applyHistory hd h

example : (applyHistory ["b", "c", "a"] [.add "c", .remove "b", .remove "zz", .add "d", .add "b"]).Nodup :=
  C11_nodes_nodup_invariant _ _ (by decide)
example : applyHistory ["b", "c", "a"] [.add "c", .remove "b", .remove "zz", .add "d", .add "b"]
    = ["c", "a", "d", "b"] := by decide

/-- C11 (`add_node` is set insertion; no hypothesis needed). -/
theorem C11_mem_addNode (nodes : List String) (n x : String) :
    x ∈ addNode nodes n ↔ x ∈ nodes ∨ x = n :=
  mem_addNode nodes n x

/-- C11 (`remove_node` succeeds exactly on members; on success the result is `list.remove`). -/
theorem C11_removeNode_eq_some_iff (nodes nodes' : List String) (n : String) :
    removeNode nodes n = some nodes' ↔ n ∈ nodes ∧ nodes' = nodes.erase n := by
  constructor
  · exact removeNode_eq_some
  · rintro ⟨hm, rfl⟩; simp [removeNode, hm]

example : removeNode ["b", "c", "a"] "c" = some ["b", "a"] :=
  (C11_removeNode_eq_some_iff _ _ _).mpr ⟨by decide, by decide⟩

/-- C11 (`remove_node` is set erasure on a duplicate-free list). -/
theorem C11_mem_removeNode (nodes nodes' : List String) (n x : String) (hd : nodes.Nodup)
    (h : removeNode nodes n = some nodes') : x ∈ nodes' ↔ x ∈ nodes ∧ x ≠ n :=
  mem_removeNode hd h x

example : "c" ∈ ["b", "c", "a"].erase "b" ↔ "c" ∈ ["b", "c", "a"] ∧ "c" ≠ "b" :=
  C11_mem_removeNode ["b", "c", "a"] _ "b" "c" (by decide) (by decide)

/-- The `Nodup` hypothesis of `C11_mem_removeNode` is necessary: `list.remove` deletes one occurrence
only.  (A list with duplicates can only come from the constructor argument `nodes=`; `add_node` never
creates one, see `C11_nodes_nodup_invariant`.) -/
theorem C11_mem_removeNode_needs_nodup :
    removeNode ["a", "b", "a"] "a" = some ["b", "a"] ∧ "a" ∈ ["b", "a"] := by decide

/-- C11 (history = set semantics): from a duplicate-free start, the members after a history are
exactly those given by folding set insert / set erase over the history. -/
theorem C11_mem_applyHistory (nodes : List String) (h : List Change) (x : String) (hd : nodes.Nodup) :
    x ∈ applyHistory nodes h ↔ setHistory (· ∈ nodes) h x :=
  mem_applyHistory hd h x

example : "d" ∈ applyHistory ["b", "c", "a"] [.add "c", .remove "b", .add "d"] ↔
    setHistory (· ∈ ["b", "c", "a"]) [.add "c", .remove "b", .add "d"] "d" :=
  C11_mem_applyHistory _ _ _ (by decide)

/-! ## 5. history independence -/

/-- C11 (history independence): two histories, from duplicate-free starts, whose set semantics agree
give the same placement for every score function (hence for every key, seed and hash function). -/
theorem C11_getNode_history_indep (score : String → Nat) (nodes₁ nodes₂ : List String)
    (h₁ h₂ : List Change) (hd₁ : nodes₁.Nodup) (hd₂ : nodes₂.Nodup)
    (hset : ∀ x, setHistory (· ∈ nodes₁) h₁ x ↔ setHistory (· ∈ nodes₂) h₂ x) :
    getNode score (applyHistory nodes₁ h₁) = getNode score (applyHistory nodes₂ h₂) :=
  getNode_set_ext score fun x => by
    rw [mem_applyHistory hd₁, mem_applyHistory hd₂]; exact hset x

/-- C11 (history independence, list form; no `Nodup` needed): two histories whose resulting lists have
the same members give the same placement. -/
theorem C11_getNode_history_indep_mem (score : String → Nat) (nodes₁ nodes₂ : List String)
    (h₁ h₂ : List Change)
    (hm : ∀ x, x ∈ applyHistory nodes₁ h₁ ↔ x ∈ applyHistory nodes₂ h₂) :
    getNode score (applyHistory nodes₁ h₁) = getNode score (applyHistory nodes₂ h₂) :=
  getNode_set_ext score hm

example : getNode (fun _ => 7) (applyHistory ["b", "c", "a"] [.remove "b", .add "d", .add "b"]) =
    getNode (fun _ => 7) (applyHistory [] [.add "d", .add "x", .add "c", .add "b", .remove "x", .add "a"]) :=
  C11_getNode_history_indep _ _ _ _ _ (by decide) (by decide) (by
    intro x
    simp only [setHistory, List.foldl_cons, List.foldl_nil, setChange, List.mem_cons, List.not_mem_nil]
    grind)
example : getNode (fun _ => 7) (applyHistory ["b", "c", "a"] [.remove "b", .add "d", .add "b"]) =
    getNode (fun _ => 7) (applyHistory [] [.add "d", .add "x", .add "c", .add "b", .remove "x", .add "a"]) :=
  C11_getNode_history_indep_mem _ _ _ _ _ (by
    have e₁ : applyHistory ["b", "c", "a"] [.remove "b", .add "d", .add "b"] = ["c", "a", "d", "b"] := by
      decide
    have e₂ : applyHistory [] [.add "d", .add "x", .add "c", .add "b", .remove "x", .add "a"] =
        ["d", "c", "b", "a"] := by decide
    intro x; rw [e₁, e₂]; simp only [List.mem_cons, List.not_mem_nil]; grind)

/-! ## 6.–7. minimal disruption -/

/-- C11 (removal moves only the removed server's keys): if the key lived on `w` and another node `n`
is removed, the key still lives on `w`.  (Stronger than required: neither `nodes.Nodup` nor
`n ∈ nodes` is needed.) -/
theorem C11_remove_moves_only_owner (score : String → Nat) (nodes : List String) (n w : String)
    (hw : getNode score nodes = some w) (hne : w ≠ n) :
    getNode score (nodes.erase n) = some w := by
  have h := (getNode_eq_some_iff score nodes w).mp hw
  exact (getNode_eq_some_iff score _ w).mpr
    (h.subset (fun _ hm => List.mem_of_mem_erase hm) ((List.mem_erase_of_ne hne).mpr h.1))

example : getNode (fun _ => 7) (["b", "c", "a"].erase "a") = some "c" :=
  C11_remove_moves_only_owner _ _ "a" "c" (by decide) (by decide)

/-- C11 (same, through `remove_node` and in the exact form requested). -/
theorem C11_removeNode_moves_only_owner (score : String → Nat) (nodes nodes' : List String)
    (n w : String) (_hd : nodes.Nodup) (hr : removeNode nodes n = some nodes')
    (hw : getNode score nodes = some w) (hne : w ≠ n) : getNode score nodes' = some w := by
  obtain ⟨_, rfl⟩ := removeNode_eq_some hr
  exact C11_remove_moves_only_owner score nodes n w hw hne

example : getNode (fun _ => 7) ["b", "c"] = some "c" :=
  C11_removeNode_moves_only_owner _ ["b", "c", "a"] _ "a" "c" (by decide) (by decide) (by decide) (by decide)

/-- C11 (the removed server's keys do move): on a duplicate-free list, after removing `n` no key is
placed on `n`. -/
theorem C11_removed_node_not_chosen (score : String → Nat) (nodes : List String) (n : String)
    (hd : nodes.Nodup) : getNode score (nodes.erase n) ≠ some n := by
  intro h
  have := ((getNode_eq_some_iff score _ n).mp h).1
  exact (hd.mem_erase_iff.mp this).1 rfl

example : getNode (fun _ => 7) (["b", "c", "a"].erase "c") ≠ some "c" :=
  C11_removed_node_not_chosen _ _ _ (by decide)

/-- C11 (adding moves keys only onto the new server): after `add_node n` a key either stays where it
was or moves to `n`. -/
theorem C11_add_moves_only_to_new (score : String → Nat) (nodes : List String) (n : String) :
    getNode score (addNode nodes n) = getNode score nodes ∨
      getNode score (addNode nodes n) = some n := by
  unfold addNode
  split
  · exact .inl rfl
  · exact getNode_append_singleton score nodes n

/-- both branches occur under forced ties: a greater name takes the key, a smaller one does not -/
example : getNode (fun _ => 7) (addNode ["b", "c", "a"] "d") = some "d" ∧
    getNode (fun _ => 7) (addNode ["b", "c", "a"] "0") = getNode (fun _ => 7) ["b", "c", "a"] := by decide

/-! ## 8. the winner is in rotation -/

/-- C11 (membership): the node returned is one of the nodes in rotation. -/
theorem C11_getNode_mem (score : String → Nat) (nodes : List String) (w : String)
    (h : getNode score nodes = some w) : w ∈ nodes :=
  ((getNode_eq_some_iff score nodes w).mp h).1

example : "c" ∈ ["b", "c", "a"] := C11_getNode_mem (fun _ => 7) _ _ (by decide)

/-- C11 (a node is returned iff the rotation is non-empty). -/
theorem C11_getNode_isSome_iff (score : String → Nat) (nodes : List String) :
    (getNode score nodes).isSome ↔ nodes ≠ [] := by
  constructor
  · intro h hn; subst hn; simp [getNode_nil] at h
  · intro hne
    obtain ⟨w, h, _⟩ := getNode_isLexMax score hne
    simp [h]

end Rendezvous

/-!
# C11, second part — equivalent spellings of a server address give the same node name

Model: `ServerSpec.normalize` / `ServerSpec.clientKey` (Pymc/Model/ServerSpec.lean) transliterate
`normalize_server_spec` (base.py 128–144) and `HashClient._make_client_key` (hash.py 121–124) on
`Str = List Char`; `nodeName s = (normalize s).map clientKey` is the node name that
`HashClient.__init__` hands to `RendezvousHash.add_node`.  `pyDecimal p` is `str(p)`.
-/
namespace ServerSpec

/-
C11 (host:port spelling), statement at the strength first asked for — FALSE:

  ∀ (host : Str) (p : Nat), ':' ∉ host → startswith host ['/'] = false →
    startswith host ['u','n','i','x',':'] = false → startswith host ['['] = false →
    endswith host [']'] = false →
    nodeName (.str (host ++ [':'] ++ pyDecimal p)) = nodeName (.tuple host p)

Counterexample `host = "unix"`: `"unix:11211"` starts with `"unix:"` and is taken for the UNIX socket
path `"11211"` (see `C11_spelling_equiv_host_port_counterexample`).  The `_partial` theorem adds the
hypothesis `host ≠ "unix"`; on the other hand it needs neither `':' ∉ host` nor the `endswith`
hypothesis (`rsplit(":", 1)` splits at the LAST colon and the string ends in a digit).
-/

/-- C11 (host:port spelling): for a host that is not `"unix"` and does not start with `"unix:"`, `"/"`
or `"["`, the string `"<host>:<port>"` normalises to the same thing as the tuple `(host, port)` … -/
theorem C11_spelling_equiv_host_port_partial (host : Str) (p : Nat)
    (hunix : host ≠ ['u', 'n', 'i', 'x'])
    (hu : startswith host ['u', 'n', 'i', 'x', ':'] = false)
    (hs : startswith host ['/'] = false) (hb : startswith host ['['] = false) :
    normalize (.str (host ++ [':'] ++ pyDecimal p)) = normalize (.tuple host p) :=
  normalize_host_port host p hu hunix hs hb

/-- … and therefore gets the same node name, namely `"<host>:<port>"` itself. -/
theorem C11_spelling_equiv_host_port_nodeName_partial (host : Str) (p : Nat)
    (hunix : host ≠ ['u', 'n', 'i', 'x'])
    (hu : startswith host ['u', 'n', 'i', 'x', ':'] = false)
    (hs : startswith host ['/'] = false) (hb : startswith host ['['] = false) :
    nodeName (.str (host ++ [':'] ++ pyDecimal p)) = nodeName (.tuple host p) ∧
      nodeName (.tuple host p) = some (host ++ [':'] ++ pyDecimal p) := by
  unfold nodeName
  rw [C11_spelling_equiv_host_port_partial host p hunix hu hs hb]
  exact ⟨rfl, rfl⟩

example : nodeName (.str ("cache-1.example".toList ++ [':'] ++ pyDecimal 11212)) =
    nodeName (.tuple "cache-1.example".toList 11212) :=
  (C11_spelling_equiv_host_port_nodeName_partial _ _ (by decide) (by decide) (by decide) (by decide)).1

/-- the same on Lean `String`s, in the form `host ++ ":" ++ toString p` -/
theorem C11_spelling_equiv_host_port_string_partial (host : String) (p : Nat)
    (hunix : host.toList ≠ ['u', 'n', 'i', 'x'])
    (hu : startswith host.toList ['u', 'n', 'i', 'x', ':'] = false)
    (hs : startswith host.toList ['/'] = false) (hb : startswith host.toList ['['] = false) :
    nodeName (.ofString (host ++ ":" ++ toString p)) = nodeName (.ofHostPort host p) := by
  unfold Spec.ofString Spec.ofHostPort
  rw [toList_host_port]
  exact (C11_spelling_equiv_host_port_nodeName_partial _ p hunix hu hs hb).1

example : nodeName (.ofString ("localhost" ++ ":" ++ toString 11212)) = nodeName (.ofHostPort "localhost" 11212) :=
  C11_spelling_equiv_host_port_string_partial _ _ (by decide) (by decide) (by decide) (by decide)

/-- the counterexample to the unrestricted statement: `host = "unix"` satisfies every hypothesis of the
commented statement above, yet `"unix:11211"` gets node name `"11211"` while `("unix", 11211)` gets
`"unix:11211"`. -/
theorem C11_spelling_equiv_host_port_counterexample :
    (':' ∉ "unix".toList ∧ startswith "unix".toList ['/'] = false ∧
      startswith "unix".toList ['u', 'n', 'i', 'x', ':'] = false ∧
      startswith "unix".toList ['['] = false ∧ endswith "unix".toList [']'] = false) ∧
    nodeName (.ofString "unix:11211") = some "11211".toList ∧
    nodeName (.ofHostPort "unix" 11211) = some "unix:11211".toList := by decide

/-- C11 (default port): for a host containing no `':'` and not starting with `"/"` or `"["`, the bare
string `"<host>"` normalises to the same thing as the tuple `(host, 11211)`.  (`':' ∉ host` already
excludes the prefix `"unix:"`; a trailing `"]"` is harmless without a leading `"["`.) -/
theorem C11_spelling_equiv_default_port (host : Str) (hc : ':' ∉ host)
    (hs : startswith host ['/'] = false) (hb : startswith host ['['] = false) :
    normalize (.str host) = normalize (.tuple host 11211) :=
  normalize_host host hc hs hb

/-- … and therefore gets the same node name `"<host>:11211"`. -/
theorem C11_spelling_equiv_default_port_nodeName (host : Str) (hc : ':' ∉ host)
    (hs : startswith host ['/'] = false) (hb : startswith host ['['] = false) :
    nodeName (.str host) = nodeName (.tuple host 11211) ∧
      nodeName (.tuple host 11211) = some (host ++ [':'] ++ pyDecimal 11211) := by
  unfold nodeName
  rw [C11_spelling_equiv_default_port host hc hs hb]
  exact ⟨rfl, rfl⟩

example : nodeName (.ofString "localhost") = nodeName (.ofHostPort "localhost" 11211) :=
  (C11_spelling_equiv_default_port_nodeName _ (by decide) (by decide) (by decide)).1
example : nodeName (.ofString "localhost") = some "localhost:11211".toList := by decide

/-- C11 (UNIX socket): `"unix:<path>"` and `"<path>"` (a path starting with `"/"`) normalise to the
same path, which is its own node name. -/
theorem C11_spelling_equiv_unix (path : Str) (h : startswith path ['/'] = true) :
    normalize (.str (['u', 'n', 'i', 'x', ':'] ++ path)) = normalize (.str path) ∧
      nodeName (.str (['u', 'n', 'i', 'x', ':'] ++ path)) = some path ∧
      nodeName (.str path) = some path := by
  unfold nodeName
  rw [normalize_unix, normalize_path path h]
  exact ⟨rfl, rfl, rfl⟩

example : nodeName (.ofString "unix:/run/memcached.sock") = nodeName (.ofString "/run/memcached.sock") := by
  have := C11_spelling_equiv_unix "/run/memcached.sock".toList (by decide)
  exact this.2.1.trans this.2.2.symm

/-- C11 (bracketed IPv6 literal): for `h` containing no bracket, `"[<h>]"` ≡ `(h, 11211)` and
`"[<h>]:<port>"` ≡ `(h, port)`; `h` may contain colons. -/
theorem C11_spelling_equiv_bracketed (h : Str) (p : Nat) (hh : ∀ c ∈ h, c ≠ '[' ∧ c ≠ ']') :
    normalize (.str ('[' :: h ++ [']'])) = normalize (.tuple h 11211) ∧
      normalize (.str ('[' :: h ++ [']'] ++ [':'] ++ pyDecimal p)) = normalize (.tuple h p) :=
  ⟨normalize_bracketed h hh, normalize_bracketed_port h p hh⟩

example : normalize (.ofString "[::1]") = normalize (.ofHostPort "::1" 11211) :=
  (C11_spelling_equiv_bracketed "::1".toList 0 (by decide)).1
example : nodeName (.ofString "[fe80::1]:11212") = nodeName (.ofHostPort "fe80::1" 11212) := by decide

/-- C11 (same spellings ⇒ same placement): two server lists whose members have, position by position,
the same node names give the same rendezvous node list, hence the same server for every key. -/
theorem C11_spelling_same_placement (score : String → Nat) (servers servers' : List Spec)
    (h : servers.map nodeName = servers'.map nodeName) :
    hashClientNodes servers = hashClientNodes servers' ∧
      (hashClientNodes servers).map (Rendezvous.getNode score) =
        (hashClientNodes servers').map (Rendezvous.getNode score) := by
  have : servers.mapM nodeName = servers'.mapM nodeName := by
    rw [← List.mapM'_eq_mapM, ← List.mapM'_eq_mapM]
    induction servers generalizing servers' with
    | nil => cases servers' with
      | nil => rfl
      | cons _ _ => simp at h
    | cons a as ih => cases servers' with
      | nil => simp at h
      | cons b bs =>
        simp only [List.map_cons, List.cons.injEq] at h
        simp only [List.mapM'_cons, h.1, ih bs h.2]
  unfold hashClientNodes
  rw [this]
  exact ⟨rfl, rfl⟩

example : (hashClientNodes [.ofString "b:11211", .ofHostPort "a" 11211, .ofString "unix:/c"]).map
      (Rendezvous.getNode (fun _ => 7)) =
    (hashClientNodes [.ofHostPort "b" 11211, .ofString "a", .ofString "/c"]).map
      (Rendezvous.getNode (fun _ => 7)) :=
  (C11_spelling_same_placement _ _ _ (by decide)).2
example : hashClientNodes [.ofString "b:11211", .ofHostPort "a" 11211, .ofString "unix:/c"] =
    some ["b:11211", "a:11211", "/c"] := by decide

end ServerSpec
