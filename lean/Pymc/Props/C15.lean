import Pymc.Proofs.SerdeCodecs
/-!
# C15 — serializers (`pymemcache/serde.py`)

Model: Pymc/Model/Serde.lean.  `serialize` is `_python_memcache_serializer` (37–61), `deserialize` is
`python_memcache_deserializer` (72–94), `cserialize thr` / `cdeserialize` are `CompressedSerde.serialize`
/ `.deserialize` (148–171) with `min_compress_len = thr`.  A value is `bytes`, `str`, `int` (the three
*exact* types the serializer recognises) or `other` (everything else — bool, None, float, containers,
subclasses of the native types — which is pickled; the object is an opaque id).  `transmit` is what the
client does with the payload before writing it: bytes are sent as they are, text is encoded.

UTF-8, pickle (for whatever protocol was configured) and the compression codec are *parameters*: every
theorem holds for every `Codec` whose decoders are left inverses of the encoders (`Laws c`), for every
value (integers are unbounded `Int`s: any sign, any number of digits), for every threshold.  That the real
`str.encode`/`bytes.decode`, `pickle` and `zlib` satisfy `Laws` is assumed here and exercised by the
harness.  The decimal rendering and parsing of integers is concrete and proved (C02).

Not visible to Lean: `type(True) is int` is false, so a bool goes to pickle (`other`) and never to
`"%d" % value`; a `str` that `encode("utf8")` rejects (lone surrogates) raises in `serialize` — the model's
`utf8Enc` is total, so `Laws.utf8` speaks about encodable strings only; CPython ≥ 3.11 refuses decimal
conversions of more than `sys.get_int_max_str_digits()` (default 4300) digits in both `"%d" % value` and
`int(value)`, while the model's integers and their rendering are unbounded; `int(bytes)` in CPython also
accepts surrounding whitespace, `+` and `_` separators, which the strict `parseInt` rejects (this only
matters for data written by other clients, never for the round trip); `LegacyWrappingSerde` (177–196,
identity with flags 0 when no function is given) is not modelled; `CompressedSerde` is modelled over the
default inner serde (`pickle_serde`) only.
-/
namespace Serde
open Wire

/-! ## 1. round trip of the plain serializer -/

/-- C15 (round trip): for every value — bytes, str, int of any sign and size, any other (pickled) object —
deserializing what the client transmits, under the flags the serializer returned, gives back the same
constructor with the same content; it never raises and never yields the "pickle error" `None`. -/
theorem C15_serde_roundtrip (c : Codec) (h : Laws c) (v : PyVal) :
    deserialize c (transmit (serialize c v).1) (serialize c v).2 = .ok (.val v) :=
  serialize_roundtrip c h v

example : deserialize idZip (transmit (serialize idZip (.int (-(10 ^ 4000)))).1)
    (serialize idZip (.int (-(10 ^ 4000)))).2 = .ok (.val (.int (-(10 ^ 4000)))) :=
  C15_serde_roundtrip idZip idZip_laws _
example : serialize idZip (.int (-17)) = (.text [45, 49, 55], 2) := by
  simp [serialize, intText, intDec, natDec_ge, natDec_lt, digitChar, FLAG_INTEGER]
example : serialize idZip (.str [2, 0, 1]) = (.bytes [1, 1, 0, 0, 1, 0], 16) := by decide
example : deserialize idZip [1, 1, 0, 0, 1, 0] 16 = .ok (.val (.str [2, 0, 1])) := rfl

/-- C15 (integers on the wire): the bytes transmitted for an `int` are exactly `str(i).encode()`, for which
`int(...)` is the inverse (`C02_parseInt_intDec`). -/
theorem C15_int_wire_is_decimal (c : Codec) (i : Int) :
    transmit (serialize c (.int i)).1 = intDec i ∧ parseInt (intDec i) = some i :=
  ⟨transmit_intText i, parseInt_intDec i⟩

/-! ## 2. flags -/

/-- C15 (flags, exact): the plain serializer's flags are determined by the type — 0 bytes, 16 text,
2 integer, 1 pickle; the compressed serializer's flags are those, or those plus 8. -/
theorem C15_flags_values (c : Codec) (thr : Nat) (v : PyVal) :
    (serialize c v).2 = (match v with | .bytes _ => 0 | .str _ => 16 | .int _ => 2 | .other _ => 1) ∧
    ((cserialize c thr v).2 = (serialize c v).2 ∨ (cserialize c thr v).2 = (serialize c v).2 ||| 8) ∧
    (cserialize c thr v).2 ∈ [0, 16, 2, 1, 8, 24, 10, 9] := by
  have h2 : (cserialize c thr v).2 = (serialize c v).2 ∨ (cserialize c thr v).2 = (serialize c v).2 ||| 8 := by
    by_cases hC : Compresses c thr v
    · rw [cserialize_of_compresses hC]; exact .inr rfl
    · rw [cserialize_of_not_compresses hC]; exact .inl rfl
  refine ⟨by cases v <;> rfl, h2, ?_⟩
  rcases h2 with h2 | h2 <;> rw [h2] <;> cases v <;>
    simp [serialize, FLAG_TEXT, FLAG_INTEGER, FLAG_PICKLE]

/-- C15 (flags fit in 16 bits) — in fact in 5. -/
theorem C15_flags_lt_65536 (c : Codec) (thr : Nat) (v : PyVal) :
    (serialize c v).2 < 65536 ∧ (cserialize c thr v).2 < 65536 := by
  have h := (C15_flags_values c thr v).2.2
  refine ⟨by cases v <;> simp [serialize, FLAG_TEXT, FLAG_INTEGER, FLAG_PICKLE], ?_⟩
  simp only [List.mem_cons, List.not_mem_nil, or_false] at h
  omega

/-! ## 3. the payload can be transmitted -/

/-- C15 (payload of the plain serializer): it is `bytes`, or it is non-empty text of ASCII digits and `-`
(code points below 128), which the client's `encode` accepts under any ASCII-compatible encoding. -/
theorem C15_payload_transmittable (c : Codec) (v : PyVal) :
    (∃ b, (serialize c v).1 = .bytes b) ∨
    (∃ cps, (serialize c v).1 = .text cps ∧ cps ≠ [] ∧ (∀ n ∈ cps, n < 128) ∧
      (∀ n ∈ cps, (48 ≤ n ∧ n ≤ 57) ∨ n = 45)) := by
  cases v with
  | bytes b => exact .inl ⟨_, rfl⟩
  | str s => exact .inl ⟨_, rfl⟩
  | int i => exact .inr ⟨_, rfl, intText_ne_nil i, intText_lt_128 i, intText_chars i⟩
  | other id => exact .inl ⟨_, rfl⟩

/-- C15 (payload of the compressed serializer): the same; whenever it compressed, the payload is bytes. -/
theorem C15_compressed_payload_transmittable (c : Codec) (thr : Nat) (v : PyVal) :
    (∃ b, (cserialize c thr v).1 = .bytes b) ∨
    (∃ cps, (cserialize c thr v).1 = .text cps ∧ cps ≠ [] ∧ (∀ n ∈ cps, n < 128) ∧
      (∀ n ∈ cps, (48 ≤ n ∧ n ≤ 57) ∨ n = 45)) := by
  by_cases hC : Compresses c thr v
  · rw [cserialize_of_compresses hC]; exact .inl ⟨_, rfl⟩
  · rw [cserialize_of_not_compresses hC]; exact C15_payload_transmittable c v

/-- C15 (the model's `transmit` is faithful on such text): encoding ASCII text loses nothing — the bytes,
read as numbers, are the code points — and keeps the length, so `len(value)` in `CompressedSerde` is the
number of bytes that would be sent. -/
theorem C15_transmit_ascii_lossless (cps : List Nat) (h : ∀ n ∈ cps, n < 128) (p : Payload) :
    (transmit (.text cps)).map (·.toNat) = cps ∧ (transmit p).length = payloadLen p :=
  ⟨transmit_text_toNat cps h, transmit_length p⟩

example : transmit (.text [45, 49, 55]) = [45, 49, 55] := by decide

/-! ## 4. round trip of the compressed serializer -/

/-- C15 (compressed round trip): for every threshold, every codec satisfying the laws and every value,
`CompressedSerde.deserialize` of what `CompressedSerde.serialize` produced gives back the value. -/
theorem C15_compressed_roundtrip (c : Codec) (h : Laws c) (thr : Nat) (v : PyVal) :
    cdeserialize c (transmit (cserialize c thr v).1) (cserialize c thr v).2 = .ok (.val v) := by
  have hf := serialize_flags c v
  by_cases hC : Compresses c thr v
  · rw [cserialize_of_compresses hC]
    show cdeserialize c (c.compress (transmit (serialize c v).1)) ((serialize c v).2 ||| 8) = _
    rw [cdeserialize_flag c _ _ (or8_and8 hf) (h.zip _), deserialize_or8 c _ hf]
    exact serialize_roundtrip c h v
  · rw [cserialize_of_not_compresses hC]
    rw [cdeserialize_noflag c _ (and8 hf)]
    exact serialize_roundtrip c h v

example : cserialize idZip 2 (.bytes [5, 6, 7]) = (.bytes [5, 6, 7], 8) := by decide
example : cdeserialize idZip [5, 6, 7] 8 = .ok (.val (.bytes [5, 6, 7])) := rfl
example : cserialize sevenZip 2 (.bytes [7, 7, 7]) = (.bytes [1, 7], 8) := by decide
example : cdeserialize sevenZip [1, 7] 8 = .ok (.val (.bytes [7, 7, 7])) := rfl
-- text: flags 16 ||| 8 = 24 when compressed; `sevenZip` would grow this one, so it is kept as it is
example : cserialize idZip 2 (.str [1, 0]) = (.bytes [1, 0, 0], 24) := by decide
example : cdeserialize idZip [1, 0, 0] 24 = .ok (.val (.str [1, 0])) := rfl
example : cserialize sevenZip 2 (.str [1, 0]) = (.bytes [1, 0, 0], 16) := by decide
-- integer: the text "-17" is encoded, then compressed; flags 2 ||| 8 = 10
example : cserialize idZip 2 (.int (-17)) = (.bytes [45, 49, 55], 10) := by
  rw [cserialize_eq]
  simp [serialize, intText, intDec, natDec_ge, natDec_lt, digitChar, payloadLen, transmit, idZip, demoCodec,
    FLAG_INTEGER]
example (i : Int) : cdeserialize sevenZip (transmit (cserialize sevenZip 3 (.int i)).1)
    (cserialize sevenZip 3 (.int i)).2 = .ok (.val (.int i)) :=
  C15_compressed_roundtrip sevenZip sevenZip_laws 3 _

/-! ## 5. the COMPRESSED flag tells the truth -/

/-- C15 (which branch ran): the COMPRESSED bit is set exactly when the payload was longer than a positive
threshold and the compressed form was not longer than the uncompressed one. -/
theorem C15_compressed_flag_iff_branch (c : Codec) (thr : Nat) (v : PyVal) :
    (cserialize c thr v).2 &&& 8 ≠ 0 ↔
      (thr < payloadLen (serialize c v).1 ∧ 0 < thr ∧
        (c.compress (transmit (serialize c v).1)).length ≤ payloadLen (serialize c v).1) := by
  have hf := serialize_flags c v
  by_cases hC : Compresses c thr v
  · rw [cserialize_of_compresses hC]; exact ⟨fun _ => hC, fun _ => or8_and8 hf⟩
  · rw [cserialize_of_not_compresses hC]
    exact ⟨fun hne => absurd (and8 hf) hne, fun hh => absurd hh hC⟩

/-- C15 (marked compressed exactly when the compressed form was stored): the result is always one of two
things — the compressed bytes of what would have been transmitted, with bit 8 added to the flags, or the
plain serializer's result untouched — and bit 8 of the returned flags says which.  (Stated on the
(payload, flags) pair: see `C15_compressed_flag_iff_payload_partial` for why the payload alone cannot be
used with a codec that may return its input unchanged.) -/
theorem C15_compressed_flag_iff_stored_compressed (c : Codec) (thr : Nat) (v : PyVal) :
    ((cserialize c thr v).2 &&& 8 ≠ 0 ↔
      cserialize c thr v = (.bytes (c.compress (transmit (serialize c v).1)), (serialize c v).2 ||| 8)) ∧
    ((cserialize c thr v).2 &&& 8 = 0 ↔ cserialize c thr v = serialize c v) := by
  have hf := serialize_flags c v
  by_cases hC : Compresses c thr v
  · rw [cserialize_of_compresses hC]
    refine ⟨⟨fun _ => rfl, fun _ => or8_and8 hf⟩, ⟨fun h0 => absurd h0 (or8_and8 hf), fun he => ?_⟩⟩
    exact absurd (congrArg Prod.snd he) (or8_ne hf)
  · rw [cserialize_of_not_compresses hC]
    refine ⟨⟨fun hne => absurd (and8 hf) hne, fun he => ?_⟩, ⟨fun _ => rfl, fun _ => and8 hf⟩⟩
    exact absurd (congrArg Prod.snd he).symm (or8_ne hf)

/-- C15 (flag ⇒ payload): when bit 8 is set, the stored payload is the compressed form (bytes). -/
theorem C15_compressed_flag_imp_payload (c : Codec) (thr : Nat) (v : PyVal)
    (h : (cserialize c thr v).2 &&& 8 ≠ 0) :
    (cserialize c thr v).1 = .bytes (c.compress (transmit (serialize c v).1)) := by
  rw [((C15_compressed_flag_iff_stored_compressed c thr v).1).1 h]

/-
Full-strength payload-level statement, FALSE for the model (and for the code, with a codec that can return
its input unchanged):

  (cserialize c thr v).2 &&& 8 ≠ 0 ↔ (cserialize c thr v).1 = .bytes (c.compress (transmit (serialize c v).1))

The direction ⇐ fails when compression is skipped (threshold 0, or a short payload) and the codec happens to
map the raw bytes to themselves: the stored payload then *is* "the compressed form" although nothing was
compressed and the flag is (correctly) clear.  Counterexample below.  zlib never returns its input (header
and checksum), so this cannot happen with the default codec.
-/

/-- C15 (payload-level version, with the needed hypothesis): if the plain payload differs from its own
compressed form, then bit 8 is set exactly when the stored payload is the compressed form. -/
theorem C15_compressed_flag_iff_payload_partial (c : Codec) (thr : Nat) (v : PyVal)
    (hne : (serialize c v).1 ≠ .bytes (c.compress (transmit (serialize c v).1))) :
    (cserialize c thr v).2 &&& 8 ≠ 0 ↔
      (cserialize c thr v).1 = .bytes (c.compress (transmit (serialize c v).1)) := by
  refine ⟨C15_compressed_flag_imp_payload c thr v, fun hp => ?_⟩
  by_cases hC : Compresses c thr v
  · exact (C15_compressed_flag_iff_branch c thr v).2 hC
  · rw [cserialize_of_not_compresses hC] at hp; exact absurd hp hne

/-- C15 (counterexample to the unconditional payload-level statement): identity codec, compression switched
off — the payload equals its "compressed form", the flag is clear. -/
theorem C15_compressed_flag_iff_payload_counterexample :
    (cserialize idZip 0 (.bytes [1])).1 =
        .bytes (idZip.compress (transmit (serialize idZip (.bytes [1])).1)) ∧
    (cserialize idZip 0 (.bytes [1])).2 &&& 8 = 0 ∧ Laws idZip :=
  ⟨by decide, by decide, idZip_laws⟩

/-! ## 6. never larger -/

/-- C15 (never stores a larger form): the stored payload is at most as long as the plain one — in
`len(...)` as the code computes it, and in transmitted bytes. -/
theorem C15_stored_not_larger (c : Codec) (thr : Nat) (v : PyVal) :
    payloadLen (cserialize c thr v).1 ≤ payloadLen (serialize c v).1 ∧
    (transmit (cserialize c thr v).1).length ≤ (transmit (serialize c v).1).length := by
  have h1 : payloadLen (cserialize c thr v).1 ≤ payloadLen (serialize c v).1 := by
    by_cases hC : Compresses c thr v
    · rw [cserialize_of_compresses hC]; exact hC.2.2
    · rw [cserialize_of_not_compresses hC]; exact Nat.le_refl _
  exact ⟨h1, by rw [transmit_length, transmit_length]; exact h1⟩

-- `padZip` always grows the input by one byte: the plain form is kept, whatever the threshold
example : cserialize padZip 1 (.bytes [5, 6, 7]) = (.bytes [5, 6, 7], 0) := by decide
example (thr : Nat) (v : PyVal) : cserialize padZip thr v = serialize padZip v := by
  apply cserialize_of_not_compresses
  rintro ⟨_, _, h⟩
  rw [← transmit_length] at h
  simp [padZip, demoCodec, padCompress] at h
  omega

/-! ## 7. no compression below the threshold -/

/-- C15 (threshold): with `min_compress_len = 0`, or a payload not longer than the threshold, the compressed
serializer returns exactly what the plain one returns. -/
theorem C15_threshold_zero_or_small_is_identity (c : Codec) (thr : Nat) (v : PyVal)
    (h : thr = 0 ∨ payloadLen (serialize c v).1 ≤ thr) : cserialize c thr v = serialize c v := by
  apply cserialize_of_not_compresses
  rintro ⟨h1, h2, _⟩
  omega

example : cserialize sevenZip 0 (.bytes [7, 7, 7]) = (.bytes [7, 7, 7], 0) := by decide
example : cserialize sevenZip 3 (.bytes [7, 7, 7]) = (.bytes [7, 7, 7], 0) := by decide

/-! ## 8. the flag cascade of the deserializer -/

/-- C15 (cascade order): TEXT wins over INTEGER wins over LONG wins over PICKLE; a flag word with none of
these four bits (0, or only unknown bits such as 8, 32, 64 …) yields the raw bytes.  Each flag word decodes
exactly like the single winning flag. -/
theorem C15_cascade_order (c : Codec) (value : Bytes) (flags : Nat) :
    (flags &&& 16 ≠ 0 → deserialize c value flags = deserialize c value 16) ∧
    (flags &&& 16 = 0 → flags &&& 2 ≠ 0 → deserialize c value flags = deserialize c value 2) ∧
    (flags &&& 16 = 0 → flags &&& 2 = 0 → flags &&& 4 ≠ 0 →
      deserialize c value flags = deserialize c value 4) ∧
    (flags &&& 16 = 0 → flags &&& 2 = 0 → flags &&& 4 = 0 → flags &&& 1 ≠ 0 →
      deserialize c value flags = deserialize c value 1) ∧
    (flags &&& 16 = 0 → flags &&& 2 = 0 → flags &&& 4 = 0 → flags &&& 1 = 0 →
      deserialize c value flags = .ok (.val (.bytes value))) := by
  refine ⟨?_, ?_, ?_, ?_, ?_⟩
  · intro h16
    have h0 : flags ≠ 0 := by rintro rfl; simp at h16
    simp [deserialize, FLAG_TEXT, h16, h0]
  · intro h16 h2
    have h0 : flags ≠ 0 := by rintro rfl; simp at h2
    simp [deserialize, FLAG_TEXT, FLAG_INTEGER, h16, h2, h0]
  · intro h16 h2 h4
    have h0 : flags ≠ 0 := by rintro rfl; simp at h4
    simp [deserialize, FLAG_TEXT, FLAG_INTEGER, FLAG_LONG, h16, h2, h4, h0]
  · intro h16 h2 h4 h1
    have h0 : flags ≠ 0 := by rintro rfl; simp at h1
    simp only [deserialize, FLAG_TEXT, FLAG_INTEGER, FLAG_LONG, FLAG_PICKLE, h0, h16, h2, h4, h1, ne_eq,
      not_true_eq_false, not_false_eq_true, ↓reduceIte]
    simp
  · intro h16 h2 h4 h1
    simp [deserialize, FLAG_TEXT, FLAG_INTEGER, FLAG_LONG, FLAG_PICKLE, h16, h2, h4, h1]

/-- C15 (what each single flag means): 16 decodes UTF-8 (failure raises), 2 and 4 parse a decimal integer
(failure raises `ValueError`), 1 unpickles (failure is swallowed and yields `None`), 0 is the bytes.
(`parseInt` is the strict signed decimal of Wire.lean; CPython's `int()` accepts a few more spellings.) -/
theorem C15_flag_meaning (c : Codec) (value : Bytes) :
    (∀ s, c.utf8Dec value = some s → deserialize c value 16 = .ok (.val (.str s))) ∧
    (c.utf8Dec value = none → deserialize c value 16 = .error .decode) ∧
    (∀ i, parseInt value = some i →
      deserialize c value 2 = .ok (.val (.int i)) ∧ deserialize c value 4 = .ok (.val (.int i))) ∧
    (parseInt value = none →
      deserialize c value 2 = .error .valueError ∧ deserialize c value 4 = .error .valueError) ∧
    (∀ id, c.unpickle value = some id → deserialize c value 1 = .ok (.val (.other id))) ∧
    (c.unpickle value = none → deserialize c value 1 = .ok .none_) ∧
    deserialize c value 0 = .ok (.val (.bytes value)) := by
  refine ⟨?_, ?_, ?_, ?_, ?_, ?_, ?_⟩
  · intro s h; simp [deserialize, FLAG_TEXT, h]
  · intro h; simp [deserialize, FLAG_TEXT, h]
  · intro i h; simp [deserialize, FLAG_TEXT, FLAG_INTEGER, FLAG_LONG, parseIntBytes, h]
  · intro h; simp [deserialize, FLAG_TEXT, FLAG_INTEGER, FLAG_LONG, parseIntBytes, h]
  · intro id h; simp [deserialize, FLAG_TEXT, FLAG_INTEGER, FLAG_LONG, FLAG_PICKLE, h]
  · intro h; simp [deserialize, FLAG_TEXT, FLAG_INTEGER, FLAG_LONG, FLAG_PICKLE, h]
  · simp [deserialize]

/-- C15 (legacy and foreign flags): an integer written by another client under `FLAG_LONG` (4), alone or
together with INTEGER or PICKLE, reads back as that `int`; unknown bits alone (32, 64, or a bare 8 seen by
the plain deserializer) give the raw bytes; TEXT beats everything. -/
theorem C15_legacy_flags_decode (c : Codec) (i : Int) (b : Bytes) :
    deserialize c (intDec i) 4 = .ok (.val (.int i)) ∧
    deserialize c (intDec i) 6 = .ok (.val (.int i)) ∧
    deserialize c (intDec i) 5 = .ok (.val (.int i)) ∧
    deserialize c (intDec i) (4 ||| 32) = .ok (.val (.int i)) ∧
    deserialize c b 32 = .ok (.val (.bytes b)) ∧
    deserialize c b 64 = .ok (.val (.bytes b)) ∧
    deserialize c b 8 = .ok (.val (.bytes b)) ∧
    deserialize c b 23 = deserialize c b 16 := by
  have hi := ((C15_flag_meaning c (intDec i)).2.2.1 i (parseInt_intDec i))
  refine ⟨hi.2, ?_, ?_, ?_, ?_, ?_, ?_, ?_⟩
  · rw [(C15_cascade_order c _ 6).2.1 (by decide) (by decide)]; exact hi.1
  · rw [(C15_cascade_order c _ 5).2.2.1 (by decide) (by decide) (by decide)]; exact hi.2
  · rw [(C15_cascade_order c _ (4 ||| 32)).2.2.1 (by decide) (by decide) (by decide)]; exact hi.2
  · exact (C15_cascade_order c b 32).2.2.2.2 (by decide) (by decide) (by decide) (by decide)
  · exact (C15_cascade_order c b 64).2.2.2.2 (by decide) (by decide) (by decide) (by decide)
  · exact (C15_cascade_order c b 8).2.2.2.2 (by decide) (by decide) (by decide) (by decide)
  · exact (C15_cascade_order c b 23).1 (by decide)

example : deserialize idZip [45, 49, 55] 4 = .ok (.val (.int (-17))) := by
  have h : intDec (-17) = [45, 49, 55] := by simp [intDec, natDec_ge, natDec_lt, digitChar]
  rw [← h]; exact (C15_legacy_flags_decode idZip (-17) []).1
-- not a decimal: `int(value)` raises
example : deserialize idZip [120] 2 = .error .valueError := rfl
-- not a pickle: the error is swallowed, the caller sees `None`
example : deserialize idZip [120] 1 = .ok .none_ := rfl

end Serde
