import Pymc.Proofs.IgnoreExc
import Pymc.Model.Interrupt
import Pymc.Proofs.SockOrigin
/-! Helper lemmas for C10: a `BaseException` always closes the socket and is never swallowed. -/
namespace Client
open Bytes Readers Wire Framing Exchange

/-- "if the outcome is a `BaseException`, the socket is closed" -/
def BaseCloses {α} (o : CallOut α) : Prop := ∀ e, o.res = .error e → isBaseExc e = true → o.sockOpen = false

theorem baseCloses_early {α} (so : Bool) (sc : Script) : BaseCloses (early .illegalInput so sc : CallOut α) := by
  intro e h hb; cases h; cases hb

theorem baseCloses_ok {α} (r : α) (so cn : Bool) (sn : Option Bytes) (un : List Ev) :
    BaseCloses (⟨.ok r, so, cn, sn, un⟩ : CallOut α) := by
  intro e h; cases h

theorem baseCloses_mapOut {α β} (o : CallOut α) (f : α → Except Exc β) (ho : BaseCloses o)
    (hf : ∀ a e, f a = .error e → isBaseExc e = false) : BaseCloses (mapOut o f) := by
  intro e h hb
  rw [mapOut_sockOpen]
  cases hx : o.res with
  | ok a =>
    rw [mapOut_res_ok _ _ hx] at h
    rw [hf a e h] at hb; cases hb
  | error e' =>
    rw [mapOut_res_error _ _ hx] at h
    cases h
    exact ho e hx hb

theorem baseCloses_store (verb : SVerb) (cmds : List Bytes) (nr so : Bool) (sc : Script) :
    BaseCloses (exchangeStore verb cmds nr so sc) := by
  intro e h _
  cases ho : (exchangeStore verb cmds nr so sc).sockOpen with
  | false => rfl
  | true =>
    obtain ⟨r, h1, -⟩ := exchangeStore_open verb cmds nr so sc ho
    rw [h1] at h; cases h

theorem baseCloses_misc (cmds : List Bytes) (nr : Bool) (tok : Option Bytes) (so : Bool) (sc : Script) :
    BaseCloses (exchangeMisc cmds nr tok so sc) := by
  intro e h _
  cases ho : (exchangeMisc cmds nr tok so sc).sockOpen with
  | false => rfl
  | true =>
    obtain ⟨r, h1, -⟩ := exchangeMisc_open cmds nr tok so sc ho
    rw [h1] at h; cases h

theorem baseCloses_fetch (kind : FetchKind) (cmd : Bytes) (wanted : List Bytes) (ie so : Bool) (sc : Script) :
    BaseCloses (exchangeFetch kind cmd wanted ie so sc) :=
  fun e h _ => exchangeFetch_error_closed kind cmd wanted ie so sc e h

theorem baseCloses_fetchValues (cfg : Cfg) (ie : Bool) (verb : FVerb) (ks : List Key.K) (ex : Option IntArg)
    (so : Bool) (sc : Script) : BaseCloses (fetchValues cfg ie verb ks ex so sc) := by
  unfold fetchValues
  split
  · exact baseCloses_mapOut _ _ (baseCloses_fetch _ _ _ _ _ _) (fun a e h => by cases h)
  · exact baseCloses_early so sc

theorem call_baseCloses (cfg : Cfg) (ie so : Bool) (c : Call) (sc : Script) : BaseCloses (call cfg ie so c sc) := by
  cases c with
  | quit => intro e _ _; rfl
  | get k => exact baseCloses_mapOut _ _ (baseCloses_fetchValues _ _ _ _ _ _ _) (fun a e h => by cases h)
  | gets k => exact baseCloses_mapOut _ _ (baseCloses_fetchValues _ _ _ _ _ _ _) (fun a e h => by cases h)
  | gat k x => exact baseCloses_mapOut _ _ (baseCloses_fetchValues _ _ _ _ _ _ _) (fun a e h => by cases h)
  | gats k x => exact baseCloses_mapOut _ _ (baseCloses_fetchValues _ _ _ _ _ _ _) (fun a e h => by cases h)
  | getMany ks =>
    simp only [call]
    split
    · exact baseCloses_ok _ _ _ _ _
    · exact baseCloses_mapOut _ _ (baseCloses_fetchValues _ _ _ _ _ _ _) (fun a e h => by cases h)
  | getsMany ks =>
    simp only [call]
    split
    · exact baseCloses_ok _ _ _ _ _
    · exact baseCloses_mapOut _ _ (baseCloses_fetchValues _ _ _ _ _ _ _) (fun a e h => by cases h)
  | store verb k v ex noreply flags cas =>
    rw [call_store_eq]
    dsimp only
    split
    · rename_i e he
      cases casBytes_error verb cas e he
      exact baseCloses_early _ _
    · split
      · exact baseCloses_early _ _
      · refine baseCloses_mapOut _ _ (baseCloses_store _ _ _ _ _) ?_
        intro a e h
        (repeat' split at h)
        all_goals first | (cases h; rfl) | cases h
  | stats args =>
    simp only [call]
    split
    · exact baseCloses_early _ _
    · exact baseCloses_mapOut _ _ (baseCloses_fetch _ _ _ _ _ _) (fun a e h => by cases h)
  | cacheMemlimit m =>
    simp only [call]
    split
    · exact baseCloses_early _ _
    · split
      · exact baseCloses_early _ _
      · exact baseCloses_mapOut _ _ (baseCloses_fetch _ _ _ _ _ _) (fun a e h => by cases h)
  | shutdown g =>
    -- `swallowClose` changes the result only; whatever the exception, `_misc_cmd` closed the socket
    intro e h _
    rw [call_shutdown, swallowClose_sockOpen, mapOut_sockOpen]
    cases ho : (exchangeMisc [shutdownCmd g] false none so sc).sockOpen with
    | false => rfl
    | true =>
      obtain ⟨r, h1, -⟩ := exchangeMisc_open _ _ _ _ _ ho
      rw [shutdown_res_ok cfg ie so g sc h1] at h; cases h
  | _ =>
    simp only [call]
    repeat' split
    all_goals first
      | exact baseCloses_early _ _
      | exact baseCloses_ok _ _ _ _ _
      | (refine baseCloses_mapOut _ _ (by first | exact baseCloses_store _ _ _ _ _ | exact baseCloses_misc _ _ _ _ _) ?_
         intro a e h
         (repeat' split at h)
         all_goals first | (cases h; rfl) | cases h)
end Client

namespace Framing
open Bytes Readers Exchange Client

/-- an interrupted call is a special case of a call over a connection that breaks -/
theorem faultFramed_of_interrupted {cfg : Wire.Cfg} {c : Call} {evs : List Ev} (h : Interrupted cfg c evs) :
    FaultFramed cfg c evs := by
  obtain ⟨pre, code, post, full, rfl, -, hclean, hfull, more, hmore⟩ := h
  refine ⟨pre, .err code :: post, rfl, hclean, ?_⟩
  by_cases hm : more = []
  · subst hm
    rw [List.append_nil] at hmore
    exact .inl ⟨hmore ▸ hfull, trivial⟩
  · exact .inr ⟨⟨more, hm, hmore ▸ hfull⟩, rfl⟩
end Framing
