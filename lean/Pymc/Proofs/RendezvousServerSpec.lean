import Pymc.Model.ServerSpec
import Pymc.Model.Rendezvous
/-!
# Helper lemmas for C11 (equivalent spellings of a server address)
-/
namespace ServerSpec

theorem rsplitColon_none_of_not_mem {s : Str} (h : ':' ∉ s) : rsplitColon s = none := by
  induction s with
  | nil => rfl
  | cons c cs ih =>
    simp only [List.mem_cons, not_or] at h
    simp only [rsplitColon, ih h.2]
    rw [if_neg (fun e => h.1 e.symm)]

/-- `rsplit(":", 1)` splits at the last colon -/
theorem rsplitColon_append (a b : Str) (hb : ':' ∉ b) :
    rsplitColon (a ++ ':' :: b) = some (a, b) := by
  induction a with
  | nil => simp [rsplitColon, rsplitColon_none_of_not_mem hb]
  | cons c cs ih => simp [rsplitColon, ih]

theorem isDigit_of_mem_pyDecimal {c : Char} {p : Nat} (h : c ∈ pyDecimal p) : c.isDigit = true :=
  Nat.isDigit_of_mem_toDigits (by decide) (by decide) h

theorem pyDecimal_ne_nil (p : Nat) : pyDecimal p ≠ [] := Nat.toDigits_ne_nil

theorem colon_not_mem_pyDecimal (p : Nat) : ':' ∉ pyDecimal p := fun h =>
  absurd (isDigit_of_mem_pyDecimal h) (by decide)

/-- `int(str(p)) = p` -/
theorem pyInt_pyDecimal (p : Nat) : pyInt (pyDecimal p) = some p := by
  unfold pyInt
  rw [if_pos ⟨pyDecimal_ne_nil p, List.all_eq_true.mpr fun c hc => isDigit_of_mem_pyDecimal hc⟩]
  exact congrArg some (Nat.ofDigitChars_ten_toDigits (n := p))

theorem endswith_singleton (s : Str) (c : Char) : endswith s [c] = (s.getLast? == some c) := by
  unfold endswith List.isSuffixOf
  rw [List.getLast?_eq_head?_reverse]
  cases s.reverse with
  | nil => simp
  | cons a as =>
    simp [List.isPrefixOf]; exact BEq.comm

theorem endswith_append_decimal (a : Str) (p : Nat) (c : Char) (hc : c.isDigit = false) :
    endswith (a ++ pyDecimal p) [c] = false := by
  rw [endswith_singleton, List.getLast?_append]
  cases h : (pyDecimal p).getLast? with
  | none => exact absurd (List.getLast?_eq_none_iff.mp h) (pyDecimal_ne_nil p)
  | some d =>
    have hd := isDigit_of_mem_pyDecimal (List.mem_of_getLast? h)
    have : d ≠ c := by rintro rfl; simp [hc] at hd
    simp [this]

theorem startswith_singleton (s : Str) (c : Char) : startswith s [c] = (s.head? == some c) := by
  unfold startswith
  cases s with
  | nil => simp
  | cons a as =>
    simp [List.isPrefixOf]; exact BEq.comm

/-- `"unix:"` is a prefix of `host ++ ":" ++ rest` only if it is a prefix of `host` or `host = "unix"` -/
theorem startswith_unix_append (host rest : Str)
    (h1 : startswith host ['u', 'n', 'i', 'x', ':'] = false) (h2 : host ≠ ['u', 'n', 'i', 'x']) :
    startswith (host ++ ':' :: rest) ['u', 'n', 'i', 'x', ':'] = false := by
  unfold startswith at *
  rcases host with _ | ⟨a, _ | ⟨b, _ | ⟨c, _ | ⟨d, _ | ⟨e, t⟩⟩⟩⟩⟩ <;>
    simp_all [List.isPrefixOf] <;> grind

theorem not_startswith_unix_of_no_colon (host : Str) (h : ':' ∉ host) :
    startswith host ['u', 'n', 'i', 'x', ':'] = false := by
  unfold startswith
  rcases host with _ | ⟨a, _ | ⟨b, _ | ⟨c, _ | ⟨d, _ | ⟨e, t⟩⟩⟩⟩⟩ <;>
    simp_all [List.isPrefixOf] <;> grind

theorem startswith_singleton_append (host rest : Str) (c : Char) (hc : c ≠ ':')
    (h : startswith host [c] = false) : startswith (host ++ ':' :: rest) [c] = false := by
  rw [startswith_singleton] at *
  cases host with
  | nil => simpa using fun e => hc e.symm
  | cons a as => simpa using h

/-- `host:port` string -/
theorem normalize_host_port (host : Str) (p : Nat)
    (hu : startswith host ['u', 'n', 'i', 'x', ':'] = false) (hu' : host ≠ ['u', 'n', 'i', 'x'])
    (hs : startswith host ['/'] = false) (hb : startswith host ['['] = false) :
    normalize (.str (host ++ [':'] ++ pyDecimal p)) = some (.tuple host p) := by
  have e : host ++ [':'] ++ pyDecimal p = host ++ ':' :: pyDecimal p := by simp
  have hend : endswith (host ++ [':'] ++ pyDecimal p) [']'] = false :=
    endswith_append_decimal _ p ']' (by decide)
  have hmem : ':' ∈ host ++ [':'] ++ pyDecimal p := by simp
  simp only [normalize, hend, hmem]
  rw [e, startswith_unix_append host _ hu hu', startswith_singleton_append host _ '/' (by decide) hs,
    rsplitColon_append _ _ (colon_not_mem_pyDecimal p)]
  simp [hb, pyInt_pyDecimal]

/-- bare `host` string -/
theorem normalize_host (host : Str) (hc : ':' ∉ host)
    (hs : startswith host ['/'] = false) (hb : startswith host ['['] = false) :
    normalize (.str host) = some (.tuple host 11211) := by
  simp [normalize, not_startswith_unix_of_no_colon host hc, hs, hb, hc]

/-- `unix:` prefix -/
theorem normalize_unix (path : Str) :
    normalize (.str (['u', 'n', 'i', 'x', ':'] ++ path)) = some (.path path) := by
  simp [normalize, startswith, List.isPrefixOf]

theorem normalize_path (path : Str) (h : startswith path ['/'] = true) :
    normalize (.str path) = some (.path path) := by
  have : startswith path ['u', 'n', 'i', 'x', ':'] = false := by
    rw [startswith_singleton] at h
    cases path with
    | nil => simp at h
    | cons a as =>
      have : a = '/' := by simpa using h
      subst this; simp [startswith, List.isPrefixOf]
  simp [normalize, this, h]

/-! ## bracketed (IPv6) spellings -/

theorem strip_brackets (h : Str) (hh : ∀ c ∈ h, c ≠ '[' ∧ c ≠ ']') :
    strip ('[' :: h ++ [']']) ['[', ']'] = h := by
  unfold strip
  cases h with
  | nil => simp [List.dropWhile]
  | cons a as =>
    have ha := hh a (by simp)
    have d1 : List.dropWhile (['[', ']'].contains ·) ('[' :: (a :: as) ++ [']']) = a :: as ++ [']'] := by
      simp [List.dropWhile, ha.1, ha.2]
    rw [d1]
    have hr : (a :: as ++ [']']).reverse = ']' :: (a :: as).reverse := by simp
    rw [hr]
    cases hrev : (a :: as).reverse with
    | nil => simp at hrev
    | cons b bs =>
      have hb := hh b (by rw [← List.mem_reverse, hrev]; simp)
      have d2 : List.dropWhile (['[', ']'].contains ·) (']' :: b :: bs) = b :: bs := by
        simp [List.dropWhile, hb.1, hb.2]
      rw [d2, ← hrev, List.reverse_reverse]

theorem normalize_bracketed (h : Str) (hh : ∀ c ∈ h, c ≠ '[' ∧ c ≠ ']') :
    normalize (.str ('[' :: h ++ [']'])) = some (.tuple h 11211) := by
  have hend : endswith ('[' :: h ++ [']']) [']'] = true := by
    rw [endswith_singleton, List.getLast?_concat]; simp
  have hst := strip_brackets h hh
  simp only [normalize, hend]
  simp [startswith, List.isPrefixOf]
  simpa using hst

theorem normalize_bracketed_port (h : Str) (p : Nat) (hh : ∀ c ∈ h, c ≠ '[' ∧ c ≠ ']') :
    normalize (.str ('[' :: h ++ [']'] ++ [':'] ++ pyDecimal p)) = some (.tuple h p) := by
  have hend : endswith ('[' :: h ++ [']'] ++ [':'] ++ pyDecimal p) [']'] = false :=
    endswith_append_decimal _ p ']' (by decide)
  have hmem : ':' ∈ '[' :: h ++ [']'] ++ [':'] ++ pyDecimal p := by simp
  have e : '[' :: h ++ [']'] ++ [':'] ++ pyDecimal p = ('[' :: h ++ [']']) ++ ':' :: pyDecimal p := by
    simp
  simp only [normalize, hend, hmem]
  have hst := strip_brackets h hh
  rw [e, rsplitColon_append _ _ (colon_not_mem_pyDecimal p)]
  simp [startswith, List.isPrefixOf, pyInt_pyDecimal]
  simpa using hst

/-! ## from spellings to the rendezvous node list -/

/-- the node list of the `RendezvousHash` after `HashClient.__init__(servers)` (hash.py lines 117–118:
`for server in servers: self.add_server(normalize_server_spec(server))`, and `add_server` ends with
`self.hasher.add_node(self._make_client_key(server))`); `none` = a spelling failed to normalise -/
def hashClientNodes (servers : List Spec) : Option (List String) :=
  (servers.mapM nodeName).map fun keys =>
    keys.foldl (fun nodes k => Rendezvous.addNode nodes (String.ofList k)) []

/-! ## `String` embedding -/

theorem toList_host_port (host : String) (p : Nat) :
    (host ++ ":" ++ toString p).toList = host.toList ++ [':'] ++ pyDecimal p := by
  simp [String.toList_append, pyDecimal, Nat.toList_repr]

end ServerSpec
