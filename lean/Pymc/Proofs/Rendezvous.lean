import Pymc.Model.Rendezvous
/-!
# Helper lemmas for C11 (rendezvous hashing)

Only core Lean.  String order facts used: `String.le_refl`, `String.le_trans`, `String.le_antisymm`,
`String.not_lt`, `String.lt_asymm` (all in core `Init.Data.String`).
-/
namespace Rendezvous

/-! ## set semantics of a history (specification side of C11 item 5) -/

/-- the set-of-servers semantics of one change, on membership predicates -/
def setChange (P : String → Prop) : Change → (String → Prop)
  | .add n => fun x => P x ∨ x = n
  | .remove n => fun x => P x ∧ x ≠ n

/-- the set-of-servers semantics of a history: fold of insert / erase on membership predicates -/
def setHistory (P : String → Prop) (h : List Change) : String → Prop := h.foldl setChange P

/-! ## string order -/

theorem str_le_of_lt {a b : String} (h : a < b) : a ≤ b := String.not_lt.mp (String.lt_asymm h)

theorem pyMaxStr_cases (a b : String) :
    (pyMaxStr a b = b ∧ a ≤ b) ∨ (pyMaxStr a b = a ∧ b ≤ a) := by
  unfold pyMaxStr
  split
  · next h => exact .inl ⟨rfl, str_le_of_lt h⟩
  · next h => exact .inr ⟨rfl, String.not_lt.mp h⟩

/-! ## `IsLexMax` -/

theorem IsLexMax.mem {score : String → Nat} {nodes : List String} {w : String}
    (h : IsLexMax score nodes w) : w ∈ nodes := h.1

theorem IsLexMax.unique {score : String → Nat} {nodes : List String} {w w' : String}
    (h : IsLexMax score nodes w) (h' : IsLexMax score nodes w') : w = w' := by
  have a := h.2 w' h'.1
  have b := h'.2 w h.1
  rcases a with a | ⟨a1, a2⟩ <;> rcases b with b | ⟨b1, b2⟩
  · omega
  · omega
  · omega
  · exact String.le_antisymm b2 a2

/-- `IsLexMax` only depends on the membership predicate of the list -/
theorem IsLexMax.congr {score : String → Nat} {nodes nodes' : List String} {w : String}
    (hm : ∀ n, n ∈ nodes ↔ n ∈ nodes') (h : IsLexMax score nodes w) : IsLexMax score nodes' w :=
  ⟨(hm w).mp h.1, fun n hn => h.2 n ((hm n).mpr hn)⟩

/-- `IsLexMax` survives shrinking the list as long as the winner stays -/
theorem IsLexMax.subset {score : String → Nat} {nodes nodes' : List String} {w : String}
    (hs : ∀ n, n ∈ nodes' → n ∈ nodes) (hw : w ∈ nodes') (h : IsLexMax score nodes w) :
    IsLexMax score nodes' w :=
  ⟨hw, fun n hn => h.2 n (hs n hn)⟩

/-! ## the loop invariant -/

/-- loop invariant: the state is `(score w, w)` for the lexicographic maximum `w` of the nodes seen -/
def Inv (score : String → Nat) (seen : List String) (st : Option (Nat × String)) : Prop :=
  ∃ w, st = some (score w, w) ∧ IsLexMax score seen w

theorem inv_first (score : String → Nat) (n : String) :
    Inv score [n] (stepNode score none n) := by
  refine ⟨n, rfl, List.mem_singleton.mpr rfl, ?_⟩
  intro m hm
  rw [List.mem_singleton.mp hm]
  exact .inr ⟨rfl, String.le_refl _⟩

theorem inv_step {score : String → Nat} {seen : List String} {st : Option (Nat × String)}
    (h : Inv score seen st) (n : String) : Inv score (seen ++ [n]) (stepNode score st n) := by
  obtain ⟨w, rfl, hw, hmax⟩ := h
  simp only [stepNode]
  split
  · next hgt =>
    refine ⟨n, rfl, by simp, ?_⟩
    intro m hm
    rcases List.mem_append.mp hm with hm | hm
    · rcases hmax m hm with h | ⟨h, _⟩ <;> (left; omega)
    · rw [List.mem_singleton.mp hm]; exact .inr ⟨rfl, String.le_refl _⟩
  · next hngt =>
    split
    · next heq =>
      rcases pyMaxStr_cases n w with ⟨e, hle⟩ | ⟨e, hle⟩
      · refine ⟨w, by rw [e, heq], by simp [hw], ?_⟩
        intro m hm
        rcases List.mem_append.mp hm with hm | hm
        · exact hmax m hm
        · rw [List.mem_singleton.mp hm]; exact .inr ⟨heq, hle⟩
      · refine ⟨n, by rw [e], by simp, ?_⟩
        intro m hm
        rcases List.mem_append.mp hm with hm | hm
        · rcases hmax m hm with h | ⟨h, hl⟩
          · left; omega
          · exact .inr ⟨by omega, String.le_trans hl hle⟩
        · rw [List.mem_singleton.mp hm]; exact .inr ⟨rfl, String.le_refl _⟩
    · next hne =>
      refine ⟨w, rfl, by simp [hw], ?_⟩
      intro m hm
      rcases List.mem_append.mp hm with hm | hm
      · exact hmax m hm
      · rw [List.mem_singleton.mp hm]; left; omega

theorem inv_foldl {score : String → Nat} (nodes : List String) :
    ∀ {seen : List String} {st : Option (Nat × String)}, Inv score seen st →
      Inv score (seen ++ nodes) (nodes.foldl (stepNode score) st) := by
  induction nodes with
  | nil => intro seen st h; simpa using h
  | cons n ns ih =>
    intro seen st h
    have := ih (inv_step h n)
    simpa [List.append_assoc] using this

theorem getNode_nil (score : String → Nat) : getNode score [] = none := rfl

theorem getNode_isLexMax (score : String → Nat) {nodes : List String} (hne : nodes ≠ []) :
    ∃ w, getNode score nodes = some w ∧ IsLexMax score nodes w := by
  match nodes, hne with
  | n :: ns, _ =>
    obtain ⟨w, hst, hw⟩ := inv_foldl (score := score) ns (inv_first score n)
    refine ⟨w, ?_, by simpa using hw⟩
    simp only [getNode, List.foldl_cons, hst, Option.map_some]

theorem getNode_eq_some_iff (score : String → Nat) (nodes : List String) (w : String) :
    getNode score nodes = some w ↔ IsLexMax score nodes w := by
  constructor
  · intro h
    have hne : nodes ≠ [] := by rintro rfl; simp [getNode_nil] at h
    obtain ⟨w', h1, h2⟩ := getNode_isLexMax score hne
    rw [h1] at h; cases h; exact h2
  · intro h
    have hne : nodes ≠ [] := by rintro rfl; exact absurd h.1 (by simp)
    obtain ⟨w', h1, h2⟩ := getNode_isLexMax score hne
    rw [h1, h2.unique h]

theorem getNode_set_ext (score : String → Nat) {nodes nodes' : List String}
    (hm : ∀ n, n ∈ nodes ↔ n ∈ nodes') : getNode score nodes = getNode score nodes' := by
  cases hn : nodes with
  | nil =>
    subst hn
    cases nodes' with
    | nil => rfl
    | cons a as => exact absurd ((hm a).mpr (by simp)) (by simp)
  | cons a as =>
    have hne : nodes ≠ [] := by simp [hn]
    obtain ⟨w, h1, h2⟩ := getNode_isLexMax score hne
    rw [← hn, h1]
    exact ((getNode_eq_some_iff score nodes' w).mpr (h2.congr hm)).symm

/-! ## `addNode`, `removeNode`, `applyHistory` -/

theorem mem_addNode (nodes : List String) (n x : String) :
    x ∈ addNode nodes n ↔ x ∈ nodes ∨ x = n := by
  unfold addNode
  split
  · next h =>
    constructor
    · exact .inl
    · rintro (h' | rfl)
      · exact h'
      · exact h
  · simp

theorem nodup_addNode {nodes : List String} (hd : nodes.Nodup) (n : String) :
    (addNode nodes n).Nodup := by
  unfold addNode
  split
  · exact hd
  · next h =>
    rw [List.nodup_append]
    refine ⟨hd, by simp, ?_⟩
    intro a ha b hb
    rw [List.mem_singleton.mp hb]
    rintro rfl; exact h ha

theorem removeNode_eq_some {nodes nodes' : List String} {n : String}
    (h : removeNode nodes n = some nodes') : n ∈ nodes ∧ nodes' = nodes.erase n := by
  unfold removeNode at h
  split at h
  · next hm => cases h; exact ⟨hm, rfl⟩
  · cases h

theorem removeNode_eq_none {nodes : List String} {n : String} :
    removeNode nodes n = none ↔ n ∉ nodes := by
  unfold removeNode; split <;> simp [*]

theorem mem_removeNode {nodes nodes' : List String} (hd : nodes.Nodup) {n : String}
    (h : removeNode nodes n = some nodes') (x : String) : x ∈ nodes' ↔ x ∈ nodes ∧ x ≠ n := by
  obtain ⟨_, rfl⟩ := removeNode_eq_some h
  rw [hd.mem_erase_iff]; exact And.comm

theorem nodup_removeNode {nodes nodes' : List String} (hd : nodes.Nodup) {n : String}
    (h : removeNode nodes n = some nodes') : nodes'.Nodup := by
  obtain ⟨_, rfl⟩ := removeNode_eq_some h
  exact hd.erase n

theorem mem_applyChange {nodes : List String} (hd : nodes.Nodup) (c : Change) (x : String) :
    x ∈ applyChange nodes c ↔ setChange (· ∈ nodes) c x := by
  cases c with
  | add n => exact mem_addNode nodes n x
  | remove n =>
    simp only [applyChange, setChange]
    cases hr : removeNode nodes n with
    | some nodes' => simpa using mem_removeNode hd hr x
    | none =>
      have hn := removeNode_eq_none.mp hr
      simp only [Option.getD_none]
      constructor
      · intro hx; exact ⟨hx, by rintro rfl; exact hn hx⟩
      · exact And.left

theorem nodup_applyChange {nodes : List String} (hd : nodes.Nodup) (c : Change) :
    (applyChange nodes c).Nodup := by
  cases c with
  | add n => exact nodup_addNode hd n
  | remove n =>
    simp only [applyChange]
    cases hr : removeNode nodes n with
    | some nodes' => simpa using nodup_removeNode hd hr
    | none => simpa using hd

theorem nodup_applyHistory {nodes : List String} (hd : nodes.Nodup) (h : List Change) :
    (applyHistory nodes h).Nodup := by
  induction h generalizing nodes with
  | nil => exact hd
  | cons c cs ih => exact ih (nodup_applyChange hd c)

theorem setChange_congr {P Q : String → Prop} (hpq : ∀ x, P x ↔ Q x) (c : Change) (x : String) :
    setChange P c x ↔ setChange Q c x := by
  cases c <;> simp [setChange, hpq]

theorem setHistory_congr {P Q : String → Prop} (hpq : ∀ x, P x ↔ Q x) (h : List Change)
    (x : String) : setHistory P h x ↔ setHistory Q h x := by
  induction h generalizing P Q with
  | nil => exact hpq x
  | cons c cs ih => exact ih (fun y => setChange_congr hpq c y)

theorem mem_applyHistory {nodes : List String} (hd : nodes.Nodup) (h : List Change) (x : String) :
    x ∈ applyHistory nodes h ↔ setHistory (· ∈ nodes) h x := by
  induction h generalizing nodes with
  | nil => exact Iff.rfl
  | cons c cs ih =>
    have := ih (nodup_applyChange hd c)
    simp only [applyHistory, List.foldl_cons] at this ⊢
    rw [this]
    exact setHistory_congr (fun y => mem_applyChange hd c y) cs x

/-! ## minimal disruption -/

theorem getNode_append_singleton (score : String → Nat) (nodes : List String) (n : String) :
    getNode score (nodes ++ [n]) = getNode score nodes ∨ getNode score (nodes ++ [n]) = some n := by
  simp only [getNode, List.foldl_append, List.foldl_cons, List.foldl_nil]
  cases nodes.foldl (stepNode score) none with
  | none => right; rfl
  | some st =>
    obtain ⟨hi, w⟩ := st
    simp only [stepNode]
    split
    · right; rfl
    · split
      · rcases pyMaxStr_cases n w with ⟨e, _⟩ | ⟨e, _⟩
        · left; simp [e]
        · right; simp [e]
      · left; rfl

end Rendezvous
