import Pymc.Model.HashInnerMany
import Pymc.Proofs.HashInnerPlain
/-!
# `HashCallMany` is the instance `HashInner.plain` of the generic multi-key model

`HashInnerMany.lean` is the multi-key code of `HashCallMany.lean` with the registered object as a parameter.  Instantiated
with one `Client` per server (`HashInner.plain`), it *is* the model of `HashCallMany.lean`: translating states (`toG`),
calls (`ofMCall`) and observations (`mobsMap`) commutes with both loops of `get_many` / `set_many`, with
`_safely_run_set_many`, with the loop of `delete_many`, with general calls and with runs (`runGM_plain`).  So the two
instances of the generic development — `plain` and `HashPooledCall.pooled` — are the multi-key operations of the
`use_pooling=False` and the `use_pooling=True` `HashClient`.
-/
namespace HashInner
open Exchange Client Framing Failover
open HashCall (addToBatch addToBatchKV batchCall updateRes keysOfRes MOp)

/-- a batch observation of `HashCallMany` as one of the plain instance -/
def bobsMap (bo : HashCall.BatchObs) : BObs plain := ⟨bo.server, bo.client, bo.step, bo.served⟩

/-- an observation of a general call -/
def mobsMap (ob : HashCall.MObs) : GMObs plain := ⟨resMap ob.res, ob.batches.map bobsMap⟩

def sumMap {β : Type} : Sum HashCall.HRes β → Sum (HRes Exc) β
  | .inl r => .inl (resMap r)
  | .inr b => .inr b

/-! ## the loops of `get_many` -/

theorem routeKeysG_plain {RK : Type} (ccfg : Wire.Cfg) (c : Cfg) (route : List Srv → RK → Option Srv) (now : Time)
    (st : HashCall.St) (ks : List (RK × Key.K)) (b : List (Srv × List Key.K)) :
    routeKeysG ccfg c route now (toG st) ks b =
      (toG (HashCall.routeKeysH ccfg c route now st ks b).1, sumMap (HashCall.routeKeysH ccfg c route now st ks b).2) := by
  induction ks generalizing st b with
  | nil => rfl
  | cons rkk ks ih =>
    obtain ⟨rk, k⟩ := rkk
    simp only [routeKeysG, HashCall.routeKeysH]
    cases Wire.checkKey ccfg k with
    | error e => rfl
    | ok w =>
      simp only []
      rw [getClient_plain]
      rcases HashCall.getClient c route now st rk with ⟨st1, g⟩
      cases g with
      | internalError => rfl
      | allDown => rfl
      | noClient => exact ih st1 b
      | client s cl => exact ih st1 _

theorem alookup_toG (s : Srv) (st : HashCall.St) : alookup s (toG st).clients = (alookup s st.clients).map objOf :=
  alookup_map s st.clients

/-- the second loop: if the step on a registered object commutes with the translation, so does the loop -/
theorem runBatchesG_plain {β γ : Type} (runOneG : St plain → Srv → Obj plain → β → St plain × HRes Exc × Option Step)
    (runOneH : HashCall.St → Srv → HashCall.IClient → β → HashCall.St × HashCall.HRes × Option Step)
    (onValue : γ → β → Res → γ) (onDefault : γ → β → γ) (fin : γ → Res)
    (hone : ∀ st s cl x, runOneG (toG st) s (objOf cl) x =
      (toG (runOneH st s cl x).1, resMap (runOneH st s cl x).2.1, (runOneH st s cl x).2.2))
    (st : HashCall.St) (bs : List (Srv × β)) (acc : γ) :
    runBatchesG runOneG onValue onDefault fin (toG st) bs acc =
      (toG (HashCall.runBatchesG runOneH onValue onDefault fin st bs acc).1,
        resMap (HashCall.runBatchesG runOneH onValue onDefault fin st bs acc).2.1,
        (HashCall.runBatchesG runOneH onValue onDefault fin st bs acc).2.2.map bobsMap) := by
  induction bs generalizing st acc with
  | nil => rfl
  | cons sx bs ih =>
    obtain ⟨s, x⟩ := sx
    simp only [runBatchesG, HashCall.runBatchesG]
    rw [alookup_toG]
    cases alookup s st.clients with
    | none => rfl
    | some cl =>
      simp only [Option.map_some]
      rw [hone]
      rcases runOneH st s cl x with ⟨st1, r, stp⟩
      cases r with
      | value v => simp only [resMap]; rw [ih]; cases stp <;> rfl
      | default => simp only [resMap]; rw [ih]; cases stp <;> rfl
      | raised s' e => cases stp <;> rfl
      | allDown => cases stp <;> rfl
      | illegalKey => cases stp <;> rfl
      | internalError => cases stp <;> rfl

theorem runBatchesH_eq_G' (ccfg : Wire.Cfg) (c : Cfg) (idx : Nat) (now : Time) (gets : Bool) (scripts : Srv → Script)
    (st : HashCall.St) (b : List (Srv × List Key.K)) (acc : Res) :
    HashCall.runBatchesH ccfg c idx now gets scripts st b acc =
      HashCall.runBatchesG (fun st s cl ks => HashCall.safelyRunFunc ccfg c idx now st s cl (batchCall gets ks) (scripts s))
        (fun acc _ r => updateRes acc r) (fun acc _ => acc) id st b acc := by
  induction b generalizing st acc with
  | nil => rfl
  | cons sks bs ih =>
    obtain ⟨s, ks⟩ := sks
    simp only [HashCall.runBatchesH, HashCall.runBatchesG]
    cases alookup s st.clients with
    | none => rfl
    | some cl =>
      simp only []
      rcases HashCall.safelyRunFunc ccfg c idx now st s cl (batchCall gets ks) (scripts s) with ⟨st1, r, stp⟩
      cases r <;> simp only [ih]

theorem getManyG_plain {RK : Type} (ccfg : Wire.Cfg) (c : Cfg) (route : List Srv → RK → Option Srv) (st : HashCall.St)
    (idx : Nat) (now fin : Time) (gets : Bool) (ks : List (RK × Key.K)) (scripts : Srv → Script) :
    getManyG ccfg c route (toG st) idx now fin gets ks scripts =
      (toG (HashCall.getManyH ccfg c route st idx now gets ks scripts).1,
        mobsMap (HashCall.getManyH ccfg c route st idx now gets ks scripts).2) := by
  unfold getManyG HashCall.getManyH
  rw [routeKeysG_plain]
  rcases HashCall.routeKeysH ccfg c route now st ks [] with ⟨st1, r | b⟩
  · rfl
  · simp only [sumMap, runGetBatchesG, runBatchesH_eq_G']
    rw [runBatchesG_plain (fun st s x ks => safelyRunFunc ccfg c idx now fin st s x (batchCall gets ks) (scripts s))
      (fun st s cl ks => HashCall.safelyRunFunc ccfg c idx now st s cl (batchCall gets ks) (scripts s))
      _ _ _ (fun st' s cl x => safelyRunFunc_plain ccfg c idx now fin st' s cl (batchCall gets x) (scripts s))]
    rfl

/-! ## `set_many` -/

theorem routeItemsG_plain {RK : Type} (ccfg : Wire.Cfg) (c : Cfg) (route : List Srv → RK → Option Srv) (now : Time)
    (st : HashCall.St) (items : List (RK × Key.K × Wire.Val)) (b : List (Srv × List (Key.K × Wire.Val))) (f : List Key.K) :
    routeItemsG ccfg c route now (toG st) items b f =
      (toG (HashCall.routeItemsH ccfg c route now st items b f).1, sumMap (HashCall.routeItemsH ccfg c route now st items b f).2) := by
  induction items generalizing st b f with
  | nil => rfl
  | cons x ks ih =>
    obtain ⟨rk, k, v⟩ := x
    simp only [routeItemsG, HashCall.routeItemsH]
    cases Wire.checkKey ccfg k with
    | error e => rfl
    | ok w =>
      simp only []
      rw [getClient_plain]
      rcases HashCall.getClient c route now st rk with ⟨st1, g⟩
      cases g with
      | internalError => rfl
      | allDown => rfl
      | noClient => exact ih st1 b _
      | client s cl => exact ih st1 _ f

theorem classOf_base_iff (e : Exc) : classOf e = .base ↔ isBaseExc e = true := by
  unfold classOf
  cases isBaseExc e
  · cases HashCall.isOSError e <;> simp
  · simp

theorem invokeSetManyG_plain (ccfg : Wire.Cfg) (c : Cfg) (idx : Nat) (now fin : Time) (st : HashCall.St) (s : Srv)
    (cl : HashCall.IClient) (call : Call) (sc : Script) (clear : Bool) :
    invokeSetManyG ccfg c idx now fin (toG st) s (objOf cl) call sc clear =
      (toG (HashCall.invokeSetMany ccfg c idx now st s cl call sc clear).1,
        resMap (HashCall.invokeSetMany ccfg c idx now st s cl call sc clear).2.1,
        (HashCall.invokeSetMany ccfg c idx now st s cl call sc clear).2.2) := by
  unfold invokeSetManyG HashCall.invokeSetMany
  rw [contact_plain]
  simp only []
  have hres : ∀ stp : Step, plain.res stp = stp.out.res := fun _ => rfl
  rw [hres]
  have hfin : ∀ r : Res,
      finishSetMany (toG (HashCall.contact ccfg idx st s cl call sc).1) s (HashCall.contact ccfg idx st s cl call sc).2 clear r =
        (toG (if clear then
            match aerase s (HashCall.contact ccfg idx st s cl call sc).1.fo.failed with
            | none => ((HashCall.contact ccfg idx st s cl call sc).1, HashCall.HRes.internalError,
                some (HashCall.contact ccfg idx st s cl call sc).2)
            | some f => ({ (HashCall.contact ccfg idx st s cl call sc).1 with
                            fo := { (HashCall.contact ccfg idx st s cl call sc).1.fo with failed := f } }, HashCall.HRes.value r,
                          some (HashCall.contact ccfg idx st s cl call sc).2)
          else ((HashCall.contact ccfg idx st s cl call sc).1, HashCall.HRes.value r,
            some (HashCall.contact ccfg idx st s cl call sc).2)).1,
         resMap (if clear then
            match aerase s (HashCall.contact ccfg idx st s cl call sc).1.fo.failed with
            | none => ((HashCall.contact ccfg idx st s cl call sc).1, HashCall.HRes.internalError,
                some (HashCall.contact ccfg idx st s cl call sc).2)
            | some f => ({ (HashCall.contact ccfg idx st s cl call sc).1 with
                            fo := { (HashCall.contact ccfg idx st s cl call sc).1.fo with failed := f } }, HashCall.HRes.value r,
                          some (HashCall.contact ccfg idx st s cl call sc).2)
          else ((HashCall.contact ccfg idx st s cl call sc).1, HashCall.HRes.value r,
            some (HashCall.contact ccfg idx st s cl call sc).2)).2.1,
         (if clear then
            match aerase s (HashCall.contact ccfg idx st s cl call sc).1.fo.failed with
            | none => ((HashCall.contact ccfg idx st s cl call sc).1, HashCall.HRes.internalError,
                some (HashCall.contact ccfg idx st s cl call sc).2)
            | some f => ({ (HashCall.contact ccfg idx st s cl call sc).1 with
                            fo := { (HashCall.contact ccfg idx st s cl call sc).1.fo with failed := f } }, HashCall.HRes.value r,
                          some (HashCall.contact ccfg idx st s cl call sc).2)
          else ((HashCall.contact ccfg idx st s cl call sc).1, HashCall.HRes.value r,
            some (HashCall.contact ccfg idx st s cl call sc).2)).2.2) := by
    intro r
    unfold finishSetMany
    cases clear
    · rfl
    · simp only [if_true]
      have hfo : (toG (HashCall.contact ccfg idx st s cl call sc).1).fo = (HashCall.contact ccfg idx st s cl call sc).1.fo := rfl
      rw [hfo]
      cases aerase s (HashCall.contact ccfg idx st s cl call sc).1.fo.failed <;> rfl
  cases (HashCall.contact ccfg idx st s cl call sc).2.out.res with
  | ok r => exact hfin r
  | error e =>
    simp only []
    rw [cls_plain]
    by_cases hb : isBaseExc e = true
    · have hc : classOf e = .base := (classOf_base_iff e).mpr hb
      simp only [hc, hb, if_true]
      rfl
    · have hc : ¬ classOf e = .base := fun h => hb ((classOf_base_iff e).mp h)
      simp only [hc, hb, if_false]
      cases c.ignoreExc
      · simp only [Bool.false_eq_true, if_false]
        rw [onError_plain]
        rfl
      · simp only [if_true]
        exact hfin _

theorem safelyRunSetManyG_plain (ccfg : Wire.Cfg) (c : Cfg) (idx : Nat) (now fin : Time) (st : HashCall.St) (s : Srv)
    (cl : HashCall.IClient) (call : Call) (sc : Script) :
    safelyRunSetManyG ccfg c idx now fin (toG st) s (objOf cl) call sc =
      (toG (HashCall.safelyRunSetMany ccfg c idx now st s cl call sc).1,
        resMap (HashCall.safelyRunSetMany ccfg c idx now st s cl call sc).2.1,
        (HashCall.safelyRunSetMany ccfg c idx now st s cl call sc).2.2) := by
  unfold safelyRunSetManyG HashCall.safelyRunSetMany
  have hfo : (toG st).fo = st.fo := rfl
  rw [hfo]
  cases alookup s st.fo.failed with
  | none => exact invokeSetManyG_plain ..
  | some p =>
    obtain ⟨attempts, failedTime⟩ := p
    simp only []
    by_cases h1 : attempts < c.ra
    · simp only [h1, if_true]
      by_cases h2 : now - failedTime > c.rt
      · simp only [h2, if_true]; exact invokeSetManyG_plain ..
      · simp only [h2, if_false]; rfl
    · simp only [h1, if_false]
      cases removeServer now st.fo s with
      | none => rfl
      | some fo' => exact invokeSetManyG_plain ccfg c idx now fin { st with fo := fo' } s cl call sc false

theorem setManyG_plain {RK : Type} (ccfg : Wire.Cfg) (c : Cfg) (route : List Srv → RK → Option Srv) (st : HashCall.St)
    (idx : Nat) (now fin : Time) (items : List (RK × Key.K × Wire.Val)) (expire : Wire.IntArg) (noreply : Option Bool)
    (flags : Option Int) (scripts : Srv → List (Key.K × Wire.Val) → Script) :
    setManyG ccfg c route (toG st) idx now fin items expire noreply flags scripts =
      (toG (HashCall.setManyH ccfg c route st idx now items expire noreply flags scripts).1,
        mobsMap (HashCall.setManyH ccfg c route st idx now items expire noreply flags scripts).2) := by
  unfold setManyG HashCall.setManyH
  rw [routeItemsG_plain]
  rcases HashCall.routeItemsH ccfg c route now st items [] [] with ⟨st1, r | ⟨b, f⟩⟩
  · rfl
  · simp only [sumMap, runSetBatchesG, HashCall.runSetBatchesH]
    rw [runBatchesG_plain
      (fun st s x b => safelyRunSetManyG ccfg c idx now fin st s x (.setMany b expire noreply flags) (scripts s b))
      (fun st s cl b => HashCall.safelyRunSetMany ccfg c idx now st s cl (.setMany b expire noreply flags) (scripts s b))
      _ _ _ (fun st' s cl x => safelyRunSetManyG_plain ccfg c idx now fin st' s cl (.setMany x expire noreply flags) (scripts s x))]
    rfl

/-! ## `delete_many` -/

theorem raisesG_resMap (r : HashCall.HRes) : raisesG (resMap r) = HashCall.raises r := by
  cases r <;> rfl

theorem deleteLoopG_plain {RK : Type} (ccfg : Wire.Cfg) (c : Cfg) (route : List Srv → RK → Option Srv) (idx : Nat)
    (now fin : Time) (noreply : Option Bool) (st : HashCall.St) (ks : List (RK × Key.K × Script)) :
    deleteLoopG ccfg c route idx now fin noreply (toG st) ks =
      (toG (HashCall.deleteLoop ccfg c route idx now noreply st ks).1,
        (HashCall.deleteLoop ccfg c route idx now noreply st ks).2.map obsMap) := by
  induction ks generalizing st with
  | nil => rfl
  | cons x rest ih =>
    obtain ⟨rk, k, sc⟩ := x
    simp only [deleteLoopG, HashCall.deleteLoop]
    rw [callG_plain]
    rcases HashCall.callH ccfg c route st idx now rk (.delete k noreply) sc with ⟨st1, ob⟩
    simp only []
    have hr : raisesG (obsMap ob).res = HashCall.raises ob.res := raisesG_resMap ob.res
    rw [hr]
    cases HashCall.raises ob.res
    · simp only [Bool.false_eq_true, if_false]
      rw [ih]
      rfl
    · rfl

theorem batchOfObsG_plain (ob : HashCall.HObs) : batchOfObsG (obsMap ob) = (HashCall.batchOfObs ob).map bobsMap := by
  unfold batchOfObsG HashCall.batchOfObs
  simp only [obsMap]
  cases ob.server with
  | none => rfl
  | some s =>
    simp only [Option.map_some, bobsMap]
    cases ob.res <;> rfl

theorem filterMap_batchOfObsG_plain (obs : List HashCall.HObs) :
    (obs.map obsMap).filterMap batchOfObsG = (obs.filterMap HashCall.batchOfObs).map bobsMap := by
  induction obs with
  | nil => rfl
  | cons ob rest ih =>
    simp only [List.map_cons, List.filterMap_cons, batchOfObsG_plain]
    cases HashCall.batchOfObs ob with
    | none => simpa using ih
    | some bo => simp [ih]

theorem find_raises_plain (obs : List HashCall.HObs) :
    (obs.map obsMap).find? (fun ob => raisesG ob.res) = (obs.find? (fun ob => HashCall.raises ob.res)).map obsMap := by
  induction obs with
  | nil => rfl
  | cons ob rest ih =>
    simp only [List.map_cons, List.find?_cons]
    have hr : raisesG (obsMap ob).res = HashCall.raises ob.res := raisesG_resMap ob.res
    rw [hr]
    cases HashCall.raises ob.res
    · exact ih
    · rfl

theorem deleteManyG_plain {RK : Type} (ccfg : Wire.Cfg) (c : Cfg) (route : List Srv → RK → Option Srv) (st : HashCall.St)
    (idx : Nat) (now fin : Time) (ks : List (RK × Key.K × Script)) (noreply : Option Bool) :
    deleteManyG ccfg c route (toG st) idx now fin ks noreply =
      (toG (HashCall.deleteManyH ccfg c route st idx now ks noreply).1,
        mobsMap (HashCall.deleteManyH ccfg c route st idx now ks noreply).2) := by
  unfold deleteManyG HashCall.deleteManyH
  rw [deleteLoopG_plain]
  simp only [mobsMap, filterMap_batchOfObsG_plain, find_raises_plain]
  cases (HashCall.deleteLoop ccfg c route idx now noreply st ks).2.find? (fun ob => HashCall.raises ob.res) <;> rfl

/-! ## general calls and runs -/

/-- one general call of `HashCallMany` is one general call of the plain instance -/
theorem callGM_plain {RK : Type} (ccfg : Wire.Cfg) (c : Cfg) (route : List Srv → RK → Option Srv) (st : HashCall.St)
    (idx : Nat) (mc : HashCall.MCall RK) :
    callGM ccfg c route (toG st) idx (ofMCall mc) =
      (toG (HashCall.callM ccfg c route st idx mc).1, mobsMap (HashCall.callM ccfg c route st idx mc).2) := by
  obtain ⟨op, now⟩ := mc
  cases op with
  | cmd rk call sc =>
    simp only [callGM, HashCall.callM, ofMCall]
    rw [callG_plain]
    rcases HashCall.callH ccfg c route st idx now rk call sc with ⟨st1, ob⟩
    simp only [mobsMap, batchOfObsG_plain]
    unfold HashCall.batchOfObs
    cases ob.server <;> rfl
  | getMany gets ks scripts => exact getManyG_plain ccfg c route st idx now now gets ks scripts
  | setMany items expire noreply flags scripts =>
    exact setManyG_plain ccfg c route st idx now now items expire noreply flags scripts
  | deleteMany ks noreply => exact deleteManyG_plain ccfg c route st idx now now ks noreply

/-- **the model of `HashCallMany.lean` is the plain instance of the generic multi-key model**: a run of `HashCall.runM` and
the run of `HashInner.runGM` on the translated state and history go through the same states and make the same
observations -/
theorem runGM_plain {RK : Type} (ccfg : Wire.Cfg) (c : Cfg) (route : List Srv → RK → Option Srv) (st : HashCall.St)
    (k : Nat) (calls : List (HashCall.MCall RK)) :
    runGM ccfg c route (toG st) k (calls.map ofMCall) =
      (toG (HashCall.runM ccfg c route st k calls).1, (HashCall.runM ccfg c route st k calls).2.map mobsMap) := by
  induction calls generalizing st k with
  | nil => rfl
  | cons mc rest ih =>
    simp only [List.map_cons, runGM, HashCall.runM]
    rw [callGM_plain]
    simp only []
    rw [ih]
end HashInner
