import Pymc.Proofs.HashBroadcastMixed
/-!
# Mixed histories of `HashClient ∘ Client`: key-addressed calls from a state with the bookkeeping invariants

From any state with `Book` (in particular one a broadcast left behind — a server out of rotation that has a failure record
again, a dead time that was reset by a `remove_server` that raised half-way) no key-addressed call ends in `internalError`,
and `Book` holds afterwards:

* `_get_client` (`getClient_book`): `_retry_dead` finds every candidate in `_dead_clients` (no duplicates), the routed server
  is in rotation, hence registered;
* `_safely_run_func` / `_safely_run_set_many` on a server in rotation (`safelyRunFunc_book`, `safelyRunSetMany_book`): through
  the abstract model (`safelyRunFunc_proj` + `Failover.stepOK_func`); the one case the projection of `set_many` does not
  cover — a `BaseException` under `ignore_exc` — leaves the bookkeeping as it was before the invocation
  (`safelyRunSetMany_base`);
* the two loops of a multi-key call (`routeKeysH_book` / `routeItemsH_book`: every batch belongs to a server in rotation, one
  batch per server; `runBatchesG_book`: a batch call takes at most its own server out of rotation);
* `callH_book`, `deleteLoop_book`, `callM_book`; `callB_book`, `runB_book`.
-/
namespace HashCall
open Exchange Client Framing Failover

/-! ## `_get_client` -/

theorem afterRetry_nodes_sub (c : Cfg) (now : Time) (st : State) (x : Srv) (h : x ∈ st.nodes) :
    x ∈ (afterRetry c now st).nodes := by
  unfold afterRetry
  split
  · exact h
  · split
    · exact (addNodes_mem _ x st.nodes).2 (.inr h)
    · exact h

theorem gotOf_client {Key : Type} {c : Cfg} {route : List Srv → Key → Option Srv} {ns : List Srv} {k : Key} {s : Srv}
    (h : gotOf c route ns k = .client s) : route ns k = some s := by
  unfold gotOf at h
  cases hr : route ns k with
  | none => rw [hr] at h; simp only [] at h; split at h <;> cases h
  | some s' => rw [hr] at h; cases h; rfl

theorem gotOf_ne_internal {Key : Type} (c : Cfg) (route : List Srv → Key → Option Srv) (ns : List Srv) (k : Key) :
    gotOf c route ns k ≠ .internalError := by
  unfold gotOf
  cases route ns k with
  | none => simp only []; split <;> exact fun h => by cases h
  | some s => exact fun h => by cases h

theorem getClient_book {Key : Type} {c : Cfg} (route : List Srv → Key → Option Srv) (hlaw : RouteLaw route) (now : Time)
    (st : St) (key : Key) (h : Book c st) :
    Book c (getClient c route now st key).1 ∧
    (getClient c route now st key).2.proj ≠ .internalError ∧
    (∀ x ∈ st.fo.nodes, x ∈ (getClient c route now st key).1.fo.nodes) ∧
    (∀ s cl, (getClient c route now st key).2 = .client s cl → s ∈ (getClient c route now st key).1.fo.nodes) := by
  obtain ⟨hg, -, hcov, -⟩ := getClient_proj c route hlaw now st key h.cover
  rw [getClient_eq route now key h.wf] at hg
  obtain ⟨hfo, hgot⟩ := Prod.mk.inj hg
  refine ⟨⟨hfo ▸ wf_afterRetry h.wf, hcov⟩, ?_, ?_, ?_⟩
  · rw [← hgot]; exact gotOf_ne_internal _ _ _ _
  · intro x hx
    rw [← hfo]; exact afterRetry_nodes_sub c now st.fo x hx
  · intro s cl hs
    rw [hs] at hgot
    rw [← hfo]
    exact hlaw.mem _ _ _ (gotOf_client hgot)

/-! ## `_safely_run_func` on a server in rotation -/

theorem absRes_internal (c : Cfg) : absRes c .internalError = .internalError := rfl

theorem safelyRunFunc_book {c : Cfg} (ccfg : Wire.Cfg) (idx : Nat) (now : Time) (st : St) (s : Srv) (cl : IClient)
    (call : Call) (sc : Script) (h : Book c st) (hs : s ∈ st.fo.nodes) :
    (safelyRunFunc ccfg c idx now st s cl call sc).2.1 ≠ .internalError ∧
    Book c (safelyRunFunc ccfg c idx now st s cl call sc).1 ∧
    ∀ y, y ≠ s → y ∈ st.fo.nodes → y ∈ (safelyRunFunc ccfg c idx now st s cl call sc).1.fo.nodes := by
  have hp := safelyRunFunc_proj ccfg c idx now st s cl call sc
  have hok := stepOK_func (c := c) (now := now)
    (env := fun _ => outcomeOfStep (safelyRunFunc ccfg c idx now st s cl call sc).2.2) h.wf hs
  rw [hp] at hok
  refine ⟨fun hres => ?_, ⟨hok.wf, fun x hx => ?_⟩, fun y hy hin => ?_⟩
  · have hr := hok.res
    simp only [hres, absRes_internal] at hr
    rcases hr with hr | hr | ⟨-, hr, -⟩ <;> cases hr
  · exact safelyRunFunc_keeps ccfg c idx now st s cl call sc x
      (h.cover x (safelyRunFunc_nodes ccfg c idx now st s cl call sc x hx))
  · exact (((view_eq_iff y st.fo _).1 (hok.frame y hy)).1).2 hin

/-! ## `_safely_run_set_many` on a server in rotation -/

/-- under `ignore_exc`, when the batch call ended in a `BaseException` the invocation did not touch the bookkeeping -/
theorem invokeSetMany_base (ccfg : Wire.Cfg) (c : Cfg) (idx : Nat) (now : Time) (st : St) (s : Srv) (cl : IClient)
    (call : Call) (sc : Script) (clear : Bool) (hi : c.ignoreExc = true)
    (hb : escapedBase (invokeSetMany ccfg c idx now st s cl call sc clear).2.1 = true) :
    (invokeSetMany ccfg c idx now st s cl call sc clear).1.fo = st.fo := by
  have hfin : ∀ r : Res, escapedBase
      (if clear then
        match aerase s (contact ccfg idx st s cl call sc).1.fo.failed with
        | none => ((contact ccfg idx st s cl call sc).1, HRes.internalError, some (contact ccfg idx st s cl call sc).2)
        | some f => ({ (contact ccfg idx st s cl call sc).1 with
                        fo := { (contact ccfg idx st s cl call sc).1.fo with failed := f } }, HRes.value r,
                      some (contact ccfg idx st s cl call sc).2)
      else ((contact ccfg idx st s cl call sc).1, HRes.value r, some (contact ccfg idx st s cl call sc).2)).2.1 = false := by
    intro r
    cases clear
    · rfl
    · simp only [if_true]
      cases aerase s (contact ccfg idx st s cl call sc).1.fo.failed <;> rfl
  unfold invokeSetMany at hb ⊢
  simp only [] at hb ⊢
  cases hres : (contact ccfg idx st s cl call sc).2.out.res with
  | ok r =>
    rw [hres] at hb
    simp only [] at hb
    cases (hfin r).symm.trans hb
  | error e =>
    rw [hres] at hb
    simp only [] at hb ⊢
    by_cases hbe : isBaseExc e = true
    · simp only [hbe, if_true]
      rfl
    · simp only [hbe, hi, if_true, Bool.false_eq_true, if_false] at hb
      cases (hfin _).symm.trans hb

theorem safelyRunSetMany_base (ccfg : Wire.Cfg) (c : Cfg) (idx : Nat) (now : Time) (st : St) (s : Srv) (cl : IClient)
    (call : Call) (sc : Script) (hi : c.ignoreExc = true)
    (hb : escapedBase (safelyRunSetMany ccfg c idx now st s cl call sc).2.1 = true) :
    (safelyRunSetMany ccfg c idx now st s cl call sc).1.fo = st.fo ∨
    removeServer now st.fo s = some (safelyRunSetMany ccfg c idx now st s cl call sc).1.fo := by
  unfold safelyRunSetMany at hb ⊢
  cases hf : alookup s st.fo.failed with
  | none =>
    simp only [hf] at hb ⊢
    exact .inl (invokeSetMany_base ccfg c idx now st s cl call sc false hi hb)
  | some p =>
    obtain ⟨attempts, failedTime⟩ := p
    simp only [hf] at hb ⊢
    by_cases h1 : attempts < c.ra
    · simp only [h1, if_true] at hb ⊢
      by_cases h2 : now - failedTime > c.rt
      · simp only [h2, if_true] at hb ⊢
        exact .inl (invokeSetMany_base ccfg c idx now st s cl call sc true hi hb)
      · simp only [h2, if_false] at hb
        cases hb
    · simp only [h1, if_false] at hb ⊢
      cases hrm : removeServer now st.fo s with
      | none =>
        simp only [hrm] at hb
        cases hb
      | some fo' =>
        simp only [hrm] at hb ⊢
        exact .inr (congrArg some (invokeSetMany_base ccfg c idx now { st with fo := fo' } s cl call sc false hi hb).symm)

theorem escapedBase_ne_internal {r : HRes} (h : escapedBase r = true) : r ≠ .internalError := by
  intro hr; rw [hr] at h; cases h

theorem safelyRunSetMany_book {c : Cfg} (ccfg : Wire.Cfg) (idx : Nat) (now : Time) (st : St) (s : Srv) (cl : IClient)
    (call : Call) (sc : Script) (h : Book c st) (hs : s ∈ st.fo.nodes) :
    (safelyRunSetMany ccfg c idx now st s cl call sc).2.1 ≠ .internalError ∧
    Book c (safelyRunSetMany ccfg c idx now st s cl call sc).1 ∧
    ∀ y, y ≠ s → y ∈ st.fo.nodes → y ∈ (safelyRunSetMany ccfg c idx now st s cl call sc).1.fo.nodes := by
  have hcov : Cover (safelyRunSetMany ccfg c idx now st s cl call sc).1 := fun x hx =>
    safelyRunSetMany_keeps ccfg c idx now st s cl call sc x
      (h.cover x (safelyRunSetMany_nodes ccfg c idx now st s cl call sc x hx))
  by_cases hb : c.ignoreExc = true ∧ escapedBase (safelyRunSetMany ccfg c idx now st s cl call sc).2.1 = true
  · refine ⟨escapedBase_ne_internal hb.2, ⟨?_, hcov⟩, ?_⟩
    · rcases safelyRunSetMany_base ccfg c idx now st s cl call sc hb.1 hb.2 with h1 | h1
      · rw [h1]; exact h.wf
      · have := wf_removeServerX now s h.wf
        rw [removeServerX_of_some h1] at this
        exact this
    · intro y hy hin
      rcases safelyRunSetMany_base ccfg c idx now st s cl call sc hb.1 hb.2 with h1 | h1
      · rw [h1]; exact hin
      · have := (removeServerX_nodes now st.fo s).2 y hy hin
        rw [removeServerX_of_some h1] at this
        exact this
  · have hp := safelyRunSetMany_proj ccfg c idx now st s cl call sc
      (fun _ => outcomeOfStep (safelyRunSetMany ccfg c idx now st s cl call sc).2.2) rfl hb
    have hok := stepOK_setMany (c := c) (now := now)
      (env := fun _ => outcomeOfStep (safelyRunSetMany ccfg c idx now st s cl call sc).2.2) h.wf hs
    rw [hp] at hok
    refine ⟨fun hres => ?_, ⟨hok.wf, hcov⟩, fun y hy hin => ?_⟩
    · have hr := hok.res
      simp only [hres, absRes_internal] at hr
      rcases hr with hr | hr | ⟨-, hr, -⟩ <;> cases hr
    · exact (((view_eq_iff y st.fo _).1 (hok.frame y hy)).1).2 hin

/-! ## the second loop of a multi-key call -/

theorem runBatchesG_book {β γ : Type} {c : Cfg} (runOne : St → Srv → IClient → β → St × HRes × Option Step)
    (onValue : γ → β → Res → γ) (onDefault : γ → β → γ) (fin : γ → Res)
    (hone : ∀ st s cl x, Book c st → s ∈ st.fo.nodes →
      (runOne st s cl x).2.1 ≠ .internalError ∧ Book c (runOne st s cl x).1 ∧
      ∀ y, y ≠ s → y ∈ st.fo.nodes → y ∈ (runOne st s cl x).1.fo.nodes)
    (st : St) (b : List (Srv × β)) (acc : γ) (h : Book c st) (hin : ∀ y ∈ keys b, y ∈ st.fo.nodes)
    (hnd : (keys b).Nodup) :
    (runBatchesG runOne onValue onDefault fin st b acc).2.1 ≠ .internalError ∧
    Book c (runBatchesG runOne onValue onDefault fin st b acc).1 := by
  induction b generalizing st acc with
  | nil => exact ⟨(fun h => by cases h), h⟩
  | cons sx bs ih =>
    obtain ⟨s, x⟩ := sx
    have hsin : s ∈ st.fo.nodes := hin s (by simp [keys])
    have hnd' : s ∉ keys bs ∧ (keys bs).Nodup := by simpa [keys] using hnd
    simp only [runBatchesG]
    cases hl : alookup s st.clients with
    | none =>
      obtain ⟨cl, hcl⟩ := h.cover s hsin
      rw [hl] at hcl; cases hcl
    | some cl =>
      obtain ⟨h1, h2, h3⟩ := hone st s cl x h hsin
      simp only []
      rcases hs : runOne st s cl x with ⟨st1, r, stp⟩
      rw [hs] at h1 h2 h3
      simp only [] at h1 h2 h3
      have hin' : ∀ y ∈ keys bs, y ∈ st1.fo.nodes := fun y hy =>
        h3 y (fun e => hnd'.1 (e ▸ hy)) (hin y (by simp [keys] at hy ⊢; exact .inr hy))
      cases r with
      | value v => exact ih st1 (onValue acc x v) h2 hin' hnd'.2
      | default => exact ih st1 (onDefault acc x) h2 hin' hnd'.2
      | raised s' e => exact ⟨(fun h => by cases h), h2⟩
      | allDown => exact ⟨(fun h => by cases h), h2⟩
      | illegalKey => exact ⟨(fun h => by cases h), h2⟩
      | internalError => exact absurd rfl h1

/-! ## the first loop of a multi-key call -/

theorem mem_addNode_nodes {st : St} {s : Srv} {ks : List Srv} (hs : s ∈ st.fo.nodes) (hin : ∀ y ∈ ks, y ∈ st.fo.nodes) :
    ∀ y ∈ addNode s ks, y ∈ st.fo.nodes := by
  intro y hy
  rcases (addNode_mem s y ks).1 hy with h | h
  · rw [h]; exact hs
  · exact hin y h

theorem routeKeysH_book {RK : Type} {c : Cfg} (ccfg : Wire.Cfg) (route : List Srv → RK → Option Srv) (hlaw : RouteLaw route)
    (now : Time) (ks : List (RK × Key.K)) (st : St) (b : List (Srv × List Key.K)) (h : Book c st)
    (hin : ∀ y ∈ keys b, y ∈ st.fo.nodes) (hnd : (keys b).Nodup) :
    Book c (routeKeysH ccfg c route now st ks b).1 ∧
    (∀ r, (routeKeysH ccfg c route now st ks b).2 = .inl r → r ≠ .internalError) ∧
    (∀ b', (routeKeysH ccfg c route now st ks b).2 = .inr b' →
      (∀ y ∈ keys b', y ∈ (routeKeysH ccfg c route now st ks b).1.fo.nodes) ∧ (keys b').Nodup) := by
  induction ks generalizing st b with
  | nil => exact ⟨h, (fun r hr => by cases hr), (fun b' hb' => by cases hb'; exact ⟨hin, hnd⟩)⟩
  | cons rkk ks ih =>
    obtain ⟨rk, k⟩ := rkk
    simp only [routeKeysH]
    cases hk : Wire.checkKey ccfg k with
    | error e => exact ⟨h, (fun r hr => by cases hr; exact (fun h => by cases h)), (fun b' hb' => by cases hb')⟩
    | ok w =>
      obtain ⟨hbk, hne, hsub, hcl⟩ := getClient_book route hlaw now st rk h
      simp only []
      rcases hg : getClient c route now st rk with ⟨st1, g⟩
      rw [hg] at hbk hne hsub hcl
      simp only [] at hbk hne hsub hcl
      cases g with
      | internalError => exact absurd rfl hne
      | allDown => exact ⟨hbk, (fun r hr => by cases hr; exact (fun h => by cases h)), (fun b' hb' => by cases hb')⟩
      | noClient => exact ih st1 b hbk (fun y hy => hsub y (hin y hy)) hnd
      | client s cl =>
        refine ih st1 (addToBatch s k b) hbk ?_ ?_
        · rw [keys_addToBatch]
          exact mem_addNode_nodes (hcl s cl rfl) (fun y hy => hsub y (hin y hy))
        · rw [keys_addToBatch]; exact addNode_nodup s _ hnd

theorem routeItemsH_book {RK : Type} {c : Cfg} (ccfg : Wire.Cfg) (route : List Srv → RK → Option Srv) (hlaw : RouteLaw route)
    (now : Time) (items : List (RK × Key.K × Wire.Val)) (st : St) (b : List (Srv × List (Key.K × Wire.Val)))
    (f : List Key.K) (h : Book c st) (hin : ∀ y ∈ keys b, y ∈ st.fo.nodes) (hnd : (keys b).Nodup) :
    Book c (routeItemsH ccfg c route now st items b f).1 ∧
    (∀ r, (routeItemsH ccfg c route now st items b f).2 = .inl r → r ≠ .internalError) ∧
    (∀ b' f', (routeItemsH ccfg c route now st items b f).2 = .inr (b', f') →
      (∀ y ∈ keys b', y ∈ (routeItemsH ccfg c route now st items b f).1.fo.nodes) ∧ (keys b').Nodup) := by
  induction items generalizing st b f with
  | nil => exact ⟨h, (fun r hr => by cases hr), (fun b' f' hb' => by cases hb'; exact ⟨hin, hnd⟩)⟩
  | cons x ks ih =>
    obtain ⟨rk, k, v⟩ := x
    simp only [routeItemsH]
    cases hk : Wire.checkKey ccfg k with
    | error e => exact ⟨h, (fun r hr => by cases hr; exact (fun h => by cases h)), (fun b' f' hb' => by cases hb')⟩
    | ok w =>
      obtain ⟨hbk, hne, hsub, hcl⟩ := getClient_book route hlaw now st rk h
      simp only []
      rcases hg : getClient c route now st rk with ⟨st1, g⟩
      rw [hg] at hbk hne hsub hcl
      simp only [] at hbk hne hsub hcl
      cases g with
      | internalError => exact absurd rfl hne
      | allDown => exact ⟨hbk, (fun r hr => by cases hr; exact (fun h => by cases h)), (fun b' f' hb' => by cases hb')⟩
      | noClient => exact ih st1 b _ hbk (fun y hy => hsub y (hin y hy)) hnd
      | client s cl =>
        refine ih st1 (addToBatchKV s k v b) f hbk ?_ ?_
        · rw [keys_addToBatchKV]
          exact mem_addNode_nodes (hcl s cl rfl) (fun y hy => hsub y (hin y hy))
        · rw [keys_addToBatchKV]; exact addNode_nodup s _ hnd

/-! ## the public key-addressed calls -/

theorem getManyH_book {RK : Type} {c : Cfg} (ccfg : Wire.Cfg) (route : List Srv → RK → Option Srv) (hlaw : RouteLaw route)
    (st : St) (idx : Nat) (now : Time) (gets : Bool) (ks : List (RK × Key.K)) (scripts : Srv → Script) (h : Book c st) :
    (getManyH ccfg c route st idx now gets ks scripts).2.res ≠ .internalError ∧
    Book c (getManyH ccfg c route st idx now gets ks scripts).1 := by
  obtain ⟨h1, h2, h3⟩ := routeKeysH_book ccfg route hlaw now ks st [] h (fun y hy => by simp [keys] at hy) (by simp [keys])
  unfold getManyH
  rcases hr : routeKeysH ccfg c route now st ks [] with ⟨st1, r | b⟩
  · rw [hr] at h1 h2
    exact ⟨h2 r rfl, h1⟩
  · rw [hr] at h1 h3
    obtain ⟨h4, h5⟩ := h3 b rfl
    simp only [runBatchesH_eq_G]
    exact runBatchesG_book _ _ _ _
      (fun st s cl x hb hs => safelyRunFunc_book ccfg idx now st s cl _ _ hb hs) st1 b _ h1 h4 h5

theorem setManyH_book {RK : Type} {c : Cfg} (ccfg : Wire.Cfg) (route : List Srv → RK → Option Srv) (hlaw : RouteLaw route)
    (st : St) (idx : Nat) (now : Time) (items : List (RK × Key.K × Wire.Val)) (expire : Wire.IntArg) (noreply : Option Bool)
    (flags : Option Int) (scripts : Srv → List (Key.K × Wire.Val) → Script) (h : Book c st) :
    (setManyH ccfg c route st idx now items expire noreply flags scripts).2.res ≠ .internalError ∧
    Book c (setManyH ccfg c route st idx now items expire noreply flags scripts).1 := by
  obtain ⟨h1, h2, h3⟩ := routeItemsH_book ccfg route hlaw now items st [] [] h (fun y hy => by simp [keys] at hy)
    (by simp [keys])
  unfold setManyH
  rcases hr : routeItemsH ccfg c route now st items [] [] with ⟨st1, r | ⟨b, f⟩⟩
  · rw [hr] at h1 h2
    exact ⟨h2 r rfl, h1⟩
  · rw [hr] at h1 h3
    obtain ⟨h4, h5⟩ := h3 b f rfl
    simp only [runSetBatchesH]
    exact runBatchesG_book _ _ _ _
      (fun st s cl x hb hs => safelyRunSetMany_book ccfg idx now st s cl _ _ hb hs) st1 b _ h1 h4 h5

theorem callH_book {Key : Type} {c : Cfg} (ccfg : Wire.Cfg) (route : List Srv → Key → Option Srv) (hlaw : RouteLaw route)
    (st : St) (idx : Nat) (now : Time) (rk : Key) (call : Call) (sc : Script) (h : Book c st) :
    (callH ccfg c route st idx now rk call sc).2.res ≠ .internalError ∧
    Book c (callH ccfg c route st idx now rk call sc).1 := by
  obtain ⟨hbk, hne, -, hcl⟩ := getClient_book route hlaw now st rk h
  rcases callH_cases ccfg c route st idx now rk call sc with ⟨-, hc⟩ | ⟨-, ⟨r, hr, hnc, h1, -, h3, -⟩ | ⟨s, cl, hgc, hc⟩⟩
  · rw [hc]; exact ⟨(fun h => by cases h), h⟩
  · refine ⟨?_, h1 ▸ hbk⟩
    rw [h3]
    rw [hr] at hne
    cases r with
    | client s => exact absurd rfl (hnc s)
    | noClient => exact fun h => by cases h
    | allDown => exact fun h => by cases h
    | internalError => exact absurd rfl hne
  · rw [hc]
    obtain ⟨h4, h5, -⟩ := safelyRunFunc_book ccfg idx now (getClient c route now st rk).1 s cl call sc hbk (hcl s cl hgc)
    exact ⟨h4, h5⟩

theorem deleteLoop_book {RK : Type} {c : Cfg} (ccfg : Wire.Cfg) (route : List Srv → RK → Option Srv) (hlaw : RouteLaw route)
    (idx : Nat) (now : Time) (noreply : Option Bool) (st : St) (ks : List (RK × Key.K × Script)) (h : Book c st) :
    Book c (deleteLoop ccfg c route idx now noreply st ks).1 ∧
    ∀ ob ∈ (deleteLoop ccfg c route idx now noreply st ks).2, ob.res ≠ .internalError := by
  induction ks generalizing st with
  | nil => exact ⟨h, (fun ob hob => by simp [deleteLoop] at hob)⟩
  | cons x rest ih =>
    obtain ⟨rk, k, sc⟩ := x
    obtain ⟨h1, h2⟩ := callH_book ccfg route hlaw st idx now rk (.delete k noreply) sc h
    simp only [deleteLoop]
    rcases hc : callH ccfg c route st idx now rk (.delete k noreply) sc with ⟨st1, ob⟩
    rw [hc] at h1 h2
    simp only [] at h1 h2 ⊢
    split
    · exact ⟨h2, (fun ob' hob => by simp only [List.mem_singleton] at hob; subst hob; exact h1)⟩
    · obtain ⟨h3, h4⟩ := ih st1 h2
      refine ⟨h3, fun ob' hob => ?_⟩
      rcases List.mem_cons.mp hob with h | h
      · subst h; exact h1
      · exact h4 ob' h

/-- **no key-addressed call made in a state with the bookkeeping invariants ends in `internalError`, and the invariants hold
afterwards** -/
theorem callM_book {RK : Type} {c : Cfg} (ccfg : Wire.Cfg) (route : List Srv → RK → Option Srv) (hlaw : RouteLaw route)
    (st : St) (idx : Nat) (mc : MCall RK) (h : Book c st) :
    (callM ccfg c route st idx mc).2.res ≠ .internalError ∧ Book c (callM ccfg c route st idx mc).1 := by
  obtain ⟨op, now⟩ := mc
  cases op with
  | cmd rk call sc => exact callH_book ccfg route hlaw st idx now rk call sc h
  | getMany gets ks scripts => exact getManyH_book ccfg route hlaw st idx now gets ks scripts h
  | setMany items expire noreply flags scripts =>
    exact setManyH_book ccfg route hlaw st idx now items expire noreply flags scripts h
  | deleteMany ks noreply =>
    obtain ⟨h1, h2⟩ := deleteLoop_book ccfg route hlaw idx now noreply st ks h
    refine ⟨?_, h1⟩
    show (deleteManyH ccfg c route st idx now ks noreply).2.res ≠ .internalError
    simp only [deleteManyH]
    cases hf : (deleteLoop ccfg c route idx now noreply st ks).2.find? (fun ob => raises ob.res) with
    | none => exact fun h => by cases h
    | some ob => exact h2 ob (List.mem_of_find?_eq_some hf)

/-! ## mixed histories -/

theorem callB_book {RK : Type} {c : Cfg} (ccfg : Wire.Cfg) (route : List Srv → RK → Option Srv) (hlaw : RouteLaw route)
    (st : St) (idx : Nat) (bc : BCall RK) (h : Book c st) :
    Book c (callB ccfg c route st idx bc).1 ∧
    ∀ ob, (callB ccfg c route st idx bc).2 = .keyed ob → ob.res ≠ .internalError := by
  cases bc with
  | keyed mc =>
    obtain ⟨h1, h2⟩ := callM_book ccfg route hlaw st idx mc h
    exact ⟨h2, (fun ob hob => by cases hob; exact h1)⟩
  | broadcast op scripts now =>
    exact ⟨book_broadcastH ccfg st idx now op scripts h, (fun ob hob => by cases hob)⟩

/-- **along every mixed history from a state with the bookkeeping invariants: the invariants hold at the end, and no
key-addressed call ends in `internalError`** -/
theorem runB_book {RK : Type} {c : Cfg} (ccfg : Wire.Cfg) (route : List Srv → RK → Option Srv) (hlaw : RouteLaw route)
    (st : St) (k : Nat) (calls : List (BCall RK)) (h : Book c st) :
    Book c (runB ccfg c route st k calls).1 ∧
    ∀ (i : Nat) (ob : MObs), (runB ccfg c route st k calls).2[i]? = some (XObs.keyed ob) → ob.res ≠ .internalError := by
  induction calls generalizing st k with
  | nil => exact ⟨h, (fun i ob hi => by simp [runB] at hi)⟩
  | cons bc rest ih =>
    obtain ⟨h1, h2⟩ := callB_book ccfg route hlaw st k bc h
    obtain ⟨h3, h4⟩ := ih (callB ccfg c route st k bc).1 (k + 1) h1
    rw [runB_cons]
    refine ⟨h3, fun i ob hi => ?_⟩
    cases i with
    | zero =>
      simp only [List.getElem?_cons_zero, Option.some.injEq] at hi
      exact h2 ob hi
    | succ i =>
      simp only [List.getElem?_cons_succ] at hi
      exact h4 i ob hi

end HashCall
