import Pymc.Model.Key
/-!
# Helper lemmas for C20: the `bytes.split()` model `pySplitWs`

Generalised statements about the accumulator version `splitGo r cur`, then the corollaries for
`pySplitWs w = splitGo w []`.
-/
namespace Key
open Bytes

/-- the non-whitespace bytes of a byte string -/
def nonWs (r : Bytes) : Bytes := r.filter (fun b => !isWs b)

/-- Concatenating the parts gives back exactly the accumulator followed by the non-whitespace bytes
of the remaining input (nothing is lost, nothing is invented, order is kept). -/
theorem splitGo_flatten (r cur : Bytes) : (splitGo r cur).flatten = cur ++ nonWs r := by
  induction r generalizing cur with
  | nil => by_cases h : cur = [] <;> simp [splitGo, nonWs, h]
  | cons x r ih =>
    unfold splitGo
    by_cases hx : isWs x = true
    · by_cases hc : cur = []
      · simp [hx, hc, ih, nonWs]
      · simp [hx, hc, ih, nonWs]
    · simp [hx, ih, nonWs]

/-- Every part is non-empty and whitespace-free, provided the accumulator is whitespace-free. -/
theorem splitGo_parts (r cur : Bytes) (hcur : ∀ b ∈ cur, isWs b = false) :
    ∀ p ∈ splitGo r cur, p ≠ [] ∧ ∀ b ∈ p, isWs b = false := by
  induction r generalizing cur with
  | nil =>
    intro p hp
    by_cases h : cur = []
    · simp [splitGo, h] at hp
    · simp [splitGo, h] at hp; subst hp; exact ⟨h, hcur⟩
  | cons x r ih =>
    intro p hp
    unfold splitGo at hp
    by_cases hx : isWs x = true
    · by_cases hc : cur = []
      · simp [hx, hc] at hp; exact ih [] (by simp) p hp
      · simp [hx, hc] at hp
        rcases hp with rfl | hp
        · exact ⟨hc, hcur⟩
        · exact ih [] (by simp) p hp
    · simp [hx] at hp
      refine ih (cur ++ [x]) ?_ p hp
      intro b hb
      simp at hb
      rcases hb with hb | rfl
      · exact hcur b hb
      · simpa using hx

/-- On whitespace-free input the whole of `cur ++ r` is the single part (or there is no part when it
is empty). -/
theorem splitGo_noWs (r cur : Bytes) (hr : ∀ b ∈ r, isWs b = false) :
    splitGo r cur = if cur ++ r = [] then [] else [cur ++ r] := by
  induction r generalizing cur with
  | nil => by_cases h : cur = [] <;> simp [splitGo, h]
  | cons x r ih =>
    have hx : isWs x = false := hr x (by simp)
    unfold splitGo
    simp [hx]
    rw [ih _ (fun b hb => hr b (by simp [hb]))]
    simp

/-- No part at all iff the accumulator is empty and the rest is all whitespace. -/
theorem splitGo_eq_nil (r cur : Bytes) :
    splitGo r cur = [] ↔ cur = [] ∧ ∀ b ∈ r, isWs b = true := by
  induction r generalizing cur with
  | nil => by_cases h : cur = [] <;> simp [splitGo, h]
  | cons x r ih =>
    unfold splitGo
    by_cases hx : isWs x = true
    · by_cases hc : cur = []
      · simp [hx, hc, ih]
      · simp [hx, hc]
    · simp [hx, ih]

/-! ## corollaries for `pySplitWs` -/

theorem pySplitWs_flatten (w : Bytes) : (pySplitWs w).flatten = nonWs w := by
  simp [pySplitWs, splitGo_flatten]

theorem pySplitWs_parts (w : Bytes) :
    ∀ p ∈ pySplitWs w, p ≠ [] ∧ ∀ b ∈ p, isWs b = false :=
  splitGo_parts w [] (by simp)

theorem pySplitWs_eq_nil (w : Bytes) : pySplitWs w = [] ↔ ∀ b ∈ w, isWs b = true := by
  simp [pySplitWs, splitGo_eq_nil]

theorem pySplitWs_eq_singleton_self (w : Bytes) :
    pySplitWs w = [w] ↔ (w ≠ [] ∧ ∀ b ∈ w, isWs b = false) := by
  constructor
  · intro h
    have hp := pySplitWs_parts w w (by simp [h])
    exact hp
  · rintro ⟨hne, hws⟩
    have := splitGo_noWs w [] hws
    simpa [pySplitWs, hne] using this

/-- mixed input (some whitespace, some non-whitespace) never splits to `[w]` -/
theorem pySplitWs_mixed (w : Bytes) (h1 : ∃ b ∈ w, isWs b = true) (_h2 : ∃ b ∈ w, isWs b = false) :
    pySplitWs w ≠ [w] := by
  intro h
  obtain ⟨b, hb, hws⟩ := h1
  have := ((pySplitWs_eq_singleton_self w).1 h).2 b hb
  simp [hws] at this

/-- mixed input: at least two parts, or a single part different from `w`; never zero parts -/
theorem pySplitWs_mixed' (w : Bytes) (h1 : ∃ b ∈ w, isWs b = true) (h2 : ∃ b ∈ w, isWs b = false) :
    2 ≤ (pySplitWs w).length ∨ ∃ p, pySplitWs w = [p] ∧ p ≠ w := by
  have hne := pySplitWs_mixed w h1 h2
  match h : pySplitWs w with
  | [] =>
    obtain ⟨b, hb, hws⟩ := h2
    have := (pySplitWs_eq_nil w).1 h b hb
    simp [hws] at this
  | [p] => right; exact ⟨p, rfl, fun e => hne (by rw [h, e])⟩
  | _ :: _ :: _ => left; simp
