import Pymc.Proofs.RefineFetch
/-! `onServer` along the fetch path. -/
namespace AbsMap
open Wire

/-- the fold of `applyLoud` for a fetch, named -/
def fetchStep (e : Option Int) (acc : St × List (Bytes × Item)) (k : Bytes) : St × List (Bytes × Item) :=
  match live acc.1 k with
  | none => acc
  | some it =>
    match e with
    | none => (acc.1, acc.2 ++ [(k, it)])
    | some ex =>
      let it' := { it with exp := absExp acc.1.now ex }
      ({ acc.1 with items := put acc.1.items k it' }, acc.2 ++ [(k, it')])

def fetchRun (s : St) (e : Option Int) (keys : List Bytes) : St × List (Bytes × Item) :=
  keys.foldl (fetchStep e) (settle s, [])

theorem apply_fetch (s : St) (verb : FVerb) (e : Option Int) (keys : List Bytes) :
    AbsMap.apply s (.fetch verb e keys) = ((fetchRun s e keys).1, .values (fetchRun s e keys).2) := by
  simp only [AbsMap.apply, applyLoud, reqNoreply, Bool.false_eq_true, if_false, fetchRun]
  rfl

theorem fetchStep_keys (e : Option Int) (K : List Bytes) (keys : List Bytes) (acc : St × List (Bytes × Item))
    (hacc : ∀ p ∈ acc.2, p.1 ∈ K) (hk : ∀ k ∈ keys, k ∈ K) :
    ∀ p ∈ (keys.foldl (fetchStep e) acc).2, p.1 ∈ K := by
  induction keys generalizing acc with
  | nil => simpa using hacc
  | cons k ks ih =>
    simp only [List.foldl_cons]
    apply ih _ _ (fun x hx => hk x (by simp [hx]))
    have hkK := hk k (by simp)
    unfold fetchStep
    cases live acc.1 k with
    | none => exact hacc
    | some it =>
      cases e with
      | none =>
        intro p hp; simp at hp
        rcases hp with hp | rfl
        · exact hacc p hp
        · exact hkK
      | some ex =>
        intro p hp; simp at hp
        rcases hp with hp | rfl
        · exact hacc p hp
        · exact hkK

theorem fetchRun_keys (s : St) (e : Option Int) (keys : List Bytes) :
    ∀ p ∈ (fetchRun s e keys).2, p.1 ∈ keys :=
  fetchStep_keys e keys keys _ (by simp) (fun _ h => h)
end AbsMap

namespace Client
open Bytes Wire Exchange Readers AbsMap ApiSpec

theorem mapOut_mapOut {α β γ} (o : CallOut α) (f : α → Except Exc β) (g : β → Except Exc γ) :
    mapOut (mapOut o f) g = mapOut o (fun a => match f a with | .ok b => g b | .error e => .error e) := by
  unfold mapOut
  cases o.res with
  | error e => rfl
  | ok a => simp only; cases f a <;> rfl

theorem render_values (verb : FVerb) (e : Option Int) (ws : List Bytes) (vs : List (Bytes × AbsMap.Item)) :
    Server.render (.fetch verb e ws) (.values vs) =
      (vs.flatMap fun p => Server.renderValue (verb = .gets || verb = .gats) p.1 p.2) ++ ofString "END" ++ CRLF := by
  cases verb <;> simp [Server.render]

theorem flatMap_renderValue_length (wc : Bool) (vs : List (Bytes × AbsMap.Item)) :
    vs.length ≤ (vs.flatMap fun p => Server.renderValue wc p.1 p.2).length := by
  induction vs with
  | nil => simp
  | cons p vs ih =>
    have : 1 ≤ (Server.renderValue wc p.1 p.2).length := by
      simp [Server.renderValue, CRLF]
    simp only [List.flatMap_cons, List.length_append, List.length_cons]; omega

theorem tok_of_validKey {w : Bytes} (h : validKey w = true) : Key.Tok w := by
  obtain ⟨h1, _, h3⟩ := (validKey_iff w).1 h
  exact ⟨h1, fun b hb => ((Key.forbidden_false_iff b).1 (h3 b hb)).1⟩

theorem exchangeFetch_open (kind : FetchKind) (cmd : Bytes) (wanted : List Bytes) (evs : List Ev) :
    (exchangeFetch kind cmd wanted false true { evs := evs }).sent = some cmd := by
  simp only [exchangeFetch]
  cases (fetchLoop kind wanted (totalLen [] evs) [] evs []).res <;> rfl

theorem exchangeFetch_ok (kind : FetchKind) (cmd : Bytes) (wanted : List Bytes) (evs : List Ev)
    (r : List FetchEntry) (un : List Ev)
    (h : fetchLoop kind wanted (totalLen [] evs) [] evs [] = ⟨.ok r, un, false⟩) :
    exchangeFetch kind cmd wanted false true { evs := evs } = ⟨.ok r, true, false, some cmd, un⟩ := by
  simp only [exchangeFetch, h]
  rfl

theorem onServer_fetch_aux (cfg : Cfg) (s : St) (c : Call) (wc : Bool) (wire : List Bytes)
    (cmd : Bytes) (post : List FetchEntry → Except Exc Res) (s' : St) (vs : List (Bytes × AbsMap.Item))
    (hcall : ∀ evs, call cfg false true c { evs := evs } =
      mapOut (exchangeFetch (.values wc) cmd wire false true { evs := evs }) post)
    (hfeed : Server.feed s cmd =
      some (s', (vs.flatMap fun p => Server.renderValue wc p.1 p.2) ++ ofString "END" ++ CRLF))
    (hkeys : ∀ p ∈ vs, Key.Tok p.1 ∧ p.1 ∈ wire) :
    onServer cfg s c = (s', post (vs.map fun p => .item (toItem wc p)), true) := by
  rw [onServer_sent cfg s c cmd _ _ ?_ hfeed]
  · generalize hr : (vs.flatMap fun p => Server.renderValue wc p.1 p.2) ++ ofString "END" ++ CRLF = reply
    have hne : reply ≠ [] := by rw [← hr]; simp [CRLF]
    have hlen : vs.length < reply.length + 2 := by
      have := flatMap_renderValue_length wc vs
      rw [← hr]; simp only [List.length_append]; omega
    have htl : totalLen [] [.data reply] = (reply.length + 2) + 1 := by
      simp [totalLen, joinData]
    have hloop : fetchLoop (.values wc) wire (totalLen [] [.data reply]) [] [.data reply] [] =
        ⟨.ok (vs.map fun p => .item (toItem wc p)), [], false⟩ := by
      rw [htl, fetchLoop_single _ _ _ _ hne]
      have := fetchLoop_values wc wire vs hkeys (reply.length + 2 + 1) (by omega) []
      rw [hr, List.nil_append] at this
      exact this
    rw [if_neg hne, hcall, exchangeFetch_ok _ _ _ _ _ _ hloop]
    simp [mapOut]
  · have := hcall []
    rw [show ({} : Script) = { evs := [] } from rfl, this, mapOut_sent, exchangeFetch_open]

theorem onServer_fetch (cfg : Cfg) (s : St) (c : Call) (verb : FVerb) (e : Option Int) (wire : List Bytes)
    (cmd : Bytes) (post : List FetchEntry → Except Exc Res)
    (hcall : ∀ evs, call cfg false true c { evs := evs } =
      mapOut (exchangeFetch (.values (verb = .gets || verb = .gats)) cmd wire false true { evs := evs }) post)
    (hparse : parseAll cmd.length cmd = some [.fetch verb e wire])
    (hwire : ∀ w ∈ wire, validKey w = true) :
    onServer cfg s c =
      ((fetchRun s e wire).1,
       post ((fetchRun s e wire).2.map fun p => .item (toItem (verb = .gets || verb = .gats) p)), true) := by
  have hfeed := Server.feed_eq s _ _ hparse
  rw [applyAll_single, apply_fetch] at hfeed
  simp only [Server.renderAll, render_values, List.append_nil] at hfeed
  refine onServer_fetch_aux cfg s c _ wire cmd post _ _ hcall hfeed ?_
  intro p hp
  have := fetchRun_keys s e wire p hp
  exact ⟨tok_of_validKey (hwire _ this), this⟩
end Client
