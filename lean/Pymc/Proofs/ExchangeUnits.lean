import Pymc.Proofs.ExchangeBasic
import Pymc.Props.C03
/-! Helper lemmas for C01: on a fault-free delivery of exactly the owed reply units, the store and misc
loops consume exactly those units. -/
namespace Exchange
open Bytes Readers Wire Framing

/-- the call either returned normally having consumed everything, or raised and closed the socket -/
def ExactOrClosed {α} (o : Out α) : Prop :=
  (∃ r, o.res = .ok r ∧ o.closed = false ∧ joinData o.unread = [] ∧ clean o.unread) ∨
  (∃ e, o.res = .error e ∧ o.closed = true)

theorem splitLine_append_unit {u l : Bytes} (h : splitLine u = some (l, [])) (t : Bytes) :
    splitLine (u ++ t) = some (l, t) := by
  simp only [splitLine, Option.map_eq_some_iff, Prod.mk.injEq] at h ⊢
  obtain ⟨p, hp, hl, hd⟩ := h
  have hlt := findCRLF_lt hp
  refine ⟨p, findCRLF_append_of_some hp t, ?_, ?_⟩
  · rw [List.take_append_of_le_length (by omega)]; exact hl
  · rw [List.drop_append_of_le_length (by omega), hd]; rfl

theorem splitSegment_append_unit {tok u s : Bytes} (h : splitSegment tok u = some (s, [])) (t : Bytes) :
    splitSegment tok (u ++ t) = some (s, t) := by
  simp only [splitSegment, Option.map_eq_some_iff, Prod.mk.injEq] at h ⊢
  obtain ⟨p, hp, hl, hd⟩ := h
  have hlt := findSub_bound hp
  refine ⟨p, findSub_append_of_some hp t, ?_, ?_⟩
  · rw [List.take_append_of_le_length (by omega)]; exact hl
  · rw [List.drop_append_of_le_length (by omega), hd]; rfl

theorem joinData_nil_of_append {buf : Bytes} {evs : List Ev} (h : buf ++ joinData evs = []) :
    joinData evs = [] := by
  simp at h; exact h.2

theorem storeLoop_units (verb : SVerb) (us : List Bytes) (buf : Bytes) (evs : List Ev)
    (acc : List (Option Bool)) (hc : clean evs) (hu : ∀ u ∈ us, LineUnit u)
    (hs : buf ++ joinData evs = us.flatten) :
    ExactOrClosed (storeLoop verb us.length buf evs acc) := by
  induction us generalizing buf evs acc with
  | nil =>
    left; exact ⟨acc, rfl, rfl, joinData_nil_of_append hs, hc⟩
  | cons u us ih =>
    obtain ⟨l, hl⟩ := hu u (by simp)
    have hsp : splitLine (buf ++ joinData evs) = some (l, us.flatten) := by
      rw [hs, List.flatten_cons]; exact splitLine_append_unit hl _
    obtain ⟨rest, evs', hr, ht, hc'⟩ := (C03_readline_flat buf evs hc).1 _ _ hsp
    simp only [List.length_cons, storeLoop, hr]
    split
    · right; exact ⟨_, rfl, rfl⟩
    · split
      · exact ih _ _ _ hc' (fun u hu' => hu u (by simp [hu'])) ht
      · right; exact ⟨_, rfl, rfl⟩

/-- the reply unit a `_misc_cmd` reader expects -/
def MiscUnit : Option Bytes → Bytes → Prop
  | none => LineUnit
  | some t => SegUnit t

theorem miscLoop_units (tok : Option Bytes) (us : List Bytes) (buf : Bytes) (evs : List Ev)
    (acc : List Bytes) (hc : clean evs) (hu : ∀ u ∈ us, MiscUnit tok u)
    (hs : buf ++ joinData evs = us.flatten) :
    ExactOrClosed (miscLoop tok us.length buf evs acc) := by
  induction us generalizing buf evs acc with
  | nil =>
    left; exact ⟨acc, rfl, rfl, joinData_nil_of_append hs, hc⟩
  | cons u us ih =>
    cases tok with
    | none =>
      obtain ⟨l, hl⟩ := hu u (by simp)
      have hsp : splitLine (buf ++ joinData evs) = some (l, us.flatten) := by
        rw [hs, List.flatten_cons]; exact splitLine_append_unit hl _
      obtain ⟨rest, evs', hr, ht, hc'⟩ := (C03_readline_flat buf evs hc).1 _ _ hsp
      simp only [List.length_cons, miscLoop, hr]
      split
      · right; exact ⟨_, rfl, rfl⟩
      · exact ih _ _ _ hc' (fun u hu' => hu u (by simp [hu'])) ht
    | some t =>
      obtain ⟨l, hl⟩ := hu u (by simp)
      have hsp : splitSegment t (buf ++ joinData evs) = some (l, us.flatten) := by
        rw [hs, List.flatten_cons]; exact splitSegment_append_unit hl _
      obtain ⟨rest, evs', hr, ht, hc'⟩ := (C03_readsegment_flat t buf evs hc).1 _ _ hsp
      simp only [List.length_cons, miscLoop, hr]
      split
      · right; exact ⟨_, rfl, rfl⟩
      · exact ih _ _ _ hc' (fun u hu' => hu u (by simp [hu'])) ht

end Exchange
