import Pymc.Proofs.PooledCallRun
import Pymc.Proofs.C01Examples
/-! Concrete runs of the composed model `PooledClient ∘ Client` (non-vacuity of the `…_pooled_…` theorems of
`Pymc/Props/C01.lean` and `Pymc/Props/C09.lean`). -/
namespace PooledCallExamples
open Bytes Readers Wire Exchange Client Framing PooledCall C01Examples

/-- `set k x` (waits for its reply) -/
def setCall : Call := .store .set (.bytes [107]) (.bytes [120]) (.int 0) (some false) none none
/-- `ERROR\r\n` -/
def errorLine : Bytes := [69, 82, 82, 79, 82, 13, 10]

theorem owed_set : owed {} setCall = .lines 1 := by
  have h : encodeStore {} .set [(Key.K.bytes [107], Val.bytes [120])] (.int 0) false none 0 none =
      .ok [[115, 101, 116, 32, 107, 32, 48, 32, 48, 32, 49, 13, 10, 120, 13, 10]] := by with_unfolding_all rfl
  simp [setCall, owed, sends, Client.call, boolOr, h, exchangeStore_probe, effNoreply]

theorem errorLine_unit : LineUnit errorLine := ⟨[69, 82, 82, 79, 82], by decide⟩

theorem wf_set_error : WellFramed {} setCall [.data errorLine] :=
  ⟨by simp [clean, errorLine], by
    rw [owed_set]; exact ⟨[errorLine], rfl, by simp [errorLine_unit], by simp [joinData]⟩⟩

theorem wf_get_error : WellFramed {} (.get (.bytes [107])) [.data errorLine] := by
  refine ⟨by simp [clean, errorLine], ?_⟩
  rw [owed_get]
  exact .final _ [69, 82, 82, 79, 82] (by decide) ⟨by rw [lit_VALUE]; decide, by simp⟩

theorem wf_version1 (d : UInt8) (hd : d ≠ 13) : WellFramed {} .version [.data (versionReply d)] := by
  refine ⟨by simp [clean, versionReply], ?_⟩
  rw [owed_version]
  have : joinData [.data (versionReply d)] = versionReply d := by simp [joinData]
  rw [this]
  exact versionReply_units d hd

/-- a history of five calls on a `PooledClient(max_pool_size=1, ignore_exc=True)`, every script well-framed:
0. `version` → `VERSION 1`;
1. `get k` → `ERROR` (the inner client raises `MemcacheUnknownCommandError` and closes; the wrapper swallows it);
2. `version` → `VERSION 2`, in two pieces;
3. `set k x` → `ERROR` (raises; not a read method: propagates, the client is destroyed);
4. `version` → `VERSION 3`. -/
def demoCalls : List PCall :=
  [(.version, { evs := [.data (versionReply 49)] }, 0, 0),
   (.get (.bytes [107]), { evs := [.data errorLine] }, 1, 1),
   (.version, { evs := [.data [86, 69, 82, 83, 73, 79, 78, 32, 50, 13], .data [10]] }, 2, 2),
   (setCall, { evs := [.data errorLine] }, 3, 3),
   (.version, { evs := [.data (versionReply 51)] }, 4, 4)]

theorem demoCalls_wf : ∀ pc ∈ demoCalls, WellFramed {} pc.1 pc.2.1.evs := by
  intro pc h
  simp only [demoCalls, List.mem_cons, List.not_mem_nil, or_false] at h
  rcases h with rfl | rfl | rfl | rfl | rfl
  · exact wf_version1 49 (by decide)
  · exact wf_get_error
  · refine ⟨by simp [clean], ?_⟩
    rw [owed_version]; exact versionReply_units 50 (by decide)
  · exact wf_set_error
  · exact wf_version1 51 (by decide)

/-- `obsSummary`, per call: client id, connection used, connection held afterwards, socket open afterwards, returned
(not raised); `poolSummary`: the idle clients (id, connection, socket open, events left in the pipe), the closed
connections, the number of checked-out clients -/
def obsSummary (r : St × List PObs) : List (Option Nat × Option Nat × Option Nat × Bool × Option Bool) :=
  r.2.map fun ob => (ob.client, ob.io, ob.connAfter, ob.sockOpenAfter,
    ob.res.map fun x => match x with | .ok _ => true | .error _ => false)

def poolSummary (r : St × List PObs) : List (Nat × Option Nat × Bool × Nat) × List Nat × Nat :=
  (r.1.free.map (fun c => (c.id, c.conn, c.sockOpen, c.pipe.length)), r.1.closed, r.1.used.length)

/-- per call: index, tags of the consumed `recv()` results, number of results left in the pipe -/
def stepSummary (r : St × List PObs) : List (Option (Nat × List Nat × Nat)) :=
  r.2.map fun ob => ob.step.map fun st => (st.idx, st.consumed.map (·.1), st.leftover.length)

/-- with `ignore_exc=True`: call 1 fails on connection 0 and is swallowed — the same client object (0) serves call 2
on a new connection (1); call 3 raises — client 0 is destroyed, connection 1 closed, call 4 gets client 1 and
connection 2.  Every call consumes only its own `recv()` results. -/
theorem demo_ignoreExc :
    obsSummary (runP {} ⟨1, 0⟩ true {} 0 demoCalls) =
      [(some 0, some 0, some 0, true, some true),
       (some 0, some 0, none, false, some true),
       (some 0, some 1, some 1, true, some true),
       (some 0, some 1, none, false, some false),
       (some 1, some 2, some 2, true, some true)] ∧
    poolSummary (runP {} ⟨1, 0⟩ true {} 0 demoCalls) = ([(1, some 2, true, 0)], [0, 1], 0) ∧
    stepSummary (runP {} ⟨1, 0⟩ true {} 0 demoCalls) =
      [some (0, [0], 0), some (1, [1], 0), some (2, [2, 2], 0), some (3, [3], 0), some (4, [4], 0)] ∧
    (historyOf true demoCalls (runP {} ⟨1, 0⟩ true {} 0 demoCalls).2).map (·.2.2) =
      [.ok, .failSwallowed false, .ok, .fail false, .ok] := by
  refine ⟨by decide +kernel, by decide +kernel, by decide +kernel, by decide +kernel⟩

/-- the same history without `ignore_exc`: call 1 raises too, so clients 0 and 1 are destroyed in turn -/
theorem demo_strict :
    obsSummary (runP {} ⟨1, 0⟩ false {} 0 demoCalls) =
      [(some 0, some 0, some 0, true, some true),
       (some 0, some 0, none, false, some false),
       (some 1, some 1, some 1, true, some true),
       (some 1, some 1, none, false, some false),
       (some 2, some 2, some 2, true, some true)] ∧
    poolSummary (runP {} ⟨1, 0⟩ false {} 0 demoCalls) = ([(2, some 2, true, 0)], [0, 1], 0) ∧
    (historyOf false demoCalls (runP {} ⟨1, 0⟩ false {} 0 demoCalls).2).map (·.2.2) =
      [.ok, .fail false, .ok, .fail false, .ok] := by
  refine ⟨by decide +kernel, by decide +kernel, by decide +kernel⟩

/-! ## a history over a breaking connection -/

/-- `END\r\n` -/
def endLine : Bytes := [69, 78, 68, 13, 10]

/-- 0. `version` → `VERSION 1`, then an interrupted `recv()` the call never makes;
1. `get k`: `sendall` fails with `EPIPE` (nothing ever arrives) — swallowed under `ignore_exc`;
2. `version`: the reply is cut after `VERS` by a timeout, `JUNK\r\n` would arrive later — raises, client destroyed;
3. `get_many([])`: returns `{}` without touching the (new, unconnected) client;
4. `version` → `VERSION 3` on that client, which connects now. -/
def faultCalls : List PCall :=
  [(.version, { evs := [.data (versionReply 49), .eintr] }, 0, 0),
   (.get (.bytes [107]), { sendFails := some (.sock 32) }, 1, 1),
   (.version, { evs := [.data [86, 69, 82, 83], .err 7, .data [74, 85, 78, 75, 13, 10]] }, 2, 2),
   (.getMany [], {}, 3, 3),
   (.version, { evs := [.data (versionReply 51)] }, 4, 4)]

theorem owed_getMany_nil : owed {} (.getMany []) = .nothing := by
  simp [owed, sends, Client.call]

theorem faultCalls_ff : ∀ pc ∈ faultCalls, FaultFramed {} pc.1 pc.2.1.evs := by
  intro pc h
  simp only [faultCalls, List.mem_cons, List.not_mem_nil, or_false] at h
  rcases h with rfl | rfl | rfl | rfl | rfl
  · refine ⟨[.data (versionReply 49)], [.eintr], rfl, by simp [clean, versionReply], .inl ⟨?_, by simp [quiet]⟩⟩
    rw [owed_version]
    have : joinData [.data (versionReply 49)] = versionReply 49 := by simp [joinData]
    rw [this]
    exact versionReply_units 49 (by decide)
  · refine ⟨[], [], rfl, trivial, .inr ⟨⟨endLine, by simp [endLine], ?_⟩, trivial⟩⟩
    rw [owed_get]
    exact .final _ [69, 78, 68] (by decide) ⟨by rw [lit_VALUE]; decide, by simp⟩
  · refine ⟨[.data [86, 69, 82, 83]], [.err 7, .data [74, 85, 78, 75, 13, 10]], rfl, by simp [clean],
      .inr ⟨⟨[73, 79, 78, 32, 49, 13, 10], by simp, ?_⟩, by simp [broken, isFault]⟩⟩
    rw [owed_version]; exact versionReply_units 49 (by decide)
  · exact faultFramed_of_wellFramed ⟨trivial, by rw [owed_getMany_nil]; rfl⟩
  · exact faultFramed_of_wellFramed (wf_version1 51 (by decide))

theorem demo_faults :
    obsSummary (runP {} ⟨1, 0⟩ true {} 0 faultCalls) =
      [(some 0, some 0, some 0, true, some true),
       (some 0, some 0, none, false, some true),
       (some 0, some 1, none, false, some false),
       (some 1, none, none, false, some true),
       (some 1, some 2, some 2, true, some true)] ∧
    poolSummary (runP {} ⟨1, 0⟩ true {} 0 faultCalls) = ([(1, some 2, true, 0)], [0, 1], 0) ∧
    stepSummary (runP {} ⟨1, 0⟩ true {} 0 faultCalls) =
      [some (0, [0], 1), some (1, [], 1), some (2, [2, 2, 2], 0), some (3, [], 0), some (4, [4], 0)] ∧
    (historyOf true faultCalls (runP {} ⟨1, 0⟩ true {} 0 faultCalls).2).map (·.2.2) =
      [.ok, .failSwallowed false, .fail true, .failSwallowed false, .ok] := by
  refine ⟨by decide +kernel, by decide +kernel, by decide +kernel, by decide +kernel⟩
end PooledCallExamples
