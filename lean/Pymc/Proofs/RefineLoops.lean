import Pymc.Proofs.RefineLit
import Pymc.Props.C02
import Pymc.Props.C03
/-! The client's reply loops on a reply that arrives in one piece: lines. -/
namespace Exchange
open Bytes Readers Wire

/-! ## readers on a single piece -/
theorem readline_single (b : Bytes) (hb : b ≠ []) : readline [] [] [.data b] = readline [] b [] := by
  cases b with
  | nil => exact absurd rfl hb
  | cons x r =>
    conv => lhs; rw [readline.eq_def]
    simp [findCRLF]

theorem readline_nil_evs (line rest : Bytes) (h : ∀ b ∈ line, b ≠ CR) :
    readline [] (line ++ CRLF ++ rest) [] = .ok (rest, line, []) := by
  rw [readline]
  have hf := findCRLF_line line rest h
  simp only [List.getLast?_nil, reduceCtorEq, false_and, if_false, hf, List.nil_append]
  have h1 : (line ++ CRLF ++ rest).drop (line.length + 2) = rest := by
    rw [List.append_assoc, List.drop_append]; simp [CRLF]
  have h2 : (line ++ CRLF ++ rest).take line.length = line := by
    rw [List.append_assoc, List.take_left' rfl]
  rw [h1, h2]

theorem readvalue_nil_evs (data rest : Bytes) :
    readvalue (data ++ CRLF ++ rest) (data.length : Int) [] = .ok (rest, data, []) := by
  rw [readvalue, readvalueLoop]
  have hlen : (data ++ CRLF ++ rest).length = data.length + 2 + rest.length := by simp [CRLF]; omega
  have h1 : ¬ ((data.length : Int) + 2 - ((data ++ CRLF ++ rest).length : Int) > 0) := by
    rw [hlen]; omega
  have h2 : ¬ ((data.length : Int) + 2 = 1) := by omega
  simp only [h1, h2, if_false]
  have e1 : ((data.length : Int) + 2) = ((data.length + 2 : Nat) : Int) := by simp
  have e2 : ((data.length : Int) + 2 - 2) = ((data.length : Nat) : Int) := by omega
  rw [e2, e1, pyDrop_nat, pyTake_nat]
  have h3 : (data ++ CRLF ++ rest).drop (data.length + 2) = rest := by
    rw [List.append_assoc, List.drop_append]; simp [CRLF]
  have h4 : (data ++ CRLF ++ rest).take data.length = data := by
    rw [List.append_assoc, List.take_left' rfl]
  rw [h3, h4]; rfl

/-! ## a reply line: no CR, not an error line -/
def PlainLine (l : Bytes) : Prop := (∀ b ∈ l, b ≠ CR) ∧ raiseErrors l = none

/-- the reply bytes of a list of lines -/
def joinLines (ls : List Bytes) : Bytes := ls.flatMap (· ++ CRLF)

theorem joinLines_cons (l : Bytes) (ls : List Bytes) : joinLines (l :: ls) = l ++ CRLF ++ joinLines ls := by
  simp [joinLines]

theorem joinLines_ne_nil (l : Bytes) (ls : List Bytes) : joinLines (l :: ls) ≠ [] := by
  simp [joinLines, CRLF]

/-! ## misc loop -/
theorem miscLoop_single (n : Nat) (b : Bytes) (hb : b ≠ []) (acc : List Bytes) :
    miscLoop none (n + 1) [] [.data b] acc = miscLoop none (n + 1) b [] acc := by
  simp only [miscLoop, readline_single b hb]

theorem miscLoop_lines (ls : List Bytes) (h : ∀ l ∈ ls, PlainLine l) (acc : List Bytes) :
    miscLoop none ls.length (joinLines ls) [] acc = ⟨.ok (acc ++ ls), [], false⟩ := by
  induction ls generalizing acc with
  | nil => simp [miscLoop]
  | cons l ls ih =>
    obtain ⟨h1, h2⟩ := h l (by simp)
    simp only [List.length_cons, miscLoop, joinLines_cons, readline_nil_evs l _ h1, h2]
    rw [ih (fun l hl => h l (by simp [hl]))]
    simp

/-- `_misc_cmd` on the reply `ls` arriving in one piece -/
theorem miscLoop_reply (ls : List Bytes) (h : ∀ l ∈ ls, PlainLine l) :
    miscLoop none ls.length [] (if joinLines ls = [] then [] else [.data (joinLines ls)]) [] =
      ⟨.ok ls, [], false⟩ := by
  cases ls with
  | nil => simp [joinLines, miscLoop]
  | cons l ls =>
    rw [if_neg (joinLines_ne_nil l ls)]
    simp only [List.length_cons]
    rw [miscLoop_single _ _ (joinLines_ne_nil l ls)]
    have := miscLoop_lines (l :: ls) h []
    simpa using this

/-- an error line closes the socket and raises -/
theorem miscLoop_error_line (l : Bytes) (e : Exc) (h1 : ∀ b ∈ l, b ≠ CR) (h2 : raiseErrors l = some e) :
    miscLoop none 1 [] [.data (l ++ CRLF)] [] = ⟨.error e, [], true⟩ := by
  rw [miscLoop_single _ _ (by simp [CRLF])]
  have := readline_nil_evs l [] h1
  simp only [List.append_nil] at this
  simp only [miscLoop, this, h2]

/-! ## store loop -/
theorem storeLoop_single (verb : SVerb) (n : Nat) (b : Bytes) (hb : b ≠ []) (acc : List (Option Bool)) :
    storeLoop verb (n + 1) [] [.data b] acc = storeLoop verb (n + 1) b [] acc := by
  simp only [storeLoop, readline_single b hb]

theorem storeLoop_lines (verb : SVerb) (lvs : List (Bytes × Option Bool))
    (h : ∀ p ∈ lvs, PlainLine p.1 ∧ storeResultValue verb p.1 = some p.2) (acc : List (Option Bool)) :
    storeLoop verb lvs.length (joinLines (lvs.map (·.1))) [] acc = ⟨.ok (acc ++ lvs.map (·.2)), [], false⟩ := by
  induction lvs generalizing acc with
  | nil => simp [storeLoop]
  | cons p lvs ih =>
    obtain ⟨⟨h1, h2⟩, h3⟩ := h p (by simp)
    simp only [List.length_cons, List.map_cons, storeLoop, joinLines_cons, readline_nil_evs p.1 _ h1, h2, h3]
    rw [ih (fun l hl => h l (by simp [hl]))]
    simp

theorem storeLoop_reply (verb : SVerb) (lvs : List (Bytes × Option Bool))
    (h : ∀ p ∈ lvs, PlainLine p.1 ∧ storeResultValue verb p.1 = some p.2) :
    storeLoop verb lvs.length []
      (if joinLines (lvs.map (·.1)) = [] then [] else [.data (joinLines (lvs.map (·.1)))]) [] =
      ⟨.ok (lvs.map (·.2)), [], false⟩ := by
  cases lvs with
  | nil => simp [joinLines, storeLoop]
  | cons p lvs =>
    simp only [List.map_cons]
    rw [if_neg (joinLines_ne_nil _ _)]
    simp only [List.length_cons]
    rw [storeLoop_single _ _ _ (joinLines_ne_nil _ _)]
    have := storeLoop_lines verb (p :: lvs) h []
    simpa using this

/-! ## the fixed reply words -/
theorem plain_of_lit {l : Bytes} (h : (l.all (· ≠ CR) && (raiseErrors l).isNone) = true) : PlainLine l := by
  simp only [Bool.and_eq_true, List.all_eq_true, decide_eq_true_eq, Option.isNone_iff_eq_none] at h
  exact ⟨h.1, h.2⟩

theorem raiseErrors_eq (l : Bytes) : raiseErrors l =
    if ([69, 82, 82, 79, 82] : Bytes).isPrefixOf l then some .unknownCommand
    else if ([67, 76, 73, 69, 78, 84, 95, 69, 82, 82, 79, 82] : Bytes).isPrefixOf l then
      some (.clientError (afterFirstSpace l))
    else if ([83, 69, 82, 86, 69, 82, 95, 69, 82, 82, 79, 82] : Bytes).isPrefixOf l then
      some (.serverError (afterFirstSpace l))
    else none := by
  simp [raiseErrors, startsWith]

theorem plain_STORED : PlainLine (ofString "STORED") := by
  refine ⟨by simp [CR], by simp [raiseErrors_eq]⟩
theorem plain_NOT_STORED : PlainLine (ofString "NOT_STORED") := by
  refine ⟨by simp [CR], by simp [raiseErrors_eq]⟩
theorem plain_EXISTS : PlainLine (ofString "EXISTS") := by
  refine ⟨by simp [CR], by simp [raiseErrors_eq]⟩
theorem plain_NOT_FOUND : PlainLine (ofString "NOT_FOUND") := by
  refine ⟨by simp [CR], by simp [raiseErrors_eq]⟩
theorem plain_DELETED : PlainLine (ofString "DELETED") := by
  refine ⟨by simp [CR], by simp [raiseErrors_eq]⟩
theorem plain_TOUCHED : PlainLine (ofString "TOUCHED") := by
  refine ⟨by simp [CR], by simp [raiseErrors_eq]⟩
theorem plain_OK : PlainLine (ofString "OK") := by
  refine ⟨by simp [CR], by simp [raiseErrors_eq]⟩
theorem plain_versionLine : PlainLine Server.versionLine := by
  refine ⟨by simp [Server.versionLine, CR], by simp [Server.versionLine, raiseErrors_eq]⟩

/-- a decimal number is a plain line -/
theorem plain_digits {l : Bytes} (h : ∀ b ∈ l, isDigit b = true) : PlainLine l := by
  refine ⟨fun b hb => (isDigit_ne (h b hb)).2.1, ?_⟩
  rw [raiseErrors_eq]
  cases l with
  | nil => simp
  | cons x r =>
    have hx := (isDigit_iff x).1 (h x (by simp))
    have h1 : x ≠ 69 := by rintro rfl; revert hx; decide
    have h2 : x ≠ 67 := by rintro rfl; revert hx; decide
    have h3 : x ≠ 83 := by rintro rfl; revert hx; decide
    simp [List.isPrefixOf, h1.symm, h2.symm, h3.symm]

theorem plain_natDec (n : Nat) : PlainLine (natDec n) := plain_digits (natDec_mem_isDigit n)
end Exchange
