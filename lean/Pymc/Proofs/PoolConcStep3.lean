import Pymc.Proofs.PoolConcInv
/-! Preservation of the freshness / holding conjuncts of `Inv` by one micro-step. -/
set_option linter.unusedSimpArgs false
namespace PoolConc

theorem freshPool_step (s s' : State) (t : Tid) (l : Label) (h : Inv s) (hs : step s t l = some s') :
    ∀ o, o ∈ s'.used ∨ o ∈ s'.free → o < s'.created := by
  have hp := h.freshPool
  have ho := h.freshOwn t
  step_cases hs
  all_goals (intro o; have hpo := hp o; have hoo := ho o; clear hp ho h
             simp only [goto, finish, setTh, close]; (try simp_all) <;> grind)

theorem freshOwn_step (s s' : State) (t : Tid) (l : Label) (h : Inv s) (hs : step s t l = some s') :
    ∀ u o, o ∈ (s'.th u).pc.own → o < s'.created := by
  have hp := h.freshPool
  have ho := h.freshOwn
  step_cases hs
  all_goals (intro u o; have hpo := hp o; have hou := ho u o; have hot := ho t o; clear hp ho h
             simp only [goto, finish, setTh, close]
             by_cases e : u = t <;> simp [e] <;> (try simp_all) <;> grind)

theorem holdOk_step (s s' : State) (t : Tid) (l : Label) (h : Inv s) (hs : step s t l = some s') :
    ∀ u o, (s'.th u).pc.holds = some o → o < s'.created ∧ o ∉ s'.free := by
  have hk := h.holdOk
  have hx := h.holdExcl
  have hn := h.nodup
  have hp := h.freshPool
  step_cases hs
  all_goals (intro u o; have hku := hk u o; have hkt := hk t; have hxu := hx u t o; have hpo := hp o; clear hk hx hp h
             simp only [goto, finish, setTh, close]
             by_cases e : u = t <;> simp [e] <;> (try simp_all [List.nodup_append]) <;> grind)

theorem holdExcl_step (s s' : State) (t : Tid) (l : Label) (h : Inv s) (hs : step s t l = some s') :
    ∀ u v o, (s'.th u).pc.holds = some o → (s'.th v).pc.holds = some o → u = v := by
  have hk := h.holdOk
  have hx := h.holdExcl
  step_cases hs
  all_goals (
    intro u v o
    by_cases e : u = t <;> by_cases e' : v = t
    · intros; exact e.trans e'.symm
    · subst e
      have hut := hx u v o; have hkv := hk v o; clear hk hx h
      simp only [goto, finish, setTh, close]; simp [e'] <;> (try simp_all) <;> grind
    · subst e'
      have hut := hx u v o; have hkv := hk u o; clear hk hx h
      simp only [goto, finish, setTh, close]; simp [e] <;> (try simp_all) <;> grind
    · have hut := hx u v o; clear hk hx h
      simp only [goto, finish, setTh, close]; simp [e, e'] <;> simp_all)
end PoolConc
