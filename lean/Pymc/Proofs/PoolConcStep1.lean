import Pymc.Proofs.PoolConcInv
/-! Preservation of the lock-related conjuncts of `Inv` by one micro-step. -/
namespace PoolConc

theorem mutex_step (s s' : State) (t : Tid) (l : Label) (h : Inv s) (hs : step s t l = some s') :
    ∀ u, (s'.th u).pc.inCS = true ↔ s'.lock = some u := by
  have hm := h.mutex
  have hp := h.popOk t
  step_cases hs
  all_goals (intro u; have hu := hm u; have ht := hm t; simp only [goto, finish, setTh, close]
             by_cases e : u = t <;> simp [e] <;> grind [Pc.inCS])

theorem noErr_step (s s' : State) (t : Tid) (l : Label) (h : Inv s) (hs : step s t l = some s') :
    ∀ u, (s'.th u).pc ≠ .internalError := by
  have hm := h.mutex t
  have hp := h.popOk t
  have hn := h.noErr
  step_cases hs
  all_goals (intro u; have hu := hn u; simp only [goto, finish, setTh, close]
             by_cases e : u = t <;> simp [e] <;> grind [Pc.inCS])

theorem popOk_step (s s' : State) (t : Tid) (l : Label) (h : Inv s) (hs : step s t l = some s') :
    ∀ u f, (s'.th u).pc = .getPop f → s'.free ≠ [] := by
  have hm := h.mutex
  have hp := h.popOk
  step_cases hs
  all_goals (intro u f; have hu := hp u f; have hmu := hm u; have ht := hm t
             simp only [goto, finish, setTh, close]
             by_cases e : u = t <;> simp [e] <;> grind [Pc.inCS])

theorem cntOk_step (s s' : State) (t : Tid) (l : Label) (h : Inv s) (hs : step s t l = some s') :
    ∀ u f, (s'.th u).pc = .getCount f → s'.free = [] := by
  have hm := h.mutex
  have hp := h.cntOk
  step_cases hs
  all_goals (intro u f; have hu := hp u f; have hmu := hm u; have ht := hm t
             simp only [goto, finish, setTh, close]
             by_cases e : u = t <;> simp [e] <;> grind [Pc.inCS])

theorem cap_step (s s' : State) (t : Tid) (l : Label) (h : Inv s) (hs : step s t l = some s') :
    ∀ u, (s'.th u).pc.slots + s'.used.length + s'.free.length ≤ s'.maxSize := by
  have hm := h.mutex
  have hp := h.cap
  have hc := h.cntOk t
  step_cases hs
  all_goals (intro u; have hu := hp u; have hpt := hp t; have hmu := hm u; have ht := hm t
             simp only [goto, finish, setTh, close]
             by_cases e : u = t <;> simp [e] <;> grind [Pc.inCS, Pc.slots, Pc.slots_of_notCS])

end PoolConc
