import Pymc.Proofs.HashCallMany
import Pymc.Proofs.HashCallExamples
/-! Concrete runs of the composed model `HashClient ∘ Client` with `get_many` (non-vacuity of the `…_hash_many_…` theorems
of `Pymc/Props/C01.lean`). -/
namespace HashCallExamples
open Bytes Readers Wire Exchange Client Framing Failover HashCall C01Examples PooledCallExamples

/-- the keys `k` (prefers server 0, then 1) and `z` (prefers server 1, then 0) -/
def kz : List (List Srv × Key.K) := [([0, 1], .bytes [107]), ([1, 0], .bytes [122])]

theorem endLine_unit : FetchUnit (.values false) endLine :=
  .final _ [69, 78, 68] (by decide) ⟨by rw [lit_VALUE]; decide, by simp⟩

/-- server 0 answers `VALUE k 0 1 / x / END`, every other server `END` -/
def bothUp : Srv → Script := fun s => if s = 0 then { evs := [.data getReply] } else { evs := [.data endLine] }
/-- server 0: `sendall` fails on the open socket (`EPIPE`), connecting is refused; the others answer `END` -/
def zeroDown : Srv → Script := fun s =>
  if s = 0 then { connectFails := some (.sock 61), sendFails := some (.sock 32), evs := [.data endLine] }
  else { evs := [.data endLine] }

theorem bothUp_wf (s : Srv) : clean (bothUp s).evs ∧ (Owed.fetch (.values false)).Matches (joinData (bothUp s).evs) := by
  unfold bothUp
  by_cases h : s = 0
  · simp only [h, if_true]
    refine ⟨by simp [clean, getReply], ?_⟩
    have : joinData [.data getReply] = getReply := by simp [joinData]
    rw [this]; exact getReply_unit
  · simp only [h, if_false]
    refine ⟨by simp [clean, endLine], ?_⟩
    have : joinData [.data endLine] = endLine := by simp [joinData]
    rw [this]; exact endLine_unit

theorem zeroDown_wf (s : Srv) : clean (zeroDown s).evs ∧ (Owed.fetch (.values false)).Matches (joinData (zeroDown s).evs) := by
  have : joinData [.data endLine] = endLine := by simp [joinData]
  unfold zeroDown
  by_cases h : s = 0
  · simp only [h, if_true]
    exact ⟨by simp [clean, endLine], by rw [this]; exact endLine_unit⟩
  · simp only [h, if_false]
    exact ⟨by simp [clean, endLine], by rw [this]; exact endLine_unit⟩

/-- six calls on a `HashClient(ignore_exc=True)` over servers 0 and 1 (`retry_attempts=1, retry_timeout=1,
dead_timeout=5`), every script well-framed:
0. t=0 `get_many([k, z])`: batch `[k]` on server 0 (value), batch `[z]` on server 1 (miss) → `{k: x}`;
1. t=1 the same, server 0 down: its batch fails with `EPIPE` → swallowed, `{}` merged, server 0 marked; the batch of
   server 1 is still sent → `{}`;
2. t=3 `get k`: retry of server 0, refused → attempts = 1;
3. t=5 `get_many([k, z])`: server 0 has used up its retries → evicted, final probe refused; server 1 serves `[z]`;
4. t=6 `get_many([k, z])`: both keys are routed to server 1: one batch `[k, z]`;
5. t=12 `get_many([k, z])`: server 0 is back with the fresh client object 2: batch `[k]` on it (value), `[z]` on server 1. -/
def manyCalls : List (MCall (List Srv)) :=
  [{ op := .getMany false kz bothUp, now := 0 },
   { op := .getMany false kz zeroDown, now := 1 },
   { op := .cmd [0, 1] getK { connectFails := some (.sock 61), evs := [.data endLine] }, now := 3 },
   { op := .getMany false kz zeroDown, now := 5 },
   { op := .getMany false kz bothUp, now := 6 },
   { op := .getMany false kz bothUp, now := 12 }]

theorem manyCalls_wf : ∀ mc ∈ manyCalls, mc.op.WellFramed {} := by
  intro mc h
  simp only [manyCalls, List.mem_cons, List.not_mem_nil, or_false] at h
  rcases h with rfl | rfl | rfl | rfl | rfl | rfl
  · exact bothUp_wf
  · exact zeroDown_wf
  · exact wf_get_end
  · exact zeroDown_wf
  · exact bothUp_wf
  · exact bothUp_wf

/-- per call: result, and per batch: server, client object invoked, served -/
def manySummary (r : St × List MObs) : List (HRes × List (Srv × Option Nat × Bool)) :=
  r.2.map fun ob => (ob.res, ob.batches.map fun b => (b.server, b.client, b.served))

/-- per call, per inner call: the tags of the consumed `recv()` results -/
def manyTags (r : St × List MObs) : List (List (List Nat)) :=
  r.2.map fun ob => ob.steps.map fun stp => stp.consumed.map (·.1)

def manyState (r : St × List MObs) : State × List (Srv × Nat × Bool × Nat) :=
  (r.1.fo, r.1.clients.map fun x => (x.1, x.2.id, x.2.sockOpen, x.2.pipe.length))

theorem demo_many :
    manySummary (runM {} cfgIgnore prefRoute (init [0, 1] 0) 0 manyCalls) =
      [(.value (.dict [(.bytes [107], [120])]), [(0, some 0, true), (1, some 1, true)]),
       (.value (.dict []), [(0, some 0, false), (1, some 1, true)]),
       (.default, [(0, some 0, false)]),
       (.value (.dict []), [(0, some 0, false), (1, some 1, true)]),
       (.value (.dict []), [(1, some 1, true)]),
       (.value (.dict [(.bytes [107], [120])]), [(0, some 2, true), (1, some 1, true)])] ∧
    manyTags (runM {} cfgIgnore prefRoute (init [0, 1] 0) 0 manyCalls) =
      [[[0], [0]], [[], [1]], [[]], [[], [3]], [[4]], [[5], [5]]] ∧
    manyState (runM {} cfgIgnore prefRoute (init [0, 1] 0) 0 manyCalls) =
      ({ nodes := [1, 0], failed := [], dead := [], lastDeadCheck := 12 }, [(0, 2, true, 0), (1, 1, true, 0)]) := by
  refine ⟨by decide +kernel, by decide +kernel, by decide +kernel⟩

/-- without `ignore_exc` the `OSError` of server 0's batch escapes from call 1 at once: the batch of server 1 is not sent -/
theorem demo_many_strict :
    (manySummary (runM {} cfgStrict prefRoute (init [0, 1] 0) 0 (manyCalls.take 2)))[1]? =
      some (.raised 0 (.sock 32), [(0, some 0, false)]) := by
  decide +kernel
end HashCallExamples
