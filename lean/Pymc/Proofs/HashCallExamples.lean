import Pymc.Proofs.HashCallRun
import Pymc.Proofs.PooledCallExamples
import Pymc.Proofs.FailoverRun
/-! Concrete runs of the composed model `HashClient ∘ Client` (non-vacuity of the `…_hash_…` theorems of
`Pymc/Props/C01.lean` and `Pymc/Props/C13.lean`). -/
namespace HashCallExamples
open Bytes Readers Wire Exchange Client Framing Failover HashCall C01Examples PooledCallExamples

/-- `get k` -/
def getK : Call := .get (.bytes [107])

/-- `retry_attempts=1, retry_timeout=1, dead_timeout=5` -/
def cfgStrict : Failover.Cfg := { ra := 1, rt := 1, dt := 5, ignoreExc := false }
def cfgIgnore : Failover.Cfg := { ra := 1, rt := 1, dt := 5, ignoreExc := true }

theorem wf_get_value : WellFramed {} getK [.data getReply] := by
  refine ⟨by simp [clean, getReply], ?_⟩
  show (owed {} (.get (.bytes [107]))).Matches _
  rw [owed_get]
  have : joinData [.data getReply] = getReply := by simp [joinData]
  rw [this]
  exact getReply_unit

theorem wf_get_end : WellFramed {} getK [.data endLine] := by
  refine ⟨by simp [clean, endLine], ?_⟩
  show (owed {} (.get (.bytes [107]))).Matches _
  rw [owed_get]
  exact .final _ [69, 78, 68] (by decide) ⟨by rw [lit_VALUE]; decide, by simp⟩

/-- a history of six `get k` calls on a `HashClient` over servers 0 and 1 (`retry_attempts=1, retry_timeout=1,
dead_timeout=5`), the key preferring server 0, then 1; every script well-framed (the server, when reached, answers
exactly what it owes; when it is down, connecting is refused or sending fails):
0. t=0: served by server 0 (client object 0 connects) → the value;
1. t=1: `sendall` fails with `EPIPE` on the open socket → `OSError`: server 0 is marked failing, the socket is closed;
2. t=3: retry (`3 - 1 > retry_timeout`): connection refused → attempts = 1;
3. t=5: attempts used up → `remove_server(0)`: out of rotation, dead since 5; the final probe is refused too and
   leaves a new failure record;
4. t=6: the key is rerouted to server 1 (client object 1 connects) → miss (the dead check fires, too early to revive);
5. t=12: `12 - 5 > dead_timeout`: server 0 is brought back with a *fresh* client object (number 2), the key goes to
   server 0 again, the retry succeeds on a new connection, the failure record is cleared. -/
def demoCalls : List (HCall (List Srv)) :=
  [{ rk := [0, 1], call := getK, sc := { evs := [.data getReply] }, now := 0 },
   { rk := [0, 1], call := getK, sc := { sendFails := some (.sock 32), evs := [.data endLine] }, now := 1 },
   { rk := [0, 1], call := getK, sc := { connectFails := some (.sock 61), evs := [.data endLine] }, now := 3 },
   { rk := [0, 1], call := getK, sc := { connectFails := some (.sock 61), evs := [.data endLine] }, now := 5 },
   { rk := [0, 1], call := getK, sc := { evs := [.data endLine] }, now := 6 },
   { rk := [0, 1], call := getK, sc := { evs := [.data getReply] }, now := 12 }]

theorem demoCalls_wf : ∀ hc ∈ demoCalls, WellFramed {} hc.call hc.sc.evs := by
  intro hc h
  simp only [demoCalls, List.mem_cons, List.not_mem_nil, or_false] at h
  rcases h with rfl | rfl | rfl | rfl | rfl | rfl
  · exact wf_get_value
  · exact wf_get_end
  · exact wf_get_end
  · exact wf_get_end
  · exact wf_get_end
  · exact wf_get_value

/-- per call: result, server routed to, client object invoked, tags of the consumed `recv()` results -/
def obsSummary (r : St × List HObs) : List (HRes × Option Srv × Option Nat × List Nat) :=
  r.2.map fun ob => (ob.res, ob.server, ob.client, match ob.step with
    | some stp => stp.consumed.map (·.1)
    | none => [])

/-- bookkeeping state, and per registered client object: server, number, socket open, events left in its pipe -/
def stateSummary (r : St × List HObs) : State × List (Srv × Nat × Bool × Nat) :=
  (r.1.fo, r.1.clients.map fun x => (x.1, x.2.id, x.2.sockOpen, x.2.pipe.length))

/-- the bookkeeping state after each prefix of the history -/
def foTrace (ccfg : Wire.Cfg) (c : Failover.Cfg) (calls : List (HCall (List Srv))) : List State :=
  (List.range (calls.length + 1)).map fun n => (runH ccfg c prefRoute (init [0, 1] 0) 0 (calls.take n)).1.fo

theorem demo_strict :
    obsSummary (runH {} cfgStrict prefRoute (init [0, 1] 0) 0 demoCalls) =
      [(.value (.bytes [120]), some 0, some 0, [0]),
       (.raised 0 (.sock 32), some 0, some 0, []),
       (.raised 0 (.sock 61), some 0, some 0, []),
       (.raised 0 (.sock 61), some 0, some 0, []),
       (.value .dflt, some 1, some 1, [4]),
       (.value (.bytes [120]), some 0, some 2, [5])] ∧
    stateSummary (runH {} cfgStrict prefRoute (init [0, 1] 0) 0 demoCalls) =
      ({ nodes := [1, 0], failed := [], dead := [], lastDeadCheck := 12 }, [(0, 2, true, 0), (1, 1, true, 0)]) ∧
    foTrace {} cfgStrict demoCalls =
      [{ nodes := [0, 1], failed := [], dead := [], lastDeadCheck := 0 },
       { nodes := [0, 1], failed := [], dead := [], lastDeadCheck := 0 },
       { nodes := [0, 1], failed := [(0, 0, 1)], dead := [], lastDeadCheck := 0 },
       { nodes := [0, 1], failed := [(0, 1, 3)], dead := [], lastDeadCheck := 0 },
       { nodes := [1], failed := [(0, 0, 5)], dead := [(0, 5)], lastDeadCheck := 0 },
       { nodes := [1], failed := [(0, 0, 5)], dead := [(0, 5)], lastDeadCheck := 6 },
       { nodes := [1, 0], failed := [], dead := [], lastDeadCheck := 12 }] := by
  refine ⟨by decide +kernel, by decide +kernel, by decide +kernel⟩

/-- the same history with `ignore_exc=True`: the failing calls return the default instead of raising -/
theorem demo_ignore :
    obsSummary (runH {} cfgIgnore prefRoute (init [0, 1] 0) 0 demoCalls) =
      [(.value (.bytes [120]), some 0, some 0, [0]),
       (.default, some 0, some 0, []),
       (.default, some 0, some 0, []),
       (.default, some 0, some 0, []),
       (.value .dflt, some 1, some 1, [4]),
       (.value (.bytes [120]), some 0, some 2, [5])] ∧
    stateSummary (runH {} cfgIgnore prefRoute (init [0, 1] 0) 0 demoCalls) =
      ({ nodes := [1, 0], failed := [], dead := [], lastDeadCheck := 12 }, [(0, 2, true, 0), (1, 1, true, 0)]) := by
  refine ⟨by decide +kernel, by decide +kernel⟩

/-- the abstract history the run gives rise to, and what `Failover.run` makes of it: the same bookkeeping state and,
per event, the result and the contact log of the composed run -/
theorem demo_projection :
    (eventsOf demoCalls (runH {} cfgStrict prefRoute (init [0, 1] 0) 0 demoCalls).2).map
        (fun e => (e.now, e.env 0, e.env 1)) =
      [(0, .ok, .ok), (1, .oserror, .oserror), (3, .oserror, .oserror), (5, .oserror, .oserror), (6, .ok, .ok), (12, .ok, .ok)] ∧
    Failover.run cfgStrict prefRoute (Failover.init [0, 1] 0)
        (eventsOf demoCalls (runH {} cfgStrict prefRoute (init [0, 1] 0) 0 demoCalls).2) =
      ({ nodes := [1, 0], failed := [], dead := [], lastDeadCheck := 12 },
       [(.value, [(0, 0, .ok)]), (.raisedServerError 0 .oserror, [(0, 1, .oserror)]),
        (.raisedServerError 0 .oserror, [(0, 3, .oserror)]), (.raisedServerError 0 .oserror, [(0, 5, .oserror)]),
        (.value, [(1, 6, .ok)]), (.value, [(0, 12, .ok)])]) := by
  refine ⟨by decide +kernel, by decide +kernel⟩

/-! ## a history over a breaking connection -/

/-- `JUNK\r\n` -/
def junk : Bytes := [74, 85, 78, 75, 13, 10]

/-- 0. t=0: `get k` on server 0 → the value, then an interrupted `recv()` the call never makes (stays in the pipe);
1. t=1: the reply is cut after `VALU` by a timeout (`OSError`), `JUNK\r\n` would arrive later — marked, socket closed;
2. t=3: retry: `BaseException` (code 130) while connecting — it escapes (even under `ignore_exc`), nothing is marked;
3. t=4: retry again: the server closes after half a line → `MemcacheUnexpectedCloseError`, not an `OSError`: not marked;
4. t=6: retry: connection refused → attempts = 1;
5. t=8: attempts used up → evicted, the final probe is refused;
6. t=9: an illegal key: rejected before anything else;
7. t=20: server 0 is back with a fresh client object (number 2), which never sees the junk of call 1. -/
def faultCalls : List (HCall (List Srv)) :=
  [{ rk := [0, 1], call := getK, sc := { evs := [.data getReply, .eintr] }, now := 0 },
   { rk := [0, 1], call := getK, sc := { evs := [.data [86, 65, 76, 85], .err 7, .data junk] }, now := 1 },
   { rk := [0, 1], call := getK, sc := { connectFails := some (.sock 130) }, now := 3 },
   { rk := [0, 1], call := getK, sc := { evs := [.data [69, 78], .data []] }, now := 4 },
   { rk := [0, 1], call := getK, sc := { connectFails := some (.sock 61) }, now := 6 },
   { rk := [0, 1], call := getK, sc := { connectFails := some (.sock 61) }, now := 8 },
   { rk := [0, 1], call := .get (.bytes [32]), sc := {}, now := 9 },
   { rk := [0, 1], call := getK, sc := { evs := [.data getReply] }, now := 20 }]

theorem ff_nothing_arrives : FaultFramed {} getK [] := by
  refine ⟨[], [], rfl, trivial, .inr ⟨⟨endLine, by simp [endLine], ?_⟩, trivial⟩⟩
  show (owed {} (.get (.bytes [107]))).Matches _
  rw [owed_get]
  exact .final _ [69, 78, 68] (by decide) ⟨by rw [lit_VALUE]; decide, by simp⟩

theorem owed_get_space : owed {} (.get (.bytes [32])) = .nothing := by
  have h1 : ([Key.K.bytes [32]].mapM (checkKey {})) = .error .illegalInput := by with_unfolding_all rfl
  simp [owed, sends, Client.call, fetchValues, h1, early]

theorem faultCalls_ff : ∀ hc ∈ faultCalls, FaultFramed {} hc.call hc.sc.evs := by
  intro hc h
  simp only [faultCalls, List.mem_cons, List.not_mem_nil, or_false] at h
  rcases h with rfl | rfl | rfl | rfl | rfl | rfl | rfl | rfl
  · refine ⟨[.data getReply], [.eintr], rfl, by simp [clean, getReply], .inl ⟨?_, by simp [quiet]⟩⟩
    show (owed {} (.get (.bytes [107]))).Matches _
    rw [owed_get]
    have : joinData [.data getReply] = getReply := by simp [joinData]
    rw [this]
    exact getReply_unit
  · refine ⟨[.data [86, 65, 76, 85]], [.err 7, .data junk], rfl, by simp [clean],
      .inr ⟨⟨[69, 32, 107, 32, 48, 32, 49, 13, 10] ++ [120] ++ [13, 10] ++ [69, 78, 68, 13, 10], by simp, ?_⟩,
        by simp [broken, isFault]⟩⟩
    show (owed {} (.get (.bytes [107]))).Matches _
    rw [owed_get]
    exact getReply_unit
  · exact ff_nothing_arrives
  · refine ⟨[.data [69, 78]], [.data []], rfl, by simp [clean],
      .inr ⟨⟨[68, 13, 10], by simp, ?_⟩, by simp [broken, isFault]⟩⟩
    show (owed {} (.get (.bytes [107]))).Matches _
    rw [owed_get]
    exact .final _ [69, 78, 68] (by decide) ⟨by rw [lit_VALUE]; decide, by simp⟩
  · exact ff_nothing_arrives
  · exact ff_nothing_arrives
  · exact faultFramed_of_wellFramed ⟨trivial, by rw [owed_get_space]; rfl⟩
  · exact faultFramed_of_wellFramed wf_get_value

theorem demo_faults :
    obsSummary (runH {} cfgIgnore prefRoute (init [0, 1] 0) 0 faultCalls) =
      [(.value (.bytes [120]), some 0, some 0, [0]),
       (.default, some 0, some 0, [0, 1, 1, 1]),
       (.raised 0 (.sock 130), some 0, some 0, []),
       (.default, some 0, some 0, [3, 3]),
       (.default, some 0, some 0, []),
       (.default, some 0, some 0, []),
       (.illegalKey, none, none, []),
       (.value (.bytes [120]), some 0, some 2, [7])] ∧
    stateSummary (runH {} cfgIgnore prefRoute (init [0, 1] 0) 0 faultCalls) =
      ({ nodes := [1, 0], failed := [], dead := [], lastDeadCheck := 20 }, [(0, 2, true, 0), (1, 1, false, 0)]) ∧
    foTrace {} cfgIgnore faultCalls =
      [{ nodes := [0, 1], failed := [], dead := [], lastDeadCheck := 0 },
       { nodes := [0, 1], failed := [], dead := [], lastDeadCheck := 0 },
       { nodes := [0, 1], failed := [(0, 0, 1)], dead := [], lastDeadCheck := 0 },
       { nodes := [0, 1], failed := [(0, 0, 1)], dead := [], lastDeadCheck := 0 },
       { nodes := [0, 1], failed := [(0, 0, 1)], dead := [], lastDeadCheck := 0 },
       { nodes := [0, 1], failed := [(0, 1, 6)], dead := [], lastDeadCheck := 0 },
       { nodes := [1], failed := [(0, 0, 8)], dead := [(0, 8)], lastDeadCheck := 0 },
       { nodes := [1], failed := [(0, 0, 8)], dead := [(0, 8)], lastDeadCheck := 0 },
       { nodes := [1, 0], failed := [], dead := [], lastDeadCheck := 20 }] := by
  refine ⟨by decide +kernel, by decide +kernel, by decide +kernel⟩
end HashCallExamples
