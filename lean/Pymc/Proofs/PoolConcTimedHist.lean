import Pymc.Proofs.PoolConcTimedInv
/-! History invariant of the timed model of pool.py: every object in `_free_objs` (or just popped and under
the idle test) has been there without interruption since an `append` of `release`, and its stamp is not
older than that `append` (append and stamp happen in one lock hold). -/
set_option linter.unusedSimpArgs false
namespace PoolConcT
open PoolConc

theorem FreeSince.mono {outside : Bool} {s0 : TState} {ls : List TLabel} {o : Obj} {t0 : Nat} {good good' : TState → Prop}
    (hm : ∀ s1, good s1 → good' s1) (h : FreeSince outside s0 ls o t0 good) : FreeSince outside s0 ls o t0 good' := by
  obtain ⟨pre, post, u, sa, h1, h2, h3, h4, h5, h6⟩ := h
  exact ⟨pre, post, u, sa, h1, h2, h3, h4, h5, fun p1 p2 s1 e r => hm s1 (h6 p1 p2 s1 e r)⟩

theorem FreeSince.snoc {outside : Bool} {s0 s s' : TState} {ls : List TLabel} {l : TLabel} {o : Obj} {t0 : Nat}
    {good : TState → Prop} (h : FreeSince outside s0 ls o t0 good) (hr : runT outside s0 ls = some s)
    (hs : stepT outside s l = some s') (hg : good s') : FreeSince outside s0 (ls ++ [l]) o t0 good := by
  obtain ⟨pre, post, u, sa, rfl, hpre, hpc, hpend, hclk, hall⟩ := h
  refine ⟨pre, post ++ [l], u, sa, by simp, hpre, hpc, hpend, hclk, ?_⟩
  intro post1 post2 s1 hsplit hrun
  rcases List.eq_nil_or_concat post2 with rfl | ⟨p2, x, rfl⟩
  · simp only [List.append_nil] at hsplit
    subst hsplit
    obtain ⟨sa', ha, hb⟩ := runT_split hr
    rw [hpre] at ha
    cases ha
    have : runT outside sa ((TLabel.run u :: post) ++ [l]) = some s1 := by simpa using hrun
    obtain ⟨s2, h2, h3⟩ := runT_snoc.mp this
    rw [hb] at h2
    cases h2
    rw [hs] at h3
    cases h3
    exact hg
  · rw [List.concat_eq_append, ← List.append_assoc] at hsplit
    obtain ⟨e1, _⟩ := List.append_inj' hsplit (by simp)
    exact hall post1 p2 s1 e1 hrun

theorem FreeSince.new {outside : Bool} {s0 s s' : TState} {ls : List TLabel} {u : Tid} {o : Obj} {good : TState → Prop}
    (hr : runT outside s0 ls = some s) (hpc : (s.base.th u).pc = .relAppend o) (hp : s.pend u = .none)
    (hs : stepT outside s (.run u) = some s') (hg : good s') :
    FreeSince outside s0 (ls ++ [.run u]) o s.clock good := by
  refine ⟨ls, [], u, s, rfl, hr, hpc, hp, rfl, ?_⟩
  intro post1 post2 s1 hsplit hrun
  have : post1 = [] := by
    cases post1 with
    | nil => rfl
    | cons a b => simp at hsplit
  subst this
  simp only [runT, hs, Option.some.injEq] at hrun
  subst hrun
  exact hg

structure HistInv (s0 : TState) (ls : List TLabel) (s : TState) : Prop where
  free : ∀ o, o ∈ s.base.free → ∃ t0, FreeSince false s0 ls o t0 (fun s1 => o ∈ s1.base.free) ∧ t0 ≤ s.clock ∧
    (t0 ≤ s.lastUsed o ∨ ∃ u, s.pend u = .stampRel o)
  test : ∀ t o f, (s.base.th t).pc = .getTest o f →
    ∃ t0, FreeSince false s0 ls o t0 (fun s1 => o ∈ s1.base.free ∨ (s1.base.th t).pc = .getTest o f) ∧ t0 ≤ s.lastUsed o

theorem hist_init (programs : List Program) (m i : Nat) : HistInv (initT programs m i) [] (initT programs m i) where
  free := by intro o ho; simp [initT, init] at ho
  test := by intro t o f h; simp [initT, init] at h

theorem hist_step {s0 s s' : TState} {ls : List TLabel} {l : TLabel} (hI : InvT s) (hH : HistInv s0 ls s)
    (hr : runT false s0 ls = some s) (hs : stepT false s l = some s') : HistInv s0 (ls ++ [l]) s' := by
  have hrel := stepRel_of_stepT hs
  cases hrel with
  | tick d =>
    constructor
    · intro o ho
      obtain ⟨t0, fs, hle, hor⟩ := hH.free o ho
      exact ⟨t0, fs.snoc hr hs ho, Nat.le_trans hle (Nat.le_add_right _ _), hor⟩
    · intro t o f hp
      obtain ⟨t0, fs, hle⟩ := hH.test t o f hp
      exact ⟨t0, fs.snoc hr hs (Or.inr hp), hle⟩
  | base t lb b l hl hp hb =>
    constructor
    · intro o ho
      rcases free_origin_step hb o ho with hin | hpc
      · obtain ⟨t0, fs, hle, hor⟩ := hH.free o hin
        refine ⟨t0, fs.snoc hr hs ho, hle, ?_⟩
        rcases hor with h1 | ⟨u, hu⟩
        · exact Or.inl h1
        · refine Or.inr ⟨u, ?_⟩
          have : u ≠ t := by intro e; subst e; rw [hp] at hu; cases hu
          simp only [upd, this, if_false]; exact hu
      · rcases hl with ⟨rfl, rfl⟩ | ⟨rfl, rfl⟩
        · refine ⟨s.clock, FreeSince.new hr hpc hp hs ho, Nat.le_refl _, Or.inr ⟨t, ?_⟩⟩
          simp [upd, hpc, pendAfter]
        · obtain ⟨f, hf⟩ := createFail_pc hb
          rw [hpc] at hf; cases hf
    · intro t1 o f hp1
      rcases getTest_origin_step hb t1 o f hp1 with hold | ⟨rfl, hpop, hin⟩
      · obtain ⟨t0, fs, hle⟩ := hH.test t1 o f hold
        exact ⟨t0, fs.snoc hr hs (Or.inr hp1), hle⟩
      · obtain ⟨t0, fs, _, hor⟩ := hH.free o hin
        refine ⟨t0, (fs.mono (fun s1 h => Or.inl h)).snoc hr hs (Or.inr hp1), ?_⟩
        rcases hor with h1 | ⟨u, hu⟩
        · exact h1
        · exfalso
          have hlu := pendOk_lock hI u (by rw [hu]; simp)
          have hlt := (hI.base.mutex t1).mp (by rw [hpop]; rfl)
          rw [hlu] at hlt
          cases hlt
          rw [hp] at hu; cases hu
  | readNow t hp =>
    constructor
    · intro o ho
      obtain ⟨t0, fs, hle, hor⟩ := hH.free o ho
      refine ⟨t0, fs.snoc hr hs ho, hle, ?_⟩
      rcases hor with h1 | ⟨u, hu⟩
      · exact Or.inl h1
      · refine Or.inr ⟨u, ?_⟩
        have : u ≠ t := by intro e; subst e; rw [hp] at hu; cases hu
        simp only [upd, this, if_false]; exact hu
    · intro t1 o f hp1
      obtain ⟨t0, fs, hle⟩ := hH.test t1 o f hp1
      exact ⟨t0, fs.snoc hr hs (Or.inr hp1), hle⟩
  | stampGet t o' hp =>
    have hpk := hI.pendOk t
    simp only [PendOk, hp] at hpk
    obtain ⟨f', hpc⟩ := hpk
    have hholds : (s.base.th t).pc.holds = some o' := by rw [hpc]; rfl
    constructor
    · intro o ho
      have hne : o ≠ o' := by
        intro e; subst e
        exact (hI.base.holdOk t o hholds).2 ho
      obtain ⟨t0, fs, hle, hor⟩ := hH.free o ho
      refine ⟨t0, fs.snoc hr hs ho, hle, ?_⟩
      rcases hor with h1 | ⟨u, hu⟩
      · left; simp only [upd, hne, if_false]; exact h1
      · refine Or.inr ⟨u, ?_⟩
        have : u ≠ t := by intro e; subst e; rw [hp] at hu; cases hu
        simp only [upd, this, if_false]; exact hu
    · intro t1 o f hp1
      have hne : o ≠ o' := by
        intro e; subst e
        have := hI.base.holdExcl t1 t o (by rw [hp1]; rfl) hholds
        subst this
        rw [hpc] at hp1; cases hp1
      obtain ⟨t0, fs, hle⟩ := hH.test t1 o f hp1
      refine ⟨t0, fs.snoc hr hs (Or.inr hp1), ?_⟩
      simp only [upd, hne, if_false]; exact hle
  | stampRel t o' hp _ =>
    constructor
    · intro o ho
      obtain ⟨t0, fs, hle, hor⟩ := hH.free o ho
      refine ⟨t0, fs.snoc hr hs ho, hle, ?_⟩
      by_cases hne : o = o'
      · subst hne; left; simp only [upd, if_true]; exact hle
      · rcases hor with h1 | ⟨u, hu⟩
        · left; simp only [upd, hne, if_false]; exact h1
        · refine Or.inr ⟨u, ?_⟩
          have : u ≠ t := by
            intro e; subst e; rw [hp] at hu
            injection hu with hu
            exact hne hu.symm
          simp only [upd, this, if_false]; exact hu
    · intro t1 o f hp1
      exfalso
      have hlu := pendOk_lock hI t (by rw [hp]; simp)
      have hlt := (hI.base.mutex t1).mp (by rw [hp1]; rfl)
      rw [hlu] at hlt
      cases hlt
      have hpk := hI.pendOk t
      simp only [PendOk, hp] at hpk
      rw [hpk] at hp1; cases hp1
  | leaveFirst t o b _ ho _ _ => exact absurd ho (by decide)

/-- both invariants hold along every run of pool.py's timed model -/
theorem hist_run (programs : List Program) (m i : Nat) (ls : List TLabel) (s : TState)
    (hr : runT false (initT programs m i) ls = some s) :
    InvT s ∧ HistInv (initT programs m i) ls s := by
  refine runT_induction (o := false) (s0 := initT programs m i)
    (motive := fun ls s => InvT s ∧ HistInv (initT programs m i) ls s) ?_ ?_ ls s hr
  · exact ⟨invT_init programs m i, hist_init programs m i⟩
  · intro ls s l s' hr ⟨hI, hH⟩ hs
    exact ⟨invT_step hI hs, hist_step hI hH hr hs⟩

theorem runCheckT_run {outside : Bool} {s0 : TState} {ls : List TLabel} {p : TState → Bool}
    (h : runCheckT outside s0 ls p = true) : ∃ s, runT outside s0 ls = some s ∧ p s = true := by
  unfold runCheckT at h
  split at h
  · next s hs => exact ⟨s, hs, h⟩
  · simp at h

/-- the clock value of a `FreeSince` witness is among the `append` times of the run -/
theorem appendTimes_of_freeSince {outside : Bool} {s0 : TState} {ls : List TLabel} {o : Obj} {t0 : Nat} {good : TState → Prop}
    (h : FreeSince outside s0 ls o t0 good) : t0 ∈ appendTimes outside s0 o ls := by
  obtain ⟨pre, post, u, sa, rfl, hpre, hpc, hpend, hclk, _⟩ := h
  induction pre generalizing s0 with
  | nil =>
    simp only [runT, Option.some.injEq] at hpre
    subst hpre
    simp only [List.nil_append, appendTimes, hpc, hpend, and_self, if_true, hclk]
    split <;> simp
  | cons l rest ih =>
    simp only [runT] at hpre
    cases h1 : stepT outside s0 l with
    | none => simp [h1] at hpre
    | some s1 =>
      simp only [h1] at hpre
      simp only [List.cons_append, appendTimes, h1]
      exact List.mem_append_right _ (ih hpre)

/-- there is only one `append` since which an object can have been in `_free_objs` without interruption -/
theorem FreeSince.unique {programs : List Program} {m i : Nat} {ls : List TLabel} {o : Obj} {t0 t0' : Nat}
    {good good' : TState → Prop}
    (hbad : ∀ s1 u, InvT s1 → (s1.base.th u).pc = .relAppend o → ¬ good s1)
    (hbad' : ∀ s1 u, InvT s1 → (s1.base.th u).pc = .relAppend o → ¬ good' s1)
    (h : FreeSince false (initT programs m i) ls o t0 good) (h' : FreeSince false (initT programs m i) ls o t0' good') :
    t0 = t0' := by
  obtain ⟨pre, post, u, sa, e, hpre, hpc, hpend, hclk, hall⟩ := h
  obtain ⟨pre', post', u', sa', e', hpre', hpc', hpend', hclk', hall'⟩ := h'
  rw [e] at e'
  rcases List.append_eq_append_iff.mp e' with ⟨a, ea, eb⟩ | ⟨a, ea, eb⟩
  · cases a with
    | nil =>
      simp only [List.append_nil] at ea
      subst ea
      rw [hpre] at hpre'
      cases hpre'
      rw [← hclk, ← hclk']
    | cons x a =>
      exfalso
      simp only [List.cons_append, List.cons.injEq] at eb
      obtain ⟨rfl, eb⟩ := eb
      subst ea
      obtain ⟨sb, hb1, hb2⟩ := runT_split hpre'
      rw [hpre] at hb1
      cases hb1
      exact hbad sa' u' (invT_run (invT_init programs m i) hpre') hpc' (hall a (.run u' :: post') sa' eb hb2)
  · cases a with
    | nil =>
      simp only [List.append_nil] at ea
      subst ea
      rw [hpre] at hpre'
      cases hpre'
      rw [← hclk, ← hclk']
    | cons x a =>
      exfalso
      simp only [List.cons_append, List.cons.injEq] at eb
      obtain ⟨rfl, eb⟩ := eb
      subst ea
      obtain ⟨sb, hb1, hb2⟩ := runT_split hpre
      rw [hpre'] at hb1
      cases hb1
      exact hbad' sa u (invT_run (invT_init programs m i) hpre) hpc (hall' a (.run u :: post) sa eb hb2)

/-- a thread about to `append` an object to `_free_objs` holds it: it is not in `_free_objs`, and nobody tests it -/
theorem not_good_at_relAppend {s1 : TState} {u t : Tid} {o : Obj} {f : Fin} (hI : InvT s1)
    (hpc : (s1.base.th u).pc = .relAppend o) : ¬ (o ∈ s1.base.free ∨ (s1.base.th t).pc = .getTest o f) := by
  have hh : (s1.base.th u).pc.holds = some o := by rw [hpc]; rfl
  rintro (hin | ht)
  · exact (hI.base.holdOk u o hh).2 hin
  · have := hI.base.holdExcl t u o (by rw [ht]; rfl) hh
    subst this
    rw [hpc] at ht; cases ht

end PoolConcT
