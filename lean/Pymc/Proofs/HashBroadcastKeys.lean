import Pymc.Proofs.HashBroadcastRun
/-!
# `HashClient ∘ Client`: `self.clients` never holds a server twice

`self.clients` is a dict; the model keeps it as an association list that is only ever written through `ainsert`
(`add_server` in the constructor and on revival, and the re-registration of the object after a contact).  So its keys are
pairwise distinct in every state reachable from `init` through key-addressed calls and broadcasts (`runB_nodup`) — which
is what turns "the visits of a broadcast are an initial segment of the registration order" into "no server is visited
twice" (`broadcastH_visits_nodup`).
-/
namespace HashCall
open Exchange Client Framing Failover

/-- the keys of `self.clients` are pairwise distinct -/
def NodupServers (st : St) : Prop := st.servers.Nodup

theorem servers_eq_keys (st : St) : st.servers = keys st.clients := rfl

theorem nodup_ainsert {st : St} (s : Srv) (v : IClient) (h : NodupServers st) :
    NodupServers { st with clients := ainsert s v st.clients } := by
  unfold NodupServers at *
  rw [servers_eq_keys] at *
  exact keys_ainsert_nodup s v st.clients h

theorem nodup_of_clients_eq {st st1 : St} (h : st1.clients = st.clients) (hn : NodupServers st) : NodupServers st1 := by
  unfold NodupServers St.servers at *
  rw [h]; exact hn

theorem nodup_newClient (st : St) (s : Srv) (h : NodupServers st) : NodupServers (newClient st s) := by
  have := nodup_ainsert (st := st) s { id := st.nextClient } h
  exact nodup_of_clients_eq (st := { st with clients := ainsert s { id := st.nextClient } st.clients }) rfl this

theorem nodup_initClients (l : List Srv) (st : St) (h : NodupServers st) : NodupServers (initClients l st) := by
  induction l generalizing st with
  | nil => exact h
  | cons s r ih => exact ih _ (nodup_newClient st s h)

theorem nodup_init (servers : List Srv) (t0 : Time) : NodupServers (init servers t0) :=
  nodup_initClients servers _ (by simp [NodupServers, St.servers])

theorem nodup_reviveAll (l : List Srv) (st st1 : St) (h : reviveAll l st = some st1) (hn : NodupServers st) :
    NodupServers st1 := by
  induction l generalizing st with
  | nil => simp only [reviveAll, Option.some.injEq] at h; subst h; exact hn
  | cons s r ih =>
    simp only [reviveAll] at h
    cases hd : aerase s st.fo.dead with
    | none => simp [hd] at h
    | some d =>
      simp only [hd] at h
      exact ih _ h (nodup_of_clients_eq (st := newClient st s) rfl (nodup_newClient st s hn))

theorem nodup_retryIfDead {c : Cfg} {now : Time} {st st1 : St} (h : retryIfDead c now st = some st1)
    (hn : NodupServers st) : NodupServers st1 := by
  unfold retryIfDead at h
  split at h
  · cases h; exact hn
  · unfold retryDead at h
    split at h
    · cases hr : reviveAll ((st.fo.dead.filter (fun p => decide (now - p.2 > c.dt))).map Prod.fst) st with
      | none => simp [hr] at h
      | some st' =>
        simp only [hr, Option.some.injEq] at h
        subst h
        exact nodup_of_clients_eq (st := st') rfl (nodup_reviveAll _ _ _ hr hn)
    · cases h; exact hn

theorem nodup_getClient {Key : Type} (c : Cfg) (route : List Srv → Key → Option Srv) (now : Time) (st : St) (key : Key)
    (hn : NodupServers st) : NodupServers (getClient c route now st key).1 := by
  unfold getClient
  cases hr : retryIfDead c now st with
  | none => exact hn
  | some st1 =>
    have h1 := nodup_retryIfDead hr hn
    simp only []
    cases route st1.fo.nodes key with
    | none => cases c.ignoreExc <;> exact h1
    | some s =>
      simp only []
      cases alookup s st1.clients <;> exact h1

theorem nodup_contact (ccfg : Wire.Cfg) (idx : Nat) (st : St) (s : Srv) (cl : IClient) (call : Call) (sc : Script)
    (hn : NodupServers st) : NodupServers (contact ccfg idx st s cl call sc).1 :=
  nodup_ainsert s _ hn

theorem nodup_safelyRunFunc (ccfg : Wire.Cfg) (c : Cfg) (idx : Nat) (now : Time) (st : St) (s : Srv) (cl : IClient)
    (call : Call) (sc : Script) (hn : NodupServers st) :
    NodupServers (safelyRunFunc ccfg c idx now st s cl call sc).1 := by
  rcases safelyRunFunc_step ccfg c idx now st s cl call sc with ⟨-, h⟩ | ⟨-, h⟩
  · exact nodup_of_clients_eq h hn
  · exact nodup_of_clients_eq h (nodup_contact ccfg idx st s cl call sc hn)

theorem nodup_safelyRunSetMany (ccfg : Wire.Cfg) (c : Cfg) (idx : Nat) (now : Time) (st : St) (s : Srv) (cl : IClient)
    (call : Call) (sc : Script) (hn : NodupServers st) :
    NodupServers (safelyRunSetMany ccfg c idx now st s cl call sc).1 := by
  rcases safelyRunSetMany_step ccfg c idx now st s cl call sc with ⟨-, h⟩ | ⟨-, h⟩
  · exact nodup_of_clients_eq h hn
  · exact nodup_of_clients_eq h (nodup_contact ccfg idx st s cl call sc hn)

theorem nodup_callH {Key : Type} (ccfg : Wire.Cfg) (c : Cfg) (route : List Srv → Key → Option Srv) (st : St) (idx : Nat)
    (now : Time) (rk : Key) (call : Call) (sc : Script) (hn : NodupServers st) :
    NodupServers (callH ccfg c route st idx now rk call sc).1 := by
  have hg := nodup_getClient c route now st rk hn
  rcases callH_cases ccfg c route st idx now rk call sc with ⟨-, h⟩ | ⟨-, ⟨r, -, -, h, -⟩ | ⟨s, cl, -, h⟩⟩
  · rw [h]; exact hn
  · rw [h]; exact hg
  · rw [h]; exact nodup_safelyRunFunc ccfg c idx now _ s cl call sc hg

theorem nodup_routeKeysH {RK : Type} (ccfg : Wire.Cfg) (c : Cfg) (route : List Srv → RK → Option Srv) (now : Time)
    (st : St) (ks : List (RK × Key.K)) (b : List (Srv × List Key.K)) (hn : NodupServers st) :
    NodupServers (routeKeysH ccfg c route now st ks b).1 := by
  induction ks generalizing st b with
  | nil => exact hn
  | cons rkk ks ih =>
    obtain ⟨rk, k⟩ := rkk
    simp only [routeKeysH]
    cases Wire.checkKey ccfg k with
    | error e => exact hn
    | ok w =>
      have hg := nodup_getClient c route now st rk hn
      simp only []
      generalize getClient c route now st rk = g at hg ⊢
      obtain ⟨st1, g⟩ := g
      cases g with
      | internalError => exact hg
      | allDown => exact hg
      | noClient => exact ih st1 b hg
      | client s cl => exact ih st1 _ hg

theorem nodup_routeItemsH {RK : Type} (ccfg : Wire.Cfg) (c : Cfg) (route : List Srv → RK → Option Srv) (now : Time)
    (st : St) (items : List (RK × Key.K × Wire.Val)) (b : List (Srv × List (Key.K × Wire.Val))) (f : List Key.K)
    (hn : NodupServers st) : NodupServers (routeItemsH ccfg c route now st items b f).1 := by
  induction items generalizing st b f with
  | nil => exact hn
  | cons it items ih =>
    obtain ⟨rk, k, v⟩ := it
    simp only [routeItemsH]
    cases Wire.checkKey ccfg k with
    | error e => exact hn
    | ok w =>
      have hg := nodup_getClient c route now st rk hn
      simp only []
      generalize getClient c route now st rk = g at hg ⊢
      obtain ⟨st1, g⟩ := g
      cases g with
      | internalError => exact hg
      | allDown => exact hg
      | noClient => exact ih st1 b _ hg
      | client s cl => exact ih st1 _ f hg

theorem nodup_runBatchesH (ccfg : Wire.Cfg) (c : Cfg) (idx : Nat) (now : Time) (gets : Bool) (scripts : Srv → Script)
    (st : St) (b : List (Srv × List Key.K)) (acc : Res) (hn : NodupServers st) :
    NodupServers (runBatchesH ccfg c idx now gets scripts st b acc).1 := by
  induction b generalizing st acc with
  | nil => exact hn
  | cons sks bs ih =>
    obtain ⟨s, ks⟩ := sks
    simp only [runBatchesH]
    cases alookup s st.clients with
    | none => exact hn
    | some cl =>
      have h1 := nodup_safelyRunFunc ccfg c idx now st s cl (batchCall gets ks) (scripts s) hn
      simp only []
      generalize safelyRunFunc ccfg c idx now st s cl (batchCall gets ks) (scripts s) = r at h1 ⊢
      obtain ⟨st1, r, stp⟩ := r
      cases r with
      | value v => exact ih st1 _ h1
      | default => exact ih st1 _ h1
      | raised s' e => exact h1
      | allDown => exact h1
      | illegalKey => exact h1
      | internalError => exact h1

theorem nodup_callM {RK : Type} (ccfg : Wire.Cfg) (c : Cfg) (route : List Srv → RK → Option Srv) (st : St) (idx : Nat)
    (mc : MCall RK) (hn : NodupServers st) : NodupServers (callM ccfg c route st idx mc).1 := by
  obtain ⟨op, now⟩ := mc
  cases op with
  | cmd rk call sc => exact nodup_callH ccfg c route st idx now rk call sc hn
  | getMany gets keys scripts =>
    simp only [callM, getManyH]
    have h1 := nodup_routeKeysH ccfg c route now st keys [] hn
    generalize routeKeysH ccfg c route now st keys [] = r at h1 ⊢
    obtain ⟨st1, r | b⟩ := r
    · exact h1
    · exact nodup_runBatchesH ccfg c idx now gets scripts st1 b _ h1
  | setMany items expire noreply flags scripts =>
    simp only [callM, setManyH]
    have h1 := nodup_routeItemsH ccfg c route now st items [] [] hn
    generalize routeItemsH ccfg c route now st items [] [] = r at h1 ⊢
    obtain ⟨st1, r | ⟨b, f⟩⟩ := r
    · exact h1
    · exact (runBatchesG_inv NodupServers (fun _ => True) _ _ _ _
        (fun st' s cl x hi _ => ⟨nodup_safelyRunSetMany ccfg c idx now st' s cl _ _ hi, fun _ _ => trivial⟩) st1 b f h1).1
  | deleteMany keys noreply =>
    simp only [callM, deleteManyH]
    exact (deleteLoop_inv NodupServers (fun _ => True) ccfg c route idx now noreply st keys hn
      (fun st' hi x _ => ⟨nodup_callH ccfg c route st' idx now x.1 _ x.2.2 hi, fun _ _ => trivial⟩)).1

theorem nodup_safelyRunFuncX (ccfg : Wire.Cfg) (c : Cfg) (idx : Nat) (now : Time) (st : St) (s : Srv) (cl : IClient)
    (op : BOp) (sc : Script) (hn : NodupServers st) :
    NodupServers (safelyRunFuncX ccfg c idx now st s cl op sc).1 := by
  have hb : NodupServers (bfunc ccfg idx st s cl op sc).1 := by
    rcases bfunc_cases ccfg idx st s cl op sc with ⟨call, -, h⟩ | ⟨-, h⟩
    · rw [h]; exact nodup_contact ccfg idx st s cl call sc hn
    · rw [h]; exact nodup_ainsert s _ hn
  rcases safelyRunFuncX_step ccfg c idx now st s cl op sc with ⟨-, -, h⟩ | ⟨-, -, h⟩
  · exact nodup_of_clients_eq h hn
  · exact nodup_of_clients_eq h hb

theorem nodup_callB {RK : Type} (ccfg : Wire.Cfg) (c : Cfg) (route : List Srv → RK → Option Srv) (st : St) (idx : Nat)
    (bc : BCall RK) (hn : NodupServers st) : NodupServers (callB ccfg c route st idx bc).1 := by
  cases bc with
  | keyed mc => exact nodup_callM ccfg c route st idx mc hn
  | broadcast op scripts now =>
    exact (bloop_inv NodupServers (fun _ => True) ccfg c idx now op scripts
      (fun st' s cl hi _ => ⟨nodup_safelyRunFuncX ccfg c idx now st' s cl op (scripts s) hi, fun _ _ => trivial⟩)
      st st.servers hn).1

/-- in every state reachable from a fresh `HashClient` through key-addressed calls and broadcasts, `self.clients` holds
every server once -/
theorem runB_nodup {RK : Type} (ccfg : Wire.Cfg) (c : Cfg) (route : List Srv → RK → Option Srv) (st : St) (k : Nat)
    (calls : List (BCall RK)) (hn : NodupServers st) : NodupServers (runB ccfg c route st k calls).1 := by
  induction calls generalizing st k with
  | nil => exact hn
  | cons bc rest ih => rw [runB_cons]; exact ih _ (k + 1) (nodup_callB ccfg c route st k bc hn)

/-- the servers visited by a broadcast are pairwise distinct when `self.clients` holds every server once -/
theorem broadcastH_visits_nodup (ccfg : Wire.Cfg) (c : Cfg) (st : St) (idx : Nat) (now : Time) (op : BOp)
    (scripts : Srv → Script) (hn : NodupServers st) :
    ((broadcastH ccfg c st idx now op scripts).2.visits.map (·.server)).Nodup := by
  obtain ⟨n, -, h, -⟩ := bloop_visits ccfg c idx now op scripts st st.servers (fun s h => h)
  show ((bloop ccfg c idx now op scripts st st.servers).2.2.map (·.server)).Nodup
  rw [h]
  exact (List.take_sublist n _).nodup hn
end HashCall

namespace HashCall
open Exchange Client Framing Failover

/-- observation `i` of a run is the observation of call `i` made in the state the first `i` calls lead to -/
theorem runB_getElem {RK : Type} (ccfg : Wire.Cfg) (c : Cfg) (route : List Srv → RK → Option Srv) (st : St) (k : Nat)
    (calls : List (BCall RK)) (i : Nat) (ob : XObs) (h : (runB ccfg c route st k calls).2[i]? = some ob) :
    ∃ bc, calls[i]? = some bc ∧ ob = (callB ccfg c route (runB ccfg c route st k (calls.take i)).1 (k + i) bc).2 := by
  induction calls generalizing st k i with
  | nil => simp [runB] at h
  | cons bc rest ih =>
    rw [runB_cons] at h
    cases i with
    | zero =>
      simp only [List.getElem?_cons_zero, Option.some.injEq] at h
      exact ⟨bc, rfl, by rw [← h]; rfl⟩
    | succ i =>
      simp only [List.getElem?_cons_succ] at h
      obtain ⟨bc', h1, h2⟩ := ih _ (k + 1) i h
      refine ⟨bc', by simpa using h1, ?_⟩
      rw [h2, List.take_succ_cons, runB_cons]
      simp only []
      rw [show k + 1 + i = k + (i + 1) by omega]

/-- every inner call of a broadcast is the `Client.call` of the broadcast's operation on a client object registered in
`self.clients`, under the script of that server's connection, with the socket and the pipe the object had -/
theorem broadcastH_steps (ccfg : Wire.Cfg) (c : Cfg) (st : St) (idx : Nat) (now : Time) (op : BOp) (scripts : Srv → Script) :
    ∀ stp ∈ (broadcastH ccfg c st idx now op scripts).2.steps,
      ∃ call s so left, op.call? = some call ∧ stp = PooledCall.stepTagged ccfg idx so left call (scripts s) := by
  intro stp hstp
  obtain ⟨v, hv, hs⟩ := mem_bsteps hstp
  refine (bloop_inv (fun _ => True)
    (fun stp => ∃ call s so left, op.call? = some call ∧ stp = PooledCall.stepTagged ccfg idx so left call (scripts s))
    ccfg c idx now op scripts (fun st' s cl _ _ => ⟨trivial, fun stp' h' => ?_⟩) st st.servers trivial).2 v hv stp hs
  rcases safelyRunFuncX_step ccfg c idx now st' s cl op (scripts s) with ⟨-, ha, -⟩ | ⟨-, ha, -⟩
  · rw [ha] at h'; cases h'
  · rw [ha] at h'
    rcases bfunc_cases ccfg idx st' s cl op (scripts s) with ⟨call, hc, hb⟩ | ⟨-, hb⟩
    · rw [hb] at h'
      exact ⟨call, s, cl.sockOpen, cl.pipe, hc, (Option.some.inj h').symm⟩
    · rw [hb] at h'; cases h'
end HashCall

namespace HashCall
open Exchange Client Framing Failover

/-- the operation leaves the client without a socket: `quit` (sends `quit`, then `self.close()`) and `close` -/
def BOp.closes : BOp → Bool
  | .flushAll _ _ => false
  | _ => true

/-- no client object registered for server `s` holds a socket -/
def ClosedFor (s : Srv) (st : St) : Prop := ∀ x ∈ st.clients, x.1 = s → x.2.sockOpen = false

theorem mem_ainsert_key {β : Type} {k : Srv} {v : β} {l : List (Srv × β)} {x : Srv × β} (h : x ∈ ainsert k v l)
    (hk : x.1 = k) : x = (k, v) := by
  unfold ainsert at h
  split at h
  · obtain ⟨p, -, rfl⟩ := List.mem_map.mp h
    by_cases hp : p.1 = k
    · simp [hp]
    · simp only [hp, if_false] at hk
  · rename_i hm
    rcases List.mem_append.mp h with h | h
    · exfalso
      have : amem k l = true := by
        rw [amem_eq_true_iff, ← mem_keys_iff]
        exact List.mem_map.mpr ⟨x, h, hk⟩
      exact hm this
    · exact List.mem_singleton.mp h

theorem bfunc_closes (ccfg : Wire.Cfg) (idx : Nat) (st : St) (s : Srv) (cl : IClient) (op : BOp) (sc : Script)
    (hop : op.closes = true) :
    (∀ x ∈ (bfunc ccfg idx st s cl op sc).1.clients, x ∈ st.clients ∨ (x.1 = s ∧ x.2.sockOpen = false)) ∧
    ClosedFor s (bfunc ccfg idx st s cl op sc).1 := by
  rcases bfunc_cases ccfg idx st s cl op sc with ⟨call, hc, h⟩ | ⟨-, h⟩
  · have hq : call = .quit := by
      cases op with
      | flushAll d nr => cases hop
      | quit => simp only [BOp.call?, Option.some.injEq] at hc; exact hc.symm
      | close => cases hc
    subst hq
    have hclosed := (PooledCall.stepTagged_conn ccfg idx cl.sockOpen cl.pipe .quit sc).2.2 rfl
    rw [h]
    simp only [contact_clients]
    refine ⟨fun x hx => ?_, fun x hx hk => ?_⟩
    · rcases mem_ainsert hx with h' | h'
      · exact .inl h'
      · subst h'; exact .inr ⟨rfl, hclosed.1⟩
    · rw [mem_ainsert_key hx hk]; exact hclosed.1
  · rw [h]
    refine ⟨fun x hx => ?_, fun x hx hk => ?_⟩
    · rcases mem_ainsert hx with h' | h'
      · exact .inl h'
      · subst h'; exact .inr ⟨rfl, rfl⟩
    · rw [mem_ainsert_key hx hk]

/-- **`quit` / `close` leave no socket behind on the clients they reach**: after the loop, every client object the
function was called on has no socket (a client skipped inside its retry window, or one after the escaping exception, is not
reached) -/
theorem bloop_closes (ccfg : Wire.Cfg) (c : Cfg) (idx : Nat) (now : Time) (op : BOp) (scripts : Srv → Script)
    (hop : op.closes = true) (st : St) (keys : List Srv) :
    (∀ s, ClosedFor s st → ClosedFor s (bloop ccfg c idx now op scripts st keys).1) ∧
    ∀ v ∈ (bloop ccfg c idx now op scripts st keys).2.2, v.invoked = true →
      ClosedFor v.server (bloop ccfg c idx now op scripts st keys).1 := by
  induction keys generalizing st with
  | nil => exact ⟨fun s h => h, fun v h => by simp [bloop] at h⟩
  | cons s rest ih =>
    simp only [bloop]
    cases hl : alookup s st.clients with
    | none => exact ih st
    | some cl =>
      have hstep := safelyRunFuncX_step ccfg c idx now st s cl op (scripts s)
      have hb := bfunc_closes ccfg idx st s cl op (scripts s) hop
      simp only []
      generalize safelyRunFuncX ccfg c idx now st s cl op (scripts s) = r at hstep ⊢
      obtain ⟨st1, o, stp, inv⟩ := r
      simp only [] at hstep ⊢
      -- what this visit does to the sockets
      have hkeep : ∀ s', ClosedFor s' st → ClosedFor s' st1 := by
        intro s' hs' x hx hk
        rcases hstep with ⟨-, -, h⟩ | ⟨-, -, h⟩
        · exact hs' x (h ▸ hx) hk
        · rcases hb.1 x (h ▸ hx) with h' | h'
          · exact hs' x h' hk
          · exact h'.2
      have hself : inv = true → ClosedFor s st1 := by
        intro hi x hx hk
        rcases hstep with ⟨h0, -, -⟩ | ⟨-, -, h⟩
        · rw [hi] at h0; cases h0
        · exact hb.2 x (h ▸ hx) hk
      split
      · refine ⟨hkeep, fun v hv hi => ?_⟩
        simp only [List.mem_singleton] at hv
        subst hv
        exact hself hi
      · obtain ⟨h1, h2⟩ := ih st1
        refine ⟨fun s' hs' => h1 s' (hkeep s' hs'), fun v hv hi => ?_⟩
        rcases List.mem_cons.mp hv with h | h
        · subst h; exact h1 s (hself hi)
        · exact h2 v h hi
end HashCall

namespace HashCall
open Exchange Client Framing Failover

/-- no visit of the loop ends in a `KeyError` of the bookkeeping -/
theorem bloop_no_keyError (ccfg : Wire.Cfg) (c : Cfg) (idx : Nat) (now : Time) (op : BOp) (scripts : Srv → Script)
    (st : St) (keys : List Srv) :
    (∀ v ∈ (bloop ccfg c idx now op scripts st keys).2.2, v.out ≠ .bookkeeping .keyError) ∧
    ∀ s, (bloop ccfg c idx now op scripts st keys).2.1 ≠ .bookkeeping s .keyError := by
  induction keys generalizing st with
  | nil => exact ⟨fun v h => by simp [bloop] at h, fun s h => by simp [bloop] at h⟩
  | cons s rest ih =>
    simp only [bloop]
    cases hl : alookup s st.clients with
    | none => exact ih st
    | some cl =>
      have hk := safelyRunFuncX_no_keyError ccfg c idx now st s cl op (scripts s)
      simp only []
      generalize safelyRunFuncX ccfg c idx now st s cl op (scripts s) = r at hk ⊢
      obtain ⟨st1, o, stp, inv⟩ := r
      simp only [] at hk ⊢
      split
      · refine ⟨fun v hv => by simp only [List.mem_singleton] at hv; subst hv; exact hk, fun s' h => ?_⟩
        cases o with
        | value r => simp [BRes.ofOut] at h
        | default => simp [BRes.ofOut] at h
        | raised e => simp [BRes.ofOut] at h
        | bookkeeping k =>
          simp only [BRes.ofOut, BRes.bookkeeping.injEq] at h
          exact hk (by rw [h.2])
      · obtain ⟨h1, h2⟩ := ih st1
        refine ⟨fun v hv => ?_, h2⟩
        rcases List.mem_cons.mp hv with h | h
        · subst h; exact hk
        · exact h1 v h
end HashCall
