import Pymc.Proofs.HashPooledCall
import Pymc.Proofs.HashCallExamples
/-! Concrete runs of the composed model `HashClient ∘ PooledClient ∘ Client` (non-vacuity of the `…_hashpooled_…`
theorems of `Pymc/Props/C01.lean`, `Pymc/Props/C09.lean` and `Pymc/Props/C13.lean`). -/
namespace HashPooledCallExamples
open Bytes Readers Wire Exchange Client Framing Failover HashInner HashPooledCall C01Examples PooledCallExamples
open HashCallExamples (getK cfgStrict cfgIgnore wf_get_value wf_get_end)

/-- `max_pool_size=1`, connections never expire -/
def pool1 : Pooled.Cfg := ⟨1, 0⟩
/-- `max_pool_size=2, pool_idle_timeout=3` -/
def poolIdle : Pooled.Cfg := ⟨2, 3⟩

/-- a call of `HashCall` as a call of the pooled model: the pool releases at the time of the call -/
def toG (hc : HashCall.HCall (List Srv)) : HPCall (List Srv) :=
  { rk := hc.rk, call := hc.call, sc := hc.sc, now := hc.now }

/-- the six-call history `HashCallExamples.demoCalls` (`get k` preferring server 0, then 1; `retry_attempts=1,
retry_timeout=1, dead_timeout=5`; every script well-framed) on a `HashClient(use_pooling=True, max_pool_size=1)`:
0. t=0: served by server 0: its `PooledClient` (number 0) creates inner client 0, which opens connection 0 → the value;
   the inner client goes back to the pool with its socket;
1. t=1: `sendall` fails with `EPIPE` on that socket → `OSError`: the failing contact *destroys* inner client 0 (the pool of
   server 0 is empty, connection 0 closed), server 0 is marked failing;
2. t=3: retry: the pool creates inner client 1, connection refused → destroyed, attempts = 1;
3. t=5: attempts used up → `remove_server(0)`: out of rotation; the final probe (inner client 2) is refused too;
4. t=6: the key is rerouted to server 1 (`PooledClient` 1, its inner client 0 opens its connection 0) → miss;
5. t=12: server 0 is brought back with a *fresh* `PooledClient` (number 2, empty pool): its inner client 0 opens its
   connection 0, the retry succeeds, the failure record is cleared. -/
def demoCalls : List (HPCall (List Srv)) := HashCallExamples.demoCalls.map toG

theorem demoCalls_wf : ∀ hc ∈ demoCalls, WellFramed {} hc.call hc.sc.evs := by
  intro hc h
  obtain ⟨x, hx, rfl⟩ := List.mem_map.mp h
  exact HashCallExamples.demoCalls_wf x hx

/-- a registered `PooledClient`: server, number, idle inner clients (id, connection, socket open, events left in its
pipe), connections closed so far, number of checked-out clients -/
structure PoolSum where
  srv : Nat
  pc : Nat
  free : List (Nat × Option Nat × Bool × Nat)
  closed : List Nat
  out : Nat
deriving DecidableEq, Repr

/-- what a call shows: result, server routed to, `PooledClient` invoked, inner client that served, connection used, tags
of the consumed `recv()` results -/
structure ObsSum where
  res : HRes PExc
  srv : Option Nat
  pc : Option Nat
  inner : Option Nat
  io : Option Nat
  cons : List Nat
deriving DecidableEq, Repr

def obsSummary {pcfg : Pooled.Cfg} (r : St pcfg × List (HPObs pcfg)) : List ObsSum :=
  r.2.map fun ob =>
    let po : Option PooledCall.PObs := ob.inner
    ⟨ob.res, ob.server, ob.obj, po.bind (·.client), po.bind (·.io), match stepOf ob with
      | some stp => stp.consumed.map (·.1)
      | none => []⟩

def poolSummary {pcfg : Pooled.Cfg} (st : St pcfg) : List PoolSum :=
  (pools st).map fun p => ⟨p.1, p.2.1, p.2.2.free.map fun cl => (cl.id, cl.conn, cl.sockOpen, cl.pipe.length),
    p.2.2.closed, p.2.2.used.length⟩

/-- bookkeeping state and pools -/
def stateSummary {pcfg : Pooled.Cfg} (r : St pcfg × List (HPObs pcfg)) : State × List PoolSum :=
  (r.1.fo, poolSummary r.1)

/-- the pools after each prefix of the history -/
def poolTrace (ccfg : Wire.Cfg) (pcfg : Pooled.Cfg) (c : Failover.Cfg) (calls : List (HPCall (List Srv))) :
    List (List PoolSum) :=
  (List.range (calls.length + 1)).map fun n =>
    poolSummary (runHP ccfg pcfg c prefRoute (init pcfg [0, 1] 0) 0 (calls.take n)).1

theorem demo_strict :
    obsSummary (runHP {} pool1 cfgStrict prefRoute (init pool1 [0, 1] 0) 0 demoCalls) =
      [⟨.value (.bytes [120]), some 0, some 0, some 0, some 0, [0]⟩,
       ⟨.raised 0 (.inner (.sock 32)), some 0, some 0, some 0, some 0, []⟩,
       ⟨.raised 0 (.inner (.sock 61)), some 0, some 0, some 1, none, []⟩,
       ⟨.raised 0 (.inner (.sock 61)), some 0, some 0, some 2, none, []⟩,
       ⟨.value .dflt, some 1, some 1, some 0, some 0, [4]⟩,
       ⟨.value (.bytes [120]), some 0, some 2, some 0, some 0, [5]⟩] ∧
    stateSummary (runHP {} pool1 cfgStrict prefRoute (init pool1 [0, 1] 0) 0 demoCalls) =
      ({ nodes := [1, 0], failed := [], dead := [], lastDeadCheck := 12 },
       [⟨0, 2, [(0, some 0, true, 0)], [], 0⟩, ⟨1, 1, [(0, some 0, true, 0)], [], 0⟩]) ∧
    poolTrace {} pool1 cfgStrict demoCalls =
      [[⟨0, 0, [], [], 0⟩, ⟨1, 1, [], [], 0⟩],
       [⟨0, 0, [(0, some 0, true, 0)], [], 0⟩, ⟨1, 1, [], [], 0⟩],
       [⟨0, 0, [], [0], 0⟩, ⟨1, 1, [], [], 0⟩],
       [⟨0, 0, [], [0], 0⟩, ⟨1, 1, [], [], 0⟩],
       [⟨0, 0, [], [0], 0⟩, ⟨1, 1, [], [], 0⟩],
       [⟨0, 0, [], [0], 0⟩, ⟨1, 1, [(0, some 0, true, 0)], [], 0⟩],
       [⟨0, 2, [(0, some 0, true, 0)], [], 0⟩, ⟨1, 1, [(0, some 0, true, 0)], [], 0⟩]] := by
  refine ⟨by decide +kernel, by decide +kernel, by decide +kernel⟩

/-- the same history with `ignore_exc=True`: the failing calls return the default instead of raising; the pools go
through the same states (the `PooledClient`s are built without `ignore_exc`: the failing inner client is destroyed, the
exception is swallowed by `_safely_run_func`) -/
theorem demo_ignore :
    obsSummary (runHP {} pool1 cfgIgnore prefRoute (init pool1 [0, 1] 0) 0 demoCalls) =
      [⟨.value (.bytes [120]), some 0, some 0, some 0, some 0, [0]⟩,
       ⟨.default, some 0, some 0, some 0, some 0, []⟩,
       ⟨.default, some 0, some 0, some 1, none, []⟩,
       ⟨.default, some 0, some 0, some 2, none, []⟩,
       ⟨.value .dflt, some 1, some 1, some 0, some 0, [4]⟩,
       ⟨.value (.bytes [120]), some 0, some 2, some 0, some 0, [5]⟩] ∧
    stateSummary (runHP {} pool1 cfgIgnore prefRoute (init pool1 [0, 1] 0) 0 demoCalls) =
      ({ nodes := [1, 0], failed := [], dead := [], lastDeadCheck := 12 },
       [⟨0, 2, [(0, some 0, true, 0)], [], 0⟩, ⟨1, 1, [(0, some 0, true, 0)], [], 0⟩]) := by
  refine ⟨by decide +kernel, by decide +kernel⟩

/-- the abstract history the run gives rise to, and what `Failover.run` makes of it: the same bookkeeping state and,
per event, the result and the contact log of the composed run -/
theorem demo_projection :
    (eventsOf demoCalls (runHP {} pool1 cfgStrict prefRoute (init pool1 [0, 1] 0) 0 demoCalls).2).map
        (fun e => (e.now, e.env 0, e.env 1)) =
      [(0, .ok, .ok), (1, .oserror, .oserror), (3, .oserror, .oserror), (5, .oserror, .oserror), (6, .ok, .ok), (12, .ok, .ok)] ∧
    Failover.run cfgStrict prefRoute (Failover.init [0, 1] 0)
        (eventsOf demoCalls (runHP {} pool1 cfgStrict prefRoute (init pool1 [0, 1] 0) 0 demoCalls).2) =
      ({ nodes := [1, 0], failed := [], dead := [], lastDeadCheck := 12 },
       [(.value, [(0, 0, .ok)]), (.raisedServerError 0 .oserror, [(0, 1, .oserror)]),
        (.raisedServerError 0 .oserror, [(0, 3, .oserror)]), (.raisedServerError 0 .oserror, [(0, 5, .oserror)]),
        (.value, [(1, 6, .ok)]), (.value, [(0, 12, .ok)])]) := by
  refine ⟨by decide +kernel, by decide +kernel⟩

/-! ## the pool of an evicted server is dropped with its idle connection -/

/-- `pool_idle_timeout=3`; as `demoCalls`, but the final probe of call 3 (made *after* `remove_server(0)`) succeeds, and
the calls take time (`fin`):
0. t=0…1: server 0, inner client 0 on connection 0, released at 1;
1. t=2: `EPIPE` → inner client 0 destroyed (connection 0 closed), server 0 marked;
2. t=4: retry, refused → attempts = 1;
3. t=6: attempts used up → `remove_server(0)`, then the probe is made anyway — and succeeds: inner client 2 of the *old*
   `PooledClient` 0 goes back to its pool holding connection 1; the server stays out of rotation;
4. t=7: rerouted to server 1; 5. t=9: again — the same inner client on the same connection (idle for 2 ≤ 3);
6. t=13: server 0 is brought back with the fresh `PooledClient` 2: the old pool — with its idle inner client 2 and the
   open connection 1 — is gone from `self.clients` without having been closed; server 0 is served by inner client 0 of the
   new pool on its connection 0;
7. t=20: rerouted by preference to server 1, whose idle client has expired (20 - 9 > 3): connection 0 of that pool is
   closed, a new inner client 1 connects. -/
def leakCalls : List (HPCall (List Srv)) :=
  [{ rk := [0, 1], call := getK, sc := { evs := [.data getReply] }, now := 0, fin := 1 },
   { rk := [0, 1], call := getK, sc := { sendFails := some (.sock 32), evs := [.data endLine] }, now := 2 },
   { rk := [0, 1], call := getK, sc := { connectFails := some (.sock 61), evs := [.data endLine] }, now := 4 },
   { rk := [0, 1], call := getK, sc := { evs := [.data endLine] }, now := 6 },
   { rk := [0, 1], call := getK, sc := { evs := [.data endLine] }, now := 7 },
   { rk := [0, 1], call := getK, sc := { evs := [.data getReply] }, now := 9 },
   { rk := [0, 1], call := getK, sc := { evs := [.data getReply] }, now := 13 },
   { rk := [1, 0], call := getK, sc := { evs := [.data endLine] }, now := 20 }]

theorem leakCalls_wf : ∀ hc ∈ leakCalls, WellFramed {} hc.call hc.sc.evs := by
  intro hc h
  simp only [leakCalls, List.mem_cons, List.not_mem_nil, or_false] at h
  rcases h with rfl | rfl | rfl | rfl | rfl | rfl | rfl | rfl
  · exact wf_get_value
  · exact wf_get_end
  · exact wf_get_end
  · exact wf_get_end
  · exact wf_get_end
  · exact wf_get_value
  · exact wf_get_value
  · exact wf_get_end

theorem demo_leak :
    obsSummary (runHP {} poolIdle cfgStrict prefRoute (init poolIdle [0, 1] 0) 0 leakCalls) =
      [⟨.value (.bytes [120]), some 0, some 0, some 0, some 0, [0]⟩,
       ⟨.raised 0 (.inner (.sock 32)), some 0, some 0, some 0, some 0, []⟩,
       ⟨.raised 0 (.inner (.sock 61)), some 0, some 0, some 1, none, []⟩,
       ⟨.value .dflt, some 0, some 0, some 2, some 1, [3]⟩,
       ⟨.value .dflt, some 1, some 1, some 0, some 0, [4]⟩,
       ⟨.value (.bytes [120]), some 1, some 1, some 0, some 0, [5]⟩,
       ⟨.value (.bytes [120]), some 0, some 2, some 0, some 0, [6]⟩,
       ⟨.value .dflt, some 1, some 1, some 1, some 1, [7]⟩] ∧
    poolTrace {} poolIdle cfgStrict leakCalls =
      [[⟨0, 0, [], [], 0⟩, ⟨1, 1, [], [], 0⟩],
       [⟨0, 0, [(0, some 0, true, 0)], [], 0⟩, ⟨1, 1, [], [], 0⟩],
       [⟨0, 0, [], [0], 0⟩, ⟨1, 1, [], [], 0⟩],
       [⟨0, 0, [], [0], 0⟩, ⟨1, 1, [], [], 0⟩],
       [⟨0, 0, [(2, some 1, true, 0)], [0], 0⟩, ⟨1, 1, [], [], 0⟩],
       [⟨0, 0, [(2, some 1, true, 0)], [0], 0⟩, ⟨1, 1, [(0, some 0, true, 0)], [], 0⟩],
       [⟨0, 0, [(2, some 1, true, 0)], [0], 0⟩, ⟨1, 1, [(0, some 0, true, 0)], [], 0⟩],
       [⟨0, 2, [(0, some 0, true, 0)], [], 0⟩, ⟨1, 1, [(0, some 0, true, 0)], [], 0⟩],
       [⟨0, 2, [(0, some 0, true, 0)], [], 0⟩, ⟨1, 1, [(1, some 1, true, 0)], [0], 0⟩]] ∧
    (runHP {} poolIdle cfgStrict prefRoute (init poolIdle [0, 1] 0) 0 leakCalls).1.fo =
      { nodes := [1, 0], failed := [], dead := [], lastDeadCheck := 13 } := by
  refine ⟨by decide +kernel, by decide +kernel, by decide +kernel⟩

/-! ## a history over a breaking connection -/

/-- `HashCallExamples.faultCalls` (`ignore_exc=True`) with pooling: a reply cut by a timeout with junk arriving later, a
`BaseException` while connecting (escapes, marks nothing), a half line followed by end-of-stream, refused connections,
an illegal key; server 0 comes back with a fresh `PooledClient` whose inner client never sees the junk of call 1.  Every
failing contact destroys the inner client it used: call 1 is the last one served by inner client 0 of pool 0. -/
def faultCalls : List (HPCall (List Srv)) := HashCallExamples.faultCalls.map toG

theorem faultCalls_ff : ∀ hc ∈ faultCalls, FaultFramed {} hc.call hc.sc.evs := by
  intro hc h
  obtain ⟨x, hx, rfl⟩ := List.mem_map.mp h
  exact HashCallExamples.faultCalls_ff x hx

theorem demo_faults :
    obsSummary (runHP {} pool1 cfgIgnore prefRoute (init pool1 [0, 1] 0) 0 faultCalls) =
      [⟨.value (.bytes [120]), some 0, some 0, some 0, some 0, [0]⟩,
       ⟨.default, some 0, some 0, some 0, some 0, [0, 1, 1, 1]⟩,
       ⟨.raised 0 (.inner (.sock 130)), some 0, some 0, some 1, none, []⟩,
       ⟨.default, some 0, some 0, some 2, some 1, [3, 3]⟩,
       ⟨.default, some 0, some 0, some 3, none, []⟩,
       ⟨.default, some 0, some 0, some 4, none, []⟩,
       ⟨.illegalKey, none, none, none, none, []⟩,
       ⟨.value (.bytes [120]), some 0, some 2, some 0, some 0, [7]⟩] ∧
    stateSummary (runHP {} pool1 cfgIgnore prefRoute (init pool1 [0, 1] 0) 0 faultCalls) =
      ({ nodes := [1, 0], failed := [], dead := [], lastDeadCheck := 20 },
       [⟨0, 2, [(0, some 0, true, 0)], [], 0⟩, ⟨1, 1, [], [], 0⟩]) := by
  refine ⟨by decide +kernel, by decide +kernel⟩
end HashPooledCallExamples
