import Pymc.Proofs.ExchangeFetchUnits
/-! Helper lemmas for C01: the three exchange paths (`exchangeStore`, `exchangeMisc`, `exchangeFetch`). -/
namespace Exchange
open Bytes Readers Wire Framing

/-- the unread events are a fault-free schedule carrying no bytes -/
def Drained (evs : List Ev) : Prop := joinData evs = [] ∧ clean evs

/-! ## store -/

theorem exchangeStore_suffix (verb : SVerb) (cmds : List Bytes) (nr so : Bool) (sc : Script) :
    (exchangeStore verb cmds nr so sc).unread <:+ sc.evs := by
  unfold exchangeStore
  rcases (if so = true then none else sc.connectFails) with _ | e
  · rcases sc.sendFails with _ | e
    · dsimp only
      split
      · exact List.suffix_refl _
      · exact storeLoop_suffix _ _ _ _ _
    · exact List.suffix_refl _
  · exact List.suffix_refl _

theorem exchangeStore_open (verb : SVerb) (cmds : List Bytes) (nr so : Bool) (sc : Script)
    (h : (exchangeStore verb cmds nr so sc).sockOpen = true) :
    ∃ r, (exchangeStore verb cmds nr so sc).res = .ok r ∧ r.length = cmds.length ∧
      (exchangeStore verb cmds nr so sc).sent = some cmds.flatten ∧
      (nr = false → (storeLoop verb cmds.length [] sc.evs []).res = .ok r) := by
  revert h
  unfold exchangeStore
  rcases (if so = true then none else sc.connectFails) with _ | e
  · rcases sc.sendFails with _ | e
    · dsimp only
      cases nr with
      | true => intro _; exact ⟨_, rfl, by simp, rfl, by simp⟩
      | false =>
        simp only [Bool.false_eq_true, if_false]
        intro h
        rcases hres : (storeLoop verb cmds.length [] sc.evs []).res with e | r
        · have := storeLoop_error_closed _ _ _ _ _ hres
          simp [this] at h
        · have := storeLoop_ok_open _ _ _ _ _ hres
          refine ⟨r, ?_⟩
          simp only [true_and, and_true, implies_true]
          simpa using this.2
    · simp
  · simp

theorem exchangeStore_noreply (verb : SVerb) (cmds : List Bytes) (so : Bool) (sc : Script)
    (evs' : List Ev) :
    (exchangeStore verb cmds true so sc).unread = sc.evs ∧
    exchangeStore verb cmds true so { sc with evs := evs' } =
      { exchangeStore verb cmds true so sc with unread := evs' } := by
  unfold exchangeStore
  dsimp only
  rcases (if so = true then none else sc.connectFails) with _ | e
  · rcases sc.sendFails with _ | e <;> simp
  · simp

theorem exchangeStore_framed (verb : SVerb) (cmds : List Bytes) (nr so : Bool) (sc : Script)
    (hc : clean sc.evs)
    (hf : if nr then joinData sc.evs = [] else Units LineUnit cmds.length (joinData sc.evs))
    (h : (exchangeStore verb cmds nr so sc).sockOpen = true) :
    Drained (exchangeStore verb cmds nr so sc).unread := by
  revert h
  unfold exchangeStore
  rcases (if so = true then none else sc.connectFails) with _ | e
  · rcases sc.sendFails with _ | e
    · dsimp only
      cases nr with
      | true => intro _; simp at hf ⊢; exact ⟨hf, hc⟩
      | false =>
        simp only [Bool.false_eq_true, if_false] at hf ⊢
        intro h
        obtain ⟨us, hlen, hu, hj⟩ := hf
        have := storeLoop_units verb us [] sc.evs [] hc hu (by simpa using hj)
        rw [hlen] at this
        rcases this with ⟨r, -, -, h1, h2⟩ | ⟨e, -, hcl⟩
        · exact ⟨h1, h2⟩
        · simp [hcl] at h
    · simp
  · simp

theorem exchangeStore_probe (verb : SVerb) (cmds : List Bytes) (nr : Bool) :
    (exchangeStore verb cmds nr true {}).sent = some cmds.flatten := by
  unfold exchangeStore
  cases nr <;> simp

/-! ## misc -/

theorem exchangeMisc_suffix (cmds : List Bytes) (nr : Bool) (tok : Option Bytes) (so : Bool) (sc : Script) :
    (exchangeMisc cmds nr tok so sc).unread <:+ sc.evs := by
  unfold exchangeMisc
  rcases (if so = true then none else sc.connectFails) with _ | e
  · rcases sc.sendFails with _ | e
    · dsimp only
      split
      · exact List.suffix_refl _
      · exact miscLoop_suffix _ _ _ _ _
    · exact List.suffix_refl _
  · exact List.suffix_refl _

theorem exchangeMisc_open (cmds : List Bytes) (nr : Bool) (tok : Option Bytes) (so : Bool) (sc : Script)
    (h : (exchangeMisc cmds nr tok so sc).sockOpen = true) :
    ∃ r, (exchangeMisc cmds nr tok so sc).res = .ok r ∧ (nr = false → r.length = cmds.length) ∧
      (exchangeMisc cmds nr tok so sc).sent = some cmds.flatten ∧
      (nr = false → (miscLoop tok cmds.length [] sc.evs []).res = .ok r) := by
  revert h
  unfold exchangeMisc
  rcases (if so = true then none else sc.connectFails) with _ | e
  · rcases sc.sendFails with _ | e
    · dsimp only
      cases nr with
      | true => intro _; exact ⟨_, rfl, by simp, rfl, by simp⟩
      | false =>
        simp only [Bool.false_eq_true, if_false]
        intro h
        rcases hres : (miscLoop tok cmds.length [] sc.evs []).res with e | r
        · have := miscLoop_error_closed _ _ _ _ _ hres
          simp [this] at h
        · have := miscLoop_ok_open _ _ _ _ _ hres
          refine ⟨r, ?_⟩
          simp only [true_and, and_true, implies_true]
          simpa using this.2
    · simp
  · simp

theorem exchangeMisc_noreply (cmds : List Bytes) (tok : Option Bytes) (so : Bool) (sc : Script)
    (evs' : List Ev) :
    (exchangeMisc cmds true tok so sc).unread = sc.evs ∧
    exchangeMisc cmds true tok so { sc with evs := evs' } =
      { exchangeMisc cmds true tok so sc with unread := evs' } := by
  unfold exchangeMisc
  dsimp only
  rcases (if so = true then none else sc.connectFails) with _ | e
  · rcases sc.sendFails with _ | e <;> simp
  · simp

theorem exchangeMisc_framed (cmds : List Bytes) (nr : Bool) (tok : Option Bytes) (so : Bool) (sc : Script)
    (hc : clean sc.evs)
    (hf : if nr then joinData sc.evs = [] else Units (MiscUnit tok) cmds.length (joinData sc.evs))
    (h : (exchangeMisc cmds nr tok so sc).sockOpen = true) :
    Drained (exchangeMisc cmds nr tok so sc).unread := by
  revert h
  unfold exchangeMisc
  rcases (if so = true then none else sc.connectFails) with _ | e
  · rcases sc.sendFails with _ | e
    · dsimp only
      cases nr with
      | true => intro _; simp at hf ⊢; exact ⟨hf, hc⟩
      | false =>
        simp only [Bool.false_eq_true, if_false] at hf ⊢
        intro h
        obtain ⟨us, hlen, hu, hj⟩ := hf
        have := miscLoop_units tok us [] sc.evs [] hc hu (by simpa using hj)
        rw [hlen] at this
        rcases this with ⟨r, -, -, h1, h2⟩ | ⟨e, -, hcl⟩
        · exact ⟨h1, h2⟩
        · simp [hcl] at h
    · simp
  · simp

theorem exchangeMisc_probe (cmds : List Bytes) (nr : Bool) (tok : Option Bytes) :
    (exchangeMisc cmds nr tok true {}).sent = some cmds.flatten := by
  unfold exchangeMisc
  cases nr <;> simp

/-! ## fetch -/

theorem pending_lt_totalLen (evs : List Ev) : pending [] evs < totalLen [] evs := by
  simp [pending, totalLen]

theorem exchangeFetch_suffix (kind : FetchKind) (cmd : Bytes) (wanted : List Bytes) (ie so : Bool)
    (sc : Script) : (exchangeFetch kind cmd wanted ie so sc).unread <:+ sc.evs := by
  have hl := (fetchLoop_inv kind wanted (totalLen [] sc.evs) [] sc.evs []).1
  unfold exchangeFetch
  rcases (if so = true then none else sc.connectFails) with _ | e
  · rcases sc.sendFails with _ | e
    · dsimp only
      split <;> exact hl
    · exact List.suffix_refl _
  · exact List.suffix_refl _

theorem exchangeFetch_open (kind : FetchKind) (cmd : Bytes) (wanted : List Bytes) (ie so : Bool)
    (sc : Script) (h : (exchangeFetch kind cmd wanted ie so sc).sockOpen = true) :
    ∃ r, (exchangeFetch kind cmd wanted ie so sc).res = .ok r ∧
      (exchangeFetch kind cmd wanted ie so sc).sent = some cmd ∧
      (fetchLoop kind wanted (totalLen [] sc.evs) [] sc.evs []).res = .ok r := by
  revert h
  unfold exchangeFetch
  rcases (if so = true then none else sc.connectFails) with _ | e
  · rcases sc.sendFails with _ | e
    · dsimp only
      rcases (fetchLoop kind wanted (totalLen [] sc.evs) [] sc.evs []).res with e | r
      · simp
      · intro _; exact ⟨r, rfl, rfl, rfl⟩
    · simp
  · simp

theorem exchangeFetch_framed (kind : FetchKind) (cmd : Bytes) (wanted : List Bytes) (ie so : Bool)
    (sc : Script) (hc : clean sc.evs) (hf : FetchUnit kind (joinData sc.evs))
    (h : (exchangeFetch kind cmd wanted ie so sc).sockOpen = true) :
    Drained (exchangeFetch kind cmd wanted ie so sc).unread := by
  have hu := fetchLoop_unit kind wanted (totalLen [] sc.evs) [] sc.evs [] hc (by simpa using hf)
    (pending_lt_totalLen _)
  revert h
  unfold exchangeFetch
  rcases (if so = true then none else sc.connectFails) with _ | e
  · rcases sc.sendFails with _ | e
    · dsimp only
      rcases hres : (fetchLoop kind wanted (totalLen [] sc.evs) [] sc.evs []).res with e | r
      · simp
      · intro _
        dsimp only
        rcases hu with ⟨r', -, -, h1, h2⟩ | ⟨e, he, -⟩
        · exact ⟨h1, h2⟩
        · rw [hres] at he; cases he
    · simp
  · simp

theorem exchangeFetch_probe (kind : FetchKind) (cmd : Bytes) (wanted : List Bytes) (ie : Bool) :
    ((exchangeFetch kind cmd wanted ie true {}).sent).isSome = true := by
  unfold exchangeFetch
  simp
  split <;> simp

/-! ## nothing sent: the connect failed, nothing was touched -/

theorem exchangeStore_not_sent (verb : SVerb) (cmds : List Bytes) (nr so : Bool) (sc : Script)
    (h : (exchangeStore verb cmds nr so sc).sent = none) :
    (exchangeStore verb cmds nr so sc).unread = sc.evs ∧
    (exchangeStore verb cmds nr so sc).sockOpen = false := by
  revert h
  unfold exchangeStore
  rcases (if so = true then none else sc.connectFails) with _ | e
  · rcases sc.sendFails with _ | e
    · dsimp only; split <;> simp
    · simp
  · simp

theorem exchangeMisc_not_sent (cmds : List Bytes) (nr : Bool) (tok : Option Bytes) (so : Bool) (sc : Script)
    (h : (exchangeMisc cmds nr tok so sc).sent = none) :
    (exchangeMisc cmds nr tok so sc).unread = sc.evs ∧
    (exchangeMisc cmds nr tok so sc).sockOpen = false := by
  revert h
  unfold exchangeMisc
  rcases (if so = true then none else sc.connectFails) with _ | e
  · rcases sc.sendFails with _ | e
    · dsimp only; split <;> simp
    · simp
  · simp

theorem exchangeFetch_not_sent (kind : FetchKind) (cmd : Bytes) (wanted : List Bytes) (ie so : Bool)
    (sc : Script) (h : (exchangeFetch kind cmd wanted ie so sc).sent = none) :
    (exchangeFetch kind cmd wanted ie so sc).unread = sc.evs ∧
    (exchangeFetch kind cmd wanted ie so sc).sockOpen = false := by
  revert h
  unfold exchangeFetch
  rcases (if so = true then none else sc.connectFails) with _ | e
  · rcases sc.sendFails with _ | e
    · dsimp only; split <;> simp
    · simp
  · simp
end Exchange
