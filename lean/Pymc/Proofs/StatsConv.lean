import Pymc.Model.Stats
import Pymc.Proofs.RefineArith
/-! Helper lemmas for the type conversion of `Client.stats` (C05_stats_*). -/
namespace Stats
open Bytes Wire Exchange

theorem isSpace_of_isDigit {b : UInt8} (h : isDigit b = true) : isSpace b = false := by
  have := (isDigit_iff b).1 h
  simp only [isSpace, Bool.or_eq_false_iff, Bool.and_eq_false_iff, decide_eq_false_iff_not]
  refine ⟨?_, ?_⟩
  · intro he; subst he; revert this; decide
  · right; simp [UInt8.le_iff_toNat_le]; omega

theorem stripLeft_eq_self (b : Bytes) (h : ∀ x ∈ b, isSpace x = false) : stripLeft b = b := by
  cases b with
  | nil => rfl
  | cons c r => simp [stripLeft, h c (by simp)]

theorem strip_eq_self (b : Bytes) (h : ∀ x ∈ b, isSpace x = false) : strip b = b := by
  unfold strip
  rw [stripLeft_eq_self b h, stripLeft_eq_self b.reverse (fun x hx => h x (by simpa using hx))]
  simp

theorem strip_natDec (n : Nat) : strip (natDec n) = natDec n :=
  strip_eq_self _ fun x hx => isSpace_of_isDigit (natDec_mem_isDigit n x hx)

theorem digitCount_natDec (n : Nat) : digitCount (natDec n) = (natDec n).length := by
  unfold digitCount
  rw [List.filter_eq_self.2 (natDec_mem_isDigit n)]

/-- a number below `10^(k+1)` has at most `k+1` decimal digits -/
theorem natDec_length_le (k : Nat) : ∀ n, n < 10 ^ (k + 1) → (natDec n).length ≤ k + 1 := by
  induction k with
  | zero => intro n h; rw [natDec_lt (by simpa using h)]; simp
  | succ k ih =>
    intro n h
    by_cases h10 : n < 10
    · rw [natDec_lt h10]; simp
    · rw [natDec_ge h10]
      have : n / 10 < 10 ^ (k + 1) := by
        rw [Nat.div_lt_iff_lt_mul (by omega)]
        calc n < 10 ^ (k + 1 + 1) := h
          _ = 10 ^ (k + 1) * 10 := by rw [Nat.pow_succ]
      have := ih _ this
      simp; omega

theorem pyIntWs_natDec (lim n : Nat) (h : lim = 0 ∨ (natDec n).length ≤ lim) :
    pyIntWs lim (natDec n) = some (n : Int) := by
  unfold pyIntWs
  simp only [strip_natDec, pyInt_natDec, digitCount_natDec]
  rcases h with h | h
  · simp [h]
  · simp [h]

/-! octal -/
theorem isOctDigit_iff (b : UInt8) : isOctDigit b = true ↔ 48 ≤ b.toNat ∧ b.toNat ≤ 55 := by
  simp [isOctDigit, UInt8.le_iff_toNat_le]

def octVal (b : Bytes) : Nat := b.foldl (fun acc d => acc * 8 + (d.toNat - 48)) 0

theorem octDigits_digits (b : Bytes) (acc : Option Nat) (h : ∀ x ∈ b, isOctDigit x = true) :
    octDigits b false acc =
      if b = [] then acc else some (b.foldl (fun a d => a * 8 + (d.toNat - 48)) (acc.getD 0)) := by
  induction b generalizing acc with
  | nil => simp [octDigits]
  | cons c r ih =>
    have hc : isOctDigit c = true := h c (by simp)
    simp only [octDigits, hc, if_true]
    rw [ih _ (fun x hx => h x (by simp [hx]))]
    by_cases hr : r = []
    · subst hr; simp
    · simp [hr]

theorem octDec_lt {n : Nat} (h : n < 8) : octDec n = [digitChar n] := by
  rw [octDec]; simp [h]
theorem octDec_ge {n : Nat} (h : ¬ n < 8) : octDec n = octDec (n / 8) ++ [digitChar (n % 8)] := by
  rw [octDec]; simp [h]

theorem octDec_ne_nil (n : Nat) : octDec n ≠ [] := by
  by_cases h : n < 8
  · simp [octDec_lt h]
  · simp [octDec_ge h]

theorem isOctDigit_digitChar {d : Nat} (h : d < 8) : isOctDigit (digitChar d) = true := by
  rw [isOctDigit_iff, digitChar_toNat (by omega)]; omega

theorem octDec_mem (n : Nat) : ∀ b ∈ octDec n, isOctDigit b = true := by
  induction n using Nat.strongRecOn with
  | _ n ih =>
    by_cases h : n < 8
    · simp [octDec_lt h, isOctDigit_digitChar h]
    · rw [octDec_ge h]
      intro b hb
      rcases List.mem_append.1 hb with hb | hb
      · exact ih (n / 8) (by omega) b hb
      · simp at hb; subst hb; exact isOctDigit_digitChar (Nat.mod_lt n (by omega))

theorem octVal_octDec (n : Nat) : octVal (octDec n) = n := by
  induction n using Nat.strongRecOn with
  | _ n ih =>
    by_cases h : n < 8
    · simp [octDec_lt h, octVal, digitChar_toNat (by omega : n < 10)]
    · have hm : n % 8 < 10 := by omega
      have := ih (n / 8) (by omega)
      unfold octVal at this ⊢
      rw [octDec_ge h, List.foldl_append, this]
      simp [digitChar_toNat hm]
      omega

/-- the head of an octal rendering is a digit, hence neither a sign nor white space, and the rendering has no `0o` prefix issue:
`octBody` falls through to `octDigits` or strips a prefix that is not there -/
theorem octDec_head (n : Nat) : ∃ d r, octDec n = d :: r ∧ isOctDigit d = true := by
  have hne := octDec_ne_nil n
  cases hb : octDec n with
  | nil => exact absurd hb hne
  | cons d r => exact ⟨d, r, rfl, octDec_mem n d (by simp [hb])⟩

end Stats

namespace Stats
open Bytes Wire Exchange

/-- a negative number in its canonical rendering: `-` followed by the digits -/
theorem pyIntWs_neg_natDec (lim n : Nat) (h : lim = 0 ∨ (natDec n).length ≤ lim) :
    pyIntWs lim (45 :: natDec n) = some (-(n : Int)) := by
  have hsp : strip (45 :: natDec n) = 45 :: natDec n := strip_eq_self _ fun x hx => by
    rcases List.mem_cons.1 hx with rfl | hx
    · decide
    · exact isSpace_of_isDigit (natDec_mem_isDigit n x hx)
  have hd : pyIntDigits (natDec n) false none = some n := by
    rw [pyIntDigits_digits _ _ (natDec_mem_isDigit n), if_neg (natDec_ne_nil n)]
    have := decVal_natDec n
    unfold decVal at this
    simp only [Option.getD_none]; rw [this]
  have hp : pyInt (45 :: natDec n) = some (-(n : Int)) := by
    simp [pyInt, hd]
  have hc : digitCount (45 :: natDec n) = (natDec n).length := by
    have h45 : isDigit (45 : UInt8) = false := by decide
    simp only [digitCount, List.filter_cons, h45]
    simpa [digitCount] using digitCount_natDec n
  unfold pyIntWs
  simp only [hsp, hp, hc]
  rcases h with h | h <;> simp [h]

end Stats
