import Pymc.Proofs.ExchangeCut
/-! Helper lemmas for C01: exchanges and `Client.call` do not depend on what follows the first fault. -/
namespace Exchange
open Bytes Readers Wire Framing Client

/-- the same outcome, with the unread events cut at the first fault -/
def cutCall {α} (o : CallOut α) : CallOut α := { o with unread := cutAtFault o.unread }

theorem exchangeStore_cut (verb : SVerb) (cmds : List Bytes) (nr so : Bool) (sc : Script) (evs : List Ev) :
    exchangeStore verb cmds nr so { sc with evs := cutAtFault evs } =
      cutCall (exchangeStore verb cmds nr so { sc with evs := evs }) := by
  unfold exchangeStore
  dsimp only
  rcases (if so = true then none else sc.connectFails) with _ | e
  · rcases sc.sendFails with _ | e
    · dsimp only
      cases nr with
      | true => rfl
      | false =>
        simp only [Bool.false_eq_true, if_false, storeLoop_cut]
        rfl
    · rfl
  · rfl

theorem exchangeMisc_cut (cmds : List Bytes) (nr : Bool) (tok : Option Bytes) (so : Bool) (sc : Script)
    (evs : List Ev) :
    exchangeMisc cmds nr tok so { sc with evs := cutAtFault evs } =
      cutCall (exchangeMisc cmds nr tok so { sc with evs := evs }) := by
  unfold exchangeMisc
  dsimp only
  rcases (if so = true then none else sc.connectFails) with _ | e
  · rcases sc.sendFails with _ | e
    · dsimp only
      cases nr with
      | true => rfl
      | false =>
        simp only [Bool.false_eq_true, if_false, miscLoop_cut]
        rfl
    · rfl
  · rfl

theorem exchangeFetch_cut (kind : FetchKind) (cmd : Bytes) (wanted : List Bytes) (ie so : Bool)
    (sc : Script) (evs : List Ev) :
    exchangeFetch kind cmd wanted ie so { sc with evs := cutAtFault evs } =
      cutCall (exchangeFetch kind cmd wanted ie so { sc with evs := evs }) := by
  have hfuel : fetchLoop kind wanted (totalLen [] (cutAtFault evs)) [] (cutAtFault evs) [] =
      cutOut (fetchLoop kind wanted (totalLen [] evs) [] evs []) := by
    rw [← fetchLoop_cut]
    exact fetchLoop_fuel_irrelevant _ _ _ _ _ _ _ (pending_lt_totalLen _)
      (Nat.lt_of_le_of_lt (pending_cut_le _ _) (pending_lt_totalLen _))
  unfold exchangeFetch
  dsimp only
  rcases (if so = true then none else sc.connectFails) with _ | e
  · rcases sc.sendFails with _ | e
    · dsimp only
      rw [hfuel]
      rcases hres : (fetchLoop kind wanted (totalLen [] evs) [] evs []).res with e | r
      · simp only [cutOut, hres]; rfl
      · simp only [cutOut, hres]; rfl
    · rfl
  · rfl
end Exchange

namespace Client
open Bytes Readers Wire Framing Exchange

theorem mapOut_cutCall {α β} (o : CallOut α) (f : α → Except Exc β) :
    mapOut (cutCall o) f = cutCall (mapOut o f) := by
  unfold cutCall
  rw [mapOut_with_unread]
  simp

theorem call_cut (cfg : Cfg) (ie so : Bool) (c : Call) (sc : Script) (evs : List Ev) :
    call cfg ie so c { sc with evs := cutAtFault evs } = cutCall (call cfg ie so c { sc with evs := evs }) := by
  rcases shape cfg c with ⟨res, hcall⟩ | ⟨verb, cmds, nr, f, hcall, -, -, -⟩ |
    ⟨cmds, nr, tok, f, hcall, -, -, -, -⟩ | ⟨kind, cmd, wanted, g, hcall, -⟩ | hq | ⟨gr, hsd⟩
  · simp only [hcall]; rfl
  · simp only [hcall, exchangeStore_cut, mapOut_cutCall]
  · simp only [hcall, exchangeMisc_cut, mapOut_cutCall]
  · simp only [hcall, exchangeFetch_cut, mapOut_cutCall]
  · subst hq
    simp only [call, exchangeMisc_cut]
    rfl
  · subst hsd
    simp only [call_shutdown, exchangeMisc_cut, mapOut_cutCall]
    rfl
end Client
