import Pymc.Proofs.ConnLog
/-!
# Shape of the log produced by `Conn.connect`

`tryAddr`, `addrLoop`, `phase2` and `connectWith` are evaluated symbolically; the result is the three-way
`Outcome` description of a `_connect()` call from which the C06 theorems are read off.
-/
namespace Conn

/-! ## one address -/

/-- a socket can be created and prepared (nodelay, TLS wrap) for address `i` -/
def prepOk (cfg : Cfg) (p : Plan) (i : Nat) : Bool :=
  !p.socket i && !(cfg.noDelay && p.nodelay i) && !(cfg.tls && p.wrap i)

/-- the exception raised while preparing address `i` (meaningful when `prepOk cfg p i = false`) -/
def prepErr (cfg : Cfg) (p : Plan) (i : Nat) : Err :=
  if p.socket i then .socket i else if cfg.noDelay && p.nodelay i then .nodelay i else .wrap i

/-- the socket object used afterwards, if the raw socket got id `m` -/
def sockOf (tls : Bool) (m : Nat) : Nat := if tls then m + 1 else m
def nextOf (tls : Bool) (m : Nat) : Nat := if tls then m + 2 else m + 1

/-- events of a successfully prepared address -/
def okSeg (nd tls : Bool) (m i : Nat) : List Ev :=
  [Ev.created m i] ++ (if nd then [Ev.nodelay m] else []) ++ (if tls then [Ev.wrapped (m + 1) m] else [])

def kaSeg (ka : Bool) (s : Nat) : List Ev := if ka then [Ev.keepalive s] else []

theorem tryAddr_ok {cfg : Cfg} {p : Plan} {i : Nat} (h : prepOk cfg p i = true) (n : Nat) :
    tryAddr cfg p n i = (.ok (sockOf cfg.tls n), okSeg cfg.noDelay cfg.tls n i, nextOf cfg.tls n) := by
  obtain ⟨u, nd, tls, ka⟩ := cfg
  cases nd <;> cases tls <;> cases h1 : p.socket i <;> cases h2 : p.nodelay i <;> cases h3 : p.wrap i <;>
    simp_all [prepOk, tryAddr, sockOf, okSeg, nextOf]

theorem safe_of_created_le {k : Nat} {evs : List Ev} (h : (createdIds evs).length ≤ k) : Safe k evs :=
  fun _ hpre => Nat.le_trans (openIds_length_le_of_prefix hpre) h

theorem junk_seg2 (n i : Nat) : Junk n (n + 1) [Ev.created n i, Ev.close n] := by
  refine ⟨?_, ?_, safe_of_created_le (by simp [createdIds]), ?_, by simp [closedIds]⟩
  · intro e he; simp at he; rcases he with rfl | rfl <;> simp [Ev.junk]
  · simp [createdIds, closedIds]
  · intro pre hpre id hid
    simp only [List.prefix_cons_iff, List.prefix_nil] at hpre
    rcases hpre with rfl | ⟨_, rfl, rfl | ⟨_, rfl, rfl⟩⟩ <;> simp_all [createdIds, closedIds]

theorem junk_seg3 (n i : Nat) : Junk n (n + 1) [Ev.created n i, Ev.nodelay n, Ev.close n] := by
  refine ⟨?_, ?_, safe_of_created_le (by simp [createdIds]), ?_, by simp [closedIds]⟩
  · intro e he; simp at he; rcases he with rfl | rfl | rfl <;> simp [Ev.junk]
  · simp [createdIds, closedIds]
  · intro pre hpre id hid
    simp only [List.prefix_cons_iff, List.prefix_nil] at hpre
    rcases hpre with rfl | ⟨_, rfl, rfl | ⟨_, rfl, rfl | ⟨_, rfl, rfl⟩⟩⟩ <;> simp_all [createdIds, closedIds]

theorem tryAddr_fail {cfg : Cfg} {p : Plan} {i : Nat} (h : prepOk cfg p i = false) (n : Nat) :
    ∃ evs n', tryAddr cfg p n i = (.error (prepErr cfg p i), evs, n') ∧ n ≤ n' ∧ Junk n n' evs := by
  obtain ⟨u, nd, tls, ka⟩ := cfg
  cases h1 : p.socket i
  · cases nd <;> cases tls <;> cases h2 : p.nodelay i <;> cases h3 : p.wrap i <;>
      simp_all [prepOk, tryAddr, prepErr] <;>
      first
        | exact ⟨_, _, ⟨rfl, rfl⟩, Nat.le_succ _, junk_seg2 n i⟩
        | exact ⟨_, _, ⟨rfl, rfl⟩, Nat.le_succ _, junk_seg3 n i⟩
  · refine ⟨[], n, ?_, Nat.le_refl _, Junk.nil n⟩
    simp [tryAddr, prepErr, h1]

/-! ## the address loop -/

/-- the remembered `error` after a run of failing addresses -/
def lastErr (cfg : Cfg) (p : Plan) : List Nat → Option Err → Option Err
  | [], e => e
  | i :: rest, _ => lastErr cfg p rest (some (prepErr cfg p i))

theorem lastErr_append_singleton (cfg : Cfg) (p : Plan) (l : List Nat) (j : Nat) (e : Option Err) :
    lastErr cfg p (l ++ [j]) e = some (prepErr cfg p j) := by
  induction l generalizing e with
  | nil => rfl
  | cons i rest ih => simp [lastErr, ih]

theorem lastErr_range_succ (cfg : Cfg) (p : Plan) (n : Nat) (e : Option Err) :
    lastErr cfg p (List.range (n + 1)) e = some (prepErr cfg p n) := by
  rw [List.range_succ, lastErr_append_singleton]

theorem addrLoop_allfail {cfg : Cfg} {p : Plan} (todo : List Nat) (n : Nat) (err : Option Err)
    (h : ∀ i ∈ todo, prepOk cfg p i = false) :
    ∃ evl n', addrLoop cfg p todo n err = (none, lastErr cfg p todo err, evl, n') ∧ n ≤ n' ∧ Junk n n' evl := by
  induction todo generalizing n err with
  | nil => exact ⟨[], n, rfl, Nat.le_refl _, Junk.nil n⟩
  | cons i rest ih =>
    obtain ⟨evs, n1, h1, hle1, hj1⟩ := tryAddr_fail (h i (by simp)) n
    obtain ⟨evl, n2, h2, hle2, hj2⟩ := ih n1 (some (prepErr cfg p i)) (fun k hk => h k (by simp [hk]))
    refine ⟨evs ++ evl, n2, ?_, Nat.le_trans hle1 hle2, hj1.append hj2 hle1 hle2⟩
    simp [addrLoop, h1, h2, lastErr]

theorem addrLoopOrig_allfail {cfg : Cfg} {p : Plan} (todo : List Nat) (n : Nat) (err : Option Err)
    (h : ∀ i ∈ todo, prepOk cfg p i = false) :
    addrLoopOrig cfg p todo n err = addrLoop cfg p todo n err := by
  induction todo generalizing n err with
  | nil => rfl
  | cons i rest ih =>
    obtain ⟨evs, n1, h1, -, -⟩ := tryAddr_fail (h i (by simp)) n
    simp [addrLoop, addrLoopOrig, h1, ih n1 _ (fun k hk => h k (by simp [hk]))]

theorem addrLoop_split {cfg : Cfg} {p : Plan} (pre : List Nat) (j : Nat) (post : List Nat) (n : Nat) (err : Option Err)
    (hpre : ∀ i ∈ pre, prepOk cfg p i = false) (hj : prepOk cfg p j = true) :
    ∃ junk m, n ≤ m ∧ Junk n m junk ∧
      addrLoop cfg p (pre ++ j :: post) n err =
        (some (sockOf cfg.tls m, j), none, junk ++ okSeg cfg.noDelay cfg.tls m j, nextOf cfg.tls m) := by
  induction pre generalizing n err with
  | nil => exact ⟨[], n, Nat.le_refl _, Junk.nil n, by simp [addrLoop, tryAddr_ok hj]⟩
  | cons i rest ih =>
    obtain ⟨evs, n1, h1, hle1, hj1⟩ := tryAddr_fail (hpre i (by simp)) n
    obtain ⟨junk, m, hle2, hj2, h2⟩ := ih n1 (some (prepErr cfg p i)) (fun k hk => hpre k (by simp [hk]))
    refine ⟨evs ++ junk, m, Nat.le_trans hle1 hle2, hj1.append hj2 hle1 hle2, ?_⟩
    simp [addrLoop, h1, h2]

/-- the original loop produces the same socket and events, but keeps the stale error -/
theorem addrLoopOrig_split {cfg : Cfg} {p : Plan} (pre : List Nat) (j : Nat) (post : List Nat) (n : Nat) (err : Option Err)
    (hpre : ∀ i ∈ pre, prepOk cfg p i = false) (hj : prepOk cfg p j = true) :
    ∃ junk m, n ≤ m ∧ Junk n m junk ∧
      addrLoop cfg p (pre ++ j :: post) n err =
        (some (sockOf cfg.tls m, j), none, junk ++ okSeg cfg.noDelay cfg.tls m j, nextOf cfg.tls m) ∧
      addrLoopOrig cfg p (pre ++ j :: post) n err =
        (some (sockOf cfg.tls m, j), lastErr cfg p pre err, junk ++ okSeg cfg.noDelay cfg.tls m j, nextOf cfg.tls m) := by
  induction pre generalizing n err with
  | nil => exact ⟨[], n, Nat.le_refl _, Junk.nil n, by simp [addrLoop, tryAddr_ok hj],
      by simp [addrLoopOrig, tryAddr_ok hj, lastErr]⟩
  | cons i rest ih =>
    obtain ⟨evs, n1, h1, hle1, hj1⟩ := tryAddr_fail (hpre i (by simp)) n
    obtain ⟨junk, m, hle2, hj2, h2, h3⟩ := ih n1 (some (prepErr cfg p i)) (fun k hk => hpre k (by simp [hk]))
    refine ⟨evs ++ junk, m, Nat.le_trans hle1 hle2, hj1.append hj2 hle1 hle2, ?_, ?_⟩
    · simp [addrLoop, h1, h2]
    · simp [addrLoopOrig, h1, h3, lastErr]

/-- every list either fails everywhere or splits at the first preparable address -/
theorem split_first (f : Nat → Bool) (l : List Nat) :
    (∀ i ∈ l, f i = false) ∨ ∃ pre j post, l = pre ++ j :: post ∧ (∀ i ∈ pre, f i = false) ∧ f j = true := by
  induction l with
  | nil => left; simp
  | cons a rest ih =>
    cases ha : f a
    · rcases ih with h | ⟨pre, j, post, h1, h2, h3⟩
      · left; intro i hi; simp at hi; rcases hi with rfl | hi; exact ha; exact h i hi
      · right; refine ⟨a :: pre, j, post, by simp [h1], ?_, h3⟩
        intro i hi; simp at hi; rcases hi with rfl | hi; exact ha; exact h2 i hi
    · right; exact ⟨[], a, rest, rfl, by simp, ha⟩

theorem range_split {j n : Nat} (h : j < n) : List.range n = List.range j ++ j :: List.range' (j + 1) (n - j - 1) := by
  have h1 : n = j + ((n - j - 1) + 1) := by omega
  conv => lhs; rw [h1]
  rw [List.range_eq_range', List.range_eq_range', ← List.range'_append_1, List.range'_succ]
  simp

/-! ## after the loop -/

def p2Ok (cfg : Cfg) (p : Plan) : Bool :=
  !p.settimeoutConnect && !(cfg.keepalive && p.keepalive) && !p.connect && !p.settimeoutIo

/-- events that neither create, wrap nor close a socket -/
def Ev.quiet (s : Nat) : Ev → Prop
  | .settimeout id _ => id = s
  | .keepalive id => id = s
  | .connect id _ => id = s
  | _ => False

def Quiet (s : Nat) (evs : List Ev) : Prop := ∀ e ∈ evs, e.quiet s

theorem Quiet.createdIds {s : Nat} {evs : List Ev} (h : Quiet s evs) : createdIds evs = [] := by
  rw [List.eq_nil_iff_forall_not_mem]
  intro id hid
  rcases mem_createdIds.1 hid with ⟨a, ha⟩ | ⟨r, hr⟩
  · exact h _ ha
  · exact h _ hr

theorem Quiet.closedIds {s : Nat} {evs : List Ev} (h : Quiet s evs) : closedIds evs = [] := by
  rw [List.eq_nil_iff_forall_not_mem]
  intro id hid
  exact h _ (mem_closedIds.1 hid)

theorem Quiet.rawIds {s : Nat} {evs : List Ev} (h : Quiet s evs) : rawIds evs = [] := by
  rw [List.eq_nil_iff_forall_not_mem]
  intro id hid
  obtain ⟨w, hw⟩ := mem_rawIds.1 hid
  exact h _ hw

theorem Quiet.ownedBy {s : Nat} {evs : List Ev} (h : Quiet s evs) (r : Id) : ownedBy evs r = none :=
  ownedBy_eq_none_of_not_raw (by rw [h.rawIds]; simp)

theorem phase2_ok {cfg : Cfg} {p : Plan} (h : p2Ok cfg p = true) (s a : Nat) :
    phase2 cfg p s a =
      (.ok (), [Ev.settimeout s .connect] ++ kaSeg cfg.keepalive s ++ [Ev.connect s a, Ev.settimeout s .io]) := by
  obtain ⟨u, nd, tls, ka⟩ := cfg
  cases ka <;> cases h1 : p.settimeoutConnect <;> cases h2 : p.keepalive <;> cases h3 : p.connect <;>
    cases h4 : p.settimeoutIo <;> simp_all [p2Ok, phase2, kaSeg]

theorem phase2_ok_iff {cfg : Cfg} {p : Plan} (s a : Nat) :
    (phase2 cfg p s a).1 = .ok () ↔ p2Ok cfg p = true := by
  obtain ⟨u, nd, tls, ka⟩ := cfg
  cases ka <;> cases h1 : p.settimeoutConnect <;> cases h2 : p.keepalive <;> cases h3 : p.connect <;>
    cases h4 : p.settimeoutIo <;> simp_all [p2Ok, phase2]

def p2Err (cfg : Cfg) (p : Plan) : Err :=
  if p.settimeoutConnect then .settimeout else if cfg.keepalive && p.keepalive then .keepalive
  else if p.connect then .connect else .settimeout

def p2Mid (cfg : Cfg) (p : Plan) (s a : Nat) : List Ev :=
  if p.settimeoutConnect then [] else
    [Ev.settimeout s .connect] ++ (if cfg.keepalive && p.keepalive then [] else
      kaSeg cfg.keepalive s ++ (if p.connect then [] else [Ev.connect s a]))

theorem p2Mid_quiet (cfg : Cfg) (p : Plan) (s a : Nat) : Quiet s (p2Mid cfg p s a) := by
  obtain ⟨u, nd, tls, ka⟩ := cfg
  cases ka <;> cases h1 : p.settimeoutConnect <;> cases h2 : p.keepalive <;> cases h3 : p.connect <;>
    simp [p2Mid, kaSeg, Quiet, Ev.quiet, h1, h2, h3]

theorem phase2_fail {cfg : Cfg} {p : Plan} (h : p2Ok cfg p = false) (s a : Nat) :
    ∃ e mid, phase2 cfg p s a = (.error e, mid ++ [Ev.close s]) ∧ Quiet s mid := by
  refine ⟨p2Err cfg p, p2Mid cfg p s a, ?_, p2Mid_quiet cfg p s a⟩
  obtain ⟨u, nd, tls, ka⟩ := cfg
  cases ka <;> cases h1 : p.settimeoutConnect <;> cases h2 : p.keepalive <;> cases h3 : p.connect <;>
    cases h4 : p.settimeoutIo <;> simp_all [p2Ok, phase2, p2Err, p2Mid, kaSeg]

/-! ## `close` -/

def closeEvs : Option Id → List Ev
  | some t => [.close t, .unassign]
  | none => []

theorem close_eq (st : St) : close st = ({ sock := none, next := st.next }, closeEvs st.sock) := by
  obtain ⟨sock, next⟩ := st
  cases sock <;> rfl

@[simp] theorem createdIds_closeEvs (o : Option Id) : createdIds (closeEvs o) = [] := by cases o <;> rfl
@[simp] theorem rawIds_closeEvs (o : Option Id) : rawIds (closeEvs o) = [] := by cases o <;> rfl
@[simp] theorem closedIds_closeEvs (o : Option Id) : closedIds (closeEvs o) = o.toList := by cases o <;> rfl
@[simp] theorem ownedBy_closeEvs (o : Option Id) (r : Id) : ownedBy (closeEvs o) r = none := by cases o <;> rfl

/-! ## `connectWith` evaluated -/

theorem connectWith_unix {loop} {cfg : Cfg} {p : Plan} (st : St) (hu : cfg.unix = true) :
    connectWith loop cfg p st =
      if p.socket 0 then ({ sock := none, next := st.next }, .error (.socket 0), closeEvs st.sock)
      else match phase2 cfg p st.next 0 with
        | (.ok (), ev) => ({ sock := some st.next, next := st.next + 1 }, .ok (),
            closeEvs st.sock ++ [.created st.next 0] ++ ev ++ [.assign st.next])
        | (.error e, ev) => ({ sock := none, next := st.next + 1 }, .error e,
            closeEvs st.sock ++ [.created st.next 0] ++ ev) := by
  simp only [connectWith, close_eq, hu, if_true]
  rfl

theorem connectWith_gai {loop} {cfg : Cfg} {p : Plan} (st : St) (hu : cfg.unix = false) (hg : p.gai = true) :
    connectWith loop cfg p st = ({ sock := none, next := st.next }, .error .gai, closeEvs st.sock) := by
  simp [connectWith, close_eq, hu, hg]

theorem connectWith_tcp {loop} {cfg : Cfg} {p : Plan} (st : St) (hu : cfg.unix = false) (hg : p.gai = false)
    {r err evl n'} (hl : loop cfg p (List.range p.naddr) st.next none = (r, err, evl, n')) :
    connectWith loop cfg p st =
      match (generalizing := false) err, r with
      | some e, _ => ({ sock := none, next := n' }, .error e, closeEvs st.sock ++ evl)
      | none, none => ({ sock := none, next := n' }, .error .gai, closeEvs st.sock ++ evl)
      | none, some (s, i) =>
        match phase2 cfg p s i with
        | (.ok (), ev) => ({ sock := some s, next := n' }, .ok (), closeEvs st.sock ++ evl ++ ev ++ [.assign s])
        | (.error e, ev) => ({ sock := none, next := n' }, .error e, closeEvs st.sock ++ evl ++ ev) := by
  simp only [connectWith, close_eq, hu, hg, hl]
  rfl

/-! ## the three outcomes of a call -/

/-- `nd`, `tls`, `ka`: the effective options (no nodelay/TLS on a UNIX socket) -/
inductive Outcome (nd tls ka : Bool) (st : St) : St → Except Err Unit → List Ev → Prop
  /-- no socket could be prepared -/
  | early (e : Err) (junk : List Ev) (n' : Nat) : st.next ≤ n' → Junk st.next n' junk →
      Outcome nd tls ka st { sock := none, next := n' } (.error e) (closeEvs st.sock ++ junk)
  /-- a socket was prepared but `settimeout`/`setsockopt`/`connect` raised -/
  | late (e : Err) (junk : List Ev) (m a : Nat) (mid : List Ev) : st.next ≤ m → Junk st.next m junk →
      Quiet (sockOf tls m) mid →
      Outcome nd tls ka st { sock := none, next := nextOf tls m } (.error e)
        (closeEvs st.sock ++ junk ++ okSeg nd tls m a ++ mid ++ [.close (sockOf tls m)])
  | ok (junk : List Ev) (m a : Nat) : st.next ≤ m → Junk st.next m junk →
      Outcome nd tls ka st { sock := some (sockOf tls m), next := nextOf tls m } (.ok ())
        (closeEvs st.sock ++ junk ++ okSeg nd tls m a ++
          [.settimeout (sockOf tls m) .connect] ++ kaSeg ka (sockOf tls m) ++
          [.connect (sockOf tls m) a, .settimeout (sockOf tls m) .io, .assign (sockOf tls m)])

/-- after the loop found a socket -/
theorem outcome_phase2 {cfg : Cfg} {p : Plan} {st : St} {nd tls : Bool} {junk : List Ev} {m a : Nat}
    (hle : st.next ≤ m) (hj : Junk st.next m junk) :
    Outcome nd tls cfg.keepalive st
      (match phase2 cfg p (sockOf tls m) a with
        | (.ok (), ev) => ({ sock := some (sockOf tls m), next := nextOf tls m }, Except.ok (),
            closeEvs st.sock ++ (junk ++ okSeg nd tls m a) ++ ev ++ [.assign (sockOf tls m)])
        | (.error e, ev) => ({ sock := none, next := nextOf tls m }, .error e,
            closeEvs st.sock ++ (junk ++ okSeg nd tls m a) ++ ev) : St × Except Err Unit × List Ev).1
      (match phase2 cfg p (sockOf tls m) a with
        | (.ok (), ev) => ({ sock := some (sockOf tls m), next := nextOf tls m }, Except.ok (),
            closeEvs st.sock ++ (junk ++ okSeg nd tls m a) ++ ev ++ [.assign (sockOf tls m)])
        | (.error e, ev) => ({ sock := none, next := nextOf tls m }, .error e,
            closeEvs st.sock ++ (junk ++ okSeg nd tls m a) ++ ev) : St × Except Err Unit × List Ev).2.1
      (match phase2 cfg p (sockOf tls m) a with
        | (.ok (), ev) => ({ sock := some (sockOf tls m), next := nextOf tls m }, Except.ok (),
            closeEvs st.sock ++ (junk ++ okSeg nd tls m a) ++ ev ++ [.assign (sockOf tls m)])
        | (.error e, ev) => ({ sock := none, next := nextOf tls m }, .error e,
            closeEvs st.sock ++ (junk ++ okSeg nd tls m a) ++ ev) : St × Except Err Unit × List Ev).2.2 := by
  cases h : p2Ok cfg p
  · obtain ⟨e, mid, h2, hq⟩ := phase2_fail h (sockOf tls m) a
    rw [h2]
    have := Outcome.late (nd := nd) (ka := cfg.keepalive) e junk m a mid hle hj hq
    simpa [List.append_assoc] using this
  · rw [phase2_ok h]
    have := Outcome.ok (nd := nd) (tls := tls) (ka := cfg.keepalive) junk m a hle hj
    simpa [List.append_assoc] using this

theorem connect_outcome (cfg : Cfg) (p : Plan) (st : St) :
    Outcome (cfg.noDelay && !cfg.unix) (cfg.tls && !cfg.unix) cfg.keepalive st
      (connect cfg p st).1 (connect cfg p st).2.1 (connect cfg p st).2.2 := by
  unfold connect
  cases hu : cfg.unix
  · cases hg : p.gai
    · rcases split_first (prepOk cfg p) (List.range p.naddr) with hall | ⟨pre, j, post, hsplit, hpre, hj⟩
      · obtain ⟨evl, n', h1, hle, hjunk⟩ := addrLoop_allfail (List.range p.naddr) st.next none hall
        rw [connectWith_tcp st hu hg h1]
        cases lastErr cfg p (List.range p.naddr) none <;> exact Outcome.early _ evl n' hle hjunk
      · obtain ⟨junk, m, hle, hjunk, h1⟩ := addrLoop_split pre j post st.next none hpre hj
        rw [← hsplit] at h1
        rw [connectWith_tcp st hu hg h1]
        simpa using outcome_phase2 (p := p) (nd := cfg.noDelay) (tls := cfg.tls) (a := j) hle hjunk
    · rw [connectWith_gai st hu hg]
      simpa using Outcome.early (nd := cfg.noDelay) (tls := cfg.tls) (ka := cfg.keepalive) (st := st)
        .gai [] st.next (Nat.le_refl _) (Junk.nil _)
  · rw [connectWith_unix st hu]
    cases hs : p.socket 0
    · have := outcome_phase2 (cfg := cfg) (p := p) (st := st) (nd := false) (tls := false) (a := 0)
        (Nat.le_refl _) (Junk.nil st.next)
      simpa [sockOf, nextOf, okSeg] using this
    · simpa using Outcome.early (nd := false) (tls := false) (ka := cfg.keepalive) (st := st)
        (.socket 0) [] st.next (Nat.le_refl _) (Junk.nil _)

end Conn
