import Pymc.Proofs.RefineFetchCall
/-! C05 for get / gets / gat / gats / get_many / gets_many. -/
namespace Client
open Bytes Wire Exchange Readers AbsMap ApiSpec

/-- the result dict of a fetch, with the values computed by `val` -/
def foldDict {β} (remap : List (Bytes × Key.K)) (val : Bytes × AbsMap.Item → β)
    (vs : List (Bytes × AbsMap.Item)) : List (Key.K × β) :=
  vs.foldl (fun d p => match remapLookup remap p.1 with
    | some k => dictSet d k (val p)
    | none => d) []

theorem hitsDict_eq (wire : List Bytes) (ks : List Key.K) (vs : List (Bytes × AbsMap.Item)) :
    hitsDict wire ks vs = foldDict (wire.zip ks) Prod.snd vs := rfl

theorem dictSet_map {β γ} (f : β → γ) (d : List (Key.K × β)) (k : Key.K) (v : β) :
    (dictSet d k v).map (fun kv => (kv.1, f kv.2)) = dictSet (d.map fun kv => (kv.1, f kv.2)) k (f v) := by
  unfold dictSet
  have hany : (d.map fun kv => (kv.1, f kv.2)).any (·.1 = k) = d.any (·.1 = k) := by
    rw [List.any_map]; rfl
  rw [hany]
  by_cases h : d.any (·.1 = k) = true
  · simp only [h, if_true, List.map_map]
    apply List.map_congr_left
    intro kv _
    by_cases hk : kv.1 = k <;> simp [hk]
  · simp [h]

theorem foldl_dict_map {β γ} (f : β → γ) (remap : List (Bytes × Key.K)) (val : Bytes × AbsMap.Item → β)
    (vs : List (Bytes × AbsMap.Item)) (d : List (Key.K × β)) :
    (vs.foldl (fun d p => match remapLookup remap p.1 with
      | some k => dictSet d k (val p)
      | none => d) d).map (fun kv => (kv.1, f kv.2)) =
    vs.foldl (fun d p => match remapLookup remap p.1 with
      | some k => dictSet d k (f (val p))
      | none => d) (d.map fun kv => (kv.1, f kv.2)) := by
  induction vs generalizing d with
  | nil => rfl
  | cons p vs ih =>
    simp only [List.foldl_cons]
    rw [ih]
    cases remapLookup remap p.1 with
    | none => rfl
    | some k => simp only [dictSet_map]

theorem foldDict_map {β γ} (f : β → γ) (remap : List (Bytes × Key.K)) (val : Bytes × AbsMap.Item → β)
    (vs : List (Bytes × AbsMap.Item)) :
    (foldDict remap val vs).map (fun kv => (kv.1, f kv.2)) = foldDict remap (fun p => f (val p)) vs := by
  unfold foldDict
  rw [foldl_dict_map]; rfl

theorem fetch_core (cfg : Cfg) (s : St) (c : Call) (verb : FVerb) (ks : List Key.K) (expire : Option IntArg)
    (postC : List (Key.K × Exchange.Item) → Res) (postS : List (Key.K × AbsMap.Item) → Res)
    (hcall : ∀ evs, call cfg false true c { evs := evs } =
      mapOut (fetchValues cfg false verb ks expire true { evs := evs }) fun d => .ok (postC d))
    (hex : expire.isSome ↔ (verb = .gat ∨ verb = .gats)) (hne : ks ≠ [])
    (hk : ∀ k ∈ ks, KeyOK cfg k)
    (hpost : ∀ remap vs, postC (foldDict remap (toItem (verb = .gets || verb = .gats)) vs) =
      postS (foldDict remap Prod.snd vs)) :
    onServer cfg s c =
      match fetchSpec cfg s verb ks expire with
      | .ok (s', d) => (s', .ok (postS d), true)
      | .error e => (s, .error e, true) := by
  have hill : (∀ evs, fetchValues cfg false verb ks expire true { evs := evs } =
        early .illegalInput true { evs := evs }) →
      fetchSpec cfg s verb ks expire = .error .illegalInput →
      onServer cfg s c =
      match fetchSpec cfg s verb ks expire with
      | .ok (s', d) => (s', .ok (postS d), true)
      | .error e => (s, .error e, true) := by
    intro hfv hs
    have h0 := hcall []
    rw [hfv] at h0
    rw [onServer_not_sent]
    · rw [show ({} : Script) = { evs := [] } from rfl, h0, hs]; rfl
    · rw [show ({} : Script) = { evs := [] } from rfl, h0]; rfl
  cases hm : ks.mapM (checkKey cfg) with
  | error err =>
    cases err
    exact hill (fun evs => by simp [fetchValues, hm]) (by simp [fetchSpec, hm])
  | ok wire =>
    have hwire : ∀ w ∈ wire, validKey w = true := by
      intro w hw
      obtain ⟨k, hkm, hkw⟩ := mapM_ok_mem _ _ _ hm w hw
      exact checkKey_validKey hkw (fun h => hk k hkm (h ▸ hkw))
    have hwne : wire ≠ [] := by
      intro h; subst h
      have := (mapM_ok _ _ _ hm).1
      exact hne (List.length_eq_zero_iff.1 (by simpa using this.symm))
    -- the common tail once the expiry is known
    have main : ∀ (e : Option Int), expire = e.map IntArg.int →
        (∀ rest, parseReq (fetchCmd verb e wire ++ rest) = some (.fetch verb e wire, rest)) →
        onServer cfg s c =
        match fetchSpec cfg s verb ks expire with
        | .ok (s', d) => (s', .ok (postS d), true)
        | .error e => (s, .error e, true) := by
      intro e he hp
      have henc : encodeFetch cfg verb ks expire = .ok (fetchCmd verb e wire) := by
        subst he
        cases e <;> simp [encodeFetch, hm, checkInteger, bind, Except.bind, pure, Except.pure, Except.map]
      have hparse := parseAll_single (parsesAs_of hp)
      rw [onServer_fetch cfg s c verb e wire (fetchCmd verb e wire) _
        (fun evs => by
          rw [hcall]; simp only [fetchValues, hm, henc]
          rw [mapOut_mapOut]) hparse hwire]
      have hfs : fetchSpec cfg s verb ks expire =
          .ok ((fetchRun s e wire).1, hitsDict wire ks (fetchRun s e wire).2) := by
        subst he
        cases e <;> simp [fetchSpec, hm, checkInteger, Except.map, apply_fetch]
      rw [hfs]
      simp only [hitsDict_eq]
      rw [← hpost (wire.zip ks), List.foldl_map]
      rfl
    cases expire with
    | none =>
      have hv : verb = .get ∨ verb = .gets := by
        have : ¬ (verb = .gat ∨ verb = .gats) := fun h' => by simpa using hex.2 h'
        cases verb <;> simp at this ⊢
      exact main none rfl (fun rest => C02_parse_fetchCmd_get verb hv wire rest hwne hwire)
    | some a =>
      have hv : verb = .gat ∨ verb = .gats := hex.1 rfl
      cases a with
      | nonInt =>
        exact hill (fun evs => by simp [fetchValues, hm, encodeFetch_nonInt])
          (by simp [fetchSpec, hm, checkInteger, Except.map])
      | int i =>
        exact main (some i) rfl (fun rest => C02_parse_fetchCmd_gat verb hv i wire rest hwne hwire)
end Client
