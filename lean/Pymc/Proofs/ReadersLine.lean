import Pymc.Model.Readers
/-! Helper lemmas for C03: `findCRLF` and `_readline`. -/
namespace Readers
open Bytes

theorem findCRLF_lt {s : Bytes} {p : Nat} (h : findCRLF s = some p) : p + 2 ≤ s.length := by
  induction s generalizing p with
  | nil => simp [findCRLF] at h
  | cons a t ih =>
    cases t with
    | nil => simp [findCRLF] at h
    | cons b rest =>
      simp only [findCRLF] at h
      split at h
      · simp at h; subst h; simp
      · simp only [Option.map_eq_some_iff] at h
        obtain ⟨q, hq, rfl⟩ := h
        have := ih hq
        simp at this ⊢; omega

/-- appending after a found CRLF does not move it -/
theorem findCRLF_append_of_some {s : Bytes} {p : Nat} (h : findCRLF s = some p) (t : Bytes) :
    findCRLF (s ++ t) = some p := by
  induction s generalizing p with
  | nil => simp [findCRLF] at h
  | cons a s ih =>
    cases s with
    | nil => simp [findCRLF] at h
    | cons b rest =>
      simp only [findCRLF, List.cons_append] at h ⊢
      split
      · rename_i hc; simpa [hc] using h
      · rename_i hne
        simp only [hne, if_false, Option.map_eq_some_iff] at h
        obtain ⟨q, hq, rfl⟩ := h
        have := ih hq
        simp only [List.cons_append] at this
        simp [this]

/-- no CRLF in `s`: CRLF of `s ++ t` is either the straddle or inside `t` -/
theorem findCRLF_append_of_none {s : Bytes} (h : findCRLF s = none) (t : Bytes) :
    findCRLF (s ++ t) =
      if s.getLast? = some CR ∧ t.head? = some LF then some (s.length - 1)
      else (findCRLF t).map (· + s.length) := by
  induction s with
  | nil => simp
  | cons a s ih =>
    cases s with
    | nil =>
      cases t with
      | nil => simp [findCRLF]
      | cons b t' =>
        simp only [List.cons_append, List.nil_append, findCRLF, List.getLast?_singleton,
          List.head?_cons, Option.some.injEq, List.length_singleton]
    | cons b rest =>
      simp only [findCRLF] at h
      split at h
      · simp at h
      · rename_i hne
        simp only [Option.map_eq_none_iff] at h
        have := ih h
        simp only [List.cons_append] at this ⊢
        simp only [findCRLF, hne, if_false, this]
        simp only [List.getLast?_cons_cons, List.length_cons]
        split
        · simp
        · simp [Option.map_map]; congr 1



/-- `line` is everything before the first CR LF of `s`, `tail` everything after it -/
def FirstCRLF (s line tail : Bytes) : Prop :=
  s = line ++ CR :: LF :: tail ∧ findCRLF (line ++ [CR]) = none

theorem findCRLF_some_split {s : Bytes} {p : Nat} (h : findCRLF s = some p) :
    FirstCRLF s (s.take p) (s.drop (p + 2)) := by
  induction s generalizing p with
  | nil => simp [findCRLF] at h
  | cons a t ih =>
    cases t with
    | nil => simp [findCRLF] at h
    | cons b rest =>
      simp only [findCRLF] at h
      split at h
      · rename_i hc
        simp at h; subst h
        obtain ⟨rfl, rfl⟩ := hc
        exact ⟨by simp, by simp [findCRLF]⟩
      · rename_i hne
        simp only [Option.map_eq_some_iff] at h
        obtain ⟨q, hq, rfl⟩ := h
        obtain ⟨h1, h2⟩ := ih hq
        refine ⟨?_, ?_⟩
        · simp only [List.take_succ_cons, List.drop_succ_cons, List.cons_append]
          congr 1
        · simp only [List.take_succ_cons, List.cons_append]
          cases hq' : (b :: rest).take q with
          | nil =>
            simp only [hq', List.nil_append] at h2 ⊢
            -- q = 0 so (b::rest) starts with CR LF; a :: [CR]
            simp only [findCRLF]
            split
            · rename_i hc; obtain ⟨ha, hcr⟩ := hc
              have : CR = LF := hcr
              exact absurd this (by decide)
            · simp
          | cons x xs =>
            have hx : x = b := by
              have := congrArg List.head? hq'
              cases q with
              | zero => simp at hq'
              | succ q => simp at this; exact this.symm
            subst hx
            simp only [hq', List.cons_append] at h2 ⊢
            simp only [findCRLF]
            rw [if_neg]
            · simp only [Option.map_eq_none_iff]; exact h2
            · intro hc; apply hne; exact hc

theorem FirstCRLF_find {s line tail : Bytes} (h : FirstCRLF s line tail) :
    findCRLF s = some line.length := by
  obtain ⟨rfl, h2⟩ := h
  have : line ++ CR :: LF :: tail = (line ++ [CR]) ++ (LF :: tail) := by simp
  rw [this, findCRLF_append_of_none h2]
  simp

theorem FirstCRLF_unique {s l t l' t' : Bytes} (h : FirstCRLF s l t) (h' : FirstCRLF s l' t') :
    l = l' ∧ t = t' := by
  have e1 := FirstCRLF_find h
  have e2 := FirstCRLF_find h'
  have hl : l.length = l'.length := by rw [e1] at e2; exact Option.some.inj e2
  have := h.1.symm.trans h'.1
  have := List.append_inj this hl
  simp at this
  exact this

theorem noCRLF_append {acc buf : Bytes} (hacc : findCRLF acc = none) (hbuf : findCRLF buf = none)
    (hs : ¬(acc.getLast? = some CR ∧ buf.head? = some LF)) : findCRLF (acc ++ buf) = none := by
  rw [findCRLF_append_of_none hacc, if_neg hs, hbuf]; rfl

theorem readline_ok (acc buf : Bytes) (evs : List Ev) (hacc : findCRLF acc = none)
    (hclean : clean evs) :
    match readline acc buf evs with
    | .ok (rest, line, evs') =>
        FirstCRLF (acc ++ buf ++ joinData evs) line (rest ++ joinData evs') ∧ clean evs'
    | .error e => e = .unexpectedClose ∧ findCRLF (acc ++ buf ++ joinData evs) = none := by
  fun_induction readline acc buf evs with
  | case1 acc buf evs hc =>
    obtain ⟨h1, h2⟩ := hc
    obtain ⟨a', rfl⟩ : ∃ a', acc = a' ++ [CR] := by
      rcases List.eq_nil_or_concat acc with h | ⟨a', x, h⟩
      · simp [h] at h1
      · subst h; simp at h1; subst h1; exact ⟨a', by simp⟩
    obtain ⟨b', rfl⟩ : ∃ t, buf = LF :: t := by
      cases buf with
      | nil => simp at h2
      | cons x t => simp at h2; exact ⟨t, by rw [h2]⟩
    refine ⟨⟨?_, ?_⟩, hclean⟩
    · simp
    · simpa using hacc
  | case2 acc buf evs hc p hp =>
    obtain ⟨h1, h2⟩ := findCRLF_some_split hp
    refine ⟨⟨?_, ?_⟩, hclean⟩
    · conv => lhs; rw [h1]
      simp
    · rw [List.append_assoc]
      apply noCRLF_append hacc h2
      intro ⟨ha, hb⟩; apply hc; refine ⟨ha, ?_⟩
      cases hq : buf.take p with
      | nil => simp [hq] at hb; exact absurd hb (by decide)
      | cons x xs =>
        rw [hq] at hb; simp at hb
        have : buf.head? = (buf.take p).head? := by
          cases buf with
          | nil => simp at hq
          | cons y ys => cases p with
            | zero => simp at hq
            | succ p => simp
        rw [this, hq]; simpa using hb
  | case3 acc buf hc hnone =>
    exact ⟨rfl, by simpa [joinData] using noCRLF_append hacc hnone hc⟩
  | case4 acc buf hc hnone r => simp [clean] at hclean
  | case5 acc buf hc hnone b r hb ih =>
    have hcl : clean r := hclean.2
    have := ih (noCRLF_append hacc hnone hc) hcl
    simpa [joinData, List.append_assoc] using this
  | case6 acc buf hc hnone r ih =>
    have := ih (noCRLF_append hacc hnone hc) hclean
    simpa [joinData, List.append_assoc] using this
  | case7 acc buf hc hnone c r => simp [clean] at hclean

/-- segmentation independence of `_readline`: two fault-free deliveries of the same bytes give the
same line and the same unread remainder -/
theorem readline_seg_indep (buf : Bytes) (evs evs' : List Ev) (h : clean evs) (h' : clean evs')
    (hj : joinData evs = joinData evs') :
    match readline [] buf evs, readline [] buf evs' with
    | .ok (rest, line, e), .ok (rest', line', e') =>
        line = line' ∧ rest ++ joinData e = rest' ++ joinData e'
    | .error a, .error b => a = b
    | _, _ => False := by
  have r1 := readline_ok [] buf evs rfl h
  have r2 := readline_ok [] buf evs' rfl h'
  rw [← hj] at r2
  cases e1 : readline [] buf evs with
  | ok v1 =>
    obtain ⟨rest, line, e⟩ := v1
    cases e2 : readline [] buf evs' with
    | ok v2 =>
      obtain ⟨rest', line', e'⟩ := v2
      simp only [e1, e2] at r1 r2 ⊢
      exact FirstCRLF_unique r1.1 r2.1
    | error b =>
      simp only [e1, e2] at r1 r2 ⊢
      have := FirstCRLF_find r1.1
      rw [r2.2] at this; exact absurd this (by simp)
  | error a =>
    cases e2 : readline [] buf evs' with
    | ok v2 =>
      obtain ⟨rest', line', e'⟩ := v2
      simp only [e1, e2] at r1 r2 ⊢
      have := FirstCRLF_find r2.1
      rw [r1.2] at this; exact absurd this (by simp)
    | error b =>
      simp only [e1, e2] at r1 r2 ⊢
      rw [r1.1, r2.1]

end Readers
