import Pymc.Proofs.ClientShapeAll
/-! Helper lemmas for C10: an `Exc.sock code` raised by a call was raised by the connection during that call —
by `connect()`, by `sendall()`, or by one of the `recv()` calls the script lists. -/
namespace Exchange
open Bytes Readers Wire

/-! ## the readers -/
theorem readline_sock (acc buf : Bytes) (evs : List Ev) {c : Nat}
    (h : readline acc buf evs = .error (.sock c)) : .err c ∈ evs := by
  fun_induction readline acc buf evs with
  | case1 => simp at h
  | case2 => simp at h
  | case3 => simp at h
  | case4 => simp at h
  | case5 acc buf _ _ b r _ ih => exact List.mem_cons_of_mem _ (ih h)
  | case6 acc buf _ _ r ih => exact List.mem_cons_of_mem _ (ih h)
  | case7 => simp at h; subst h; exact List.mem_cons_self

theorem readvalueLoop_sock (acc buf : Bytes) (rlen : Int) (evs : List Ev) {c : Nat}
    (h : readvalueLoop acc buf rlen evs = .error (.sock c)) : .err c ∈ evs := by
  fun_induction readvalueLoop acc buf rlen evs with
  | case1 => simp at h
  | case2 => simp at h
  | case3 _ _ _ _ _ _ b r _ ih => exact List.mem_cons_of_mem _ (ih h)
  | case4 _ _ _ _ _ _ r ih => exact List.mem_cons_of_mem _ (ih h)
  | case5 => simp at h; subst h; exact List.mem_cons_self
  | case6 => simp at h
  | case7 => simp at h
  | case8 => simp at h

theorem readsegment_sock (tok buf : Bytes) (evs : List Ev) {c : Nat}
    (h : readsegment tok buf evs = .error (.sock c)) : .err c ∈ evs := by
  fun_induction readsegment tok buf evs with
  | case1 => simp at h
  | case2 => simp at h
  | case3 => simp at h
  | case4 => rename_i ih; exact List.mem_cons_of_mem _ (ih h)
  | case5 => rename_i ih; exact List.mem_cons_of_mem _ (ih h)
  | case6 => simp at h; subst h; exact List.mem_cons_self

theorem ofReaderErr_sock {e : Readers.Err} {c : Nat} (h : ofReaderErr e = .sock c) : e = .sock c := by
  cases e <;> simp [ofReaderErr] at h ⊢
  exact h

theorem raiseErrors_not_sock (line : Bytes) (c : Nat) : raiseErrors line ≠ some (.sock c) := by
  unfold raiseErrors
  repeat' split
  all_goals simp

/-! ## the loops -/
theorem storeLoop_sock (verb : SVerb) (n : Nat) (buf : Bytes) (evs : List Ev) (acc : List (Option Bool)) {c : Nat}
    (h : (storeLoop verb n buf evs acc).res = .error (.sock c)) : .err c ∈ evs := by
  induction n generalizing buf evs acc with
  | zero => simp [storeLoop] at h
  | succ n ih =>
    simp only [storeLoop] at h
    split at h
    · rename_i e hr
      simp only [Except.error.injEq] at h
      rw [ofReaderErr_sock h] at hr
      exact readline_sock _ _ _ hr
    · rename_i rest line evs' hr
      have hs := readline_suffix _ _ _ hr
      split at h
      · rename_i e hre
        simp only [Except.error.injEq] at h
        subst h
        exact absurd hre (raiseErrors_not_sock _ _)
      · split at h
        · exact hs.subset (ih _ _ _ h)
        · simp at h

theorem miscLoop_sock (tok : Option Bytes) (n : Nat) (buf : Bytes) (evs : List Ev) (acc : List Bytes) {c : Nat}
    (h : (miscLoop tok n buf evs acc).res = .error (.sock c)) : .err c ∈ evs := by
  induction n generalizing buf evs acc with
  | zero => simp [miscLoop] at h
  | succ n ih =>
    simp only [miscLoop] at h
    split at h
    · rename_i e hr
      simp only [Except.error.injEq] at h
      rw [ofReaderErr_sock h] at hr
      cases tok with
      | none => exact readline_sock _ _ _ hr
      | some t => exact readsegment_sock _ _ _ hr
    · rename_i rest line evs' hr
      have hs : evs' <:+ evs := by
        cases tok with
        | none => exact readline_suffix _ _ _ hr
        | some t => exact readsegment_suffix _ _ _ hr
      split at h
      · rename_i e hre
        simp only [Except.error.injEq] at h
        subst h
        exact absurd hre (raiseErrors_not_sock _ _)
      · exact hs.subset (ih _ _ _ h)

def StepSock (c : Nat) (evs : List Ev) : Out (List FetchEntry) ⊕ FetchSt → Prop
  | .inl o => o.res = .error (.sock c) → .err c ∈ evs
  | .inr _ => True

theorem fetchStep_sock (kind : FetchKind) (wanted : List Bytes) (buf : Bytes) (evs : List Ev)
    (acc : List FetchEntry) (c : Nat) : StepSock c evs (fetchStep kind wanted buf evs acc) := by
  unfold fetchStep
  rcases hr : readline [] buf evs with e | ⟨rest, line, evs'⟩
  · simp only [StepSock, Except.error.injEq]
    intro h
    rw [ofReaderErr_sock h] at hr
    exact readline_sock _ _ _ hr
  · have hs := readline_suffix _ _ _ hr
    try dsimp only
    rcases hre : raiseErrors line with _ | e
    · try dsimp only
      split
      · simp [StepSock]
      · split
        · split
          · simp [StepSock]
          · try dsimp only
            rcases pyInt ((Key.pySplitWs line).getD 3 []) with _ | size
            · simp [StepSock]
            · try dsimp only
              rcases hv : readvalue rest size evs' with e | ⟨rest', data, evs''⟩
              · simp only [StepSock, Except.error.injEq]
                intro h
                rw [ofReaderErr_sock h] at hv
                exact hs.subset (readvalueLoop_sock _ _ _ _ hv)
              · try dsimp only
                split
                · simp [StepSock]
                · rcases pyInt ((Key.pySplitWs line).getD 2 []) with _ | flags
                  · simp [StepSock]
                  · simp only [StepSock]
        · split
          · split
            · simp [StepSock]
            · simp only [StepSock]
          · split
            · split
              · simp [StepSock]
              · simp only [StepSock]
            · simp [StepSock]
    · simp only [StepSock, Except.error.injEq]
      intro h
      subst h
      exact absurd hre (raiseErrors_not_sock _ _)

theorem fetchLoop_sock (kind : FetchKind) (wanted : List Bytes) (fuel : Nat) (buf : Bytes) (evs : List Ev)
    (acc : List FetchEntry) {c : Nat}
    (h : (fetchLoop kind wanted fuel buf evs acc).res = .error (.sock c)) : .err c ∈ evs := by
  induction fuel generalizing buf evs acc with
  | zero => simp [fetchLoop] at h
  | succ fuel ih =>
    have hk := fetchStep_ok kind wanted buf evs acc
    have hk' := fetchStep_sock kind wanted buf evs acc c
    rw [fetchLoop_succ] at h
    generalize fetchStep kind wanted buf evs acc = st at hk hk' h
    rcases st with o | s
    · exact hk' h
    · simp only [StepOK] at hk
      simp only [stepK] at h
      exact hk.1.subset (ih _ _ _ h)

/-! ## the exchanges -/
/-- where a socket exception of an exchange comes from -/
def SockFrom (so : Bool) (sc : Script) (c : Nat) : Prop :=
  (so = false ∧ sc.connectFails = some (.sock c)) ∨ sc.sendFails = some (.sock c) ∨ .err c ∈ sc.evs

theorem exchangeStore_sock (verb : SVerb) (cmds : List Bytes) (nr so : Bool) (sc : Script) {c : Nat}
    (h : (exchangeStore verb cmds nr so sc).res = .error (.sock c)) : SockFrom so sc c := by
  unfold exchangeStore at h
  cases so with
  | false =>
    simp only [Bool.false_eq_true, if_false] at h
    cases hc : sc.connectFails with
    | some e => simp [hc] at h; exact .inl ⟨rfl, by rw [hc, h]⟩
    | none =>
      simp only [hc] at h
      cases hsf : sc.sendFails with
      | some e => simp [hsf] at h; exact .inr (.inl (by rw [hsf, h]))
      | none =>
        simp only [hsf] at h
        cases nr with
        | true => simp at h
        | false => exact .inr (.inr (storeLoop_sock _ _ _ _ _ h))
  | true =>
    simp only [if_true] at h
    cases hsf : sc.sendFails with
    | some e => simp [hsf] at h; exact .inr (.inl (by rw [hsf, h]))
    | none =>
      simp only [hsf] at h
      cases nr with
      | true => simp at h
      | false => exact .inr (.inr (storeLoop_sock _ _ _ _ _ h))

theorem exchangeMisc_sock (cmds : List Bytes) (nr : Bool) (tok : Option Bytes) (so : Bool) (sc : Script) {c : Nat}
    (h : (exchangeMisc cmds nr tok so sc).res = .error (.sock c)) : SockFrom so sc c := by
  unfold exchangeMisc at h
  cases so with
  | false =>
    simp only [Bool.false_eq_true, if_false] at h
    cases hc : sc.connectFails with
    | some e => simp [hc] at h; exact .inl ⟨rfl, by rw [hc, h]⟩
    | none =>
      simp only [hc] at h
      cases hsf : sc.sendFails with
      | some e => simp [hsf] at h; exact .inr (.inl (by rw [hsf, h]))
      | none =>
        simp only [hsf] at h
        cases nr with
        | true => simp at h
        | false => exact .inr (.inr (miscLoop_sock _ _ _ _ _ h))
  | true =>
    simp only [if_true] at h
    cases hsf : sc.sendFails with
    | some e => simp [hsf] at h; exact .inr (.inl (by rw [hsf, h]))
    | none =>
      simp only [hsf] at h
      cases nr with
      | true => simp at h
      | false => exact .inr (.inr (miscLoop_sock _ _ _ _ _ h))
end Exchange

namespace Exchange
open Bytes Readers Wire
theorem exchangeFetch_sock (kind : FetchKind) (cmd : Bytes) (wanted : List Bytes) (ie so : Bool) (sc : Script)
    {c : Nat} (h : (exchangeFetch kind cmd wanted ie so sc).res = .error (.sock c)) : SockFrom so sc c := by
  have key : ∀ e : Exc, (if (ie && !isBaseExc e) = true then (Except.ok [] : Except Exc (List FetchEntry))
      else .error e) = .error (.sock c) → e = .sock c := by
    intro e he
    split at he
    · cases he
    · cases he; rfl
  unfold exchangeFetch at h
  dsimp only at h
  cases so with
  | false =>
    simp only [Bool.false_eq_true, if_false] at h
    cases hc : sc.connectFails with
    | some e => simp only [hc] at h; exact .inl ⟨rfl, by rw [hc, key e h]⟩
    | none =>
      simp only [hc] at h
      cases hsf : sc.sendFails with
      | some e => simp only [hsf] at h; exact .inr (.inl (by rw [hsf, key e h]))
      | none =>
        simp only [hsf] at h
        cases hr : (fetchLoop kind wanted (totalLen [] sc.evs) [] sc.evs []).res with
        | ok r => simp [hr] at h
        | error e =>
          simp only [hr] at h
          rw [key e h] at hr
          exact .inr (.inr (fetchLoop_sock _ _ _ _ _ _ hr))
  | true =>
    simp only [if_true] at h
    cases hsf : sc.sendFails with
    | some e => simp only [hsf] at h; exact .inr (.inl (by rw [hsf, key e h]))
    | none =>
      simp only [hsf] at h
      cases hr : (fetchLoop kind wanted (totalLen [] sc.evs) [] sc.evs []).res with
      | ok r => simp [hr] at h
      | error e =>
        simp only [hr] at h
        rw [key e h] at hr
        exact .inr (.inr (fetchLoop_sock _ _ _ _ _ _ hr))
end Exchange

namespace Client
open Bytes Readers Wire Framing Exchange

/-- "a socket exception of the outcome was raised by the connection during this call" -/
def SockOK {α} (so : Bool) (sc : Script) (o : CallOut α) : Prop :=
  ∀ c, o.res = .error (.sock c) → SockFrom so sc c

theorem sockOK_early {α} (so : Bool) (sc : Script) : SockOK so sc (early .illegalInput so sc : CallOut α) := by
  intro c h; cases h

theorem sockOK_ok {α} (so' : Bool) (sc' : Script) (r : α) (so cn : Bool) (sn : Option Bytes) (un : List Ev) :
    SockOK so' sc' (⟨.ok r, so, cn, sn, un⟩ : CallOut α) := by
  intro e h; cases h

theorem sockOK_mapOut {α β} (so : Bool) (sc : Script) (o : CallOut α) (f : α → Except Exc β) (ho : SockOK so sc o)
    (hf : ∀ a c, f a ≠ .error (.sock c)) : SockOK so sc (mapOut o f) := by
  intro c h
  cases hx : o.res with
  | ok a =>
    rw [mapOut_res_ok _ _ hx] at h
    exact absurd h (hf a c)
  | error e' =>
    rw [mapOut_res_error _ _ hx] at h
    cases h
    exact ho c hx

theorem sockOK_fetchValues (cfg : Cfg) (ie : Bool) (verb : FVerb) (ks : List Key.K) (ex : Option IntArg)
    (so : Bool) (sc : Script) : SockOK so sc (fetchValues cfg ie verb ks ex so sc) := by
  unfold fetchValues
  split
  · exact sockOK_mapOut _ _ _ _ (fun c h => exchangeFetch_sock _ _ _ _ _ _ h) (fun a c h => by cases h)
  · exact sockOK_early so sc

theorem casBytes_error (verb : SVerb) (cas : Option CasArg) (e : Exc) (h : casBytes verb cas = .error e) :
    e = .illegalInput := by
  unfold casBytes at h
  split at h
  · rename_i a
    cases hc : checkCas a with
    | ok b => simp [hc, liftErr, Except.map] at h
    | error x => simp [hc, liftErr, Except.map] at h; exact h.symm
  · cases h; rfl
  · cases h

theorem call_sockOK (cfg : Cfg) (ie so : Bool) (c : Call) (sc : Script) : SockOK so sc (call cfg ie so c sc) := by
  cases c with
  | quit =>
    intro code h
    simp only [call] at h
    cases hx : (exchangeMisc [quitCmd] true none so sc).res with
    | ok r => simp [hx, Except.map] at h
    | error e =>
      simp [hx, Except.map] at h
      subst h
      exact exchangeMisc_sock _ _ _ _ _ hx
  | get k => exact sockOK_mapOut _ _ _ _ (sockOK_fetchValues _ _ _ _ _ _ _) (fun a c h => by cases h)
  | gets k => exact sockOK_mapOut _ _ _ _ (sockOK_fetchValues _ _ _ _ _ _ _) (fun a c h => by cases h)
  | gat k x => exact sockOK_mapOut _ _ _ _ (sockOK_fetchValues _ _ _ _ _ _ _) (fun a c h => by cases h)
  | gats k x => exact sockOK_mapOut _ _ _ _ (sockOK_fetchValues _ _ _ _ _ _ _) (fun a c h => by cases h)
  | getMany ks =>
    simp only [call]
    split
    · exact sockOK_ok _ _ _ _ _ _ _
    · exact sockOK_mapOut _ _ _ _ (sockOK_fetchValues _ _ _ _ _ _ _) (fun a c h => by cases h)
  | getsMany ks =>
    simp only [call]
    split
    · exact sockOK_ok _ _ _ _ _ _ _
    · exact sockOK_mapOut _ _ _ _ (sockOK_fetchValues _ _ _ _ _ _ _) (fun a c h => by cases h)
  | store verb k v ex noreply flags cas =>
    rw [call_store_eq]
    dsimp only
    split
    · rename_i e he
      cases casBytes_error verb cas e he
      exact sockOK_early _ _
    · split
      · exact sockOK_early _ _
      · refine sockOK_mapOut _ _ _ _ (fun c h => exchangeStore_sock _ _ _ _ _ h) ?_
        intro a c h
        (repeat' split at h)
        all_goals cases h
  | stats args =>
    simp only [call]
    split
    · exact sockOK_early _ _
    · exact sockOK_mapOut _ _ _ _ (fun c h => exchangeFetch_sock _ _ _ _ _ _ h) (fun a c h => by cases h)
  | cacheMemlimit m =>
    simp only [call]
    split
    · exact sockOK_early _ _
    · split
      · exact sockOK_early _ _
      · exact sockOK_mapOut _ _ _ _ (fun c h => exchangeFetch_sock _ _ _ _ _ _ h) (fun a c h => by cases h)
  | shutdown g =>
    intro code h
    cases hx : (exchangeMisc [shutdownCmd g] false none so sc).res with
    | ok r => rw [shutdown_res_ok cfg ie so g sc hx] at h; cases h
    | error e =>
      rw [shutdown_res_error cfg ie so g sc hx] at h
      split at h
      · cases h
      · cases h; exact exchangeMisc_sock _ _ _ _ _ hx
  | _ =>
    simp only [call]
    repeat' split
    all_goals first
      | exact sockOK_early _ _
      | exact sockOK_ok _ _ _ _ _ _ _
      | (refine sockOK_mapOut _ _ _ _ (by first
            | exact fun c h => exchangeStore_sock _ _ _ _ _ h
            | exact fun c h => exchangeMisc_sock _ _ _ _ _ h) ?_
         intro a c h
         (repeat' split at h)
         all_goals cases h)
end Client
