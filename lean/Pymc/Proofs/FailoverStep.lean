import Pymc.Proofs.FailoverBasic
/-! C13 helper lemmas: what one `_safely_run_func` / `_safely_run_set_many` does to the bookkeeping
    (no internal error, well-formedness, frame, contacts, results). -/
namespace Failover

/-- everything the bookkeeping knows about server `x` -/
def view (x : Srv) (st : State) : Bool × Option (Nat × Time) × Option Time :=
  (decide (x ∈ st.nodes), alookup x st.failed, alookup x st.dead)

theorem view_eq_iff (x : Srv) (st st' : State) : view x st' = view x st ↔
    ((x ∈ st'.nodes ↔ x ∈ st.nodes) ∧ alookup x st'.failed = alookup x st.failed ∧
      alookup x st'.dead = alookup x st.dead) := by
  simp [view]

theorem wf_evict {c : Cfg} {now : Time} {st : State} (b : Srv) (h : WF c st) : WF c (evict now st b) :=
  ⟨h.nodesNodup.erase b, keys_ainsert_nodup _ _ _ h.deadNodup, fun h0 => by simp [evict, h.raZero h0], by
    intro s td hs
    simp only [evict] at hs ⊢
    by_cases hsb : s = b
    · subst hsb; exact h.nodesNodup.not_mem_erase
    · rw [alookup_ainsert_ne b s _ _ hsb] at hs
      rw [List.mem_erase_of_ne hsb]
      exact h.deadOut s td hs⟩

theorem view_evict_ne {now : Time} {st : State} {b x : Srv} (hne : x ≠ b) :
    view x (evict now st b) = view x st := by
  simp [view, evict, List.mem_erase_of_ne hne, alookup_filter_ne b x _ hne, alookup_ainsert_ne b x _ _ hne]

theorem view_evict_self {c : Cfg} {now : Time} {st : State} {b : Srv} (h : WF c st) :
    view b (evict now st b) = (false, none, some now) := by
  simp [view, evict, h.nodesNodup.not_mem_erase, alookup_filter_self, alookup_ainsert_self]

/-- the state after `_mark_failed_server(b)` when it does not fail -/
def marked (c : Cfg) (now : Time) (st : State) (b : Srv) : State :=
  match alookup b st.failed with
  | some (a, _) => { st with failed := ainsert b (a + 1, now) st.failed }
  | none => if c.ra > 0 then { st with failed := ainsert b (0, now) st.failed } else evict now st b

theorem markFailed_eq {c : Cfg} {now : Time} {st : State} {b : Srv}
    (h : alookup b st.failed = none → c.ra = 0 → b ∈ st.nodes) :
    markFailed c now st b = some (marked c now st b) := by
  unfold marked
  split
  · rename_i a ft hf; exact markFailed_again hf
  · rename_i hf
    split
    · rename_i hra; exact markFailed_fresh_pos hf hra
    · rename_i hra; exact markFailed_fresh_zero hf (by omega) (h hf (by omega))

theorem wf_marked {c : Cfg} {now : Time} {st : State} (b : Srv) (h : WF c st) : WF c (marked c now st b) := by
  unfold marked
  split
  · rename_i a ft hf
    refine ⟨h.nodesNodup, h.deadNodup, fun h0 => ?_, h.deadOut⟩
    have := h.raZero h0; simp [this, alookup] at hf
  · split
    · exact ⟨h.nodesNodup, h.deadNodup, fun h0 => by omega, h.deadOut⟩
    · exact wf_evict b h

theorem view_marked_ne {c : Cfg} {now : Time} {st : State} {b x : Srv} (hne : x ≠ b) :
    view x (marked c now st b) = view x st := by
  unfold marked
  split
  · simp [view, alookup_ainsert_ne b x _ _ hne]
  · split
    · simp [view, alookup_ainsert_ne b x _ _ hne]
    · exact view_evict_ne hne

theorem ldc_marked {c : Cfg} {now : Time} {st : State} {b : Srv} :
    (marked c now st b).lastDeadCheck = st.lastDeadCheck := by
  unfold marked; split
  · rfl
  · split <;> rfl

/-- closed form of `invoke` (no internal error) -/
def invokeSpec (c : Cfg) (now : Time) (env : Srv → Outcome) (st : State) (b : Srv) :
    State × Result × List Contact :=
  match env b with
  | .ok => (st, .value, [(b, now, .ok)])
  | .oserror => (marked c now st b,
      if c.ignoreExc then .default else .raisedServerError b .oserror, [(b, now, .oserror)])
  | .othererror => (st, if c.ignoreExc then .default else .raisedServerError b .othererror,
      [(b, now, .othererror)])

theorem onError_oserror {c : Cfg} {now : Time} {st : State} {b : Srv} {cs : List Contact}
    (h : alookup b st.failed = none → c.ra = 0 → b ∈ st.nodes) :
    onError c now st b .oserror cs = (marked c now st b,
      if c.ignoreExc then .default else .raisedServerError b .oserror, cs) := by
  simp only [onError, markFailed_eq h]
  split <;> rfl

theorem invoke_eq {c : Cfg} {now : Time} {env : Srv → Outcome} {st : State} {b : Srv}
    (h : alookup b st.failed = none → c.ra = 0 → b ∈ st.nodes) :
    invoke c now env st b = invokeSpec c now env st b := by
  unfold invoke invokeSpec
  cases he : env b
  · rfl
  · simp only [onError_oserror h]
  · simp only [onError]; split <;> rfl

/-- closed form of `_safely_run_func` (no internal error) -/
def runSpec (c : Cfg) (now : Time) (env : Srv → Outcome) (st : State) (b : Srv) :
    State × Result × List Contact :=
  match alookup b st.failed with
  | some (a, ft) =>
    if a < c.ra then
      if now - ft > c.rt then
        match env b with
        | .ok => ({ st with failed := st.failed.filter (fun p => p.1 != b) }, .value, [(b, now, .ok)])
        | .oserror => ({ st with failed := ainsert b (a + 1, now) st.failed },
            if c.ignoreExc then .default else .raisedServerError b .oserror, [(b, now, .oserror)])
        | .othererror => (st, if c.ignoreExc then .default else .raisedServerError b .othererror,
            [(b, now, .othererror)])
      else (st, .default, [])
    else invokeSpec c now env (evict now st b) b
  | none => invokeSpec c now env st b

theorem safelyRunFunc_eq {c : Cfg} {now : Time} {env : Srv → Outcome} {st : State} {b : Srv}
    (hwf : WF c st) (hin : b ∈ st.nodes) :
    safelyRunFunc c now env st b = runSpec c now env st b := by
  unfold safelyRunFunc runSpec
  cases hf : alookup b st.failed with
  | none => exact invoke_eq (fun _ _ => hin)
  | some p =>
    obtain ⟨a, ft⟩ := p
    have hra : c.ra ≠ 0 := fun h0 => by have := hwf.raZero h0; simp [this, alookup] at hf
    simp only []
    by_cases h1 : a < c.ra
    · simp only [h1, if_true]
      by_cases h2 : now - ft > c.rt
      · simp only [h2, if_true]
        cases he : env b
        · simp only [aerase_of_lookup hf]
        · simp only [onError_oserror (c := c) (now := now) (st := st) (b := b)
            (cs := [(b, now, Outcome.oserror)]) (fun h => by simp [hf] at h)]
          simp [marked, hf]
        · simp only [onError]; split <;> rfl
      · simp only [h2, if_false]
    · simp only [h1, if_false]
      rw [removeServer_eq hf hin]
      exact invoke_eq (fun _ h0 => absurd h0 hra)


theorem safelyRunSetMany_eq_of_not_ignore {c : Cfg} (now : Time) (env : Srv → Outcome) (st : State) (b : Srv)
    (hi : c.ignoreExc = false) : safelyRunSetMany c now env st b = safelyRunFunc c now env st b := by
  unfold safelyRunSetMany safelyRunFunc invokeSetMany invoke setManyInner
  cases he : env b <;> simp [hi]

/-- under `ignore_exc`, `_set_many` swallows whatever the server does: the bookkeeping proceeds as after a
success, only the recorded contact shows what really happened -/
theorem safelyRunSetMany_eq_of_ignore {c : Cfg} (now : Time) (env : Srv → Outcome) (st : State) (b : Srv)
    (hi : c.ignoreExc = true) :
    safelyRunSetMany c now env st b =
      ((safelyRunFunc c now (fun _ => .ok) st b).1, (safelyRunFunc c now (fun _ => .ok) st b).2.1,
        (safelyRunFunc c now (fun _ => .ok) st b).2.2.map (fun x => (x.1, x.2.1, env b))) := by
  unfold safelyRunSetMany safelyRunFunc invokeSetMany invoke setManyInner
  cases he : env b <;> simp [hi] <;> (repeat' split) <;> simp_all

/-- what one batch call is allowed to do -/
structure StepOK (c : Cfg) (now : Time) (env : Srv → Outcome) (st : State) (b : Srv)
    (out : State × Result × List Contact) : Prop where
  wf : WF c out.1
  frame : ∀ x, x ≠ b → view x out.1 = view x st
  ldc : out.1.lastDeadCheck = st.lastDeadCheck
  contacts : out.2.2 = [] ∨ out.2.2 = [(b, now, env b)]
  deadSelf : alookup b out.1.dead = alookup b st.dead ∨ alookup b out.1.dead = some now
  res : out.2.1 = .value ∨ out.2.1 = .default ∨
    (c.ignoreExc = false ∧ out.2.1 = .raisedServerError b (env b) ∧ env b ≠ .ok ∧ out.2.2 = [(b, now, env b)])

theorem dead_marked {c : Cfg} {now : Time} {st : State} {b : Srv} :
    alookup b (marked c now st b).dead = alookup b st.dead ∨ alookup b (marked c now st b).dead = some now := by
  unfold marked; split
  · exact Or.inl rfl
  · split
    · exact Or.inl rfl
    · exact Or.inr (by simp [evict, alookup_ainsert_self])

theorem stepOK_invokeSpec {c : Cfg} {now : Time} {env : Srv → Outcome} {st st0 : State} {b : Srv}
    (hwf : WF c st) (hfr : ∀ x, x ≠ b → view x st = view x st0) (hl : st.lastDeadCheck = st0.lastDeadCheck)
    (hd : alookup b st.dead = alookup b st0.dead ∨ alookup b st.dead = some now) :
    StepOK c now env st0 b (invokeSpec c now env st b) := by
  unfold invokeSpec
  cases he : env b
  · exact ⟨hwf, hfr, hl, by simp [he], hd, by simp [he]⟩
  · refine ⟨wf_marked b hwf, fun x hx => (view_marked_ne hx).trans (hfr x hx), ldc_marked.trans hl,
      by simp [he], ?_, ?_⟩
    · rcases dead_marked (c := c) (now := now) (st := st) (b := b) with h | h
      · rcases hd with hd | hd
        · exact Or.inl (h.trans hd)
        · exact Or.inr (h.trans hd)
      · exact Or.inr h
    · cases hi : c.ignoreExc <;> simp [he]
  · refine ⟨hwf, hfr, hl, by simp [he], hd, ?_⟩
    cases hi : c.ignoreExc <;> simp [he]

theorem stepOK_runSpec {c : Cfg} {now : Time} {env : Srv → Outcome} {st : State} {b : Srv}
    (hwf : WF c st) : StepOK c now env st b (runSpec c now env st b) := by
  unfold runSpec
  cases hf : alookup b st.failed with
  | none => exact stepOK_invokeSpec hwf (fun _ _ => rfl) rfl (Or.inl rfl)
  | some p =>
    obtain ⟨a, ft⟩ := p
    have hra : c.ra ≠ 0 := fun h0 => by have := hwf.raZero h0; simp [this, alookup] at hf
    simp only []
    by_cases h1 : a < c.ra
    · simp only [h1, if_true]
      by_cases h2 : now - ft > c.rt
      · simp only [h2, if_true]
        cases he : env b
        · refine ⟨⟨hwf.nodesNodup, hwf.deadNodup, fun h0 => absurd h0 hra, hwf.deadOut⟩, ?_, rfl, by simp [he], Or.inl rfl, by simp [he]⟩
          intro x hx; simp [view, alookup_filter_ne b x _ hx]
        · refine ⟨⟨hwf.nodesNodup, hwf.deadNodup, fun h0 => absurd h0 hra, hwf.deadOut⟩, ?_, rfl, by simp [he], Or.inl rfl, ?_⟩
          · intro x hx; simp [view, alookup_ainsert_ne b x _ _ hx]
          · cases hi : c.ignoreExc <;> simp [he]
        · refine ⟨hwf, fun _ _ => rfl, rfl, by simp [he], Or.inl rfl, ?_⟩
          cases hi : c.ignoreExc <;> simp [he]
      · simp only [h2, if_false]
        exact ⟨hwf, fun _ _ => rfl, rfl, by simp, Or.inl rfl, by simp⟩
    · simp only [h1, if_false]
      exact stepOK_invokeSpec (wf_evict b hwf) (fun x hx => view_evict_ne hx) rfl
        (Or.inr (by simp [evict, alookup_ainsert_self]))

theorem stepOK_func {c : Cfg} {now : Time} {env : Srv → Outcome} {st : State} {b : Srv}
    (hwf : WF c st) (hin : b ∈ st.nodes) : StepOK c now env st b (safelyRunFunc c now env st b) := by
  rw [safelyRunFunc_eq hwf hin]; exact stepOK_runSpec hwf

theorem stepOK_setMany {c : Cfg} {now : Time} {env : Srv → Outcome} {st : State} {b : Srv}
    (hwf : WF c st) (hin : b ∈ st.nodes) : StepOK c now env st b (safelyRunSetMany c now env st b) := by
  cases hi : c.ignoreExc with
  | false => rw [safelyRunSetMany_eq_of_not_ignore now env st b hi]; exact stepOK_func hwf hin
  | true =>
    rw [safelyRunSetMany_eq_of_ignore now env st b hi]
    have h := stepOK_func (now := now) (env := fun _ => Outcome.ok) hwf hin
    refine ⟨h.wf, h.frame, h.ldc, ?_, h.deadSelf, ?_⟩
    · rcases h.contacts with h1 | h1 <;> simp [h1]
    · rcases h.res with h1 | h1 | h1
      · exact Or.inl h1
      · exact Or.inr (Or.inl h1)
      · simp [hi] at h1

/-! ### the loop over the batches -/

theorem runBatches_cons (runOne : State → Srv → State × Result × List Contact) (st : State) (b : Srv)
    (bs : List Srv) (h : (runOne st b).2.1 = .value ∨ (runOne st b).2.1 = .default) :
    (runBatches runOne st (b :: bs)).1 = (runBatches runOne (runOne st b).1 bs).1 ∧
    (runBatches runOne st (b :: bs)).2.2 = (runOne st b).2.2 ++ (runBatches runOne (runOne st b).1 bs).2.2 ∧
    (∀ r, (runBatches runOne st (b :: bs)).2.1 = .inl r ↔ (runBatches runOne (runOne st b).1 bs).2.1 = .inl r) := by
  rcases hro : runOne st b with ⟨st1, r1, cs1⟩
  simp only [hro] at h
  rcases h with h | h <;> subst h <;> simp only [runBatches, hro] <;>
    (rcases hrb : runBatches runOne st1 bs with ⟨st2, r2, cs2⟩) <;> cases r2 <;> simp

theorem runBatches_abort (runOne : State → Srv → State × Result × List Contact) (st : State) (b : Srv)
    (bs : List Srv) (h1 : (runOne st b).2.1 ≠ .value) (h2 : (runOne st b).2.1 ≠ .default) :
    runBatches runOne st (b :: bs) = ((runOne st b).1, .inl (runOne st b).2.1, (runOne st b).2.2) := by
  rcases hro : runOne st b with ⟨st1, r1, cs1⟩
  simp only [hro] at h1 h2
  cases r1 <;> simp_all [runBatches]

/-- induction principle for the batch loop: `Q` relates the state and the contacts made so far; when a batch
is run on `b`, no contact of this call has gone to `b` yet -/
theorem runBatches_ind' {c : Cfg} {now : Time} {env : Srv → Outcome}
    (runOne : State → Srv → State × Result × List Contact)
    (hOK : ∀ st b, WF c st → b ∈ st.nodes → StepOK c now env st b (runOne st b))
    (bs0 : List Srv) (Q : State → List Contact → Prop)
    (hQ : ∀ st b cs0, b ∈ bs0 → WF c st → b ∈ st.nodes → (∀ x ∈ cs0, x.1 ≠ b) → Q st cs0 →
      Q (runOne st b).1 (cs0 ++ (runOne st b).2.2)) :
    ∀ (bs : List Srv) (st : State) (cs0 : List Contact), (∀ b ∈ bs, b ∈ bs0) → WF c st →
      (∀ b ∈ bs, b ∈ st.nodes) → bs.Nodup → (∀ x ∈ cs0, x.1 ∉ bs) → Q st cs0 →
      Q (runBatches runOne st bs).1 (cs0 ++ (runBatches runOne st bs).2.2) ∧ WF c (runBatches runOne st bs).1 := by
  intro bs
  induction bs with
  | nil => intro st cs0 _ hwf _ _ _ hq; simpa [runBatches] using ⟨hq, hwf⟩
  | cons b bs ih =>
    intro st cs0 hsub hwf hin hnd hfresh hq
    have hb := hOK st b hwf (hin b (by simp))
    have hq1 := hQ st b cs0 (hsub b (by simp)) hwf (hin b (by simp))
      (fun x hx => by have := hfresh x hx; simp at this; exact this.1) hq
    by_cases hv : (runOne st b).2.1 = .value ∨ (runOne st b).2.1 = .default
    · obtain ⟨e1, e2, _⟩ := runBatches_cons runOne st b bs hv
      rw [e1, e2, ← List.append_assoc]
      have hnd' := List.nodup_cons.1 hnd
      apply ih _ _ (fun x hx => hsub x (by simp [hx])) hb.wf _ hnd'.2 _ hq1
      · intro x hx
        have hne : x ≠ b := fun e => hnd'.1 (e ▸ hx)
        have := hb.frame x hne
        simp only [view, Prod.mk.injEq, decide_eq_decide] at this
        exact this.1.2 (hin x (by simp [hx]))
      · intro x hx
        rw [List.mem_append] at hx
        rcases hx with hx | hx
        · have := hfresh x hx; simp at this; exact this.2
        · rcases hb.contacts with h | h <;> rw [h] at hx <;> simp at hx
          rw [hx]; exact hnd'.1
    · have := runBatches_abort runOne st b bs (fun h => hv (Or.inl h)) (fun h => hv (Or.inr h))
      rw [this]
      exact ⟨hq1, hb.wf⟩

theorem runBatches_ind {c : Cfg} {now : Time} {env : Srv → Outcome}
    (runOne : State → Srv → State × Result × List Contact)
    (hOK : ∀ st b, WF c st → b ∈ st.nodes → StepOK c now env st b (runOne st b))
    (bs0 : List Srv) (Q : State → List Contact → Prop)
    (hQ : ∀ st b cs0, b ∈ bs0 → WF c st → b ∈ st.nodes → Q st cs0 → Q (runOne st b).1 (cs0 ++ (runOne st b).2.2)) :
    ∀ (bs : List Srv) (st : State), (∀ b ∈ bs, b ∈ bs0) → WF c st →
      (∀ b ∈ bs, b ∈ st.nodes) → bs.Nodup → Q st [] →
      Q (runBatches runOne st bs).1 (runBatches runOne st bs).2.2 ∧ WF c (runBatches runOne st bs).1 := by
  intro bs st h1 h2 h3 h4 h5
  simpa using runBatches_ind' runOne hOK bs0 Q (fun st b cs0 a b' d _ e => hQ st b cs0 a b' d e) bs st [] h1 h2 h3 h4
    (by simp) h5

/-- an escaping result of the batch loop is the result of one batch call made in a good state -/
theorem runBatches_res {c : Cfg} {now : Time} {env : Srv → Outcome}
    (runOne : State → Srv → State × Result × List Contact)
    (hOK : ∀ st b, WF c st → b ∈ st.nodes → StepOK c now env st b (runOne st b)) :
    ∀ (bs : List Srv) (st : State) (r : Result), WF c st → (∀ b ∈ bs, b ∈ st.nodes) → bs.Nodup →
      (runBatches runOne st bs).2.1 = .inl r →
      c.ignoreExc = false ∧ ∃ b ∈ bs, r = .raisedServerError b (env b) ∧ env b ≠ .ok ∧
        (b, now, env b) ∈ (runBatches runOne st bs).2.2 := by
  intro bs
  induction bs with
  | nil => intro st r _ _ _ h; simp [runBatches] at h
  | cons b bs ih =>
    intro st r hwf hin hnd h
    have hb := hOK st b hwf (hin b (by simp))
    by_cases hv : (runOne st b).2.1 = .value ∨ (runOne st b).2.1 = .default
    · obtain ⟨e1, e2, e3⟩ := runBatches_cons runOne st b bs hv
      have hnd' := List.nodup_cons.1 hnd
      have hin' : ∀ x ∈ bs, x ∈ (runOne st b).1.nodes := by
        intro x hx
        have hne : x ≠ b := fun e => hnd'.1 (e ▸ hx)
        have := hb.frame x hne
        simp only [view, Prod.mk.injEq, decide_eq_decide] at this
        exact this.1.2 (hin x (by simp [hx]))
      obtain ⟨hi, b', hb', h1, h2, h3⟩ := ih _ r hb.wf hin' hnd'.2 ((e3 r).1 h)
      exact ⟨hi, b', by simp [hb'], h1, h2, by rw [e2]; simp [h3]⟩
    · have := runBatches_abort runOne st b bs (fun h => hv (Or.inl h)) (fun h => hv (Or.inr h))
      rw [this] at h ⊢
      simp only [Sum.inl.injEq] at h
      rcases hb.res with h1 | h1 | ⟨hi, h1, h2, h3⟩
      · exact absurd (Or.inl h1) hv
      · exact absurd (Or.inr h1) hv
      · exact ⟨hi, b, by simp, by rw [← h, h1], h2, by simp [h3]⟩

end Failover
