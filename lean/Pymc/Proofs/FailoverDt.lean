import Pymc.Proofs.FailoverRun
/-! C13: the `dead_timeout` window bound for an arbitrary window in which the server never succeeds,
    derived from the "since the last success" form by cutting the history at the end of the window. -/
namespace Failover

variable {Key : Type}

theorem stepOp_contact_time {c : Cfg} {route : List Srv → Key → Option Srv} (hlaw : RouteLaw route) {st : State}
    (e : Event Key) (hwf : WF c st) : ∀ x ∈ (stepOp c route st e).2.2, x.2.1 = e.now := by
  refine (stepOp_ind hlaw e hwf (fun _ cs => ∀ x ∈ cs, x.2.1 = e.now) ?_ (by simp)).1
  intro st' b cs0 _ hwf' hin' hq x hx
  have hok := stepOK_runOneOf (c := c) (now := e.now) (env := e.env) e.op hwf' hin'
  rw [List.mem_append] at hx
  rcases hx with hx | hx
  · exact hq x hx
  · rcases hok.contacts with h | h <;> rw [h] at hx <;> simp at hx
    subst hx; rfl

theorem le_lastTime (t : Time) (evs : List (Event Key)) (h : Chrono t evs) : t ≤ lastTime t evs := by
  induction evs generalizing t with
  | nil => exact Nat.le_refl _
  | cons e es ih => exact Nat.le_trans h.1 (ih e.now h.2)

theorem lastTime_snoc (t : Time) (evs : List (Event Key)) (e : Event Key) : lastTime t (evs ++ [e]) = e.now := by
  induction evs generalizing t with
  | nil => rfl
  | cons x r ih => exact ih x.now

/-- the contact log of a history is sorted by time and lies between the start and the last event -/
theorem log_times {c : Cfg} {route : List Srv → Key → Option Srv} (hlaw : RouteLaw route)
    (evs : List (Event Key)) : ∀ (st : State) (t : Time), WF c st → Chrono t evs →
    (∀ x ∈ contactsOf (run c route st evs).2, t ≤ x.2.1 ∧ x.2.1 ≤ lastTime t evs) ∧
    (contactsOf (run c route st evs).2).Pairwise (fun a b => a.2.1 ≤ b.2.1) := by
  induction evs with
  | nil => intro st t _ _; simp [run, contactsOf]
  | cons e es ih =>
    intro st t hwf hch
    have h1 := (stepOp_ind hlaw e hwf (fun _ _ => True) (fun _ _ _ _ _ _ _ => trivial) trivial).2
    have hct := stepOp_contact_time hlaw e hwf
    rcases hso : stepOp c route st e with ⟨st1, r, cs⟩
    rw [hso] at h1 hct
    obtain ⟨ih1, ih2⟩ := ih st1 e.now h1 hch.2
    rcases hru : run c route st1 es with ⟨st2, outs⟩
    rw [hru] at ih1 ih2
    have hle := le_lastTime e.now es hch.2
    simp only [run, hso, hru, contactsOf, List.flatMap_cons, lastTime]
    simp only [contactsOf] at ih1 ih2
    refine ⟨?_, ?_⟩
    · intro x hx
      rw [List.mem_append] at hx
      rcases hx with hx | hx
      · have := hct x hx; have := hch.1; omega
      · have := ih1 x hx; have := hch.1; omega
    · rw [List.pairwise_append]
      refine ⟨?_, ih2, ?_⟩
      · rw [List.pairwise_iff_forall_sublist]
        intro a b hab
        have ha := hct a (hab.subset (by simp))
        have hb := hct b (hab.subset (by simp))
        omega
      · intro a ha b hb
        have := hct a ha; have := (ih1 b hb).1; omega

theorem countIn_append (t w : Nat) (a b : List Nat) : countIn t w (a ++ b) = countIn t w a + countIn t w b := by
  simp [countIn]

theorem countIn_eq_zero {t w : Nat} {ts : List Nat} (h : ∀ x ∈ ts, x < t ∨ t + w < x) : countIn t w ts = 0 := by
  unfold countIn
  rw [List.length_eq_zero_iff, List.filter_eq_nil_iff]
  intro x hx
  rcases h x hx with h | h <;> simp <;> omega

theorem mem_oserrTimes {s : Srv} {L : List Contact} {y : Nat} (h : y ∈ oserrTimes s L) : ∃ x ∈ L, x.2.1 = y := by
  simp only [oserrTimes, List.mem_map, List.mem_filter] at h
  obtain ⟨x, ⟨hx, _⟩, rfl⟩ := h
  exact ⟨x, hx, rfl⟩

/-- if the log is sorted and every successful contact to `s` is older than `t`, then everything up to the last
successful contact to `s` is older than `t`: only the part since then counts in a window starting at `t` -/
theorem countIn_sinceLastOk (s : Srv) (t w : Nat) (L : List Contact)
    (hsorted : L.Pairwise (fun a b => a.2.1 ≤ b.2.1))
    (hok : ∀ x ∈ L, x.1 = s → x.2.2 = .ok → x.2.1 < t) :
    countIn t w (oserrTimes s L) = countIn t w (oserrTimes s (sinceLastOk s L)) := by
  -- work on the reversed (newest first) log
  have key : ∀ R : List Contact, R.Pairwise (fun a b => b.2.1 ≤ a.2.1) →
      (∀ x ∈ R, x.1 = s → x.2.2 = .ok → x.2.1 < t) →
      ∀ y ∈ R.dropWhile (fun x => !(x.1 == s && x.2.2 == .ok)), y.2.1 < t := by
    intro R
    induction R with
    | nil => intro _ _ y hy; simp at hy
    | cons x r ih =>
      intro hp hk y hy
      rw [List.pairwise_cons] at hp
      by_cases hx : (x.1 == s && x.2.2 == Outcome.ok) = true
      · have hxt : x.2.1 < t := by
          simp at hx
          exact hk x (by simp) hx.1 hx.2
        have : List.dropWhile (fun x => !(x.1 == s && x.2.2 == Outcome.ok)) (x :: r) = x :: r := by
          rw [List.dropWhile_cons]
          simp only [hx, Bool.not_true, Bool.false_eq_true, if_false]
        rw [this] at hy
        simp only [List.mem_cons] at hy
        rcases hy with rfl | hy
        · exact hxt
        · have := hp.1 y hy; omega
      · have : List.dropWhile (fun x => !(x.1 == s && x.2.2 == Outcome.ok)) (x :: r) =
            List.dropWhile (fun x => !(x.1 == s && x.2.2 == Outcome.ok)) r := by
          have hx' := Bool.eq_false_iff.2 hx
          rw [List.dropWhile_cons]
          simp only [hx', Bool.not_false, if_true]
        rw [this] at hy
        exact ih hp.2 (fun z hz => hk z (by simp [hz])) y hy
  have hR := key L.reverse (by rw [List.pairwise_reverse]; exact hsorted) (by simpa using hok)
  have hsplit : L = (L.reverse.dropWhile (fun x => !(x.1 == s && x.2.2 == .ok))).reverse ++ sinceLastOk s L := by
    unfold sinceLastOk
    rw [← List.reverse_append, List.takeWhile_append_dropWhile, List.reverse_reverse]
  conv => lhs; rw [hsplit]
  rw [oserrTimes_append, countIn_append, countIn_eq_zero, Nat.zero_add]
  intro y hy
  obtain ⟨x, hx, rfl⟩ := mem_oserrTimes hy
  exact Or.inl (hR x (by simpa using hx))

theorem chrono_prefix (t0 : Time) (a b : List (Event Key)) (h : Chrono t0 (a ++ b)) : Chrono t0 a := by
  induction a generalizing t0 with
  | nil => trivial
  | cons x r ih => exact ⟨h.1, ih x.now h.2⟩

/-- the `dead_timeout` bound in the "since the last success" form (the projection's `Inv2`) -/
theorem dt_streak_window {c : Cfg} (hlt : c.rt < c.dt) {route : List Srv → Key → Option Srv}
    (hlaw : RouteLaw route) (servers : List Srv) (t0 : Time) (evs : List (Event Key)) (hch : Chrono t0 evs)
    (hns : NoSetManyUnderIgnoreExc c evs) (s : Srv) :
    (∀ (i a b : Nat), (oserrTimes s (sinceLastOk s (contactsOf (run c route (init servers t0) evs).2)))[i]? = some a →
      (oserrTimes s (sinceLastOk s (contactsOf (run c route (init servers t0) evs).2)))[i + (c.ra + 2)]? = some b →
      b - a > c.dt) ∧
    (∀ t : Time, countIn t c.dt
      (oserrTimes s (sinceLastOk s (contactsOf (run c route (init servers t0) evs).2))) ≤ c.ra + 2) := by
  by_cases hs : s ∈ servers
  · obtain ⟨P, hsim, _, _, _, h3, hinv⟩ := proj_run hlt hlaw servers t0 evs hch s hs
    obtain ⟨_, hI2⟩ := hinv (noSwallow_of hns)
    have hF : P.streak = (oserrTimes s (sinceLastOk s (contactsOf (run c route (init servers t0) evs).2))).reverse := by
      rw [hsim.streak, streakOf_eq]
    exact window_of hF hI2.sparse h3.sorted
  · obtain ⟨_, _, _, h⟩ := proj_run_absent hlt hlaw servers t0 evs hch s hs
    have hF : oserrTimes s (sinceLastOk s (contactsOf (run c route (init servers t0) evs).2)) = [] := by
      have := streakOf_eq s (contactsOf (run c route (init servers t0) evs).2)
      rw [h] at this
      simpa using this.symm
    simp [hF, countIn]

/-- the `dead_timeout` bound for any window `[t, t + dt]` in which no contact to `s` succeeds -/
theorem dt_failing_window {c : Cfg} (hlt : c.rt < c.dt) {route : List Srv → Key → Option Srv}
    (hlaw : RouteLaw route) (servers : List Srv) (t0 : Time) (s : Srv) (t : Time) :
    ∀ (n : Nat) (evs : List (Event Key)), evs.length = n → Chrono t0 evs → NoSetManyUnderIgnoreExc c evs →
    (∀ x ∈ contactsOf (run c route (init servers t0) evs).2, x.1 = s → x.2.2 = .ok →
      ¬ (t ≤ x.2.1 ∧ x.2.1 ≤ t + c.dt)) →
    countIn t c.dt (oserrTimes s (contactsOf (run c route (init servers t0) evs).2)) ≤ c.ra + 2 := by
  intro n
  induction n with
  | zero =>
    intro evs hlen _ _ _
    have : evs = [] := List.length_eq_zero_iff.1 hlen
    subst this
    simp [run, contactsOf, oserrTimes, countIn]
  | succ n ih =>
    intro evs hlen hch hns hfail
    have hne : evs ≠ [] := by intro h; rw [h] at hlen; simp at hlen
    have hsplit := List.dropLast_concat_getLast hne
    generalize hev : evs.getLast hne = e at hsplit
    generalize hpre : evs.dropLast = pre at hsplit
    have hprelen : pre.length = n := by rw [← hpre, List.length_dropLast, hlen]; rfl
    subst hsplit
    have hwf0 := wf_init c servers t0
    by_cases hin : e.now ≤ t + c.dt
    · -- the whole history lies before the end of the window
      obtain ⟨hb, hsorted⟩ := log_times hlaw (pre ++ [e]) (init servers t0) t0 hwf0 hch
      rw [lastTime_snoc] at hb
      have hok : ∀ x ∈ contactsOf (run c route (init servers t0) (pre ++ [e])).2, x.1 = s → x.2.2 = .ok →
          x.2.1 < t := by
        intro x hx h1 h2
        have := hfail x hx h1 h2
        have := (hb x hx).2
        omega
      rw [countIn_sinceLastOk s t c.dt _ hsorted hok]
      exact (dt_streak_window hlt hlaw servers t0 (pre ++ [e]) hch hns s).2 t
    · -- the last call is after the window: it does not count
      have hchp := chrono_prefix t0 pre [e] hch
      have hnsp : NoSetManyUnderIgnoreExc c pre := fun hi x hx => hns hi x (by simp [hx])
      have hwf1 := run_wf hlaw pre _ hwf0
      have hct := stepOp_contact_time hlaw e hwf1
      have hL : contactsOf (run c route (init servers t0) (pre ++ [e])).2 =
          contactsOf (run c route (init servers t0) pre).2 ++
            (stepOp c route (run c route (init servers t0) pre).1 e).2.2 := by
        rw [run_append]
        rcases hso : stepOp c route (run c route (init servers t0) pre).1 e with ⟨st1, r, cs⟩
        simp [run, hso, contactsOf]
      rw [hL] at hfail ⊢
      rw [oserrTimes_append, countIn_append]
      have hz : countIn t c.dt (oserrTimes s (stepOp c route (run c route (init servers t0) pre).1 e).2.2) = 0 := by
        apply countIn_eq_zero
        intro y hy
        obtain ⟨x, hx, rfl⟩ := mem_oserrTimes hy
        have := hct x hx
        exact Or.inr (by omega)
      rw [hz, Nat.add_zero]
      exact ih pre hprelen hchp hnsp (fun x hx => hfail x (by simp [hx]))


/-! ### a single failure of a healthy server does not evict it (step form) -/

theorem mem_pre_of_mem {c : Cfg} {now : Time} {st : State} {ks : List Key} {s : Srv} (h : s ∈ st.nodes) :
    s ∈ (pre c now st ks).nodes ∧ (pre c now st ks).failed = st.failed := by
  unfold pre afterRetry
  split
  · exact ⟨h, rfl⟩
  · split
    · exact ⟨h, rfl⟩
    · split
      · exact ⟨by simp [revived, addNodes_mem, h], rfl⟩
      · exact ⟨h, rfl⟩

theorem keeps_one {c : Cfg} (hra : c.ra > 0) (now : Time) (env : Srv → Outcome) (op : Op Key) {st : State} {s : Srv}
    (hwf : WF c st) (hin : s ∈ st.nodes) (hf : alookup s st.failed = none) :
    s ∈ (runOneOf c now env op st s).1.nodes ∧ (runOneOf c now env op st s).2.2 ≠ [] := by
  have func : ∀ env' : Srv → Outcome, s ∈ (safelyRunFunc c now env' st s).1.nodes ∧
      (safelyRunFunc c now env' st s).2.2 ≠ [] := by
    intro env'
    rw [safelyRunFunc_eq hwf hin]
    unfold runSpec
    simp only [hf, invokeSpec]
    cases env' s
    · exact ⟨hin, by simp⟩
    · simp only [marked, hf, hra, if_true]
      exact ⟨hin, by simp⟩
    · exact ⟨hin, by simp⟩
  cases op with
  | runCmd k => exact func env
  | getMany ks => exact func env
  | setMany ks =>
    simp only [runOneOf]
    rcases Bool.eq_false_or_eq_true c.ignoreExc with hi | hi
    · rw [safelyRunSetMany_eq_of_ignore now env st s hi]
      exact ⟨(func _).1, by simpa using (func _).2⟩
    · rw [safelyRunSetMany_eq_of_not_ignore now env st s hi]
      exact func env

theorem keeps_rotation_step {c : Cfg} (hra : c.ra > 0) {route : List Srv → Key → Option Srv}
    (hlaw : RouteLaw route) {st : State} (hwf : WF c st) (e : Event Key) (s : Srv) (hin : s ∈ st.nodes)
    (hf : alookup s st.failed = none) : s ∈ (stepOp c route st e).1.nodes := by
  have h := (stepOp_ind' hlaw e hwf
    (fun st' cs => s ∈ st'.nodes ∧ ((∀ x ∈ cs, x.1 ≠ s) → alookup s st'.failed = none)) ?_ ?_).1
  · exact h.1
  · intro st' b cs0 _ hwf' hin' hfresh ⟨q1, q2⟩
    have hok := stepOK_runOneOf (c := c) (now := e.now) (env := e.env) e.op hwf' hin'
    by_cases hb : b = s
    · subst hb
      obtain ⟨k1, k2⟩ := keeps_one hra e.now e.env e.op hwf' hin' (q2 hfresh)
      refine ⟨k1, ?_⟩
      intro hall
      exfalso
      rcases hok.contacts with h | h
      · exact k2 h
      · exact hall (b, e.now, e.env b) (by rw [h]; simp) rfl
    · have hv := hok.frame s (fun h => hb h.symm)
      simp only [view, Prod.mk.injEq, decide_eq_decide] at hv
      refine ⟨hv.1.2 q1, ?_⟩
      intro hall
      rw [hv.2.1]
      exact q2 (fun x hx => hall x (by simp [hx]))
  · have := mem_pre_of_mem (c := c) (now := e.now) (ks := e.op.keys) hin
    exact ⟨this.1, fun _ => by rw [this.2]; exact hf⟩

end Failover
