import Pymc.Proofs.RefineArith
/-! The client's fetch loop on rendered `VALUE` blocks: data is arbitrary bytes. -/
namespace Key
open Bytes

/-- a non-empty whitespace-free token -/
def Tok (t : Bytes) : Prop := t ≠ [] ∧ ∀ b ∈ t, isWs b = false

theorem splitGo_tok_sp (t r cur : Bytes) (ht : ∀ b ∈ t, isWs b = false) (hne : cur ++ t ≠ []) :
    splitGo (t ++ 32 :: r) cur = (cur ++ t) :: splitGo r [] := by
  induction t generalizing cur with
  | nil =>
    have : cur ≠ [] := by simpa using hne
    simp [splitGo, isWs, this]
  | cons x t ih =>
    have hx : isWs x = false := ht x (by simp)
    simp only [List.cons_append, splitGo, hx, Bool.false_eq_true, if_false]
    rw [ih (cur ++ [x]) (fun b hb => ht b (by simp [hb])) (by simp)]
    simp

theorem pySplitWs_joinSp (toks : List Bytes) (h : ∀ t ∈ toks, Tok t) :
    pySplitWs (Wire.joinSp toks) = toks := by
  induction toks with
  | nil => rfl
  | cons t ts ih =>
    obtain ⟨hne, hws⟩ := h t (by simp)
    cases ts with
    | nil => simpa [Wire.joinSp] using (pySplitWs_eq_singleton_self t).2 ⟨hne, hws⟩
    | cons t' ts =>
      have := ih (fun u hu => h u (by simp [hu]))
      rw [Wire.joinSp, pySplitWs]
      have h32 : (Bytes.SP : UInt8) = 32 := rfl
      rw [h32, splitGo_tok_sp t _ [] hws (by simpa using hne)]
      simp only [List.nil_append]
      rw [← pySplitWs, this]

theorem tok_of_digits {t : Bytes} (hne : t ≠ []) (h : ∀ b ∈ t, Wire.isDigit b = true) : Tok t := by
  refine ⟨hne, fun b hb => ?_⟩
  have := (Wire.isDigit_iff b).1 (h b hb)
  simp only [isWs, Bool.or_eq_false_iff, decide_eq_false_iff_not]
  refine ⟨⟨⟨⟨⟨?_, ?_⟩, ?_⟩, ?_⟩, ?_⟩, ?_⟩ <;> (rintro rfl; revert this; decide)

theorem tok_natDec (n : Nat) : Tok (Wire.natDec n) :=
  tok_of_digits (Wire.natDec_ne_nil n) (Wire.natDec_mem_isDigit n)

theorem tok_VALUE : Tok [86, 65, 76, 85, 69] := by
  refine ⟨by simp, ?_⟩; decide
end Key

namespace Exchange
open Bytes Readers Wire

/-- the item the client builds from a rendered value -/
def toItem (withCas : Bool) (p : Bytes × AbsMap.Item) : Item :=
  ⟨p.1, p.2.data, (p.2.flags : Int), if withCas then some (natDec p.2.cas) else none⟩

def hdrToks (withCas : Bool) (k : Bytes) (it : AbsMap.Item) : List Bytes :=
  [[86, 65, 76, 85, 69], k, natDec it.flags, natDec it.data.length] ++ (if withCas then [natDec it.cas] else [])

theorem renderValue_eq (withCas : Bool) (k : Bytes) (it : AbsMap.Item) :
    Server.renderValue withCas k it = Wire.joinSp (hdrToks withCas k it) ++ CRLF ++ (it.data ++ CRLF) := by
  cases withCas <;> simp [Server.renderValue, hdrToks, Wire.joinSp, SP]

theorem hdr_tok (withCas : Bool) (k : Bytes) (it : AbsMap.Item) (hk : Key.Tok k) :
    ∀ t ∈ hdrToks withCas k it, Key.Tok t := by
  intro t ht
  cases withCas <;> simp [hdrToks] at ht
  · rcases ht with rfl | rfl | rfl | rfl
    · exact Key.tok_VALUE
    · exact hk
    · exact Key.tok_natDec _
    · exact Key.tok_natDec _
  · rcases ht with rfl | rfl | rfl | rfl | rfl
    · exact Key.tok_VALUE
    · exact hk
    · exact Key.tok_natDec _
    · exact Key.tok_natDec _
    · exact Key.tok_natDec _

theorem hdr_head (withCas : Bool) (k : Bytes) (it : AbsMap.Item) :
    ∃ r, Wire.joinSp (hdrToks withCas k it) = 86 :: 65 :: 76 :: 85 :: 69 :: 32 :: r := by
  cases withCas <;> simp [hdrToks, Wire.joinSp, SP]

theorem hdr_noCR (withCas : Bool) (k : Bytes) (it : AbsMap.Item) (hk : Key.Tok k) :
    ∀ b ∈ Wire.joinSp (hdrToks withCas k it), b ≠ CR := by
  intro b hb
  rcases joinSp_mem _ b hb with rfl | ⟨t, ht, hbt⟩
  · decide
  · have := (hdr_tok withCas k it hk t ht).2 b hbt
    rintro rfl; revert this; decide

theorem fetchLoop_value_step (withCas : Bool) (wanted : List Bytes) (fuel : Nat) (k : Bytes)
    (it : AbsMap.Item) (rest : Bytes) (acc : List FetchEntry) (hk : Key.Tok k) (hw : k ∈ wanted) :
    fetchLoop (.values withCas) wanted (fuel + 1) (Server.renderValue withCas k it ++ rest) [] acc =
      fetchLoop (.values withCas) wanted fuel rest [] (acc ++ [.item (toItem withCas (k, it))]) := by
  obtain ⟨r, hr⟩ := hdr_head withCas k it
  have hsplit := Key.pySplitWs_joinSp _ (hdr_tok withCas k it hk)
  have hline := readline_nil_evs _ (it.data ++ CRLF ++ rest) (hdr_noCR withCas k it hk)
  have hval := readvalue_nil_evs it.data rest
  simp only [List.append_assoc] at hval
  have hre : raiseErrors (Wire.joinSp (hdrToks withCas k it)) = none := by
    rw [raiseErrors_eq, hr]; simp [List.isPrefixOf]
  have hbuf : Server.renderValue withCas k it ++ rest =
      Wire.joinSp (hdrToks withCas k it) ++ CRLF ++ (it.data ++ CRLF ++ rest) := by
    rw [renderValue_eq]; simp
  rw [hbuf, fetchLoop]
  simp only [hline, hre, hsplit]
  have h1 : (Wire.joinSp (hdrToks withCas k it) = ofString "END" ||
      Wire.joinSp (hdrToks withCas k it) = ofString "OK") = false := by
    rw [hr]; simp
  have h2 : startsWith (Wire.joinSp (hdrToks withCas k it)) (ofString "VALUE") = true := by
    rw [hr]; simp [startsWith, List.isPrefixOf]
  simp only [h1, h2, Bool.false_eq_true, if_false, if_true]
  cases withCas
  · simp [hdrToks, pyInt_natDec, hval, hw, toItem]
  · simp [hdrToks, pyInt_natDec, hval, hw, toItem]

/-- **the reply round trip for fetches**: whatever the data bytes are -/
theorem fetchLoop_values (withCas : Bool) (wanted : List Bytes) (vs : List (Bytes × AbsMap.Item))
    (hk : ∀ p ∈ vs, Key.Tok p.1 ∧ p.1 ∈ wanted) (fuel : Nat) (hf : vs.length < fuel)
    (acc : List FetchEntry) :
    fetchLoop (.values withCas) wanted fuel
        ((vs.flatMap fun p => Server.renderValue withCas p.1 p.2) ++ ofString "END" ++ CRLF) [] acc =
      ⟨.ok (acc ++ vs.map fun p => .item (toItem withCas p)), [], false⟩ := by
  induction vs generalizing fuel acc with
  | nil =>
    cases fuel with
    | zero => simp at hf
    | succ fuel =>
      have hline := readline_nil_evs (ofString "END") [] (by simp [CR])
      simp only [List.append_nil] at hline
      simp only [List.flatMap_nil, List.nil_append, fetchLoop, hline]
      have : raiseErrors [69, 78, 68] = none := by rw [raiseErrors_eq]; simp [List.isPrefixOf]
      simp [this]
  | cons p vs ih =>
    cases fuel with
    | zero => simp at hf
    | succ fuel =>
      obtain ⟨h1, h2⟩ := hk p (by simp)
      simp only [List.flatMap_cons, List.append_assoc]
      rw [fetchLoop_value_step withCas wanted fuel p.1 p.2 _ acc h1 h2]
      have := ih (fun q hq => hk q (by simp [hq])) fuel (by simpa using hf) (acc ++ [.item (toItem withCas p)])
      simp only [List.append_assoc] at this
      rw [this]; simp

theorem fetchLoop_single (kind : FetchKind) (wanted : List Bytes) (n : Nat) (b : Bytes) (hb : b ≠ [])
    (acc : List FetchEntry) :
    fetchLoop kind wanted (n + 1) [] [.data b] acc = fetchLoop kind wanted (n + 1) b [] acc := by
  simp only [fetchLoop, readline_single b hb]
end Exchange
