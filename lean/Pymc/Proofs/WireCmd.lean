import Pymc.Model.Wire
import Pymc.Proofs.WireLine
/-! Helper lemmas for C02: per-command round trips `parseReq (cmd ++ rest) = some (req, rest)`. -/
namespace Wire
open Bytes Readers

theorem forbidden_SP : Key.forbidden SP = true := by decide
theorem forbidden_CR : Key.forbidden CR = true := by decide
theorem forbidden_LF : Key.forbidden LF = true := by decide

theorem validKey_iff (k : Bytes) :
    validKey k = true ↔ k ≠ [] ∧ k.length ≤ 250 ∧ ∀ b ∈ k, Key.forbidden b = false := by
  simp [validKey, and_assoc]

theorem TokOK_of_clean {k : Bytes} (h : ∀ b ∈ k, Key.forbidden b = false) : TokOK k := by
  intro b hb
  have := h b hb
  constructor <;> (rintro rfl; revert this; decide)

theorem TokOK_of_validKey {k : Bytes} (h : validKey k = true) : TokOK k :=
  TokOK_of_clean ((validKey_iff k).1 h).2.2

theorem TokOK_of_dec {t : Bytes} (h : ∀ b ∈ t, isDigit b = true ∨ b = 45) : TokOK t := by
  intro b hb
  rcases h b hb with h | rfl
  · exact ⟨(isDigit_ne h).1, (isDigit_ne h).2.1⟩
  · decide

theorem TokOK_natDec (n : Nat) : TokOK (natDec n) :=
  TokOK_of_dec (fun b hb => .inl (natDec_mem_isDigit n b hb))
theorem TokOK_intDec (i : Int) : TokOK (intDec i) := TokOK_of_dec (intDec_mem i)
theorem TokOK_digits {c : Bytes} (h : c.all isDigit = true) : TokOK c :=
  TokOK_of_dec (fun b hb => .inl (by simpa using List.all_eq_true.1 h b hb))

theorem TokOK_lit {t : Bytes} (h : t.all (fun b => b ≠ SP && b ≠ CR) = true) : TokOK t := by
  intro b hb
  have := List.all_eq_true.1 h b hb
  simpa using this
theorem TokOK_sname (v : SVerb) : TokOK v.name := by
  cases v <;> exact TokOK_lit (by simp [SP, CR])
theorem TokOK_fname (v : FVerb) : TokOK v.name := by
  cases v <;> exact TokOK_lit (by simp [SP, CR])

theorem TokOK_cons_append {t : Bytes} {ts : List Bytes} (nr : Bool) (ht : TokOK t)
    (hts : ∀ u ∈ ts, TokOK u) : ∀ u ∈ t :: (ts ++ nrToks nr), TokOK u := by
  intro u hu
  rcases List.mem_cons.1 hu with rfl | hu
  · exact ht
  · rcases List.mem_append.1 hu with hu | hu
    · exact hts u hu
    · exact TokOK_nrToks nr u hu

/-- generic: a one-line command whose tokens are clean -/
theorem parseReq_line (v : Bytes) (args : List Bytes) (nr : Bool) (rest : Bytes)
    (hv : TokOK v) (ha : ∀ u ∈ args, TokOK u) :
    parseReq (joinSp (v :: args) ++ noreplySfx nr ++ CRLF ++ rest) =
      parseLine (v :: (args ++ nrToks nr)) rest := by
  rw [← joinSp_nrToks _ (by simp), List.cons_append,
    parseReq_joinSp _ (by simp) (TokOK_cons_append nr hv ha)]

/-! ## store -/
theorem storeCmd_shape_none (verb : SVerb) (key : Bytes) (flags expire : Int) (data : Bytes) (nr : Bool)
    (rest : Bytes) :
    storeCmd verb key flags expire data none nr ++ rest =
      joinSp (verb.name :: [key, intDec flags, intDec expire, natDec data.length]) ++ noreplySfx nr
        ++ CRLF ++ (data ++ CRLF ++ rest) := by
  simp [storeCmd, joinSp]

theorem storeCmd_shape_some (verb : SVerb) (key : Bytes) (flags expire : Int) (data c : Bytes) (nr : Bool)
    (rest : Bytes) :
    storeCmd verb key flags expire data (some c) nr ++ rest =
      joinSp (verb.name :: [key, intDec flags, intDec expire, natDec data.length, c]) ++ noreplySfx nr
        ++ CRLF ++ (data ++ CRLF ++ rest) := by
  simp [storeCmd, joinSp]

theorem parseReq_store (verb : SVerb) (hv : verb ≠ .cas) (key : Bytes) (flags expire : Int)
    (data : Bytes) (nr : Bool) (rest : Bytes) (hk : validKey key = true) (hf : 0 ≤ flags) :
    parseReq (storeCmd verb key flags expire data none nr ++ rest) =
      some (.store verb key flags.toNat expire data none nr, rest) := by
  rw [storeCmd_shape_none, parseReq_line _ _ _ _ (TokOK_sname verb)]
  · exact parseLine_store verb hv _ _ _ _ nr _ _ _ _ _ _
      (by rw [intDec_nonneg hf]; exact parseNat_natDec _) (parseInt_intDec expire)
      (parseNat_natDec _) hk (takeBlock_data data rest)
  · intro u hu
    simp at hu
    rcases hu with rfl | rfl | rfl | rfl
    · exact TokOK_of_validKey hk
    · exact TokOK_intDec _
    · exact TokOK_intDec _
    · exact TokOK_natDec _

theorem parseReq_cas (key : Bytes) (flags expire : Int) (data c : Bytes) (nr : Bool) (rest : Bytes)
    (hk : validKey key = true) (hf : 0 ≤ flags) (hc1 : c ≠ []) (hc2 : c.all isDigit = true) :
    parseReq (storeCmd .cas key flags expire data (some c) nr ++ rest) =
      some (.store .cas key flags.toNat expire data (parseNat c) nr, rest) := by
  rw [storeCmd_shape_some, parseReq_line _ _ _ _ (TokOK_sname .cas)]
  · rw [parseNat_eq_some_of c hc1 hc2]
    exact parseLine_cas _ _ _ _ _ nr _ _ _ _ _ _ _
      (by rw [intDec_nonneg hf]; exact parseNat_natDec _) (parseInt_intDec expire)
      (parseNat_natDec _) (parseNat_eq_some_of c hc1 hc2) hk (takeBlock_data data rest)
  · intro u hu
    simp at hu
    rcases hu with rfl | rfl | rfl | rfl | rfl
    · exact TokOK_of_validKey hk
    · exact TokOK_intDec _
    · exact TokOK_intDec _
    · exact TokOK_natDec _
    · exact TokOK_digits hc2

/-! ## fetch -/
theorem fetchCmd_shape_none (verb : FVerb) (keys : List Bytes) (hne : keys ≠ []) (rest : Bytes) :
    fetchCmd verb none keys ++ rest = joinSp (verb.name :: keys) ++ CRLF ++ rest := by
  rw [joinSp_cons _ hne, joinSp_eq_intercalate]
  simp [fetchCmd, hne]

theorem fetchCmd_shape_some (verb : FVerb) (e : Int) (keys : List Bytes) (hne : keys ≠ []) (rest : Bytes) :
    fetchCmd verb (some e) keys ++ rest = joinSp (verb.name :: intDec e :: keys) ++ CRLF ++ rest := by
  rw [joinSp_cons _ (by simp), joinSp_cons _ hne, joinSp_eq_intercalate]
  simp [fetchCmd, hne]

theorem parseReq_get (verb : FVerb) (hv : verb = .get ∨ verb = .gets) (keys : List Bytes) (rest : Bytes)
    (hne : keys ≠ []) (hk : ∀ k ∈ keys, validKey k = true) :
    parseReq (fetchCmd verb none keys ++ rest) = some (.fetch verb none keys, rest) := by
  rw [fetchCmd_shape_none _ _ hne, parseReq_joinSp _ (by simp), parseLine_get verb hv keys rest hne hk]
  intro t ht
  rcases List.mem_cons.1 ht with rfl | ht
  · exact TokOK_fname verb
  · exact TokOK_of_validKey (hk t ht)

theorem parseReq_gat (verb : FVerb) (hv : verb = .gat ∨ verb = .gats) (e : Int) (keys : List Bytes)
    (rest : Bytes) (hne : keys ≠ []) (hk : ∀ k ∈ keys, validKey k = true) :
    parseReq (fetchCmd verb (some e) keys ++ rest) = some (.fetch verb (some e) keys, rest) := by
  rw [fetchCmd_shape_some _ _ _ hne, parseReq_joinSp _ (by simp),
    parseLine_gat verb hv _ e keys rest (parseInt_intDec e) hne hk]
  intro t ht
  rcases List.mem_cons.1 ht with rfl | ht
  · exact TokOK_fname verb
  · rcases List.mem_cons.1 ht with rfl | ht
    · exact TokOK_intDec e
    · exact TokOK_of_validKey (hk t ht)

/-! ## delete, incr/decr, touch, flush_all, version, quit -/
theorem parseReq_delete (key : Bytes) (nr : Bool) (rest : Bytes) (hk : validKey key = true) :
    parseReq (deleteCmd key nr ++ rest) = some (.delete key nr, rest) := by
  have : deleteCmd key nr ++ rest = joinSp (ofString "delete" :: [key]) ++ noreplySfx nr ++ CRLF ++ rest := by
    simp [deleteCmd, joinSp, SP]
  rw [this, parseReq_line _ _ _ _ (TokOK_lit (by simp [SP, CR]))]
  · exact parseLine_delete key nr rest hk
  · intro u hu
    simp at hu; subst hu
    exact TokOK_of_validKey hk

theorem parseReq_arith (incr : Bool) (key : Bytes) (delta : Int) (nr : Bool) (rest : Bytes)
    (hk : validKey key = true) (hd : 0 ≤ delta) :
    parseReq (arithCmd incr key delta nr ++ rest) = some (.arith incr key delta.toNat nr, rest) := by
  have : arithCmd incr key delta nr ++ rest =
      joinSp (ofString (if incr then "incr" else "decr") :: [key, intDec delta]) ++ noreplySfx nr
        ++ CRLF ++ rest := by
    cases incr <;> simp [arithCmd, joinSp, SP]
  rw [this, parseReq_line _ _ _ _ (by cases incr <;> exact TokOK_lit (by simp [SP, CR]))]
  · exact parseLine_arith incr key _ _ nr rest hk (by rw [intDec_nonneg hd]; exact parseNat_natDec _)
  · intro u hu
    simp at hu
    rcases hu with rfl | rfl
    · exact TokOK_of_validKey hk
    · exact TokOK_intDec _

theorem parseReq_touch (key : Bytes) (expire : Int) (nr : Bool) (rest : Bytes)
    (hk : validKey key = true) :
    parseReq (touchCmd key expire nr ++ rest) = some (.touch key expire nr, rest) := by
  have : touchCmd key expire nr ++ rest =
      joinSp (ofString "touch" :: [key, intDec expire]) ++ noreplySfx nr ++ CRLF ++ rest := by
    simp [touchCmd, joinSp, SP]
  rw [this, parseReq_line _ _ _ _ (TokOK_lit (by simp [SP, CR]))]
  · exact parseLine_touch key _ _ nr rest hk (parseInt_intDec expire)
      (ne_noreply_of_dec (intDec_mem expire))
  · intro u hu
    simp at hu
    rcases hu with rfl | rfl
    · exact TokOK_of_validKey hk
    · exact TokOK_intDec _

theorem parseReq_flush (delay : Int) (nr : Bool) (rest : Bytes) (hd : 0 ≤ delay) :
    parseReq (flushCmd delay nr ++ rest) = some (.flushAll (some delay.toNat) nr, rest) := by
  have : flushCmd delay nr ++ rest =
      joinSp (ofString "flush_all" :: [intDec delay]) ++ noreplySfx nr ++ CRLF ++ rest := by
    simp [flushCmd, joinSp, SP]
  rw [this, parseReq_line _ _ _ _ (TokOK_lit (by simp [SP, CR]))]
  · exact parseLine_flush _ _ nr rest (by rw [intDec_nonneg hd]; exact parseNat_natDec _)
  · intro u hu
    simp at hu; subst hu
    exact TokOK_intDec _

theorem parseReq_version (rest : Bytes) : parseReq (versionCmd ++ rest) = some (.version, rest) := by
  have : versionCmd ++ rest = joinSp [ofString "version"] ++ CRLF ++ rest := by
    simp [versionCmd, joinSp]
  rw [this, parseReq_joinSp _ (by simp), parseLine_version]
  intro t ht; simp at ht; subst ht; exact TokOK_lit (by simp [SP, CR])

theorem parseReq_quit (rest : Bytes) : parseReq (quitCmd ++ rest) = some (.quit, rest) := by
  have : quitCmd ++ rest = joinSp [ofString "quit"] ++ CRLF ++ rest := by
    simp [quitCmd, joinSp]
  rw [this, parseReq_joinSp _ (by simp), parseLine_quit]
  intro t ht; simp at ht; subst ht; exact TokOK_lit (by simp [SP, CR])
