import Pymc.Proofs.Murmur3Rel
namespace Murmur

theorem disj8 (a b : BitVec 8) : (b.zeroExtend 32 <<< 8) &&& a.zeroExtend 32 = 0#32 := by
  apply BitVec.eq_of_getLsbD_eq
  intro i hi
  simp only [BitVec.getLsbD_and, BitVec.getLsbD_shiftLeft, BitVec.getLsbD_setWidth, BitVec.getLsbD_zero]
  by_cases h : i < 8
  · simp [h]
  · have : a.getLsbD i = false := BitVec.getLsbD_of_ge a i (by omega)
    simp [this]

theorem disj16 (a c : BitVec 8) (x : W) (hx : x &&& (c.zeroExtend 32 <<< 16) = 0#32 → True) :
    (c.zeroExtend 32 <<< 16) &&& a.zeroExtend 32 = 0#32 := by
  apply BitVec.eq_of_getLsbD_eq
  intro i hi
  simp only [BitVec.getLsbD_and, BitVec.getLsbD_shiftLeft, BitVec.getLsbD_setWidth, BitVec.getLsbD_zero]
  by_cases h : i < 16
  · simp [h]
  · have : a.getLsbD i = false := BitVec.getLsbD_of_ge a i (by omega)
    simp [this]

theorem disj16_8 (b c : BitVec 8) : (c.zeroExtend 32 <<< 16) &&& (b.zeroExtend 32 <<< 8) = 0#32 := by
  apply BitVec.eq_of_getLsbD_eq
  intro i hi
  simp only [BitVec.getLsbD_and, BitVec.getLsbD_shiftLeft, BitVec.getLsbD_setWidth, BitVec.getLsbD_zero]
  by_cases h : i < 16
  · simp [h]
  · have : b.getLsbD (i - 8) = false := BitVec.getLsbD_of_ge b _ (by omega)
    simp [this]

theorem disj_or_8 (a b c : BitVec 8) :
    ((c.zeroExtend 32 <<< 16) ||| (b.zeroExtend 32 <<< 8)) &&& a.zeroExtend 32 = 0#32 := by
  apply BitVec.eq_of_getLsbD_eq
  intro i hi
  simp only [BitVec.getLsbD_and, BitVec.getLsbD_or, BitVec.getLsbD_shiftLeft, BitVec.getLsbD_setWidth,
    BitVec.getLsbD_zero]
  by_cases h : i < 8
  · have h16 : i < 16 := by omega
    simp [h, h16]
  · have : a.getLsbD i = false := BitVec.getLsbD_of_ge a i (by omega)
    simp [this]

theorem R_tail {h : Nat} {x : W} (hh : R h x) (tl : List Nat) (hb : ∀ c ∈ tl, c < 256) (hl : tl.length < 4) :
    R (tailPy h tl) (tailR x (tl.map (BitVec.ofNat 8))) := by
  match tl, hb, hl with
  | [], _, _ => simpa [tailPy, tailR] using hh
  | [a], hb, _ =>
    simp only [tailPy, tailR, List.map]
    exact R_xor hh (R_mixK (R_byte a (hb a (by simp))))
  | [a, b], hb, _ =>
    simp only [tailPy, tailR, List.map]
    refine R_xor hh (R_mixK ?_)
    rw [← or_eq_xor_disj _ _ (disj8 _ _)]
    exact R_or (R_shl (R_byte b (hb b (by simp))) 8) (R_byte a (hb a (by simp)))
  | [a, b, c], hb, _ =>
    simp only [tailPy, tailR, List.map]
    refine R_xor hh (R_mixK ?_)
    rw [← or_eq_xor_disj _ _ (disj16_8 _ _)]
    rw [← or_eq_xor_disj _ _ (disj_or_8 _ _ _)]
    exact R_or (R_or (R_shl (R_byte c (hb c (by simp))) 16) (R_shl (R_byte b (hb b (by simp))) 8)) (R_byte a (hb a (by simp)))
  | _ :: _ :: _ :: _ :: _, _, hl => simp at hl; omega


set_option maxRecDepth 4000 in
theorem goPy_eq (len : Nat) (data : List Nat) (hb : ∀ c ∈ data, c < 256) {h : Nat} {x : W} (hh : R h x) :
    goPy len h data = (goR len x (data.map (BitVec.ofNat 8))).toNat := by
  fun_induction goPy len h data generalizing x with
  | case1 h b0 b1 b2 b3 rest ih =>
    rw [List.map_cons, List.map_cons, List.map_cons, List.map_cons, goR]
    apply ih
    · intro c hc; exact hb c (by simp [hc])
    · exact R_block hh (hb b0 (by simp)) (hb b1 (by simp)) (hb b2 (by simp)) (hb b3 (by simp))
  | case2 h tl hne =>
    have hl : tl.length < 4 := by
      match tl, hne with
      | [], _ => simp
      | [_], _ => simp
      | [_, _], _ => simp
      | [_, _, _], _ => simp
      | a :: b :: c :: d :: r, hne => exact absurd rfl (hne a b c d r)
    have : goR len x (tl.map (BitVec.ofNat 8)) = fmixR (tailR x (tl.map (BitVec.ofNat 8)) ^^^ BitVec.ofNat 32 len) := by
      match tl, hl with
      | [], _ => rfl
      | [_], _ => rfl
      | [_, _], _ => rfl
      | [_, _, _], _ => rfl
    rw [this]
    exact R_fmix (R_tail hh tl hb hl) len

set_option maxRecDepth 4000 in
/-- C14: the Python arithmetic on unbounded ints equals MurmurHash3_x86_32 on every byte string and seed -/
theorem murmurPy_eq_ref (data : List Nat) (seed : Nat) (hb : ∀ c ∈ data, c < 256) :
    murmurPy data seed = (murmurRef (data.map (BitVec.ofNat 8)) (BitVec.ofNat 32 seed)).toNat := by
  unfold murmurPy murmurRef
  rw [List.length_map]
  exact goPy_eq data.length data hb (R_lit seed)

theorem murmurPy_lt (data : List Nat) (seed : Nat) : murmurPy data seed < 2 ^ 32 := by
  unfold murmurPy
  generalize data.length = len
  fun_induction goPy len seed data with
  | case1 h b0 b1 b2 b3 rest ih => exact ih
  | case2 h tl hne =>
    unfold fmixPy
    have hM : M = 2^32 - 1 := by decide
    simp only [hM, Nat.and_two_pow_sub_one_eq_mod]
    exact Nat.mod_lt _ (by decide)

end Murmur
