import Pymc.Proofs.PoolConcMain
/-! Consequences of `Inv`: deadlock-freedom, quiescent accounting, closed at most once. -/
set_option linter.unusedSimpArgs false
namespace PoolConc

/-- the lock owner can always move -/
theorem enabled_of_inCS (s : State) (t : Tid) (h : (s.th t).pc.inCS = true) :
    ∃ l s', step s t l = some s' := by
  cases hp : (s.th t).pc <;> simp [hp] at h
  case getTest o f => exact ⟨.fresh, by unfold step stepE; simp [hp]⟩
  case desRel o d k =>
    cases d <;> cases k <;>
      (refine ⟨.tau, ?_⟩; unfold step stepE unlock; simp only [hp]; first | (simp; done) | (split <;> simp; done))
  case clrRel l =>
    cases l <;>
      (refine ⟨.tau, ?_⟩; unfold step stepE unlock; simp only [hp]; first | (simp; done) | (split <;> simp; done))
  all_goals refine ⟨.tau, ?_⟩
  all_goals (unfold step stepE unlock; simp only [hp])
  all_goals (first | (simp; done) | (split <;> simp; done))

/-- a thread outside the critical sections that is not finished can move when the lock is free -/
theorem enabled_of_free (s : State) (t : Tid) (hl : s.lock = none) (hcs : (s.th t).pc.inCS = false)
    (he : (s.th t).pc ≠ .internalError) (hd : (s.th t).done = false) :
    ∃ l s', step s t l = some s' := by
  refine ⟨.tau, ?_⟩
  cases hp : (s.th t).pc <;> simp [hp] at hcs he
  case idle =>
    cases hq : (s.th t).prog with
    | nil => simp [TState.done, hp, hq] at hd
    | cons op r =>
      unfold step stepE; simp only [hp, hq, hl]
      cases hf : op.fin <;> simp
  case hold o f => cases f <;> (unfold step stepE; simp [hp])
  case desAfter o k => cases k <;> (unfold step stepE; simp [hp])
  case clrAfter o r => cases r <;> (unfold step stepE; simp [hp])
  all_goals (unfold step stepE; simp [hp, hl])

theorem no_deadlock_of_inv (s : State) (h : Inv s) (hd : ∃ t, (s.th t).done = false) :
    ∃ t l s', step s t l = some s' := by
  cases hl : s.lock with
  | some u => exact ⟨u, enabled_of_inCS s u ((h.mutex u).mpr hl)⟩
  | none =>
    obtain ⟨t, ht⟩ := hd
    refine ⟨t, enabled_of_free s t hl ?_ (h.noErr t) ht⟩
    have := h.mutex t
    cases hc : (s.th t).pc.inCS
    · rfl
    · simp [hc, hl] at this

theorem quiescent_of_inv (s : State) (h : Inv s) (hd : s.allDone) :
    s.used = [] ∧ s.lock = none ∧
    ∀ o, o < s.created → (o ∈ s.free ∧ s.closedCnt o = 0) ∨ (o ∉ s.free ∧ s.closedCnt o = 1) := by
  have hidle : ∀ t, (s.th t).pc = .idle := by
    intro t; have := hd t; simp [TState.done] at this; exact this.1
  have hu : s.used = [] := by
    cases hU : s.used with
    | nil => rfl
    | cons o r =>
      obtain ⟨t, ht⟩ := h.owes o (by simp [hU])
      simp [hidle t] at ht
  refine ⟨hu, ?_, ?_⟩
  · cases hl : s.lock with
    | none => rfl
    | some t => have := (h.mutex t).mpr hl; simp [hidle t] at this
  · intro o ho
    by_cases hf : o ∈ s.free
    · exact Or.inl ⟨hf, h.ccPool o (Or.inr hf)⟩
    · refine Or.inr ⟨hf, h.ccGone o ho (by simp [hu]) hf ?_⟩
      intro t; simp [hidle t]

theorem closed_le_one_of_inv (s : State) (h : Inv s) (o : Obj) : s.closedCnt o ≤ 1 := by
  by_cases hc : o < s.created
  · by_cases hp : o ∈ s.used ∨ o ∈ s.free
    · simp [h.ccPool o hp]
    · by_cases ht : ∃ t, o ∈ (s.th t).pc.own
      · obtain ⟨t, ht⟩ := ht; simp [h.ccOwn t o ht]
      · have := h.ccGone o hc (by simp_all) (by simp_all) (by simpa using ht)
        simp [this]
  · simp [h.ccNew o (Nat.le_of_not_lt hc)]

end PoolConc
