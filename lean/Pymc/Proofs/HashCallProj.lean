import Pymc.Model.HashCall
import Pymc.Proofs.FailoverBasic
/-!
# `HashClient ∘ Client` refines the abstract failover model `Failover`

Forgetting the inner clients (`St.proj`) commutes with `_retry_dead` / `_get_client` / `_safely_run_func`, and one
composed call `callH` whose key passes `check_key_helper` is one abstract `Failover.stepOp … (.runCmd rk)` in the
environment in which the contacted server does what the inner `Client.call` did (`callH_proj`).  The only hypothesis is
`Cover` — every node in rotation has a client object registered in `self.clients` — an invariant of the composed
model (`cover_callH`, `cover_init`).
-/
namespace HashCall
open Exchange Client Framing Failover

/-! ## `self.clients` -/

theorem alookup_ainsert {β : Type} (k x : Srv) (v : β) (l : List (Srv × β)) :
    alookup x (ainsert k v l) = if x = k then some v else alookup x l := by
  by_cases h : x = k
  · subst h; simp [alookup_ainsert_self]
  · simp [h, alookup_ainsert_ne k x v l h]

theorem mem_ainsert {β : Type} {k : Srv} {v : β} {l : List (Srv × β)} {x : Srv × β} (h : x ∈ ainsert k v l) :
    x ∈ l ∨ x = (k, v) := by
  unfold ainsert at h
  split at h
  · obtain ⟨p, hp, rfl⟩ := List.mem_map.mp h
    by_cases hk : p.1 = k
    · simp [hk]
    · simp [hk, hp]
  · rcases List.mem_append.mp h with h | h
    · exact .inl h
    · exact .inr (List.mem_singleton.mp h)

/-- every node in rotation has a client object -/
def Cover (st : St) : Prop := ∀ s ∈ st.fo.nodes, ∃ cl, alookup s st.clients = some cl

theorem newClient_lookup (st : St) (s x : Srv) :
    alookup x (newClient st s).clients = if x = s then some { id := st.nextClient } else alookup x st.clients :=
  alookup_ainsert s x _ _

@[simp] theorem newClient_fo (st : St) (s : Srv) : (newClient st s).fo = st.fo := rfl

/-! ## the constructor -/

theorem initClients_fo (l : List Srv) (st : St) : (initClients l st).fo = st.fo := by
  induction l generalizing st with
  | nil => rfl
  | cons s r ih => simp [initClients, ih]

theorem initClients_lookup (l : List Srv) (st : St) (x : Srv)
    (h : x ∈ l ∨ ∃ cl, alookup x st.clients = some cl) : ∃ cl, alookup x (initClients l st).clients = some cl := by
  induction l generalizing st with
  | nil =>
    rcases h with h | h
    · simp at h
    · exact h
  | cons s r ih =>
    simp only [initClients]
    apply ih
    by_cases hx : x = s
    · right; rw [newClient_lookup]; simp [hx]
    · rcases h with h | h
      · left; simpa [hx] using h
      · right; rw [newClient_lookup]; simpa [hx] using h

theorem init_proj (servers : List Srv) (t0 : Time) : (init servers t0).proj = Failover.init servers t0 :=
  initClients_fo _ _

theorem cover_init (servers : List Srv) (t0 : Time) : Cover (init servers t0) := by
  intro s hs
  have hfo : (init servers t0).fo = Failover.init servers t0 := init_proj servers t0
  rw [hfo] at hs
  exact initClients_lookup servers _ s (.inl ((dedup_mem s servers).mp hs))

/-! ## `_retry_dead` -/

theorem reviveAll_proj (l : List Srv) (st : St) : (reviveAll l st).map St.proj = Failover.reviveAll l st.fo := by
  induction l generalizing st with
  | nil => rfl
  | cons s r ih =>
    simp only [reviveAll, Failover.reviveAll]
    cases aerase s st.fo.dead with
    | none => rfl
    | some d => exact ih _

theorem retryDead_proj (c : Cfg) (now : Time) (st : St) :
    (retryDead c now st).map St.proj = Failover.retryDead c now st.fo := by
  unfold retryDead Failover.retryDead
  by_cases h : now - st.fo.lastDeadCheck > c.dt
  · simp only [h, if_true]
    rw [← reviveAll_proj]
    cases reviveAll _ st <;> rfl
  · simp only [h, if_false]; rfl

theorem retryIfDead_proj (c : Cfg) (now : Time) (st : St) :
    (retryIfDead c now st).map St.proj = Failover.retryIfDead c now st.fo := by
  unfold retryIfDead Failover.retryIfDead
  cases st.fo.dead.isEmpty
  · exact retryDead_proj c now st
  · rfl

/-- what reviving does to `self.clients`: entries are kept or replaced by fresh objects (no socket, empty pipe), and
every entry present before is present after -/
structure Refreshed (st st1 : St) : Prop where
  mem : ∀ x ∈ st1.clients, x ∈ st.clients ∨ (x.2.sockOpen = false ∧ x.2.pipe = [])
  keep : ∀ s, (∃ cl, alookup s st.clients = some cl) → ∃ cl, alookup s st1.clients = some cl

theorem refreshed_refl (st : St) : Refreshed st st := ⟨fun _ h => .inl h, fun _ h => h⟩

theorem refreshed_newClient (st : St) (s : Srv) : Refreshed st (newClient st s) := by
  refine ⟨fun x hx => ?_, fun y hy => ?_⟩
  · rcases mem_ainsert hx with h | h
    · exact .inl h
    · subst h; exact .inr ⟨rfl, rfl⟩
  · rw [newClient_lookup]
    by_cases h : y = s
    · simp [h]
    · simpa [h] using hy

theorem refreshed_trans {a b d : St} (h1 : Refreshed a b) (h2 : Refreshed b d) : Refreshed a d := by
  refine ⟨fun x hx => ?_, fun s hs => h2.keep s (h1.keep s hs)⟩
  rcases h2.mem x hx with h | h
  · exact h1.mem x h
  · exact .inr h

theorem reviveAll_spec (l : List Srv) (st st1 : St) (h : reviveAll l st = some st1) :
    Refreshed st st1 ∧ (∀ x ∈ st1.fo.nodes, x ∈ st.fo.nodes ∨ x ∈ l) ∧
      (∀ x ∈ l, ∃ cl, alookup x st1.clients = some cl) := by
  induction l generalizing st with
  | nil =>
    simp only [reviveAll, Option.some.injEq] at h
    subst h
    exact ⟨refreshed_refl _, fun x hx => .inl hx, fun x hx => by simp at hx⟩
  | cons s r ih =>
    simp only [reviveAll] at h
    cases hd : aerase s st.fo.dead with
    | none => simp [hd] at h
    | some d =>
      simp only [hd] at h
      obtain ⟨h1, h2, h3⟩ := ih _ h
      have hr : Refreshed st { newClient st s with fo := { st.fo with nodes := addNode s st.fo.nodes, dead := d } } :=
        ⟨(refreshed_newClient st s).mem, (refreshed_newClient st s).keep⟩
      refine ⟨refreshed_trans hr h1, fun x hx => ?_, fun x hx => ?_⟩
      · rcases h2 x hx with h | h
        · rcases (addNode_mem s x st.fo.nodes).mp h with h | h
          · right; simp [h]
          · exact .inl h
        · right; simp [h]
      · rcases List.mem_cons.mp hx with hx | hx
        · subst hx
          exact h1.keep x ⟨{ id := st.nextClient }, by
            show alookup x (newClient st x).clients = _
            rw [newClient_lookup]; simp⟩
        · exact h3 x hx

theorem retryIfDead_spec {c : Cfg} {now : Time} {st st1 : St} (h : retryIfDead c now st = some st1) (hc : Cover st) :
    Refreshed st st1 ∧ Cover st1 := by
  unfold retryIfDead at h
  split at h
  · cases h; exact ⟨refreshed_refl _, hc⟩
  · unfold retryDead at h
    split at h
    · cases hr : reviveAll ((st.fo.dead.filter (fun p => decide (now - p.2 > c.dt))).map Prod.fst) st with
      | none => simp [hr] at h
      | some st' =>
        simp only [hr, Option.some.injEq] at h
        subst h
        obtain ⟨h1, h2, h3⟩ := reviveAll_spec _ _ _ hr
        refine ⟨⟨h1.mem, h1.keep⟩, fun s hs => ?_⟩
        rcases h2 s hs with h | h
        · exact h1.keep s (hc s h)
        · exact h3 s h
    · cases h; exact ⟨refreshed_refl _, hc⟩

/-! ## `_get_client` -/

def Got.proj : Got → Failover.Got
  | .client s _ => .client s
  | .noClient => .noClient
  | .allDown => .allDown
  | .internalError => .internalError

theorem getClient_proj {Key : Type} (c : Cfg) (route : List Srv → Key → Option Srv) (hlaw : RouteLaw route) (now : Time)
    (st : St) (key : Key) (hc : Cover st) :
    Failover.getClient c route now st.fo key = ((getClient c route now st key).1.fo, (getClient c route now st key).2.proj) ∧
    Refreshed st (getClient c route now st key).1 ∧ Cover (getClient c route now st key).1 ∧
    (∀ s cl, (getClient c route now st key).2 = .client s cl → alookup s (getClient c route now st key).1.clients = some cl) := by
  have hp := retryIfDead_proj c now st
  unfold getClient Failover.getClient
  cases hr : retryIfDead c now st with
  | none =>
    rw [hr] at hp
    simp only [← hp, Option.map_none]
    exact ⟨rfl, refreshed_refl _, hc, fun s cl h => by cases h⟩
  | some st1 =>
    rw [hr] at hp
    obtain ⟨h1, h2⟩ := retryIfDead_spec hr hc
    simp only [← hp, Option.map_some, St.proj]
    cases hro : route st1.fo.nodes key with
    | none => cases c.ignoreExc <;> exact ⟨rfl, h1, h2, fun s cl h => by cases h⟩
    | some s =>
      obtain ⟨cl, hcl⟩ := h2 s (hlaw.mem _ _ _ hro)
      simp only [hcl]
      exact ⟨rfl, h1, h2, fun s' cl' h => by cases h; exact hcl⟩

/-! ## `_safely_run_func` -/

theorem isOSError_of_base {e : Exc} (h : isBaseExc e = true) : isOSError e = false := by
  cases e <;> simp_all [isBaseExc, isOSError]

@[simp] theorem contact_fo (ccfg : Wire.Cfg) (idx : Nat) (st : St) (s : Srv) (cl : IClient) (call : Call) (sc : Script) :
    (contact ccfg idx st s cl call sc).1.fo = st.fo := rfl

theorem contact_step (ccfg : Wire.Cfg) (idx : Nat) (st : St) (s : Srv) (cl : IClient) (call : Call) (sc : Script) :
    (contact ccfg idx st s cl call sc).2 = PooledCall.stepTagged ccfg idx cl.sockOpen cl.pipe call sc := rfl

theorem contact_clients (ccfg : Wire.Cfg) (idx : Nat) (st : St) (s : Srv) (cl : IClient) (call : Call) (sc : Script) :
    (contact ccfg idx st s cl call sc).1.clients =
      ainsert s { cl with sockOpen := (PooledCall.stepTagged ccfg idx cl.sockOpen cl.pipe call sc).out.sockOpen,
                          pipe := (PooledCall.stepTagged ccfg idx cl.sockOpen cl.pipe call sc).leftover } st.clients := rfl

/-- the outcome of the step, or `ok` when no server was contacted -/
def outcomeOfStep : Option Step → Outcome
  | some stp => outcomeOf stp.out.res
  | none => .ok

def contactsOfStep (s : Srv) (now : Time) : Option Step → List Contact
  | some stp => [(s, now, outcomeOf stp.out.res)]
  | none => []

theorem onError_proj (c : Cfg) (now : Time) (st : St) (s : Srv) (e : Exc) (cs : List Contact) :
    Failover.onError c now st.fo s (excOutcome e) cs =
      ((onError c now st s e).1.fo, absRes c (onError c now st s e).2, cs) := by
  unfold onError Failover.onError excOutcome
  cases hb : isBaseExc e
  · cases ho : isOSError e
    · cases hi : c.ignoreExc <;> simp [absRes, hb, ho, hi, excOutcome]
    · simp only [if_true, Bool.false_eq_true, if_false]
      cases markFailed c now st.fo s with
      | none => simp [absRes]
      | some fo' => cases hi : c.ignoreExc <;> simp [absRes, hb, ho, excOutcome]
  · have ho := isOSError_of_base hb
    cases hi : c.ignoreExc <;> simp [absRes, hb, ho, hi, excOutcome]

theorem invoke_fst (ccfg : Wire.Cfg) (c : Cfg) (idx : Nat) (now : Time) (st : St) (s : Srv) (cl : IClient) (call : Call)
    (sc : Script) (clear : Bool) :
    (invoke ccfg c idx now st s cl call sc clear).2.2 = some (PooledCall.stepTagged ccfg idx cl.sockOpen cl.pipe call sc) ∧
    (invoke ccfg c idx now st s cl call sc clear).1.clients = (contact ccfg idx st s cl call sc).1.clients ∧
    (invoke ccfg c idx now st s cl call sc clear).1.nextClient = st.nextClient := by
  unfold invoke
  simp only [contact_step]
  cases (PooledCall.stepTagged ccfg idx cl.sockOpen cl.pipe call sc).out.res with
  | ok r =>
    cases clear
    · exact ⟨rfl, rfl, rfl⟩
    · simp only [if_true]
      cases aerase s (contact ccfg idx st s cl call sc).1.fo.failed <;> exact ⟨rfl, rfl, rfl⟩
  | error e =>
    refine ⟨rfl, ?_⟩
    simp only [onError]
    split
    · exact ⟨rfl, rfl⟩
    · split
      · split
        · exact ⟨rfl, rfl⟩
        · split <;> exact ⟨rfl, rfl⟩
      · split <;> exact ⟨rfl, rfl⟩

/-- the plain invocation (`result = func(…); return result` with the handlers) is `Failover.invoke` -/
theorem invoke_proj_plain (ccfg : Wire.Cfg) (c : Cfg) (idx : Nat) (now : Time) (st : St) (s : Srv) (cl : IClient)
    (call : Call) (sc : Script) :
    Failover.invoke c now (fun _ => outcomeOfStep (invoke ccfg c idx now st s cl call sc false).2.2) st.fo s =
      ((invoke ccfg c idx now st s cl call sc false).1.fo, absRes c (invoke ccfg c idx now st s cl call sc false).2.1,
        contactsOfStep s now (invoke ccfg c idx now st s cl call sc false).2.2) := by
  rw [(invoke_fst ccfg c idx now st s cl call sc false).1]
  unfold invoke Failover.invoke
  simp only [contact_step, outcomeOfStep, contactsOfStep]
  cases hres : (PooledCall.stepTagged ccfg idx cl.sockOpen cl.pipe call sc).out.res with
  | ok r => simp [outcomeOf, absRes]
  | error e =>
    have h := onError_proj c now (contact ccfg idx st s cl call sc).1 s e [(s, now, excOutcome e)]
    simp only [contact_fo] at h
    simp only [outcomeOf]
    cases ho : excOutcome e with
    | ok => simp [excOutcome] at ho; split at ho <;> cases ho
    | oserror => rw [ho] at h; simpa using h
    | othererror => rw [ho] at h; simpa using h

theorem safelyRunFunc_step (ccfg : Wire.Cfg) (c : Cfg) (idx : Nat) (now : Time) (st : St) (s : Srv) (cl : IClient)
    (call : Call) (sc : Script) :
    ((safelyRunFunc ccfg c idx now st s cl call sc).2.2 = none ∧
      (safelyRunFunc ccfg c idx now st s cl call sc).1.clients = st.clients) ∨
    ((safelyRunFunc ccfg c idx now st s cl call sc).2.2 =
        some (PooledCall.stepTagged ccfg idx cl.sockOpen cl.pipe call sc) ∧
      (safelyRunFunc ccfg c idx now st s cl call sc).1.clients = (contact ccfg idx st s cl call sc).1.clients) := by
  unfold safelyRunFunc
  split
  · split
    · split
      · exact .inr ⟨(invoke_fst ..).1, (invoke_fst ..).2.1⟩
      · exact .inl ⟨rfl, rfl⟩
    · split
      · exact .inl ⟨rfl, rfl⟩
      · exact .inr ⟨(invoke_fst ..).1, (invoke_fst ..).2.1⟩
  · exact .inr ⟨(invoke_fst ..).1, (invoke_fst ..).2.1⟩

theorem safelyRunFunc_proj (ccfg : Wire.Cfg) (c : Cfg) (idx : Nat) (now : Time) (st : St) (s : Srv) (cl : IClient)
    (call : Call) (sc : Script) :
    Failover.safelyRunFunc c now (fun _ => outcomeOfStep (safelyRunFunc ccfg c idx now st s cl call sc).2.2) st.fo s =
      ((safelyRunFunc ccfg c idx now st s cl call sc).1.fo, absRes c (safelyRunFunc ccfg c idx now st s cl call sc).2.1,
        contactsOfStep s now (safelyRunFunc ccfg c idx now st s cl call sc).2.2) := by
  unfold safelyRunFunc Failover.safelyRunFunc
  cases hf : alookup s st.fo.failed with
  | none => exact invoke_proj_plain ccfg c idx now st s cl call sc
  | some p =>
    obtain ⟨attempts, failedTime⟩ := p
    simp only []
    by_cases h1 : attempts < c.ra
    · simp only [h1, if_true]
      by_cases h2 : now - failedTime > c.rt
      · simp only [h2, if_true]
        rw [(invoke_fst ccfg c idx now st s cl call sc true).1]
        unfold invoke
        simp only [contact_step, outcomeOfStep, contactsOfStep]
        cases hres : (PooledCall.stepTagged ccfg idx cl.sockOpen cl.pipe call sc).out.res with
        | ok r =>
          simp only [outcomeOf, if_true, contact_fo]
          cases aerase s st.fo.failed <;> simp [absRes]
        | error e =>
          have h := onError_proj c now (contact ccfg idx st s cl call sc).1 s e [(s, now, excOutcome e)]
          simp only [contact_fo] at h
          simp only [outcomeOf]
          cases ho : excOutcome e with
          | ok => simp [excOutcome] at ho; split at ho <;> cases ho
          | oserror => rw [ho] at h; simpa using h
          | othererror => rw [ho] at h; simpa using h
      · simp only [h2, if_false]; simp [absRes, contactsOfStep]
    · simp only [h1, if_false]
      cases hrm : removeServer now st.fo s with
      | none => simp [absRes, contactsOfStep]
      | some fo' => exact invoke_proj_plain ccfg c idx now { st with fo := fo' } s cl call sc

/-! ## nodes only leave the rotation during `_safely_run_func` -/

theorem removeServer_nodes {now : Time} {st st' : State} {s : Srv} (h : removeServer now st s = some st') :
    ∀ x ∈ st'.nodes, x ∈ st.nodes := by
  unfold removeServer at h
  cases ha : aerase s st.failed with
  | none => simp [ha] at h
  | some f =>
    simp only [ha] at h
    unfold removeNode at h
    by_cases hs : s ∈ st.nodes
    · simp only [hs, if_true, Option.some.injEq] at h
      subst h
      intro x hx
      exact List.mem_of_mem_erase hx
    · simp [hs] at h

theorem markFailed_nodes {c : Cfg} {now : Time} {st st' : State} {s : Srv} (h : markFailed c now st s = some st') :
    ∀ x ∈ st'.nodes, x ∈ st.nodes := by
  unfold markFailed at h
  split at h
  · cases h; exact fun x hx => hx
  · split at h
    · exact fun x hx => removeServer_nodes h x hx
    · cases hl : alookup s st.failed with
      | none => simp [hl] at h
      | some p =>
        simp only [hl, Option.some.injEq] at h
        subst h
        exact fun x hx => hx

theorem onError_nodes (c : Cfg) (now : Time) (st : St) (s : Srv) (e : Exc) :
    (∀ x ∈ (onError c now st s e).1.fo.nodes, x ∈ st.fo.nodes) ∧ (onError c now st s e).1.clients = st.clients := by
  unfold onError
  split
  · exact ⟨fun x hx => hx, rfl⟩
  · split
    · cases hm : markFailed c now st.fo s with
      | none => exact ⟨fun x hx => hx, rfl⟩
      | some fo' => cases c.ignoreExc <;> exact ⟨markFailed_nodes hm, rfl⟩
    · split <;> exact ⟨fun x hx => hx, rfl⟩

theorem invoke_nodes (ccfg : Wire.Cfg) (c : Cfg) (idx : Nat) (now : Time) (st : St) (s : Srv) (cl : IClient) (call : Call)
    (sc : Script) (clear : Bool) :
    ∀ x ∈ (invoke ccfg c idx now st s cl call sc clear).1.fo.nodes, x ∈ st.fo.nodes := by
  unfold invoke
  simp only []
  split
  · split
    · split <;> exact fun x hx => hx
    · exact fun x hx => hx
  · exact (onError_nodes c now _ s _).1

theorem safelyRunFunc_nodes (ccfg : Wire.Cfg) (c : Cfg) (idx : Nat) (now : Time) (st : St) (s : Srv) (cl : IClient)
    (call : Call) (sc : Script) :
    ∀ x ∈ (safelyRunFunc ccfg c idx now st s cl call sc).1.fo.nodes, x ∈ st.fo.nodes := by
  unfold safelyRunFunc
  split
  · split
    · split
      · exact invoke_nodes ccfg c idx now st s cl call sc true
      · exact fun x hx => hx
    · split
      · exact fun x hx => hx
      · rename_i fo' hrm
        intro x hx
        exact removeServer_nodes hrm x (invoke_nodes ccfg c idx now { st with fo := fo' } s cl call sc false x hx)
  · exact invoke_nodes ccfg c idx now st s cl call sc false

/-! ## one composed call is one abstract call -/

/-- the shape of one composed call -/
theorem callH_cases {Key : Type} (ccfg : Wire.Cfg) (c : Cfg) (route : List Srv → Key → Option Srv) (st : St) (idx : Nat)
    (now : Time) (rk : Key) (call : Call) (sc : Script) :
    (keyOk ccfg call = false ∧ callH ccfg c route st idx now rk call sc = (st, { res := .illegalKey })) ∨
    (keyOk ccfg call = true ∧
      ((∃ r, (getClient c route now st rk).2.proj = r ∧ (∀ s, r ≠ .client s) ∧
          (callH ccfg c route st idx now rk call sc).1 = (getClient c route now st rk).1 ∧
          (callH ccfg c route st idx now rk call sc).2.step = none ∧
          (callH ccfg c route st idx now rk call sc).2.res =
            (match r with | .allDown => .allDown | .noClient => .default | _ => .internalError) ∧
          (callH ccfg c route st idx now rk call sc).2.res ≠ .illegalKey) ∨
       (∃ s cl, (getClient c route now st rk).2 = .client s cl ∧
          callH ccfg c route st idx now rk call sc =
            ((safelyRunFunc ccfg c idx now (getClient c route now st rk).1 s cl call sc).1,
             { res := (safelyRunFunc ccfg c idx now (getClient c route now st rk).1 s cl call sc).2.1,
               server := some s,
               client := (safelyRunFunc ccfg c idx now (getClient c route now st rk).1 s cl call sc).2.2.map fun _ => cl.id,
               step := (safelyRunFunc ccfg c idx now (getClient c route now st rk).1 s cl call sc).2.2 })))) := by
  unfold callH
  cases hk : keyOk ccfg call
  · exact .inl ⟨rfl, rfl⟩
  · refine .inr ⟨rfl, ?_⟩
    simp only [Bool.not_true, Bool.false_eq_true, if_false]
    rcases hg : getClient c route now st rk with ⟨st1, g⟩
    cases g with
    | client s cl => exact .inr ⟨s, cl, rfl, rfl⟩
    | noClient => exact .inl ⟨_, rfl, (fun s h => by cases h), rfl, rfl, rfl, (fun h => by cases h)⟩
    | allDown => exact .inl ⟨_, rfl, (fun s h => by cases h), rfl, rfl, rfl, (fun h => by cases h)⟩
    | internalError => exact .inl ⟨_, rfl, (fun s h => by cases h), rfl, rfl, rfl, (fun h => by cases h)⟩

theorem onError_res_ne (c : Cfg) (now : Time) (st : St) (s : Srv) (e : Exc) : (onError c now st s e).2 ≠ .illegalKey := by
  unfold onError
  split
  · exact fun h => by cases h
  · split
    · split
      · exact fun h => by cases h
      · split <;> exact fun h => by cases h
    · split <;> exact fun h => by cases h

theorem invoke_res_ne (ccfg : Wire.Cfg) (c : Cfg) (idx : Nat) (now : Time) (st : St) (s : Srv) (cl : IClient) (call : Call)
    (sc : Script) (clear : Bool) : (invoke ccfg c idx now st s cl call sc clear).2.1 ≠ .illegalKey := by
  unfold invoke
  simp only []
  split
  · split
    · split <;> exact fun h => by cases h
    · exact fun h => by cases h
  · exact onError_res_ne _ _ _ _ _

theorem safelyRunFunc_res_ne (ccfg : Wire.Cfg) (c : Cfg) (idx : Nat) (now : Time) (st : St) (s : Srv) (cl : IClient)
    (call : Call) (sc : Script) : (safelyRunFunc ccfg c idx now st s cl call sc).2.1 ≠ .illegalKey := by
  unfold safelyRunFunc
  split
  · split
    · split
      · exact invoke_res_ne _ _ _ _ _ _ _ _ _ _
      · exact fun h => by cases h
    · split
      · exact fun h => by cases h
      · exact invoke_res_ne _ _ _ _ _ _ _ _ _ _
  · exact invoke_res_ne _ _ _ _ _ _ _ _ _ _

/-- the result is `illegalKey` exactly when the key check failed -/
theorem callH_illegal {Key : Type} (ccfg : Wire.Cfg) (c : Cfg) (route : List Srv → Key → Option Srv) (st : St) (idx : Nat)
    (now : Time) (rk : Key) (call : Call) (sc : Script) :
    isIllegalKey (callH ccfg c route st idx now rk call sc).2.res = !keyOk ccfg call := by
  rcases callH_cases ccfg c route st idx now rk call sc with ⟨hk, h⟩ | ⟨hk, ⟨r, -, -, -, -, -, hne⟩ | ⟨s, cl, -, h⟩⟩
  · rw [h, hk]; rfl
  · rw [hk]
    cases hr : (callH ccfg c route st idx now rk call sc).2.res <;> first | rfl | exact absurd hr hne
  · rw [hk, h]
    have := safelyRunFunc_res_ne ccfg c idx now (getClient c route now st rk).1 s cl call sc
    simp only []
    cases hr : (safelyRunFunc ccfg c idx now (getClient c route now st rk).1 s cl call sc).2.1 <;>
      first | rfl | exact absurd hr this

/-- **one composed call is one abstract call.**  A call whose key is rejected by `check_key_helper` leaves the state
alone; any other call is `Failover.stepOp` for the event `_run_cmd(rk)` at the same time in the environment where the
contacted server does what the inner `Client.call` did: same bookkeeping state afterwards, same result (in the
vocabulary of the abstract model), same contact log. -/
theorem callH_proj {Key : Type} (ccfg : Wire.Cfg) (c : Cfg) (route : List Srv → Key → Option Srv) (hlaw : RouteLaw route)
    (st : St) (idx : Nat) (now : Time) (rk : Key) (call : Call) (sc : Script) (hc : Cover st) :
    (keyOk ccfg call = false → callH ccfg c route st idx now rk call sc = (st, { res := .illegalKey })) ∧
    (keyOk ccfg call = true →
      Failover.stepOp c route st.proj
          { now := now, env := fun _ => outcomeOfObs (callH ccfg c route st idx now rk call sc).2, op := .runCmd rk } =
        ((callH ccfg c route st idx now rk call sc).1.proj, absRes c (callH ccfg c route st idx now rk call sc).2.res,
          contactsOfObs now (callH ccfg c route st idx now rk call sc).2)) := by
  obtain ⟨hg, -, -, -⟩ := getClient_proj c route hlaw now st rk hc
  rcases callH_cases ccfg c route st idx now rk call sc with ⟨hk, h⟩ | ⟨hk, ⟨r, hr, hnc, h1, h2, h3, -⟩ | ⟨s, cl, hgc, h⟩⟩
  · exact ⟨fun _ => h, (fun h' => by rw [hk] at h'; cases h')⟩
  · refine ⟨(fun h' => by rw [hk] at h'; cases h'), fun _ => ?_⟩
    simp only [Failover.stepOp, Failover.runCmd, St.proj, hg, hr, h1]
    have hcs : contactsOfObs now (callH ccfg c route st idx now rk call sc).2 = [] := by
      simp only [contactsOfObs, h2]
      split <;> simp_all
    rw [hcs, h3]
    cases r with
    | client s => exact absurd rfl (hnc s)
    | noClient => rfl
    | allDown => rfl
    | internalError => rfl
  · refine ⟨(fun h' => by rw [hk] at h'; cases h'), fun _ => ?_⟩
    have hp := safelyRunFunc_proj ccfg c idx now (getClient c route now st rk).1 s cl call sc
    simp only [Failover.stepOp, Failover.runCmd, St.proj, hg, hgc, Got.proj]
    rw [h]
    simp only [outcomeOfObs, contactsOfObs]
    generalize safelyRunFunc ccfg c idx now (getClient c route now st rk).1 s cl call sc = out at hp
    obtain ⟨st2, r, stp⟩ := out
    cases stp with
    | none => simpa [outcomeOfStep, contactsOfStep] using hp
    | some x => simpa [outcomeOfStep, contactsOfStep] using hp

/-- `Cover` is an invariant of the composed model -/
theorem cover_callH {Key : Type} (ccfg : Wire.Cfg) (c : Cfg) (route : List Srv → Key → Option Srv) (hlaw : RouteLaw route)
    (st : St) (idx : Nat) (now : Time) (rk : Key) (call : Call) (sc : Script) (hc : Cover st) :
    Cover (callH ccfg c route st idx now rk call sc).1 := by
  obtain ⟨-, -, hcov, hcl⟩ := getClient_proj c route hlaw now st rk hc
  rcases callH_cases ccfg c route st idx now rk call sc with ⟨hk, h⟩ | ⟨hk, ⟨r, hr, hnc, h1, -⟩ | ⟨s, cl, hgc, h⟩⟩
  · rw [h]; exact hc
  · rw [h1]; exact hcov
  · rw [h]
    intro x hx
    have hx' := safelyRunFunc_nodes ccfg c idx now (getClient c route now st rk).1 s cl call sc x hx
    obtain ⟨cx, hcx⟩ := hcov x hx'
    rcases safelyRunFunc_step ccfg c idx now (getClient c route now st rk).1 s cl call sc with ⟨-, h2⟩ | ⟨-, h2⟩
    · exact ⟨cx, by simp only [h2]; exact hcx⟩
    · simp only [h2, contact_clients, alookup_ainsert]
      by_cases hxs : x = s
      · simp [hxs]
      · exact ⟨cx, by simp [hxs, hcx]⟩
end HashCall
