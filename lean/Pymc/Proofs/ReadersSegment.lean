import Pymc.Proofs.ReadersFlat
/-! Helper lemmas for C03: `findSub` and `_readsegment`. -/
namespace Readers
open Bytes

theorem findSub_nil_tok (s : Bytes) : findSub [] s = some 0 := by
  cases s <;> simp [findSub]

/-- a found occurrence lies completely inside the searched string -/
theorem findSub_bound {tok s : Bytes} {p : Nat} (h : findSub tok s = some p) :
    p + tok.length ≤ s.length := by
  induction s generalizing p with
  | nil =>
    simp only [findSub] at h
    split at h
    · rename_i ht; subst ht; simp at h; simp [← h]
    · simp at h
  | cons a rest ih =>
    simp only [findSub] at h
    split at h
    · rename_i hp
      simp at h; subst h
      have := (List.isPrefixOf_iff_prefix.mp hp).length_le
      simpa using this
    · simp only [Option.map_eq_some_iff] at h
      obtain ⟨q, hq, rfl⟩ := h
      have := ih hq
      simp; omega

/-- the occurrence really is one -/
theorem findSub_prefix {tok s : Bytes} {p : Nat} (h : findSub tok s = some p) :
    tok <+: s.drop p := by
  induction s generalizing p with
  | nil =>
    simp only [findSub] at h
    split at h
    · rename_i ht; subst ht; simp
    · simp at h
  | cons a rest ih =>
    simp only [findSub] at h
    split at h
    · rename_i hp
      simp at h; subst h
      exact List.isPrefixOf_iff_prefix.mp hp
    · simp only [Option.map_eq_some_iff] at h
      obtain ⟨q, hq, rfl⟩ := h
      simpa using ih hq

/-- … and it is the first one -/
theorem findSub_first {tok s : Bytes} {p : Nat} (h : findSub tok s = some p) :
    ∀ q, q < p → ¬ tok <+: s.drop q := by
  induction s generalizing p with
  | nil =>
    simp only [findSub] at h
    split at h
    · simp at h; omega
    · simp at h
  | cons a rest ih =>
    simp only [findSub] at h
    split at h
    · simp at h; omega
    · rename_i hp
      simp only [Option.map_eq_some_iff] at h
      obtain ⟨q, hq, rfl⟩ := h
      intro k hk
      cases k with
      | zero => simpa [List.isPrefixOf_iff_prefix] using hp
      | succ k => simpa using ih hq k (by omega)

/-- no occurrence at all -/
theorem findSub_none {tok s : Bytes} (h : findSub tok s = none) :
    ∀ q, q ≤ s.length → ¬ tok <+: s.drop q := by
  induction s with
  | nil =>
    simp only [findSub] at h
    split at h
    · simp at h
    · rename_i ht; intro q _; simpa using ht
  | cons a rest ih =>
    simp only [findSub] at h
    split at h
    · simp at h
    · rename_i hp
      simp only [Option.map_eq_none_iff] at h
      intro k hk
      cases k with
      | zero => simpa [List.isPrefixOf_iff_prefix] using hp
      | succ k => simpa using ih h k (by simpa using hk)

/-- first-occurrence characterisation of `findSub` -/
theorem findSub_eq_some_iff {tok s : Bytes} {p : Nat} :
    findSub tok s = some p ↔
      p ≤ s.length ∧ tok <+: s.drop p ∧ ∀ q, q < p → ¬ tok <+: s.drop q := by
  constructor
  · intro h
    exact ⟨by have := findSub_bound h; omega, findSub_prefix h, findSub_first h⟩
  · intro ⟨hl, hp, hf⟩
    cases e : findSub tok s with
    | none => exact absurd hp (findSub_none e p hl)
    | some p' =>
      have h1 := findSub_prefix e
      have h2 := findSub_first e
      have : p' = p := by
        rcases Nat.lt_trichotomy p' p with hlt | heq | hgt
        · exact absurd h1 (hf p' hlt)
        · exact heq
        · exact absurd hp (h2 p hgt)
      rw [this]

theorem findSub_eq_none_iff {tok s : Bytes} :
    findSub tok s = none ↔ ¬ tok <:+: s := by
  constructor
  · intro h ⟨pre, post, hs⟩
    have := findSub_none h pre.length (by rw [← hs]; simp)
    apply this
    rw [← hs]; simp
  · intro h
    cases e : findSub tok s with
    | none => rfl
    | some p =>
      exfalso; apply h
      obtain ⟨post, hpost⟩ := findSub_prefix e
      exact ⟨s.take p, post, by rw [List.append_assoc, hpost, List.take_append_drop]⟩

/-- appending after a found occurrence does not move it -/
theorem findSub_append_of_some {tok s : Bytes} {p : Nat} (h : findSub tok s = some p) (t : Bytes) :
    findSub tok (s ++ t) = some p := by
  induction s generalizing p with
  | nil =>
    simp only [findSub] at h
    split at h
    · rename_i ht; subst ht; simp at h; subst h; simp [findSub_nil_tok]
    · simp at h
  | cons a rest ih =>
    simp only [findSub] at h
    split at h
    · rename_i hp
      simp at h; subst h
      have : tok.isPrefixOf (a :: (rest ++ t)) = true := by
        rw [List.isPrefixOf_iff_prefix] at hp ⊢
        exact hp.trans (List.prefix_append (a :: rest) t)
      simp [findSub, this]
    · rename_i hp
      simp only [Option.map_eq_some_iff] at h
      obtain ⟨q, hq, rfl⟩ := h
      have hb := findSub_bound hq
      have : ¬ tok.isPrefixOf (a :: (rest ++ t)) = true := by
        intro hc; apply hp
        rw [List.isPrefixOf_iff_prefix] at hc ⊢
        exact List.prefix_of_prefix_length_le hc (List.prefix_append (a :: rest) t)
          (by simp; omega)
      simp [findSub, this, ih hq]

/-- `buf.find(b"\\r\\n")` is the general substring search with the token CR LF -/
theorem findCRLF_eq_findSub (s : Bytes) : findCRLF s = findSub CRLF s := by
  induction s with
  | nil => simp [findCRLF, findSub, CRLF]
  | cons a t ih =>
    cases t with
    | nil => simp [findCRLF, findSub, CRLF]
    | cons b r =>
      rw [findCRLF, findSub, ← ih]
      have : (13 = a ∧ 10 = b) ↔ (a = 13 ∧ b = 10) :=
        ⟨fun h => ⟨h.1.symm, h.2.symm⟩, fun h => ⟨h.1.symm, h.2.symm⟩⟩
      by_cases h : a = 13 ∧ b = 10 <;> simp [CRLF, CR, LF, this, h]

/-! ## `_readsegment` -/

theorem readsegment_flat (tok buf : Bytes) (evs : List Ev) (hc : clean evs) :
    FlatRes (splitSegment tok (buf ++ joinData evs)) (readsegment tok buf evs) := by
  fun_induction readsegment tok buf evs with
  | case1 buf evs p hp =>
    have hb := findSub_bound hp
    simp only [splitSegment, findSub_append_of_some hp, Option.map_some]
    rw [FlatRes_some]
    refine ⟨buf.drop (p + tok.length), evs, ?_, ?_, hc⟩
    · rw [List.take_append_of_le_length (by omega)]
    · have := drop_append3 [] buf (joinData evs) (p + tok.length) (p + tok.length) (by simp) hb
      simpa using this.symm
  | case2 buf hn =>
    simp only [splitSegment, joinData, List.append_nil, hn, Option.map_none]
    rw [FlatRes_none]
  | case3 buf hn r => simp [clean] at hc
  | case4 buf hn b r hb ih =>
    simpa [joinData, List.append_assoc] using ih hc.2
  | case5 buf hn r ih =>
    simpa [joinData] using ih hc
  | case6 buf hn c r => simp [clean] at hc

end Readers
