import Pymc.Proofs.RefineMap
/-! C04: store then fetch. -/
namespace Client
open Bytes Wire Exchange Readers AbsMap ApiSpec

theorem store_then_fetch (cfg : Cfg) (s s' : St) (verb : SVerb) (k : Key.K) (v : Val) (d : Bytes)
    (flags : Option Int) (cas : Option CasArg) (b : Bool)
    (hverb : verb ≠ .append ∧ verb ≠ .prepend) (hk : KeyOK cfg k) (hf : FlagsOK flags)
    (hv : encodeVal cfg.utf8 v = .ok d)
    (hset : onServer cfg s (.store verb k v (.int 0) (some false) flags cas) = (s', .ok (.bool true), b)) :
    onServer cfg s' (.get k) = (s', .ok (.bytes d), true) ∧
    onServer cfg s' (.gets k) = (s', .ok (.pair d (natDec ((settle s).casCtr + 1))), true) := by
  rw [refines_store cfg s verb k v (.int 0) (some false) flags cas hk hf] at hset
  have hspec : spec cfg s (.store verb k v (.int 0) (some false) flags cas) = (s', .ok (.bool true)) := by
    simp only [Prod.mk.injEq] at hset
    exact Prod.ext hset.1 hset.2.1
  obtain ⟨w, d', cv, hck, hval, happ⟩ := spec_store_true cfg s s' verb k v 0 flags cas hspec
  rw [hv] at hval; cases hval
  have hs' : s' = store (settle s) w (flagsOf flags).toNat 0 d := by
    have := applyLoud_stored s verb w (flagsOf flags).toNat 0 d cv false hverb (by rw [happ])
    rw [happ] at this; exact this
  have hsettled : settle s' = s' := by
    rw [hs']; exact settle_of_settled (settled_store (settled_settle s) _ _ _ _)
  have hlive : live (settle s') w = some ⟨(flagsOf flags).toNat, 0, d, (settle s).casCtr + 1⟩ := by
    rw [hsettled, hs']; exact live_store_self ..
  constructor
  · rw [refines_get cfg s' k hk, spec_get cfg s' k w hck, hlive, hsettled]
  · rw [refines_gets cfg s' k hk, spec_gets cfg s' k w hck, hlive, hsettled]

/-- the state after a successful replacing store -/
theorem store_true_state (cfg : Cfg) (s s' : St) (verb : SVerb) (k : Key.K) (v : Val) (d : Bytes)
    (flags : Option Int) (cas : Option CasArg) (b : Bool)
    (hverb : verb ≠ .append ∧ verb ≠ .prepend) (hk : KeyOK cfg k) (hf : FlagsOK flags)
    (hv : encodeVal cfg.utf8 v = .ok d)
    (hset : onServer cfg s (.store verb k v (.int 0) (some false) flags cas) = (s', .ok (.bool true), b)) :
    ∃ w, checkKey cfg k = .ok w ∧ s' = store (settle s) w (flagsOf flags).toNat 0 d := by
  rw [refines_store cfg s verb k v (.int 0) (some false) flags cas hk hf] at hset
  have hspec : spec cfg s (.store verb k v (.int 0) (some false) flags cas) = (s', .ok (.bool true)) := by
    simp only [Prod.mk.injEq] at hset
    exact Prod.ext hset.1 hset.2.1
  obtain ⟨w, d', cv, hck, hval, happ⟩ := spec_store_true cfg s s' verb k v 0 flags cas hspec
  rw [hv] at hval; cases hval
  refine ⟨w, hck, ?_⟩
  have := applyLoud_stored s verb w (flagsOf flags).toNat 0 d cv false hverb (by rw [happ])
  rw [happ] at this; exact this

/-- an item stored with expiry 0 is still there after any time, unless a delayed flush becomes due -/
theorem store_then_fetch_over_time (cfg : Cfg) (s s' : St) (verb : SVerb) (k : Key.K) (v : Val) (d : Bytes)
    (flags : Option Int) (cas : Option CasArg) (b : Bool) (dt : Nat)
    (hverb : verb ≠ .append ∧ verb ≠ .prepend) (hk : KeyOK cfg k) (hf : FlagsOK flags)
    (hv : encodeVal cfg.utf8 v = .ok d)
    (hset : onServer cfg s (.store verb k v (.int 0) (some false) flags cas) = (s', .ok (.bool true), b))
    (hfl : ∀ t, s'.flushAt = some t → s'.now + dt < t) :
    onServer cfg (advance s' dt) (.get k) = (advance s' dt, .ok (.bytes d), true) ∧
    onServer cfg (advance s' dt) (.gets k) =
      (advance s' dt, .ok (.pair d (natDec ((settle s).casCtr + 1))), true) := by
  obtain ⟨w, hck, hs'⟩ := store_true_state cfg s s' verb k v d flags cas b hverb hk hf hv hset
  have hsettled : settle (advance s' dt) = advance s' dt := settle_of_settled hfl
  have hlive : live (settle (advance s' dt)) w = some ⟨(flagsOf flags).toNat, 0, d, (settle s).casCtr + 1⟩ := by
    rw [hsettled, hs']
    simp [live, advance, store, lookup_put_self, absExp, expired]
  constructor
  · rw [refines_get cfg _ k hk, spec_get cfg _ k w hck, hlive, hsettled]
  · rw [refines_gets cfg _ k hk, spec_gets cfg _ k w hck, hlive, hsettled]

/-- `gets` hands out the item's cas value; a `cas` with that token (and nothing in between) stores -/
theorem gets_then_cas (cfg : Cfg) (s s1 : St) (k : Key.K) (v tok : Bytes) (b : Bool)
    (v' : Val) (d : Bytes) (e : Int) (flags : Option Int) (noreply : Option Bool)
    (hk : KeyOK cfg k) (hf : FlagsOK flags) (hv : encodeVal cfg.utf8 v' = .ok d)
    (hg : onServer cfg s (.gets k) = (s1, .ok (.pair v tok), b)) :
    ∃ w, checkKey cfg k = .ok w ∧
      onServer cfg s1 (.store .cas k v' (.int e) noreply flags (some (.bytes tok))) =
        (store s1 w (flagsOf flags).toNat e d, .ok (.bool true), true) := by
  rw [refines_gets cfg s k hk] at hg
  cases hck : checkKey cfg k with
  | error err =>
    exfalso
    have hm : [k].mapM (checkKey cfg) = .error err := by
      simp [List.mapM_cons, hck, bind, Except.bind]
    simp [spec, fetchSpec, hm] at hg
  | ok w =>
    refine ⟨w, rfl, ?_⟩
    rw [spec_gets cfg s k w hck] at hg
    simp only [Prod.mk.injEq] at hg
    obtain ⟨hs1, hres, _⟩ := hg
    cases hl : live (settle s) w with
    | none => simp [hl] at hres
    | some it =>
      simp only [hl, Except.ok.injEq, Res.pair.injEq] at hres
      obtain ⟨rfl, rfl⟩ := hres
      subst hs1
      rw [refines_store cfg (settle s) .cas k v' (.int e) noreply flags (some (.bytes (natDec it.cas))) hk hf]
      have hcas : checkCas (.bytes (natDec it.cas)) = .ok (natDec it.cas) := by
        simp [checkCas, natDec_ne_nil, natDec_all_isDigit]
      have happ : ∀ nr, applyLoud (settle s) (.store .cas w (flagsOf flags).toNat e d (some it.cas) nr) =
          (store (settle s) w (flagsOf flags).toNat e d, .stored) := by
        intro nr; simp [applyLoud, settle_settle, hl]
      simp only [spec, hck, hv, checkInteger, hcas, Except.map, parseNat_natDec, if_true]
      cases hn : noreply.getD false with
      | true =>
        simp only [apply_quiet _ _ (show reqNoreply (.store .cas w _ e d (some it.cas) true) = true from rfl),
          happ, if_true]
      | false =>
        simp only [apply_loud _ _ (show reqNoreply (.store .cas w _ e d (some it.cas) false) = false from rfl),
          happ, storeOutcome, Bool.false_eq_true, if_false]
end Client
