import Pymc.Model.Wire
import Pymc.Proofs.WireLit
/-! Helper lemmas for C02: tokenisation (`splitSp`), line splitting (`findCRLF`), `takeBlock`,
`splitNoreply`, `parseAll`. -/
namespace Wire
open Bytes Readers

/-! ## `splitSp` -/
theorem splitSp_ne_nil (b : Bytes) : splitSp b ≠ [] := by
  induction b with
  | nil => simp [splitSp]
  | cons x r ih =>
    simp only [splitSp]
    split
    · simp
    · split
      · simp
      · simp

theorem splitSp_cons_ne {x : UInt8} (hx : x ≠ SP) (r : Bytes) :
    ∃ t ts, splitSp r = t :: ts ∧ splitSp (x :: r) = (x :: t) :: ts := by
  cases h : splitSp r with
  | nil => exact absurd h (splitSp_ne_nil r)
  | cons t ts => exact ⟨t, ts, rfl, by simp [splitSp, hx, h]⟩

/-- a space-free token with nothing after it -/
theorem splitSp_token (t : Bytes) (ht : ∀ b ∈ t, b ≠ SP) : splitSp t = [t] := by
  induction t with
  | nil => rfl
  | cons x r ih =>
    have hx : x ≠ SP := ht x (by simp)
    have := ih (fun b hb => ht b (by simp [hb]))
    simp [splitSp, hx, this]

/-- a space-free token followed by a space: the token is split off -/
theorem splitSp_token_sp (t r : Bytes) (ht : ∀ b ∈ t, b ≠ SP) :
    splitSp (t ++ SP :: r) = t :: splitSp r := by
  induction t with
  | nil => simp [splitSp]
  | cons x t ih =>
    have hx : x ≠ SP := ht x (by simp)
    have := ih (fun b hb => ht b (by simp [hb]))
    simp [splitSp, hx, this]

/-- tokens joined by single spaces (`b" ".join(toks)`) -/
def joinSp : List Bytes → Bytes
  | [] => []
  | [t] => t
  | t :: t' :: ts => t ++ SP :: joinSp (t' :: ts)

theorem joinSp_cons (t : Bytes) {ts : List Bytes} (h : ts ≠ []) :
    joinSp (t :: ts) = t ++ SP :: joinSp ts := by
  cases ts with
  | nil => exact absurd rfl h
  | cons t' ts => rfl

theorem joinSp_eq_intercalate (toks : List Bytes) : joinSp toks = ([SP] : Bytes).intercalate toks := by
  induction toks with
  | nil => rfl
  | cons t ts ih =>
    cases ts with
    | nil => simp [joinSp, List.intercalate]
    | cons t' ts =>
      rw [joinSp, ih]
      simp [List.intercalate, List.intersperse]

/-- **tokenisation round trip** (empty tokens allowed) -/
theorem splitSp_joinSp (toks : List Bytes) (hne : toks ≠ []) (h : ∀ t ∈ toks, ∀ b ∈ t, b ≠ SP) :
    splitSp (joinSp toks) = toks := by
  induction toks with
  | nil => exact absurd rfl hne
  | cons t ts ih =>
    cases ts with
    | nil => simpa [joinSp] using splitSp_token t (h t (by simp))
    | cons t' ts =>
      rw [joinSp, splitSp_token_sp _ _ (h t (by simp)), ih (by simp) (fun u hu => h u (by simp [hu]))]

theorem joinSp_append_singleton (toks : List Bytes) (hne : toks ≠ []) (t : Bytes) :
    joinSp (toks ++ [t]) = joinSp toks ++ SP :: t := by
  induction toks with
  | nil => exact absurd rfl hne
  | cons a ts ih =>
    cases ts with
    | nil => simp [joinSp]
    | cons t' ts =>
      have := ih (by simp)
      simp only [List.cons_append] at this ⊢
      rw [joinSp, this, joinSp]
      simp

theorem joinSp_mem (toks : List Bytes) (b : UInt8) (hb : b ∈ joinSp toks) :
    b = SP ∨ ∃ t ∈ toks, b ∈ t := by
  induction toks with
  | nil => simp [joinSp] at hb
  | cons t ts ih =>
    cases ts with
    | nil => exact .inr ⟨t, by simp, by simpa [joinSp] using hb⟩
    | cons t' ts =>
      rw [joinSp] at hb
      rcases List.mem_append.1 hb with hb | hb
      · exact .inr ⟨t, by simp, hb⟩
      · rcases List.mem_cons.1 hb with rfl | hb
        · exact .inl rfl
        · rcases ih hb with h | ⟨u, hu, hbu⟩
          · exact .inl h
          · exact .inr ⟨u, by simp [hu], hbu⟩

/-! ## `findCRLF` -/
theorem findCRLF_line (line rest : Bytes) (h : ∀ b ∈ line, b ≠ CR) :
    findCRLF (line ++ CRLF ++ rest) = some line.length := by
  induction line with
  | nil => simp [CRLF, findCRLF, CR, LF]
  | cons x l ih =>
    have hx : x ≠ CR := h x (by simp)
    have := ih (fun b hb => h b (by simp [hb]))
    cases l with
    | nil =>
      simp only [List.nil_append, List.cons_append, CRLF] at this ⊢
      simp [findCRLF, CR, LF]
    | cons y l =>
      simp only [List.cons_append, List.append_assoc, List.length_cons] at this ⊢
      simp [findCRLF, hx, this]

/-! ## `takeBlock` -/
theorem takeBlock_data (data rest : Bytes) :
    takeBlock data.length (data ++ CRLF ++ rest) = some (data, rest) := by
  simp [takeBlock, CRLF]

/-! ## `splitNoreply` -/
/-- the tokens that render the `noreply` flag -/
def nrToks (nr : Bool) : List Bytes := if nr then [ofString "noreply"] else []

theorem splitNoreply_snoc (ts : List Bytes) : splitNoreply (ts ++ [ofString "noreply"]) = (ts, true) := by
  simp [splitNoreply]

theorem splitNoreply_of_ne (ts : List Bytes) (h : ts.getLast? ≠ some (ofString "noreply")) :
    splitNoreply ts = (ts, false) := by
  rw [splitNoreply, if_neg h]

/-- If the last real argument is not the literal `noreply`, the marker is recovered exactly. -/
theorem splitNoreply_nrToks (ts : List Bytes) (nr : Bool)
    (h : ts.getLast? ≠ some (ofString "noreply")) : splitNoreply (ts ++ nrToks nr) = (ts, nr) := by
  cases nr with
  | true => exact splitNoreply_snoc ts
  | false => simpa [nrToks] using splitNoreply_of_ne ts h

theorem joinSp_nrToks (toks : List Bytes) (hne : toks ≠ []) (nr : Bool) :
    joinSp (toks ++ nrToks nr) = joinSp toks ++ noreplySfx nr := by
  cases nr with
  | true =>
    simp only [nrToks, noreplySfx, if_true]
    rw [joinSp_append_singleton _ hne]
    simp [SP]
  | false => simp [nrToks, noreplySfx]

/-! ## `parseReq` on a well-tokenised line -/
/-- a token that contains neither SP nor CR -/
def TokOK (t : Bytes) : Prop := ∀ b ∈ t, b ≠ SP ∧ b ≠ CR

theorem TokOK_nrToks (nr : Bool) : ∀ t ∈ nrToks nr, TokOK t := by
  cases nr with
  | true =>
    intro t ht
    simp [nrToks] at ht
    subst ht
    intro b hb
    simp at hb
    rcases hb with rfl | rfl | rfl | rfl | rfl | rfl | rfl <;> decide
  | false => simp [nrToks]

theorem parseReq_joinSp (toks : List Bytes) (hne : toks ≠ []) (h : ∀ t ∈ toks, TokOK t) (rest : Bytes) :
    parseReq (joinSp toks ++ CRLF ++ rest) = parseLine toks rest := by
  have hcr : ∀ b ∈ joinSp toks, b ≠ CR := by
    intro b hb
    rcases joinSp_mem toks b hb with rfl | ⟨t, ht, hbt⟩
    · decide
    · exact (h t ht b hbt).2
  unfold parseReq
  rw [findCRLF_line _ _ hcr]
  simp only [List.append_assoc]
  rw [List.take_left' rfl]
  have : (joinSp toks ++ (CRLF ++ rest)).drop ((joinSp toks).length + 2) = rest := by
    rw [List.drop_append]; simp [CRLF]
  rw [this, splitSp_joinSp toks hne (fun t ht b hb => (h t ht b hb).1)]

/-! ## `parseAll` on a concatenation of self-delimiting commands -/
/-- `c` parses as exactly `r`, whatever follows -/
def ParsesAs (c : Bytes) (r : Req) : Prop := c ≠ [] ∧ ∀ rest, parseReq (c ++ rest) = some (r, rest)

theorem parseAll_nil (fuel : Nat) : parseAll fuel [] = some [] := by
  cases fuel <;> simp [parseAll]

theorem parseAll_flatten (cmds : List Bytes) (reqs : List Req)
    (hlen : cmds.length = reqs.length)
    (h : ∀ i (h1 : i < cmds.length) (h2 : i < reqs.length), ParsesAs cmds[i] reqs[i])
    (fuel : Nat) (hf : cmds.length ≤ fuel) : parseAll fuel cmds.flatten = some reqs := by
  induction cmds generalizing reqs fuel with
  | nil =>
    cases reqs with
    | nil => simp [parseAll_nil]
    | cons _ _ => simp at hlen
  | cons c cs ih =>
    cases reqs with
    | nil => simp at hlen
    | cons r rs =>
      cases fuel with
      | zero => simp at hf
      | succ fuel =>
        have h0 := h 0 (by simp) (by simp)
        simp only [List.getElem_cons_zero] at h0
        have hne : c ++ cs.flatten ≠ [] := by simp [h0.1]
        simp only [List.flatten_cons, parseAll, hne, if_false, h0.2]
        rw [ih rs (by simpa using hlen) ?_ fuel (by simpa using hf)]
        · rfl
        · intro i h1 h2
          have := h (i + 1) (by simp; omega) (by simp; omega)
          simpa using this

theorem flatten_length_ge (cmds : List Bytes) (h : ∀ c ∈ cmds, c ≠ []) :
    cmds.length ≤ cmds.flatten.length := by
  induction cmds with
  | nil => simp
  | cons c cs ih =>
    have := ih (fun c hc => h c (by simp [hc]))
    have hc : c ≠ [] := h c (by simp)
    have : 0 < c.length := List.length_pos_iff.2 hc
    simp only [List.flatten_cons, List.length_append, List.length_cons]; omega
end Wire
