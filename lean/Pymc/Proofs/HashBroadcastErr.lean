import Pymc.Proofs.HashBroadcastBook
/-!
# Broadcasts of `HashClient ∘ Client`: exactly when the bookkeeping raises `ValueError`; agreement with the key-addressed model

* `safelyRunFuncX_valueError_iff`: one `_safely_run_func` of a broadcast ends in the `ValueError("No such node …")` of
  `hasher.remove_node` in exactly three situations (from any state);
* `safelyRunFuncX_agrees`: for `flush_all` / `quit` — the operations that are a `Client.call` — the statement-by-statement
  transliteration does what the key-addressed model `safelyRunFunc` does, whenever that does not answer `internalError`.
-/
namespace HashCall
open Exchange Client Framing Failover

/-- `func()` does not look at the bookkeeping -/
theorem bfunc_with_fo (ccfg : Wire.Cfg) (idx : Nat) (st : St) (s : Srv) (cl : IClient) (op : BOp) (sc : Script)
    (fo' : State) :
    bfunc ccfg idx { st with fo := fo' } s cl op sc =
      ({ (bfunc ccfg idx st s cl op sc).1 with fo := fo' }, (bfunc ccfg idx st s cl op sc).2) := by
  rcases bfunc_cases ccfg idx st s cl op sc with ⟨call, hc, h⟩ | ⟨hc, h⟩
  · rw [h]; simp only [bfunc, hc]; rfl
  · rw [h]; simp only [bfunc, hc]

/-! ## `ValueError` -/

theorem markFailedX_valueError_iff (c : Cfg) (now : Time) (fo : State) (s : Srv) :
    (markFailedX c now fo s).2 = some .valueError ↔ amem s fo.failed = false ∧ c.ra = 0 ∧ s ∉ fo.nodes := by
  unfold markFailedX
  cases hm : amem s fo.failed
  · by_cases h0 : c.ra > 0
    · have : c.ra ≠ 0 := by omega
      simp [h0, this]
    · have hz : c.ra = 0 := by omega
      have hle : c.ra ≤ 0 := by omega
      simp only [Bool.not_false, Bool.true_and, decide_eq_true_eq, h0, if_false, hle, if_true]
      rw [removeServerX_valueError_iff]
      simp [amem, alookup_ainsert_self, hz]
  · obtain ⟨v, hv⟩ := (amem_eq_true_iff s fo.failed).1 hm
    obtain ⟨a, t⟩ := v
    simp [hv]

theorem onErrorX_valueError_iff (c : Cfg) (now : Time) (st : St) (s : Srv) (e : Exc) :
    (onErrorX c now st s e).2 = .bookkeeping .valueError ↔
      isOSError e = true ∧ (markFailedX c now st.fo s).2 = some .valueError := by
  unfold onErrorX
  by_cases hb : isBaseExc e = true
  · have := isOSError_of_base hb
    simp [hb, this]
  · simp only [hb]
    cases ho : isOSError e
    · cases hi : c.ignoreExc <;> simp [onOther, hi]
    · simp only [if_true, true_and]
      generalize markFailedX c now st.fo s = m
      obtain ⟨fo', _ | k⟩ := m
      · cases hi : c.ignoreExc <;> simp
      · simp only []
        constructor
        · intro h; cases h; rfl
        · intro h; cases h; rfl

/-- `func()` raised an `OSError` -/
def FuncOSError (ccfg : Wire.Cfg) (idx : Nat) (st : St) (s : Srv) (cl : IClient) (op : BOp) (sc : Script) : Prop :=
  ∃ e, (bfunc ccfg idx st s cl op sc).2.1 = .error e ∧ isOSError e = true

theorem invokeX_valueError_iff (ccfg : Wire.Cfg) (c : Cfg) (idx : Nat) (now : Time) (st : St) (s : Srv) (cl : IClient)
    (op : BOp) (sc : Script) (clear : Bool) :
    (invokeX ccfg c idx now st s cl op sc clear).2.1 = .bookkeeping .valueError ↔
      FuncOSError ccfg idx st s cl op sc ∧ (markFailedX c now st.fo s).2 = some .valueError := by
  have hfo := bfunc_fo ccfg idx st s cl op sc
  unfold invokeX FuncOSError
  generalize bfunc ccfg idx st s cl op sc = b at hfo ⊢
  obtain ⟨st1, e | r, stp⟩ := b
  · simp only [] at hfo ⊢
    rw [onErrorX_valueError_iff, hfo]
    constructor
    · rintro ⟨h1, h2⟩; exact ⟨⟨e, rfl, h1⟩, h2⟩
    · rintro ⟨⟨e', h0, h1⟩, h2⟩; cases h0; exact ⟨h1, h2⟩
  · simp only [] at hfo ⊢
    constructor
    · intro h
      exfalso
      cases clear
      · simp only [Bool.false_eq_true, if_false] at h; cases h
      · simp only [if_true] at h
        cases ha : aerase s st1.fo.failed with
        | none =>
          rw [ha] at h
          simp only [onOther] at h
          split at h <;> cases h
        | some f => rw [ha] at h; cases h
    · rintro ⟨⟨e', h0, -⟩, -⟩; cases h0

/-- the state after a `remove_server(s)` that succeeds -/
theorem removeServerX_ok {now : Time} {fo : State} {s : Srv} (hm : amem s fo.failed = true) (hn : s ∈ fo.nodes) :
    removeServerX now fo s =
      ({ fo with nodes := fo.nodes.erase s, failed := fo.failed.filter (fun p => p.1 != s), dead := ainsert s now fo.dead },
        none) := by
  simp [removeServerX, aerase, hm, removeNode, hn]

/-- the state after a `remove_server(s)` that raises `ValueError`: the failure record is popped, the dead time is set -/
theorem removeServerX_bad {now : Time} {fo : State} {s : Srv} (hm : amem s fo.failed = true) (hn : s ∉ fo.nodes) :
    removeServerX now fo s =
      ({ fo with failed := fo.failed.filter (fun p => p.1 != s), dead := ainsert s now fo.dead }, some .valueError) := by
  simp [removeServerX, aerase, hm, removeNode, hn]

/-- **exactly when the bookkeeping of a broadcast raises `ValueError`** (`hasher.remove_node` of a node that is not in
rotation), from any state: for the client of server `s`,
1. `s` has no failure record, `retry_attempts = 0`, `s` is out of rotation and the function raises an `OSError`: the
   `except OSError` handler calls `_mark_failed_server` → `remove_server`; the `ValueError` leaves the handler whatever
   `ignore_exc` says;
2. `s` has a failure record with its attempts used up and is out of rotation, and `ignore_exc` is off: the
   `remove_server` inside the `try` raises, `except Exception` re-raises (with `ignore_exc` on it returns `False`);
3. `s` has a failure record with its attempts used up, is in rotation (once), `retry_attempts = 0`, and the function
   raises an `OSError`: the `remove_server` inside the `try` takes `s` out, the handler's `remove_server` no longer
   finds it (from `init` no state with a failure record under `retry_attempts = 0` is reachable). -/
theorem safelyRunFuncX_valueError_iff (ccfg : Wire.Cfg) (c : Cfg) (idx : Nat) (now : Time) (st : St) (s : Srv) (cl : IClient)
    (op : BOp) (sc : Script) :
    (safelyRunFuncX ccfg c idx now st s cl op sc).2.1 = .bookkeeping .valueError ↔
      (alookup s st.fo.failed = none ∧ c.ra = 0 ∧ s ∉ st.fo.nodes ∧ FuncOSError ccfg idx st s cl op sc) ∨
      (∃ a t, alookup s st.fo.failed = some (a, t) ∧ ¬ a < c.ra ∧ s ∉ st.fo.nodes ∧ c.ignoreExc = false) ∨
      (∃ a t, alookup s st.fo.failed = some (a, t) ∧ ¬ a < c.ra ∧ s ∈ st.fo.nodes ∧ c.ra = 0 ∧
        s ∉ st.fo.nodes.erase s ∧ FuncOSError ccfg idx st s cl op sc) := by
  unfold safelyRunFuncX
  cases hl : alookup s st.fo.failed with
  | none =>
    simp only []
    rw [invokeX_valueError_iff, markFailedX_valueError_iff]
    have hm : amem s st.fo.failed = false := (amem_eq_false_iff s _).2 hl
    constructor
    · rintro ⟨h1, -, h2, h3⟩; exact .inl ⟨by first | rfl | trivial, h2, h3, h1⟩
    · rintro (⟨-, h2, h3, h1⟩ | ⟨a, t, h, -⟩ | ⟨a, t, h, -⟩)
      · exact ⟨h1, hm, h2, h3⟩
      · cases h
      · cases h
  | some p =>
    obtain ⟨a, t⟩ := p
    have hm : amem s st.fo.failed = true := (amem_eq_true_iff s _).2 ⟨_, hl⟩
    simp only []
    by_cases ha : a < c.ra
    · simp only [ha, if_true]
      have hfalse : ¬ ((False ∧ c.ra = 0 ∧ s ∉ st.fo.nodes ∧ FuncOSError ccfg idx st s cl op sc) ∨
          (∃ a' t', (a, t) = (a', t') ∧ ¬ a' < c.ra ∧ s ∉ st.fo.nodes ∧ c.ignoreExc = false) ∨
          (∃ a' t', (a, t) = (a', t') ∧ ¬ a' < c.ra ∧ s ∈ st.fo.nodes ∧ c.ra = 0 ∧
            s ∉ st.fo.nodes.erase s ∧ FuncOSError ccfg idx st s cl op sc)) := by
        rintro (⟨h, -⟩ | ⟨a', t', h, h', -⟩ | ⟨a', t', h, h', -⟩)
        · exact h
        · cases h; exact h' ha
        · cases h; exact h' ha
      simp only [reduceCtorEq, Option.some.injEq, Prod.mk.injEq, false_and] at hfalse ⊢
      split
      · rw [invokeX_valueError_iff, markFailedX_valueError_iff, hm]
        simp only [Bool.true_eq_false, false_and, and_false, false_iff]
        simpa using hfalse
      · simp only [reduceCtorEq, false_iff]
        simpa using hfalse
    · simp only [ha, if_false]
      by_cases hn : s ∈ st.fo.nodes
      · rw [removeServerX_ok hm hn]
        simp only []
        rw [invokeX_valueError_iff, markFailedX_valueError_iff]
        have hb := bfunc_with_fo ccfg idx st s cl op sc
          { st.fo with nodes := st.fo.nodes.erase s, failed := st.fo.failed.filter (fun p => p.1 != s),
                       dead := ainsert s now st.fo.dead }
        have hF : FuncOSError ccfg idx
            { st with fo := { st.fo with nodes := st.fo.nodes.erase s, failed := st.fo.failed.filter (fun p => p.1 != s),
                                         dead := ainsert s now st.fo.dead } } s cl op sc ↔
            FuncOSError ccfg idx st s cl op sc := by
          unfold FuncOSError; rw [hb]
        rw [hF]
        have hamem : amem s (st.fo.failed.filter (fun p => p.1 != s)) = false := by
          simp [amem, alookup_filter_self]
        simp only [hamem, true_and]
        constructor
        · rintro ⟨h1, h2, h3⟩
          exact .inr (.inr ⟨a, t, by first | rfl | trivial, ha, hn, h2, h3, h1⟩)
        · rintro (⟨h, -⟩ | ⟨a', t', -, -, h, -⟩ | ⟨a', t', -, -, -, h2, h3, h1⟩)
          · cases h
          · exact (h hn).elim
          · exact ⟨h1, h2, h3⟩
      · rw [removeServerX_bad hm hn]
        simp only [onOther]
        cases hi : c.ignoreExc
        · simp only [Bool.false_eq_true, if_false, true_iff]
          exact .inr (.inl ⟨a, t, by first | rfl | trivial, ha, hn, by first | rfl | trivial⟩)
        · simp only [if_true, reduceCtorEq, false_iff]
          rintro (⟨h, -⟩ | ⟨a', t', -, -, -, h⟩ | ⟨a', t', -, -, h, -⟩)
          · cases h
          · cases h
          · exact hn h

/-! ## agreement with the key-addressed model -/

/-- a result of the key-addressed `_safely_run_func` model in the vocabulary of the broadcast model -/
def toBOut : HRes → BOut
  | .value r => .value r
  | .default => .default
  | .raised _ e => .raised e
  | _ => .default

theorem onErrorX_agrees (c : Cfg) (now : Time) (st : St) (s : Srv) (e : Exc)
    (h : (onError c now st s e).2 ≠ .internalError) :
    onErrorX c now st s e = ((onError c now st s e).1, toBOut (onError c now st s e).2) := by
  unfold onError at h ⊢
  unfold onErrorX
  by_cases hb : isBaseExc e = true
  · simp only [hb, if_true, toBOut]
  · simp only [hb] at h ⊢
    by_cases ho : isOSError e = true
    · simp only [ho, if_true] at h ⊢
      cases hm : markFailed c now st.fo s with
      | none => simp [hm] at h
      | some fo' =>
        rw [markFailedX_of_some hm]
        simp only []
        cases c.ignoreExc <;> simp [toBOut]
    · simp only [ho, onOther] at h ⊢
      cases c.ignoreExc <;> simp [toBOut]

theorem invokeX_agrees (ccfg : Wire.Cfg) (c : Cfg) (idx : Nat) (now : Time) (st : St) (s : Srv) (cl : IClient) (op : BOp)
    (call : Call) (sc : Script) (clear : Bool) (hc : op.call? = some call)
    (h : (invoke ccfg c idx now st s cl call sc clear).2.1 ≠ .internalError) :
    invokeX ccfg c idx now st s cl op sc clear =
      ((invoke ccfg c idx now st s cl call sc clear).1, toBOut (invoke ccfg c idx now st s cl call sc clear).2.1,
        (invoke ccfg c idx now st s cl call sc clear).2.2, true) := by
  have hb : bfunc ccfg idx st s cl op sc =
      ((contact ccfg idx st s cl call sc).1, (PooledCall.stepTagged ccfg idx cl.sockOpen cl.pipe call sc).out.res,
        some (PooledCall.stepTagged ccfg idx cl.sockOpen cl.pipe call sc)) := by
    rcases bfunc_cases ccfg idx st s cl op sc with ⟨call', hc', h'⟩ | ⟨hc', -⟩
    · rw [hc] at hc'; cases hc'; exact h'
    · rw [hc] at hc'; cases hc'
  unfold invokeX
  rw [hb]
  unfold invoke at h ⊢
  simp only [contact_step, contact_fo] at h ⊢
  cases hres : (PooledCall.stepTagged ccfg idx cl.sockOpen cl.pipe call sc).out.res with
  | ok r =>
    simp only [hres] at h ⊢
    cases clear
    · simp [toBOut]
    · simp only [if_true] at h ⊢
      cases ha : aerase s st.fo.failed with
      | none => simp [ha] at h
      | some f => simp [toBOut, ha]
  | error e =>
    simp only [hres] at h ⊢
    rw [onErrorX_agrees c now _ s e h]

/-- **the broadcast model extends the key-addressed model**: for `flush_all` / `quit`, whenever the key-addressed model
of `_safely_run_func` (which reports a failing dict operation as `internalError` and forgets what the failing helper had
done) does not answer `internalError`, the statement-by-statement model gives the same state, the same result and the
same inner call -/
theorem safelyRunFuncX_agrees (ccfg : Wire.Cfg) (c : Cfg) (idx : Nat) (now : Time) (st : St) (s : Srv) (cl : IClient)
    (op : BOp) (call : Call) (sc : Script) (hc : op.call? = some call)
    (h : (safelyRunFunc ccfg c idx now st s cl call sc).2.1 ≠ .internalError) :
    safelyRunFuncX ccfg c idx now st s cl op sc =
      ((safelyRunFunc ccfg c idx now st s cl call sc).1, toBOut (safelyRunFunc ccfg c idx now st s cl call sc).2.1,
        (safelyRunFunc ccfg c idx now st s cl call sc).2.2, (safelyRunFunc ccfg c idx now st s cl call sc).2.2.isSome) := by
  unfold safelyRunFunc at h ⊢
  unfold safelyRunFuncX
  cases hl : alookup s st.fo.failed with
  | none =>
    simp only [hl] at h ⊢
    rw [invokeX_agrees ccfg c idx now st s cl op call sc false hc h, (invoke_fst ccfg c idx now st s cl call sc false).1]
    rfl
  | some p =>
    obtain ⟨a, t⟩ := p
    simp only [hl] at h ⊢
    by_cases ha : a < c.ra
    · simp only [ha, if_true] at h ⊢
      by_cases hw : now - t > c.rt
      · simp only [hw, if_true] at h ⊢
        rw [invokeX_agrees ccfg c idx now st s cl op call sc true hc h, (invoke_fst ccfg c idx now st s cl call sc true).1]
        rfl
      · simp only [hw, if_false, toBOut]
        rfl
    · simp only [ha, if_false] at h ⊢
      cases hr : removeServer now st.fo s with
      | none => simp [hr] at h
      | some fo' =>
        simp only [hr] at h ⊢
        rw [removeServerX_of_some hr]
        simp only []
        rw [invokeX_agrees ccfg c idx now _ s cl op call sc false hc h,
          (invoke_fst ccfg c idx now { st with fo := fo' } s cl call sc false).1]
        rfl
end HashCall
