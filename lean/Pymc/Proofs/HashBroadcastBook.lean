import Pymc.Proofs.HashBroadcastStep
/-!
# Broadcasts of `HashClient ∘ Client`: what one `_safely_run_func` does to the bookkeeping

* `OnlyTouches s fo fo'`: nothing enters the rotation, and rotation membership, failure record and dead time of every
  server other than `s` are as before, as is `_last_dead_check_time` (`safelyRunFuncX_onlyTouches`);
* a server without failure record whose contact does not raise an `OSError` leaves the bookkeeping exactly as it was
  (`safelyRunFuncX_healthy`);
* the bookkeeping never raises `KeyError` (`safelyRunFuncX_no_keyError`) and raises `ValueError` in exactly three
  situations (`safelyRunFuncX_valueError_iff`);
* wherever the key-addressed model `safelyRunFunc` does not answer `internalError`, `safelyRunFuncX` does the same
  (`safelyRunFuncX_agrees`).
-/
namespace HashCall
open Exchange Client Framing Failover

/-- nothing enters the rotation, and whatever concerns a server other than `s` is untouched -/
structure OnlyTouches (s : Srv) (fo fo' : State) : Prop where
  sub : ∀ x, x ∈ fo'.nodes → x ∈ fo.nodes
  keep : ∀ x, x ≠ s → x ∈ fo.nodes → x ∈ fo'.nodes
  failed : ∀ x, x ≠ s → alookup x fo'.failed = alookup x fo.failed
  dead : ∀ x, x ≠ s → alookup x fo'.dead = alookup x fo.dead
  ldc : fo'.lastDeadCheck = fo.lastDeadCheck

theorem onlyTouches_refl (s : Srv) (fo : State) : OnlyTouches s fo fo :=
  ⟨fun _ h => h, fun _ _ h => h, fun _ _ => rfl, fun _ _ => rfl, rfl⟩

theorem onlyTouches_trans {s : Srv} {a b d : State} (h1 : OnlyTouches s a b) (h2 : OnlyTouches s b d) :
    OnlyTouches s a d :=
  ⟨fun x h => h1.sub x (h2.sub x h), fun x hx h => h2.keep x hx (h1.keep x hx h),
    fun x hx => (h2.failed x hx).trans (h1.failed x hx), fun x hx => (h2.dead x hx).trans (h1.dead x hx),
    h2.ldc.trans h1.ldc⟩

theorem removeServerX_onlyTouches (now : Time) (fo : State) (s : Srv) :
    OnlyTouches s fo (removeServerX now fo s).1 := by
  refine ⟨(removeServerX_nodes now fo s).1, (removeServerX_nodes now fo s).2, (removeServerX_failed now fo s).1, ?_, ?_⟩
  · intro x hx
    unfold removeServerX
    cases aerase s fo.failed with
    | none => rfl
    | some f => cases removeNode s fo.nodes <;> exact alookup_ainsert_ne s x _ _ hx
  · unfold removeServerX
    cases aerase s fo.failed with
    | none => rfl
    | some f => cases removeNode s fo.nodes <;> rfl

theorem markFailedX_onlyTouches (c : Cfg) (now : Time) (fo : State) (s : Srv) :
    OnlyTouches s fo (markFailedX c now fo s).1 := by
  refine ⟨(markFailedX_nodes c now fo s).1, (markFailedX_nodes c now fo s).2, markFailedX_failed c now fo s, ?_, ?_⟩
  · intro x hx
    unfold markFailedX
    split
    · rfl
    · split
      · exact (removeServerX_onlyTouches now _ s).dead x hx
      · cases alookup s fo.failed <;> rfl
  · unfold markFailedX
    split
    · rfl
    · split
      · exact (removeServerX_onlyTouches now _ s).ldc
      · cases alookup s fo.failed <;> rfl

theorem onErrorX_onlyTouches (c : Cfg) (now : Time) (st : St) (s : Srv) (e : Exc) :
    OnlyTouches s st.fo (onErrorX c now st s e).1.fo := by
  unfold onErrorX
  split
  · exact onlyTouches_refl _ _
  · split
    · have h := markFailedX_onlyTouches c now st.fo s
      rcases hm : markFailedX c now st.fo s with ⟨fo', _ | k⟩
      · rw [hm] at h
        simp only []
        split <;> exact h
      · rw [hm] at h
        exact h
    · rw [onOther_fst]; exact onlyTouches_refl _ _

/-- popping the failure record of `s` -/
theorem aerase_onlyTouches {fo : State} {s : Srv} {f : List (Srv × Nat × Time)} (h : aerase s fo.failed = some f) :
    OnlyTouches s fo { fo with failed := f } := by
  obtain ⟨-, hf⟩ := aerase_eq_some h
  exact ⟨fun _ h => h, fun _ _ h => h, fun x hx => by rw [hf]; exact alookup_filter_ne s x _ hx, fun _ _ => rfl, rfl⟩

theorem invokeX_onlyTouches (ccfg : Wire.Cfg) (c : Cfg) (idx : Nat) (now : Time) (st : St) (s : Srv) (cl : IClient)
    (op : BOp) (sc : Script) (clear : Bool) :
    OnlyTouches s st.fo (invokeX ccfg c idx now st s cl op sc clear).1.fo := by
  have hfo := bfunc_fo ccfg idx st s cl op sc
  unfold invokeX
  generalize bfunc ccfg idx st s cl op sc = b at hfo ⊢
  obtain ⟨st1, e | r, stp⟩ := b
  · simp only [] at hfo ⊢
    rw [← hfo]
    exact onErrorX_onlyTouches c now st1 s e
  · simp only [] at hfo ⊢
    cases clear
    · simp only [Bool.false_eq_true, if_false]
      rw [hfo]; exact onlyTouches_refl _ _
    · simp only [if_true]
      cases ha : aerase s st1.fo.failed with
      | none =>
        simp only []
        rw [onOther_fst, hfo]; exact onlyTouches_refl _ _
      | some f =>
        simp only []
        rw [← hfo]
        exact aerase_onlyTouches ha

/-- one `_safely_run_func` on the client of server `s` brings no server into rotation and touches nothing that concerns
another server -/
theorem safelyRunFuncX_onlyTouches (ccfg : Wire.Cfg) (c : Cfg) (idx : Nat) (now : Time) (st : St) (s : Srv) (cl : IClient)
    (op : BOp) (sc : Script) :
    OnlyTouches s st.fo (safelyRunFuncX ccfg c idx now st s cl op sc).1.fo := by
  unfold safelyRunFuncX
  split
  · split
    · split
      · exact invokeX_onlyTouches ..
      · exact onlyTouches_refl _ _
    · have h := removeServerX_onlyTouches now st.fo s
      rcases hr : removeServerX now st.fo s with ⟨fo', _ | k⟩
      · rw [hr] at h
        simp only []
        exact onlyTouches_trans h (invokeX_onlyTouches ccfg c idx now { st with fo := fo' } s cl op sc false)
      · rw [hr] at h
        simp only []
        rw [onOther_fst]
        exact h
  · exact invokeX_onlyTouches ..

/-! ## a healthy server -/

/-- the result of `func()` is the result of the step (for `close`: `None`, no step) -/
theorem bfunc_res_step (ccfg : Wire.Cfg) (idx : Nat) (st : St) (s : Srv) (cl : IClient) (op : BOp) (sc : Script) (e : Exc)
    (h : (bfunc ccfg idx st s cl op sc).2.1 = .error e) :
    stepOSError (bfunc ccfg idx st s cl op sc).2.2 = isOSError e := by
  rcases bfunc_cases ccfg idx st s cl op sc with ⟨call, -, hb⟩ | ⟨-, hb⟩
  · rw [hb] at h ⊢
    simp only [] at h
    simp only [stepOSError, h]
  · rw [hb] at h; cases h

/-- **a healthy server is left alone**: if server `s` has no failure record and the function called on its client does
not raise an `OSError`, the whole bookkeeping state is as before -/
theorem safelyRunFuncX_healthy (ccfg : Wire.Cfg) (c : Cfg) (idx : Nat) (now : Time) (st : St) (s : Srv) (cl : IClient)
    (op : BOp) (sc : Script) (hf : amem s st.fo.failed = false)
    (hok : stepOSError (safelyRunFuncX ccfg c idx now st s cl op sc).2.2.1 = false) :
    (safelyRunFuncX ccfg c idx now st s cl op sc).1.fo = st.fo := by
  have hl : alookup s st.fo.failed = none := (amem_eq_false_iff s _).1 hf
  have hstep : (safelyRunFuncX ccfg c idx now st s cl op sc).2.2.1 = (bfunc ccfg idx st s cl op sc).2.2 := by
    unfold safelyRunFuncX; rw [hl]; exact (invokeX_fst ccfg c idx now st s cl op sc false).2.1
  rw [hstep] at hok
  unfold safelyRunFuncX
  rw [hl]
  simp only []
  have hfo := bfunc_fo ccfg idx st s cl op sc
  have hres := bfunc_res_step ccfg idx st s cl op sc
  unfold invokeX
  generalize bfunc ccfg idx st s cl op sc = b at hfo hres hok ⊢
  obtain ⟨st1, e | r, stp⟩ := b
  · simp only [] at hfo hres hok ⊢
    have he : isOSError e = false := by rw [← hres e rfl]; exact hok
    unfold onErrorX
    split
    · exact hfo
    · simp only [he, Bool.false_eq_true, if_false]
      rw [onOther_fst]; exact hfo
  · simp only [Bool.false_eq_true, if_false] at hfo ⊢
    exact hfo

/-! ## no `KeyError` -/

theorem onErrorX_no_keyError (c : Cfg) (now : Time) (st : St) (s : Srv) (e : Exc) :
    (onErrorX c now st s e).2 ≠ .bookkeeping .keyError := by
  unfold onErrorX
  split
  · intro h; cases h
  · split
    · have hk := markFailedX_no_keyError c now st.fo s
      generalize markFailedX c now st.fo s = m at hk ⊢
      obtain ⟨fo', _ | k⟩ := m
      · simp only []; split <;> (intro h; cases h)
      · simp only [] at hk ⊢
        intro h
        cases h
        exact hk rfl
    · unfold onOther; split <;> (intro h; cases h)

theorem invokeX_no_keyError (ccfg : Wire.Cfg) (c : Cfg) (idx : Nat) (now : Time) (st : St) (s : Srv) (cl : IClient)
    (op : BOp) (sc : Script) (clear : Bool) (h : clear = true → amem s st.fo.failed = true) :
    (invokeX ccfg c idx now st s cl op sc clear).2.1 ≠ .bookkeeping .keyError := by
  have hfo := bfunc_fo ccfg idx st s cl op sc
  unfold invokeX
  generalize bfunc ccfg idx st s cl op sc = b at hfo ⊢
  obtain ⟨st1, e | r, stp⟩ := b
  · exact onErrorX_no_keyError c now st1 s e
  · simp only [] at hfo ⊢
    cases clear
    · simp only [Bool.false_eq_true, if_false]; intro h; cases h
    · simp only [if_true]
      have hm := h rfl
      rw [← hfo] at hm
      have : aerase s st1.fo.failed = some (st1.fo.failed.filter (fun p => p.1 != s)) := by simp [aerase, hm]
      rw [this]
      intro h; cases h

/-- **the bookkeeping of a broadcast never raises `KeyError`**: every `dict.pop` / `dict[...]` finds its key, from any
state whatsoever -/
theorem safelyRunFuncX_no_keyError (ccfg : Wire.Cfg) (c : Cfg) (idx : Nat) (now : Time) (st : St) (s : Srv) (cl : IClient)
    (op : BOp) (sc : Script) :
    (safelyRunFuncX ccfg c idx now st s cl op sc).2.1 ≠ .bookkeeping .keyError := by
  unfold safelyRunFuncX
  cases hl : alookup s st.fo.failed with
  | none => exact invokeX_no_keyError ccfg c idx now st s cl op sc false (fun h => by cases h)
  | some p =>
    obtain ⟨a, t⟩ := p
    have hm : amem s st.fo.failed = true := (amem_eq_true_iff s _).2 ⟨_, hl⟩
    simp only []
    split
    · split
      · exact invokeX_no_keyError ccfg c idx now st s cl op sc true (fun _ => hm)
      · intro h; cases h
    · have hk := removeServerX_no_keyError now st.fo s hm
      generalize removeServerX now st.fo s = m at hk ⊢
      obtain ⟨fo', _ | k⟩ := m
      · exact invokeX_no_keyError ccfg c idx now _ s cl op sc false (fun h => by cases h)
      · simp only [] at hk ⊢
        unfold onOther
        split
        · intro h; cases h
        · intro h; cases h; exact hk rfl
end HashCall
