import Pymc.Model.HashCallMany
import Pymc.Proofs.HashCallRun
import Pymc.Proofs.WireEnc
/-!
# `HashClient ∘ Client`: the C01 invariant through `get_many` / `gets_many`

* a batch of legal keys is owed exactly one fetch reply (`owed_batchCall`), whichever keys it holds — so the framing
  hypothesis on a server's script does not depend on the routing;
* `_safely_run_func` on a registered client object preserves the invariant (`safelyRunFunc_clean` / `_quiet`), hence so
  do the two loops of `get_many` (`getManyH_clean` / `_quiet`), a general call (`callM_clean`) and a run (`runM_clean`).
-/
namespace HashCall
open Exchange Client Framing Failover

/-! ## what a batch is owed -/

theorem mapM_checkKey_ok (cfg : Wire.Cfg) (ks : List Key.K) (h : ∀ k ∈ ks, ∃ w, Wire.checkKey cfg k = .ok w) :
    ∃ wire, ks.mapM (Wire.checkKey cfg) = .ok wire := by
  induction ks with
  | nil => exact ⟨[], rfl⟩
  | cons k r ih =>
    obtain ⟨w, hw⟩ := h k (by simp)
    obtain ⟨ws, hws⟩ := ih (fun x hx => h x (by simp [hx]))
    exact ⟨w :: ws, Wire.mapM_cons_ok _ k r w ws hw hws⟩

theorem sends_fetchValues (cfg : Wire.Cfg) (c : Call) (verb : Wire.FVerb) (ks : List Key.K)
    (g : List (Key.K × Item) → Res)
    (hcall : ∀ ie so sc, call cfg ie so c sc = mapOut (fetchValues cfg ie verb ks none so sc) fun d => .ok (g d))
    (h : ∀ k ∈ ks, ∃ w, Wire.checkKey cfg k = .ok w) : sends cfg c = true := by
  obtain ⟨wire, hw⟩ := mapM_checkKey_ok cfg ks h
  have hc : Wire.encodeFetch cfg verb ks none = .ok (Wire.fetchCmd verb none wire) := by
    simp [Wire.encodeFetch, hw, bind, Except.bind, pure, Except.pure]
  obtain ⟨h', hf⟩ : ∃ h' : List FetchEntry → List (Key.K × Item), ∀ ie so sc, fetchValues cfg ie verb ks none so sc =
      mapOut (exchangeFetch (.values (verb = .gets || verb = .gats)) (Wire.fetchCmd verb none wire) wire ie so sc)
        fun r => .ok (h' r) :=
    ⟨_, fun ie so sc => by simp only [fetchValues, hw, hc] <;> rfl⟩
  have hcall' : ∀ ie so sc, call cfg ie so c sc =
      mapOut (exchangeFetch (.values (verb = .gets || verb = .gats)) (Wire.fetchCmd verb none wire) wire ie so sc)
        fun r => (.ok (g (h' r)) : Except Exc Res) := by
    intro ie so sc
    rw [hcall, hf, mapOut_mapOut_ok]
  exact sends_of_fetch hcall'

/-- a non-empty batch of keys that pass `check_key` is owed one fetch reply -/
theorem owed_batchCall (cfg : Wire.Cfg) (gets : Bool) (ks : List Key.K) (hne : ks ≠ [])
    (h : ∀ k ∈ ks, ∃ w, Wire.checkKey cfg k = .ok w) : owed cfg (batchCall gets ks) = .fetch (.values gets) := by
  cases gets with
  | false =>
    have hs : sends cfg (.getMany ks) = true :=
      sends_fetchValues cfg _ .get ks _ (fun ie so sc => by simp only [call, hne, if_false] <;> rfl) h
    simp [batchCall, owed, hs, effNoreply]
  | true =>
    have hs : sends cfg (.getsMany ks) = true :=
      sends_fetchValues cfg _ .gets ks _ (fun ie so sc => by simp only [call, hne, if_false] <;> rfl) h
    simp [batchCall, owed, hs, effNoreply]

/-! ## `_safely_run_func` preserves the invariant -/

theorem safelyRunFunc_clean (ccfg : Wire.Cfg) (c : Cfg) (idx : Nat) (now : Time) (st : St) (s : Srv) (cl : IClient)
    (call : Call) (sc : Script) (hinv : PipesClean st) (hcl : (s, cl) ∈ st.clients) (hwf : WellFramed ccfg call sc.evs) :
    PipesClean (safelyRunFunc ccfg c idx now st s cl call sc).1 ∧
    ∀ stp, (safelyRunFunc ccfg c idx now st s cl call sc).2.2 = some stp → stp.idx = idx ∧ StepFacts ccfg false stp := by
  rcases safelyRunFunc_step ccfg c idx now st s cl call sc with ⟨ha, hb⟩ | ⟨ha, hb⟩
  · exact ⟨fun x hx => hinv x (hb ▸ hx), fun stp h => by rw [ha] at h; cases h⟩
  · obtain ⟨hfacts, hpost⟩ := PooledCall.stepTagged_facts ccfg idx cl.sockOpen cl.pipe call sc (hinv (s, cl) hcl) hwf
    refine ⟨fun x hx hopen => ?_, fun stp h => ?_⟩
    · rw [hb, contact_clients] at hx
      rcases mem_ainsert hx with h | h
      · exact hinv x h hopen
      · subst h; exact hpost hopen
    · rw [ha] at h
      cases h
      exact ⟨rfl, hfacts⟩

theorem safelyRunFunc_quiet (ccfg : Wire.Cfg) (c : Cfg) (idx : Nat) (now : Time) (st : St) (s : Srv) (cl : IClient)
    (call : Call) (sc : Script) (hinv : PipesQuiet st) (hcl : (s, cl) ∈ st.clients) (hff : FaultFramed ccfg call sc.evs) :
    PipesQuiet (safelyRunFunc ccfg c idx now st s cl call sc).1 ∧
    ∀ stp, (safelyRunFunc ccfg c idx now st s cl call sc).2.2 = some stp → stp.idx = idx ∧ StepFactsF stp := by
  rcases safelyRunFunc_step ccfg c idx now st s cl call sc with ⟨ha, hb⟩ | ⟨ha, hb⟩
  · exact ⟨fun x hx => hinv x (hb ▸ hx), fun stp h => by rw [ha] at h; cases h⟩
  · obtain ⟨hfacts, hpost⟩ := PooledCall.stepTagged_factsF ccfg idx cl.sockOpen cl.pipe call sc (hinv (s, cl) hcl) hff
    refine ⟨fun x hx hopen => ?_, fun stp h => ?_⟩
    · rw [hb, contact_clients] at hx
      rcases mem_ainsert hx with h | h
      · exact hinv x h hopen
      · subst h; exact hpost hopen
    · rw [ha] at h
      cases h
      exact ⟨rfl, hfacts⟩

/-! ## the first loop -/

/-- every batch is non-empty and holds only keys that pass `check_key` -/
def BatchesOK (ccfg : Wire.Cfg) (b : List (Srv × List Key.K)) : Prop :=
  ∀ x ∈ b, x.2 ≠ [] ∧ ∀ k ∈ x.2, ∃ w, Wire.checkKey ccfg k = .ok w

theorem batchesOK_add {ccfg : Wire.Cfg} {b : List (Srv × List Key.K)} (s : Srv) {k : Key.K} {w : Bytes}
    (hk : Wire.checkKey ccfg k = .ok w) (hb : BatchesOK ccfg b) : BatchesOK ccfg (addToBatch s k b) := by
  intro x hx
  unfold addToBatch at hx
  cases hl : alookup s b with
  | none =>
    rw [hl] at hx
    rcases mem_ainsert hx with h | h
    · exact hb x h
    · subst h
      exact ⟨by simp, fun k' hk' => by simp only [List.mem_singleton] at hk'; subst hk'; exact ⟨w, hk⟩⟩
  | some ks =>
    rw [hl] at hx
    rcases mem_ainsert hx with h | h
    · exact hb x h
    · subst h
      obtain ⟨-, h2⟩ := hb (s, ks) (mem_of_alookup hl)
      refine ⟨by simp, fun k' hk' => ?_⟩
      rcases List.mem_append.mp hk' with h | h
      · exact h2 k' h
      · simp only [List.mem_singleton] at h; subst h; exact ⟨w, hk⟩

theorem routeKeysH_spec {RK : Type} (ccfg : Wire.Cfg) (c : Cfg) (route : List Srv → RK → Option Srv) (now : Time)
    (st : St) (keys : List (RK × Key.K)) (b : List (Srv × List Key.K)) (hb : BatchesOK ccfg b) :
    Refreshed st (routeKeysH ccfg c route now st keys b).1 ∧
    ∀ b', (routeKeysH ccfg c route now st keys b).2 = .inr b' → BatchesOK ccfg b' := by
  induction keys generalizing st b with
  | nil => exact ⟨refreshed_refl _, fun b' h => by cases h; exact hb⟩
  | cons rkk ks ih =>
    obtain ⟨rk, k⟩ := rkk
    simp only [routeKeysH]
    cases hk : Wire.checkKey ccfg k with
    | error e => exact ⟨refreshed_refl _, fun b' h => by cases h⟩
    | ok w =>
      obtain ⟨hr, -⟩ := getClient_refreshed c route now st rk
      simp only []
      rcases hg : getClient c route now st rk with ⟨st1, g⟩
      rw [hg] at hr
      cases g with
      | internalError => exact ⟨hr, fun b' h => by cases h⟩
      | allDown => exact ⟨hr, fun b' h => by cases h⟩
      | noClient =>
        obtain ⟨h1, h2⟩ := ih st1 b hb
        exact ⟨refreshed_trans hr h1, h2⟩
      | client s cl =>
        obtain ⟨h1, h2⟩ := ih st1 (addToBatch s k b) (batchesOK_add s hk hb)
        exact ⟨refreshed_trans hr h1, h2⟩

/-! ## the second loop -/

theorem runBatchesH_clean (ccfg : Wire.Cfg) (c : Cfg) (idx : Nat) (now : Time) (gets : Bool) (scripts : Srv → Script)
    (st : St) (b : List (Srv × List Key.K)) (acc : Res) (hinv : PipesClean st) (hb : BatchesOK ccfg b)
    (hsc : ∀ s, Readers.clean (scripts s).evs ∧ (Owed.fetch (.values gets)).Matches (Readers.joinData (scripts s).evs)) :
    PipesClean (runBatchesH ccfg c idx now gets scripts st b acc).1 ∧
    ∀ bo ∈ (runBatchesH ccfg c idx now gets scripts st b acc).2.2, ∀ stp, bo.step = some stp →
      stp.idx = idx ∧ StepFacts ccfg false stp := by
  induction b generalizing st acc with
  | nil => exact ⟨hinv, fun bo h => by simp [runBatchesH] at h⟩
  | cons sks bs ih =>
    obtain ⟨s, ks⟩ := sks
    simp only [runBatchesH]
    cases hl : alookup s st.clients with
    | none => exact ⟨hinv, fun bo h => by simp at h⟩
    | some cl =>
      obtain ⟨hne, hleg⟩ := hb (s, ks) (by simp)
      have hwf : WellFramed ccfg (batchCall gets ks) (scripts s).evs := by
        refine ⟨(hsc s).1, ?_⟩
        rw [owed_batchCall ccfg gets ks hne hleg]
        exact (hsc s).2
      obtain ⟨h1, h2⟩ := safelyRunFunc_clean ccfg c idx now st s cl (batchCall gets ks) (scripts s) hinv
        (mem_of_alookup hl) hwf
      simp only []
      rcases hs : safelyRunFunc ccfg c idx now st s cl (batchCall gets ks) (scripts s) with ⟨st1, r, stp⟩
      rw [hs] at h1 h2
      have hbs : BatchesOK ccfg bs := fun x hx => hb x (by simp [hx])
      cases r with
      | value v =>
        obtain ⟨h3, h4⟩ := ih st1 (updateRes acc v) h1 hbs
        refine ⟨h3, fun bo hbo => ?_⟩
        rcases List.mem_cons.mp hbo with h | h
        · subst h; exact h2
        · exact h4 bo h
      | default =>
        obtain ⟨h3, h4⟩ := ih st1 acc h1 hbs
        refine ⟨h3, fun bo hbo => ?_⟩
        rcases List.mem_cons.mp hbo with h | h
        · subst h; exact h2
        · exact h4 bo h
      | raised s' e => exact ⟨h1, fun bo hbo => by simp only [List.mem_singleton] at hbo; subst hbo; exact h2⟩
      | allDown => exact ⟨h1, fun bo hbo => by simp only [List.mem_singleton] at hbo; subst hbo; exact h2⟩
      | illegalKey => exact ⟨h1, fun bo hbo => by simp only [List.mem_singleton] at hbo; subst hbo; exact h2⟩
      | internalError => exact ⟨h1, fun bo hbo => by simp only [List.mem_singleton] at hbo; subst hbo; exact h2⟩

theorem runBatchesH_quiet (ccfg : Wire.Cfg) (c : Cfg) (idx : Nat) (now : Time) (gets : Bool) (scripts : Srv → Script)
    (st : St) (b : List (Srv × List Key.K)) (acc : Res) (hinv : PipesQuiet st) (hb : BatchesOK ccfg b)
    (hsc : ∀ s, ∃ pre post, (scripts s).evs = pre ++ post ∧ Readers.clean pre ∧
      (((Owed.fetch (.values gets)).Matches (Readers.joinData pre) ∧ quiet post) ∨
       ((∃ more, more ≠ [] ∧ (Owed.fetch (.values gets)).Matches (Readers.joinData pre ++ more)) ∧ broken post))) :
    PipesQuiet (runBatchesH ccfg c idx now gets scripts st b acc).1 ∧
    ∀ bo ∈ (runBatchesH ccfg c idx now gets scripts st b acc).2.2, ∀ stp, bo.step = some stp →
      stp.idx = idx ∧ StepFactsF stp := by
  induction b generalizing st acc with
  | nil => exact ⟨hinv, fun bo h => by simp [runBatchesH] at h⟩
  | cons sks bs ih =>
    obtain ⟨s, ks⟩ := sks
    simp only [runBatchesH]
    cases hl : alookup s st.clients with
    | none => exact ⟨hinv, fun bo h => by simp at h⟩
    | some cl =>
      obtain ⟨hne, hleg⟩ := hb (s, ks) (by simp)
      have hff : FaultFramed ccfg (batchCall gets ks) (scripts s).evs := by
        obtain ⟨pre, post, h1, h2, h3⟩ := hsc s
        refine ⟨pre, post, h1, h2, ?_⟩
        rw [owed_batchCall ccfg gets ks hne hleg]
        exact h3
      obtain ⟨h1, h2⟩ := safelyRunFunc_quiet ccfg c idx now st s cl (batchCall gets ks) (scripts s) hinv
        (mem_of_alookup hl) hff
      simp only []
      rcases hs : safelyRunFunc ccfg c idx now st s cl (batchCall gets ks) (scripts s) with ⟨st1, r, stp⟩
      rw [hs] at h1 h2
      have hbs : BatchesOK ccfg bs := fun x hx => hb x (by simp [hx])
      cases r with
      | value v =>
        obtain ⟨h3, h4⟩ := ih st1 (updateRes acc v) h1 hbs
        refine ⟨h3, fun bo hbo => ?_⟩
        rcases List.mem_cons.mp hbo with h | h
        · subst h; exact h2
        · exact h4 bo h
      | default =>
        obtain ⟨h3, h4⟩ := ih st1 acc h1 hbs
        refine ⟨h3, fun bo hbo => ?_⟩
        rcases List.mem_cons.mp hbo with h | h
        · subst h; exact h2
        · exact h4 bo h
      | raised s' e => exact ⟨h1, fun bo hbo => by simp only [List.mem_singleton] at hbo; subst hbo; exact h2⟩
      | allDown => exact ⟨h1, fun bo hbo => by simp only [List.mem_singleton] at hbo; subst hbo; exact h2⟩
      | illegalKey => exact ⟨h1, fun bo hbo => by simp only [List.mem_singleton] at hbo; subst hbo; exact h2⟩
      | internalError => exact ⟨h1, fun bo hbo => by simp only [List.mem_singleton] at hbo; subst hbo; exact h2⟩

/-! ## `_safely_run_set_many` preserves the invariant -/

theorem invokeSetMany_fst (ccfg : Wire.Cfg) (c : Cfg) (idx : Nat) (now : Time) (st : St) (s : Srv) (cl : IClient)
    (call : Call) (sc : Script) (clear : Bool) :
    (invokeSetMany ccfg c idx now st s cl call sc clear).2.2 =
      some (PooledCall.stepTagged ccfg idx cl.sockOpen cl.pipe call sc) ∧
    (invokeSetMany ccfg c idx now st s cl call sc clear).1.clients = (contact ccfg idx st s cl call sc).1.clients := by
  have hfin : ∀ r : Res,
      (if clear then
        match aerase s (contact ccfg idx st s cl call sc).1.fo.failed with
        | none => ((contact ccfg idx st s cl call sc).1, HRes.internalError, some (contact ccfg idx st s cl call sc).2)
        | some f => ({ (contact ccfg idx st s cl call sc).1 with
                        fo := { (contact ccfg idx st s cl call sc).1.fo with failed := f } }, HRes.value r,
                      some (contact ccfg idx st s cl call sc).2)
      else ((contact ccfg idx st s cl call sc).1, HRes.value r, some (contact ccfg idx st s cl call sc).2)).2.2 =
        some (PooledCall.stepTagged ccfg idx cl.sockOpen cl.pipe call sc) ∧
      (if clear then
        match aerase s (contact ccfg idx st s cl call sc).1.fo.failed with
        | none => ((contact ccfg idx st s cl call sc).1, HRes.internalError, some (contact ccfg idx st s cl call sc).2)
        | some f => ({ (contact ccfg idx st s cl call sc).1 with
                        fo := { (contact ccfg idx st s cl call sc).1.fo with failed := f } }, HRes.value r,
                      some (contact ccfg idx st s cl call sc).2)
      else ((contact ccfg idx st s cl call sc).1, HRes.value r, some (contact ccfg idx st s cl call sc).2)).1.clients =
        (contact ccfg idx st s cl call sc).1.clients := by
    intro r
    cases clear
    · exact ⟨rfl, rfl⟩
    · simp only [if_true]
      cases aerase s (contact ccfg idx st s cl call sc).1.fo.failed <;> exact ⟨rfl, rfl⟩
  unfold invokeSetMany
  simp only []
  cases hres : (contact ccfg idx st s cl call sc).2.out.res with
  | ok r => exact hfin r
  | error e =>
    simp only []
    split
    · exact ⟨rfl, rfl⟩
    · split
      · exact hfin _
      · exact ⟨rfl, (onError_nodes c now _ s e).2⟩

theorem safelyRunSetMany_step (ccfg : Wire.Cfg) (c : Cfg) (idx : Nat) (now : Time) (st : St) (s : Srv) (cl : IClient)
    (call : Call) (sc : Script) :
    ((safelyRunSetMany ccfg c idx now st s cl call sc).2.2 = none ∧
      (safelyRunSetMany ccfg c idx now st s cl call sc).1.clients = st.clients) ∨
    ((safelyRunSetMany ccfg c idx now st s cl call sc).2.2 =
        some (PooledCall.stepTagged ccfg idx cl.sockOpen cl.pipe call sc) ∧
      (safelyRunSetMany ccfg c idx now st s cl call sc).1.clients = (contact ccfg idx st s cl call sc).1.clients) := by
  unfold safelyRunSetMany
  split
  · split
    · split
      · exact .inr (invokeSetMany_fst ..)
      · exact .inl ⟨rfl, rfl⟩
    · split
      · exact .inl ⟨rfl, rfl⟩
      · exact .inr (invokeSetMany_fst ..)
  · exact .inr (invokeSetMany_fst ..)

theorem safelyRunSetMany_clean (ccfg : Wire.Cfg) (c : Cfg) (idx : Nat) (now : Time) (st : St) (s : Srv) (cl : IClient)
    (call : Call) (sc : Script) (hinv : PipesClean st) (hcl : (s, cl) ∈ st.clients) (hwf : WellFramed ccfg call sc.evs) :
    PipesClean (safelyRunSetMany ccfg c idx now st s cl call sc).1 ∧
    ∀ stp, (safelyRunSetMany ccfg c idx now st s cl call sc).2.2 = some stp → stp.idx = idx ∧ StepFacts ccfg false stp := by
  rcases safelyRunSetMany_step ccfg c idx now st s cl call sc with ⟨ha, hb⟩ | ⟨ha, hb⟩
  · exact ⟨fun x hx => hinv x (hb ▸ hx), fun stp h => by rw [ha] at h; cases h⟩
  · obtain ⟨hfacts, hpost⟩ := PooledCall.stepTagged_facts ccfg idx cl.sockOpen cl.pipe call sc (hinv (s, cl) hcl) hwf
    refine ⟨fun x hx hopen => ?_, fun stp h => ?_⟩
    · rw [hb, contact_clients] at hx
      rcases mem_ainsert hx with h | h
      · exact hinv x h hopen
      · subst h; exact hpost hopen
    · rw [ha] at h
      cases h
      exact ⟨rfl, hfacts⟩

theorem safelyRunSetMany_quiet (ccfg : Wire.Cfg) (c : Cfg) (idx : Nat) (now : Time) (st : St) (s : Srv) (cl : IClient)
    (call : Call) (sc : Script) (hinv : PipesQuiet st) (hcl : (s, cl) ∈ st.clients) (hff : FaultFramed ccfg call sc.evs) :
    PipesQuiet (safelyRunSetMany ccfg c idx now st s cl call sc).1 ∧
    ∀ stp, (safelyRunSetMany ccfg c idx now st s cl call sc).2.2 = some stp → stp.idx = idx ∧ StepFactsF stp := by
  rcases safelyRunSetMany_step ccfg c idx now st s cl call sc with ⟨ha, hb⟩ | ⟨ha, hb⟩
  · exact ⟨fun x hx => hinv x (hb ▸ hx), fun stp h => by rw [ha] at h; cases h⟩
  · obtain ⟨hfacts, hpost⟩ := PooledCall.stepTagged_factsF ccfg idx cl.sockOpen cl.pipe call sc (hinv (s, cl) hcl) hff
    refine ⟨fun x hx hopen => ?_, fun stp h => ?_⟩
    · rw [hb, contact_clients] at hx
      rcases mem_ainsert hx with h | h
      · exact hinv x h hopen
      · subst h; exact hpost hopen
    · rw [ha] at h
      cases h
      exact ⟨rfl, hfacts⟩

/-! ## the loops of `set_many` -/

theorem routeItemsH_refreshed {RK : Type} (ccfg : Wire.Cfg) (c : Cfg) (route : List Srv → RK → Option Srv) (now : Time)
    (st : St) (items : List (RK × Key.K × Wire.Val)) (b : List (Srv × List (Key.K × Wire.Val))) (f : List Key.K) :
    Refreshed st (routeItemsH ccfg c route now st items b f).1 := by
  induction items generalizing st b f with
  | nil => exact refreshed_refl _
  | cons x ks ih =>
    obtain ⟨rk, k, v⟩ := x
    simp only [routeItemsH]
    cases hk : Wire.checkKey ccfg k with
    | error e => exact refreshed_refl _
    | ok w =>
      obtain ⟨hr, -⟩ := getClient_refreshed c route now st rk
      simp only []
      rcases hg : getClient c route now st rk with ⟨st1, g⟩
      rw [hg] at hr
      cases g with
      | internalError => exact hr
      | allDown => exact hr
      | noClient => exact refreshed_trans hr (ih st1 b _)
      | client s cl => exact refreshed_trans hr (ih st1 _ f)

/-- the second loop in general: if `runOne` on a registered client object preserves the invariant `Inv` and yields
steps with the property `P`, so does the loop -/
theorem runBatchesG_inv {β γ : Type} (Inv : St → Prop) (P : Step → Prop)
    (runOne : St → Srv → IClient → β → St × HRes × Option Step)
    (onValue : γ → β → Res → γ) (onDefault : γ → β → γ) (fin : γ → Res)
    (hone : ∀ st s cl x, Inv st → (s, cl) ∈ st.clients →
      Inv (runOne st s cl x).1 ∧ ∀ stp, (runOne st s cl x).2.2 = some stp → P stp)
    (st : St) (b : List (Srv × β)) (acc : γ) (hinv : Inv st) :
    Inv (runBatchesG runOne onValue onDefault fin st b acc).1 ∧
    ∀ bo ∈ (runBatchesG runOne onValue onDefault fin st b acc).2.2, ∀ stp, bo.step = some stp → P stp := by
  induction b generalizing st acc with
  | nil => exact ⟨hinv, fun bo h => by simp [runBatchesG] at h⟩
  | cons sx bs ih =>
    obtain ⟨s, x⟩ := sx
    simp only [runBatchesG]
    cases hl : alookup s st.clients with
    | none => exact ⟨hinv, fun bo h => by simp at h⟩
    | some cl =>
      obtain ⟨h1, h2⟩ := hone st s cl x hinv (mem_of_alookup hl)
      simp only []
      rcases hs : runOne st s cl x with ⟨st1, r, stp⟩
      rw [hs] at h1 h2
      cases r with
      | value v =>
        obtain ⟨h3, h4⟩ := ih st1 (onValue acc x v) h1
        refine ⟨h3, fun bo hbo => ?_⟩
        rcases List.mem_cons.mp hbo with h | h
        · subst h; exact h2
        · exact h4 bo h
      | default =>
        obtain ⟨h3, h4⟩ := ih st1 (onDefault acc x) h1
        refine ⟨h3, fun bo hbo => ?_⟩
        rcases List.mem_cons.mp hbo with h | h
        · subst h; exact h2
        · exact h4 bo h
      | raised s' e => exact ⟨h1, fun bo hbo => by simp only [List.mem_singleton] at hbo; subst hbo; exact h2⟩
      | allDown => exact ⟨h1, fun bo hbo => by simp only [List.mem_singleton] at hbo; subst hbo; exact h2⟩
      | illegalKey => exact ⟨h1, fun bo hbo => by simp only [List.mem_singleton] at hbo; subst hbo; exact h2⟩
      | internalError => exact ⟨h1, fun bo hbo => by simp only [List.mem_singleton] at hbo; subst hbo; exact h2⟩

/-! ## the loop of `delete_many` -/

theorem deleteLoop_inv {RK : Type} (Inv : St → Prop) (P : Step → Prop) (ccfg : Wire.Cfg) (c : Cfg)
    (route : List Srv → RK → Option Srv) (idx : Nat) (now : Time) (noreply : Option Bool)
    (st : St) (keys : List (RK × Key.K × Script)) (hinv : Inv st)
    (hone : ∀ st, Inv st → ∀ x ∈ keys,
      Inv (callH ccfg c route st idx now x.1 (.delete x.2.1 noreply) x.2.2).1 ∧
      ∀ stp, (callH ccfg c route st idx now x.1 (.delete x.2.1 noreply) x.2.2).2.step = some stp → P stp) :
    Inv (deleteLoop ccfg c route idx now noreply st keys).1 ∧
    ∀ ob ∈ (deleteLoop ccfg c route idx now noreply st keys).2, ∀ stp, ob.step = some stp → P stp := by
  induction keys generalizing st with
  | nil => exact ⟨hinv, fun ob h => by simp [deleteLoop] at h⟩
  | cons x rest ih =>
    obtain ⟨rk, k, sc⟩ := x
    obtain ⟨h1, h2⟩ := hone st hinv (rk, k, sc) (by simp)
    simp only [deleteLoop]
    simp only [] at h1 h2
    rcases hc : callH ccfg c route st idx now rk (.delete k noreply) sc with ⟨st1, ob⟩
    rw [hc] at h1 h2
    simp only []
    split
    · exact ⟨h1, fun ob' h => by simp only [List.mem_singleton] at h; subst h; exact h2⟩
    · obtain ⟨h3, h4⟩ := ih st1 h1 (fun st' hi x hx => hone st' hi x (by simp [hx]))
      refine ⟨h3, fun ob' h => ?_⟩
      rcases List.mem_cons.mp h with h | h
      · subst h; exact h2
      · exact h4 ob' h

theorem batchOfObs_step {ob : HObs} {bo : BatchObs} (h : batchOfObs ob = some bo) : bo.step = ob.step := by
  unfold batchOfObs at h
  split at h
  · cases h; rfl
  · cases h

/-! ## one public call, runs -/

theorem pipesClean_refreshed {st st1 : St} (hr : Refreshed st st1) (hinv : PipesClean st) : PipesClean st1 := by
  intro x hx hopen
  rcases hr.mem x hx with h | ⟨h, -⟩
  · exact hinv x h hopen
  · rw [h] at hopen; cases hopen

theorem pipesQuiet_refreshed {st st1 : St} (hr : Refreshed st st1) (hinv : PipesQuiet st) : PipesQuiet st1 := by
  intro x hx hopen
  rcases hr.mem x hx with h | ⟨h, -⟩
  · exact hinv x h hopen
  · rw [h] at hopen; cases hopen

theorem mem_steps {ob : MObs} {stp : Step} (h : stp ∈ ob.steps) : ∃ bo ∈ ob.batches, bo.step = some stp := by
  unfold MObs.steps at h
  obtain ⟨bo, hbo, hs⟩ := List.mem_filterMap.mp h
  exact ⟨bo, hbo, hs⟩

theorem callM_clean {RK : Type} (ccfg : Wire.Cfg) (c : Cfg) (route : List Srv → RK → Option Srv) (st : St) (idx : Nat)
    (mc : MCall RK) (hinv : PipesClean st) (hwf : mc.op.WellFramed ccfg) :
    PipesClean (callM ccfg c route st idx mc).1 ∧
    ∀ stp ∈ (callM ccfg c route st idx mc).2.steps, stp.idx = idx ∧ StepFacts ccfg false stp := by
  obtain ⟨op, now⟩ := mc
  cases op with
  | cmd rk call sc =>
    obtain ⟨h1, h2⟩ := callH_clean ccfg c route st idx now rk call sc hinv hwf
    refine ⟨h1, fun stp hstp => ?_⟩
    obtain ⟨bo, hbo, hs⟩ := mem_steps hstp
    simp only [callM] at hbo
    cases hsv : (callH ccfg c route st idx now rk call sc).2.server with
    | none => simp [hsv] at hbo
    | some s =>
      simp only [hsv, List.mem_singleton] at hbo
      subst hbo
      exact h2 stp hs
  | getMany gets keys scripts =>
    simp only [callM, getManyH]
    obtain ⟨hr, hb⟩ := routeKeysH_spec ccfg c route now st keys [] (fun x hx => by simp at hx)
    rcases hrk : routeKeysH ccfg c route now st keys [] with ⟨st1, r | b⟩
    · rw [hrk] at hr
      exact ⟨pipesClean_refreshed hr hinv, fun stp h => by simp [MObs.steps] at h⟩
    · rw [hrk] at hr hb
      obtain ⟨h1, h2⟩ := runBatchesH_clean ccfg c idx now gets scripts st1 b (if gets then .casDict [] else .dict [])
        (pipesClean_refreshed hr hinv) (hb b rfl) hwf
      refine ⟨h1, fun stp hstp => ?_⟩
      obtain ⟨bo, hbo, hs⟩ := mem_steps hstp
      exact h2 bo hbo stp hs
  | setMany items expire noreply flags scripts =>
    simp only [callM, setManyH]
    have hr := routeItemsH_refreshed ccfg c route now st items [] []
    rcases hrk : routeItemsH ccfg c route now st items [] [] with ⟨st1, r | ⟨b, f⟩⟩
    · rw [hrk] at hr
      exact ⟨pipesClean_refreshed hr hinv, fun stp h => by simp [MObs.steps] at h⟩
    · rw [hrk] at hr
      obtain ⟨h1, h2⟩ := runBatchesG_inv PipesClean (fun stp => stp.idx = idx ∧ StepFacts ccfg false stp) _ _ _ _
        (fun st' s cl x hi hcl => safelyRunSetMany_clean ccfg c idx now st' s cl (.setMany x expire noreply flags)
          (scripts s x) hi hcl (hwf s x))
        st1 b f (pipesClean_refreshed hr hinv)
      refine ⟨h1, fun stp hstp => ?_⟩
      obtain ⟨bo, hbo, hs⟩ := mem_steps hstp
      exact h2 bo hbo stp hs
  | deleteMany keys noreply =>
    simp only [callM, deleteManyH]
    obtain ⟨h1, h2⟩ := deleteLoop_inv PipesClean (fun stp => stp.idx = idx ∧ StepFacts ccfg false stp) ccfg c route idx now
      noreply st keys hinv
      (fun st' hi x hx => callH_clean ccfg c route st' idx now x.1 (.delete x.2.1 noreply) x.2.2 hi (hwf x hx))
    refine ⟨h1, fun stp hstp => ?_⟩
    obtain ⟨bo, hbo, hs⟩ := mem_steps hstp
    obtain ⟨ob, hob, hbo'⟩ := List.mem_filterMap.mp hbo
    exact h2 ob hob stp (by rw [← batchOfObs_step hbo']; exact hs)

theorem callM_quiet {RK : Type} (ccfg : Wire.Cfg) (c : Cfg) (route : List Srv → RK → Option Srv) (st : St) (idx : Nat)
    (mc : MCall RK) (hinv : PipesQuiet st) (hff : mc.op.FaultFramed ccfg) :
    PipesQuiet (callM ccfg c route st idx mc).1 ∧
    ∀ stp ∈ (callM ccfg c route st idx mc).2.steps, stp.idx = idx ∧ StepFactsF stp := by
  obtain ⟨op, now⟩ := mc
  cases op with
  | cmd rk call sc =>
    obtain ⟨h1, h2⟩ := callH_quiet ccfg c route st idx now rk call sc hinv hff
    refine ⟨h1, fun stp hstp => ?_⟩
    obtain ⟨bo, hbo, hs⟩ := mem_steps hstp
    simp only [callM] at hbo
    cases hsv : (callH ccfg c route st idx now rk call sc).2.server with
    | none => simp [hsv] at hbo
    | some s =>
      simp only [hsv, List.mem_singleton] at hbo
      subst hbo
      exact h2 stp hs
  | getMany gets keys scripts =>
    simp only [callM, getManyH]
    obtain ⟨hr, hb⟩ := routeKeysH_spec ccfg c route now st keys [] (fun x hx => by simp at hx)
    rcases hrk : routeKeysH ccfg c route now st keys [] with ⟨st1, r | b⟩
    · rw [hrk] at hr
      exact ⟨pipesQuiet_refreshed hr hinv, fun stp h => by simp [MObs.steps] at h⟩
    · rw [hrk] at hr hb
      obtain ⟨h1, h2⟩ := runBatchesH_quiet ccfg c idx now gets scripts st1 b (if gets then .casDict [] else .dict [])
        (pipesQuiet_refreshed hr hinv) (hb b rfl) hff
      refine ⟨h1, fun stp hstp => ?_⟩
      obtain ⟨bo, hbo, hs⟩ := mem_steps hstp
      exact h2 bo hbo stp hs
  | setMany items expire noreply flags scripts =>
    simp only [callM, setManyH]
    have hr := routeItemsH_refreshed ccfg c route now st items [] []
    rcases hrk : routeItemsH ccfg c route now st items [] [] with ⟨st1, r | ⟨b, f⟩⟩
    · rw [hrk] at hr
      exact ⟨pipesQuiet_refreshed hr hinv, fun stp h => by simp [MObs.steps] at h⟩
    · rw [hrk] at hr
      obtain ⟨h1, h2⟩ := runBatchesG_inv PipesQuiet (fun stp => stp.idx = idx ∧ StepFactsF stp) _ _ _ _
        (fun st' s cl x hi hcl => safelyRunSetMany_quiet ccfg c idx now st' s cl (.setMany x expire noreply flags)
          (scripts s x) hi hcl (hff s x))
        st1 b f (pipesQuiet_refreshed hr hinv)
      refine ⟨h1, fun stp hstp => ?_⟩
      obtain ⟨bo, hbo, hs⟩ := mem_steps hstp
      exact h2 bo hbo stp hs
  | deleteMany keys noreply =>
    simp only [callM, deleteManyH]
    obtain ⟨h1, h2⟩ := deleteLoop_inv PipesQuiet (fun stp => stp.idx = idx ∧ StepFactsF stp) ccfg c route idx now
      noreply st keys hinv
      (fun st' hi x hx => callH_quiet ccfg c route st' idx now x.1 (.delete x.2.1 noreply) x.2.2 hi (hff x hx))
    refine ⟨h1, fun stp hstp => ?_⟩
    obtain ⟨bo, hbo, hs⟩ := mem_steps hstp
    obtain ⟨ob, hob, hbo'⟩ := List.mem_filterMap.mp hbo
    exact h2 ob hob stp (by rw [← batchOfObs_step hbo']; exact hs)

theorem runM_cons {RK : Type} (ccfg : Wire.Cfg) (c : Cfg) (route : List Srv → RK → Option Srv) (st : St) (k : Nat)
    (mc : MCall RK) (rest : List (MCall RK)) :
    runM ccfg c route st k (mc :: rest) =
      ((runM ccfg c route (callM ccfg c route st k mc).1 (k + 1) rest).1,
       (callM ccfg c route st k mc).2 :: (runM ccfg c route (callM ccfg c route st k mc).1 (k + 1) rest).2) :=
  rfl

theorem runM_take {RK : Type} (ccfg : Wire.Cfg) (c : Cfg) (route : List Srv → RK → Option Srv) (st : St) (k : Nat)
    (calls : List (MCall RK)) (n : Nat) :
    (runM ccfg c route st k (calls.take n)).2 = (runM ccfg c route st k calls).2.take n := by
  induction calls generalizing st k n with
  | nil => simp [runM]
  | cons mc rest ih =>
    cases n with
    | zero => simp [runM]
    | succ n => simp [runM_cons, ih]

theorem runM_clean {RK : Type} (ccfg : Wire.Cfg) (c : Cfg) (route : List Srv → RK → Option Srv) (st : St) (k : Nat)
    (calls : List (MCall RK)) (hinv : PipesClean st) (hwf : ∀ mc ∈ calls, mc.op.WellFramed ccfg) :
    PipesClean (runM ccfg c route st k calls).1 ∧
    ∀ i ob, (runM ccfg c route st k calls).2[i]? = some ob → ∀ stp ∈ ob.steps,
      stp.idx = k + i ∧ StepFacts ccfg false stp := by
  induction calls generalizing st k with
  | nil => exact ⟨hinv, fun i ob h => by simp [runM] at h⟩
  | cons mc rest ih =>
    obtain ⟨h1, h2⟩ := callM_clean ccfg c route st k mc hinv (hwf mc (by simp))
    obtain ⟨h3, h4⟩ := ih (callM ccfg c route st k mc).1 (k + 1) h1 (fun x h => hwf x (by simp [h]))
    rw [runM_cons]
    refine ⟨h3, fun i ob hi stp hst => ?_⟩
    cases i with
    | zero =>
      simp only [List.getElem?_cons_zero, Option.some.injEq] at hi
      subst hi
      exact h2 stp hst
    | succ i =>
      simp only [List.getElem?_cons_succ] at hi
      obtain ⟨ha, hb⟩ := h4 i ob hi stp hst
      exact ⟨by omega, hb⟩

theorem runM_quiet {RK : Type} (ccfg : Wire.Cfg) (c : Cfg) (route : List Srv → RK → Option Srv) (st : St) (k : Nat)
    (calls : List (MCall RK)) (hinv : PipesQuiet st) (hff : ∀ mc ∈ calls, mc.op.FaultFramed ccfg) :
    PipesQuiet (runM ccfg c route st k calls).1 ∧
    ∀ i ob, (runM ccfg c route st k calls).2[i]? = some ob → ∀ stp ∈ ob.steps,
      stp.idx = k + i ∧ StepFactsF stp := by
  induction calls generalizing st k with
  | nil => exact ⟨hinv, fun i ob h => by simp [runM] at h⟩
  | cons mc rest ih =>
    obtain ⟨h1, h2⟩ := callM_quiet ccfg c route st k mc hinv (hff mc (by simp))
    obtain ⟨h3, h4⟩ := ih (callM ccfg c route st k mc).1 (k + 1) h1 (fun x h => hff x (by simp [h]))
    rw [runM_cons]
    refine ⟨h3, fun i ob hi stp hst => ?_⟩
    cases i with
    | zero =>
      simp only [List.getElem?_cons_zero, Option.some.injEq] at hi
      subst hi
      exact h2 stp hst
    | succ i =>
      simp only [List.getElem?_cons_succ] at hi
      obtain ⟨ha, hb⟩ := h4 i ob hi stp hst
      exact ⟨by omega, hb⟩

/-- on a history of single-key calls `runM` is `runH`: same final state, same results, and the inner calls of call `i`
are the step of `runH`'s observation `i` -/
theorem runM_cmds {RK : Type} (ccfg : Wire.Cfg) (c : Cfg) (route : List Srv → RK → Option Srv) (st : St) (k : Nat)
    (calls : List (HCall RK)) :
    (runM ccfg c route st k (calls.map HCall.toM)).1 = (runH ccfg c route st k calls).1 ∧
    (runM ccfg c route st k (calls.map HCall.toM)).2.map (·.res) = (runH ccfg c route st k calls).2.map (·.res) ∧
    (runM ccfg c route st k (calls.map HCall.toM)).2.map (·.steps) =
      (runH ccfg c route st k calls).2.map (fun ob => ob.step.toList) := by
  induction calls generalizing st k with
  | nil => exact ⟨rfl, rfl, rfl⟩
  | cons hc rest ih =>
    have h1 : (callM ccfg c route st k hc.toM).1 = (callH ccfg c route st k hc.now hc.rk hc.call hc.sc).1 := rfl
    have h2 : (callM ccfg c route st k hc.toM).2.res = (callH ccfg c route st k hc.now hc.rk hc.call hc.sc).2.res := rfl
    have h3 : (callM ccfg c route st k hc.toM).2.steps =
        (callH ccfg c route st k hc.now hc.rk hc.call hc.sc).2.step.toList := by
      rcases callH_spec ccfg c route st k hc.now hc.rk hc.call hc.sc with ⟨st1, -, ⟨ha, -⟩ | ⟨s, cl, -, ha, hb, -, -⟩⟩
      · simp only [callM, HCall.toM, MObs.steps, ha]
        cases (callH ccfg c route st k hc.now hc.rk hc.call hc.sc).2.server <;> simp
      · simp only [callM, HCall.toM, MObs.steps, hb, ha]
        simp
    obtain ⟨i1, i2, i3⟩ := ih (callH ccfg c route st k hc.now hc.rk hc.call hc.sc).1 (k + 1)
    simp only [List.map_cons, runM_cons, runH_cons, h1, h2, h3, i1, i2, i3, and_self]
end HashCall
