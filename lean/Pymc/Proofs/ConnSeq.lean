import Pymc.Proofs.ConnFacts
/-!
# Sequences of `_connect()` / `close()` calls on one client

`run` concatenates the logs; `Inv` is the invariant (ids are fresh, nothing leaked, the open set is exactly
`self.sock` and the raw socket it wraps).
-/
namespace Conn

/-- one call on the client: `_connect()` under some behaviour of the socket API, or `close()` -/
inductive Step
  | connect (p : Plan)
  | close

def step (cfg : Cfg) (st : St) : Step → St × List Ev
  | .connect p => ((connect cfg p st).1, (connect cfg p st).2.2)
  | .close => close st

/-- run the calls in order; the log is the concatenation of the logs of the calls -/
def run (cfg : Cfg) : St → List Step → St × List Ev
  | st, [] => (st, [])
  | st, s :: rest => ((run cfg (step cfg st s).1 rest).1, (step cfg st s).2 ++ (run cfg (step cfg st s).1 rest).2)

/-- `self.sock`, if any, is an id that was handed out before -/
def St.WF (st : St) : Prop := ∀ t, st.sock = some t → t < st.next

structure Inv (tls : Bool) (L : List Ev) (st : St) : Prop where
  created : ∀ id ∈ createdIds L, id < st.next
  raw : ∀ id ∈ rawIds L, id < st.next
  closed : ∀ id ∈ closedIds L, id < st.next
  sock : st.WF
  no_leak : leaked L st.sock = []
  open_exact : openIds L = openOf tls st.sock

theorem Inv.init (tls : Bool) (n : Nat) : Inv tls [] { sock := none, next := n } :=
  ⟨by simp, by simp, by simp, by simp [St.WF], by simp [leaked], by simp [openIds, openOf]⟩

theorem Inv.extend {tls : Bool} {L log : List Ev} {st st' : St} (hI : Inv tls L st) (hf : CallFacts st st' log)
    (ho : openIds log = openOf tls st'.sock) : Inv tls (L ++ log) st' := by
  have hle := hf.next_le
  have hclosedL : ∀ x, st.next ≤ x → x ∉ closedIds L := by
    intro x hx hm; have := hI.closed x hm; idomega
  have hrawL : ∀ x, st.next ≤ x → x ∉ rawIds L := by
    intro x hx hm; have := hI.raw x hm; idomega
  refine ⟨?_, ?_, ?_, ?_, ?_, ?_⟩
  · intro id hid
    rw [createdIds_append] at hid
    rcases List.mem_append.1 hid with h | h
    · have := hI.created id h; idomega
    · exact (hf.created_fresh id h).2
  · intro id hid
    rw [rawIds_append] at hid
    rcases List.mem_append.1 hid with h | h
    · have := hI.raw id h; idomega
    · exact (hf.raw_fresh id h).2
  · intro id hid
    rw [closedIds_append] at hid
    rcases List.mem_append.1 hid with h | h
    · have := hI.closed id h; idomega
    · rcases hf.closed_range id h with h | h
      · have := hI.sock id h; idomega
      · exact h.2
  · intro s hs; exact (hf.sock_fresh s hs).2
  · exact leaked_append hI.no_leak (fun t ht => mem_closedIds.2 (hf.prev_closed t ht)) hf.no_leak
      (fun id hid => hrawL id (hf.created_fresh id hid).1)
  · rw [openIds_append_fresh, ho]
    · intro id hid
      rcases (leaked_eq_nil_iff.1 hI.no_leak) id hid with h | h | ⟨w, h1, h2⟩
      · exact isClosed_append_left log h
      · exact isClosed_of_mem (by
          rw [closedIds_append]; exact List.mem_append_right _ (mem_closedIds.2 (hf.prev_closed id h)))
      · exact isClosed_iff.2 (.inr ⟨w, ownedBy_append_of_some log h1, by
          rw [closedIds_append]; exact List.mem_append_right _ (mem_closedIds.2 (hf.prev_closed w h2))⟩)
    · intro id hid
      have h1 := (hf.created_fresh id hid).1
      refine ⟨hrawL id h1, hclosedL id h1, ?_⟩
      intro w hw
      have : w ∈ createdIds log := mem_createdIds.2 (.inr ⟨id, ownedBy_some_mem hw⟩)
      exact hclosedL w (hf.created_fresh w this).1

theorem close_facts (st : St) : CallFacts st (close st).1 (close st).2 := by
  rw [close_eq]
  refine ⟨Nat.le_refl _, by simp, by simp, ?_, by simp, ?_, ?_⟩
  · intro id hid; simp at hid; exact .inl hid
  · intro t ht; simp [closeEvs, ht]
  · simp [leaked]

theorem close_open (tls : Bool) (st : St) : openIds (close st).2 = openOf tls (close st).1.sock := by
  rw [close_eq]; simp [openIds, openOf]

theorem step_inv {cfg : Cfg} {L : List Ev} {st : St} (hI : Inv (cfg.tls && !cfg.unix) L st) (s : Step) :
    Inv (cfg.tls && !cfg.unix) (L ++ (step cfg st s).2) (step cfg st s).1 := by
  cases s with
  | connect p =>
    have ho := connect_outcome cfg p st
    exact hI.extend ho.facts (ho.open_exact hI.sock)
  | close => exact hI.extend (close_facts st) (close_open _ st)

theorem run_inv {cfg : Cfg} (steps : List Step) {L : List Ev} {st : St} (hI : Inv (cfg.tls && !cfg.unix) L st) :
    Inv (cfg.tls && !cfg.unix) (L ++ (run cfg st steps).2) (run cfg st steps).1 := by
  induction steps generalizing L st with
  | nil => simpa [run] using hI
  | cons s rest ih =>
    have := ih (step_inv hI s)
    simpa [run, List.append_assoc] using this

theorem openOf_length (tls : Bool) (o : Option Id) : (openOf tls o).length ≤ if tls then 2 else 1 := by
  cases o <;> cases tls <;> simp [openOf]

end Conn
