import Pymc.Proofs.ServerFraming
import Pymc.Props.C02
/-! C01 ∘ C02: for the reference server of the model, the framing assumption of C01 is a theorem.  The bytes a
call sends are read by the strict parser as the requests the call means (C02), and the server answers
each request with exactly the unit owed for it (`ServerFraming`), so the answer to a call is exactly
what `Framing.owed` says the call is owed.  (Needs the C02 proof files.) -/
namespace ServerAnswers
open Bytes Readers Wire Exchange Client Framing AbsMap ServerFraming

theorem answer_of_parse {s s' : St} {payload reply : Bytes} {reqs : List Req}
    (hfeed : Server.feed s payload = some (s', reply))
    (hp : parseAll payload.length payload = some reqs) : ReqsMatch reqs reply := by
  obtain ⟨reqs', hp', hm⟩ := feed_framed s payload hfeed
  rw [hp] at hp'; cases hp'; exact hm

/-- side conditions of the C02 round-trip theorems -/
def keyNonEmpty (cfg : Cfg) (k : Key.K) : Prop := ∀ w, checkKey cfg k = .ok w → w ≠ []

theorem store_answer {cfg verb items expire nr flags cas cmds} {s s' : St} {reply : Bytes}
    (h : encodeStore cfg verb items expire nr flags 0 cas = .ok cmds)
    (hfl : ∀ f, flags = some f → 0 ≤ f) (hcv : cas.isSome ↔ verb = .cas)
    (hcw : ∀ c, cas = some c → c ≠ [] ∧ c.all isDigit = true)
    (hkey : ∀ kv ∈ items, keyNonEmpty cfg kv.1)
    (hfeed : Server.feed s cmds.flatten = some (s', reply)) :
    (if nr then Owed.nothing else .lines cmds.length).Matches reply := by
  obtain ⟨e, wds, -, hlen, -, hp⟩ := C02_parse_encode_store cfg verb items expire nr flags 0 cas cmds h hfl hcv hcw hkey
  have hm := answer_of_parse hfeed hp
  have hcl := encodeStore_length h
  cases nr with
  | true =>
    exact reqsMatch_nothing hm (by intro r hr; obtain ⟨wd, -, rfl⟩ := List.mem_map.mp hr; simp [reqOwed, reqNoreply])
  | false =>
    have := reqsMatch_lines hm (by intro r hr; obtain ⟨wd, -, rfl⟩ := List.mem_map.mp hr; simp [reqOwed, reqNoreply])
    simp only [List.length_map] at this
    rw [hlen, ← hcl] at this
    exact this

theorem delete_answer {cfg keys nr cmds} {s s' : St} {reply : Bytes}
    (h : encodeDelete cfg keys nr = .ok cmds) (hkey : ∀ k ∈ keys, keyNonEmpty cfg k)
    (hfeed : Server.feed s cmds.flatten = some (s', reply)) :
    (if nr then Owed.nothing else .lines cmds.length).Matches reply := by
  obtain ⟨ks, hlen, -, hp⟩ := C02_parse_encode_delete_many cfg keys nr cmds h hkey
  have hm := answer_of_parse hfeed hp
  have hcl := encodeDelete_length h
  cases nr with
  | true =>
    exact reqsMatch_nothing hm (by intro r hr; obtain ⟨wd, -, rfl⟩ := List.mem_map.mp hr; simp [reqOwed, reqNoreply])
  | false =>
    have := reqsMatch_lines hm (by intro r hr; obtain ⟨wd, -, rfl⟩ := List.mem_map.mp hr; simp [reqOwed, reqNoreply])
    simp only [List.length_map] at this
    rw [hlen, ← hcl] at this
    exact this

/-- one command read as one non-fetch request -/
theorem single_answer {cmd : Bytes} {r : Req} {nr : Bool} {s s' : St} {reply : Bytes}
    (hp : parseAll cmd.length cmd = some [r]) (hnr : reqNoreply r = nr)
    (hnf : reqOwed r = if nr then .nothing else .lines 1)
    (hfeed : Server.feed s ([cmd] : List Bytes).flatten = some (s', reply)) :
    (if nr then Owed.nothing else .lines 1).Matches reply := by
  simp only [List.flatten_cons, List.flatten_nil, List.append_nil] at hfeed
  have hm := answer_of_parse hfeed hp
  cases nr with
  | true => exact reqsMatch_nothing hm (by simp [hnf])
  | false => exact reqsMatch_lines hm (by simp [hnf])

theorem fetch_answer {cfg verb keys expire cmd} {s s' : St} {reply : Bytes}
    (h : encodeFetch cfg verb keys expire = .ok cmd) (hne : keys ≠ [])
    (hex : expire.isSome ↔ (verb = .gat ∨ verb = .gats)) (hkey : ∀ k ∈ keys, keyNonEmpty cfg k)
    (hfeed : Server.feed s cmd = some (s', reply)) :
    FetchUnit (.values (verb = .gets || verb = .gats)) reply := by
  obtain ⟨e, ks, -, -, -, hp⟩ := C02_parse_encode_fetch cfg verb keys expire cmd h hne hex hkey
  exact reqsMatch_fetch (answer_of_parse hfeed hp) (by simp [reqOwed, reqNoreply])

/-- the side conditions under which C02 proves that the strict parser reads the call's bytes as intended:
non-empty wire keys (the empty key is C02's open finding), non-negative `flags`, `delta`, `delay`; raw
commands are the caller's business.  The administrative operations `stats`, `cache_memlimit`, `shutdown` are
excluded (`False`) as well: the strict parser `Wire.parseReq` and the wire-level server `Server.feed` know the
C05 alphabet only, so `Server.feed` has no answer to their requests (same exclusion as `Client.WF`).  This
concerns only the two theorems about the *model's reference server* (`C01_reference_server_answers_what_is_owed`,
`C01_onServer_pipe_clean`); every other C01 theorem covers the three operations. -/
def SideOK (cfg : Cfg) : Call → Prop
  | .store _ k _ _ _ flags _ => keyNonEmpty cfg k ∧ (∀ f, flags = some f → 0 ≤ f)
  | .setMany items _ _ flags => (∀ kv ∈ items, keyNonEmpty cfg kv.1) ∧ (∀ f, flags = some f → 0 ≤ f)
  | .get k => keyNonEmpty cfg k
  | .gets k => keyNonEmpty cfg k
  | .gat k _ => keyNonEmpty cfg k
  | .gats k _ => keyNonEmpty cfg k
  | .getMany ks => ∀ k ∈ ks, keyNonEmpty cfg k
  | .getsMany ks => ∀ k ∈ ks, keyNonEmpty cfg k
  | .delete k _ => keyNonEmpty cfg k
  | .deleteMany ks _ => ∀ k ∈ ks, keyNonEmpty cfg k
  | .arith _ k delta _ => keyNonEmpty cfg k ∧ ∀ d, delta = .int d → 0 ≤ d
  | .touch k _ _ => keyNonEmpty cfg k
  | .flushAll delay _ => ∀ d, delay = .int d → 0 ≤ d
  | .version => True
  | .quit => True
  | .raw _ _ => False
  | .stats _ => False
  | .cacheMemlimit _ => False
  | .shutdown _ => False

theorem sends_of_sent {cfg : Cfg} {c : Call} {p : Bytes}
    (h : (Client.call cfg false true c {}).sent = some p) : sends cfg c = true := by
  simp [sends, h]

theorem fetchValues_sent {cfg verb ks ex} {p : Bytes}
    (h : (fetchValues cfg false verb ks ex true {}).sent = some p) :
    encodeFetch cfg verb ks ex = .ok p := by
  unfold fetchValues at h
  cases hw : ks.mapM (checkKey cfg) with
  | error e => simp [hw, early] at h
  | ok wire =>
    cases hc : encodeFetch cfg verb ks ex with
    | error e => simp [hw, hc, early] at h
    | ok cmd =>
      simp only [hw, hc, mapOut_sent] at h
      unfold exchangeFetch at h
      simp at h
      split at h <;> simp_all

theorem misc_sent {cmds : List Bytes} {nr : Bool} {tok : Option Bytes} {f : List Bytes → Except Exc Res}
    {p : Bytes} (h : (mapOut (exchangeMisc cmds nr tok true {}) f).sent = some p) : p = cmds.flatten := by
  rw [mapOut_sent, exchangeMisc_probe] at h; exact (Option.some.inj h).symm

theorem store_sent {verb : SVerb} {cmds : List Bytes} {nr : Bool}
    {f : List (Option Bool) → Except Exc Res}
    {p : Bytes} (h : (mapOut (exchangeStore verb cmds nr true {}) f).sent = some p) : p = cmds.flatten := by
  rw [mapOut_sent, exchangeStore_probe] at h; exact (Option.some.inj h).symm

theorem casBytes_ok {verb : SVerb} {cas : Option CasArg} {cb : Option Bytes}
    (h : casBytes verb cas = .ok cb) :
    (cb.isSome ↔ verb = .cas) ∧ ∀ c, cb = some c → c ≠ [] ∧ c.all isDigit = true := by
  by_cases hv : verb = .cas
  · subst hv
    cases cas with
    | none => simp [casBytes] at h
    | some a =>
      cases hck : checkCas a with
      | error e => simp [casBytes, hck, liftErr, Except.map] at h
      | ok out =>
        simp [casBytes, hck, liftErr, Except.map] at h
        subst h
        refine ⟨by simp, fun c hc => ?_⟩
        cases hc
        exact C02_bad_cas_rejected.2.2.2.2 a out hck
  · have : cb = none := by
      cases verb <;> simp_all [casBytes]
    subst this
    simp [hv]

/-- fetch calls -/
theorem fetch_call_answer {cfg : Cfg} {c : Call} {verb : FVerb} {ks : List Key.K} {ex : Option IntArg}
    {g : List (Key.K × Exchange.Item) → Except Exc Res}
    (hcall : Client.call cfg false true c {} = mapOut (fetchValues cfg false verb ks ex true {}) g)
    (howed : sends cfg c = true → owed cfg c = .fetch (.values (verb = .gets || verb = .gats)))
    (hne : ks ≠ []) (hex : ex.isSome ↔ (verb = .gat ∨ verb = .gats)) (hkey : ∀ k ∈ ks, keyNonEmpty cfg k)
    {payload : Bytes} (hsent : (Client.call cfg false true c {}).sent = some payload)
    {s s' : St} {reply : Bytes} (hfeed : Server.feed s payload = some (s', reply)) :
    (owed cfg c).Matches reply := by
  rw [howed (sends_of_sent hsent)]
  rw [hcall, mapOut_sent] at hsent
  exact fetch_answer (fetchValues_sent hsent) hne hex hkey hfeed

theorem server_answers_call (cfg : Cfg) (c : Call) (hside : SideOK cfg c) (payload : Bytes)
    (hsent : (Client.call cfg false true c {}).sent = some payload)
    (s s' : St) (reply : Bytes) (hfeed : Server.feed s payload = some (s', reply)) :
    (owed cfg c).Matches reply := by
  have hs := sends_of_sent hsent
  cases c with
  | raw cmd tok => exact hside.elim
  | stats args => exact hside.elim
  | cacheMemlimit m => exact hside.elim
  | shutdown g => exact hside.elim
  | quit =>
    have : owed cfg .quit = .nothing := by simp [owed, effNoreply]
    rw [this]
    have hp : payload = ([quitCmd] : List Bytes).flatten := by
      simp only [Client.call] at hsent
      rw [exchangeMisc_probe] at hsent; exact (Option.some.inj hsent).symm
    subst hp
    exact single_answer (r := .quit) (nr := true)
      (parseAll_single (parsesAs_of C02_parse_quitCmd)) rfl (by simp [reqOwed, reqNoreply]) hfeed
  | version =>
    have : owed cfg .version = .lines 1 := by simp [owed, hs, effNoreply]
    rw [this]
    have hp : payload = ([versionCmd] : List Bytes).flatten := by
      simp only [Client.call] at hsent; exact misc_sent hsent
    subst hp
    exact single_answer (r := .version) (nr := false)
      (parseAll_single (parsesAs_of C02_parse_versionCmd)) rfl (by simp [reqOwed, reqNoreply]) hfeed
  | get k =>
    exact fetch_call_answer (verb := .get) (ks := [k]) (ex := none) (by simp only [Client.call] <;> rfl)
      (fun h => by simp [owed, h, effNoreply]) (by simp) (by simp)
      (by intro k' hk'; simp only [List.mem_cons, List.not_mem_nil, or_false] at hk'; subst hk'; exact hside)
      hsent hfeed
  | gets k =>
    exact fetch_call_answer (verb := .gets) (ks := [k]) (ex := none) (by simp only [Client.call] <;> rfl)
      (fun h => by simp [owed, h, effNoreply]) (by simp) (by simp)
      (by intro k' hk'; simp only [List.mem_cons, List.not_mem_nil, or_false] at hk'; subst hk'; exact hside)
      hsent hfeed
  | gat k e =>
    exact fetch_call_answer (verb := .gat) (ks := [k]) (ex := some e) (by simp only [Client.call] <;> rfl)
      (fun h => by simp [owed, h, effNoreply]) (by simp) (by simp)
      (by intro k' hk'; simp only [List.mem_cons, List.not_mem_nil, or_false] at hk'; subst hk'; exact hside)
      hsent hfeed
  | gats k e =>
    exact fetch_call_answer (verb := .gats) (ks := [k]) (ex := some e) (by simp only [Client.call] <;> rfl)
      (fun h => by simp [owed, h, effNoreply]) (by simp) (by simp)
      (by intro k' hk'; simp only [List.mem_cons, List.not_mem_nil, or_false] at hk'; subst hk'; exact hside)
      hsent hfeed
  | getMany ks =>
    by_cases hks : ks = []
    · subst hks; simp [Client.call] at hsent
    · exact fetch_call_answer (verb := .get) (ks := ks) (ex := none)
        (by simp only [Client.call, hks, if_false] <;> rfl)
        (fun h => by simp [owed, h, effNoreply]) hks (by simp) hside hsent hfeed
  | getsMany ks =>
    by_cases hks : ks = []
    · subst hks; simp [Client.call] at hsent
    · exact fetch_call_answer (verb := .gets) (ks := ks) (ex := none)
        (by simp only [Client.call, hks, if_false] <;> rfl)
        (fun h => by simp [owed, h, effNoreply]) hks (by simp) hside hsent hfeed
  | delete k noreply =>
    cases henc : encodeDelete cfg [k] (boolOr noreply cfg.defaultNoreply) with
    | error e => simp [Client.call, henc, early] at hsent
    | ok cmds =>
      simp only [Client.call, henc] at hsent
      have hp := misc_sent hsent; subst hp
      have hl := encodeDelete_length henc
      have := delete_answer henc
        (by intro k' hk'; simp only [List.mem_cons, List.not_mem_nil, or_false] at hk'; subst hk'; exact hside)
        hfeed
      simpa [owed, hs, effNoreply, hl] using this
  | deleteMany ks noreply =>
    by_cases hks : ks = []
    · subst hks; simp [Client.call] at hsent
    cases henc : encodeDelete cfg ks (boolOr noreply cfg.defaultNoreply) with
    | error e => simp [Client.call, hks, henc, early] at hsent
    | ok cmds =>
      simp only [Client.call, hks, if_false, henc] at hsent
      have hp := misc_sent hsent; subst hp
      have hl := encodeDelete_length henc
      have := delete_answer henc hside hfeed
      simpa [owed, hs, effNoreply, hl] using this
  | arith incr k delta noreply =>
    cases henc : encodeArith cfg incr k delta noreply with
    | error e => simp [Client.call, henc, early] at hsent
    | ok cmd =>
      simp only [Client.call, henc] at hsent
      have hp := misc_sent hsent; subst hp
      obtain ⟨w, d, -, -, hpa⟩ := C02_parse_encode_arith cfg incr k delta noreply cmd henc hside.2 hside.1
      have := single_answer (nr := noreply) hpa rfl (by cases noreply <;> simp [reqOwed, reqNoreply]) hfeed
      simpa [owed, hs, effNoreply] using this
  | touch k e noreply =>
    cases henc : encodeTouch cfg k e (boolOr noreply cfg.defaultNoreply) with
    | error e => simp [Client.call, henc, early] at hsent
    | ok cmd =>
      simp only [Client.call, henc] at hsent
      have hp := misc_sent hsent; subst hp
      obtain ⟨w, e', -, -, hpa⟩ := C02_parse_encode_touch cfg k e _ cmd henc hside
      have := single_answer (nr := boolOr noreply cfg.defaultNoreply) hpa rfl
        (by cases boolOr noreply cfg.defaultNoreply <;> simp [reqOwed, reqNoreply]) hfeed
      simpa [owed, hs, effNoreply] using this
  | flushAll delay noreply =>
    cases henc : encodeFlush delay (boolOr noreply cfg.defaultNoreply) with
    | error e => simp [Client.call, henc, early] at hsent
    | ok cmd =>
      simp only [Client.call, henc] at hsent
      have hp := misc_sent hsent; subst hp
      obtain ⟨d, -, hpa⟩ := C02_parse_encode_flush delay _ cmd henc hside
      have := single_answer (nr := boolOr noreply cfg.defaultNoreply) hpa rfl
        (by cases boolOr noreply cfg.defaultNoreply <;> simp [reqOwed, reqNoreply]) hfeed
      simpa [owed, hs, effNoreply] using this
  | setMany items ex noreply flags =>
    cases henc : encodeStore cfg .set items ex (boolOr noreply cfg.defaultNoreply) flags 0 none with
    | error e => simp [Client.call, henc, early] at hsent
    | ok cmds =>
      simp only [Client.call, henc] at hsent
      have hp := store_sent hsent; subst hp
      have hl := encodeStore_length henc
      have := store_answer henc hside.2 (by simp) (by simp) hside.1 hfeed
      simpa [owed, hs, effNoreply, hl] using this
  | store verb k v ex noreply flags cas =>
    rw [call_store_eq] at hsent
    cases hcb : casBytes verb cas with
    | error e => simp [hcb, early] at hsent
    | ok cb =>
      cases henc : encodeStore cfg verb [(k, v)] ex
          (if verb = .cas then boolOr noreply false else boolOr noreply cfg.defaultNoreply) flags 0 cb with
      | error e => simp [hcb, henc, early] at hsent
      | ok cmds =>
        simp only [hcb, henc] at hsent
        have hp := store_sent hsent; subst hp
        have hl := encodeStore_length henc
        obtain ⟨hcv, hcw⟩ := casBytes_ok hcb
        have := store_answer henc hside.2 hcv hcw
          (by intro kv hkv; simp only [List.mem_cons, List.not_mem_nil, or_false] at hkv; subst hkv; exact hside.1)
          hfeed
        simpa [owed, hs, effNoreply, hl] using this
end ServerAnswers
