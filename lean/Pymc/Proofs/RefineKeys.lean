import Pymc.Proofs.RefineCor
/-! C04: the keys of a multi-key fetch. -/
namespace Client
open Bytes Wire Exchange Readers AbsMap ApiSpec

/-! ## in general: result keys are caller's keys, each at most once -/
theorem dictSet_keys {β} (d : List (Key.K × β)) (k : Key.K) (v : β) :
    (dictSet d k v).map (·.1) = if k ∈ d.map (·.1) then d.map (·.1) else d.map (·.1) ++ [k] := by
  unfold dictSet
  have hany : d.any (·.1 = k) = true ↔ k ∈ d.map (·.1) := by
    simp only [List.any_eq_true, decide_eq_true_eq, List.mem_map]
  by_cases h : k ∈ d.map (·.1)
  · rw [if_pos (hany.2 h), if_pos h, List.map_map]
    apply List.map_congr_left
    intro kv _
    by_cases hk : kv.1 = k <;> simp [hk]
  · rw [if_neg (fun h' => h (hany.1 h')), if_neg h]; simp

theorem remapLookup_mem (wire : List Bytes) (ks : List Key.K) (w : Bytes) (k : Key.K)
    (h : remapLookup (wire.zip ks) w = some k) : k ∈ ks := by
  unfold remapLookup at h
  cases hf : (wire.zip ks).reverse.find? (·.1 = w) with
  | none => simp [hf] at h
  | some x =>
    simp only [hf, Option.map_some, Option.some.injEq] at h
    have hx := List.mem_of_find?_eq_some hf
    rw [List.mem_reverse] at hx
    obtain ⟨a, b⟩ := x
    subst h
    exact (List.of_mem_zip hx).2

theorem foldDict_keys {β} (wire : List Bytes) (ks : List Key.K) (val : Bytes × AbsMap.Item → β)
    (vs : List (Bytes × AbsMap.Item)) :
    (∀ k ∈ (foldDict (wire.zip ks) val vs).map (·.1), k ∈ ks) ∧
    ((foldDict (wire.zip ks) val vs).map (·.1)).Nodup := by
  unfold foldDict
  have : ∀ (d : List (Key.K × β)), (∀ k ∈ d.map (·.1), k ∈ ks) → (d.map (·.1)).Nodup →
      (∀ k ∈ (vs.foldl (fun d p => match remapLookup (wire.zip ks) p.1 with
        | some k => dictSet d k (val p)
        | none => d) d).map (·.1), k ∈ ks) ∧
      ((vs.foldl (fun d p => match remapLookup (wire.zip ks) p.1 with
        | some k => dictSet d k (val p)
        | none => d) d).map (·.1)).Nodup := by
    induction vs with
    | nil => intro d h1 h2; exact ⟨h1, h2⟩
    | cons p vs ih =>
      intro d h1 h2
      simp only [List.foldl_cons]
      cases hr : remapLookup (wire.zip ks) p.1 with
      | none => exact ih d h1 h2
      | some k =>
        have hk := remapLookup_mem wire ks p.1 k hr
        apply ih
        · rw [dictSet_keys]
          split
          · exact h1
          · intro x hx
            rcases List.mem_append.1 hx with hx | hx
            · exact h1 x hx
            · simp at hx; subst hx; exact hk
        · rw [dictSet_keys]
          split
          · exact h2
          · rename_i hnot
            rw [List.nodup_append]
            refine ⟨h2, by simp, ?_⟩
            intro a ha b hb
            simp at hb; subst hb
            rintro rfl; exact hnot ha
  exact this [] (by simp) (by simp)

/-! ## pairwise distinct wire keys: exactly the live ones, in request order, each with its own data -/
theorem remapLookup_of_mem (wire : List Bytes) (ks : List Key.K) (hn : wire.Nodup) (w : Bytes) (k : Key.K)
    (h : (w, k) ∈ wire.zip ks) : remapLookup (wire.zip ks) w = some k := by
  induction wire generalizing ks with
  | nil => simp at h
  | cons w0 wire ih =>
    cases ks with
    | nil => simp at h
    | cons k0 ks =>
      obtain ⟨hw0, hn'⟩ := List.nodup_cons.1 hn
      simp only [List.zip_cons_cons, List.mem_cons, Prod.mk.injEq] at h
      simp only [remapLookup, List.zip_cons_cons, List.reverse_cons, List.find?_append]
      rcases h with ⟨rfl, rfl⟩ | h
      · have : (wire.zip ks).reverse.find? (·.1 = w) = none := by
          rw [List.find?_eq_none]
          intro x hx
          rw [List.mem_reverse] at hx
          obtain ⟨a, b⟩ := x
          have := (List.of_mem_zip hx).1
          simp only [decide_eq_true_eq]
          rintro rfl; exact hw0 this
        simp [this]
      · have := ih ks hn' h
        unfold remapLookup at this
        cases hf : (wire.zip ks).reverse.find? (·.1 = w) with
        | none => simp [hf] at this
        | some x => simpa [hf] using this

theorem fold_distinct {β} (R : List (Bytes × Key.K)) (remapOK : ∀ p ∈ R, remapLookup R p.1 = some p.2)
    (g : Bytes → Option AbsMap.Item) (val : Bytes × AbsMap.Item → β)
    (L : List (Bytes × Key.K)) (d : List (Key.K × β))
    (hL : ∀ p ∈ L, p ∈ R) (hnd : (L.map (·.2)).Nodup) (hdis : ∀ p ∈ L, p.2 ∉ d.map (·.1)) :
    (L.filterMap fun p => (g p.1).map fun it => (p.1, it)).foldl (fun d p => match remapLookup R p.1 with
        | some k => dictSet d k (val p)
        | none => d) d =
      d ++ L.filterMap fun p => (g p.1).map fun it => (p.2, val (p.1, it)) := by
  induction L generalizing d with
  | nil => simp
  | cons p L ih =>
    simp only [List.map_cons, List.nodup_cons] at hnd
    have hp := hdis p (by simp)
    simp only [List.filterMap_cons]
    cases hg : g p.1 with
    | none =>
      simp only [Option.map_none]
      exact ih d (fun q hq => hL q (by simp [hq])) hnd.2 (fun q hq => hdis q (by simp [hq]))
    | some it =>
      simp only [Option.map_some, List.foldl_cons, remapOK p (hL p (by simp))]
      have hds : dictSet d p.2 (val (p.1, it)) = d ++ [(p.2, val (p.1, it))] := by
        unfold dictSet
        have : d.any (·.1 = p.2) = false := by
          rw [List.any_eq_false]
          intro x hx
          simp only [decide_eq_true_eq]
          intro hxe
          exact hp (List.mem_map.2 ⟨x, hx, hxe⟩)
        simp [this]
      rw [hds, ih (d ++ [(p.2, val (p.1, it))]) (fun q hq => hL q (by simp [hq])) hnd.2 ?_]
      · simp
      · intro q hq
        simp only [List.map_append, List.map_cons, List.map_nil, List.mem_append, List.mem_singleton, not_or]
        refine ⟨hdis q (by simp [hq]), ?_⟩
        intro he
        exact hnd.1 (he ▸ List.mem_map.2 ⟨q, hq, rfl⟩)

theorem mapM_ok_mem' {α β} (f : α → Except Wire.Err β) (l : List α) (out : List β) (h : l.mapM f = .ok out) :
    ∀ a ∈ l, ∃ b ∈ out, f a = .ok b := by
  obtain ⟨hl, hi⟩ := mapM_ok f l out h
  intro a ha
  obtain ⟨i, hi', rfl⟩ := List.mem_iff_getElem.1 ha
  exact ⟨out[i]'(by omega), List.getElem_mem _, hi i hi' (by omega)⟩

theorem keys_nodup_of_wire (cfg : Cfg) (ks : List Key.K) (wire : List Bytes)
    (hm : ks.mapM (checkKey cfg) = .ok wire) (hn : wire.Nodup) : ks.Nodup := by
  induction ks generalizing wire with
  | nil => simp
  | cons k ks ih =>
    obtain ⟨w, ws, h1, h2, rfl⟩ := mapM_cons_ok_inv _ k ks wire hm
    obtain ⟨hw, hn'⟩ := List.nodup_cons.1 hn
    rw [List.nodup_cons]
    refine ⟨?_, ih ws h2 hn'⟩
    intro hk
    obtain ⟨b, hb, hkb⟩ := mapM_ok_mem' _ _ _ h2 k hk
    rw [h1] at hkb; cases hkb
    exact hw hb

/-- the dict of a multi-key fetch when the wire keys are pairwise distinct -/
theorem hitsDict_distinct (cfg : Cfg) (s : St) (ks : List Key.K) (wire : List Bytes)
    (hm : ks.mapM (checkKey cfg) = .ok wire) (hn : wire.Nodup) :
    hitsDict wire ks (fetchRun s none wire).2 =
      (wire.zip ks).filterMap fun p => (live (settle s) p.1).map fun it => (p.2, it) := by
  have hlen : wire.length = ks.length := (mapM_ok _ _ _ hm).1
  have hks := keys_nodup_of_wire cfg ks wire hm hn
  rw [hitsDict_eq, fetchRun_none]
  simp only
  have hw : wire = (wire.zip ks).map (·.1) := by
    rw [List.map_fst_zip]; omega
  have hvs : (wire.filterMap fun w => (live (settle s) w).map fun it => (w, it)) =
      (wire.zip ks).filterMap fun p => (live (settle s) p.1).map fun it => (p.1, it) := by
    conv => lhs; rw [hw, List.filterMap_map]
    rfl
  rw [hvs]
  have := fold_distinct (wire.zip ks) (fun p hp => remapLookup_of_mem wire ks hn p.1 p.2 hp)
    (live (settle s)) Prod.snd (wire.zip ks) [] (fun _ h => h)
    (by rw [List.map_snd_zip]; exact hks; omega) (by simp)
  simp only [List.nil_append] at this
  unfold foldDict
  exact this
end Client
