import Pymc.Proofs.RefineCall
/-! C05 for the operations answered by one line: delete, touch, incr/decr, flush_all, version, quit. -/
namespace Client
open Bytes Wire Exchange Readers AbsMap ApiSpec

theorem nr_eq (cfg : Cfg) (o : Option Bool) : ApiSpec.nr cfg o = boolOr o cfg.defaultNoreply := rfl

theorem apply_loud (s : St) (r : Req) (h : reqNoreply r = false) : AbsMap.apply s r = applyLoud s r := by
  simp [AbsMap.apply, h]

theorem apply_quiet (s : St) (r : Req) (h : reqNoreply r = true) :
    AbsMap.apply s r = ((applyLoud s r).1, .silent) := by
  simp [AbsMap.apply, h]

theorem applyAll_single (s : St) (r : Req) :
    applyAll s [r] = ((AbsMap.apply s r).1, [(AbsMap.apply s r).2]) := by
  simp [applyAll]

theorem checkKey_err (cfg : Cfg) (k : Key.K) (e : Wire.Err) (h : checkKey cfg k = .error e) :
    checkKey cfg k = .error .illegalInput := by cases e; exact h

theorem mapM_ok_mem {α β} (f : α → Except Wire.Err β) (l : List α) (out : List β) (h : l.mapM f = .ok out) :
    ∀ b ∈ out, ∃ a ∈ l, f a = .ok b := by
  obtain ⟨hl, hi⟩ := mapM_ok f l out h
  intro b hb
  obtain ⟨i, hi', rfl⟩ := List.mem_iff_getElem.1 hb
  exact ⟨l[i]'(by omega), List.getElem_mem _, hi i (by omega) hi'⟩

/-! ## delete -/
theorem applyLoud_delete (s : St) (w : Bytes) (nr : Bool) :
    (applyLoud s (.delete w nr)).2 = .deleted ∨ (applyLoud s (.delete w nr)).2 = .notFound := by
  simp only [applyLoud]
  cases live (settle s) w <;> simp

theorem refines_delete (cfg : Cfg) (s : St) (k : Key.K) (noreply : Option Bool) (hk : KeyOK cfg k) :
    onServer cfg s (.delete k noreply) =
      ((spec cfg s (.delete k noreply)).1, (spec cfg s (.delete k noreply)).2, true) := by
  cases hck : checkKey cfg k with
  | error e =>
    have henc : ∀ nr, encodeDelete cfg [k] nr = .error .illegalInput := by
      intro nr; rw [encodeDelete_eq]; cases e; simp [hck, bind, Except.bind, Except.map]
    rw [onServer_not_sent]
    · simp [call, henc, early, spec, hck]
    · simp [call, henc, early]
  | ok w =>
    have hw : w ≠ [] := fun h => hk (h ▸ hck)
    have hv := checkKey_validKey hck hw
    have henc : ∀ nr, encodeDelete cfg [k] nr = .ok [deleteCmd w nr] := by
      intro nr; rw [encodeDelete_eq]; simp [hck, bind, Except.bind, Except.map, pure, Except.pure]
    have hparse : ∀ nr, parseAll [deleteCmd w nr].flatten.length [deleteCmd w nr].flatten =
        some [.delete w nr] := by
      intro nr
      simpa using parseAll_single (parsesAs_of fun rest => C02_parse_deleteCmd w nr rest hv)
    simp only [spec, hck, nr_eq]
    rcases Bool.eq_false_or_eq_true (boolOr noreply cfg.defaultNoreply) with hnr | hnr
    · simp only [hnr]
      rw [onServer_misc_quiet cfg s _ [deleteCmd w true] _ [.delete w true] _ _
        (fun evs => by simp only [call, hnr, henc]; rfl) (hparse true) (applyAll_single _ _)]
      · simp
      · simp [Server.renderAll, apply_quiet s (.delete w true) rfl, Server.render]
    · simp only [hnr]
      have happ : AbsMap.apply s (.delete w false) = applyLoud s (.delete w false) := apply_loud _ _ rfl
      rcases applyLoud_delete s w false with h | h
      · rw [onServer_misc_loud cfg s _ [deleteCmd w false] _ [.delete w false] _ _ [ofString "DELETED"]
          (fun evs => by simp only [call, hnr, henc]; rfl) (hparse false) (applyAll_single _ _)]
        · simp [happ, h]
        · simp [Server.renderAll, happ, h, Server.render, joinLines]
        · simpa using plain_DELETED
        · rfl
      · rw [onServer_misc_loud cfg s _ [deleteCmd w false] _ [.delete w false] _ _ [ofString "NOT_FOUND"]
          (fun evs => by simp only [call, hnr, henc]; rfl) (hparse false) (applyAll_single _ _)]
        · simp [happ, h]
        · simp [Server.renderAll, happ, h, Server.render, joinLines]
        · simpa using plain_NOT_FOUND
        · rfl

/-! ## touch -/
theorem applyLoud_touch (s : St) (w : Bytes) (e : Int) (nr : Bool) :
    (applyLoud s (.touch w e nr)).2 = .touched ∨ (applyLoud s (.touch w e nr)).2 = .notFound := by
  simp only [applyLoud]
  cases live (settle s) w <;> simp

theorem refines_touch (cfg : Cfg) (s : St) (k : Key.K) (expire : IntArg) (noreply : Option Bool)
    (hk : KeyOK cfg k) :
    onServer cfg s (.touch k expire noreply) =
      ((spec cfg s (.touch k expire noreply)).1, (spec cfg s (.touch k expire noreply)).2, true) := by
  have hill : (∀ nr, encodeTouch cfg k expire nr = .error .illegalInput) →
      (spec cfg s (.touch k expire noreply)) = (s, .error .illegalInput) →
      onServer cfg s (.touch k expire noreply) =
      ((spec cfg s (.touch k expire noreply)).1, (spec cfg s (.touch k expire noreply)).2, true) := by
    intro henc hs
    rw [onServer_not_sent]
    · simp [call, henc, early, hs]
    · simp [call, henc, early]
  cases hck : checkKey cfg k with
  | error e =>
    cases e
    exact hill (fun nr => by simp [encodeTouch, hck, bind, Except.bind]) (by simp [spec, hck])
  | ok w =>
    cases expire with
    | nonInt => exact hill (fun nr => encodeTouch_nonInt cfg k nr) (by simp [spec, hck, checkInteger])
    | int e =>
    have hw : w ≠ [] := fun h => hk (h ▸ hck)
    have hv := checkKey_validKey hck hw
    have henc : ∀ nr, encodeTouch cfg k (.int e) nr = .ok (touchCmd w e nr) := by
      intro nr; simp [encodeTouch, hck, checkInteger, bind, Except.bind, pure, Except.pure]
    have hparse : ∀ nr, parseAll [touchCmd w e nr].flatten.length [touchCmd w e nr].flatten =
        some [.touch w e nr] := by
      intro nr
      simpa using parseAll_single (parsesAs_of fun rest => C02_parse_touchCmd w e nr rest hv)
    simp only [spec, hck, nr_eq, checkInteger]
    rcases Bool.eq_false_or_eq_true (boolOr noreply cfg.defaultNoreply) with hnr | hnr
    · simp only [hnr]
      rw [onServer_misc_quiet cfg s _ [touchCmd w e true] _ [.touch w e true] _ _
        (fun evs => by simp only [call, hnr, henc]; rfl) (hparse true) (applyAll_single _ _)]
      · simp
      · simp [Server.renderAll, apply_quiet s (.touch w e true) rfl, Server.render]
    · simp only [hnr]
      have happ : AbsMap.apply s (.touch w e false) = applyLoud s (.touch w e false) := apply_loud _ _ rfl
      rcases applyLoud_touch s w e false with h | h
      · rw [onServer_misc_loud cfg s _ [touchCmd w e false] _ [.touch w e false] _ _ [ofString "TOUCHED"]
          (fun evs => by simp only [call, hnr, henc]; rfl) (hparse false) (applyAll_single _ _)]
        · simp [happ, h]
        · simp [Server.renderAll, happ, h, Server.render, joinLines]
        · simpa using plain_TOUCHED
        · rfl
      · rw [onServer_misc_loud cfg s _ [touchCmd w e false] _ [.touch w e false] _ _ [ofString "NOT_FOUND"]
          (fun evs => by simp only [call, hnr, henc]; rfl) (hparse false) (applyAll_single _ _)]
        · simp [happ, h]
        · simp [Server.renderAll, happ, h, Server.render, joinLines]
        · simpa using plain_NOT_FOUND
        · rfl

/-! ## flush_all -/
theorem applyLoud_flush (s : St) (d : Option Nat) (nr : Bool) : (applyLoud s (.flushAll d nr)).2 = .ok := by
  simp only [applyLoud]
  split <;> rfl

theorem refines_flushAll (cfg : Cfg) (s : St) (delay : IntArg) (noreply : Option Bool)
    (hd : NonNegArg delay) :
    onServer cfg s (.flushAll delay noreply) =
      ((spec cfg s (.flushAll delay noreply)).1, (spec cfg s (.flushAll delay noreply)).2, true) := by
  cases delay with
  | nonInt =>
    rw [onServer_not_sent]
    · simp [call, encodeFlush, checkInteger, bind, Except.bind, early, spec]
    · simp [call, encodeFlush, checkInteger, bind, Except.bind, early]
  | int d =>
    have hd0 : 0 ≤ d := hd d rfl
    have henc : ∀ nr, encodeFlush (.int d) nr = .ok (flushCmd d nr) := by
      intro nr; simp [encodeFlush, checkInteger, bind, Except.bind, pure, Except.pure]
    have hparse : ∀ nr, parseAll [flushCmd d nr].flatten.length [flushCmd d nr].flatten =
        some [.flushAll (some d.toNat) nr] := by
      intro nr
      simpa using parseAll_single (parsesAs_of fun rest => C02_parse_flushCmd d nr rest hd0)
    simp only [spec, nr_eq, checkInteger]
    rcases Bool.eq_false_or_eq_true (boolOr noreply cfg.defaultNoreply) with hnr | hnr
    · simp only [hnr]
      rw [onServer_misc_quiet cfg s _ [flushCmd d true] _ [.flushAll (some d.toNat) true] _ _
        (fun evs => by simp only [call, hnr, henc]; rfl) (hparse true) (applyAll_single _ _)]
      · simp
      · simp [Server.renderAll, apply_quiet s (.flushAll (some d.toNat) true) rfl, Server.render]
    · simp only [hnr]
      have happ : AbsMap.apply s (.flushAll (some d.toNat) false) = applyLoud s (.flushAll (some d.toNat) false) :=
        apply_loud _ _ rfl
      have h := applyLoud_flush s (some d.toNat) false
      rw [onServer_misc_loud cfg s _ [flushCmd d false] _ [.flushAll (some d.toNat) false] _ _ [ofString "OK"]
        (fun evs => by simp only [call, hnr, henc]; rfl) (hparse false) (applyAll_single _ _)]
      · simp
      · simp [Server.renderAll, happ, h, Server.render, joinLines]
      · simpa using plain_OK
      · rfl

/-! ## version, quit -/
theorem versionLine_idx : Server.versionLine.idxOf? SP = some 7 := by
  simp only [Server.versionLine, lit_versionLine]; decide

/-- the server state after `version` is `settle s` (a due delayed flush is applied by any request) -/
theorem refines_version_settle (cfg : Cfg) (s : St) :
    onServer cfg s .version = (settle s, (spec cfg s .version).2, true) := by
  have hparse : parseAll [versionCmd].flatten.length [versionCmd].flatten = some [.version] := by
    simpa using parseAll_single (parsesAs_of fun rest => C02_parse_versionCmd rest)
  rw [onServer_misc_loud cfg s _ [versionCmd] _ [.version] _ _ [Server.versionLine]
    (fun evs => by simp only [call]; rfl) hparse (applyAll_single _ _)]
  · simp only [List.head?_cons, versionLine_idx, spec]
    simp [AbsMap.apply, applyLoud, reqNoreply, Server.versionLine]
  · simp [Server.renderAll, AbsMap.apply, applyLoud, reqNoreply, Server.render, joinLines]
  · simpa using plain_versionLine
  · rfl

theorem refines_version (cfg : Cfg) (s : St) :
    onServer cfg s .version = ((spec cfg s .version).1, (spec cfg s .version).2, true) :=
  refines_version_settle cfg s

theorem refines_quit_settle (cfg : Cfg) (s : St) :
    onServer cfg s .quit = (settle s, (spec cfg s .quit).2, false) := by
  have hparse : parseAll [quitCmd].flatten.length [quitCmd].flatten = some [.quit] := by
    simpa using parseAll_single (parsesAs_of fun rest => C02_parse_quitCmd rest)
  have hfeed := Server.feed_eq s _ _ hparse
  rw [applyAll_single] at hfeed
  have hq : AbsMap.apply s .quit = (settle s, .silent) := rfl
  simp only [hq, Server.renderAll, Server.render, List.append_nil] at hfeed
  rw [onServer_sent cfg s .quit [quitCmd].flatten _ [] ?_ hfeed]
  · simp [call, exchangeMisc_open, spec, Except.map]
  · simp [call, exchangeMisc_open]

theorem refines_quit (cfg : Cfg) (s : St) :
    onServer cfg s .quit = ((spec cfg s .quit).1, (spec cfg s .quit).2, false) :=
  refines_quit_settle cfg s
end Client
