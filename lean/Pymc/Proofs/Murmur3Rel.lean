import Pymc.Model.Murmur3
namespace Murmur

/-- relation: Python unbounded int `n` represents 32-bit word `w` -/
def R (n : Nat) (w : W) : Prop := BitVec.ofNat 32 n = w

theorem R_mul {a b : Nat} {x y : W} (ha : R a x) (hb : R b y) : R (a * b) (x * y) := by
  unfold R at *; subst ha hb; exact BitVec.ofNat_mul ..

theorem R_add {a b : Nat} {x y : W} (ha : R a x) (hb : R b y) : R (a + b) (x + y) := by
  unfold R at *; subst ha hb; exact BitVec.ofNat_add ..

theorem R_xor {a b : Nat} {x y : W} (ha : R a x) (hb : R b y) : R (a ^^^ b) (x ^^^ y) := by
  unfold R at *; subst ha hb
  apply BitVec.eq_of_toNat_eq
  simp [Nat.xor_mod_two_pow]

theorem R_or {a b : Nat} {x y : W} (ha : R a x) (hb : R b y) : R (a ||| b) (x ||| y) := by
  unfold R at *; subst ha hb
  apply BitVec.eq_of_toNat_eq
  simp [Nat.or_mod_two_pow]

theorem R_lit (n : Nat) : R n (BitVec.ofNat 32 n) := rfl

theorem R_shl {a : Nat} {x : W} (ha : R a x) (k : Nat) : R (a <<< k) (x <<< k) := by
  unfold R at *; subst ha
  apply BitVec.eq_of_toNat_eq
  simp [Nat.shiftLeft_eq, Nat.mul_mod]

theorem R_maskshr {a : Nat} {x : W} (ha : R a x) (k : Nat) : R ((a &&& M) >>> k) (x >>> k) := by
  unfold R at *; subst ha
  apply BitVec.eq_of_toNat_eq
  have hM : M = 2^32 - 1 := by decide
  simp only [BitVec.toNat_ofNat, BitVec.toNat_ushiftRight, hM, Nat.and_two_pow_sub_one_eq_mod]
  have h1 : a % 2^32 < 2^32 := Nat.mod_lt _ (by decide)
  have h2 : (a % 2^32) >>> k ≤ a % 2^32 := Nat.shiftRight_le _ _
  exact Nat.mod_eq_of_lt (by omega)

theorem R_rotl {a : Nat} {x : W} (ha : R a x) (r : Nat) (hr : r < 32) :
    R (rotlPy a r) (rotl x r) := by
  unfold rotlPy rotl
  rw [BitVec.rotateLeft_def]
  have : r % 32 = r := Nat.mod_eq_of_lt hr
  rw [this]
  exact R_or (R_shl ha r) (R_maskshr ha (32 - r))

theorem R_mixK {a : Nat} {x : W} (ha : R a x) : R (mixK a) (mixKR x) := by
  unfold mixK mixKR
  exact R_mul (R_rotl (R_mul ha (R_lit _)) 15 (by decide)) (R_lit _)

theorem R_fmix {a : Nat} {x : W} (ha : R a x) (len : Nat) :
    fmixPy a len = (fmixR (x ^^^ BitVec.ofNat 32 len)).toNat := by
  unfold fmixPy fmixR
  have h0 := R_xor ha (R_lit len)
  have h1 := R_xor h0 (R_maskshr h0 16)
  have h2 := R_mul h1 (R_lit 0x85EBCA6B)
  have h3 := R_xor h2 (R_maskshr h2 13)
  have h4 := R_mul h3 (R_lit 0xC2B2AE35)
  have h5 := R_xor h4 (R_maskshr h4 16)
  unfold R at h5
  have hM : M = 2^32 - 1 := by decide
  show _ &&& M = _
  rw [← h5, hM, Nat.and_two_pow_sub_one_eq_mod, BitVec.toNat_ofNat]


theorem R_byte (b : Nat) (hb : b < 256) : R (b &&& 0xFF) ((BitVec.ofNat 8 b).zeroExtend 32) := by
  unfold R
  apply BitVec.eq_of_toNat_eq
  have : b &&& 0xFF = b % 2^8 := Nat.and_two_pow_sub_one_eq_mod b 8
  simp [this]

theorem R_byte' (b : Nat) (hb : b < 256) : R b ((BitVec.ofNat 8 b).zeroExtend 32) := by
  unfold R
  apply BitVec.eq_of_toNat_eq
  simp; omega

theorem R_block {h : Nat} {x : W} (hh : R h x) {b0 b1 b2 b3 : Nat}
    (h0 : b0 < 256) (h1 : b1 < 256) (h2 : b2 < 256) (h3 : b3 < 256) :
    R (block h b0 b1 b2 b3) (blockR x (.ofNat 8 b0) (.ofNat 8 b1) (.ofNat 8 b2) (.ofNat 8 b3)) := by
  unfold block blockR
  exact R_add (R_mul (R_rotl (R_xor hh (R_mixK
    (R_or (R_or (R_or (R_byte b0 h0) (R_shl (R_byte b1 h1) 8)) (R_shl (R_byte b2 h2) 16)) (R_shl (R_byte' b3 h3) 24)))) 13 (by decide)) (R_lit 5)) (R_lit _)

theorem or_eq_xor_disj (a b : W) (h : a &&& b = 0) : a ||| b = a ^^^ b := by
  apply BitVec.eq_of_getLsbD_eq
  intro i hi
  have := congrArg (fun v => v.getLsbD i) h
  simp at this ⊢
  cases ha : a.getLsbD i <;> cases hb : b.getLsbD i <;> simp_all

end Murmur
