import Pymc.Model.PoolConcTimed
import Pymc.Proofs.PoolConcFrame
/-! The timed micro-step model (C09, overlapping callers): runs, refinement of `PoolConc`, state invariant. -/
set_option linter.unusedSimpArgs false
namespace PoolConcT
open PoolConc

/-! ## runs -/

theorem runT_append (o : Bool) (s : TState) (a b : List TLabel) :
    runT o s (a ++ b) = (runT o s a).bind fun s' => runT o s' b := by
  induction a generalizing s with
  | nil => simp [runT]
  | cons l rest ih =>
    simp only [List.cons_append, runT]
    cases stepT o s l with
    | none => simp
    | some s1 => simpa using ih s1

theorem runT_snoc {o : Bool} {s s' : TState} {ls : List TLabel} {l : TLabel} :
    runT o s (ls ++ [l]) = some s' ↔ ∃ s1, runT o s ls = some s1 ∧ stepT o s1 l = some s' := by
  rw [runT_append]
  cases h : runT o s ls with
  | none => simp
  | some s1 =>
    simp only [Option.bind_some, runT, Option.some.injEq, exists_eq_left']
    cases stepT o s1 l <;> simp

theorem runT_split {o : Bool} {s s' : TState} {a b : List TLabel} (h : runT o s (a ++ b) = some s') :
    ∃ s1, runT o s a = some s1 ∧ runT o s1 b = some s' := by
  rw [runT_append] at h
  cases h1 : runT o s a with
  | none => simp [h1] at h
  | some s1 => exact ⟨s1, rfl, by simpa [h1] using h⟩

/-- induction over runs that grow at the end -/
theorem runT_induction {o : Bool} {s0 : TState} {motive : List TLabel → TState → Prop}
    (nil : motive [] s0)
    (snoc : ∀ ls s l s', runT o s0 ls = some s → motive ls s → stepT o s l = some s' → motive (ls ++ [l]) s') :
    ∀ ls s, runT o s0 ls = some s → motive ls s := by
  intro ls
  generalize hn : ls.length = n
  induction n generalizing ls with
  | zero =>
    intro s h
    have : ls = [] := List.eq_nil_of_length_eq_zero hn
    subst this; simp [runT] at h; subst h; exact nil
  | succ n ih =>
    intro s h
    rcases List.eq_nil_or_concat ls with rfl | ⟨ls', l, rfl⟩
    · simp at hn
    · rw [List.concat_eq_append] at h hn ⊢
      obtain ⟨s1, h1, h2⟩ := runT_snoc.mp h
      have hl : ls'.length = n := by simp at hn; omega
      exact snoc ls' s1 l s h1 (ih ls' hl s1 h1) h2

/-! ## the kinds of micro-steps -/

/-- `stepT` as a relation, one constructor per kind of micro-step -/
inductive StepRel (outside : Bool) (s : TState) : TLabel → TState → Prop
  | tick (d : Nat) : StepRel outside s (.tick d) { s with clock := s.clock + d }
  | base (t : Tid) (lb : Label) (b : State) (l : TLabel) :
      (l = .run t ∧ lb = labelOf s t ∨ l = .runCreateFail t ∧ lb = .createFail) → s.pend t = .none →
      step s.base t lb = some b →
      StepRel outside s l { s with base := b, pend := upd s.pend t (pendAfter (s.base.th t).pc (s.base.th t).prog lb) }
  | readNow (t : Tid) : s.pend t = .readNow →
      StepRel outside s (.run t) { s with now := upd s.now t s.clock, pend := upd s.pend t .none }
  | stampGet (t : Tid) (o : Obj) : s.pend t = .stampGet o →
      StepRel outside s (.run t) { s with lastUsed := upd s.lastUsed o (s.now t), pend := upd s.pend t .none }
  | stampRel (t : Tid) (o : Obj) : s.pend t = .stampRel o → (outside = false ∨ (s.base.th t).pc ≠ .relRel) →
      StepRel outside s (.run t) { s with lastUsed := upd s.lastUsed o s.clock, pend := upd s.pend t .none }
  | leaveFirst (t : Tid) (o : Obj) (b : State) : s.pend t = .stampRel o → outside = true → (s.base.th t).pc = .relRel →
      step s.base t .tau = some b → StepRel outside s (.run t) { s with base := b }

theorem stepRel_of_stepT {outside : Bool} {s s' : TState} {l : TLabel} (h : stepT outside s l = some s') :
    StepRel outside s l s' := by
  unfold stepT stepTE at h
  cases l with
  | tick d => simp at h; subst h; exact .tick d
  | runCreateFail t =>
    simp only at h
    split at h
    · next hp =>
      unfold baseStep at h
      cases hb : stepE s.base t .createFail with
      | none => simp [hb] at h
      | some p =>
        simp [hb] at h; subst h
        exact .base t .createFail p.1 _ (Or.inr ⟨rfl, rfl⟩) hp (by simp [step, hb])
    · simp at h
  | run t =>
    simp only at h
    split at h
    · next hp =>
      unfold baseStep at h
      cases hb : stepE s.base t (labelOf s t) with
      | none => simp [hb] at h
      | some p =>
        simp [hb] at h; subst h
        exact .base t (labelOf s t) p.1 _ (Or.inl ⟨rfl, rfl⟩) hp (by simp [step, hb])
    · next hp => simp at h; subst h; exact .readNow t hp
    · next o hp => simp at h; subst h; exact .stampGet t o hp
    · next o hp =>
      split at h
      · next hc =>
        simp only [Bool.and_eq_true, decide_eq_true_eq] at hc
        cases hb : stepE s.base t .tau with
        | none => simp [hb] at h
        | some p =>
          simp [hb] at h; subst h
          exact .leaveFirst t o p.1 hp hc.1 hc.2 (by simp [step, hb])
      · next hc =>
        simp only [Bool.and_eq_true, decide_eq_true_eq, not_and] at hc
        simp at h; subst h
        refine .stampRel t o hp ?_
        cases outside with
        | false => exact Or.inl rfl
        | true => exact Or.inr (hc rfl)

/-! ## refinement: a timed run is a run of `PoolConc` -/

/-- one timed micro-step is one micro-step of `PoolConc` on `base`, or leaves `base` unchanged -/
theorem C09c_step_refines {outside : Bool} {s s' : TState} {l : TLabel} (h : stepT outside s l = some s') :
    s'.base = s.base ∨ ∃ t lb, step s.base t lb = some s'.base := by
  cases stepRel_of_stepT h with
  | tick d => exact Or.inl rfl
  | base t lb b l _ _ hb => exact Or.inr ⟨t, lb, hb⟩
  | readNow t _ => exact Or.inl rfl
  | stampGet t o _ => exact Or.inl rfl
  | stampRel t o _ _ => exact Or.inl rfl
  | leaveFirst t o b _ _ _ hb => exact Or.inr ⟨t, .tau, hb⟩

/-- forgetting clock and stamps: the `PoolConc` schedule `projSched` of a timed run is a run of `PoolConc`
from the forgotten start state to the forgotten end state -/
theorem run_refines (outside : Bool) (s s' : TState) (ls : List TLabel) (h : runT outside s ls = some s') :
    run s.base (projSched outside s ls) = some s'.base := by
  induction ls generalizing s with
  | nil => simp [runT] at h; subst h; simp [projSched, run]
  | cons l rest ih =>
    simp only [runT] at h
    cases h1 : stepT outside s l with
    | none => simp [h1] at h
    | some s1 =>
      simp only [h1] at h
      have ih' := ih s1 h
      simp only [projSched, h1]
      cases stepRel_of_stepT h1 with
      | tick d => simpa using ih'
      | base t lb b l hl hp hb =>
        rcases hl with ⟨rfl, rfl⟩ | ⟨rfl, rfl⟩
        · simp only [hp, List.cons_append, List.nil_append, run, hb]; exact ih'
        · simp only [List.cons_append, List.nil_append, run, hb]; exact ih'
      | readNow t hp => simp only [hp, List.nil_append]; exact ih'
      | stampGet t o hp => simp only [hp, List.nil_append]; exact ih'
      | stampRel t o hp hc =>
        simp only [hp]
        have : (outside && decide ((s.base.th t).pc = .relRel)) = false := by
          rcases hc with rfl | hc
          · simp
          · simp [hc]
        simp only [this, Bool.false_eq_true, if_false, List.nil_append]; exact ih'
      | leaveFirst t o b hp ho hpc hb =>
        subst ho
        simp only [hp, hpc, decide_true, Bool.and_self, if_true, List.cons_append, List.nil_append, run, hb]
        exact ih'

theorem base_reachable {outside : Bool} {programs : List Program} {maxSize idleTimeout : Nat} {s : TState} {ls : List TLabel}
    (h : runT outside (initT programs maxSize idleTimeout) ls = some s) : Reachable programs maxSize s.base :=
  reachable_run Reachable.init _ (run_refines outside _ _ ls h)

end PoolConcT
