import Pymc.Model.Miss
import Pymc.Proofs.ClientShapeAll
/-! Helper lemmas for C07 / C10: what `ignore_exc` does to a fetch exchange and to the read operations. -/
namespace Exchange
open Bytes Readers Wire

/-- with `ignore_exc` a fetch exchange returns normally or raises a `BaseException` -/
theorem exchangeFetch_ie_res (kind : FetchKind) (cmd : Bytes) (wanted : List Bytes) (so : Bool) (sc : Script) :
    (∃ r, (exchangeFetch kind cmd wanted true so sc).res = .ok r) ∨
    (∃ e, (exchangeFetch kind cmd wanted true so sc).res = .error e ∧ isBaseExc e = true) := by
  unfold exchangeFetch
  dsimp only
  split
  · rename_i e _
    cases hb : isBaseExc e <;> simp [hb]
  · split
    · rename_i e _
      cases hb : isBaseExc e <;> simp [hb]
    · split
      · exact .inl ⟨_, rfl⟩
      · rename_i e _
        cases hb : isBaseExc e <;> simp [hb]

/-- the three places where a fetch exchange can fail, made explicit -/
theorem exchangeFetch_cases (kind : FetchKind) (cmd : Bytes) (wanted : List Bytes) (so : Bool) (sc : Script) :
    (∃ e cn sn un, ∀ ie, exchangeFetch kind cmd wanted ie so sc =
        ⟨if ie && !isBaseExc e then .ok [] else .error e, false, cn, sn, un⟩) ∨
    (∃ r cn sn un, ∀ ie, exchangeFetch kind cmd wanted ie so sc = ⟨.ok r, true, cn, sn, un⟩) := by
  unfold exchangeFetch
  dsimp only
  cases hc : (if so = true then none else sc.connectFails) with
  | some e => exact .inl ⟨e, _, _, _, fun ie => rfl⟩
  | none =>
    cases hs : sc.sendFails with
    | some e => exact .inl ⟨e, _, _, _, fun ie => rfl⟩
    | none =>
      cases hr : (fetchLoop kind wanted (totalLen [] sc.evs) [] sc.evs []).res with
      | ok r => exact .inr ⟨r, _, _, _, fun ie => rfl⟩
      | error e => exact .inl ⟨e, _, _, _, fun ie => rfl⟩

/-- an ordinary exception of the exchange becomes the empty result; everything else about the outcome is as without
`ignore_exc`, in particular the socket is closed -/
theorem exchangeFetch_ie_miss (kind : FetchKind) (cmd : Bytes) (wanted : List Bytes) (so : Bool) (sc : Script)
    (e : Exc) (he : (exchangeFetch kind cmd wanted false so sc).res = .error e) (hb : isBaseExc e = false) :
    exchangeFetch kind cmd wanted true so sc =
      ⟨.ok [], false, (exchangeFetch kind cmd wanted false so sc).connected,
        (exchangeFetch kind cmd wanted false so sc).sent, (exchangeFetch kind cmd wanted false so sc).unread⟩ := by
  rcases exchangeFetch_cases kind cmd wanted so sc with ⟨e', cn, sn, un, h⟩ | ⟨r, cn, sn, un, h⟩
  · rw [h false] at he ⊢
    simp only [Bool.false_and, Bool.false_eq_true, if_false, Except.error.injEq] at he
    subst he
    rw [h true]
    simp [hb]
  · rw [h false] at he; cases he

/-- a `BaseException` is not swallowed and the outcome is exactly the one without `ignore_exc` -/
theorem exchangeFetch_ie_base (kind : FetchKind) (cmd : Bytes) (wanted : List Bytes) (so : Bool) (sc : Script)
    (e : Exc) (he : (exchangeFetch kind cmd wanted false so sc).res = .error e) (hb : isBaseExc e = true) :
    exchangeFetch kind cmd wanted true so sc = exchangeFetch kind cmd wanted false so sc := by
  rcases exchangeFetch_cases kind cmd wanted so sc with ⟨e', cn, sn, un, h⟩ | ⟨r, cn, sn, un, h⟩
  · rw [h false] at he ⊢
    simp only [Bool.false_and, Bool.false_eq_true, if_false, Except.error.injEq] at he
    subst he
    rw [h true]
    simp [hb]
  · rw [h false] at he; cases he

/-- a normal return is untouched by `ignore_exc` -/
theorem exchangeFetch_ie_ok (kind : FetchKind) (cmd : Bytes) (wanted : List Bytes) (so : Bool) (sc : Script)
    (r : List FetchEntry) (he : (exchangeFetch kind cmd wanted false so sc).res = .ok r) :
    exchangeFetch kind cmd wanted true so sc = exchangeFetch kind cmd wanted false so sc := by
  rcases exchangeFetch_cases kind cmd wanted so sc with ⟨e', cn, sn, un, h⟩ | ⟨r, cn, sn, un, h⟩
  · rw [h false] at he; simp at he
  · rw [h true, h false]

/-- every exception of a fetch exchange closes the socket, whatever its class and whatever `ignore_exc` -/
theorem exchangeFetch_error_closed (kind : FetchKind) (cmd : Bytes) (wanted : List Bytes) (ie so : Bool) (sc : Script)
    (e : Exc) (he : (exchangeFetch kind cmd wanted ie so sc).res = .error e) :
    (exchangeFetch kind cmd wanted ie so sc).sockOpen = false := by
  rcases exchangeFetch_cases kind cmd wanted so sc with ⟨e', cn, sn, un, h⟩ | ⟨r, cn, sn, un, h⟩
  · rw [h ie]
  · rw [h ie] at he; cases he
end Exchange

namespace Client
open Bytes Readers Wire Framing Exchange

/-- `fetchValues`: either the arguments are rejected before any I/O, or it is a fetch exchange followed by a
post-processing that maps "nothing fetched" to the empty dict -/
theorem fetchValues_cases (cfg : Cfg) (verb : FVerb) (ks : List Key.K) (ex : Option IntArg) :
    (∃ (cmd : Bytes) (wanted : List Bytes) (h : List FetchEntry → List (Key.K × Item)),
      ks.mapM (checkKey cfg) = .ok wanted ∧ encodeFetch cfg verb ks ex = .ok cmd ∧ h [] = [] ∧
      ∀ ie so sc, fetchValues cfg ie verb ks ex so sc =
      mapOut (exchangeFetch (.values (verb = .gets || verb = .gats)) cmd wanted ie so sc)
        fun r => .ok (h r)) ∨
    ((∀ ie so sc, fetchValues cfg ie verb ks ex so sc = early .illegalInput so sc) ∧
      ((∃ e, ks.mapM (checkKey cfg) = .error e) ∨ (∃ e, encodeFetch cfg verb ks ex = .error e))) := by
  cases hw : ks.mapM (checkKey cfg) with
  | error e => right; exact ⟨fun ie so sc => by simp only [fetchValues, hw], .inl ⟨e, rfl⟩⟩
  | ok wire =>
    cases hc : encodeFetch cfg verb ks ex with
    | error e => right; exact ⟨fun ie so sc => by simp only [fetchValues, hw, hc], .inr ⟨e, rfl⟩⟩
    | ok cmd =>
      left
      refine ⟨cmd, wire, fun entries => entries.foldl (fun d e => match e with
        | .item it => (match remapLookup (wire.zip ks) it.key with
            | some k => dictSet d k it
            | none => d)
        | .stat _ _ => d) [], rfl, rfl, rfl, fun ie so sc => by simp only [fetchValues, hw, hc] <;> rfl⟩

/-- the read operations: the arguments and the post-processing of each -/
inductive ReadShape (cfg : Cfg) (c : Call) : Prop
  | empty
      (hcall : ∀ ie so sc, call cfg ie so c sc = ⟨.ok (missRes c), so, false, none, sc.evs⟩)
  | illegal
      (hcall : ∀ ie so sc, call cfg ie so c sc = ⟨.error .illegalInput, so, false, none, sc.evs⟩)
  | fetch (kind : FetchKind) (cmd : Bytes) (wanted : List Bytes) (g : List FetchEntry → Res)
      (hmiss : g [] = missRes c)
      (hcall : ∀ ie so sc, call cfg ie so c sc =
        mapOut (exchangeFetch kind cmd wanted ie so sc) fun r => .ok (g r))

theorem readShape_of_fetchValues (cfg : Cfg) (c : Call) (verb : FVerb) (ks : List Key.K) (ex : Option IntArg)
    (g : List (Key.K × Item) → Res) (hg : g [] = missRes c)
    (hcall : ∀ ie so sc, call cfg ie so c sc =
      mapOut (fetchValues cfg ie verb ks ex so sc) fun d => .ok (g d)) :
    ReadShape cfg c := by
  rcases fetchValues_cases cfg verb ks ex with ⟨cmd, wanted, h, -, -, h0, hf⟩ | ⟨hf, -⟩
  · exact .fetch _ cmd wanted (fun r => g (h r)) (by rw [h0, hg])
      (fun ie so sc => by rw [hcall, hf, mapOut_mapOut_ok])
  · exact .illegal (fun ie so sc => by rw [hcall, hf, mapOut_early])

theorem readShape (cfg : Cfg) (c : Call) (hr : isRead c = true) : ReadShape cfg c := by
  cases c with
  | get k =>
    refine readShape_of_fetchValues cfg _ .get [k] none _ ?_
      (fun ie so sc => by simp only [call] <;> rfl)
    rfl
  | gat k e =>
    refine readShape_of_fetchValues cfg _ .gat [k] (some e) _ ?_
      (fun ie so sc => by simp only [call] <;> rfl)
    rfl
  | gets k =>
    refine readShape_of_fetchValues cfg _ .gets [k] none _ ?_
      (fun ie so sc => by simp only [call] <;> rfl)
    rfl
  | gats k e =>
    refine readShape_of_fetchValues cfg _ .gats [k] (some e) _ ?_
      (fun ie so sc => by simp only [call] <;> rfl)
    rfl
  | getMany ks =>
    by_cases hks : ks = []
    · exact .empty (fun ie so sc => by simp only [call, hks, if_true, missRes])
    · refine readShape_of_fetchValues cfg _ .get ks none _ ?_
        (fun ie so sc => by simp only [call, hks, if_false] <;> rfl)
      rfl
  | getsMany ks =>
    by_cases hks : ks = []
    · exact .empty (fun ie so sc => by simp only [call, hks, if_true, missRes])
    · refine readShape_of_fetchValues cfg _ .gets ks none _ ?_
        (fun ie so sc => by simp only [call, hks, if_false] <;> rfl)
      rfl
  | stats args =>
    cases hw : args.mapM (checkArg cfg) with
    | error e => exact .illegal (fun ie so sc => by simp only [call, hw, early])
    | ok wire =>
      exact .fetch .stats (adminFetchCmd (ofString "stats") wire) wire
        (fun r => .stats (statsDict (wire.zip args) r)) rfl (fun ie so sc => by simp only [call, hw])
  | cacheMemlimit m =>
    cases hm : checkInteger m with
    | error e => exact .illegal (fun ie so sc => by simp only [call, hm, early])
    | ok i =>
      cases hw : checkArg cfg (.bytes (intDec i)) with
      | error e => exact .illegal (fun ie so sc => by simp only [call, hm, hw, early])
      | ok w =>
        exact .fetch (.values false) (adminFetchCmd (ofString "cache_memlimit") [w]) [w]
          (fun _ => .bool true) rfl (fun ie so sc => by simp only [call, hm, hw])
  | _ => simp [isRead] at hr

/-! ## the calls -/
theorem sends_of_readShape_fetch {cfg c kind cmd wanted} {g : List FetchEntry → Res}
    (hcall : ∀ ie so sc, call cfg ie so c sc =
      mapOut (exchangeFetch kind cmd wanted ie so sc) fun r => .ok (g r)) : sends cfg c = true :=
  sends_of_fetch hcall

theorem call_ie_never_raises (cfg : Cfg) (so : Bool) (c : Call) (sc : Script) (hr : isRead c = true) :
    (∃ r, (call cfg true so c sc).res = .ok r) ∨
    ((call cfg true so c sc).res = .error .illegalInput ∧ (call cfg true so c sc).sent = none ∧
      (call cfg true so c sc).sockOpen = so ∧ sends cfg c = false) ∨
    (∃ e, (call cfg true so c sc).res = .error e ∧ isBaseExc e = true) := by
  rcases readShape cfg c hr with hcall | hcall | ⟨kind, cmd, wanted, g, -, hcall⟩
  · exact .inl ⟨_, by rw [hcall]⟩
  · exact .inr (.inl ⟨by rw [hcall], by rw [hcall], by rw [hcall], sends_of_silent hcall⟩)
  · rcases exchangeFetch_ie_res kind cmd wanted so sc with ⟨r, h⟩ | ⟨e, h, hb⟩
    · exact .inl ⟨g r, by rw [hcall, mapOut_res_ok _ _ h]⟩
    · exact .inr (.inr ⟨e, by rw [hcall, mapOut_res_error _ _ h], hb⟩)

theorem call_ie_miss (cfg : Cfg) (so : Bool) (c : Call) (sc : Script) (hr : isRead c = true)
    (hs : sends cfg c = true) (e : Exc) (he : (call cfg false so c sc).res = .error e)
    (hb : isBaseExc e = false) :
    call cfg true so c sc = ⟨.ok (missRes c), false, (call cfg false so c sc).connected,
      (call cfg false so c sc).sent, (call cfg false so c sc).unread⟩ := by
  rcases readShape cfg c hr with hcall | hcall | ⟨kind, cmd, wanted, g, hmiss, hcall⟩
  · rw [sends_of_silent hcall] at hs; cases hs
  · rw [sends_of_silent hcall] at hs; cases hs
  · have he' : (exchangeFetch kind cmd wanted false so sc).res = .error e := by
      rw [hcall] at he
      cases hx : (exchangeFetch kind cmd wanted false so sc).res with
      | ok r => rw [mapOut_res_ok _ _ hx] at he; cases he
      | error e' => rw [mapOut_res_error _ _ hx] at he; cases he; rfl
    rw [hcall true, hcall false, exchangeFetch_ie_miss kind cmd wanted so sc e he' hb]
    simp [mapOut, hmiss, he']

theorem call_ie_same (cfg : Cfg) (so : Bool) (c : Call) (sc : Script)
    (h : (∃ r, (call cfg false so c sc).res = .ok r) ∨
      (∃ e, (call cfg false so c sc).res = .error e ∧ isBaseExc e = true)) :
    call cfg true so c sc = call cfg false so c sc := by
  by_cases hr : isRead c = true
  · rcases readShape cfg c hr with hcall | hcall | ⟨kind, cmd, wanted, g, hmiss, hcall⟩
    · rw [hcall, hcall]
    · rw [hcall, hcall]
    · rw [hcall true, hcall false]
      rw [hcall false] at h
      cases hx : (exchangeFetch kind cmd wanted false so sc).res with
      | ok r => rw [exchangeFetch_ie_ok kind cmd wanted so sc r hx]
      | error e =>
        rw [mapOut_res_error _ _ hx] at h
        rcases h with ⟨r, h⟩ | ⟨e', h, hb⟩
        · cases h
        · cases h
          rw [exchangeFetch_ie_base kind cmd wanted so sc e hx hb]
  · cases c <;> first | rfl | (exfalso; exact hr rfl)

/-- an exception other than an argument error means the request went to the connection -/
theorem sends_of_error (cfg : Cfg) (ie so : Bool) (c : Call) (sc : Script) (hr : isRead c = true)
    (e : Exc) (he : (call cfg ie so c sc).res = .error e) (hne : e ≠ .illegalInput) : sends cfg c = true := by
  rcases readShape cfg c hr with hcall | hcall | ⟨kind, cmd, wanted, g, hmiss, hcall⟩
  · rw [hcall] at he; cases he
  · rw [hcall] at he; cases he; exact absurd rfl hne
  · exact sends_of_fetch hcall
end Client
