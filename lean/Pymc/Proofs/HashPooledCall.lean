import Pymc.Model.HashPooledCall
import Pymc.Proofs.HashInnerRun
import Pymc.Proofs.PooledCallRun
import Pymc.Proofs.PooledInv
/-!
# `HashClient ∘ PooledClient ∘ Client`: the invariants of the pools

The generic development (`HashInnerProj.lean`, `HashInnerRun.lean`) instantiated with the pooled contact
(`HashPooledCall.pooled`): an invocation is one `PooledCall.callP`, so what `PooledCallRun.lean` / `PooledCallProj.lean`
prove about one pooled call — the C01 invariant `PipesClean` / `PipesQuiet`, coherence, the refinement of `Pooled.callT`
and with it `Pooled.Inv` — are invariants of every pool registered in `self.clients`; a fresh `PooledClient` has the
empty pool, which satisfies them.
-/
namespace HashPooledCall
open Exchange Client Framing Failover HashInner

variable {pcfg : Pooled.Cfg}

/-- `self.clients`, per server: the number of the `PooledClient` registered for it and its pool -/
def pools (st : St pcfg) : List (Srv × Nat × PooledCall.St) := st.clients.map fun x => (x.1, x.2.id, x.2.st)

theorem mem_pools {st : St pcfg} {p : Srv × Nat × PooledCall.St} (h : p ∈ pools st) :
    ∃ x ∈ st.clients, p.2.2 = x.2.st := by
  obtain ⟨x, hx, rfl⟩ := List.mem_map.mp h
  exact ⟨x, hx, rfl⟩

theorem step_eq (ccfg : Wire.Cfg) (idx now fin : Nat) (p : PooledCall.St) (call : Call) (sc : Script) :
    (pooled pcfg).step ccfg idx now fin p call sc = PooledCall.callP ccfg pcfg false p idx now fin call sc := rfl

/-! ## C01: the pipes of the idle inner clients -/

/-- every pool registered in `self.clients` satisfies the C01 invariant of `PooledCall`: every idle inner client with an
open socket has only interrupted `recv()` attempts left in its pipe -/
def PipesClean (st : St pcfg) : Prop := AllObjs (I := pooled pcfg) PooledCall.PipesClean st

/-- … has no byte readable from its pipe before a fault -/
def PipesQuiet (st : St pcfg) : Prop := AllObjs (I := pooled pcfg) PooledCall.PipesQuiet st

theorem runHP_clean {Key : Type} (ccfg : Wire.Cfg) (c : Cfg) (route : List Srv → Key → Option Srv) (st : St pcfg) (k : Nat)
    (calls : List (HPCall Key)) (hinv : PipesClean st) (hwf : ∀ hc ∈ calls, WellFramed ccfg hc.call hc.sc.evs) :
    PipesClean (runHP ccfg pcfg c route st k calls).1 ∧
    ∀ i ob, (runHP ccfg pcfg c route st k calls).2[i]? = some ob → ∀ stp, stepOf ob = some stp →
      stp.idx = k + i ∧ StepFacts ccfg false stp := by
  obtain ⟨h1, h2⟩ := runG_inv (I := pooled pcfg) ccfg c route st k calls PooledCall.PipesClean
    (fun idx _ po => ∀ stp, po.step = some stp → stp.idx = idx ∧ StepFacts ccfg false stp)
    PooledCall.pipesClean_init
    (fun gc hgc idx x hx => PooledCall.callP_clean ccfg pcfg false x idx gc.now gc.fin gc.call gc.sc hx (hwf gc hgc))
    hinv
  refine ⟨h1, fun i ob hi stp hstp => ?_⟩
  obtain ⟨gc, -, hq⟩ := h2 i ob hi
  unfold stepOf at hstp
  cases ho : ob.inner with
  | none => rw [ho] at hstp; cases hstp
  | some po =>
    rw [ho] at hstp
    exact hq po ho stp hstp

theorem runHP_quiet {Key : Type} (ccfg : Wire.Cfg) (c : Cfg) (route : List Srv → Key → Option Srv) (st : St pcfg) (k : Nat)
    (calls : List (HPCall Key)) (hinv : PipesQuiet st) (hff : ∀ hc ∈ calls, FaultFramed ccfg hc.call hc.sc.evs) :
    PipesQuiet (runHP ccfg pcfg c route st k calls).1 ∧
    ∀ i ob, (runHP ccfg pcfg c route st k calls).2[i]? = some ob → ∀ stp, stepOf ob = some stp →
      stp.idx = k + i ∧ StepFactsF stp := by
  obtain ⟨h1, h2⟩ := runG_inv (I := pooled pcfg) ccfg c route st k calls PooledCall.PipesQuiet
    (fun idx _ po => ∀ stp, po.step = some stp → stp.idx = idx ∧ StepFactsF stp)
    PooledCall.pipesQuiet_init
    (fun gc hgc idx x hx => PooledCall.callP_quiet ccfg pcfg false x idx gc.now gc.fin gc.call gc.sc hx (hff gc hgc))
    hinv
  refine ⟨h1, fun i ob hi stp hstp => ?_⟩
  obtain ⟨gc, -, hq⟩ := h2 i ob hi
  unfold stepOf at hstp
  cases ho : ob.inner with
  | none => rw [ho] at hstp; cases hstp
  | some po =>
    rw [ho] at hstp
    exact hq po ho stp hstp

theorem pipesClean_init (servers : List Srv) (t0 : Time) : PipesClean (init pcfg servers t0) :=
  allObjs_init (I := pooled pcfg) _ PooledCall.pipesClean_init servers t0

theorem pipesQuiet_init (servers : List Srv) (t0 : Time) : PipesQuiet (init pcfg servers t0) :=
  allObjs_init (I := pooled pcfg) _ PooledCall.pipesQuiet_init servers t0

/-- the `PooledClient`s are built without `ignore_exc`: nothing is swallowed by the pooled wrapper -/
theorem swallows_false (c : Call) (e : Exc) : PooledCall.swallows false c e = false := rfl

/-- every observed inner step of a run is the inner `Client.call` of the corresponding call of the history on some inner
client of the pool registered for the routed server; the `PooledClient` method returned or raised what that call
returned or raised; and the `HashClient` method's result is determined by it as `ResOfInner` says -/
theorem runHP_steps {Key : Type} (ccfg : Wire.Cfg) (c : Cfg) (route : List Srv → Key → Option Srv) (st : St pcfg) (k : Nat)
    (calls : List (HPCall Key)) :
    ∀ (i : Nat) (ob : HPObs pcfg), (runHP ccfg pcfg c route st k calls).2[i]? = some ob →
      ∃ hc, calls[i]? = some hc ∧
        ∀ stp, stepOf ob = some stp →
          (∃ so left, stp = PooledCall.stepTagged ccfg (k + i) so left hc.call hc.sc) ∧
          ∃ po : PooledCall.PObs, ob.inner = some po ∧ po.step = some stp ∧ po.res = some stp.out.res ∧
            ResOfInner (I := pooled pcfg) c ob.res po := by
  intro i ob hi
  obtain ⟨gc, hgc, h⟩ := runG_steps (I := pooled pcfg) ccfg c route st k calls i ob hi
  refine ⟨gc, hgc, fun stp hstp => ?_⟩
  unfold stepOf at hstp
  cases ho : ob.inner with
  | none => rw [ho] at hstp; cases hstp
  | some po =>
    rw [ho] at hstp
    obtain ⟨⟨p, hpo⟩, hres⟩ := h po ho
    have hpo : po = (PooledCall.callP ccfg pcfg false p (k + i) gc.now gc.fin gc.call gc.sc).2 := hpo
    have hstp : po.step = some stp := hstp
    have hstp' : (PooledCall.callP ccfg pcfg false p (k + i) gc.now gc.fin gc.call gc.sc).2.step = some stp := by
      rw [← hpo]; exact hstp
    refine ⟨?_, po, rfl, hstp, ?_, hres⟩
    · rcases PooledCall.callP_spec ccfg pcfg false p (k + i) gc.now gc.fin gc.call gc.sc with ⟨s1, -, hr⟩ | ⟨s1, cl, -, hs, -, -, -⟩
      · rw [hr] at hstp'; simp at hstp'
      · rw [hs] at hstp'
        exact ⟨cl.sockOpen, cl.pipe, (Option.some.inj hstp').symm⟩
    · rcases (PooledCall.callP_res ccfg pcfg false p (k + i) gc.now gc.fin gc.call gc.sc stp hstp').1 with h' | ⟨e, -, hsw, -⟩
      · rw [hpo]; exact h'
      · rw [swallows_false] at hsw; cases hsw

/-! ## C09: the pool invariants -/

/-- the C09 invariants of one pool: coherent, and its projection satisfies `Pooled.Inv` -/
def PoolOK (p : PooledCall.St) : Prop := PooledCall.Coh p ∧ Pooled.Inv p.proj

theorem poolOK_init : PoolOK {} := ⟨PooledCall.coh_init, Pooled.inv_init⟩

theorem poolOK_callP (ccfg : Wire.Cfg) (ie : Bool) (p : PooledCall.St) (idx now fin : Nat) (call : Call) (sc : Script)
    (h : PoolOK p) : PoolOK (PooledCall.callP ccfg pcfg ie p idx now fin call sc).1 := by
  refine ⟨PooledCall.coh_callP ccfg pcfg ie p idx now fin call sc h.1, ?_⟩
  rw [(PooledCall.callP_proj ccfg pcfg ie p idx now fin call sc h.1).1]
  exact Pooled.inv_callT now fin _ h.2

/-- in a pool that satisfies the invariants (nobody checked out) and may hold at least one client, `get()` does not
raise: the pooled call is served by some inner client -/
theorem callP_served (ccfg : Wire.Cfg) (ie : Bool) (p : PooledCall.St) (idx now fin : Nat) (call : Call) (sc : Script)
    (h : PoolOK p) (hmax : pcfg.maxSize ≠ 0) :
    (PooledCall.callP ccfg pcfg ie p idx now fin call sc).2.res ≠ none := by
  have hused : p.used = [] := PooledCall.used_nil_of_proj h.2.used_nil
  rcases PooledCall.callP_spec ccfg pcfg ie p idx now fin call sc with ⟨s1, hg, -⟩ | ⟨s1, cl, hg, hstep, -, -, -⟩
  · exfalso
    simp only [PooledCall.get, hused] at hg
    rcases hp : PooledCall.popFresh pcfg (Pooled.clock pcfg now) p.free with ⟨_ | c, rest, cld⟩
    · rw [hp] at hg
      simp [hmax] at hg
    · rw [hp] at hg
      simp at hg
  · intro hres
    have := (PooledCall.callP_res ccfg pcfg ie p idx now fin call sc _ hstep).1
    rcases this with h' | ⟨_, _, _, h'⟩ <;> rw [hres] at h' <;> cases h'

/-- the C09 invariants hold of every pool registered in `self.clients` -/
def PoolsOK (st : St pcfg) : Prop := AllObjs (I := pooled pcfg) PoolOK st

theorem poolsOK_init (servers : List Srv) (t0 : Time) : PoolsOK (init pcfg servers t0) :=
  allObjs_init (I := pooled pcfg) _ poolOK_init servers t0

theorem runHP_poolsOK {Key : Type} (ccfg : Wire.Cfg) (c : Cfg) (route : List Srv → Key → Option Srv) (st : St pcfg) (k : Nat)
    (calls : List (HPCall Key)) (hinv : PoolsOK st) :
    PoolsOK (runHP ccfg pcfg c route st k calls).1 ∧
    (pcfg.maxSize ≠ 0 → ∀ ob ∈ (runHP ccfg pcfg c route st k calls).2, ∀ po, ob.inner = some po → po.res ≠ none) := by
  obtain ⟨h1, h2⟩ := runG_inv (I := pooled pcfg) ccfg c route st k calls PoolOK
    (fun _ _ po => pcfg.maxSize ≠ 0 → po.res ≠ none) poolOK_init
    (fun gc _ idx x hx => ⟨poolOK_callP ccfg false x idx gc.now gc.fin gc.call gc.sc hx,
      fun hmax => callP_served ccfg false x idx gc.now gc.fin gc.call gc.sc hx hmax⟩)
    hinv
  refine ⟨h1, fun hmax ob hob po hpo => ?_⟩
  obtain ⟨i, hi⟩ := List.getElem?_of_mem hob
  obtain ⟨gc, -, hq⟩ := h2 i ob hi
  exact hq po hpo hmax

/-! ## C13: the outcome of a pooled contact -/

theorem clsOutcome_classOf (e : Exc) : clsOutcome (classOf e) = HashCall.excOutcome e := by
  unfold classOf HashCall.excOutcome
  cases hb : isBaseExc e
  · cases ho : HashCall.isOSError e <;> simp [clsOutcome]
  · simp [clsOutcome, HashCall.isOSError_of_base hb]

/-- the outcome of a pooled contact is `HashCall.outcomeOf` of what the `PooledClient` method returned or raised -/
theorem outcomeOf_pooled (po : PooledCall.PObs) :
    outcomeOf (pooled pcfg) ((pooled pcfg).res po) = outcomeOfP po.res := by
  show outcomeOf (pooled pcfg) (resOf po) = _
  unfold resOf outcomeOfP
  rcases po.res with _ | (e | r)
  · rfl
  · exact clsOutcome_classOf e
  · rfl
end HashPooledCall
