import Pymc.Proofs.PoolConcInv
/-! Preservation of the close-accounting conjuncts of `Inv` (and of `owes`) by one micro-step. -/
set_option linter.unusedSimpArgs false
namespace PoolConc

theorem ccPool_step (s s' : State) (t : Tid) (l : Label) (h : Inv s) (hs : step s t l = some s') :
    ∀ o, o ∈ s'.used ∨ o ∈ s'.free → s'.closedCnt o = 0 := by
  have hp := h.ccPool
  have ho := h.ccOwn t
  have hd := h.ownDisj t
  step_cases hs
  all_goals (intro o; have hpo := hp o; have hoo := ho o; clear hp ho h
             simp only [goto, finish, setTh, close]; (try simp_all) <;> grind)

theorem ccOwn_step (s s' : State) (t : Tid) (l : Label) (h : Inv s) (hs : step s t l = some s') :
    ∀ u o, o ∈ (s'.th u).pc.own → s'.closedCnt o = 0 := by
  have hp := h.ccPool
  have ho := h.ccOwn
  have hx := h.ownExcl
  have hnd := h.ownNodup t
  have hnew := h.ccNew
  step_cases hs
  all_goals (intro u o; have hpo := hp o; have hou := ho u o; have hot := ho t o; have hxu := hx u t o; have hn := hnew o; clear hp ho hx hnew h
             simp only [goto, finish, setTh, close]
             by_cases e : u = t <;> simp [e] <;> (try simp_all) <;> grind)

theorem ccNew_step (s s' : State) (t : Tid) (l : Label) (h : Inv s) (hs : step s t l = some s') :
    ∀ o, s'.created ≤ o → s'.closedCnt o = 0 := by
  have hnew := h.ccNew
  have hf := h.freshOwn t
  step_cases hs
  all_goals (intro o; have hn := hnew o; have hfo := hf o; clear hnew hf h
             simp only [goto, finish, setTh, close]; (try simp_all) <;> grind)

theorem ccGone_step (s s' : State) (t : Tid) (l : Label) (h : Inv s) (hs : step s t l = some s') :
    ∀ o, o < s'.created → o ∉ s'.used → o ∉ s'.free → (∀ u, o ∉ (s'.th u).pc.own) → s'.closedCnt o = 1 := by
  have hg := h.ccGone
  have ho := h.ccOwn t
  have hd := h.ownDisj t
  have hnd := h.ownNodup t
  have hm := h.mutex t
  have hnew := h.ccNew
  step_cases hs
  all_goals (
    intro o hlt hu hf hall
    have hn := hnew o; have hallt := hall t
    simp only [goto, finish, setTh, close] at hlt hu hf hall hallt ⊢
    simp at hallt
    have hall' : ∀ u, u ≠ t → o ∉ (s.th u).pc.own := by
      intro u hne; have := hall u; simp [hne] at this; exact this
    clear hall
    by_cases hot : o ∈ (s.th t).pc.own
    · have hoo := ho o hot; have hdo := hd o hot; clear hg ho hnew h hall' hd
      (try simp_all) <;> grind
    · have hold : ∀ u, o ∉ (s.th u).pc.own := by
        intro u; by_cases e : u = t
        · subst e; exact hot
        · exact hall' u e
      have hgo := fun a b c => hg o a b c hold
      clear hg ho hnew h hall' hold hd
      (try simp_all) <;> grind)

theorem owes_step (s s' : State) (t : Tid) (l : Label) (h : Inv s) (hs : step s t l = some s') :
    ∀ o, o ∈ s'.used → ∃ u, (s'.th u).pc.owes = some o := by
  have hw := h.owes
  have hn := h.nodup
  have hm := h.mutex t
  step_cases hs
  all_goals (
    intro o hu
    simp only [goto, finish, setTh, close] at hu ⊢
    by_cases hold : o ∈ s.used
    · obtain ⟨u, hwu⟩ := hw o hold
      clear hw h
      refine ⟨u, ?_⟩
      by_cases e : u = t
      · subst e; simp <;> (try simp_all [List.nodup_append]) <;> grind
      · simp [e]; exact hwu
    · clear hw h
      refine ⟨t, ?_⟩; simp <;> (try simp_all) <;> grind)

end PoolConc
