import Pymc.Proofs.PoolConcLive
import Pymc.Proofs.PoolConcLeak
/-! Small facts and concrete schedules used by the statements and non-vacuity examples of C08. -/
set_option linter.unusedSimpArgs false
namespace PoolConc

theorem maxSize_const {programs : List Program} {m : Nat} {s : State} (h : Reachable programs m s) :
    s.maxSize = m := by
  induction h with
  | init => rfl
  | step _ hs ih =>
    step_cases hs
    all_goals (simp only [goto, finish, setTh, close]; exact ih)

/-- an `internal-error` event is emitted only by a step that ends at the `internalError` pc -/
theorem internalError_event {s s' : State} {t : Tid} {l : Label} {evs : List Event}
    (hs : stepE s t l = some (s', evs)) (he : Event.internalError ∈ evs) :
    (s'.th t).pc = .internalError := by
  unfold stepE at hs
  split at hs
  all_goals (try split at hs)
  all_goals (try split at hs)
  all_goals (try split at hs)
  all_goals (try (simp only [unlock, Option.some.injEq, reduceCtorEq, Prod.mk.injEq] at hs))
  all_goals (try split at hs)
  all_goals (try (simp only [unlock, Option.some.injEq, reduceCtorEq, Prod.mk.injEq] at hs))
  all_goals (try (obtain ⟨h1, h2⟩ := hs; subst h1; subst h2))
  all_goals (first | (simp at he; done) | (simp [goto, setTh]; done) | skip)

theorem step_of_stepE {s s' : State} {t : Tid} {l : Label} {evs : List Event}
    (hs : stepE s t l = some (s', evs)) : step s t l = some s' := by
  simp [step, hs]

/-- all threads are done as soon as the threads that have a program are -/
theorem allDone_of_prefix {programs : List Program} {m : Nat} {s : State} (h : Reachable programs m s)
    (hd : ((List.range programs.length).all fun t => (s.th t).done) = true) : s.allDone := by
  intro t
  by_cases ht : t < programs.length
  · simp only [List.all_eq_true, List.mem_range] at hd
    exact hd t ht
  · rw [extra_threads_idle h t (Nat.le_of_not_lt ht)]; rfl

/-- `n` consecutive `tau` steps of thread `t` -/
def taus (t : Tid) (n : Nat) : List (Tid × Label) := List.replicate n (t, .tau)

/-- finding 11: thread 0 checks a connection out; thread 1 runs `clear()` completely (it closes the
checked-out connection); thread 0 uses the connection (lazy reconnect) and releases it (silent miss). -/
def schedClearVsHolder : List (Tid × Label) := taus 0 6 ++ taus 1 4 ++ taus 0 4

/-- decidable form of the side condition of `ReachableNoClearRace` for the first `n` threads -/
def clearOk (n : Nat) (s : State) (t : Tid) : Bool :=
  !(decide ((s.th t).pc = .clrBody)) || (List.range n).all fun u => (s.th u).pc.holds.isNone

/-- run a schedule, refusing a `clear` critical section while a connection is checked out -/
def runNC (n : Nat) (s : State) : List (Tid × Label) → Option State
  | [] => some s
  | (t, l) :: rest =>
    if clearOk n s t then
      match step s t l with
      | some s' => runNC n s' rest
      | none => none
    else none

theorem reachableNC_run {programs : List Program} {m : Nat} {s s' : State}
    (h : ReachableNoClearRace programs m s) (sched : List (Tid × Label))
    (hr : runNC programs.length s sched = some s') : ReachableNoClearRace programs m s' := by
  induction sched generalizing s with
  | nil => simp [runNC] at hr; subst hr; exact h
  | cons a rest ih =>
    obtain ⟨t, l⟩ := a
    simp only [runNC] at hr
    split at hr
    · next hok =>
      split at hr
      · next s1 h1 =>
        refine ih (ReachableNoClearRace.step h h1 ?_) hr
        intro hc u
        by_cases hu : u < programs.length
        · simp only [clearOk, hc, decide_true, Bool.not_true, Bool.false_or, List.all_eq_true,
            List.mem_range] at hok
          simpa using hok u hu
        · rw [extra_threads_idle h.reachable u (Nat.le_of_not_lt hu)]; rfl
      · simp at hr
    · simp at hr

theorem runNC_reachable {m : Nat} {programs : List Program} {sched : List (Tid × Label)} {p : State → Bool}
    (h : (match runNC programs.length (init programs m) sched with
          | some s => p s
          | none => false) = true) :
    ∃ s, ReachableNoClearRace programs m s ∧ p s = true := by
  split at h
  · next s hs => exact ⟨s, reachableNC_run .init sched hs, h⟩
  · simp at h

end PoolConc
