import Pymc.Proofs.HashInnerProj
import Pymc.Proofs.HashCallRun
/-!
# `HashClient ∘ <inner object>`: invariants of the registered objects, and runs

* any property `P` of the state of a registered object that holds of a fresh object and is preserved by an invocation
  holds of every object registered in `self.clients` after every call, and what the invocation shows satisfies whatever
  the invocation guarantees from `P` (`callG_inv`, `runG_inv`) — the failover code only ever registers fresh objects,
  invokes the object registered for the routed server, and leaves the others alone;
* a composed run is a run of the abstract failover model whose environments are the outcomes of the invocations
  (`runG_proj`).
-/
namespace HashInner
open Exchange Client Framing Failover
open HashCall (mem_ainsert)

variable {I : Inner}

/-- every object registered in `self.clients` satisfies `P` -/
def AllObjs (P : I.σ → Prop) (st : St I) : Prop := ∀ x ∈ st.clients, P x.2.st

theorem allObjs_init (P : I.σ → Prop) (hfresh : P I.fresh) (servers : List Srv) (t0 : Time) :
    AllObjs P (init I servers t0) := by
  intro x hx
  rcases (initClients_refreshed servers ({ fo := Failover.init servers t0 } : St I)).mem x hx with h | h
  · simp at h
  · rw [h]; exact hfresh

/-! ## what one composed call does to `self.clients` -/

/-- the shape of the state after one call: after `_get_client` the registered objects are those from before or fresh
ones (`st1`); then either nothing is invoked and `self.clients` stays as it is, or the object `x` registered for the
routed server `s` is invoked and stays registered in the state the invocation left it in -/
theorem callG_spec {Key : Type} (ccfg : Wire.Cfg) (c : Cfg) (route : List Srv → Key → Option Srv) (st : St I) (idx : Nat)
    (now fin : Time) (rk : Key) (call : Call) (sc : Script) :
    ∃ st1, Refreshed st st1 ∧
      (((callG ccfg c route st idx now fin rk call sc).2.inner = none ∧
          (callG ccfg c route st idx now fin rk call sc).1.clients = st1.clients) ∨
       (∃ s x, (s, x) ∈ st1.clients ∧
          (callG ccfg c route st idx now fin rk call sc).2.inner = some (I.step ccfg idx now fin x.st call sc).2 ∧
          (callG ccfg c route st idx now fin rk call sc).2.server = some s ∧
          (callG ccfg c route st idx now fin rk call sc).2.obj = some x.id ∧
          (callG ccfg c route st idx now fin rk call sc).1.clients =
            ainsert s { x with st := (I.step ccfg idx now fin x.st call sc).1 } st1.clients)) := by
  obtain ⟨hr, hmem⟩ := getClient_refreshed c route now st rk
  rcases callG_cases ccfg c route st idx now fin rk call sc with ⟨hk, h⟩ | ⟨hk, ⟨r, -, -, h1, h2, -, -⟩ | ⟨s, x, hgc, h⟩⟩
  · exact ⟨st, refreshed_refl _, .inl (by rw [h]; exact ⟨rfl, rfl⟩)⟩
  · exact ⟨_, hr, .inl ⟨h2, by rw [h1]⟩⟩
  · refine ⟨_, hr, ?_⟩
    rw [h]
    rcases safelyRunFunc_step ccfg c idx now fin (getClient c route now st rk).1 s x call sc with ⟨ha, hb⟩ | ⟨ha, hb⟩
    · exact .inl ⟨ha, hb⟩
    · refine .inr ⟨s, x, hmem s x hgc, ha, rfl, ?_, ?_⟩
      · simp only [ha]; rfl
      · rw [hb, contact_clients]

/-- an invariant of the registered objects is an invariant of the composed model, and the invocation shows what it
guarantees -/
theorem callG_inv {Key : Type} (ccfg : Wire.Cfg) (c : Cfg) (route : List Srv → Key → Option Srv) (st : St I) (idx : Nat)
    (now fin : Time) (rk : Key) (call : Call) (sc : Script) (P : I.σ → Prop) (Q : I.Obs → Prop) (hfresh : P I.fresh)
    (hstep : ∀ x, P x → P (I.step ccfg idx now fin x call sc).1 ∧ Q (I.step ccfg idx now fin x call sc).2)
    (hinv : AllObjs P st) :
    AllObjs P (callG ccfg c route st idx now fin rk call sc).1 ∧
    ∀ o, (callG ccfg c route st idx now fin rk call sc).2.inner = some o → Q o := by
  obtain ⟨st1, hr, h⟩ := callG_spec ccfg c route st idx now fin rk call sc
  have hinv1 : AllObjs P st1 := by
    intro x hx
    rcases hr.mem x hx with h | h
    · exact hinv x h
    · rw [h]; exact hfresh
  rcases h with ⟨h1, h2⟩ | ⟨s, x, hx, hstp, -, -, hcls⟩
  · refine ⟨fun y hy => hinv1 y (h2 ▸ hy), fun o h => ?_⟩
    rw [h1] at h; cases h
  · obtain ⟨hp, hq⟩ := hstep x.st (hinv1 (s, x) hx)
    refine ⟨fun y hy => ?_, fun o h => ?_⟩
    · rw [hcls] at hy
      rcases mem_ainsert hy with h | h
      · exact hinv1 y h
      · subst h; exact hp
    · rw [hstp] at h
      cases h
      exact hq

/-! ## runs -/

theorem runG_cons {Key : Type} (ccfg : Wire.Cfg) (c : Cfg) (route : List Srv → Key → Option Srv) (st : St I) (k : Nat)
    (gc : GCall Key) (rest : List (GCall Key)) :
    runG ccfg c route st k (gc :: rest) =
      ((runG ccfg c route (callG ccfg c route st k gc.now gc.fin gc.rk gc.call gc.sc).1 (k + 1) rest).1,
       (callG ccfg c route st k gc.now gc.fin gc.rk gc.call gc.sc).2 ::
         (runG ccfg c route (callG ccfg c route st k gc.now gc.fin gc.rk gc.call gc.sc).1 (k + 1) rest).2) :=
  rfl

theorem runG_length {Key : Type} (ccfg : Wire.Cfg) (c : Cfg) (route : List Srv → Key → Option Srv) (st : St I) (k : Nat)
    (calls : List (GCall Key)) : (runG ccfg c route st k calls).2.length = calls.length := by
  induction calls generalizing st k with
  | nil => rfl
  | cons gc rest ih => simp [runG_cons, ih]

/-- the observations of a prefix of the history are a prefix of the observations -/
theorem runG_take {Key : Type} (ccfg : Wire.Cfg) (c : Cfg) (route : List Srv → Key → Option Srv) (st : St I) (k : Nat)
    (calls : List (GCall Key)) (n : Nat) :
    (runG ccfg c route st k (calls.take n)).2 = (runG ccfg c route st k calls).2.take n := by
  induction calls generalizing st k n with
  | nil => simp [runG]
  | cons gc rest ih =>
    cases n with
    | zero => simp [runG]
    | succ n => simp [runG_cons, ih]

/-- an invariant `P` of the registered objects holds after every run, and the invocation made by call number `k + i`
shows what it guarantees (`Q`, which may depend on the number of the call and on the call) -/
theorem runG_inv {Key : Type} (ccfg : Wire.Cfg) (c : Cfg) (route : List Srv → Key → Option Srv) (st : St I) (k : Nat)
    (calls : List (GCall Key)) (P : I.σ → Prop) (Q : Nat → GCall Key → I.Obs → Prop) (hfresh : P I.fresh)
    (hstep : ∀ gc ∈ calls, ∀ idx x, P x →
      P (I.step ccfg idx gc.now gc.fin x gc.call gc.sc).1 ∧ Q idx gc (I.step ccfg idx gc.now gc.fin x gc.call gc.sc).2)
    (hinv : AllObjs P st) :
    AllObjs P (runG ccfg c route st k calls).1 ∧
    ∀ i ob, (runG ccfg c route st k calls).2[i]? = some ob → ∃ gc, calls[i]? = some gc ∧
      ∀ o, ob.inner = some o → Q (k + i) gc o := by
  induction calls generalizing st k with
  | nil => exact ⟨hinv, fun i ob h => by simp [runG] at h⟩
  | cons gc rest ih =>
    obtain ⟨h1, h2⟩ := callG_inv ccfg c route st k gc.now gc.fin gc.rk gc.call gc.sc P (Q k gc) hfresh
      (fun x hx => hstep gc (by simp) k x hx) hinv
    obtain ⟨h3, h4⟩ := ih (callG ccfg c route st k gc.now gc.fin gc.rk gc.call gc.sc).1 (k + 1)
      (fun x h => hstep x (by simp [h])) h1
    rw [runG_cons]
    refine ⟨h3, fun i ob hi => ?_⟩
    cases i with
    | zero =>
      simp only [List.getElem?_cons_zero, Option.some.injEq] at hi
      subst hi
      exact ⟨gc, rfl, fun o ho => h2 o ho⟩
    | succ i =>
      simp only [List.getElem?_cons_succ] at hi ⊢
      obtain ⟨gc', hg, hq⟩ := h4 i ob hi
      refine ⟨gc', hg, fun o ho => ?_⟩
      have := hq o ho
      rwa [show k + 1 + i = k + (i + 1) by omega] at this

/-! ## what the method returns -/

/-- what the method returns when the registered object was invoked: the result of the invocation; or the default / the
exception of the invocation, according to `ignore_exc` and the class of the exception (a `BaseException` always
escapes); or — only from states that violate the bookkeeping invariants — an internal error -/
def ResOfInner (c : Cfg) (res : HRes I.E) (o : I.Obs) : Prop :=
  (∃ r, I.res o = .ok r ∧ (res = .value r ∨ res = .internalError)) ∨
  (∃ e, I.res o = .error e ∧
    ((I.cls e = .base ∧ ∃ s, res = .raised s e) ∨
     (I.cls e ≠ .base ∧ c.ignoreExc = true ∧ res = .default) ∨
     (I.cls e ≠ .base ∧ c.ignoreExc = false ∧ ∃ s, res = .raised s e) ∨
     (I.cls e = .oserror ∧ res = .internalError)))

theorem onError_res (c : Cfg) (now : Time) (st : St I) (s : Srv) (e : I.E) :
    (I.cls e = .base ∧ (onError c now st s e).2 = .raised s e) ∨
    (I.cls e ≠ .base ∧ c.ignoreExc = true ∧ (onError c now st s e).2 = .default) ∨
    (I.cls e ≠ .base ∧ c.ignoreExc = false ∧ (onError c now st s e).2 = .raised s e) ∨
    (I.cls e = .oserror ∧ (onError c now st s e).2 = .internalError) := by
  unfold onError
  cases hk : I.cls e with
  | base => exact .inl ⟨rfl, rfl⟩
  | oserror =>
    cases markFailed c now st.fo s with
    | none => exact .inr (.inr (.inr ⟨rfl, rfl⟩))
    | some fo' => cases hi : c.ignoreExc <;> simp
  | other => cases hi : c.ignoreExc <;> simp

theorem invoke_res (ccfg : Wire.Cfg) (c : Cfg) (idx : Nat) (now fin : Time) (st : St I) (s : Srv) (x : Obj I) (call : Call)
    (sc : Script) (clear : Bool) :
    ResOfInner c (invoke ccfg c idx now fin st s x call sc clear).2.1 (I.step ccfg idx now fin x.st call sc).2 := by
  unfold invoke ResOfInner
  simp only [contact_obs]
  cases hres : I.res (I.step ccfg idx now fin x.st call sc).2 with
  | ok r =>
    left
    refine ⟨r, rfl, ?_⟩
    cases clear
    · exact .inl rfl
    · simp only [if_true]
      cases aerase s (contact ccfg idx now fin st s x call sc).1.fo.failed
      · exact .inr rfl
      · exact .inl rfl
  | error e =>
    right
    refine ⟨e, rfl, ?_⟩
    rcases onError_res c now (contact ccfg idx now fin st s x call sc).1 s e with h | h | h | h
    · exact .inl ⟨h.1, s, h.2⟩
    · exact .inr (.inl h)
    · exact .inr (.inr (.inl ⟨h.1, h.2.1, s, h.2.2⟩))
    · exact .inr (.inr (.inr h))

theorem safelyRunFunc_res (ccfg : Wire.Cfg) (c : Cfg) (idx : Nat) (now fin : Time) (st : St I) (s : Srv) (x : Obj I)
    (call : Call) (sc : Script) (o : I.Obs) (h : (safelyRunFunc ccfg c idx now fin st s x call sc).2.2 = some o) :
    ResOfInner c (safelyRunFunc ccfg c idx now fin st s x call sc).2.1 o := by
  rcases safelyRunFunc_step ccfg c idx now fin st s x call sc with ⟨ha, -⟩ | ⟨ha, -⟩
  · rw [ha] at h; cases h
  · rw [ha] at h
    cases h
    unfold safelyRunFunc at ha ⊢
    split
    · split
      · split
        · exact invoke_res ..
        · rename_i h1 h2 h3; simp [h1, h2, h3] at ha
      · split
        · rename_i h1 h2 _ h3; simp [h1, h2, h3] at ha
        · exact invoke_res ..
    · exact invoke_res ..

/-- every observed invocation of a run is the invocation, for the corresponding call of the history, of some registered
object, and the method's result is determined by its result as `ResOfInner` says -/
theorem runG_steps {Key : Type} (ccfg : Wire.Cfg) (c : Cfg) (route : List Srv → Key → Option Srv) (st : St I) (k : Nat)
    (calls : List (GCall Key)) :
    ∀ (i : Nat) (ob : HObs I), (runG ccfg c route st k calls).2[i]? = some ob →
      ∃ gc, calls[i]? = some gc ∧
        ∀ o, ob.inner = some o →
          (∃ x, o = (I.step ccfg (k + i) gc.now gc.fin x gc.call gc.sc).2) ∧ ResOfInner c ob.res o := by
  induction calls generalizing st k with
  | nil => intro i ob h; simp [runG] at h
  | cons gc rest ih =>
    intro i ob hi
    rw [runG_cons] at hi
    cases i with
    | zero =>
      simp only [List.getElem?_cons_zero, Option.some.injEq] at hi
      subst hi
      refine ⟨gc, rfl, fun o ho => ?_⟩
      constructor
      · obtain ⟨st1, -, h⟩ := callG_spec ccfg c route st k gc.now gc.fin gc.rk gc.call gc.sc
        rcases h with ⟨h1, -⟩ | ⟨s, x, -, hstp, -, -, -⟩
        · rw [h1] at ho; cases ho
        · rw [hstp] at ho
          exact ⟨x.st, (Option.some.inj ho).symm⟩
      · rcases callG_cases ccfg c route st k gc.now gc.fin gc.rk gc.call gc.sc with ⟨-, h⟩ | ⟨-, ⟨r, -, -, -, h2, -, -⟩ | ⟨s, x, -, h⟩⟩
        · rw [h] at ho; cases ho
        · rw [h2] at ho; cases ho
        · rw [h] at ho ⊢
          exact safelyRunFunc_res ccfg c k gc.now gc.fin _ s x gc.call gc.sc o ho
    | succ i =>
      simp only [List.getElem?_cons_succ] at hi ⊢
      obtain ⟨gc', h1, h2⟩ := ih _ (k + 1) i ob hi
      refine ⟨gc', h1, fun o ho => ?_⟩
      have := h2 o ho
      rwa [show k + 1 + i = k + (i + 1) by omega] at this

/-! ## the run projects onto the abstract model -/

theorem eventsOf_cons {Key : Type} (gc : GCall Key) (rest : List (GCall Key)) (ob : HObs I) (obs : List (HObs I)) :
    eventsOf (gc :: rest) (ob :: obs) =
      (match eventOf gc ob with | some e => [e] | none => []) ++ eventsOf rest obs := rfl

theorem absOuts_cons {Key : Type} (c : Cfg) (gc : GCall Key) (rest : List (GCall Key)) (ob : HObs I) (obs : List (HObs I)) :
    absOuts c (gc :: rest) (ob :: obs) =
      (if isIllegalKey ob.res then [] else [(absRes I c ob.res, contactsOfObs gc.now ob)]) ++ absOuts c rest obs := rfl

/-- **a composed run is a run of the abstract failover model**: the calls whose key passes `check_key_helper` are the
events (same times, same routing keys, the environment of each being the outcome of its invocation); the bookkeeping
state at the end, the results and the contact logs are those of `Failover.run`; and `Cover` is preserved -/
theorem runG_proj {Key : Type} (ccfg : Wire.Cfg) (c : Cfg) (route : List Srv → Key → Option Srv) (hlaw : RouteLaw route)
    (st : St I) (k : Nat) (calls : List (GCall Key)) (hcov : Cover st) :
    Failover.run c route st.proj (eventsOf calls (runG ccfg c route st k calls).2) =
      ((runG ccfg c route st k calls).1.proj, absOuts c calls (runG ccfg c route st k calls).2) ∧
    Cover (runG ccfg c route st k calls).1 := by
  induction calls generalizing st k with
  | nil => exact ⟨rfl, hcov⟩
  | cons gc rest ih =>
    obtain ⟨p1, p2⟩ := callG_proj ccfg c route hlaw st k gc.now gc.fin gc.rk gc.call gc.sc hcov
    have hill := callG_illegal ccfg c route st k gc.now gc.fin gc.rk gc.call gc.sc
    obtain ⟨h1, h2⟩ := ih (callG ccfg c route st k gc.now gc.fin gc.rk gc.call gc.sc).1 (k + 1)
      (cover_callG ccfg c route hlaw st k gc.now gc.fin gc.rk gc.call gc.sc hcov)
    rw [runG_cons]
    refine ⟨?_, h2⟩
    simp only [eventsOf_cons, absOuts_cons, eventOf]
    cases hk : HashCall.keyOk ccfg gc.call
    · have hst := p1 hk
      rw [hk] at hill
      simp only [Bool.not_false] at hill
      simp only [hill, if_true, List.nil_append]
      rw [hst] at h1
      rw [hst]
      exact h1
    · have hst := p2 hk
      rw [hk] at hill
      simp only [Bool.not_true] at hill
      simp only [hill, Bool.false_eq_true, if_false, List.singleton_append]
      rw [HashCall.run_cons, hst]
      simp only []
      rw [h1]

/-! ## the contact log and the clock -/

theorem callG_illegal_contacts {Key : Type} (ccfg : Wire.Cfg) (c : Cfg) (route : List Srv → Key → Option Srv) (st : St I)
    (idx : Nat) (now fin : Time) (rk : Key) (call : Call) (sc : Script)
    (h : isIllegalKey (callG ccfg c route st idx now fin rk call sc).2.res = true) :
    contactsOfObs now (callG ccfg c route st idx now fin rk call sc).2 = [] := by
  rw [callG_illegal] at h
  rcases callG_cases ccfg c route st idx now fin rk call sc with ⟨-, h'⟩ | ⟨hk, -⟩
  · rw [h']; rfl
  · rw [hk] at h; cases h

/-- the contact log of the abstract run is the contact log of the composed run -/
theorem runG_contactLog {Key : Type} (ccfg : Wire.Cfg) (c : Cfg) (route : List Srv → Key → Option Srv) (st : St I) (k : Nat)
    (calls : List (GCall Key)) :
    contactsOf (absOuts c calls (runG ccfg c route st k calls).2) = contactLog calls (runG ccfg c route st k calls).2 := by
  induction calls generalizing st k with
  | nil => rfl
  | cons gc rest ih =>
    rw [runG_cons]
    simp only [absOuts_cons, contactLog, contactsOf, List.flatMap_append]
    have := ih (callG ccfg c route st k gc.now gc.fin gc.rk gc.call gc.sc).1 (k + 1)
    simp only [contactsOf] at this
    rw [this]
    cases hill : isIllegalKey (callG ccfg c route st k gc.now gc.fin gc.rk gc.call gc.sc).2.res
    · simp
    · simp [callG_illegal_contacts ccfg c route st k gc.now gc.fin gc.rk gc.call gc.sc hill]

theorem chrono_eventsOf {Key : Type} (t0 : Time) (calls : List (GCall Key)) (obs : List (HObs I))
    (h : ChronoCalls t0 calls) : Chrono t0 (eventsOf calls obs) := by
  induction calls generalizing t0 obs with
  | nil => cases obs <;> exact trivial
  | cons gc rest ih =>
    cases obs with
    | nil => exact trivial
    | cons ob obs =>
      rw [eventsOf_cons]
      have hr := ih gc.now obs h.2
      unfold eventOf
      cases isIllegalKey ob.res
      · exact ⟨h.1, hr⟩
      · exact HashCall.chrono_mono h.1 hr

theorem eventsOf_runCmd {Key : Type} (calls : List (GCall Key)) (obs : List (HObs I)) :
    ∀ e ∈ eventsOf calls obs, e.op.isSetMany = false := by
  induction calls generalizing obs with
  | nil => cases obs <;> simp [eventsOf]
  | cons gc rest ih =>
    cases obs with
    | nil => simp [eventsOf]
    | cons ob obs =>
      rw [eventsOf_cons]
      intro e he
      rcases List.mem_append.mp he with he | he
      · unfold eventOf at he
        cases hill : isIllegalKey ob.res
        · simp only [hill, Bool.false_eq_true, if_false, List.mem_singleton] at he; subst he; rfl
        · simp [hill] at he
      · exact ih obs e he

/-- the abstract output that belongs to the `i`-th observation -/
theorem mem_absOuts {Key : Type} (c : Cfg) (calls : List (GCall Key)) (obs : List (HObs I)) (i : Nat) (gc : GCall Key)
    (ob : HObs I) (h1 : calls[i]? = some gc) (h2 : obs[i]? = some ob) (h3 : isIllegalKey ob.res = false) :
    (absRes I c ob.res, contactsOfObs gc.now ob) ∈ absOuts c calls obs := by
  induction calls generalizing obs i with
  | nil => simp at h1
  | cons gc' rest ih =>
    cases obs with
    | nil => simp at h2
    | cons ob' obs =>
      rw [absOuts_cons]
      cases i with
      | zero =>
        simp only [List.getElem?_cons_zero, Option.some.injEq] at h1 h2
        subst h1; subst h2
        simp [h3]
      | succ i =>
        simp only [List.getElem?_cons_succ] at h1 h2
        exact List.mem_append_right _ (ih obs i h1 h2)
end HashInner
