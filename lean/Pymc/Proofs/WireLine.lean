import Pymc.Model.Wire
import Pymc.Proofs.WireLit
import Pymc.Proofs.WireDec
import Pymc.Proofs.WireTok
/-! Helper lemmas for C02: `parseLine` on the token lists the client produces. -/
namespace Wire
open Bytes Readers

theorem parseSVerb_name (v : SVerb) : parseSVerb v.name = some v := by
  cases v <;> simp [parseSVerb]

theorem parseSVerb_fname (v : FVerb) : parseSVerb v.name = none := by
  cases v <;> simp [parseSVerb]

theorem parseFVerb_name (v : FVerb) : parseFVerb v.name = some v := by
  cases v <;> simp [parseFVerb]

/-- a token made of digits and `-` is not the literal `noreply` -/
theorem ne_noreply_of_dec {t : Bytes} (h : ∀ b ∈ t, isDigit b = true ∨ b = 45) :
    t ≠ ofString "noreply" := by
  rintro rfl
  have := h 110 (by simp)
  revert this; decide

theorem parseNat_ne_noreply {t : Bytes} {n : Nat} (h : parseNat t = some n) : t ≠ ofString "noreply" := by
  have := (parseNat_some_digits h).2
  exact ne_noreply_of_dec (fun b hb => .inl (by simpa using List.all_eq_true.1 this b hb))

theorem parseLine_store (verb : SVerb) (hv : verb ≠ .cas) (k f e n : Bytes) (nr : Bool) (rest : Bytes)
    (fv : Nat) (ev : Int) (nv : Nat) (d rest' : Bytes)
    (hf : parseNat f = some fv) (he : parseInt e = some ev) (hn : parseNat n = some nv)
    (hk : validKey k = true) (hb : takeBlock nv rest = some (d, rest')) :
    parseLine (verb.name :: ([k, f, e, n] ++ nrToks nr)) rest =
      some (.store verb k fv ev d none nr, rest') := by
  have hs : splitNoreply ([k, f, e, n] ++ nrToks nr) = ([k, f, e, n], nr) :=
    splitNoreply_nrToks _ _ (by simpa using parseNat_ne_noreply hn)
  unfold parseLine
  simp only [parseSVerb_name, hs]
  cases verb <;> simp [hf, he, hn, hk, hb] at hv ⊢

theorem parseLine_cas (k f e n c : Bytes) (nr : Bool) (rest : Bytes)
    (fv : Nat) (ev : Int) (nv cv : Nat) (d rest' : Bytes)
    (hf : parseNat f = some fv) (he : parseInt e = some ev) (hn : parseNat n = some nv)
    (hc : parseNat c = some cv)
    (hk : validKey k = true) (hb : takeBlock nv rest = some (d, rest')) :
    parseLine (SVerb.cas.name :: ([k, f, e, n, c] ++ nrToks nr)) rest =
      some (.store .cas k fv ev d (some cv) nr, rest') := by
  have hs : splitNoreply ([k, f, e, n, c] ++ nrToks nr) = ([k, f, e, n, c], nr) :=
    splitNoreply_nrToks _ _ (by simpa using parseNat_ne_noreply hc)
  unfold parseLine
  simp only [parseSVerb_name, hs]
  simp [hf, he, hn, hc, hk, hb]

theorem parseLine_get (verb : FVerb) (hv : verb = .get ∨ verb = .gets) (keys : List Bytes) (rest : Bytes)
    (hne : keys ≠ []) (hk : ∀ k ∈ keys, validKey k = true) :
    parseLine (verb.name :: keys) rest = some (.fetch verb none keys, rest) := by
  unfold parseLine
  simp only [parseSVerb_fname, parseFVerb_name, hv, if_true]
  have : keys.all validKey = true := List.all_eq_true.2 hk
  simp [hne, this]

theorem parseLine_gat (verb : FVerb) (hv : verb = .gat ∨ verb = .gats) (e : Bytes) (ev : Int)
    (keys : List Bytes) (rest : Bytes) (he : parseInt e = some ev)
    (hne : keys ≠ []) (hk : ∀ k ∈ keys, validKey k = true) :
    parseLine (verb.name :: e :: keys) rest = some (.fetch verb (some ev) keys, rest) := by
  unfold parseLine
  have hv' : ¬ (verb = .get ∨ verb = .gets) := by rcases hv with rfl | rfl <;> simp
  simp only [parseSVerb_fname, parseFVerb_name, hv', if_false]
  have : keys.all validKey = true := List.all_eq_true.2 hk
  simp [hne, this, he]

theorem parseSVerb_delete : parseSVerb (ofString "delete") = none := by simp [parseSVerb]
theorem parseFVerb_delete : parseFVerb (ofString "delete") = none := by simp [parseFVerb]

theorem parseLine_delete (k : Bytes) (nr : Bool) (rest : Bytes) (hk : validKey k = true) :
    parseLine (ofString "delete" :: ([k] ++ nrToks nr)) rest = some (.delete k nr, rest) := by
  unfold parseLine
  simp only [parseSVerb_delete, parseFVerb_delete, if_true]
  cases nr <;> simp [nrToks, hk]

theorem parseLine_arith (incr : Bool) (k d : Bytes) (dv : Nat) (nr : Bool) (rest : Bytes)
    (hk : validKey k = true) (hd : parseNat d = some dv) :
    parseLine (ofString (if incr then "incr" else "decr") :: ([k, d] ++ nrToks nr)) rest =
      some (.arith incr k dv nr, rest) := by
  have hs : splitNoreply ([k, d] ++ nrToks nr) = ([k, d], nr) :=
    splitNoreply_nrToks _ _ (by simpa using parseNat_ne_noreply hd)
  simp only [List.cons_append, List.nil_append] at hs
  unfold parseLine
  cases incr <;> simp [parseSVerb, parseFVerb, hs, hk, hd]

theorem parseLine_touch (k e : Bytes) (ev : Int) (nr : Bool) (rest : Bytes)
    (hk : validKey k = true) (he : parseInt e = some ev) (hne : e ≠ ofString "noreply") :
    parseLine (ofString "touch" :: ([k, e] ++ nrToks nr)) rest = some (.touch k ev nr, rest) := by
  have hs : splitNoreply ([k, e] ++ nrToks nr) = ([k, e], nr) :=
    splitNoreply_nrToks _ _ (by simpa using hne)
  simp only [List.cons_append, List.nil_append] at hs
  unfold parseLine
  simp [parseSVerb, parseFVerb, hs, hk, he]

theorem parseLine_flush (d : Bytes) (dv : Nat) (nr : Bool) (rest : Bytes) (hd : parseNat d = some dv) :
    parseLine (ofString "flush_all" :: ([d] ++ nrToks nr)) rest = some (.flushAll (some dv) nr, rest) := by
  have hs : splitNoreply ([d] ++ nrToks nr) = ([d], nr) :=
    splitNoreply_nrToks _ _ (by simpa using parseNat_ne_noreply hd)
  simp only [List.cons_append, List.nil_append] at hs
  unfold parseLine
  simp [parseSVerb, parseFVerb, hs, hd]

theorem parseLine_version (rest : Bytes) : parseLine [ofString "version"] rest = some (.version, rest) := by
  unfold parseLine
  simp [parseSVerb, parseFVerb]

theorem parseLine_quit (rest : Bytes) : parseLine [ofString "quit"] rest = some (.quit, rest) := by
  unfold parseLine
  simp [parseSVerb, parseFVerb]
