import Pymc.Proofs.PoolConcTimedHist
/-! The `while` loop of `get` in the timed model: an object of `_free_objs` whose stamp passes the idle test
stops the loop, so the `else` branch (create a new object) is not reached. -/
set_option linter.unusedSimpArgs false
namespace PoolConcT
open PoolConc

theorem pendAfter_getLoop {F0 : List Obj} {c0 : Nat} {o : Obj} {f : Fin} {t : Tid} {b b' : State} {lb : Label}
    (h : GetLoopInv F0 c0 o f t b) (hs : step b t lb = some b') :
    (∃ o', (b'.th t).pc = .getRel o' f) ∨ pendAfter (b.th t).pc (b.th t).prog lb = .none := by
  obtain ⟨_, _, h3⟩ := h
  step_cases hs
  all_goals (simp only [goto, finish, setTh, close]; simp_all [pendAfter] <;> grind)

/-- `GetLoopInv` plus: until an object has been taken, the thread owes no statement, and its `now` and the stamp
of `o` are those of the moment it entered the loop -/
def GetLoopInvT (s0 : TState) (o : Obj) (f : Fin) (t : Tid) (s : TState) : Prop :=
  GetLoopInv s0.base.free s0.base.created o f t s.base ∧ s.idleTimeout = s0.idleTimeout ∧
  ((∃ o', (s.base.th t).pc = .getRel o' f) ∨
   (s.pend t = .none ∧ s.now t = s0.now t ∧ s.lastUsed o = s0.lastUsed o))

theorem getLoopInvT_step {s0 s s' : TState} {o : Obj} {f : Fin} {t : Tid} {l : TLabel}
    (hI : InvT s) (hl : s.base.lock = some t) (h : GetLoopInvT s0 o f t s) (ho : o ∈ s0.base.free)
    (hfresh : s0.now t - s0.lastUsed o ≤ s0.idleTimeout)
    (hs : stepT false s l = some s') (hl' : s'.base.lock = some t) : GetLoopInvT s0 o f t s' := by
  obtain ⟨hg, hto, h3⟩ := h
  have hlock : ∀ u, s.pend u ≠ .none → u = t := by
    intro u hu
    have := pendOk_lock hI u hu
    rw [hl] at this
    exact (Option.some.inj this).symm
  cases stepRel_of_stepT hs with
  | tick d => exact ⟨hg, hto, h3⟩
  | base u lb b l hlb hp hb =>
    by_cases hu : u = t
    · subst hu
      have hlabel : (s.base.th u).pc = .getTest o f → lb = .fresh := by
        intro hpc
        rcases h3 with ⟨o', e⟩ | ⟨_, e2, e3⟩
        · rw [hpc] at e; cases e
        · rcases hlb with ⟨_, rfl⟩ | ⟨_, rfl⟩
          · simp only [labelOf, hpc, idleAnswer, e2, e3, hto, hfresh, if_true]
          · obtain ⟨f', hf'⟩ := createFail_pc hb
            rw [hpc] at hf'; cases hf'
      refine ⟨getLoopInv_self hg ho hl hb hlabel hl', hto, ?_⟩
      rcases pendAfter_getLoop hg hb with h4 | h4
      · exact Or.inl h4
      · rcases h3 with ⟨o', e⟩ | ⟨_, e2, e3⟩
        · -- at `getRel` the next step leaves the `with`: the lock is released
          exfalso
          have := getRel_step_unlocks hb e hl
          rw [this] at hl'; cases hl'
        · right
          refine ⟨?_, e2, e3⟩
          simp only [upd, if_true]; exact h4
    · have hcs : (s.base.th u).pc.inCS = false := by
        cases hc : (s.base.th u).pc.inCS with
        | false => rfl
        | true =>
          have := (hI.base.mutex u).mp hc
          rw [hl] at this
          exact absurd (Option.some.inj this).symm hu
      obtain ⟨hg', _⟩ := getLoopInv_other hg (Ne.symm hu) hcs hl hb
      refine ⟨hg', hto, ?_⟩
      rw [show ({ s with base := b, pend := upd s.pend u (pendAfter (s.base.th u).pc (s.base.th u).prog lb) } : TState).base.th t
            = s.base.th t from th_other_step hb t (Ne.symm hu)]
      rcases h3 with h3 | ⟨e1, e2, e3⟩
      · exact Or.inl h3
      · right
        refine ⟨?_, e2, e3⟩
        simp only [upd, Ne.symm hu, if_false]; exact e1
  | readNow u hp =>
    exfalso
    have := hlock u (by rw [hp]; simp)
    subst this
    have hpk := hI.pendOk u
    simp only [PendOk, hp] at hpk
    obtain ⟨f', hf'⟩ := hpk
    rcases h3 with ⟨o', e⟩ | ⟨e1, _, _⟩
    · rw [hf'] at e; cases e
    · rw [hp] at e1; cases e1
  | stampGet u o' hp =>
    have := hlock u (by rw [hp]; simp)
    subst this
    rcases h3 with h3 | ⟨e1, _, _⟩
    · exact ⟨hg, hto, Or.inl h3⟩
    · rw [hp] at e1; cases e1
  | stampRel u o' hp _ =>
    exfalso
    have := hlock u (by rw [hp]; simp)
    subst this
    have hpk := hI.pendOk u
    simp only [PendOk, hp] at hpk
    rcases h3 with ⟨o'', e⟩ | ⟨e1, _, _⟩
    · rw [hpk] at e; cases e
    · rw [hp] at e1; cases e1
  | leaveFirst u o' b _ ho' _ _ => exact absurd ho' (by decide)

/-- `t` owns the lock in every state of the run `post` from `s0` (all of it is one lock hold of `t`) -/
def HeldThrough (t : Tid) (s0 : TState) (post : List TLabel) : Prop :=
  ∀ p1 p2 s1, post = p1 ++ p2 → runT false s0 p1 = some s1 → s1.base.lock = some t

theorem getLoopInvT_run {s0 s : TState} {o : Obj} {f : Fin} {t : Tid} {post : List TLabel}
    (hI : InvT s0) (hpc : (s0.base.th t).pc = .getLoop f) (hp : s0.pend t = .none) (ho : o ∈ s0.base.free)
    (hfresh : s0.now t - s0.lastUsed o ≤ s0.idleTimeout)
    (hr : runT false s0 post = some s) (hheld : HeldThrough t s0 post) : GetLoopInvT s0 o f t s := by
  have key := runT_induction (o := false) (s0 := s0)
    (motive := fun ls s => HeldThrough t s0 ls → InvT s ∧ GetLoopInvT s0 o f t s) ?_ ?_ post s hr hheld
  · exact key.2
  · intro _
    exact ⟨hI, ⟨rfl, fun x hx => hx, Or.inl ⟨ho, Or.inl hpc⟩⟩, rfl, Or.inr ⟨hp, rfl, rfl⟩⟩
  · intro ls s1 l s2 hr1 ih hs hh
    have hh1 : HeldThrough t s0 ls := by
      intro p1 p2 sx e hrx
      exact hh p1 (p2 ++ [l]) sx (by rw [e, List.append_assoc]) hrx
    obtain ⟨hI1, hg1⟩ := ih hh1
    have hl1 : s1.base.lock = some t := hh ls [l] s1 rfl hr1
    have hl2 : s2.base.lock = some t := hh (ls ++ [l]) [] s2 (by simp) (runT_snoc.mpr ⟨s1, hr1, hs⟩)
    exact ⟨invT_step hI1 hs, getLoopInvT_step hI1 hl1 hg1 ho hfresh hs hl2⟩

theorem idleTimeout_run {outside : Bool} {s s' : TState} {ls : List TLabel} (hr : runT outside s ls = some s') :
    s'.idleTimeout = s.idleTimeout := by
  induction ls generalizing s with
  | nil => simp [runT] at hr; subst hr; rfl
  | cons l rest ih =>
    simp only [runT] at hr
    cases h1 : stepT outside s l with
    | none => simp [h1] at hr
    | some s1 => simp only [h1] at hr; rw [ih hr, idleTimeout_step h1]

/-- the micro-step taken at the idle test, spelled out -/
theorem getTest_stepT {outside : Bool} {s : TState} {t : Tid} {o : Obj} {f : Fin}
    (hpc : (s.base.th t).pc = .getTest o f) (hp : s.pend t = .none) :
    (s.idleTimeout < s.now t - s.lastUsed o →
      ∃ s', stepT outside s (.run t) = some s' ∧ (s'.base.th t).pc = .getLoop f ∧
        s'.base.closedCnt o = s.base.closedCnt o + 1 ∧ s'.base.used = s.base.used ∧ s'.base.free = s.base.free) ∧
    (s.now t - s.lastUsed o ≤ s.idleTimeout →
      ∃ s', stepT outside s (.run t) = some s' ∧ (s'.base.th t).pc = .getRel o f ∧
        s'.base.closedCnt = s.base.closedCnt ∧ s'.base.used = s.base.used ++ [o] ∧ s'.pend t = .stampGet o) := by
  constructor
  · intro h
    have hl : labelOf s t = .expired := by
      simp only [labelOf, hpc, idleAnswer]
      rw [if_neg (by omega)]
    refine ⟨_, (by simp only [stepT, stepTE, hp, baseStep, hl, stepE, hpc, Option.map_some]; rfl), ?_⟩
    simp [goto, setTh, close]
  · intro h
    have hl : labelOf s t = .fresh := by
      simp only [labelOf, hpc, idleAnswer]
      rw [if_pos h]
    refine ⟨_, (by simp only [stepT, stepTE, hp, baseStep, hl, stepE, hpc, Option.map_some]; rfl), ?_⟩
    simp [goto, setTh, upd, pendAfter, hpc]

/-- `p` holds in every state along a run (start state included); a step that is not enabled ends the run -/
def checkAlong (outside : Bool) (s : TState) (p : TState → Bool) : List TLabel → Bool
  | [] => p s
  | l :: rest =>
    p s && (match stepT outside s l with
            | some s' => checkAlong outside s' p rest
            | none => true)

theorem checkAlong_spec {outside : Bool} {s : TState} {p : TState → Bool} {ls : List TLabel}
    (h : checkAlong outside s p ls = true) :
    ∀ p1 p2 s1, ls = p1 ++ p2 → runT outside s p1 = some s1 → p s1 = true := by
  induction ls generalizing s with
  | nil =>
    intro p1 p2 s1 e hr
    have : p1 = [] := by
      cases p1 with
      | nil => rfl
      | cons a b => simp at e
    subst this
    simp only [runT, Option.some.injEq] at hr
    subst hr
    simpa [checkAlong] using h
  | cons l rest ih =>
    intro p1 p2 s1 e hr
    simp only [checkAlong, Bool.and_eq_true] at h
    cases p1 with
    | nil =>
      simp only [runT, Option.some.injEq] at hr
      subst hr
      exact h.1
    | cons a p1' =>
      simp only [List.cons_append, List.cons.injEq] at e
      obtain ⟨rfl, e⟩ := e
      simp only [runT] at hr
      cases h1 : stepT outside s l with
      | none => simp [h1] at hr
      | some s' =>
        simp only [h1] at hr
        have h2 := h.2
        simp only [h1] at h2
        exact ih h2 p1' p2 s1 e hr

/-- `FreeSince` on a concrete run from decidable checks -/
theorem freeSince_of_check {outside : Bool} {s0 sa sb : TState} {pre post : List TLabel} {u : Tid} {o : Obj}
    {p : TState → Bool} (hpre : runT outside s0 pre = some sa) (hpc : (sa.base.th u).pc = .relAppend o)
    (hp : sa.pend u = .none) (hs : stepT outside sa (.run u) = some sb) (hc : checkAlong outside sb p post = true) :
    FreeSince outside s0 (pre ++ .run u :: post) o sa.clock (fun s1 => p s1 = true) := by
  refine ⟨pre, post, u, sa, rfl, hpre, hpc, hp, rfl, ?_⟩
  intro post1 post2 s1 e hr
  simp only [runT, hs] at hr
  exact checkAlong_spec hc post1 post2 s1 e hr

end PoolConcT
