import Pymc.Proofs.PoolConcStep1
import Pymc.Proofs.PoolConcStep2
import Pymc.Proofs.PoolConcStep3
import Pymc.Proofs.PoolConcStep4
/-! `Inv` is inductive, hence holds in every reachable state. -/
namespace PoolConc

theorem inv_step (s s' : State) (t : Tid) (l : Label) (h : Inv s) (hs : step s t l = some s') : Inv s' where
  mutex := mutex_step s s' t l h hs
  noErr := noErr_step s s' t l h hs
  popOk := popOk_step s s' t l h hs
  cntOk := cntOk_step s s' t l h hs
  cap := cap_step s s' t l h hs
  nodup := nodup_step s s' t l h hs
  ownNodup := ownNodup_step s s' t l h hs
  ownDisj := ownDisj_step s s' t l h hs
  ownExcl := ownExcl_step s s' t l h hs
  freshPool := freshPool_step s s' t l h hs
  freshOwn := freshOwn_step s s' t l h hs
  holdOk := holdOk_step s s' t l h hs
  holdExcl := holdExcl_step s s' t l h hs
  ccPool := ccPool_step s s' t l h hs
  ccOwn := ccOwn_step s s' t l h hs
  ccGone := ccGone_step s s' t l h hs
  ccNew := ccNew_step s s' t l h hs
  owes := owes_step s s' t l h hs

theorem inv_reachable {programs : List Program} {m : Nat} {s : State} (h : Reachable programs m s) : Inv s := by
  induction h with
  | init => exact inv_init programs m
  | step _ hs ih => exact inv_step _ _ _ _ ih hs

end PoolConc
