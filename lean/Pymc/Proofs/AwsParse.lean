import Pymc.Proofs.AwsToken
/-! Helper lemmas for C19: `_get_nodes_list` on the segment of a rendered reply. -/
namespace Aws
open Bytes Wire Readers

/-- a host name or address as it can stand in a config line: free of the two separators and of line
breaks (it may be empty) -/
def CleanName (b : Bytes) : Prop := ∀ x ∈ b, x ≠ SP ∧ x ≠ PIPE ∧ x ≠ LF ∧ x ≠ CR

def CleanNode (n : Node) : Prop := CleanName n.host ∧ CleanName n.ip

theorem cleanName_natDec (n : Nat) : CleanName (natDec n) := by
  intro x hx
  have h := (isDigit_iff x).1 (natDec_mem_isDigit n x hx)
  refine ⟨?_, ?_, ?_, ?_⟩ <;> (rintro rfl; revert h; decide)

theorem splitOn1_renderNode (n : Node) (h : CleanNode n) :
    splitOn1 PIPE (renderNode n) = [n.host, n.ip, natDec n.port] := by
  have e : renderNode n = n.host ++ PIPE :: (n.ip ++ PIPE :: natDec n.port) := by simp [renderNode]
  rw [e, splitOn1_append _ _ _ (fun x hx => (h.1 x hx).2.1),
    splitOn1_append _ _ _ (fun x hx => (h.2 x hx).2.1),
    splitOn1_clean _ _ (fun x hx => (cleanName_natDec n.port x hx).2.1)]

theorem renderNode_mem (n : Node) (h : CleanNode n) : ∀ x ∈ renderNode n, x ≠ SP ∧ x ≠ LF ∧ x ≠ CR := by
  intro x hx
  simp only [renderNode, List.mem_append, List.mem_singleton] at hx
  rcases hx with (((hx | rfl) | hx) | rfl) | hx
  · exact ⟨(h.1 x hx).1, (h.1 x hx).2.2⟩
  · decide
  · exact ⟨(h.2 x hx).1, (h.2 x hx).2.2⟩
  · decide
  · exact ⟨(cleanName_natDec _ x hx).1, (cleanName_natDec _ x hx).2.2⟩

theorem renderNode_ne_nil (n : Node) : renderNode n ≠ [] := by simp [renderNode]

theorem splitOn1_configLine (nodes : List Node) (hne : nodes ≠ []) (h : ∀ n ∈ nodes, CleanNode n) :
    splitOn1 SP (configLine nodes) = nodes.map renderNode := by
  apply splitOn1_joinWith
  · simpa using hne
  · intro f hf x hx
    obtain ⟨n, hn, rfl⟩ := List.mem_map.1 hf
    exact (renderNode_mem n (h n hn) x hx).1

theorem configLine_mem (nodes : List Node) (h : ∀ n ∈ nodes, CleanNode n) :
    ∀ x ∈ configLine nodes, x ≠ LF ∧ x ≠ CR := by
  intro x hx
  rcases mem_joinWith SP _ x hx with rfl | ⟨f, hf, hxf⟩
  · decide
  · obtain ⟨n, hn, rfl⟩ := List.mem_map.1 hf
    exact (renderNode_mem n (h n hn) x hxf).2

theorem configLine_ne_nil (nodes : List Node) (hne : nodes ≠ []) : configLine nodes ≠ [] := by
  apply joinWith_ne_nil
  cases nodes with
  | nil => exact absurd rfl hne
  | cons n r => exact ⟨renderNode n, by simp, renderNode_ne_nil n⟩

/-- the pair `_get_nodes_list` extracts for one node -/
def advertisedPair (useVpc : Bool) (n : Node) : Bytes × Bytes :=
  (if useVpc then n.ip else n.host, natDec n.port)

theorem nodesOfSegment_replyPre (useVpc : Bool) (version : Nat) (nodes : List Node) (hne : nodes ≠ [])
    (h : ∀ n ∈ nodes, CleanNode n) :
    nodesOfSegment useVpc (replyPre version nodes) = some (nodes.map (advertisedPair useVpc)) := by
  have hlast : (splitLines (replyPre version nodes)).getLast? = some (configLine nodes) := by
    have e : replyPre version nodes =
        (ofString "CONFIG cluster 0 " ++
          natDec (natDec version ++ [LF] ++ configLine nodes ++ [LF]).length ++ [CR] ++
          LF :: natDec version) ++ LF :: configLine nodes := by simp [replyPre]
    rw [e]
    exact splitLines_last _ _ (configLine_ne_nil nodes hne) (configLine_mem nodes h)
  unfold nodesOfSegment
  rw [hlast]
  simp only [splitOn1_configLine nodes hne h]
  apply mapM_map_some
  intro n hn
  rw [splitOn1_renderNode n (h n hn)]
  cases useVpc <;> simp [advertisedPair]

theorem discover_renderReply (useVpc : Bool) (version : Nat) (nodes : List Node) (extra : Bytes)
    (hne : nodes ≠ []) (h : ∀ n ∈ nodes, CleanNode n) :
    discover useVpc (renderReply version nodes ++ extra) = some (nodes.map (advertisedPair useVpc)) := by
  unfold discover
  rw [splitSegment_renderReply version nodes extra (configLine_mem nodes h)]
  exact nodesOfSegment_replyPre useVpc version nodes hne h
end Aws

namespace Aws
open Bytes Wire Readers

/-- `replyPre` written out: the header line, the version line and the config line -/
theorem replyPre_eq (version : Nat) (nodes : List Node) :
    replyPre version nodes =
      ofString "CONFIG cluster 0 " ++ natDec (natDec version ++ [LF] ++ configLine nodes ++ [LF]).length ++
        CRLF ++ natDec version ++ [LF] ++ configLine nodes := by
  simp [replyPre, CRLF, CR, LF]

instance (b : Bytes) : Decidable (CleanName b) := by unfold CleanName; infer_instance
instance (n : Node) : Decidable (CleanNode n) := by unfold CleanNode; infer_instance

/-! ## node names `"%s:%s" % (address, port)` determine address and port -/

theorem append_colon_inj (a b d d' : Bytes) (hd : ∀ x ∈ d, x ≠ 58) (hd' : ∀ x ∈ d', x ≠ 58)
    (h : a ++ 58 :: d = b ++ 58 :: d') : a = b ∧ d = d' := by
  induction a generalizing b with
  | nil =>
    cases b with
    | nil => simpa using h
    | cons y b' =>
      simp only [List.nil_append, List.cons_append, List.cons.injEq] at h
      exact absurd rfl (hd 58 (by rw [h.2]; simp))
  | cons x a' ih =>
    cases b with
    | nil =>
      simp only [List.nil_append, List.cons_append, List.cons.injEq] at h
      exact absurd rfl (hd' 58 (by rw [← h.2]; simp))
    | cons y b' =>
      simp only [List.cons_append, List.cons.injEq] at h
      obtain ⟨rfl, e⟩ := ih b' h.2
      exact ⟨by rw [h.1], e⟩

theorem natDec_inj {p q : Nat} (h : natDec p = natDec q) : p = q := by
  have := congrArg decVal h
  simpa [decVal_natDec] using this

theorem nodeName_inj (a b : Bytes) (p q : Nat)
    (h : nodeName (a, natDec p) = nodeName (b, natDec q)) : a = b ∧ p = q := by
  have hd : ∀ n, ∀ x ∈ natDec n, x ≠ 58 := fun n x hx => by
    have h := (isDigit_iff x).1 (natDec_mem_isDigit n x hx)
    rintro rfl; revert h; decide
  have := append_colon_inj a b _ _ (hd p) (hd q) (by simpa [nodeName] using h)
  exact ⟨this.1, natDec_inj this.2⟩
end Aws

namespace Aws
open Bytes Wire Readers

/-- discovery on a rendered reply, assuming only that the config line is non-empty and free of line breaks:
the parse of the config line itself -/
theorem discover_renderReply_line (useVpc : Bool) (version : Nat) (nodes : List Node) (extra : Bytes)
    (hne : configLine nodes ≠ []) (hl : ∀ x ∈ configLine nodes, x ≠ LF ∧ x ≠ CR) :
    discover useVpc (renderReply version nodes ++ extra) =
      (splitOn1 SP (configLine nodes)).mapM fun field =>
        match (splitOn1 PIPE field)[if useVpc then 1 else 0]?, (splitOn1 PIPE field)[2]? with
        | some a, some p => some (a, p)
        | _, _ => none := by
  have hlast : (splitLines (replyPre version nodes)).getLast? = some (configLine nodes) := by
    have e : replyPre version nodes =
        (ofString "CONFIG cluster 0 " ++
          natDec (natDec version ++ [LF] ++ configLine nodes ++ [LF]).length ++ [CR] ++
          LF :: natDec version) ++ LF :: configLine nodes := by simp [replyPre]
    rw [e]
    exact splitLines_last _ _ hne hl
  unfold discover
  rw [splitSegment_renderReply version nodes extra hl]
  simp only [nodesOfSegment, hlast]
  rfl
end Aws
