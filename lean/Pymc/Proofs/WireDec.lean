import Pymc.Model.Wire
/-! Helper lemmas for C02: decimal rendering and parsing. -/
namespace Wire
open Bytes

theorem digitChar_toNat {d : Nat} (h : d < 10) : (digitChar d).toNat = 48 + d := by
  simp [digitChar, UInt8.toNat_ofNat']; omega

theorem isDigit_iff (b : UInt8) : isDigit b = true ↔ 48 ≤ b.toNat ∧ b.toNat ≤ 57 := by
  simp [isDigit, UInt8.le_iff_toNat_le]

theorem isDigit_digitChar {d : Nat} (h : d < 10) : isDigit (digitChar d) = true := by
  rw [isDigit_iff, digitChar_toNat h]; omega

theorem natDec_lt {n : Nat} (h : n < 10) : natDec n = [digitChar n] := by
  rw [natDec]; simp [h]
theorem natDec_ge {n : Nat} (h : ¬ n < 10) : natDec n = natDec (n / 10) ++ [digitChar (n % 10)] := by
  rw [natDec]; simp [h]

theorem natDec_ne_nil (n : Nat) : natDec n ≠ [] := by
  by_cases h : n < 10
  · simp [natDec_lt h]
  · simp [natDec_ge h]

theorem natDec_all_isDigit (n : Nat) : (natDec n).all isDigit = true := by
  induction n using Nat.strongRecOn with
  | _ n ih =>
    by_cases h : n < 10
    · simp [natDec_lt h, isDigit_digitChar h]
    · rw [natDec_ge h]
      simp [ih (n / 10) (by omega), isDigit_digitChar (Nat.mod_lt n (by omega : 10 > 0))]

theorem natDec_mem_isDigit (n : Nat) : ∀ b ∈ natDec n, isDigit b = true := by
  have := natDec_all_isDigit n
  simpa using this

/-- the fold used by `parseNat` -/
def decVal (b : Bytes) : Nat := b.foldl (fun acc d => acc * 10 + (d.toNat - 48)) 0

theorem decVal_snoc (b : Bytes) (d : UInt8) : decVal (b ++ [d]) = decVal b * 10 + (d.toNat - 48) := by
  simp [decVal]

theorem decVal_natDec (n : Nat) : decVal (natDec n) = n := by
  induction n using Nat.strongRecOn with
  | _ n ih =>
    by_cases h : n < 10
    · simp [natDec_lt h, decVal, digitChar_toNat h]
    · rw [natDec_ge h, decVal_snoc, ih (n / 10) (by omega),
        digitChar_toNat (Nat.mod_lt n (by omega : 10 > 0))]
      omega

theorem parseNat_eq_some_of (b : Bytes) (hne : b ≠ []) (hd : b.all isDigit = true) :
    parseNat b = some (decVal b) := by
  simp [parseNat, hne, hd, decVal]

theorem parseNat_isSome_iff (b : Bytes) : (parseNat b).isSome ↔ (b ≠ [] ∧ b.all isDigit = true) := by
  unfold parseNat
  by_cases h1 : b = []
  · simp [h1]
  · by_cases h2 : b.all isDigit = true
    · simp [h1, h2]
    · simp [h1, h2]

theorem parseNat_some_digits {b : Bytes} {n : Nat} (h : parseNat b = some n) :
    b ≠ [] ∧ b.all isDigit = true :=
  (parseNat_isSome_iff b).1 (by simp [h])

theorem parseNat_natDec (n : Nat) : parseNat (natDec n) = some n := by
  rw [parseNat_eq_some_of _ (natDec_ne_nil n) (natDec_all_isDigit n), decVal_natDec]

theorem intDec_nonneg {i : Int} (h : 0 ≤ i) : intDec i = natDec i.toNat := by
  simp [intDec, Int.not_lt.2 h]
theorem intDec_neg {i : Int} (h : i < 0) : intDec i = 45 :: natDec (-i).toNat := by
  simp [intDec, h]

theorem parseInt_of_head_ne (b : Bytes) (h : b.head? ≠ some 45) :
    parseInt b = (parseNat b).map fun n => (n : Int) := by
  unfold parseInt
  split
  · simp at h
  · rfl

theorem natDec_head_isDigit (n : Nat) : ∃ d r, natDec n = d :: r ∧ isDigit d = true := by
  cases h : natDec n with
  | nil => exact absurd h (natDec_ne_nil n)
  | cons d r => exact ⟨d, r, rfl, natDec_mem_isDigit n d (by simp [h])⟩

theorem parseInt_natDec (n : Nat) : parseInt (natDec n) = some (n : Int) := by
  rw [parseInt_of_head_ne, parseNat_natDec]; rfl
  obtain ⟨d, r, h, hd⟩ := natDec_head_isDigit n
  rw [h]; simp
  rintro rfl
  exact absurd hd (by decide)

theorem parseInt_intDec (i : Int) : parseInt (intDec i) = some i := by
  by_cases h : i < 0
  · rw [intDec_neg h]
    simp only [parseInt, parseNat_natDec]
    simp; omega
  · rw [intDec_nonneg (by omega), parseInt_natDec]
    congr 1; omega

/-- digits or `-` -/
def isDecByte (b : UInt8) : Bool := isDigit b || b = 45

theorem intDec_mem (i : Int) : ∀ b ∈ intDec i, isDigit b = true ∨ b = 45 := by
  intro b hb
  by_cases h : i < 0
  · rw [intDec_neg h] at hb
    rcases List.mem_cons.1 hb with rfl | hb
    · exact .inr rfl
    · exact .inl (natDec_mem_isDigit _ b hb)
  · rw [intDec_nonneg (by omega)] at hb
    exact .inl (natDec_mem_isDigit _ b hb)

theorem intDec_ne_nil (i : Int) : intDec i ≠ [] := by
  by_cases h : i < 0
  · simp [intDec_neg h]
  · rw [intDec_nonneg (by omega)]; exact natDec_ne_nil _

theorem isDigit_ne {b : UInt8} (h : isDigit b = true) :
    b ≠ 32 ∧ b ≠ 13 ∧ b ≠ 10 ∧ b ≠ 110 ∧ b ≠ 45 := by
  refine ⟨?_, ?_, ?_, ?_, ?_⟩ <;> (rintro rfl; exact absurd h (by decide))
end Wire
