import Pymc.Proofs.ReadersLine
/-! Helper lemmas for C03: the "flat result" relation, `_readline` against `splitLine`,
`_readvalue` against `splitValue`. -/
namespace Readers
open Bytes

/-- `res` is what the flat specification `spec` prescribes: the item, and an unread remainder
(`rest` plus the data of the unread events) equal to the prescribed tail. -/
def FlatRes (spec : Option (Bytes × Bytes)) (res : Except Err (Bytes × Bytes × List Ev)) : Prop :=
  (∀ item tail, spec = some (item, tail) →
      ∃ rest evs', res = .ok (rest, item, evs') ∧ rest ++ joinData evs' = tail ∧ clean evs') ∧
  (spec = none → res = .error .unexpectedClose)

theorem FlatRes_some {item tail : Bytes} {res : Except Err (Bytes × Bytes × List Ev)} :
    FlatRes (some (item, tail)) res ↔
      ∃ rest evs', res = .ok (rest, item, evs') ∧ rest ++ joinData evs' = tail ∧ clean evs' := by
  constructor
  · intro h; exact h.1 item tail rfl
  · intro h; refine ⟨?_, by simp⟩
    intro i t e; simp only [Option.some.injEq, Prod.mk.injEq] at e
    obtain ⟨rfl, rfl⟩ := e; exact h

theorem FlatRes_none {res : Except Err (Bytes × Bytes × List Ev)} :
    FlatRes none res ↔ res = .error .unexpectedClose := by
  constructor
  · intro h; exact h.2 rfl
  · intro h; exact ⟨by simp, fun _ => h⟩

/-- two results that obey the same flat specification agree on item and remaining stream -/
def SegAgree (r₁ r₂ : Except Err (Bytes × Bytes × List Ev)) : Prop :=
  match r₁, r₂ with
  | .ok (rest, item, e), .ok (rest', item', e') =>
      item = item' ∧ rest ++ joinData e = rest' ++ joinData e'
  | .error a, .error b => a = .unexpectedClose ∧ b = .unexpectedClose
  | _, _ => False

theorem FlatRes.segAgree {spec : Option (Bytes × Bytes)}
    {r₁ r₂ : Except Err (Bytes × Bytes × List Ev)} (h₁ : FlatRes spec r₁) (h₂ : FlatRes spec r₂) :
    SegAgree r₁ r₂ := by
  cases spec with
  | none =>
    rw [FlatRes_none] at h₁ h₂; subst h₁ h₂; exact ⟨rfl, rfl⟩
  | some v =>
    obtain ⟨item, tail⟩ := v
    rw [FlatRes_some] at h₁ h₂
    obtain ⟨rest, e, rfl, ht, -⟩ := h₁
    obtain ⟨rest', e', rfl, ht', -⟩ := h₂
    exact ⟨rfl, ht.trans ht'.symm⟩

/-! ## `_readline` -/

theorem readline_flat (acc buf : Bytes) (evs : List Ev) (hacc : findCRLF acc = none)
    (hclean : clean evs) :
    FlatRes (splitLine (acc ++ buf ++ joinData evs)) (readline acc buf evs) := by
  have h := readline_ok acc buf evs hacc hclean
  cases e : readline acc buf evs with
  | ok v =>
    obtain ⟨rest, line, evs'⟩ := v
    simp only [e] at h
    obtain ⟨hf, hc⟩ := h
    have hfind := FirstCRLF_find hf
    have hsplit := findCRLF_some_split hfind
    obtain ⟨e1, e2⟩ := FirstCRLF_unique hf hsplit
    simp only [splitLine, hfind, Option.map_some]
    rw [FlatRes_some]
    exact ⟨rest, evs', by rw [← e1], e2, hc⟩
  | error err =>
    simp only [e] at h
    obtain ⟨rfl, hn⟩ := h
    simp only [splitLine, hn, Option.map_none]
    rw [FlatRes_none]

/-! ## `_readvalue` -/

theorem drop_append3 {α} (a b c : List α) (n k : Nat) (h : n = a.length + k) (hk : k ≤ b.length) :
    (a ++ b ++ c).drop n = b.drop k ++ c := by
  subst h
  have e : k - b.length = 0 := by omega
  simp [List.drop_append, e]

theorem take_append3 {α} (a b c : List α) (n k : Nat) (h : n = a.length + k) (hk : k ≤ b.length) :
    (a ++ b ++ c).take n = a ++ b.take k := by
  subst h
  have e : k - b.length = 0 := by omega
  simp [List.take_append, e, List.take_of_length_le]

theorem pyTake_nat (b : Bytes) (n : Nat) : pyTake b (n : Int) = b.take n := by simp [pyTake]
theorem pyDrop_nat (b : Bytes) (n : Nat) : pyDrop b (n : Int) = b.drop n := by simp [pyDrop]

theorem readvalueLoop_flat (acc buf : Bytes) (rlen : Int) (evs : List Ev) (size : Nat)
    (h1 : 1 ≤ rlen) (h2 : (acc.length : Int) + rlen = size + 2) (hc : clean evs) :
    FlatRes (splitValue size (acc ++ buf ++ joinData evs)) (readvalueLoop acc buf rlen evs) := by
  fun_induction readvalueLoop acc buf rlen evs with
  | case1 acc buf rlen hgt =>
    have : ¬ (size + 2 ≤ (acc ++ buf ++ joinData []).length) := by
      simp [joinData]; omega
    simp only [splitValue, this, if_false]
    rw [FlatRes_none]
  | case2 acc buf rlen hgt r => simp [clean] at hc
  | case3 acc buf rlen hgt acc' rlen' b r hb ih =>
    have := ih (by omega) (by simp [acc', rlen']; omega) hc.2
    simpa [joinData, acc', List.append_assoc] using this
  | case4 acc buf rlen hgt acc' rlen' r ih =>
    have := ih (by omega) (by simp [acc', rlen']; omega) hc
    simpa [joinData, acc', List.append_assoc] using this
  | case5 acc buf rlen hgt c r => simp [clean] at hc
  | case6 buf evs hgt =>
    simp at h2; omega
  | case7 acc buf evs hgt hne =>
    have hal : acc.length = size + 1 := by omega
    have hbl : 1 ≤ buf.length := by omega
    have : size + 2 ≤ (acc ++ buf ++ joinData evs).length := by simp; omega
    simp only [splitValue, this, if_true]
    rw [FlatRes_some]
    refine ⟨pyDrop buf 1, evs, ?_, ?_, hc⟩
    · rw [List.append_assoc, List.take_append_of_le_length (by omega), List.dropLast_eq_take, hal]
      rfl
    · have : pyDrop buf 1 = buf.drop 1 := pyDrop_nat buf 1
      rw [this, drop_append3 acc buf _ (size + 2) 1 (by omega) hbl]
  | case8 acc buf rlen evs hgt hne1 =>
    obtain ⟨n, rfl⟩ := Int.eq_ofNat_of_zero_le (by omega : 0 ≤ rlen)
    have hn2 : (n : Int) - 2 = ((n - 2 : Nat) : Int) := by omega
    rw [hn2, pyTake_nat, pyDrop_nat]
    have : size + 2 ≤ (acc ++ buf ++ joinData evs).length := by simp; omega
    simp only [splitValue, this, if_true]
    rw [FlatRes_some]
    refine ⟨buf.drop n, evs, ?_, ?_, hc⟩
    · rw [take_append3 acc buf _ size (n - 2) (by omega) (by omega)]
    · rw [drop_append3 acc buf _ (size + 2) n (by omega) (by omega)]

theorem readvalue_flat (buf : Bytes) (size : Nat) (evs : List Ev) (hc : clean evs) :
    FlatRes (splitValue size (buf ++ joinData evs)) (readvalue buf size evs) := by
  have := readvalueLoop_flat [] buf ((size : Int) + 2) evs size (by omega) (by simp) hc
  simpa [readvalue] using this

/-- `chunks[-1]` is evaluated on an empty list only if `rlen = 1` while nothing has been
accumulated; that state is never reached from `rlen ≠ 1` -/
theorem readvalueLoop_no_index_error (acc buf : Bytes) (rlen : Int) (evs : List Ev)
    (h : acc = [] → rlen ≠ 1) : readvalueLoop acc buf rlen evs ≠ .error .indexError := by
  fun_induction readvalueLoop acc buf rlen evs with
  | case1 => simp
  | case2 => simp
  | case3 acc buf rlen hgt acc' rlen' b r hb ih =>
    apply ih; intro he
    simp only [acc', List.append_eq_nil_iff] at he
    obtain ⟨ha, hb⟩ := he
    have := h ha
    simp [rlen', hb]; omega
  | case4 acc buf rlen hgt acc' rlen' r ih =>
    apply ih; intro he
    simp only [acc', List.append_eq_nil_iff] at he
    obtain ⟨ha, hb⟩ := he
    have := h ha
    simp [rlen', hb]; omega
  | case5 => simp
  | case6 => simp at h
  | case7 => simp
  | case8 => simp

end Readers
