import Pymc.Model.HashRoute
import Pymc.Proofs.Rendezvous
/-!
# Helper lemmas for C12 — routing and the `defaultdict` grouping (`route`, `batchesOf`)

Main result: `batchInv` — the batches have pairwise distinct server names, the batch of `s` is exactly
`keysFor s ks` (the inner keys of the requested keys routed to `s`, in request order), and a server has a
batch iff some requested key routes to it.
-/
namespace HashRoute

/-- reverse induction on lists -/
theorem list_rev_ind {α : Type} {P : List α → Prop} (nil : P [])
    (snoc : ∀ l a, P l → P (l ++ [a])) : ∀ l, P l := by
  intro l
  have : ∀ l : List α, P l.reverse := by
    intro l
    induction l with
    | nil => exact nil
    | cons a l ih => rw [List.reverse_cons]; exact snoc _ _ ih
  simpa using this l.reverse

/-! ## routing -/

theorem route_isSome_iff (score : String → String → Nat) (nodes : List Srv) (k : HKey) :
    (route score nodes k).isSome ↔ nodes ≠ [] := by
  unfold route
  constructor
  · intro h hn; subst hn; simp [Rendezvous.getNode_nil] at h
  · intro hne
    obtain ⟨w, h, _⟩ := Rendezvous.getNode_isLexMax (fun n => score n k.routing) hne
    simp [h]

theorem route_ne_none_iff (score : String → String → Nat) (nodes : List Srv) (k : HKey) :
    route score nodes k ≠ none ↔ nodes ≠ [] := by
  rw [← route_isSome_iff score nodes k, Option.isSome_iff_ne_none]

theorem route_nil (score : String → String → Nat) (k : HKey) : route score [] k = none := rfl

theorem route_mem {score : String → String → Nat} {nodes : List Srv} {k : HKey} {s : Srv}
    (h : route score nodes k = some s) : s ∈ nodes :=
  ((Rendezvous.getNode_eq_some_iff _ nodes s).mp h).1

theorem route_congr (score : String → String → Nat) {nodes nodes' : List Srv} {k k' : HKey}
    (hm : ∀ n, n ∈ nodes ↔ n ∈ nodes') (hr : k.routing = k'.routing) :
    route score nodes k = route score nodes' k' := by
  unfold route
  rw [hr]
  exact Rendezvous.getNode_set_ext _ hm

/-! ## grouping -/

/-- the keys that must be sent to `s`: inner keys of the requested keys routed to `s`, request order -/
def keysFor (score : String → String → Nat) (nodes : List Srv) (s : Srv) (ks : List HKey) : List Key.K :=
  (ks.filter (fun hk => route score nodes hk = some s)).map (·.key)

/-- `client_batches[s]` (`[]` if `s` has no batch) -/
def batchFor (bs : List (Srv × List Key.K)) (s : Srv) : List Key.K :=
  ((bs.find? (fun e => e.1 = s)).map (·.2)).getD []

/-- the server names of the batches, in order -/
abbrev bnames (bs : List (Srv × List Key.K)) : List Srv := bs.map (·.1)

/-- the total number of keys sent -/
def totalKeys (bs : List (Srv × List Key.K)) : Nat := (bs.map (·.2.length)).sum

theorem batchesOf_nil (score : String → String → Nat) (nodes : List Srv) :
    batchesOf score nodes [] = [] := rfl

theorem batchesOf_concat (score : String → String → Nat) (nodes : List Srv) (ks : List HKey) (k : HKey) :
    batchesOf score nodes (ks ++ [k]) =
      match route score nodes k with
      | some s => addToBatch (batchesOf score nodes ks) s k.key
      | none => batchesOf score nodes ks := by
  simp only [batchesOf, List.foldl_append, List.foldl_cons, List.foldl_nil]
  cases route score nodes k <;> rfl

theorem keysFor_nil (score : String → String → Nat) (nodes : List Srv) (s : Srv) :
    keysFor score nodes s [] = [] := rfl

theorem keysFor_concat (score : String → String → Nat) (nodes : List Srv) (s : Srv) (ks : List HKey)
    (k : HKey) : keysFor score nodes s (ks ++ [k]) =
      keysFor score nodes s ks ++ (if route score nodes k = some s then [k.key] else []) := by
  unfold keysFor
  rw [List.filter_append, List.map_append]
  by_cases h : route score nodes k = some s <;> simp [h]

theorem mem_keysFor {score : String → String → Nat} {nodes : List Srv} {s : Srv} {ks : List HKey}
    {k : Key.K} : k ∈ keysFor score nodes s ks ↔ ∃ hk ∈ ks, route score nodes hk = some s ∧ hk.key = k := by
  simp [keysFor, and_assoc]

theorem keysFor_eq_nil {score : String → String → Nat} {nodes : List Srv} {s : Srv} {ks : List HKey}
    (h : ¬ ∃ hk ∈ ks, route score nodes hk = some s) : keysFor score nodes s ks = [] := by
  unfold keysFor
  rw [List.map_eq_nil_iff, List.filter_eq_nil_iff]
  intro hk hm hr
  exact h ⟨hk, hm, by simpa using hr⟩

theorem any_name_iff (bs : List (Srv × List Key.K)) (s : Srv) :
    (bs.any (·.1 = s)) = true ↔ s ∈ bnames bs := by
  simp only [List.any_eq_true, decide_eq_true_eq, List.mem_map]

theorem bnames_addToBatch (bs : List (Srv × List Key.K)) (s : Srv) (k : Key.K) :
    bnames (addToBatch bs s k) = if s ∈ bnames bs then bnames bs else bnames bs ++ [s] := by
  unfold addToBatch
  by_cases h : s ∈ bnames bs
  · rw [if_pos ((any_name_iff bs s).mpr h), if_pos h]
    simp only [bnames, List.map_map]
    apply List.map_congr_left
    intro e _
    by_cases he : e.1 = s <;> simp [he]
  · have : ¬ (bs.any (·.1 = s)) = true := fun h' => h ((any_name_iff bs s).mp h')
    rw [if_neg this, if_neg h]
    simp [bnames]

/-- appending to the batch of `s` adds exactly one key when the names are distinct -/
theorem totalKeys_map_append {bs : List (Srv × List Key.K)} {s : Srv} (k : Key.K)
    (hd : (bnames bs).Nodup) (hs : s ∈ bnames bs) :
    totalKeys (bs.map fun b => if b.1 = s then (b.1, b.2 ++ [k]) else b) = totalKeys bs + 1 := by
  induction bs with
  | nil => simp at hs
  | cons e bs ih =>
    simp only [bnames, List.map_cons, List.nodup_cons, List.mem_cons] at hd hs
    simp only [totalKeys, List.map_cons, List.sum_cons] at ih ⊢
    by_cases he : e.1 = s
    · have hid : (bs.map fun b => if b.1 = s then (b.1, b.2 ++ [k]) else b) = bs := by
        conv => rhs; rw [← List.map_id bs]
        apply List.map_congr_left
        intro b hb
        have : b.1 ≠ s := fun h => hd.1 (he ▸ h ▸ List.mem_map.mpr ⟨b, hb, rfl⟩)
        simp [this]
      rw [hid]
      simp [he]
      omega
    · have hs' : s ∈ bnames bs := by
        rcases hs with h | h
        · exact absurd h.symm he
        · exact h
      have := ih hd.2 hs'
      simp only [he, if_false]
      omega

theorem totalKeys_addToBatch {bs : List (Srv × List Key.K)} (s : Srv) (k : Key.K)
    (hd : (bnames bs).Nodup) : totalKeys (addToBatch bs s k) = totalKeys bs + 1 := by
  unfold addToBatch
  by_cases h : s ∈ bnames bs
  · rw [if_pos ((any_name_iff bs s).mpr h)]
    exact totalKeys_map_append k hd h
  · have : ¬ (bs.any (·.1 = s)) = true := fun h' => h ((any_name_iff bs s).mp h')
    rw [if_neg this]
    simp [totalKeys, List.sum_append]

/-- what the grouping loop establishes -/
structure BatchInv (score : String → String → Nat) (nodes : List Srv) (ks : List HKey)
    (bs : List (Srv × List Key.K)) : Prop where
  nodup : (bnames bs).Nodup
  eq : ∀ e ∈ bs, e.2 = keysFor score nodes e.1 ks
  mem : ∀ s, s ∈ bnames bs ↔ ∃ hk ∈ ks, route score nodes hk = some s
  total : totalKeys bs = (ks.filter fun hk => (route score nodes hk).isSome).length

theorem batchInv (score : String → String → Nat) (nodes : List Srv) (ks : List HKey) :
    BatchInv score nodes ks (batchesOf score nodes ks) := by
  induction ks using list_rev_ind with
  | nil => exact ⟨by simp [batchesOf_nil], by simp [batchesOf_nil], by simp [batchesOf_nil],
      by simp [batchesOf_nil, totalKeys]⟩
  | snoc ks k ih =>
    rw [batchesOf_concat]
    cases hr : route score nodes k with
    | none =>
      simp only
      refine ⟨ih.nodup, ?_, ?_, ?_⟩
      · intro e he
        rw [keysFor_concat, hr, ih.eq e he]; simp
      · intro s
        rw [ih.mem s]
        constructor
        · rintro ⟨hk, hm, h⟩; exact ⟨hk, List.mem_append_left _ hm, h⟩
        · rintro ⟨hk, hm, h⟩
          rcases List.mem_append.mp hm with hm | hm
          · exact ⟨hk, hm, h⟩
          · rw [List.mem_singleton] at hm; subst hm; rw [hr] at h; cases h
      · rw [ih.total, List.filter_append]; simp [hr]
    | some s =>
      simp only
      have hmem : ∀ s', (∃ hk ∈ ks ++ [k], route score nodes hk = some s') ↔
          (∃ hk ∈ ks, route score nodes hk = some s') ∨ s' = s := by
        intro s'
        constructor
        · rintro ⟨hk, hm, h⟩
          rcases List.mem_append.mp hm with hm | hm
          · exact .inl ⟨hk, hm, h⟩
          · rw [List.mem_singleton] at hm; subst hm; rw [hr] at h; exact .inr (Option.some.inj h).symm
        · rintro (⟨hk, hm, h⟩ | rfl)
          · exact ⟨hk, List.mem_append_left _ hm, h⟩
          · exact ⟨k, by simp, hr⟩
      have hnames := bnames_addToBatch (batchesOf score nodes ks) s k.key
      refine ⟨?_, ?_, ?_, ?_⟩
      · rw [hnames]
        by_cases h : s ∈ bnames (batchesOf score nodes ks)
        · rw [if_pos h]; exact ih.nodup
        · rw [if_neg h]
          exact List.nodup_append.mpr ⟨ih.nodup, by simp, by
            intro a ha b hb
            rw [List.mem_singleton] at hb
            subst hb
            intro hab; subst hab; exact h ha⟩
      · intro e he
        rw [keysFor_concat, hr]
        unfold addToBatch at he
        by_cases h : s ∈ bnames (batchesOf score nodes ks)
        · rw [if_pos ((any_name_iff _ s).mpr h)] at he
          obtain ⟨e', he', rfl⟩ := List.mem_map.mp he
          by_cases hs : e'.1 = s
          · have h2 := ih.eq e' he'
            rw [hs] at h2
            simp [hs, h2]
          · have : ¬ s = e'.1 := fun h => hs h.symm
            simp [hs, this, ← ih.eq e' he']
        · have hany : ¬ ((batchesOf score nodes ks).any (·.1 = s)) = true :=
            fun h' => h ((any_name_iff _ s).mp h')
          rw [if_neg hany] at he
          rcases List.mem_append.mp he with he | he
          · have : e.1 ≠ s := fun hs => h (hs ▸ List.mem_map.mpr ⟨e, he, rfl⟩)
            have : ¬ s = e.1 := fun h => this h.symm
            simp [this, ← ih.eq e he]
          · rw [List.mem_singleton] at he
            subst he
            have : keysFor score nodes s ks = [] :=
              keysFor_eq_nil (fun hex => h ((ih.mem s).mpr hex))
            simp [this]
      · intro s'
        rw [hmem, hnames, ← ih.mem s']
        by_cases h : s ∈ bnames (batchesOf score nodes ks)
        · rw [if_pos h]
          exact ⟨.inl, fun h' => h'.elim id (fun e => e ▸ h)⟩
        · rw [if_neg h]; simp
      · rw [totalKeys_addToBatch s k.key ih.nodup, ih.total, List.filter_append]
        simp [hr]

/-- `client_batches[s]` is exactly the keys routed to `s` -/
theorem batchFor_batchesOf (score : String → String → Nat) (nodes : List Srv) (ks : List HKey) (s : Srv) :
    batchFor (batchesOf score nodes ks) s = keysFor score nodes s ks := by
  have inv := batchInv score nodes ks
  unfold batchFor
  cases hf : (batchesOf score nodes ks).find? (fun e => e.1 = s) with
  | none =>
    have hn : s ∉ bnames (batchesOf score nodes ks) := by
      intro hm
      obtain ⟨e, he, hes⟩ := List.mem_map.mp hm
      have := List.find?_eq_none.mp hf e he
      simp [hes] at this
    rw [keysFor_eq_nil (fun hex => hn ((inv.mem s).mpr hex))]
    rfl
  | some e =>
    have h1 := List.find?_some hf
    have h2 := List.mem_of_find?_eq_some hf
    simp only [decide_eq_true_eq] at h1
    simp [inv.eq e h2, h1]

end HashRoute
