import Pymc.Proofs.IgnoreExc
import Pymc.Proofs.RefineAll
/-! Helper lemmas for C07: a read operation against a server that stores nothing returns `missRes`. -/
namespace AbsMap
open Wire

theorem settle_items_empty (s : St) (h : s.items = []) : (settle s).items = [] := by
  unfold settle
  split
  · split
    · rfl
    · exact h
  · exact h

theorem live_empty (s : St) (h : s.items = []) (k : Bytes) : live s k = none := by
  simp [live, lookup, h]

theorem foldl_fetchStep_empty (e : Option Int) (keys : List Bytes) (acc : St × List (Bytes × Item))
    (h : acc.1.items = []) : keys.foldl (fetchStep e) acc = acc := by
  induction keys with
  | nil => rfl
  | cons k ks ih =>
    simp only [List.foldl_cons]
    have : fetchStep e acc k = acc := by simp [fetchStep, live_empty acc.1 h k]
    rw [this, ih]

theorem fetchRun_empty (s : St) (h : s.items = []) (e : Option Int) (keys : List Bytes) :
    fetchRun s e keys = (settle s, []) :=
  foldl_fetchStep_empty e keys _ (settle_items_empty s h)
end AbsMap

namespace Client
open Bytes Wire Exchange Readers AbsMap ApiSpec Framing

theorem fetchSpec_empty (cfg : Cfg) (s : St) (h : s.items = []) (verb : FVerb) (ks : List Key.K)
    (ex : Option IntArg) (wire : List Bytes) (cmd : Bytes)
    (hw : ks.mapM (checkKey cfg) = .ok wire) (hc : encodeFetch cfg verb ks ex = .ok cmd) :
    fetchSpec cfg s verb ks ex = .ok (settle s, []) := by
  obtain ⟨ks', e, hk', rfl, -⟩ := encodeFetch_ok_inv hc
  cases e <;> simp [fetchSpec, hw, checkInteger, Except.map, apply_fetch, fetchRun_empty s h, hitsDict]

theorem legal_of_sends (cfg : Cfg) (c : Call) (verb : FVerb) (ks : List Key.K) (ex : Option IntArg)
    (g : List (Key.K × Exchange.Item) → Res)
    (hcall : ∀ ie so sc, call cfg ie so c sc =
      mapOut (fetchValues cfg ie verb ks ex so sc) fun d => .ok (g d))
    (hs : sends cfg c = true) :
    ∃ wire cmd, ks.mapM (checkKey cfg) = .ok wire ∧ encodeFetch cfg verb ks ex = .ok cmd := by
  rcases fetchValues_cases cfg verb ks ex with ⟨cmd, wanted, h, hw, hc, -, -⟩ | ⟨hf, -⟩
  · exact ⟨wanted, cmd, hw, hc⟩
  · have : sends cfg c = false :=
      sends_of_silent (res := .error .illegalInput) (fun ie so sc => by rw [hcall, hf, mapOut_early])
    rw [this] at hs; cases hs

/-- the contract for a read on a map that stores nothing -/
theorem spec_read_empty (cfg : Cfg) (s : St) (c : Call) (hwf : WF cfg c) (hr : isRead c = true) (he : s.items = [])
    (hs : sends cfg c = true) : spec cfg s c = (settle s, .ok (missRes c)) := by
  cases c with
  | get k =>
    obtain ⟨wire, cmd, hw, hc⟩ := legal_of_sends cfg _ .get [k] none _
      (fun ie so sc => by simp only [call] <;> rfl) hs
    simp [spec, fetchSpec_empty cfg s he _ _ _ wire cmd hw hc, missRes]
  | gat k e =>
    obtain ⟨wire, cmd, hw, hc⟩ := legal_of_sends cfg _ .gat [k] (some e) _
      (fun ie so sc => by simp only [call] <;> rfl) hs
    simp [spec, fetchSpec_empty cfg s he _ _ _ wire cmd hw hc, missRes]
  | gets k =>
    obtain ⟨wire, cmd, hw, hc⟩ := legal_of_sends cfg _ .gets [k] none _
      (fun ie so sc => by simp only [call] <;> rfl) hs
    simp [spec, fetchSpec_empty cfg s he _ _ _ wire cmd hw hc, missRes]
  | gats k e =>
    obtain ⟨wire, cmd, hw, hc⟩ := legal_of_sends cfg _ .gats [k] (some e) _
      (fun ie so sc => by simp only [call] <;> rfl) hs
    simp [spec, fetchSpec_empty cfg s he _ _ _ wire cmd hw hc, missRes]
  | getMany ks =>
    by_cases hks : ks = []
    · have : sends cfg (.getMany ks) = false :=
        sends_of_silent (res := .ok (.dict [])) (fun ie so sc => by simp only [call, hks, if_true])
      rw [this] at hs; cases hs
    · obtain ⟨wire, cmd, hw, hc⟩ := legal_of_sends cfg _ .get ks none _
        (fun ie so sc => by simp only [call, hks, if_false] <;> rfl) hs
      simp [spec, hks, fetchSpec_empty cfg s he _ _ _ wire cmd hw hc, missRes]
  | getsMany ks =>
    by_cases hks : ks = []
    · have : sends cfg (.getsMany ks) = false :=
        sends_of_silent (res := .ok (.casDict [])) (fun ie so sc => by simp only [call, hks, if_true])
      rw [this] at hs; cases hs
    · obtain ⟨wire, cmd, hw, hc⟩ := legal_of_sends cfg _ .gets ks none _
        (fun ie so sc => by simp only [call, hks, if_false] <;> rfl) hs
      simp [spec, hks, fetchSpec_empty cfg s he _ _ _ wire cmd hw hc, missRes]
  | stats args => exact absurd hwf (by simp [WF])              -- outside the map contract
  | cacheMemlimit m => exact absurd hwf (by simp [WF])
  | _ => simp [isRead] at hr

theorem onServer_read_empty (cfg : Cfg) (s : St) (c : Call) (hwf : WF cfg c) (hr : isRead c = true)
    (he : s.items = []) (hs : sends cfg c = true) :
    onServer cfg s c = (settle s, .ok (missRes c), true) := by
  rw [refines_all cfg s c hwf, spec_read_empty cfg s c hwf hr he hs]
  cases c <;> first | rfl | simp [isRead] at hr
end Client

/-! Concrete instances used by the non-vacuity examples of `Pymc/Props/C07.lean`. -/
namespace C07Examples
open Bytes Wire Exchange Client Framing
theorem h1 : ([Key.K.bytes [107]].mapM (checkKey {})) = .ok [[107]] := by with_unfolding_all rfl
theorem h2 : encodeFetch {} .get [Key.K.bytes [107]] none = .ok [103, 101, 116, 32, 107, 13, 10] := by
  with_unfolding_all rfl
theorem hsends : sends {} (.get (.bytes [107])) = true := by
  simp only [sends, Client.call, fetchValues, h1, h2, mapOut_sent, exchangeFetch_probe]
end C07Examples
