import Pymc.Proofs.ExchangeBasic
/-! Helper for C01: one iteration of the `while True` loop of `_fetch_cmd` as a non-recursive function,
and `fetchLoop` as its iteration. -/
namespace Exchange
open Bytes Readers Wire

/-- the state of the fetch loop between two iterations: `buf`, the events not yet received, `result` -/
abbrev FetchSt := Bytes × List Ev × List FetchEntry

/-- one iteration of the loop body (base.py 1190–1210): either the call ends (`inl`) or the loop
goes round again with a new state (`inr`) -/
def fetchStep (kind : FetchKind) (wanted : List Bytes) (buf : Bytes) (evs : List Ev)
    (acc : List FetchEntry) : Out (List FetchEntry) ⊕ FetchSt :=
  match readline [] buf evs with
  | .error e => .inl ⟨.error (ofReaderErr e), [], true⟩
  | .ok (rest, line, evs') =>
    match raiseErrors line with
    | some e => .inl ⟨.error e, evs', true⟩
    | none =>
      if line = ofString "END" || line = ofString "OK" then .inl ⟨.ok acc, evs', false⟩
      else if startsWith line (ofString "VALUE") then
        let parts := Key.pySplitWs line
        let expectCas := kind = .values true
        if (expectCas && parts.length ≠ 5) || (!expectCas && parts.length ≠ 4) then
          .inl ⟨.error .valueError, evs', true⟩
        else
          let key := parts.getD 1 []
          match pyInt (parts.getD 3 []) with
          | none => .inl ⟨.error .valueError, evs', true⟩
          | some size =>
            match readvalue rest size evs' with
            | .error e => .inl ⟨.error (ofReaderErr e), [], true⟩
            | .ok (rest', data, evs'') =>
              if !wanted.contains key then .inl ⟨.error .keyError, evs'', true⟩
              else match pyInt (parts.getD 2 []) with
                | none => .inl ⟨.error .valueError, evs'', true⟩
                | some flags =>
                  .inr (rest', evs'',
                    acc ++ [.item ⟨key, data, flags, if expectCas then some (parts.getD 4 []) else none⟩])
      else if kind = .stats && startsWith line (ofString "STAT") then
        let kv := Key.pySplitWs line
        if kv.length < 2 then .inl ⟨.error .indexError, evs', true⟩
        else .inr (rest, evs', acc ++ [.stat (kv.getD 1 []) (kv.getD 2 [])])
      else if kind = .stats && startsWith line (ofString "ITEM") then
        let kv := Key.pySplitWs line
        if kv.length < 2 then .inl ⟨.error .indexError, evs', true⟩
        else .inr (rest, evs', acc ++ [.stat (kv.getD 1 []) (joinSp (kv.drop 2))])
      else .inl ⟨.error (.unknownError (line.take 32)), evs', true⟩

/-- continue with `k` unless the step ended the call -/
def stepK (k : FetchSt → Out (List FetchEntry)) : Out (List FetchEntry) ⊕ FetchSt → Out (List FetchEntry)
  | .inl o => o
  | .inr s => k s

/-- `fetchLoop` is the iteration of `fetchStep` -/
theorem fetchLoop_succ (kind : FetchKind) (wanted : List Bytes) (fuel : Nat) (buf : Bytes)
    (evs : List Ev) (acc : List FetchEntry) :
    fetchLoop kind wanted (fuel + 1) buf evs acc =
      stepK (fun s => fetchLoop kind wanted fuel s.1 s.2.1 s.2.2) (fetchStep kind wanted buf evs acc) := by
  rw [fetchLoop]
  unfold fetchStep
  rcases readline [] buf evs with e | ⟨rest, line, evs'⟩
  · rfl
  · try dsimp only
    rcases raiseErrors line with _ | e
    · try dsimp only
      split
      · rfl
      · split
        · split
          · rfl
          · try dsimp only
            rcases pyInt ((Key.pySplitWs line).getD 3 []) with _ | size
            · rfl
            · try dsimp only
              rcases readvalue rest size evs' with e | ⟨rest', data, evs''⟩
              · rfl
              · try dsimp only
                split
                · rfl
                · rcases pyInt ((Key.pySplitWs line).getD 2 []) with _ | flags
                  · rfl
                  · rfl
        · split
          · split <;> rfl
          · split
            · split <;> rfl
            · rfl
    · rfl

theorem fetchLoop_zero (kind : FetchKind) (wanted : List Bytes) (buf : Bytes)
    (evs : List Ev) (acc : List FetchEntry) :
    fetchLoop kind wanted 0 buf evs acc = ⟨.error .indexError, evs, true⟩ := by
  simp [fetchLoop]

end Exchange
