import Pymc.Proofs.PooledCallStep
import Pymc.Proofs.PooledRun
/-!
# `PooledClient ∘ Client` refines the abstract pool model `Pooled`

Forgetting the sockets (`St.proj`) commutes with every pool operation, and one composed call `callP` is one abstract
call `Pooled.callT` whose body is `bodyOf` of the inner `Client.call` outcome (`callP_proj`).  The only hypothesis
is coherence of the state (`Coh`: a client holds a connection id exactly when it holds a socket), an invariant of
the composed model.
-/
namespace PooledCall
open Bytes Readers Wire Exchange Client Framing

/-! ## the pool operations commute with the projection -/

theorem popFresh_proj (cfg : Pooled.Cfg) (t : Nat) (l : List IClient) :
    Pooled.popFresh cfg t (l.map IClient.proj) =
      ((popFresh cfg t l).1.map IClient.proj, (popFresh cfg t l).2.1.map IClient.proj, (popFresh cfg t l).2.2) := by
  induction l with
  | nil => rfl
  | cons c rest ih =>
    simp only [List.map_cons, Pooled.popFresh, popFresh]
    by_cases h : t - c.lastUsed ≤ cfg.idleTimeout
    · simp [IClient.proj, h]
    · simp [IClient.proj, h, ih]

theorem popFresh_mem (cfg : Pooled.Cfg) (t : Nat) (l : List IClient) :
    (∀ c, (popFresh cfg t l).1 = some c → c ∈ l) ∧ (∀ c ∈ (popFresh cfg t l).2.1, c ∈ l) := by
  induction l with
  | nil => simp [popFresh]
  | cons x rest ih =>
    simp only [popFresh]
    by_cases h : t - x.lastUsed ≤ cfg.idleTimeout
    · simp only [h, if_true]
      exact ⟨fun c hc => by cases hc; exact List.mem_cons_self, fun c hc => List.mem_cons_of_mem _ hc⟩
    · simp only [h, if_false]
      exact ⟨fun c hc => List.mem_cons_of_mem _ (ih.1 c hc), fun c hc => List.mem_cons_of_mem _ (ih.2 c hc)⟩

theorem get_proj (cfg : Pooled.Cfg) (s : St) (now : Nat) :
    Pooled.get cfg s.proj now = ((get cfg s now).1.proj, (get cfg s now).2.map IClient.proj) := by
  simp only [Pooled.get, get, St.proj, popFresh_proj]
  rcases popFresh cfg (Pooled.clock cfg now) s.free with ⟨_ | c, rest, cl⟩
  · by_cases h : s.used.length ≥ cfg.maxSize <;> simp [h, IClient.proj]
  · simp

theorem get_some {cfg : Pooled.Cfg} {s s1 : St} {now : Nat} {cl : IClient} (h : get cfg s now = (s1, some cl)) :
    s1.used = s.used ++ [cl] ∧ (∀ x ∈ s1.free, x ∈ s.free) ∧
    (cl ∈ s.free ∨ (cl.sockOpen = false ∧ cl.pipe = [] ∧ cl.conn = none)) := by
  have hm := popFresh_mem cfg (Pooled.clock cfg now) s.free
  simp only [get] at h
  rcases hp : popFresh cfg (Pooled.clock cfg now) s.free with ⟨_ | c, rest, cld⟩
  · rw [hp] at h hm
    by_cases hmax : s.used.length ≥ cfg.maxSize
    · simp [hmax] at h
    · simp only [hmax, if_false, Prod.mk.injEq, Option.some.injEq] at h
      obtain ⟨rfl, rfl⟩ := h
      exact ⟨rfl, hm.2, .inr ⟨rfl, rfl, rfl⟩⟩
  · rw [hp] at h hm
    simp only [Prod.mk.injEq, Option.some.injEq] at h
    obtain ⟨rfl, rfl⟩ := h
    exact ⟨rfl, hm.2, .inl (hm.1 c rfl)⟩

theorem get_none {cfg : Pooled.Cfg} {s s1 : St} {now : Nat} (h : get cfg s now = (s1, none)) :
    s1.used = s.used ∧ (∀ x ∈ s1.free, x ∈ s.free) := by
  have hm := popFresh_mem cfg (Pooled.clock cfg now) s.free
  simp only [get] at h
  rcases hp : popFresh cfg (Pooled.clock cfg now) s.free with ⟨_ | c, rest, cld⟩
  · rw [hp] at h hm
    by_cases hmax : s.used.length ≥ cfg.maxSize
    · simp only [hmax, if_true, Prod.mk.injEq, and_true] at h
      subst h
      exact ⟨rfl, hm.2⟩
    · simp [hmax] at h
  · rw [hp] at h
    simp at h

theorem isUsed_proj (s : St) (id : Nat) : Pooled.isUsed s.proj id = isUsed s id := by
  simp only [Pooled.isUsed, isUsed, St.proj, List.any_map, Function.comp_def, IClient.proj]
  rfl

theorem dropUsed_proj (s : St) (id : Nat) : Pooled.dropUsed s.proj id = (dropUsed s id).map IClient.proj := by
  simp only [Pooled.dropUsed, dropUsed, St.proj, List.filter_map, Function.comp_def, IClient.proj]
  rfl

theorem release_proj (cfg : Pooled.Cfg) (s : St) (c : IClient) (t : Nat) :
    (release cfg s c t).proj = Pooled.release cfg s.proj c.proj t := by
  unfold release Pooled.release
  rw [isUsed_proj, dropUsed_proj]
  have : c.proj.id = c.id := rfl
  rw [this]
  cases isUsed s c.id <;> simp [St.proj, IClient.proj]

theorem destroy_proj (s : St) (c : IClient) : (destroy s c).proj = Pooled.destroy s.proj c.proj := by
  unfold destroy Pooled.destroy
  rw [isUsed_proj, dropUsed_proj]
  have : c.proj.id = c.id := rfl
  rw [this]
  cases isUsed s c.id <;> simp [St.proj, IClient.proj]

/-- once dropped from the used list a client is not in it -/
theorem any_filter_ne (l : List Pooled.PClient) (id : Nat) :
    (l.filter (·.id ≠ id)).any (·.id = id) = false := by
  induction l with
  | nil => rfl
  | cons x t ih =>
    by_cases h : x.id = id <;> simp [h]

/-! ## coherence -/

/-- a pooled client holds a connection id exactly when it holds a socket -/
def Coh (s : St) : Prop := ∀ cl, cl ∈ s.free ∨ cl ∈ s.used → cl.sockOpen = cl.conn.isSome

theorem coh_init : Coh {} := by
  intro cl h; simp at h

/-! ## one composed call is one abstract call -/

theorem pdestroy_noop (s : Pooled.St) (c' : Pooled.PClient) (h : Pooled.isUsed s c'.id = false) :
    Pooled.destroy s c' = s := by
  simp [Pooled.destroy, h]

theorem prelease_noop (cfg : Pooled.Cfg) (s : Pooled.St) (c' : Pooled.PClient) (t : Nat)
    (h : Pooled.isUsed s c'.id = false) : Pooled.release cfg s c' t = s := by
  simp [Pooled.release, h]

theorem isUsed_pdestroy (s : Pooled.St) (c : Pooled.PClient) : Pooled.isUsed (Pooled.destroy s c) c.id = false := by
  unfold Pooled.destroy
  by_cases h1 : Pooled.isUsed s c.id = true
  · rw [if_pos h1]
    exact any_filter_ne s.used c.id
  · rw [if_neg h1]
    simpa using h1

theorem pdestroy_destroy (s : Pooled.St) (c c' : Pooled.PClient) (h : c'.id = c.id) :
    Pooled.destroy (Pooled.destroy s c) c' = Pooled.destroy s c :=
  pdestroy_noop _ _ (by rw [h]; exact isUsed_pdestroy s c)

theorem prelease_destroy (cfg : Pooled.Cfg) (s : Pooled.St) (c c' : Pooled.PClient) (t : Nat) (h : c'.id = c.id) :
    Pooled.release cfg (Pooled.destroy s c) c' t = Pooled.destroy s c :=
  prelease_noop _ _ _ _ (by rw [h]; exact isUsed_pdestroy s c)

theorem pdestroy_destroy' (s : Pooled.St) (id : Nat) (cn cn' : Option Nat) (lu lu' : Nat) :
    Pooled.destroy (Pooled.destroy s ⟨id, cn, lu⟩) ⟨id, cn', lu'⟩ = Pooled.destroy s ⟨id, cn, lu⟩ :=
  pdestroy_destroy _ _ _ rfl

theorem prelease_destroy' (cfg : Pooled.Cfg) (s : Pooled.St) (id : Nat) (cn cn' : Option Nat) (lu lu' t : Nat) :
    Pooled.release cfg (Pooled.destroy s ⟨id, cn, lu⟩) ⟨id, cn', lu'⟩ t = Pooled.destroy s ⟨id, cn, lu⟩ :=
  prelease_destroy _ _ _ _ _ rfl

theorem callP_proj (ccfg : Cfg) (pcfg : Pooled.Cfg) (ie : Bool) (s : St) (idx now fin : Nat) (c : Call) (sc : Script)
    (hcoh : Coh s) :
    (callP ccfg pcfg ie s idx now fin c sc).1.proj =
      (Pooled.callT pcfg s.proj now fin (bodyOfObs ie c (callP ccfg pcfg ie s idx now fin c sc).2)).1 ∧
    (callP ccfg pcfg ie s idx now fin c sc).2.client =
      (Pooled.callT pcfg s.proj now fin (bodyOfObs ie c (callP ccfg pcfg ie s idx now fin c sc).2)).2.client ∧
    ((∀ st r, (callP ccfg pcfg ie s idx now fin c sc).2.step = some st →
        (callP ccfg pcfg ie s idx now fin c sc).2.res = some (.ok r) → st.out.sockOpen = true → st.out.sent ≠ none) →
      (callP ccfg pcfg ie s idx now fin c sc).2.io =
        (Pooled.callT pcfg s.proj now fin (bodyOfObs ie c (callP ccfg pcfg ie s idx now fin c sc).2)).2.io) := by
  cases hg : get pcfg s now with | mk s1 oc =>
  have hpg : Pooled.get pcfg s.proj now = (s1.proj, oc.map IClient.proj) := by rw [get_proj, hg]
  generalize hr : callP ccfg pcfg ie s idx now fin c sc = r
  cases oc with
  | none => simp only [callP, hg] at hr; subst hr; simp [Pooled.callT, hpg]
  | some cl =>
    simp only [callP, hg] at hr
    obtain ⟨hu, -, hcl⟩ := get_some hg
    have hc : cl.sockOpen = cl.conn.isSome := by
      rcases hcl with h | ⟨h1, -, h3⟩
      · exact hcoh cl (.inl h)
      · rw [h1, h3]; rfl
    have hused : ∀ S : Pooled.St, S.used = s1.proj.used → Pooled.isUsed S cl.id = true := by
      intro S hS
      simp [Pooled.isUsed, hS, St.proj, hu, IClient.proj]
    obtain ⟨h1, h2, h3⟩ := stepTagged_conn ccfg idx cl.sockOpen cl.pipe c sc
    generalize stepTagged ccfg idx cl.sockOpen cl.pipe c sc = st at h1 h2 h3 hr
    obtain ⟨k, ⟨res, so', cn, sent, unread⟩, avail, cons, left⟩ := st
    simp only at h1 h2 h3 hr
    rw [hc] at h1 h2
    cases hq : isQuit c
    · rcases res with e | x
      · cases hsw : swallows ie c e
        · simp only [hq, hsw, Bool.false_eq_true, if_false] at hr
          subst hr
          simp only [destroy_proj, bodyOfObs, bodyOf, hq, hsw, Pooled.callT, hpg, Option.map_some]
          rcases hconn : cl.conn with _ | kk <;> cases so' <;> cases sent <;> simp [hconn] at h1 h2 <;> subst h1 <;>
            simp [St.proj, IClient.proj, hconn, Pooled.destroy, Pooled.isUsed, Pooled.dropUsed, hu, Pooled.connList]
        · simp only [hq, hsw, Bool.false_eq_true, if_false, if_true] at hr
          subst hr
          simp only [release_proj, bodyOfObs, bodyOf, hq, hsw, Pooled.callT, hpg, Option.map_some]
          rcases hconn : cl.conn with _ | kk <;> cases so' <;> cases sent <;> simp [hconn] at h1 h2 <;> subst h1 <;>
            simp [St.proj, IClient.proj, hconn, Pooled.release, Pooled.isUsed, Pooled.dropUsed, hu,
              Pooled.connList]
      · simp only [hq, Bool.false_eq_true, if_false] at hr
        subst hr
        simp only [release_proj, bodyOfObs, bodyOf, hq, Pooled.callT, hpg, Option.map_some]
        rcases hconn : cl.conn with _ | kk <;> cases so' <;> cases sent <;> simp [hconn] at h1 h2 <;> subst h1 <;>
          simp [St.proj, IClient.proj, hconn, Pooled.release, Pooled.isUsed, Pooled.dropUsed, hu,
            Pooled.connList]
    · obtain ⟨hso, h3'⟩ := h3 hq
      subst hso
      rcases res with e | x
      · simp only [hq, if_true] at hr
        subst hr
        simp only [destroy_proj, bodyOfObs, bodyOf, hq, Pooled.callT, hpg, Option.map_some]
        simp only [IClient.proj, pdestroy_destroy']
        rcases hconn : cl.conn with _ | kk <;> cases sent <;> simp [hconn] at h1 h2 <;> subst h1 <;>
          simp [St.proj, Pooled.destroy, Pooled.isUsed, Pooled.dropUsed, hu, Pooled.connList]
      · have hs := h3' x rfl
        simp only [hq, if_true] at hr
        subst hr
        simp only [destroy_proj, release_proj, bodyOfObs, bodyOf, hq, Pooled.callT, hpg, Option.map_some]
        simp only [IClient.proj, prelease_destroy']
        rcases hconn : cl.conn with _ | kk <;> cases sent <;> simp [hconn] at h1 h2 hs <;> subst h1 <;>
          simp [St.proj, Pooled.destroy, Pooled.isUsed, Pooled.dropUsed, hu, Pooled.connList]

/-! ## what one composed call does to the pool -/

theorem release_free {cfg : Pooled.Cfg} {S : St} {c x : IClient} {t : Nat} (h : x ∈ (release cfg S c t).free) :
    x ∈ S.free ∨ (x.sockOpen = c.sockOpen ∧ x.pipe = c.pipe ∧ x.conn = c.conn) := by
  unfold release at h
  split at h
  · rcases List.mem_append.mp h with h | h
    · exact .inl h
    · rw [List.mem_singleton.mp h]; exact .inr ⟨rfl, rfl, rfl⟩
  · exact .inl h

theorem release_used {cfg : Pooled.Cfg} {S : St} {c x : IClient} {t : Nat} (h : x ∈ (release cfg S c t).used) :
    x ∈ S.used := by
  unfold release at h
  split at h
  · exact (List.mem_filter.mp h).1
  · exact h

theorem destroy_free (S : St) (c : IClient) : (destroy S c).free = S.free := by
  unfold destroy; split <;> rfl

theorem destroy_used {S : St} {c x : IClient} (h : x ∈ (destroy S c).used) : x ∈ S.used := by
  unfold destroy at h
  split at h
  · exact (List.mem_filter.mp h).1
  · exact h

/-- the shape of the state after one call: either no client could be checked out, or the inner call is
`stepTagged` on a client `cl` that was idle in the pool or is new; the idle clients afterwards are idle clients from
before, or have no socket, or are `cl` as the inner call left it -/
theorem callP_spec (ccfg : Cfg) (pcfg : Pooled.Cfg) (ie : Bool) (s : St) (idx now fin : Nat) (c : Call) (sc : Script) :
    (∃ s1, get pcfg s now = (s1, none) ∧ callP ccfg pcfg ie s idx now fin c sc = (s1, {})) ∨
    (∃ s1 cl, get pcfg s now = (s1, some cl) ∧
      (callP ccfg pcfg ie s idx now fin c sc).2.step = some (stepTagged ccfg idx cl.sockOpen cl.pipe c sc) ∧
      (callP ccfg pcfg ie s idx now fin c sc).2.client = some cl.id ∧
      (∀ x ∈ (callP ccfg pcfg ie s idx now fin c sc).1.free, x ∈ s1.free ∨ (x.sockOpen = false ∧ x.conn = none) ∨
        (x.sockOpen = (stepTagged ccfg idx cl.sockOpen cl.pipe c sc).out.sockOpen ∧
         x.pipe = (stepTagged ccfg idx cl.sockOpen cl.pipe c sc).leftover ∧
         x.conn = if (stepTagged ccfg idx cl.sockOpen cl.pipe c sc).out.sockOpen then
           (if (stepTagged ccfg idx cl.sockOpen cl.pipe c sc).out.connected then some s1.nextConn else cl.conn)
           else none)) ∧
      (∀ x ∈ (callP ccfg pcfg ie s idx now fin c sc).1.used, x ∈ s1.used)) := by
  cases hg : get pcfg s now with | mk s1 oc =>
  cases oc with
  | none => exact .inl ⟨s1, rfl, by simp only [callP, hg]⟩
  | some cl =>
    refine .inr ⟨s1, cl, rfl, ?_⟩
    simp only [callP, hg]
    generalize stepTagged ccfg idx cl.sockOpen cl.pipe c sc = st
    split
    · split
      · refine ⟨rfl, rfl, fun x hx => ?_, fun x hx => by have h' := destroy_used (release_used hx); exact h'⟩
        rcases release_free hx with h | ⟨h1, -, h3⟩
        · rw [destroy_free] at h; exact .inl h
        · exact .inr (.inl ⟨h1, h3⟩)
      · refine ⟨rfl, rfl, fun x hx => ?_, fun x hx => by have h' := destroy_used (destroy_used hx); exact h'⟩
        have h : x ∈ (destroy (destroy _ _) _).free := hx
        rw [destroy_free, destroy_free] at h; exact .inl h
    · split
      · refine ⟨rfl, rfl, fun x hx => ?_, fun x hx => by have h' := release_used hx; exact h'⟩
        rcases release_free hx with h | ⟨h1, h2, h3⟩
        · exact .inl h
        · exact .inr (.inr ⟨h1, h2, h3⟩)
      · split
        · refine ⟨rfl, rfl, fun x hx => ?_, fun x hx => by have h' := release_used hx; exact h'⟩
          rcases release_free hx with h | ⟨h1, h2, h3⟩
          · exact .inl h
          · exact .inr (.inr ⟨h1, h2, h3⟩)
        · refine ⟨rfl, rfl, fun x hx => ?_, fun x hx => by have h' := destroy_used hx; exact h'⟩
          have h : x ∈ (destroy _ _).free := hx
          rw [destroy_free] at h; exact .inl h

/-- what the method returns: the inner result, or the miss value when a read method swallowed the exception; and the
`io` of the observation is a connection only if the inner call got as far as sending -/
theorem callP_res (ccfg : Cfg) (pcfg : Pooled.Cfg) (ie : Bool) (s : St) (idx now fin : Nat) (c : Call) (sc : Script)
    (st : Step) (h : (callP ccfg pcfg ie s idx now fin c sc).2.step = some st) :
    ((callP ccfg pcfg ie s idx now fin c sc).2.res = some st.out.res ∨
     (∃ e, st.out.res = .error e ∧ swallows ie c e = true ∧
       (callP ccfg pcfg ie s idx now fin c sc).2.res = some (.ok (missRes c)))) ∧
    (st.out.sent = none → (callP ccfg pcfg ie s idx now fin c sc).2.io = none) := by
  rcases callP_spec ccfg pcfg ie s idx now fin c sc with ⟨s1, hg, hr⟩ | ⟨s1, cl, hg, hstep, -, -, -⟩
  · rw [hr] at h; simp at h
  · rw [hstep] at h
    obtain rfl := Option.some.inj h
    obtain ⟨h1, -, -⟩ := stepTagged_conn ccfg idx cl.sockOpen cl.pipe c sc
    revert h1
    simp only [callP, hg]
    generalize stepTagged ccfg idx cl.sockOpen cl.pipe c sc = st
    intro h1
    have hio : st.out.sent = none → (st.out.sent.isSome || st.out.connected) = false := by
      intro hs; rw [h1, hs]; rfl
    split
    · split <;> rename_i heq <;> exact ⟨.inl (by rw [heq]), fun hs => by simp [hio hs]⟩
    · split
      · rename_i heq; exact ⟨.inl (by rw [heq]), fun hs => by simp [hio hs]⟩
      · rename_i e heq
        split
        · rename_i hsw; exact ⟨.inr ⟨e, heq, hsw, rfl⟩, fun hs => by simp [hio hs]⟩
        · exact ⟨.inl (by rw [heq]), fun hs => by simp [hio hs]⟩

/-- coherence is an invariant of the composed model -/
theorem coh_callP (ccfg : Cfg) (pcfg : Pooled.Cfg) (ie : Bool) (s : St) (idx now fin : Nat) (c : Call) (sc : Script)
    (hcoh : Coh s) : Coh (callP ccfg pcfg ie s idx now fin c sc).1 := by
  rcases callP_spec ccfg pcfg ie s idx now fin c sc with ⟨s1, hg, hr⟩ | ⟨s1, cl, hg, -, -, hfree, hused⟩
  · rw [hr]
    obtain ⟨hu, hf⟩ := get_none hg
    intro x hx
    rcases hx with h | h
    · exact hcoh x (.inl (hf x h))
    · exact hcoh x (.inr (hu ▸ h))
  · obtain ⟨hu, hf, hcl⟩ := get_some hg
    have hc : cl.sockOpen = cl.conn.isSome := by
      rcases hcl with h | ⟨h1, -, h3⟩
      · exact hcoh cl (.inl h)
      · rw [h1, h3]; rfl
    obtain ⟨h1, h2, -⟩ := stepTagged_conn ccfg idx cl.sockOpen cl.pipe c sc
    intro x hx
    rcases hx with h | h
    · rcases hfree x h with h | ⟨h, h'⟩ | ⟨ha, -, hb⟩
      · exact hcoh x (.inl (hf x h))
      · rw [h, h']; rfl
      · rw [ha, hb]
        generalize (stepTagged ccfg idx cl.sockOpen cl.pipe c sc).out = o at h1 h2
        rw [hc] at h1 h2
        rcases o with ⟨res, so', cn, sent, unread⟩
        simp only at h1 h2 ⊢
        cases so' <;> cases sent <;> rcases hconn : cl.conn with _ | kk <;> simp [hconn] at h1 h2 ⊢ <;> subst h1 <;> simp
    · have := hused x h
      rw [hu] at this
      rcases List.mem_append.mp this with h' | h'
      · exact hcoh x (.inr h')
      · rw [List.mem_singleton.mp h']; exact hc

end PooledCall
