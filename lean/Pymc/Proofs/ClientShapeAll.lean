import Pymc.Proofs.ClientShape
/-! Helper lemmas for C01: the shape of each public operation. -/
namespace Client
open Bytes Readers Wire Framing Exchange

theorem shape_delete (cfg : Cfg) (k : Key.K) (noreply : Option Bool) : Shape cfg (.delete k noreply) := by
  cases henc : encodeDelete cfg [k] (boolOr noreply cfg.defaultNoreply) with
  | error e => exact .silent (.error .illegalInput) (fun ie so sc => by simp only [call, henc, early])
  | ok cmds =>
    obtain ⟨f, hcall, hpost⟩ : ∃ f, (∀ ie so sc, call cfg ie so (.delete k noreply) sc =
        mapOut (exchangeMisc cmds (boolOr noreply cfg.defaultNoreply) none so sc) f) ∧
        ∀ r e, f r ≠ .error e :=
      ⟨_, fun ie so sc => by simp only [call, henc] <;> rfl, fun r e => by split <;> simp⟩
    have hlen := encodeDelete_length henc
    refine .misc cmds _ none f hcall rfl ?_ (by simp) (fun r _ e h => absurd h (hpost r e))
    simp [owed, owedMisc, sends_of_misc hcall, effNoreply, hlen]

theorem shape_deleteMany (cfg : Cfg) (ks : List Key.K) (noreply : Option Bool) :
    Shape cfg (.deleteMany ks noreply) := by
  by_cases hks : ks = []
  · exact .silent (.ok (.bool true)) (fun ie so sc => by simp only [call, hks, if_true])
  cases henc : encodeDelete cfg ks (boolOr noreply cfg.defaultNoreply) with
  | error e =>
    exact .silent (.error .illegalInput) (fun ie so sc => by simp only [call, hks, if_false, henc, early])
  | ok cmds =>
    obtain ⟨f, hcall, hpost⟩ : ∃ f, (∀ ie so sc, call cfg ie so (.deleteMany ks noreply) sc =
        mapOut (exchangeMisc cmds (boolOr noreply cfg.defaultNoreply) none so sc) f) ∧
        ∀ r e, f r ≠ .error e :=
      ⟨_, fun ie so sc => by simp only [call, hks, if_false, henc] <;> rfl, fun r e => by simp⟩
    have hlen := encodeDelete_length henc
    refine .misc cmds _ none f hcall rfl ?_ (by simp) (fun r _ e h => absurd h (hpost r e))
    simp [owed, owedMisc, sends_of_misc hcall, effNoreply, hlen]

theorem shape_touch (cfg : Cfg) (k : Key.K) (ex : IntArg) (noreply : Option Bool) :
    Shape cfg (.touch k ex noreply) := by
  cases henc : encodeTouch cfg k ex (boolOr noreply cfg.defaultNoreply) with
  | error e => exact .silent (.error .illegalInput) (fun ie so sc => by simp only [call, henc, early])
  | ok cmd =>
    obtain ⟨f, hcall, hpost⟩ : ∃ f, (∀ ie so sc, call cfg ie so (.touch k ex noreply) sc =
        mapOut (exchangeMisc [cmd] (boolOr noreply cfg.defaultNoreply) none so sc) f) ∧
        ∀ r e, f r ≠ .error e :=
      ⟨_, fun ie so sc => by simp only [call, henc] <;> rfl, fun r e => by split <;> simp⟩
    refine .misc [cmd] _ none f hcall rfl ?_ (by simp) (fun r _ e h => absurd h (hpost r e))
    simp [owed, owedMisc, sends_of_misc hcall, effNoreply]

theorem shape_flushAll (cfg : Cfg) (delay : IntArg) (noreply : Option Bool) :
    Shape cfg (.flushAll delay noreply) := by
  cases henc : encodeFlush delay (boolOr noreply cfg.defaultNoreply) with
  | error e => exact .silent (.error .illegalInput) (fun ie so sc => by simp only [call, henc, early])
  | ok cmd =>
    obtain ⟨f, hcall, hpost⟩ : ∃ f, (∀ ie so sc, call cfg ie so (.flushAll delay noreply) sc =
        mapOut (exchangeMisc [cmd] (boolOr noreply cfg.defaultNoreply) none so sc) f) ∧
        ∀ r e, f r ≠ .error e :=
      ⟨_, fun ie so sc => by simp only [call, henc] <;> rfl, fun r e => by split <;> simp⟩
    refine .misc [cmd] _ none f hcall rfl ?_ (by simp) (fun r _ e h => absurd h (hpost r e))
    simp [owed, owedMisc, sends_of_misc hcall, effNoreply]

theorem length_one {α} {r : List α} (h : r.length = 1) : ∃ a, r = [a] := by
  match r, h with
  | [a], _ => exact ⟨a, rfl⟩

theorem shape_arith (cfg : Cfg) (incr : Bool) (k : Key.K) (delta : IntArg) (noreply : Bool) :
    Shape cfg (.arith incr k delta noreply) := by
  cases henc : encodeArith cfg incr k delta noreply with
  | error e => exact .silent (.error .illegalInput) (fun ie so sc => by simp only [call, henc, early])
  | ok cmd =>
    obtain ⟨f, hcall, hpost⟩ : ∃ f, (∀ ie so sc, call cfg ie so (.arith incr k delta noreply) sc =
        mapOut (exchangeMisc [cmd] noreply none so sc) f) ∧
        ∀ r, (noreply = false → r.length = 1) → ∀ e, f r = .error e → e = .valueError :=
      ⟨_, fun ie so sc => by simp only [call, henc] <;> rfl, fun r hr e => by
        cases noreply with
        | true => simp
        | false =>
          obtain ⟨l, rfl⟩ := length_one (hr rfl)
          simp only [Bool.false_eq_true, if_false, List.head?_cons]
          split
          · simp
          · split
            · simp
            · simp; exact fun h => h.symm⟩
    refine .misc [cmd] _ none f hcall rfl ?_ (by simp) ?_
    · simp [owed, owedMisc, sends_of_misc hcall, effNoreply]
    · intro r hr e he
      have := hpost r (by simpa using hr) e he
      subst this; trivial

theorem shape_version (cfg : Cfg) : Shape cfg .version := by
  obtain ⟨f, hcall, hpost⟩ : ∃ f, (∀ ie so sc, call cfg ie so .version sc =
      mapOut (exchangeMisc [versionCmd] false none so sc) f) ∧
      ∀ r, r.length = 1 → ∀ e, f r = .error e → ∃ l, e = .unknownError l :=
    ⟨_, fun ie so sc => by simp only [call] <;> rfl, fun r hr e => by
      obtain ⟨l, rfl⟩ := length_one hr
      simp only [List.head?_cons]
      split
      · split
        · simp
        · simp; exact fun h => ⟨_, h.symm⟩
      · split
        · simp
        · simp; exact fun h => ⟨_, h.symm⟩⟩
  refine .misc [versionCmd] false none f hcall rfl ?_ (by simp) ?_
  · simp [owed, owedMisc, sends_of_misc hcall, effNoreply]
  · intro r hr e he
    obtain ⟨l, rfl⟩ := hpost r (by simpa using hr) e he
    trivial

theorem shape_raw (cfg : Cfg) (cmd tok : Bytes) : Shape cfg (.raw cmd tok) := by
  obtain ⟨f, hcall, hpost⟩ : ∃ f, (∀ ie so sc, call cfg ie so (.raw cmd tok) sc =
      mapOut (exchangeMisc [cmd ++ CRLF] false (if tok = [] then none else some tok) so sc) f) ∧
      ∀ r, r.length = 1 → ∀ e, f r ≠ .error e :=
    ⟨_, fun ie so sc => by simp only [call] <;> rfl, fun r hr e => by
      obtain ⟨l, rfl⟩ := length_one hr
      simp⟩
  refine .misc [cmd ++ CRLF] false _ f hcall rfl ?_ (by simp) ?_
  · have hs := sends_of_misc hcall
    by_cases ht : tok = []
    · subst ht; simp [owed, owedMisc, hs, effNoreply]
    · simp [owed, owedMisc, hs, effNoreply, ht]
  · intro r hr e he
    exact absurd he (hpost r (by simpa using hr) e)

theorem shape_setMany (cfg : Cfg) (items : List (Key.K × Val)) (ex : IntArg) (noreply : Option Bool)
    (flags : Option Int) : Shape cfg (.setMany items ex noreply flags) := by
  cases henc : encodeStore cfg .set items ex (boolOr noreply cfg.defaultNoreply) flags 0 none with
  | error e => exact .silent (.error .illegalInput) (fun ie so sc => by simp only [call, henc, early])
  | ok cmds =>
    obtain ⟨f, hcall, hpost⟩ : ∃ f, (∀ ie so sc, call cfg ie so (.setMany items ex noreply flags) sc =
        mapOut (exchangeStore .set cmds (boolOr noreply cfg.defaultNoreply) so sc) f) ∧
        ∀ r e, f r ≠ .error e :=
      ⟨_, fun ie so sc => by simp only [call, henc] <;> rfl, fun r e => by simp⟩
    have hlen := encodeStore_length henc
    refine .store .set cmds _ f hcall rfl ?_ (fun r _ e h => absurd h (hpost r e))
    simp [owed, sends_of_store hcall, effNoreply, hlen]

theorem call_store_eq (cfg : Cfg) (ie so : Bool) (sc : Script) (verb k v ex noreply flags cas) :
    call cfg ie so (.store verb k v ex noreply flags cas) sc =
      (let nr := if verb = .cas then boolOr noreply false else boolOr noreply cfg.defaultNoreply
       match casBytes verb cas with
       | .error e => early e so sc
       | .ok cb =>
         match encodeStore cfg verb [(k, v)] ex nr flags 0 cb with
         | .error _ => early .illegalInput so sc
         | .ok cmds =>
           mapOut (exchangeStore verb cmds nr so sc) fun rs =>
             match rs with
             | [some b] => .ok (.bool b)
             | [Option.none] => .ok .none
             | _ => .error .keyError) := by
  cases verb <;> cases cas <;> rfl

theorem shape_store (cfg : Cfg) (verb k v ex noreply flags cas) :
    Shape cfg (.store verb k v ex noreply flags cas) := by
  cases hcb : casBytes verb cas with
  | error e => exact .silent (.error e) (fun ie so sc => by simp only [call_store_eq, hcb, early])
  | ok cb =>
    cases henc : encodeStore cfg verb [(k, v)] ex
        (if verb = .cas then boolOr noreply false else boolOr noreply cfg.defaultNoreply) flags 0 cb with
    | error e =>
      exact .silent (.error .illegalInput) (fun ie so sc => by simp only [call_store_eq, hcb, henc, early])
    | ok cmds =>
      obtain ⟨f, hcall, hpost⟩ : ∃ f, (∀ ie so sc, call cfg ie so (.store verb k v ex noreply flags cas) sc =
          mapOut (exchangeStore verb cmds
            (if verb = .cas then boolOr noreply false else boolOr noreply cfg.defaultNoreply) so sc) f) ∧
          ∀ r, r.length = 1 → ∀ e, f r ≠ .error e :=
        ⟨_, fun ie so sc => by simp only [call_store_eq, hcb, henc] <;> rfl, fun r hr e => by
          obtain ⟨a, rfl⟩ := length_one hr
          cases a <;> simp⟩
      have hlen := encodeStore_length henc
      refine .store verb cmds _ f hcall rfl ?_ (fun r hr e h => absurd h (hpost r (by simpa [hlen] using hr) e))
      simp [owed, sends_of_store hcall, effNoreply, hlen]

/-! ## the fetch operations -/

theorem fetchValues_shape (cfg : Cfg) (verb : FVerb) (ks : List Key.K) (ex : Option IntArg) :
    (∃ (cmd : Bytes) (wanted : List Bytes) (h : List FetchEntry → List (Key.K × Item)),
      ∀ ie so sc, fetchValues cfg ie verb ks ex so sc =
      mapOut (exchangeFetch (.values (verb = .gets || verb = .gats)) cmd wanted ie so sc)
        fun r => .ok (h r)) ∨
    (∀ ie so sc, fetchValues cfg ie verb ks ex so sc = early .illegalInput so sc) := by
  cases hw : ks.mapM (checkKey cfg) with
  | error e => right; intro ie so sc; simp only [fetchValues, hw]
  | ok wire =>
    cases hc : encodeFetch cfg verb ks ex with
    | error e => right; intro ie so sc; simp only [fetchValues, hw, hc]
    | ok cmd =>
      left
      exact ⟨cmd, wire, _, fun ie so sc => by simp only [fetchValues, hw, hc] <;> rfl⟩

theorem shape_of_fetchValues (cfg : Cfg) (c : Call) (verb : FVerb) (ks : List Key.K) (ex : Option IntArg)
    (g : List (Key.K × Item) → Res)
    (hcall : ∀ ie so sc, call cfg ie so c sc =
      mapOut (fetchValues cfg ie verb ks ex so sc) fun d => .ok (g d))
    (howed : sends cfg c = true → owed cfg c = .fetch (.values (verb = .gets || verb = .gats))) :
    Shape cfg c := by
  rcases fetchValues_shape cfg verb ks ex with ⟨cmd, wanted, h, hf⟩ | hf
  · have hcall' : ∀ ie so sc, call cfg ie so c sc =
        mapOut (exchangeFetch (.values (verb = .gets || verb = .gats)) cmd wanted ie so sc)
          fun r => .ok (g (h r)) := by
      intro ie so sc; rw [hcall, hf, mapOut_mapOut_ok]
    exact .fetch _ cmd wanted _ hcall' (howed (sends_of_fetch hcall'))
  · exact .silent (.error .illegalInput) (fun ie so sc => by rw [hcall, hf, mapOut_early])

theorem shape_get (cfg : Cfg) (k : Key.K) : Shape cfg (.get k) :=
  shape_of_fetchValues cfg _ .get [k] none _ (fun ie so sc => by simp only [call] <;> rfl)
    (fun hs => by simp [owed, hs, effNoreply])
theorem shape_gat (cfg : Cfg) (k : Key.K) (e : IntArg) : Shape cfg (.gat k e) :=
  shape_of_fetchValues cfg _ .gat [k] (some e) _ (fun ie so sc => by simp only [call] <;> rfl)
    (fun hs => by simp [owed, hs, effNoreply])
theorem shape_gets (cfg : Cfg) (k : Key.K) : Shape cfg (.gets k) :=
  shape_of_fetchValues cfg _ .gets [k] none _ (fun ie so sc => by simp only [call] <;> rfl)
    (fun hs => by simp [owed, hs, effNoreply])
theorem shape_gats (cfg : Cfg) (k : Key.K) (e : IntArg) : Shape cfg (.gats k e) :=
  shape_of_fetchValues cfg _ .gats [k] (some e) _ (fun ie so sc => by simp only [call] <;> rfl)
    (fun hs => by simp [owed, hs, effNoreply])
theorem shape_getMany (cfg : Cfg) (ks : List Key.K) : Shape cfg (.getMany ks) := by
  by_cases hks : ks = []
  · exact .silent (.ok (.dict [])) (fun ie so sc => by simp only [call, hks, if_true])
  · exact shape_of_fetchValues cfg _ .get ks none _
      (fun ie so sc => by simp only [call, hks, if_false] <;> rfl)
      (fun hs => by simp [owed, hs, effNoreply])
theorem shape_getsMany (cfg : Cfg) (ks : List Key.K) : Shape cfg (.getsMany ks) := by
  by_cases hks : ks = []
  · exact .silent (.ok (.casDict [])) (fun ie so sc => by simp only [call, hks, if_true])
  · exact shape_of_fetchValues cfg _ .gets ks none _
      (fun ie so sc => by simp only [call, hks, if_false] <;> rfl)
      (fun hs => by simp [owed, hs, effNoreply])

/-! ## the administrative operations built on `_fetch_cmd` -/

theorem shape_stats (cfg : Cfg) (args : List Key.K) : Shape cfg (.stats args) := by
  cases hw : args.mapM (checkArg cfg) with
  | error e => exact .silent (.error .illegalInput) (fun ie so sc => by simp only [call, hw, early])
  | ok wire =>
    have hcall : ∀ ie so sc, call cfg ie so (.stats args) sc =
        mapOut (exchangeFetch .stats (adminFetchCmd (ofString "stats") wire) wire ie so sc)
          fun r => .ok (.stats (statsDict (wire.zip args) r)) :=
      fun ie so sc => by simp only [call, hw]
    exact .fetch _ _ wire _ hcall (by simp [owed, sends_of_fetch hcall, effNoreply])

theorem shape_cacheMemlimit (cfg : Cfg) (m : IntArg) : Shape cfg (.cacheMemlimit m) := by
  cases hm : checkInteger m with
  | error e => exact .silent (.error .illegalInput) (fun ie so sc => by simp only [call, hm, early])
  | ok i =>
    cases hw : checkArg cfg (.bytes (intDec i)) with
    | error e => exact .silent (.error .illegalInput) (fun ie so sc => by simp only [call, hm, hw, early])
    | ok w =>
      have hcall : ∀ ie so sc, call cfg ie so (.cacheMemlimit m) sc =
          mapOut (exchangeFetch (.values false) (adminFetchCmd (ofString "cache_memlimit") [w]) [w] ie so sc)
            fun r => .ok ((fun _ => Res.bool true) r) :=
        fun ie so sc => by simp only [call, hm, hw]
      exact .fetch _ _ [w] _ hcall (by simp [owed, sends_of_fetch hcall, effNoreply])

theorem shape (cfg : Cfg) (c : Call) : Shape cfg c := by
  cases c with
  | store => exact shape_store ..
  | setMany => exact shape_setMany ..
  | get => exact shape_get ..
  | gets => exact shape_gets ..
  | gat => exact shape_gat ..
  | gats => exact shape_gats ..
  | getMany => exact shape_getMany ..
  | getsMany => exact shape_getsMany ..
  | delete => exact shape_delete ..
  | deleteMany => exact shape_deleteMany ..
  | arith => exact shape_arith ..
  | touch => exact shape_touch ..
  | flushAll => exact shape_flushAll ..
  | version => exact shape_version ..
  | quit => exact .quit rfl
  | raw => exact shape_raw ..
  | stats => exact shape_stats ..
  | cacheMemlimit => exact shape_cacheMemlimit ..
  | shutdown g => exact .shutdown g rfl
end Client
