import Pymc.Proofs.ConnShape
/-!
# Facts about one `_connect()` call, read off its `Outcome`
-/
namespace Conn

theorem createdIds_okSeg (nd tls : Bool) (m a : Nat) :
    createdIds (okSeg nd tls m a) = if tls then [m, m + 1] else [m] := by
  cases nd <;> cases tls <;> simp [okSeg, createdIds]

theorem closedIds_okSeg (nd tls : Bool) (m a : Nat) : closedIds (okSeg nd tls m a) = [] := by
  cases nd <;> cases tls <;> simp [okSeg, closedIds]

theorem rawIds_okSeg (nd tls : Bool) (m a : Nat) : rawIds (okSeg nd tls m a) = if tls then [m] else [] := by
  cases nd <;> cases tls <;> simp [okSeg, rawIds]

theorem ownedBy_okSeg (nd tls : Bool) (m a : Nat) (r : Id) :
    ownedBy (okSeg nd tls m a) r = if tls = true ∧ m = r then some (m + 1) else none := by
  cases nd <;> cases tls <;> simp [okSeg, ownedBy]

theorem kaSeg_quiet (ka : Bool) (s : Nat) : Quiet s (kaSeg ka s) := by
  cases ka <;> simp [kaSeg, Quiet, Ev.quiet]

@[simp] theorem createdIds_close1 (s : Id) : createdIds [Ev.close s] = [] := rfl
@[simp] theorem rawIds_close1 (s : Id) : rawIds [Ev.close s] = [] := rfl
@[simp] theorem closedIds_close1 (s : Id) : closedIds [Ev.close s] = [s] := rfl
@[simp] theorem ownedBy_close1 (s r : Id) : ownedBy [Ev.close s] r = none := rfl

/-- the tail of a successful call after the prepared socket -/
def okTail (ka : Bool) (s a : Nat) : List Ev :=
  [Ev.settimeout s .connect] ++ kaSeg ka s ++ [Ev.connect s a, Ev.settimeout s .io, Ev.assign s]

@[simp] theorem createdIds_okTail (ka : Bool) (s a : Nat) : createdIds (okTail ka s a) = [] := by
  cases ka <;> simp [okTail, kaSeg, createdIds]
@[simp] theorem closedIds_okTail (ka : Bool) (s a : Nat) : closedIds (okTail ka s a) = [] := by
  cases ka <;> simp [okTail, kaSeg, closedIds]
@[simp] theorem rawIds_okTail (ka : Bool) (s a : Nat) : rawIds (okTail ka s a) = [] := by
  cases ka <;> simp [okTail, kaSeg, rawIds]
@[simp] theorem ownedBy_okTail (ka : Bool) (s a : Nat) (r : Id) : ownedBy (okTail ka s a) r = none :=
  ownedBy_eq_none_of_not_raw (by simp)

/-! ## judgments on `prefix ++ T` where the prefix is `close` events and junk -/

theorem leaked_append {A B : List Ev} {sockA sockB : Option Id} (hA : leaked A sockA = [])
    (hprev : ∀ t, sockA = some t → t ∈ closedIds B) (hB : leaked B sockB = [])
    (hfresh : ∀ id ∈ createdIds B, id ∉ rawIds A) : leaked (A ++ B) sockB = [] := by
  rw [leaked_eq_nil_iff] at hA hB ⊢
  intro id hid
  rw [createdIds_append] at hid
  rcases List.mem_append.1 hid with hid | hid
  · left
    rcases hA id hid with h | h | ⟨w, h1, h2⟩
    · exact isClosed_append_left B h
    · exact isClosed_of_mem (by rw [closedIds_append]; exact List.mem_append_right _ (hprev id h))
    · exact isClosed_iff.2 (.inr ⟨w, ownedBy_append_of_some B h1,
        by rw [closedIds_append]; exact List.mem_append_right _ (hprev w h2)⟩)
  · have hr := hfresh id hid
    rcases hB id hid with h | h | ⟨w, h1, h2⟩
    · exact .inl (isClosed_append_right hr h)
    · exact .inr (.inl h)
    · exact .inr (.inr ⟨w, by rw [ownedBy_append_of_not_raw B hr]; exact h1, h2⟩)

/-! ## the facts -/

/-- what the sequence invariant needs to know about one call -/
structure CallFacts (st st' : St) (log : List Ev) : Prop where
  next_le : st.next ≤ st'.next
  created_fresh : ∀ id ∈ createdIds log, st.next ≤ id ∧ id < st'.next
  raw_fresh : ∀ id ∈ rawIds log, st.next ≤ id ∧ id < st'.next
  closed_range : ∀ id ∈ closedIds log, st.sock = some id ∨ (st.next ≤ id ∧ id < st'.next)
  sock_fresh : ∀ s, st'.sock = some s → st.next ≤ s ∧ s < st'.next
  prev_closed : ∀ t, st.sock = some t → Ev.close t ∈ log
  no_leak : leaked log st'.sock = []

/-- the ids expected to be open when `self.sock = sock` -/
def openOf (tls : Bool) : Option Id → List Id
  | none => []
  | some s => if tls then [s - 1, s] else [s]

theorem prefix_raw {o : Option Id} {lo m : Nat} {junk : List Ev} (hj : Junk lo m junk) :
    rawIds (closeEvs o ++ junk) = [] := by simp [rawIds_append, hj.rawIds]

theorem mem_closeEvs {o : Option Id} {t : Id} (h : o = some t) (rest : List Ev) : Ev.close t ∈ closeEvs o ++ rest := by
  subst h; simp [closeEvs]

theorem sockOf_range (tls : Bool) (m : Nat) : m ≤ sockOf tls m ∧ sockOf tls m < nextOf tls m := by
  cases tls <;> simp [sockOf, nextOf]

theorem Outcome.facts {nd tls ka : Bool} {st st' : St} {r : Except Err Unit} {log : List Ev}
    (h : Outcome nd tls ka st st' r log) : CallFacts st st' log := by
  cases h with
  | early e junk n' hle hj =>
    refine ⟨hle, ?_, ?_, ?_, by simp, fun t ht => mem_closeEvs ht _, ?_⟩
    · intro id hid; simp [createdIds_append] at hid; exact hj.created_range hid
    · intro id hid; simp [rawIds_append, hj.rawIds] at hid
    · intro id hid
      simp only [closedIds_append, closedIds_closeEvs, List.mem_append, Option.mem_toList] at hid
      rcases hid with hid | hid
      · exact .inl hid
      · exact .inr (hj.closed_range hid)
    · rw [leaked_eq_nil_iff]
      intro id hid
      simp [createdIds_append] at hid
      exact .inl (isClosed_of_mem (by simp [closedIds_append, hj.closed id hid]))
  | late e junk m a mid hle hj hq =>
    have hs := sockOf_range tls m
    have hn : m < nextOf tls m := by idomega
    have hlog : closeEvs st.sock ++ junk ++ okSeg nd tls m a ++ mid ++ [Ev.close (sockOf tls m)]
        = closeEvs st.sock ++ (junk ++ (okSeg nd tls m a ++ (mid ++ [Ev.close (sockOf tls m)]))) := by
      simp [List.append_assoc]
    rw [hlog]
    refine ⟨by idomega, ?_, ?_, ?_, by simp, fun t ht => mem_closeEvs ht _, ?_⟩
    · intro id hid
      simp only [createdIds_append, createdIds_closeEvs, hq.createdIds, createdIds_okSeg, List.mem_append,
        createdIds_close1, List.not_mem_nil, false_or, or_false] at hid
      rcases hid with hid | hid
      · have := hj.created_range hid; idomega
      · cases tls <;> simp [nextOf] at hid ⊢ <;> idomega
    · intro id hid
      simp only [rawIds_append, rawIds_closeEvs, hj.rawIds, hq.rawIds, rawIds_okSeg, rawIds_close1,
        List.nil_append, List.append_nil] at hid
      cases tls <;> simp [nextOf] at hid ⊢ <;> idomega
    · intro id hid
      simp only [closedIds_append, closedIds_closeEvs, hq.closedIds, closedIds_okSeg, List.mem_append,
        Option.mem_toList, closedIds_close1, List.not_mem_nil, false_or, List.mem_singleton] at hid
      rcases hid with hid | hid | hid
      · exact .inl hid
      · have := hj.closed_range hid; right; idomega
      · right; subst hid; idomega
    · rw [leaked_eq_nil_iff]
      intro id hid
      left
      simp only [createdIds_append, createdIds_closeEvs, hq.createdIds, createdIds_okSeg, List.mem_append,
        createdIds_close1, List.not_mem_nil, false_or, or_false] at hid
      rcases hid with hid | hid
      · exact isClosed_of_mem (by simp [closedIds_append, hj.closed id hid])
      · apply isClosed_append_right (by simp)
        apply isClosed_append_right (by simp [hj.rawIds])
        rw [isClosed_iff]
        cases tls
        · simp [sockOf, closedIds_append, closedIds_okSeg, hq.closedIds] at hid ⊢; exact .inl hid
        · simp at hid
          rcases hid with rfl | rfl
          · right
            refine ⟨id + 1, ?_, by simp [sockOf, closedIds_append, closedIds_okSeg, hq.closedIds]⟩
            simp [ownedBy_append, ownedBy_okSeg]
          · left; simp [sockOf, closedIds_append, closedIds_okSeg, hq.closedIds]
  | ok junk m a hle hj =>
    have hs := sockOf_range tls m
    have hn : m < nextOf tls m := by idomega
    have hlog : closeEvs st.sock ++ junk ++ okSeg nd tls m a ++
          [.settimeout (sockOf tls m) .connect] ++ kaSeg ka (sockOf tls m) ++
          [.connect (sockOf tls m) a, .settimeout (sockOf tls m) .io, .assign (sockOf tls m)]
        = closeEvs st.sock ++ (junk ++ (okSeg nd tls m a ++ okTail ka (sockOf tls m) a)) := by
      simp [okTail, List.append_assoc]
    rw [hlog]
    refine ⟨by idomega, ?_, ?_, ?_, ?_, fun t ht => mem_closeEvs ht _, ?_⟩
    · intro id hid
      simp only [createdIds_append, createdIds_closeEvs, createdIds_okTail, createdIds_okSeg, List.mem_append] at hid
      rcases hid with hid | hid | hid | hid
      · simp at hid
      · have := hj.created_range hid; idomega
      · cases tls <;> simp [nextOf] at hid ⊢ <;> idomega
      · simp at hid
    · intro id hid
      simp only [rawIds_append, rawIds_closeEvs, hj.rawIds, rawIds_okTail, rawIds_okSeg] at hid
      cases tls <;> simp [nextOf] at hid ⊢ <;> idomega
    · intro id hid
      simp only [closedIds_append, closedIds_closeEvs, closedIds_okTail, closedIds_okSeg, List.mem_append,
        Option.mem_toList] at hid
      rcases hid with hid | hid | hid | hid
      · exact .inl hid
      · have := hj.closed_range hid; right; idomega
      · simp at hid
      · simp at hid
    · intro s hs'
      simp at hs'
      subst hs'
      idomega
    · rw [leaked_eq_nil_iff]
      intro id hid
      simp only [createdIds_append, createdIds_closeEvs, createdIds_okTail, createdIds_okSeg, List.mem_append] at hid
      rcases hid with hid | hid | hid | hid
      · simp at hid
      · exact .inl (isClosed_of_mem (by simp [closedIds_append, hj.closed id hid]))
      · right
        have ho : ∀ r, ownedBy (closeEvs st.sock ++ (junk ++ (okSeg nd tls m a ++ okTail ka (sockOf tls m) a))) r
            = ownedBy (okSeg nd tls m a) r := by
          intro r
          rw [ownedBy_append_of_not_raw _ (by simp), ownedBy_append_of_not_raw _ (by simp [hj.rawIds]),
            ownedBy_append, ownedBy_okTail]
          simp
        cases tls
        · simp [sockOf] at hid ⊢; exact .inl hid.symm
        · simp at hid
          rcases hid with rfl | rfl
          · right; exact ⟨id + 1, by rw [ho, ownedBy_okSeg]; simp, by simp [sockOf]⟩
          · left; simp [sockOf]
      · simp at hid

/-- with a sane start state (`self.sock` is an id handed out earlier) the open set after the call is exactly
`self.sock` plus, under TLS, the raw socket it wraps -/
theorem Outcome.open_exact {nd tls ka : Bool} {st st' : St} {r : Except Err Unit} {log : List Ev}
    (h : Outcome nd tls ka st st' r log) (hwf : ∀ t, st.sock = some t → t < st.next) :
    openIds log = openOf tls st'.sock := by
  have hpre : ∀ {m : Nat} {junk T : List Ev}, st.next ≤ m → Junk st.next m junk →
      (∀ id ∈ createdIds T, m ≤ id ∧ ∀ w, ownedBy T id = some w → m ≤ w) →
      openIds (closeEvs st.sock ++ junk ++ T) = openIds T := by
    intro m junk T hle hj hT
    apply openIds_append_fresh
    · intro id hid
      simp [createdIds_append] at hid
      exact isClosed_of_mem (by simp [closedIds_append, hj.closed id hid])
    · intro id hid
      obtain ⟨h1, h2⟩ := hT id hid
      have hc : ∀ x, m ≤ x → x ∉ closedIds (closeEvs st.sock ++ junk) := by
        intro x hx hmem
        simp only [closedIds_append, closedIds_closeEvs, List.mem_append, Option.mem_toList] at hmem
        rcases hmem with hmem | hmem
        · have := hwf x hmem; idomega
        · have := hj.closed_range hmem; idomega
      exact ⟨by simp [rawIds_append, hj.rawIds], hc id h1, fun w hw => hc w (h2 w hw)⟩
  cases h with
  | early e junk n' hle hj =>
    have := hpre (T := []) hle hj (by simp)
    simp at this
    rw [this]; simp [openIds, openOf]
  | late e junk m a mid hle hj hq =>
    have hlog : closeEvs st.sock ++ junk ++ okSeg nd tls m a ++ mid ++ [Ev.close (sockOf tls m)]
        = closeEvs st.sock ++ junk ++ (okSeg nd tls m a ++ (mid ++ [Ev.close (sockOf tls m)])) := by
      simp [List.append_assoc]
    rw [hlog, hpre hle hj]
    · simp only [openOf, openIds, List.filter_eq_nil_iff]
      intro id hid
      simp only [createdIds_append, hq.createdIds, createdIds_okSeg, List.mem_append,
        createdIds_close1, List.not_mem_nil, or_false] at hid
      have : isClosed (okSeg nd tls m a ++ (mid ++ [Ev.close (sockOf tls m)])) id = true := by
        rw [isClosed_iff]
        cases tls
        · simp at hid
          simp [sockOf, closedIds_append, closedIds_okSeg, hq.closedIds, hid]
        · simp at hid
          rcases hid with rfl | rfl
          · right
            refine ⟨id + 1, ?_, by simp [sockOf, closedIds_append, closedIds_okSeg, hq.closedIds]⟩
            simp [ownedBy_append, ownedBy_okSeg]
          · left; simp [sockOf, closedIds_append, closedIds_okSeg, hq.closedIds]
      rw [this]; simp
    · intro id hid
      simp only [createdIds_append, hq.createdIds, createdIds_okSeg, List.mem_append,
        createdIds_close1, List.not_mem_nil, or_false] at hid
      simp only [ownedBy_append, ownedBy_okSeg, hq.ownedBy, ownedBy_close1]
      cases tls <;> simp at hid ⊢ <;> idomega
  | ok junk m a hle hj =>
    have hlog : closeEvs st.sock ++ junk ++ okSeg nd tls m a ++
          [.settimeout (sockOf tls m) .connect] ++ kaSeg ka (sockOf tls m) ++
          [.connect (sockOf tls m) a, .settimeout (sockOf tls m) .io, .assign (sockOf tls m)]
        = closeEvs st.sock ++ junk ++ (okSeg nd tls m a ++ okTail ka (sockOf tls m) a) := by
      simp [okTail, List.append_assoc]
    rw [hlog, hpre hle hj]
    · simp only [openOf, openIds, createdIds_append, createdIds_okTail, createdIds_okSeg, List.append_nil]
      have hc : ∀ id, isClosed (okSeg nd tls m a ++ okTail ka (sockOf tls m) a) id = false := by
        intro id
        cases hh : isClosed (okSeg nd tls m a ++ okTail ka (sockOf tls m) a) id
        · rfl
        · rw [isClosed_iff] at hh
          simp [closedIds_append, closedIds_okSeg] at hh
      have hf : ∀ l : List Id, l.filter (fun id => !isClosed (okSeg nd tls m a ++ okTail ka (sockOf tls m) a) id) = l := by
        intro l; simp [hc]
      rw [hf]
      cases tls <;> simp [sockOf]
    · intro id hid
      simp only [createdIds_append, createdIds_okTail, createdIds_okSeg, List.mem_append] at hid
      simp only [ownedBy_append, ownedBy_okSeg, ownedBy_okTail]
      cases tls <;> simp at hid ⊢ <;> idomega

end Conn
