import Pymc.Model.Aws
/-! Helper lemmas for C19: the rotation (`hasher.nodes`) and the client table under `reconfigure_nodes`. -/
namespace Aws

theorem mem_addNode (nodes : List Bytes) (n x : Bytes) :
    x ∈ addNode nodes n ↔ x ∈ nodes ∨ x = n := by
  unfold addNode
  split
  · rename_i h
    constructor
    · exact Or.inl
    · rintro (h' | rfl)
      · exact h'
      · exact h
  · simp

theorem mem_foldl_addNode (adv acc : List Bytes) (x : Bytes) :
    x ∈ adv.foldl addNode acc ↔ x ∈ acc ∨ x ∈ adv := by
  induction adv generalizing acc with
  | nil => simp
  | cons a r ih => simp [ih, mem_addNode, or_assoc]

theorem nodup_addNode {nodes : List Bytes} (n : Bytes) (h : nodes.Nodup) : (addNode nodes n).Nodup := by
  unfold addNode
  split
  · exact h
  · rename_i hn
    rw [List.nodup_append]
    refine ⟨h, by simp, ?_⟩
    intro a ha b hb
    simp at hb
    subst hb
    rintro rfl
    exact hn ha

theorem nodup_foldl_addNode (adv : List Bytes) {acc : List Bytes} (h : acc.Nodup) :
    (adv.foldl addNode acc).Nodup := by
  induction adv generalizing acc with
  | nil => exact h
  | cons a r ih => exact ih (nodup_addNode a h)

theorem mem_reconfigure_nodes (s : St) (adv : List Bytes) (n : Bytes) :
    n ∈ (reconfigure s adv).nodes ↔ n ∈ adv := by
  simp only [reconfigure, mem_foldl_addNode, List.mem_filter, decide_eq_true_eq]
  constructor
  · rintro (⟨_, h⟩ | h) <;> exact h
  · exact Or.inr

theorem mem_reconfigure_clients (s : St) (adv : List Bytes) (n : Bytes) :
    n ∈ (reconfigure s adv).clients ↔ n ∈ adv := by
  simp [reconfigure, mem_foldl_addNode]

theorem nodup_reconfigure_nodes (s : St) (adv : List Bytes) (h : s.nodes.Nodup) :
    (reconfigure s adv).nodes.Nodup :=
  nodup_foldl_addNode adv (h.filter _)

theorem nodup_reconfigure_clients (s : St) (adv : List Bytes) :
    (reconfigure s adv).clients.Nodup :=
  nodup_foldl_addNode adv List.nodup_nil

theorem mem_reconfigureOrig_nodes (s : St) (adv : List Bytes) (n : Bytes) :
    n ∈ (reconfigureOrig s adv).nodes ↔ n ∈ s.nodes ∨ n ∈ adv := by
  simp [reconfigureOrig, mem_foldl_addNode]

theorem mem_reconfigureOrig_clients (s : St) (adv : List Bytes) (n : Bytes) :
    n ∈ (reconfigureOrig s adv).clients ↔ n ∈ adv := by
  simp [reconfigureOrig, mem_foldl_addNode]

theorem reconfigureOrig_eq_of_subset (s : St) (adv : List Bytes) (h : ∀ n ∈ s.nodes, n ∈ adv) :
    reconfigureOrig s adv = reconfigure s adv := by
  have : s.nodes.filter (· ∈ adv) = s.nodes := by
    rw [List.filter_eq_self]
    intro a ha
    simpa using h a ha
  simp [reconfigureOrig, reconfigure, this]

/-- the state after a history of reconfigurations -/
theorem nodup_history (hist : List (List Bytes)) (s : St) (h : s.nodes.Nodup) :
    (hist.foldl reconfigure s).nodes.Nodup := by
  induction hist generalizing s with
  | nil => exact h
  | cons a r ih => exact ih _ (nodup_reconfigure_nodes s a h)

theorem closed_history (hist : List (List Bytes)) (s : St) :
    ∀ c, c ∈ s.closed ∨ c ∈ s.clients →
      c ∈ (hist.foldl reconfigure s).closed ∨ c ∈ (hist.foldl reconfigure s).clients := by
  induction hist generalizing s with
  | nil => exact fun _ h => h
  | cons a r ih =>
    intro c hc
    apply ih
    left
    simpa [reconfigure] using hc
end Aws
