import Pymc.Proofs.RefineMany
import Pymc.Proofs.RefineGetFam
/-! C05: all operation families together, and histories. -/
namespace Client
open Bytes Wire Exchange Readers AbsMap ApiSpec

/-- a result that is not a `CLIENT_ERROR` -/
def Benign (r : Except Exc Res) : Prop := ∀ m, r ≠ .error (.clientError m)

theorem fetchSpec_error (cfg : Cfg) (s : St) (verb : FVerb) (ks : List Key.K) (e : Option IntArg) (err : Exc)
    (h : fetchSpec cfg s verb ks e = .error err) : err = .illegalInput := by
  unfold fetchSpec at h
  repeat' split at h
  all_goals simp at h
  all_goals exact h.symm

theorem spec_benign (cfg : Cfg) (s : St) (c : Call) (hc : ∀ i k d n, c ≠ .arith i k d n) :
    Benign (spec cfg s c).2 := by
  cases c <;> simp only [spec] <;> (try exact absurd rfl (hc _ _ _ _))
  all_goals (repeat' split)
  all_goals (intro m; first | (simp; done) | (rename_i heq; have := fetchSpec_error _ _ _ _ _ _ heq; subst this; simp))

theorem sockAfter_benign (c : Call) (r : Except Exc Res) (hq : c ≠ .quit) (hr : Benign r) :
    sockAfter c r = true := by
  unfold sockAfter
  split
  · exact absurd rfl hq
  · rename_i m _; exact absurd rfl (hr m)
  · rfl

/-- when the contract says "illegal input", it also says the map is untouched -/
theorem spec_illegal_state (cfg : Cfg) (s : St) (c : Call) (h : (spec cfg s c).2 = .error .illegalInput) :
    (spec cfg s c).1 = s := by
  revert h
  cases c <;> simp only [spec]
  all_goals (repeat' split)
  all_goals simp

theorem refines_all (cfg : Cfg) (s : St) (c : Call) (h : WF cfg c) :
    onServer cfg s c = ((spec cfg s c).1, (spec cfg s c).2, sockAfter c (spec cfg s c).2) := by
  cases c with
  | arith incr k d nr => exact refines_arith cfg s incr k d nr h.1 h.2
  | version =>
    rw [sockAfter_benign _ _ (by simp) (spec_benign cfg s _ (by simp))]
    exact refines_version cfg s
  | quit => exact refines_quit cfg s
  | raw a b => exact absurd h (by simp [WF])
  | stats args => exact absurd h (by simp [WF])
  | cacheMemlimit m => exact absurd h (by simp [WF])
  | shutdown g => exact absurd h (by simp [WF])
  | store verb k v e nr fl cas =>
    rw [sockAfter_benign _ _ (by simp) (spec_benign cfg s _ (by simp))]
    exact refines_store cfg s verb k v e nr fl cas h.1 h.2
  | setMany items e nr fl =>
    rw [sockAfter_benign _ _ (by simp) (spec_benign cfg s _ (by simp))]
    exact refines_setMany cfg s items e nr fl h.1 h.2
  | get k =>
    rw [sockAfter_benign _ _ (by simp) (spec_benign cfg s _ (by simp))]
    exact refines_get cfg s k h
  | gets k =>
    rw [sockAfter_benign _ _ (by simp) (spec_benign cfg s _ (by simp))]
    exact refines_gets cfg s k h
  | gat k e =>
    rw [sockAfter_benign _ _ (by simp) (spec_benign cfg s _ (by simp))]
    exact refines_gat cfg s k e h
  | gats k e =>
    rw [sockAfter_benign _ _ (by simp) (spec_benign cfg s _ (by simp))]
    exact refines_gats cfg s k e h
  | getMany ks =>
    rw [sockAfter_benign _ _ (by simp) (spec_benign cfg s _ (by simp))]
    exact refines_getMany cfg s ks h
  | getsMany ks =>
    rw [sockAfter_benign _ _ (by simp) (spec_benign cfg s _ (by simp))]
    exact refines_getsMany cfg s ks h
  | delete k nr =>
    rw [sockAfter_benign _ _ (by simp) (spec_benign cfg s _ (by simp))]
    exact refines_delete cfg s k nr h
  | deleteMany ks nr =>
    rw [sockAfter_benign _ _ (by simp) (spec_benign cfg s _ (by simp))]
    exact refines_deleteMany cfg s ks nr h
  | touch k e nr =>
    rw [sockAfter_benign _ _ (by simp) (spec_benign cfg s _ (by simp))]
    exact refines_touch cfg s k e nr h
  | flushAll d nr =>
    rw [sockAfter_benign _ _ (by simp) (spec_benign cfg s _ (by simp))]
    exact refines_flushAll cfg s d nr h

theorem history_refines (cfg : Cfg) (s : St) (h : History) (hwf : ∀ p ∈ h, WF cfg p.2) :
    runOnServer cfg s h = runSpec cfg s h := by
  induction h generalizing s with
  | nil => rfl
  | cons p rest ih =>
    obtain ⟨dt, c⟩ := p
    simp only [runOnServer, runSpec, refines_all cfg _ c (hwf (dt, c) (by simp))]
    rw [ih _ (fun q hq => hwf q (by simp [hq]))]
end Client
