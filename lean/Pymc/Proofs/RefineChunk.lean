import Pymc.Proofs.RefineFetch
/-! The reply loops on ANY clean delivery schedule (pieces of any size, EINTR in between), through the
flat reader theorems of C03. -/
namespace Exchange
open Bytes Readers Wire

theorem splitLine_line (l t : Bytes) (h : ∀ b ∈ l, b ≠ CR) : splitLine (l ++ CRLF ++ t) = some (l, t) := by
  unfold splitLine
  rw [findCRLF_line l t h]
  have h1 : (l ++ CRLF ++ t).drop (l.length + 2) = t := by
    rw [List.append_assoc, List.drop_append]; simp [CRLF]
  have h2 : (l ++ CRLF ++ t).take l.length = l := by
    rw [List.append_assoc, List.take_left' rfl]
  simp only [Option.map_some, h1, h2]

theorem splitValue_data (d t : Bytes) : splitValue d.length (d ++ CRLF ++ t) = some (d, t) := by
  unfold splitValue
  have h0 : d.length + 2 ≤ (d ++ CRLF ++ t).length := by simp [CRLF]
  have h1 : (d ++ CRLF ++ t).drop (d.length + 2) = t := by
    rw [List.append_assoc, List.drop_append]; simp [CRLF]
  have h2 : (d ++ CRLF ++ t).take d.length = d := by
    rw [List.append_assoc, List.take_left' rfl]
  simp only [h0, if_true, h1, h2]

/-- reading one line off a clean schedule -/
theorem readline_chunked (l tail buf : Bytes) (evs : List Ev) (hl : ∀ b ∈ l, b ≠ CR) (hc : clean evs)
    (hs : buf ++ joinData evs = l ++ CRLF ++ tail) :
    ∃ rest evs', readline [] buf evs = .ok (rest, l, evs') ∧ rest ++ joinData evs' = tail ∧ clean evs' :=
  (C03_readline_flat buf evs hc).1 l tail (by rw [hs]; exact splitLine_line l tail hl)

theorem readvalue_chunked (d tail buf : Bytes) (evs : List Ev) (hc : clean evs)
    (hs : buf ++ joinData evs = d ++ CRLF ++ tail) :
    ∃ rest evs', readvalue buf (d.length : Int) evs = .ok (rest, d, evs') ∧ rest ++ joinData evs' = tail ∧
      clean evs' :=
  (C03_readvalue_flat buf d.length evs hc).1 d tail (by rw [hs]; exact splitValue_data d tail)

theorem miscLoop_chunked (ls : List Bytes) (h : ∀ l ∈ ls, PlainLine l) (buf : Bytes) (evs : List Ev)
    (tail : Bytes) (acc : List Bytes) (hc : clean evs) (hs : buf ++ joinData evs = joinLines ls ++ tail) :
    ∃ rest evs', miscLoop none ls.length buf evs acc = ⟨.ok (acc ++ ls), evs', false⟩ ∧
      rest ++ joinData evs' = tail ∧ clean evs' := by
  induction ls generalizing buf evs acc with
  | nil => exact ⟨buf, evs, by simp [miscLoop], by simpa [joinLines] using hs, hc⟩
  | cons l ls ih =>
    obtain ⟨h1, h2⟩ := h l (by simp)
    obtain ⟨rest, evs1, hr, hj, hc1⟩ := readline_chunked l (joinLines ls ++ tail) buf evs h1 hc
      (by rw [hs, joinLines_cons]; simp)
    obtain ⟨rest', evs', hm, hj', hc'⟩ := ih (fun x hx => h x (by simp [hx])) rest evs1 (acc ++ [l]) hc1 hj
    refine ⟨rest', evs', ?_, hj', hc'⟩
    simp only [List.length_cons, miscLoop, hr, h2, hm]
    simp

theorem storeLoop_chunked (verb : SVerb) (lvs : List (Bytes × Option Bool))
    (h : ∀ p ∈ lvs, PlainLine p.1 ∧ storeResultValue verb p.1 = some p.2) (buf : Bytes) (evs : List Ev)
    (tail : Bytes) (acc : List (Option Bool)) (hc : clean evs)
    (hs : buf ++ joinData evs = joinLines (lvs.map (·.1)) ++ tail) :
    ∃ rest evs', storeLoop verb lvs.length buf evs acc = ⟨.ok (acc ++ lvs.map (·.2)), evs', false⟩ ∧
      rest ++ joinData evs' = tail ∧ clean evs' := by
  induction lvs generalizing buf evs acc with
  | nil => exact ⟨buf, evs, by simp [storeLoop], by simpa [joinLines] using hs, hc⟩
  | cons p lvs ih =>
    obtain ⟨⟨h1, h2⟩, h3⟩ := h p (by simp)
    obtain ⟨rest, evs1, hr, hj, hc1⟩ := readline_chunked p.1 (joinLines (lvs.map (·.1)) ++ tail) buf evs h1 hc
      (by rw [hs, List.map_cons, joinLines_cons]; simp)
    obtain ⟨rest', evs', hm, hj', hc'⟩ := ih (fun x hx => h x (by simp [hx])) rest evs1 (acc ++ [p.2]) hc1 hj
    refine ⟨rest', evs', ?_, hj', hc'⟩
    simp only [List.length_cons, storeLoop, hr, h2, h3, hm]
    simp

theorem fetchLoop_value_step_chunked (withCas : Bool) (wanted : List Bytes) (fuel : Nat) (k : Bytes)
    (it : AbsMap.Item) (buf : Bytes) (evs : List Ev) (tail : Bytes) (acc : List FetchEntry)
    (hk : Key.Tok k) (hw : k ∈ wanted) (hc : clean evs)
    (hs : buf ++ joinData evs = Server.renderValue withCas k it ++ tail) :
    ∃ rest evs', fetchLoop (.values withCas) wanted (fuel + 1) buf evs acc =
        fetchLoop (.values withCas) wanted fuel rest evs' (acc ++ [.item (toItem withCas (k, it))]) ∧
      rest ++ joinData evs' = tail ∧ clean evs' := by
  obtain ⟨r, hr⟩ := hdr_head withCas k it
  have hsplit := Key.pySplitWs_joinSp _ (hdr_tok withCas k it hk)
  have hre : raiseErrors (Wire.joinSp (hdrToks withCas k it)) = none := by
    rw [raiseErrors_eq, hr]; simp [List.isPrefixOf]
  obtain ⟨rest1, evs1, hline, hj1, hc1⟩ := readline_chunked (Wire.joinSp (hdrToks withCas k it))
    (it.data ++ CRLF ++ tail) buf evs (hdr_noCR withCas k it hk) hc (by rw [hs, renderValue_eq]; simp)
  obtain ⟨rest2, evs2, hval, hj2, hc2⟩ := readvalue_chunked it.data tail rest1 evs1 hc1 hj1
  refine ⟨rest2, evs2, ?_, hj2, hc2⟩
  rw [fetchLoop]
  simp only [hline, hre, hsplit]
  have h1 : (Wire.joinSp (hdrToks withCas k it) = ofString "END" ||
      Wire.joinSp (hdrToks withCas k it) = ofString "OK") = false := by
    rw [hr]; simp
  have h2 : startsWith (Wire.joinSp (hdrToks withCas k it)) (ofString "VALUE") = true := by
    rw [hr]; simp [startsWith, List.isPrefixOf]
  simp only [h1, h2, Bool.false_eq_true, if_false, if_true]
  cases withCas
  · simp [hdrToks, pyInt_natDec, hval, hw, toItem]
  · simp [hdrToks, pyInt_natDec, hval, hw, toItem]

theorem fetchLoop_chunked (withCas : Bool) (wanted : List Bytes) (vs : List (Bytes × AbsMap.Item))
    (hk : ∀ p ∈ vs, Key.Tok p.1 ∧ p.1 ∈ wanted) (fuel : Nat) (hf : vs.length < fuel)
    (buf : Bytes) (evs : List Ev) (tail : Bytes) (acc : List FetchEntry) (hc : clean evs)
    (hs : buf ++ joinData evs =
      (vs.flatMap fun p => Server.renderValue withCas p.1 p.2) ++ ofString "END" ++ CRLF ++ tail) :
    ∃ rest evs', fetchLoop (.values withCas) wanted fuel buf evs acc =
        ⟨.ok (acc ++ vs.map fun p => .item (toItem withCas p)), evs', false⟩ ∧
      rest ++ joinData evs' = tail ∧ clean evs' := by
  induction vs generalizing fuel buf evs acc with
  | nil =>
    cases fuel with
    | zero => simp at hf
    | succ fuel =>
      obtain ⟨rest, evs1, hline, hj, hc1⟩ := readline_chunked (ofString "END") tail buf evs (by simp [CR]) hc
        (by simpa using hs)
      refine ⟨rest, evs1, ?_, hj, hc1⟩
      have : raiseErrors [69, 78, 68] = none := by rw [raiseErrors_eq]; simp [List.isPrefixOf]
      simp only [fetchLoop, hline]
      simp [this]
  | cons p vs ih =>
    cases fuel with
    | zero => simp at hf
    | succ fuel =>
      obtain ⟨h1, h2⟩ := hk p (by simp)
      obtain ⟨rest1, evs1, hstep, hj1, hc1⟩ := fetchLoop_value_step_chunked withCas wanted fuel p.1 p.2 buf evs
        ((vs.flatMap fun p => Server.renderValue withCas p.1 p.2) ++ ofString "END" ++ CRLF ++ tail) acc h1 h2 hc
        (by rw [hs]; simp)
      obtain ⟨rest, evs', hl, hj, hc'⟩ := ih (fun q hq => hk q (by simp [hq])) fuel (by simpa using hf)
        rest1 evs1 (acc ++ [.item (toItem withCas p)]) hc1 hj1
      refine ⟨rest, evs', ?_, hj, hc'⟩
      rw [hstep, hl]; simp
end Exchange
