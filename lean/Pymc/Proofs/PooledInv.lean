import Pymc.Model.Pooled
/-!
# Sequential pool: the invariant of runs from the empty pool and what one call does under it
-/
namespace Pooled

/-- Invariant of every state reached by sequential `PooledClient` calls from the empty pool. -/
structure Inv (s : St) : Prop where
  used_nil : s.used = []
  free_le : s.free.length ≤ 1
  closed_nodup : s.closed.Nodup
  closed_lt : ∀ k ∈ s.closed, k < s.nextConn
  free_not_closed : ∀ c ∈ s.free, ∀ k, c.conn = some k → k ∉ s.closed
  covered : ∀ k, k < s.nextConn → k ∈ s.closed ∨ ∃ c ∈ s.free, c.conn = some k
  free_conn_lt : ∀ c ∈ s.free, ∀ k, c.conn = some k → k < s.nextConn
  free_id_lt : ∀ c ∈ s.free, c.id < s.nextClient

theorem inv_init : Inv {} := by
  constructor <;> simp

/-- a state satisfying `Inv` has one of two shapes -/
theorem Inv.shape {s : St} (h : Inv s) :
    (∃ nc nn cl, s = ⟨[], [], nc, nn, cl⟩) ∨ (∃ c nc nn cl, s = ⟨[c], [], nc, nn, cl⟩) := by
  obtain ⟨fr, us, nc, nn, cl⟩ := s
  have h1 := h.used_nil
  have h2 := h.free_le
  simp only at h1 h2
  subst h1
  match fr, h2 with
  | [], _ => exact .inl ⟨_, _, _, rfl⟩
  | [c], _ => exact .inr ⟨_, _, _, _, rfl⟩

theorem get_nil (cfg : Cfg) (now nc nn : Nat) (cl : List Nat) :
    get cfg ⟨[], [], nc, nn, cl⟩ now =
      if cfg.maxSize = 0 then (⟨[], [], nc, nn, cl⟩, none)
      else (⟨[], [⟨nc, none, clock cfg now⟩], nc + 1, nn, cl⟩, some ⟨nc, none, clock cfg now⟩) := by
  simp [get, popFresh]

theorem get_one (cfg : Cfg) (now nc nn : Nat) (cl : List Nat) (c : PClient) :
    get cfg ⟨[c], [], nc, nn, cl⟩ now =
      if clock cfg now - c.lastUsed ≤ cfg.idleTimeout then (⟨[], [c], nc, nn, cl⟩, some c)
      else if cfg.maxSize = 0 then (⟨[], [], nc, nn, cl ++ connList c.conn⟩, none)
      else (⟨[], [⟨nc, none, clock cfg now⟩], nc + 1, nn, cl ++ connList c.conn⟩,
              some ⟨nc, none, clock cfg now⟩) := by
  by_cases h : clock cfg now - c.lastUsed ≤ cfg.idleTimeout <;> simp [get, popFresh, h]

theorem inv_callT {cfg : Cfg} {s : St} (now fin : Nat) (b : Body) (h : Inv s) : Inv (callT cfg s now fin b).1 := by
  rcases h.shape with ⟨nc, nn, cl, rfl⟩ | ⟨c, nc, nn, cl, rfl⟩
  · obtain ⟨-, -, h3, h4, -, h6, -, -⟩ := h
    simp only at h3 h4 h6
    by_cases hm : cfg.maxSize = 0
    · simp only [callT, get_nil, hm, if_true]
      constructor <;> simp_all
    · simp only [callT, get_nil, hm, if_false]
      rcases b with _ | (_|_) | (_|_) | _ | _ | (_|_) <;> simp [release, destroy, isUsed, dropUsed, connList]
      all_goals (constructor <;> simp_all <;> grind)
  · obtain ⟨-, -, h3, h4, h5, h6, h7, h8⟩ := h
    simp only at h3 h4 h5 h6 h7 h8
    obtain ⟨id, conn, lu⟩ := c
    by_cases hf : clock cfg now - lu ≤ cfg.idleTimeout
    · simp only [callT, get_one, hf, if_true]
      rcases b with _ | (_|_) | (_|_) | _ | _ | (_|_) <;> rcases conn with _ | k <;>
        simp [release, destroy, isUsed, dropUsed, connList]
      all_goals (constructor <;> simp_all <;> grind)
    · by_cases hm : cfg.maxSize = 0
      · simp only [callT, get_one, hm, hf, if_true, if_false]
        rcases conn with _ | k <;> simp [connList] <;> (constructor <;> simp_all <;> grind)
      · simp only [callT, get_one, hm, hf, if_false]
        rcases b with _ | (_|_) | (_|_) | _ | _ | (_|_) <;> rcases conn with _ | k <;>
          simp [release, destroy, isUsed, dropUsed, connList]
        all_goals (constructor <;> simp_all <;> grind)

theorem inv_call {cfg : Cfg} {s : St} (now : Nat) (b : Body) (h : Inv s) : Inv (call cfg s now b).1 :=
  inv_callT now now b h

end Pooled
