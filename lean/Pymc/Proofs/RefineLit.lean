import Pymc.Proofs.WireLit
import Pymc.Model.WF
/-! Reply-side literals (`ofString "…"` evaluated once) and `raiseErrors` on them. -/
namespace Wire
open Bytes

@[simp] theorem lit_STORED : ofString "STORED" = [83, 84, 79, 82, 69, 68] := by rw [ofString_eq]; decide
@[simp] theorem lit_NOT_STORED : ofString "NOT_STORED" = [78, 79, 84, 95, 83, 84, 79, 82, 69, 68] := by
  rw [ofString_eq]; decide
@[simp] theorem lit_EXISTS : ofString "EXISTS" = [69, 88, 73, 83, 84, 83] := by rw [ofString_eq]; decide
@[simp] theorem lit_NOT_FOUND : ofString "NOT_FOUND" = [78, 79, 84, 95, 70, 79, 85, 78, 68] := by
  rw [ofString_eq]; decide
@[simp] theorem lit_DELETED : ofString "DELETED" = [68, 69, 76, 69, 84, 69, 68] := by rw [ofString_eq]; decide
@[simp] theorem lit_TOUCHED : ofString "TOUCHED" = [84, 79, 85, 67, 72, 69, 68] := by rw [ofString_eq]; decide
@[simp] theorem lit_OK : ofString "OK" = [79, 75] := by rw [ofString_eq]; decide
@[simp] theorem lit_END : ofString "END" = [69, 78, 68] := by rw [ofString_eq]; decide
@[simp] theorem lit_VALUE : ofString "VALUE" = [86, 65, 76, 85, 69] := by rw [ofString_eq]; decide
@[simp] theorem lit_VALUE_sp : ofString "VALUE " = [86, 65, 76, 85, 69, 32] := by rw [ofString_eq]; decide
@[simp] theorem lit_STAT : ofString "STAT" = [83, 84, 65, 84] := by rw [ofString_eq]; decide
@[simp] theorem lit_ITEM : ofString "ITEM" = [73, 84, 69, 77] := by rw [ofString_eq]; decide
@[simp] theorem lit_ERROR : ofString "ERROR" = [69, 82, 82, 79, 82] := by rw [ofString_eq]; decide
@[simp] theorem lit_CLIENT_ERROR : ofString "CLIENT_ERROR" = [67, 76, 73, 69, 78, 84, 95, 69, 82, 82, 79, 82] := by
  rw [ofString_eq]; decide
@[simp] theorem lit_SERVER_ERROR : ofString "SERVER_ERROR" = [83, 69, 82, 86, 69, 82, 95, 69, 82, 82, 79, 82] := by
  rw [ofString_eq]; decide
@[simp] theorem lit_VERSION : ofString "VERSION" = [86, 69, 82, 83, 73, 79, 78] := by rw [ofString_eq]; decide
@[simp] theorem lit_versionLine : ofString "VERSION 1.6.21-ref" =
    [86, 69, 82, 83, 73, 79, 78, 32, 49, 46, 54, 46, 50, 49, 45, 114, 101, 102] := by rw [ofString_eq]; decide
@[simp] theorem lit_nonNumericMsg : ofString "cannot increment or decrement non-numeric value" =
    [99, 97, 110, 110, 111, 116, 32, 105, 110, 99, 114, 101, 109, 101, 110, 116, 32, 111, 114, 32, 100, 101,
     99, 114, 101, 109, 101, 110, 116, 32, 110, 111, 110, 45, 110, 117, 109, 101, 114, 105, 99, 32, 118, 97,
     108, 117, 101] := by rw [ofString_eq]; decide
@[simp] theorem lit_nonNumericLine :
    ofString "CLIENT_ERROR cannot increment or decrement non-numeric value" =
    [67, 76, 73, 69, 78, 84, 95, 69, 82, 82, 79, 82, 32,
     99, 97, 110, 110, 111, 116, 32, 105, 110, 99, 114, 101, 109, 101, 110, 116, 32, 111, 114, 32, 100, 101,
     99, 114, 101, 109, 101, 110, 116, 32, 110, 111, 110, 45, 110, 117, 109, 101, 114, 105, 99, 32, 118, 97,
     108, 117, 101] := by rw [ofString_eq]; decide
end Wire
