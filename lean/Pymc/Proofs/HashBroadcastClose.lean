import Pymc.Proofs.HashBroadcastKeys
import Pymc.Proofs.HashCallManyProj
import Pymc.Proofs.ClientOSErrorCloses
/-!
# Mixed histories of `HashClient ∘ Client`: what `close()` / `disconnect_all()` leaves open

`close()` runs `_safely_run_func(client, client.close, False)` for every registered client.  `client.close()` is *not*
called on a client whose server has a failure record that is still inside its retry window (`default_val` is returned
without calling the function), nor on one whose `remove_server` raised the `ValueError` of `hasher.remove_node` (swallowed
under `ignore_exc`, escaping otherwise — and then the clients after it are not even visited).

The invariant that makes the skipped clients harmless (`OpenRetry c T st`, `T` = the time of the latest call): *a registered
client that holds a socket while its server has a failure record `(attempts, failed_time)` has `attempts < retry_attempts`
and `T - failed_time > retry_timeout`* — the socket can only have been opened by a retry, which is made when the window
has elapsed, and a later failure that rewrites the record is an `OSError`, which closes the socket
(`PooledCall.stepTagged_oserror_closes`); other exceptions (a `BaseException`, the `ValueError` of `incr`) may leave the
socket open but leave the record alone.  With a clock that never goes back the window has still elapsed when `close()`
comes, so `close()` does call `client.close()` on such a client.

* `OpenRetry` is kept by every key-addressed call and every broadcast made at a time `≥ T` (`callB_or`), hence along every
  history whose clock never goes back (`runB_or_prefix`);
* from a state with `OpenRetry c now`, a `close()` at `now` that runs to its end leaves no registered client with a socket
  (`broadcastH_close_all`); with `ignore_exc=True` it always runs to its end (`bloop_close_done`).
-/
namespace HashCall
open Exchange Client Framing Failover

/-- a registered client that holds a socket while its server has a failure record: the record has attempts left and its
retry window has elapsed by `T` -/
def OpenRetry (c : Cfg) (T : Time) (st : St) : Prop :=
  ∀ x ∈ st.clients, x.2.sockOpen = true → ∀ a ft, alookup x.1 st.fo.failed = some (a, ft) → a < c.ra ∧ T - ft > c.rt

theorem openRetry_mono {c : Cfg} {T T' : Time} {st : St} (hT : T ≤ T') (h : OpenRetry c T st) : OpenRetry c T' st := by
  intro x hx ho a ft hf
  obtain ⟨h1, h2⟩ := h x hx ho a ft hf
  exact ⟨h1, by omega⟩

theorem openRetry_init (c : Cfg) (T : Time) (servers : List Srv) (t0 : Time) : OpenRetry c T (init servers t0) := by
  intro x hx hopen
  rcases (initClients_refreshed servers { fo := Failover.init servers t0 }).mem x hx with h | ⟨h, -⟩
  · simp at h
  · rw [h] at hopen; cases hopen

theorem openRetry_refreshed {c : Cfg} {T : Time} {st st1 : St} (hr : Refreshed st st1) (hf : st1.fo.failed = st.fo.failed)
    (h : OpenRetry c T st) : OpenRetry c T st1 := by
  intro x hx ho a ft hl
  rcases hr.mem x hx with h1 | ⟨h1, -⟩
  · exact h x h1 ho a ft (hf ▸ hl)
  · rw [h1] at ho; cases ho

/-- `self.clients` untouched, no failure record created or changed -/
theorem or_same {c : Cfg} {T : Time} {st st' : St} (h : OpenRetry c T st) (hc : st'.clients = st.clients)
    (hf : ∀ y v, alookup y st'.fo.failed = some v → alookup y st.fo.failed = some v) : OpenRetry c T st' := by
  intro x hx ho a ft hl
  exact h x (hc ▸ hx) ho a ft (hf _ _ hl)

/-- the client object of `s` replaced by `v`, the failure records of the other servers untouched -/
theorem or_touch {c : Cfg} {T : Time} {st st' : St} {s : Srv} {v : IClient} (h : OpenRetry c T st)
    (hc : st'.clients = ainsert s v st.clients)
    (hf : ∀ y, y ≠ s → alookup y st'.fo.failed = alookup y st.fo.failed)
    (hs : v.sockOpen = true → ∀ a ft, alookup s st'.fo.failed = some (a, ft) → a < c.ra ∧ T - ft > c.rt) :
    OpenRetry c T st' := by
  intro x hx ho a ft hl
  rw [hc] at hx
  by_cases hxs : x.1 = s
  · have := mem_ainsert_key hx hxs
    subst this
    exact hs ho a ft hl
  · rcases mem_ainsert hx with h1 | h1
    · exact h x h1 ho a ft (by rw [← hf x.1 hxs]; exact hl)
    · subst h1; exact absurd rfl hxs

/-! ## what an invocation does to the failure record of its own server -/

/-- the state in which `func` is invoked: in the retry branch (`clear`) the server has a failure record with attempts left
whose window has elapsed; otherwise it has none -/
def Pre (c : Cfg) (now : Time) (s : Srv) (fo : State) : Bool → Prop
  | true => ∃ a ft, alookup s fo.failed = some (a, ft) ∧ a < c.ra ∧ now - ft > c.rt
  | false => alookup s fo.failed = none

/-- the bookkeeping after the invocation: as before, or without a record for `s`, or the client has no socket -/
def Tri (s : Srv) (fo0 fo' : State) (open' : Bool) : Prop := fo' = fo0 ∨ alookup s fo'.failed = none ∨ open' = false

theorem self_of_pre {c : Cfg} {now : Time} {s : Srv} {fo0 fo' : State} {clear open' : Bool} (hp : Pre c now s fo0 clear)
    (ht : Tri s fo0 fo' open') :
    open' = true → ∀ a ft, alookup s fo'.failed = some (a, ft) → a < c.ra ∧ now - ft > c.rt := by
  intro ho a ft hl
  rcases ht with h | h | h
  · subst h
    cases clear with
    | true =>
      obtain ⟨a', ft', h1, h2, h3⟩ := hp
      rw [h1] at hl
      cases hl
      exact ⟨h2, h3⟩
    | false =>
      have : alookup s fo'.failed = none := hp
      rw [this] at hl; cases hl
  · rw [h] at hl; cases hl
  · rw [h] at ho; cases ho

theorem isOSError_eq (e : Exc) : isOSError e = Client.isSockOSError e := by cases e <;> rfl

theorem alookup_filter_sub {β : Type} (s y : Srv) (l : List (Srv × β)) (v : β)
    (h : alookup y (l.filter (fun p => p.1 != s)) = some v) : alookup y l = some v := by
  by_cases hy : y = s
  · subst hy; rw [alookup_filter_self] at h; cases h
  · rw [alookup_filter_ne s y l hy] at h; exact h

/-! ## the key-addressed `_safely_run_func` -/

theorem removeServer_failed {now : Time} {fo fo' : State} {s : Srv} (h : removeServer now fo s = some fo') :
    alookup s fo'.failed = none ∧ (∀ y, y ≠ s → alookup y fo'.failed = alookup y fo.failed) ∧
    ∀ y v, alookup y fo'.failed = some v → alookup y fo.failed = some v := by
  unfold removeServer at h
  cases ha : aerase s fo.failed with
  | none => simp [ha] at h
  | some f =>
    obtain ⟨-, hf⟩ := aerase_eq_some ha
    simp only [ha] at h
    cases hn : removeNode s fo.nodes with
    | none => simp [hn] at h
    | some ns =>
      simp only [hn, Option.some.injEq] at h
      subst h
      simp only [hf]
      exact ⟨alookup_filter_self s _, fun y hy => alookup_filter_ne s y _ hy, fun y v => alookup_filter_sub s y _ v⟩

theorem markFailed_failed_ne {c : Cfg} {now : Time} {fo fo' : State} {s : Srv} (h : markFailed c now fo s = some fo') :
    ∀ y, y ≠ s → alookup y fo'.failed = alookup y fo.failed := by
  intro y hy
  have := markFailedX_failed c now fo s y hy
  rw [markFailedX_of_some h] at this
  exact this

theorem onError_failed_ne (c : Cfg) (now : Time) (st : St) (s : Srv) (e : Exc) :
    ∀ y, y ≠ s → alookup y (onError c now st s e).1.fo.failed = alookup y st.fo.failed := by
  intro y hy
  unfold onError
  split
  · rfl
  · split
    · cases hm : markFailed c now st.fo s with
      | none => rfl
      | some fo' =>
        simp only []
        split <;> exact markFailed_failed_ne hm y hy
    · split <;> rfl

theorem onError_tri (c : Cfg) (now : Time) (st : St) (s : Srv) (e : Exc) (open' : Bool)
    (hcl : isOSError e = true → open' = false) : Tri s st.fo (onError c now st s e).1.fo open' := by
  unfold onError
  split
  · exact .inl rfl
  · split
    · rename_i ho; exact .inr (.inr (hcl ho))
    · split <;> exact .inl rfl

theorem invoke_failed_ne (ccfg : Wire.Cfg) (c : Cfg) (idx : Nat) (now : Time) (st : St) (s : Srv) (cl : IClient)
    (call : Call) (sc : Script) (clear : Bool) :
    ∀ y, y ≠ s → alookup y (invoke ccfg c idx now st s cl call sc clear).1.fo.failed = alookup y st.fo.failed := by
  intro y hy
  unfold invoke
  simp only []
  split
  · split
    · cases ha : aerase s (contact ccfg idx st s cl call sc).1.fo.failed with
      | none => rfl
      | some f =>
        obtain ⟨-, hf⟩ := aerase_eq_some ha
        simp only [hf, contact_fo]
        exact alookup_filter_ne s y _ hy
    · rfl
  · exact onError_failed_ne c now _ s _ y hy

theorem invoke_tri (ccfg : Wire.Cfg) (c : Cfg) (idx : Nat) (now : Time) (st : St) (s : Srv) (cl : IClient)
    (call : Call) (sc : Script) (clear : Bool) :
    Tri s st.fo (invoke ccfg c idx now st s cl call sc clear).1.fo
      (PooledCall.stepTagged ccfg idx cl.sockOpen cl.pipe call sc).out.sockOpen := by
  unfold invoke
  simp only [contact_step]
  cases hres : (PooledCall.stepTagged ccfg idx cl.sockOpen cl.pipe call sc).out.res with
  | ok r =>
    simp only []
    cases clear
    · exact .inl rfl
    · simp only [if_true]
      cases ha : aerase s (contact ccfg idx st s cl call sc).1.fo.failed with
      | none => exact .inl rfl
      | some f =>
        obtain ⟨-, hf⟩ := aerase_eq_some ha
        refine .inr (.inl ?_)
        simp only [hf]
        exact alookup_filter_self s _
  | error e =>
    simp only []
    exact onError_tri c now (contact ccfg idx st s cl call sc).1 s e _
      (fun ho => PooledCall.stepTagged_oserror_closes ccfg idx cl.sockOpen cl.pipe call sc e hres (isOSError_eq e ▸ ho))

theorem invoke_or {c : Cfg} (ccfg : Wire.Cfg) (idx : Nat) (now : Time) (st : St) (s : Srv) (cl : IClient) (call : Call)
    (sc : Script) (clear : Bool) (h : OpenRetry c now st) (hp : Pre c now s st.fo clear) :
    OpenRetry c now (invoke ccfg c idx now st s cl call sc clear).1 :=
  or_touch h ((invoke_fst ccfg c idx now st s cl call sc clear).2.1.trans (contact_clients ccfg idx st s cl call sc))
    (invoke_failed_ne ccfg c idx now st s cl call sc clear)
    (self_of_pre hp (invoke_tri ccfg c idx now st s cl call sc clear))

/-- the state after a successful `remove_server(s)`: `s` has no failure record, nobody else's changed -/
theorem openRetry_removed {c : Cfg} {T : Time} {st : St} {fo' : State} {now : Time} {s : Srv} (h : OpenRetry c T st)
    (hrm : removeServer now st.fo s = some fo') : OpenRetry c T { st with fo := fo' } :=
  or_same h rfl (removeServer_failed hrm).2.2

theorem safelyRunFunc_or {c : Cfg} (ccfg : Wire.Cfg) (idx : Nat) (now : Time) (st : St) (s : Srv) (cl : IClient)
    (call : Call) (sc : Script) (h : OpenRetry c now st) :
    OpenRetry c now (safelyRunFunc ccfg c idx now st s cl call sc).1 := by
  unfold safelyRunFunc
  cases hf : alookup s st.fo.failed with
  | none => exact invoke_or ccfg idx now st s cl call sc false h hf
  | some p =>
    obtain ⟨a, ft⟩ := p
    simp only []
    by_cases h1 : a < c.ra
    · simp only [h1, if_true]
      by_cases h2 : now - ft > c.rt
      · simp only [h2, if_true]
        exact invoke_or ccfg idx now st s cl call sc true h ⟨a, ft, hf, h1, h2⟩
      · simp only [h2, if_false]; exact h
    · simp only [h1, if_false]
      cases hrm : removeServer now st.fo s with
      | none => exact h
      | some fo' =>
        exact invoke_or ccfg idx now { st with fo := fo' } s cl call sc false (openRetry_removed h hrm)
          (removeServer_failed hrm).1

/-! ## `_safely_run_set_many` -/

theorem invokeSetMany_failed_ne (ccfg : Wire.Cfg) (c : Cfg) (idx : Nat) (now : Time) (st : St) (s : Srv) (cl : IClient)
    (call : Call) (sc : Script) (clear : Bool) :
    ∀ y, y ≠ s → alookup y (invokeSetMany ccfg c idx now st s cl call sc clear).1.fo.failed = alookup y st.fo.failed := by
  intro y hy
  have hfin : ∀ r : Res, alookup y
      (if clear then
        match aerase s (contact ccfg idx st s cl call sc).1.fo.failed with
        | none => ((contact ccfg idx st s cl call sc).1, HRes.internalError, some (contact ccfg idx st s cl call sc).2)
        | some f => ({ (contact ccfg idx st s cl call sc).1 with
                        fo := { (contact ccfg idx st s cl call sc).1.fo with failed := f } }, HRes.value r,
                      some (contact ccfg idx st s cl call sc).2)
      else ((contact ccfg idx st s cl call sc).1, HRes.value r, some (contact ccfg idx st s cl call sc).2)).1.fo.failed =
      alookup y st.fo.failed := by
    intro r
    cases clear
    · rfl
    · simp only [if_true]
      cases ha : aerase s (contact ccfg idx st s cl call sc).1.fo.failed with
      | none => rfl
      | some f =>
        obtain ⟨-, hf⟩ := aerase_eq_some ha
        simp only [hf, contact_fo]
        exact alookup_filter_ne s y _ hy
  unfold invokeSetMany
  simp only []
  cases hres : (contact ccfg idx st s cl call sc).2.out.res with
  | ok r => exact hfin r
  | error e =>
    simp only []
    split
    · rfl
    · split
      · exact hfin _
      · exact onError_failed_ne c now _ s e y hy

theorem invokeSetMany_tri (ccfg : Wire.Cfg) (c : Cfg) (idx : Nat) (now : Time) (st : St) (s : Srv) (cl : IClient)
    (call : Call) (sc : Script) (clear : Bool) :
    Tri s st.fo (invokeSetMany ccfg c idx now st s cl call sc clear).1.fo
      (PooledCall.stepTagged ccfg idx cl.sockOpen cl.pipe call sc).out.sockOpen := by
  have hfin : ∀ r : Res, Tri s st.fo
      (if clear then
        match aerase s (contact ccfg idx st s cl call sc).1.fo.failed with
        | none => ((contact ccfg idx st s cl call sc).1, HRes.internalError, some (contact ccfg idx st s cl call sc).2)
        | some f => ({ (contact ccfg idx st s cl call sc).1 with
                        fo := { (contact ccfg idx st s cl call sc).1.fo with failed := f } }, HRes.value r,
                      some (contact ccfg idx st s cl call sc).2)
      else ((contact ccfg idx st s cl call sc).1, HRes.value r, some (contact ccfg idx st s cl call sc).2)).1.fo
      (PooledCall.stepTagged ccfg idx cl.sockOpen cl.pipe call sc).out.sockOpen := by
    intro r
    cases clear
    · exact .inl rfl
    · simp only [if_true]
      cases ha : aerase s (contact ccfg idx st s cl call sc).1.fo.failed with
      | none => exact .inl rfl
      | some f =>
        obtain ⟨-, hf⟩ := aerase_eq_some ha
        refine .inr (.inl ?_)
        simp only [hf]
        exact alookup_filter_self s _
  unfold invokeSetMany
  simp only []
  cases hres : (contact ccfg idx st s cl call sc).2.out.res with
  | ok r => exact hfin r
  | error e =>
    simp only []
    split
    · exact .inl rfl
    · split
      · exact hfin _
      · exact onError_tri c now (contact ccfg idx st s cl call sc).1 s e _
          (fun ho => PooledCall.stepTagged_oserror_closes ccfg idx cl.sockOpen cl.pipe call sc e hres (isOSError_eq e ▸ ho))

theorem invokeSetMany_or {c : Cfg} (ccfg : Wire.Cfg) (idx : Nat) (now : Time) (st : St) (s : Srv) (cl : IClient) (call : Call)
    (sc : Script) (clear : Bool) (h : OpenRetry c now st) (hp : Pre c now s st.fo clear) :
    OpenRetry c now (invokeSetMany ccfg c idx now st s cl call sc clear).1 :=
  or_touch h ((invokeSetMany_fst ccfg c idx now st s cl call sc clear).2.trans (contact_clients ccfg idx st s cl call sc))
    (invokeSetMany_failed_ne ccfg c idx now st s cl call sc clear)
    (self_of_pre hp (invokeSetMany_tri ccfg c idx now st s cl call sc clear))

theorem safelyRunSetMany_or {c : Cfg} (ccfg : Wire.Cfg) (idx : Nat) (now : Time) (st : St) (s : Srv) (cl : IClient)
    (call : Call) (sc : Script) (h : OpenRetry c now st) :
    OpenRetry c now (safelyRunSetMany ccfg c idx now st s cl call sc).1 := by
  unfold safelyRunSetMany
  cases hf : alookup s st.fo.failed with
  | none => exact invokeSetMany_or ccfg idx now st s cl call sc false h hf
  | some p =>
    obtain ⟨a, ft⟩ := p
    simp only []
    by_cases h1 : a < c.ra
    · simp only [h1, if_true]
      by_cases h2 : now - ft > c.rt
      · simp only [h2, if_true]
        exact invokeSetMany_or ccfg idx now st s cl call sc true h ⟨a, ft, hf, h1, h2⟩
      · simp only [h2, if_false]; exact h
    · simp only [h1, if_false]
      cases hrm : removeServer now st.fo s with
      | none => exact h
      | some fo' =>
        exact invokeSetMany_or ccfg idx now { st with fo := fo' } s cl call sc false (openRetry_removed h hrm)
          (removeServer_failed hrm).1

/-! ## `_get_client` and the loops of the key-addressed calls -/

theorem reviveAll_failed (l : List Srv) (st st1 : St) (h : reviveAll l st = some st1) : st1.fo.failed = st.fo.failed := by
  induction l generalizing st with
  | nil => simp only [reviveAll, Option.some.injEq] at h; subst h; rfl
  | cons s r ih =>
    simp only [reviveAll] at h
    cases hd : aerase s st.fo.dead with
    | none => simp [hd] at h
    | some d =>
      simp only [hd] at h
      have := ih _ h
      exact this

theorem retryIfDead_failed {c : Cfg} {now : Time} {st st1 : St} (h : retryIfDead c now st = some st1) :
    st1.fo.failed = st.fo.failed := by
  unfold retryIfDead at h
  split at h
  · cases h; rfl
  · unfold retryDead at h
    split at h
    · cases hr : reviveAll ((st.fo.dead.filter (fun p => decide (now - p.2 > c.dt))).map Prod.fst) st with
      | none => simp [hr] at h
      | some st' =>
        simp only [hr, Option.some.injEq] at h
        subst h
        have := reviveAll_failed _ _ _ hr
        exact this
    · cases h; rfl

theorem getClient_failed {Key : Type} (c : Cfg) (route : List Srv → Key → Option Srv) (now : Time) (st : St) (key : Key) :
    (getClient c route now st key).1.fo.failed = st.fo.failed := by
  unfold getClient
  cases hr : retryIfDead c now st with
  | none => rfl
  | some st1 =>
    have h1 := retryIfDead_failed hr
    simp only []
    cases route st1.fo.nodes key with
    | none => cases c.ignoreExc <;> exact h1
    | some s =>
      simp only []
      cases alookup s st1.clients <;> exact h1

theorem getClient_or {Key : Type} {c : Cfg} {T : Time} (route : List Srv → Key → Option Srv) (now : Time) (st : St)
    (key : Key) (h : OpenRetry c T st) : OpenRetry c T (getClient c route now st key).1 :=
  openRetry_refreshed (getClient_refreshed c route now st key).1 (getClient_failed c route now st key) h

theorem routeKeysH_or {RK : Type} {c : Cfg} {T : Time} (ccfg : Wire.Cfg) (route : List Srv → RK → Option Srv) (now : Time)
    (ks : List (RK × Key.K)) (st : St) (b : List (Srv × List Key.K)) (h : OpenRetry c T st) :
    OpenRetry c T (routeKeysH ccfg c route now st ks b).1 := by
  induction ks generalizing st b with
  | nil => exact h
  | cons rkk ks ih =>
    obtain ⟨rk, k⟩ := rkk
    simp only [routeKeysH]
    cases Wire.checkKey ccfg k with
    | error e => exact h
    | ok w =>
      have hg := getClient_or route now st rk h
      simp only []
      rcases hgc : getClient c route now st rk with ⟨st1, g⟩
      rw [hgc] at hg
      cases g with
      | internalError => exact hg
      | allDown => exact hg
      | noClient => exact ih st1 b hg
      | client s cl => exact ih st1 _ hg

theorem routeItemsH_or {RK : Type} {c : Cfg} {T : Time} (ccfg : Wire.Cfg) (route : List Srv → RK → Option Srv) (now : Time)
    (items : List (RK × Key.K × Wire.Val)) (st : St) (b : List (Srv × List (Key.K × Wire.Val))) (f : List Key.K)
    (h : OpenRetry c T st) : OpenRetry c T (routeItemsH ccfg c route now st items b f).1 := by
  induction items generalizing st b f with
  | nil => exact h
  | cons x ks ih =>
    obtain ⟨rk, k, v⟩ := x
    simp only [routeItemsH]
    cases Wire.checkKey ccfg k with
    | error e => exact h
    | ok w =>
      have hg := getClient_or route now st rk h
      simp only []
      rcases hgc : getClient c route now st rk with ⟨st1, g⟩
      rw [hgc] at hg
      cases g with
      | internalError => exact hg
      | allDown => exact hg
      | noClient => exact ih st1 b _ hg
      | client s cl => exact ih st1 _ f hg

theorem callH_or {Key : Type} {c : Cfg} (ccfg : Wire.Cfg) (route : List Srv → Key → Option Srv) (st : St) (idx : Nat)
    (now : Time) (rk : Key) (call : Call) (sc : Script) (h : OpenRetry c now st) :
    OpenRetry c now (callH ccfg c route st idx now rk call sc).1 := by
  have hg := getClient_or route now st rk h
  rcases callH_cases ccfg c route st idx now rk call sc with ⟨-, hc⟩ | ⟨-, ⟨r, -, -, h1, -⟩ | ⟨s, cl, -, hc⟩⟩
  · rw [hc]; exact h
  · rw [h1]; exact hg
  · rw [hc]; exact safelyRunFunc_or ccfg idx now _ s cl call sc hg

/-- a key-addressed call made at `mc.now ≥ T` -/
theorem callM_or {RK : Type} {c : Cfg} {T : Time} (ccfg : Wire.Cfg) (route : List Srv → RK → Option Srv) (st : St) (idx : Nat)
    (mc : MCall RK) (hT : T ≤ mc.now) (h : OpenRetry c T st) : OpenRetry c mc.now (callM ccfg c route st idx mc).1 := by
  have h' := openRetry_mono hT h
  obtain ⟨op, now⟩ := mc
  simp only [] at h' ⊢
  cases op with
  | cmd rk call sc => exact callH_or ccfg route st idx now rk call sc h'
  | getMany gets ks scripts =>
    simp only [callM, getManyH]
    have hr := routeKeysH_or ccfg route now ks st [] h'
    rcases hrk : routeKeysH ccfg c route now st ks [] with ⟨st1, r | b⟩ <;> rw [hrk] at hr
    · exact hr
    · simp only [runBatchesH_eq_G]
      exact (runBatchesG_inv (OpenRetry c now) (fun _ => True) _ _ _ _
        (fun st' s cl x hi _ => ⟨safelyRunFunc_or ccfg idx now st' s cl _ _ hi, fun _ _ => trivial⟩) st1 b _ hr).1
  | setMany items expire noreply flags scripts =>
    simp only [callM, setManyH]
    have hr := routeItemsH_or ccfg route now items st [] [] h'
    rcases hrk : routeItemsH ccfg c route now st items [] [] with ⟨st1, r | ⟨b, f⟩⟩ <;> rw [hrk] at hr
    · exact hr
    · simp only [runSetBatchesH]
      exact (runBatchesG_inv (OpenRetry c now) (fun _ => True) _ _ _ _
        (fun st' s cl x hi _ => ⟨safelyRunSetMany_or ccfg idx now st' s cl _ _ hi, fun _ _ => trivial⟩) st1 b f hr).1
  | deleteMany ks noreply =>
    simp only [callM, deleteManyH]
    exact (deleteLoop_inv (OpenRetry c now) (fun _ => True) ccfg c route idx now noreply st ks h'
      (fun st' hi x _ => ⟨callH_or ccfg route st' idx now x.1 _ x.2.2 hi, fun _ _ => trivial⟩)).1

/-! ## one `_safely_run_func` of a broadcast -/

theorem removeServerX_sub (now : Time) (fo : State) (s : Srv) :
    ∀ y v, alookup y (removeServerX now fo s).1.failed = some v → alookup y fo.failed = some v := by
  intro y v
  unfold removeServerX
  cases ha : aerase s fo.failed with
  | none => exact fun h => h
  | some f =>
    obtain ⟨-, hf⟩ := aerase_eq_some ha
    cases removeNode s fo.nodes <;> (simp only [hf]; exact alookup_filter_sub s y _ v)

theorem removeServerX_self_none (now : Time) (fo : State) (s : Srv) (h : (removeServerX now fo s).2 = none) :
    alookup s (removeServerX now fo s).1.failed = none := by
  unfold removeServerX at h ⊢
  cases ha : aerase s fo.failed with
  | none => simp [ha] at h
  | some f =>
    obtain ⟨-, hf⟩ := aerase_eq_some ha
    cases removeNode s fo.nodes <;> (simp only [hf]; exact alookup_filter_self s _)

theorem onErrorX_tri (c : Cfg) (now : Time) (st : St) (s : Srv) (e : Exc) (open' : Bool)
    (hcl : isOSError e = true → open' = false) : Tri s st.fo (onErrorX c now st s e).1.fo open' := by
  unfold onErrorX
  split
  · exact .inl rfl
  · split
    · rename_i ho; exact .inr (.inr (hcl ho))
    · rw [onOther_fst]; exact .inl rfl

/-- the client object `func()` leaves registered for `s`: it has a socket only if the inner call left one -/
theorem bfunc_clients (ccfg : Wire.Cfg) (idx : Nat) (st : St) (s : Srv) (cl : IClient) (op : BOp) (sc : Script) :
    ∃ v : IClient, (bfunc ccfg idx st s cl op sc).1.clients = ainsert s v st.clients ∧
      (v.sockOpen = true → ∃ call, op.call? = some call ∧
        (PooledCall.stepTagged ccfg idx cl.sockOpen cl.pipe call sc).out.sockOpen = true ∧
        (bfunc ccfg idx st s cl op sc).2.1 = (PooledCall.stepTagged ccfg idx cl.sockOpen cl.pipe call sc).out.res) := by
  rcases bfunc_cases ccfg idx st s cl op sc with ⟨call, hc, h⟩ | ⟨-, h⟩
  · exact ⟨_, by rw [h]; exact contact_clients ccfg idx st s cl call sc, fun ho => ⟨call, hc, ho, by rw [h]⟩⟩
  · exact ⟨_, by rw [h], fun ho => by cases ho⟩

theorem invokeX_tri (ccfg : Wire.Cfg) (c : Cfg) (idx : Nat) (now : Time) (st : St) (s : Srv) (cl : IClient) (op : BOp)
    (sc : Script) (clear : Bool) (v : IClient)
    (hv : v.sockOpen = true → ∃ call, op.call? = some call ∧
        (PooledCall.stepTagged ccfg idx cl.sockOpen cl.pipe call sc).out.sockOpen = true ∧
        (bfunc ccfg idx st s cl op sc).2.1 = (PooledCall.stepTagged ccfg idx cl.sockOpen cl.pipe call sc).out.res) :
    Tri s st.fo (invokeX ccfg c idx now st s cl op sc clear).1.fo v.sockOpen := by
  have hfo := bfunc_fo ccfg idx st s cl op sc
  unfold invokeX
  generalize bfunc ccfg idx st s cl op sc = b at hfo hv ⊢
  obtain ⟨st1, e | r, stp⟩ := b
  · simp only [] at hfo hv ⊢
    rw [← hfo]
    refine onErrorX_tri c now st1 s e _ (fun ho => ?_)
    cases hvo : v.sockOpen with
    | false => rfl
    | true =>
      obtain ⟨call, -, h1, h2⟩ := hv hvo
      have := PooledCall.stepTagged_oserror_closes ccfg idx cl.sockOpen cl.pipe call sc e h2.symm (isOSError_eq e ▸ ho)
      rw [this] at h1; cases h1
  · simp only [] at hfo ⊢
    cases clear
    · simp only [Bool.false_eq_true, if_false]
      exact .inl hfo
    · simp only [if_true]
      cases ha : aerase s st1.fo.failed with
      | none =>
        simp only []
        rw [onOther_fst]; exact .inl hfo
      | some f =>
        obtain ⟨-, hf⟩ := aerase_eq_some ha
        simp only []
        refine .inr (.inl ?_)
        simp only [hf]
        exact alookup_filter_self s _

theorem invokeX_or {c : Cfg} (ccfg : Wire.Cfg) (idx : Nat) (now : Time) (st : St) (s : Srv) (cl : IClient) (op : BOp)
    (sc : Script) (clear : Bool) (h : OpenRetry c now st) (hp : Pre c now s st.fo clear) :
    OpenRetry c now (invokeX ccfg c idx now st s cl op sc clear).1 := by
  obtain ⟨v, hv1, hv2⟩ := bfunc_clients ccfg idx st s cl op sc
  exact or_touch h ((invokeX_fst ccfg c idx now st s cl op sc clear).1.trans hv1)
    (invokeX_onlyTouches ccfg c idx now st s cl op sc clear).failed
    (self_of_pre hp (invokeX_tri ccfg c idx now st s cl op sc clear v hv2))

/-- **one `_safely_run_func` of a broadcast made at time `now` keeps `OpenRetry c now`** -/
theorem safelyRunFuncX_or {c : Cfg} (ccfg : Wire.Cfg) (idx : Nat) (now : Time) (st : St) (s : Srv) (cl : IClient)
    (op : BOp) (sc : Script) (h : OpenRetry c now st) :
    OpenRetry c now (safelyRunFuncX ccfg c idx now st s cl op sc).1 := by
  unfold safelyRunFuncX
  cases hf : alookup s st.fo.failed with
  | none => exact invokeX_or ccfg idx now st s cl op sc false h hf
  | some p =>
    obtain ⟨a, ft⟩ := p
    simp only []
    by_cases h1 : a < c.ra
    · simp only [h1, if_true]
      by_cases h2 : now - ft > c.rt
      · simp only [h2, if_true]
        exact invokeX_or ccfg idx now st s cl op sc true h ⟨a, ft, hf, h1, h2⟩
      · simp only [h2, if_false]; exact h
    · simp only [h1, if_false]
      have hsub := removeServerX_sub now st.fo s
      have hself := removeServerX_self_none now st.fo s
      rcases hrm : removeServerX now st.fo s with ⟨fo', _ | k⟩
      · rw [hrm] at hsub hself
        simp only []
        exact invokeX_or ccfg idx now { st with fo := fo' } s cl op sc false (or_same h rfl hsub) (hself rfl)
      · rw [hrm] at hsub
        simp only []
        rw [onOther_fst]
        exact or_same h rfl hsub

/-- a public call made at a time `≥ T` -/
theorem callB_or {RK : Type} {c : Cfg} {T : Time} (ccfg : Wire.Cfg) (route : List Srv → RK → Option Srv) (st : St) (idx : Nat)
    (bc : BCall RK) (hT : T ≤ bc.now) (h : OpenRetry c T st) : OpenRetry c bc.now (callB ccfg c route st idx bc).1 := by
  cases bc with
  | keyed mc => exact callM_or ccfg route st idx mc hT h
  | broadcast op scripts now =>
    exact (bloop_inv (OpenRetry c now) (fun _ => True) ccfg c idx now op scripts
      (fun st' s cl hi _ => ⟨safelyRunFuncX_or ccfg idx now st' s cl op (scripts s) hi, fun _ _ => trivial⟩)
      st st.servers (openRetry_mono hT h)).1

/-! ## histories whose clock never goes back -/

/-- the clock never goes back: call times are non-decreasing, starting at or after `t0` -/
def ChronoB {RK : Type} (t0 : Time) : List (BCall RK) → Prop
  | [] => True
  | bc :: rest => t0 ≤ bc.now ∧ ChronoB bc.now rest

/-- the state call `i` of a history is made in is the state the first `i` calls lead to -/
theorem runB_take_succ {RK : Type} (ccfg : Wire.Cfg) (c : Cfg) (route : List Srv → RK → Option Srv) (st : St) (k : Nat)
    (calls : List (BCall RK)) (i : Nat) (bc : BCall RK) (h : calls[i]? = some bc) :
    (runB ccfg c route st k (calls.take (i + 1))).1 =
      (callB ccfg c route (runB ccfg c route st k (calls.take i)).1 (k + i) bc).1 := by
  induction calls generalizing st k i with
  | nil => simp at h
  | cons b0 rest ih =>
    cases i with
    | zero =>
      simp only [List.getElem?_cons_zero, Option.some.injEq] at h
      subst h
      simp [runB]
    | succ i =>
      simp only [List.getElem?_cons_succ] at h
      rw [List.take_succ_cons, List.take_succ_cons, runB_cons, runB_cons]
      simp only []
      rw [ih _ (k + 1) i h, show k + 1 + i = k + (i + 1) by omega]

/-- **in a history whose clock never goes back, call `i` is made in a state with `OpenRetry` for a time not after its
own** -/
theorem runB_or_prefix {RK : Type} {c : Cfg} (ccfg : Wire.Cfg) (route : List Srv → RK → Option Srv) (st : St) (k : Nat)
    (calls : List (BCall RK)) (T : Time) (h : OpenRetry c T st) (hch : ChronoB T calls) (i : Nat) (bc : BCall RK)
    (hi : calls[i]? = some bc) :
    ∃ T', T' ≤ bc.now ∧ OpenRetry c T' (runB ccfg c route st k (calls.take i)).1 := by
  induction calls generalizing st k T i with
  | nil => simp at hi
  | cons b0 rest ih =>
    obtain ⟨h0, hrest⟩ := hch
    cases i with
    | zero =>
      simp only [List.getElem?_cons_zero, Option.some.injEq] at hi
      subst hi
      exact ⟨T, h0, h⟩
    | succ i =>
      simp only [List.getElem?_cons_succ] at hi
      rw [List.take_succ_cons, runB_cons]
      exact ih _ (k + 1) b0.now (callB_or ccfg route st k b0 h0 h) hrest i hi

/-! ## `close()` -/

theorem bloop_servers (ccfg : Wire.Cfg) (c : Cfg) (idx : Nat) (now : Time) (op : BOp) (scripts : Srv → Script)
    (st : St) (keys : List Srv) : (bloop ccfg c idx now op scripts st keys).1.servers = st.servers := by
  induction keys generalizing st with
  | nil => rfl
  | cons s rest ih =>
    simp only [bloop]
    cases hl : alookup s st.clients with
    | none => exact ih st
    | some cl =>
      have hsv := safelyRunFuncX_servers ccfg c idx now st s cl op (scripts s) hl
      simp only []
      generalize safelyRunFuncX ccfg c idx now st s cl op (scripts s) = r at hsv ⊢
      obtain ⟨st1, o, stp, inv⟩ := r
      simp only [] at hsv ⊢
      split
      · exact hsv
      · rw [ih st1, hsv]

/-- `func` was not called: the server has a failure record that is inside its retry window or has no attempts left -/
theorem safelyRunFuncX_not_invoked (ccfg : Wire.Cfg) (c : Cfg) (idx : Nat) (now : Time) (st : St) (s : Srv) (cl : IClient)
    (op : BOp) (sc : Script) (h : (safelyRunFuncX ccfg c idx now st s cl op sc).2.2.2 = false) :
    ∃ a ft, alookup s st.fo.failed = some (a, ft) ∧ ¬ (a < c.ra ∧ now - ft > c.rt) := by
  unfold safelyRunFuncX at h
  cases hf : alookup s st.fo.failed with
  | none =>
    simp only [hf] at h
    rw [(invokeX_fst ccfg c idx now st s cl op sc false).2.2] at h; cases h
  | some p =>
    obtain ⟨a, ft⟩ := p
    refine ⟨a, ft, rfl, fun ⟨h1, h2⟩ => ?_⟩
    simp only [hf, h1, h2, if_true] at h
    rw [(invokeX_fst ccfg c idx now st s cl op sc true).2.2] at h; cases h

theorem closedFor_of_unregistered {st : St} {s : Srv} (h : alookup s st.clients = none) : ClosedFor s st := by
  intro x hx hk
  have : s ∈ keys st.clients := List.mem_map.mpr ⟨x, hx, hk⟩
  rw [mem_keys_iff] at this
  obtain ⟨v, hv⟩ := this
  rw [h] at hv; cases hv

theorem ofOut_ne_done {s : Srv} {o : BOut} (h : o.escapes = true) : BRes.ofOut s o ≠ .done := by
  cases o <;> simp [BOut.escapes] at h <;> simp [BRes.ofOut]

/-- **a `close()` at `now`, from a state with `OpenRetry c now`, that runs to its end leaves no client of the servers it
walked over with a socket** -/
theorem bloop_close_all {c : Cfg} (ccfg : Wire.Cfg) (idx : Nat) (now : Time) (scripts : Srv → Script) (st : St)
    (keys : List Srv) (h : OpenRetry c now st)
    (hdone : (bloop ccfg c idx now .close scripts st keys).2.1 = .done) :
    ∀ s ∈ keys, ClosedFor s (bloop ccfg c idx now .close scripts st keys).1 := by
  induction keys generalizing st with
  | nil => intro s hs; cases hs
  | cons s rest ih =>
    simp only [bloop] at hdone ⊢
    cases hl : alookup s st.clients with
    | none =>
      simp only [hl] at hdone ⊢
      intro s' hs'
      rcases List.mem_cons.mp hs' with h1 | h1
      · subst h1
        exact (bloop_closes ccfg c idx now .close scripts rfl st rest).1 s' (closedFor_of_unregistered hl)
      · exact ih st h hdone s' h1
    | some cl =>
      simp only [hl] at hdone ⊢
      have hor := safelyRunFuncX_or ccfg idx now st s cl .close (scripts s) h
      have hstep := safelyRunFuncX_step ccfg c idx now st s cl .close (scripts s)
      have hni := safelyRunFuncX_not_invoked ccfg c idx now st s cl .close (scripts s)
      have hb := bfunc_closes ccfg idx st s cl .close (scripts s) rfl
      generalize safelyRunFuncX ccfg c idx now st s cl .close (scripts s) = r at hor hstep hni hdone ⊢
      obtain ⟨st1, o, stp, inv⟩ := r
      simp only [] at hor hstep hni hdone ⊢
      cases he : o.escapes with
      | true =>
        simp only [he, if_true] at hdone
        exact absurd hdone (ofOut_ne_done he)
      | false =>
        simp only [he, Bool.false_eq_true, if_false] at hdone ⊢
        have hself : ClosedFor s st1 := by
          intro x hx hk
          rcases hstep with ⟨h0, -, h2⟩ | ⟨-, -, h2⟩
          · obtain ⟨a, ft, hf, hn⟩ := hni h0
            cases ho : x.2.sockOpen with
            | false => rfl
            | true => exact absurd (h x (h2 ▸ hx) ho a ft (hk ▸ hf)) hn
          · exact hb.2 x (h2 ▸ hx) hk
        intro s' hs'
        rcases List.mem_cons.mp hs' with h1 | h1
        · subst h1
          exact (bloop_closes ccfg c idx now .close scripts rfl st1 rest).1 s' hself
        · exact ih st1 hor hdone s' h1

/-- with `ignore_exc=True` nothing escapes the `_safely_run_func` of a `close()` -/
theorem safelyRunFuncX_close_noescape {c : Cfg} (ccfg : Wire.Cfg) (idx : Nat) (now : Time) (st : St) (s : Srv)
    (cl : IClient) (sc : Script) (hi : c.ignoreExc = true) :
    (safelyRunFuncX ccfg c idx now st s cl .close sc).2.1.escapes = false := by
  have hinv : ∀ st' clear, (invokeX ccfg c idx now st' s cl .close sc clear).2.1.escapes = false := by
    intro st' clear
    unfold invokeX
    simp only [bfunc, BOp.call?]
    cases clear
    · rfl
    · simp only [if_true]
      cases aerase s st'.fo.failed <;> simp [onOther, hi, BOut.escapes]
  unfold safelyRunFuncX
  split
  · split
    · split
      · exact hinv _ _
      · rfl
    · rcases removeServerX now st.fo s with ⟨fo', _ | k⟩
      · exact hinv _ _
      · simp [onOther, hi, BOut.escapes]
  · exact hinv _ _

theorem bloop_close_done {c : Cfg} (ccfg : Wire.Cfg) (idx : Nat) (now : Time) (scripts : Srv → Script) (st : St)
    (keys : List Srv) (hi : c.ignoreExc = true) : (bloop ccfg c idx now .close scripts st keys).2.1 = .done := by
  induction keys generalizing st with
  | nil => rfl
  | cons s rest ih =>
    simp only [bloop]
    cases hl : alookup s st.clients with
    | none => exact ih st
    | some cl =>
      have hne := safelyRunFuncX_close_noescape (c := c) ccfg idx now st s cl (scripts s) hi
      simp only []
      generalize safelyRunFuncX ccfg c idx now st s cl .close (scripts s) = r at hne ⊢
      obtain ⟨st1, o, stp, inv⟩ := r
      simp only [] at hne ⊢
      simp only [hne, Bool.false_eq_true, if_false]
      exact ih st1

/-- how the `_safely_run_func` of a `close()` can end: `client.close()` returned, `default_val`, or the bookkeeping raised -/
theorem invokeX_close_out (ccfg : Wire.Cfg) (c : Cfg) (idx : Nat) (now : Time) (st : St) (s : Srv) (cl : IClient) (sc : Script)
    (clear : Bool) :
    (invokeX ccfg c idx now st s cl .close sc clear).2.1 = .value .none ∨
    (invokeX ccfg c idx now st s cl .close sc clear).2.1 = .default ∨
    ∃ k, (invokeX ccfg c idx now st s cl .close sc clear).2.1 = .bookkeeping k := by
  unfold invokeX
  simp only [bfunc, BOp.call?]
  cases clear
  · exact .inl rfl
  · simp only [if_true]
    cases aerase s st.fo.failed with
    | none => cases hi : c.ignoreExc <;> simp [onOther, hi]
    | some f => exact .inl rfl

theorem safelyRunFuncX_close_out (ccfg : Wire.Cfg) (c : Cfg) (idx : Nat) (now : Time) (st : St) (s : Srv) (cl : IClient)
    (sc : Script) :
    (safelyRunFuncX ccfg c idx now st s cl .close sc).2.1 = .value .none ∨
    (safelyRunFuncX ccfg c idx now st s cl .close sc).2.1 = .default ∨
    ∃ k, (safelyRunFuncX ccfg c idx now st s cl .close sc).2.1 = .bookkeeping k := by
  unfold safelyRunFuncX
  split
  · split
    · split
      · exact invokeX_close_out ..
      · exact .inr (.inl rfl)
    · rcases removeServerX now st.fo s with ⟨fo', _ | k⟩
      · exact invokeX_close_out ..
      · cases hi : c.ignoreExc <;> simp [onOther, hi]
  · exact invokeX_close_out ..

/-- the only exception that escapes the `_safely_run_func` of a `close()` is the `ValueError` of `hasher.remove_node`, and
only with `ignore_exc=False` -/
theorem safelyRunFuncX_close_escape {c : Cfg} (ccfg : Wire.Cfg) (idx : Nat) (now : Time) (st : St) (s : Srv) (cl : IClient)
    (sc : Script) (h : (safelyRunFuncX ccfg c idx now st s cl .close sc).2.1.escapes = true) :
    (safelyRunFuncX ccfg c idx now st s cl .close sc).2.1 = .bookkeeping .valueError ∧ c.ignoreExc = false := by
  constructor
  · have hk := safelyRunFuncX_no_keyError ccfg c idx now st s cl .close sc
    rcases safelyRunFuncX_close_out ccfg c idx now st s cl sc with h1 | h1 | ⟨k, h1⟩
    · rw [h1] at h; cases h
    · rw [h1] at h; cases h
    · cases k with
      | keyError => exact absurd h1 hk
      | valueError => exact h1
  · cases hi : c.ignoreExc with
    | false => rfl
    | true => rw [safelyRunFuncX_close_noescape ccfg idx now st s cl sc hi] at h; cases h

/-- **how a `close()` can end**: it returns, or — `ignore_exc=False` only — it raises the `ValueError` of
`hasher.remove_node` for some server `s` (which, by `safelyRunFuncX_valueError_iff`, had a failure record with its attempts
used up while out of rotation) -/
theorem bloop_close_res {c : Cfg} (ccfg : Wire.Cfg) (idx : Nat) (now : Time) (scripts : Srv → Script) (st : St)
    (keys : List Srv) :
    (bloop ccfg c idx now .close scripts st keys).2.1 = .done ∨
    ((∃ s, (bloop ccfg c idx now .close scripts st keys).2.1 = .bookkeeping s .valueError) ∧ c.ignoreExc = false) := by
  induction keys generalizing st with
  | nil => exact .inl rfl
  | cons s rest ih =>
    simp only [bloop]
    cases hl : alookup s st.clients with
    | none => exact ih st
    | some cl =>
      have hesc := safelyRunFuncX_close_escape (c := c) ccfg idx now st s cl (scripts s)
      simp only []
      generalize safelyRunFuncX ccfg c idx now st s cl .close (scripts s) = r at hesc ⊢
      obtain ⟨st1, o, stp, inv⟩ := r
      simp only [] at hesc ⊢
      cases he : o.escapes with
      | false =>
        simp only [Bool.false_eq_true, if_false]
        exact ih st1
      | true =>
        simp only [if_true]
        obtain ⟨h1, h2⟩ := hesc he
        exact .inr ⟨⟨s, by rw [h1]; rfl⟩, h2⟩

/-- **`close()` / `disconnect_all()` made at `now` in a state with `OpenRetry c now`: if it runs to its end — it always does
with `ignore_exc=True` — no registered client holds a socket afterwards** -/
theorem broadcastH_close_all {c : Cfg} (ccfg : Wire.Cfg) (st : St) (idx : Nat) (now : Time) (scripts : Srv → Script)
    (h : OpenRetry c now st)
    (hd : c.ignoreExc = true ∨ (broadcastH ccfg c st idx now .close scripts).2.res = .done) :
    ∀ x ∈ (broadcastH ccfg c st idx now .close scripts).1.clients, x.2.sockOpen = false := by
  have hdone : (bloop ccfg c idx now .close scripts st st.servers).2.1 = .done := by
    rcases hd with hi | hd
    · exact bloop_close_done ccfg idx now scripts st st.servers hi
    · exact hd
  intro x hx
  have hx' : x ∈ (bloop ccfg c idx now .close scripts st st.servers).1.clients := hx
  have hs : x.1 ∈ st.servers := by
    rw [← bloop_servers ccfg c idx now .close scripts st st.servers]
    exact List.mem_map.mpr ⟨x, hx', rfl⟩
  exact bloop_close_all ccfg idx now scripts st st.servers h hdone x.1 hs x hx' rfl

end HashCall
