import Pymc.Proofs.RefineAll
/-! Facts about the abstract map and the contract that C04 and the C05 corollaries reduce to. -/
namespace AbsMap
open Wire

/-- no delayed flush is due -/
def Settled (s : St) : Prop := ∀ t, s.flushAt = some t → s.now < t

theorem settle_of_settled {s : St} (h : Settled s) : settle s = s := by
  unfold settle
  cases hf : s.flushAt with
  | none => rfl
  | some t =>
    have := h t hf
    simp only
    rw [if_neg (by omega)]

theorem settled_settle (s : St) : Settled (settle s) := by
  intro t
  unfold settle
  cases hf : s.flushAt with
  | none => simp [hf]
  | some t' =>
    simp only
    by_cases h : s.now ≥ t'
    · simp [h]
    · simp only [h, if_false, hf, Option.some.injEq]
      rintro rfl; omega

theorem settle_settle (s : St) : settle (settle s) = settle s := settle_of_settled (settled_settle s)

theorem settled_store {s : St} (h : Settled s) (k : Bytes) (f : Nat) (e : Int) (d : Bytes) :
    Settled (store s k f e d) := h

theorem lookup_put_self (items : List (Bytes × Item)) (k : Bytes) (it : Item) :
    lookup (put items k it) k = some it := by
  simp [lookup, put]

theorem live_store_self (s : St) (k : Bytes) (f : Nat) (d : Bytes) :
    live (store s k f 0 d) k = some ⟨f, 0, d, s.casCtr + 1⟩ := by
  simp [live, store, lookup_put_self, absExp, expired]

/-- a storage command that answers `STORED` (other than append/prepend) leaves exactly the stored item -/
theorem applyLoud_stored (s : St) (verb : SVerb) (w : Bytes) (f : Nat) (e : Int) (d : Bytes) (cv : Option Nat)
    (nr : Bool) (hv : verb ≠ .append ∧ verb ≠ .prepend)
    (h : (applyLoud s (.store verb w f e d cv nr)).2 = .stored) :
    (applyLoud s (.store verb w f e d cv nr)).1 = store (settle s) w f e d := by
  revert h
  simp only [applyLoud]
  cases verb <;> cases live (settle s) w <;> simp
  · exact absurd rfl hv.1
  · exact absurd rfl hv.2
  · split <;> simp

theorem fetchRun_none (s : St) (ws : List Bytes) :
    fetchRun s none ws = (settle s, ws.filterMap fun w => (live (settle s) w).map fun it => (w, it)) := by
  have : ∀ (acc : List (Bytes × Item)) (s0 : St),
      ws.foldl (fetchStep none) (s0, acc) = (s0, acc ++ ws.filterMap fun w => (live s0 w).map fun it => (w, it)) := by
    induction ws with
    | nil => simp
    | cons w ws ih =>
      intro acc s0
      simp only [List.foldl_cons, List.filterMap_cons]
      cases hl : live s0 w with
      | none => simp [fetchStep, hl, ih]
      | some it => simp [fetchStep, hl, ih]
  simpa [fetchRun] using this [] (settle s)
end AbsMap

namespace Client
open Bytes Wire Exchange Readers AbsMap ApiSpec

theorem remapLookup_single (w : Bytes) (k : Key.K) : remapLookup ([w].zip [k]) w = some k := by
  simp [remapLookup]

/-- the contract of a single-key `get`/`gets` lookup -/
theorem fetchSpec_single (cfg : Cfg) (s : St) (verb : FVerb) (k : Key.K) (w : Bytes)
    (hck : checkKey cfg k = .ok w) :
    fetchSpec cfg s verb [k] none =
      .ok (settle s, match live (settle s) w with | some it => [(k, it)] | none => []) := by
  have hm : [k].mapM (checkKey cfg) = .ok [w] := by
    simp [List.mapM_cons, hck, bind, Except.bind, pure, Except.pure]
  simp only [fetchSpec, hm, apply_fetch, fetchRun_none]
  cases hl : live (settle s) w with
  | none => simp [hitsDict, hl]
  | some it => simp [hitsDict, hl, remapLookup, dictSet]

theorem spec_get (cfg : Cfg) (s : St) (k : Key.K) (w : Bytes) (hck : checkKey cfg k = .ok w) :
    spec cfg s (.get k) =
      (settle s, .ok (match live (settle s) w with | some it => .bytes it.data | none => .dflt)) := by
  simp only [spec, fetchSpec_single cfg s .get k w hck]
  cases live (settle s) w <;> simp

theorem spec_gets (cfg : Cfg) (s : St) (k : Key.K) (w : Bytes) (hck : checkKey cfg k = .ok w) :
    spec cfg s (.gets k) =
      (settle s, .ok (match live (settle s) w with
        | some it => .pair it.data (natDec it.cas) | none => .dfltPair)) := by
  simp only [spec, fetchSpec_single cfg s .gets k w hck]
  cases live (settle s) w <;> simp

/-- what it means for the contract that a (non-noreply) storage call returned `True` -/
theorem spec_store_true (cfg : Cfg) (s s' : St) (verb : SVerb) (k : Key.K) (v : Val) (e : Int)
    (flags : Option Int) (cas : Option CasArg)
    (h : spec cfg s (.store verb k v (.int e) (some false) flags cas) = (s', .ok (.bool true))) :
    ∃ w d cv, checkKey cfg k = .ok w ∧ encodeVal cfg.utf8 v = .ok d ∧
      applyLoud s (.store verb w (flagsOf flags).toNat e d cv false) = (s', .stored) := by
  have hnr : (if verb = .cas then (some false : Option Bool).getD false else nr cfg (some false)) = false := by
    split <;> rfl
  simp only [spec, hnr, checkInteger] at h
  split at h
  · rename_i w d e' cv hck hval he hcv
    cases he
    refine ⟨w, d, cv, hck, hval, ?_⟩
    rw [apply_loud _ _ rfl] at h
    simp only [Bool.false_eq_true, if_false] at h
    generalize applyLoud s (.store verb w (flagsOf flags).toNat e d cv false) = p at h ⊢
    obtain ⟨s1, rep⟩ := p
    cases rep <;> simp [storeOutcome] at h ⊢
    exact h
  · simp at h
end Client
