import Pymc.Proofs.SerdeBasic
/-! Concrete codecs satisfying `Serde.Laws`, used by the non-vacuity examples of C15.

* text codec: every number `n` is written as `n` bytes `1` followed by a byte `0` (total and injective on
  *all* lists of naturals, which is what `Laws.utf8` asks for);
* pickle: the decimal rendering of the object id;
* three compression codecs: the identity (`idZip`: the "compressed" form is never larger, so it is always
  stored), one that always grows by one byte (`padZip`: the compressed form is never stored), and one that
  shrinks inputs starting with two bytes `7` and grows all others (`sevenZip`).
-/
namespace Serde
open Wire

def unaryEnc (s : List Nat) : Bytes := s.flatMap fun n => List.replicate n 1 ++ [0]

def unaryDec : Nat → Bytes → List Nat
  | _, [] => []
  | k, x :: r => if x = 0 then k :: unaryDec 0 r else unaryDec (k + 1) r

theorem unaryDec_run (k n : Nat) (rest : Bytes) :
    unaryDec k (List.replicate n 1 ++ 0 :: rest) = (k + n) :: unaryDec 0 rest := by
  induction n generalizing k with
  | zero => simp [unaryDec]
  | succ n ih =>
    simp only [List.replicate_succ, List.cons_append, unaryDec]
    rw [if_neg (by decide), ih]; congr 1; omega

theorem unaryDec_unaryEnc (s : List Nat) : unaryDec 0 (unaryEnc s) = s := by
  induction s with
  | nil => rfl
  | cons n r ih =>
    have : unaryEnc (n :: r) = List.replicate n 1 ++ 0 :: unaryEnc r := by
      simp [unaryEnc]
    rw [this, unaryDec_run, ih]; simp

def padCompress (b : Bytes) : Bytes := 0 :: b
def padDecompress : Bytes → Option Bytes
  | [] => none
  | _ :: r => some r

def sevenCompress : Bytes → Bytes
  | x :: y :: r => if x = 7 ∧ y = 7 then 1 :: r else 0 :: x :: y :: r
  | b => 0 :: b
def sevenDecompress : Bytes → Option Bytes
  | [] => none
  | t :: r => if t = 1 then some (7 :: 7 :: r) else if t = 0 then some r else none

theorem sevenDecompress_sevenCompress (b : Bytes) : sevenDecompress (sevenCompress b) = some b := by
  match b with
  | [] => rfl
  | [_] => rfl
  | x :: y :: r =>
    simp only [sevenCompress]
    split
    · rename_i h; obtain ⟨rfl, rfl⟩ := h; rfl
    · rfl

/-- a codec with the given compression functions -/
def demoCodec (compress : Bytes → Bytes) (decompress : Bytes → Option Bytes) : Codec where
  utf8Enc := unaryEnc
  utf8Dec := fun b => some (unaryDec 0 b)
  pickle := natDec
  unpickle := parseNat
  compress := compress
  decompress := decompress

theorem demoCodec_laws (compress : Bytes → Bytes) (decompress : Bytes → Option Bytes)
    (h : ∀ b, decompress (compress b) = some b) : Laws (demoCodec compress decompress) where
  utf8 := fun s => by simp [demoCodec, unaryDec_unaryEnc]
  pickle := fun id => parseNat_natDec id
  zip := h

def idZip : Codec := demoCodec id some
def padZip : Codec := demoCodec padCompress padDecompress
def sevenZip : Codec := demoCodec sevenCompress sevenDecompress

theorem idZip_laws : Laws idZip := demoCodec_laws _ _ fun _ => rfl
theorem padZip_laws : Laws padZip := demoCodec_laws _ _ fun _ => rfl
theorem sevenZip_laws : Laws sevenZip := demoCodec_laws _ _ sevenDecompress_sevenCompress

end Serde
