import Pymc.Model.HashRoute
/-! Concrete data used by the non-vacuity examples and counterexamples of C12. -/
namespace HashRoute

/-- a concrete score table (stands for `murmur3_32(f"{node}-{key}")`); unlisted pairs tie at 1, so
the tie rule (greatest node name) decides for the routing key `"shard-C"` -/
def demoScore (node key : String) : Nat :=
  if key = "k1" then (if node = "A" then 9 else if node = "B" then 4 else 2)
  else if key = "k2" then (if node = "A" then 3 else if node = "B" then 8 else 5)
  else if key = "k3" then (if node = "A" then 7 else if node = "B" then 1 else 6)
  else if key = "k4" then (if node = "A" then 2 else if node = "B" then 2 else 9)
  else if key = "k5" then (if node = "A" then 1 else if node = "B" then 6 else 6)
  else 1

/-- three servers -/
def demoNodes : List Srv := ["A", "B", "C"]

/-- the inner key `"k<i>"` as a `str` key (code points) -/
def kk (i : Nat) : Key.K := .str [107, 48 + i]

/-- plain keys: routing key = the key itself -/
def hk1 : HKey := ⟨"k1", kk 1⟩   -- → A
def hk2 : HKey := ⟨"k2", kk 2⟩   -- → B
def hk3 : HKey := ⟨"k3", kk 3⟩   -- → A (same server as k1)
def hk4 : HKey := ⟨"k4", kk 4⟩   -- → C
def hk5 : HKey := ⟨"k5", kk 5⟩   -- → C (tie 6/6 between B and C, greater name wins)
/-- a `(server_key, key)` pair: inner key `k6` pinned by server key `"k2"` → B -/
def hk6 : HKey := ⟨"k2", kk 6⟩
/-- the plain key `k6` goes elsewhere (all scores tie at 1 → C) -/
def hk6plain : HKey := ⟨"k6", kk 6⟩

def demoKeys : List HKey := [hk1, hk2, hk3, hk4, hk5, hk6]

/-- server contents: `A` holds k1, k3; `B` holds k2, k6; `C` holds k4 only (k5 is a miss); `C` also
holds a stale k1 and k6 that must never be read through the keys above -/
def demoStores : Stores Nat := fun s k =>
  if s = "A" then (if k = kk 1 then some 11 else if k = kk 3 then some 13 else none)
  else if s = "B" then (if k = kk 2 then some 22 else if k = kk 6 then some 26 else none)
  else if s = "C" then (if k = kk 4 then some 34 else if k = kk 1 then some 99 else if k = kk 6 then some 96 else none)
  else none

/-- the same inner key `k1` requested twice under two server keys (→ A and → C) -/
def hk1onC : HKey := ⟨"k4", kk 1⟩

end HashRoute
