import Pymc.Proofs.CallFaults
/-! Helper lemmas for C01: the reference server of the model (`Server.render ∘ AbsMap.apply`) obeys the
framing assumption — one reply unit per reply-expecting request, nothing for `noreply`. -/
namespace ServerFraming
open Bytes Readers Wire Exchange Client Framing AbsMap

/-! ## lines -/

theorem findCRLF_noLF (l t : Bytes) (h : ∀ b ∈ l, b ≠ LF) :
    findCRLF (l ++ CR :: LF :: t) = some l.length := by
  induction l with
  | nil => simp [findCRLF]
  | cons a l ih =>
    have ih' := ih (fun b hb => h b (by simp [hb]))
    cases l with
    | nil =>
      simp only [List.cons_append, List.nil_append, findCRLF] at ih' ⊢
      have : ¬ (a = CR ∧ CR = LF) := by intro h'; exact absurd h'.2 (by decide)
      simp [this]
    | cons b l' =>
      have hb : b ≠ LF := h b (by simp)
      simp only [List.cons_append, findCRLF] at ih' ⊢
      have : ¬ (a = CR ∧ b = LF) := fun h' => hb h'.2
      rw [if_neg this]
      rw [ih']; simp

theorem splitLine_noLF (l : Bytes) (h : ∀ b ∈ l, b ≠ LF) : splitLine (l ++ CRLF) = some (l, []) := by
  have := findCRLF_noLF l [] h
  simp only [splitLine, CRLF]
  rw [show (13 : UInt8) = CR from rfl, show (10 : UInt8) = LF from rfl, this]
  simp

theorem lineUnit_of_noLF (l : Bytes) (h : ∀ b ∈ l, b ≠ LF) : LineUnit (l ++ CRLF) :=
  ⟨l, splitLine_noLF l h⟩

/-! ## decimal numbers -/

theorem isDigit_digitChar : ∀ d : Nat, d < 10 → isDigit (digitChar d) = true := by decide

theorem natDec_digits (n : Nat) : ∀ b ∈ natDec n, isDigit b = true := by
  induction n using Nat.strongRecOn with
  | _ n ih =>
    rw [natDec]
    split
    · rename_i h; intro b hb; simp at hb; subst hb; exact isDigit_digitChar n h
    · rename_i h
      intro b hb
      simp only [List.mem_append, List.mem_cons, List.not_mem_nil, or_false] at hb
      rcases hb with hb | rfl
      · exact ih (n / 10) (by omega) b hb
      · exact isDigit_digitChar _ (by omega)

theorem natDec_ne_nil (n : Nat) : natDec n ≠ [] := by
  rw [natDec]; split <;> simp

theorem digit_bounds {b : UInt8} (h : isDigit b = true) : 48 ≤ b.toNat ∧ b.toNat ≤ 57 := by
  simp only [isDigit, Bool.and_eq_true, decide_eq_true_eq] at h
  obtain ⟨h1, h2⟩ := h
  rw [UInt8.le_iff_toNat_le] at h1 h2
  simpa using And.intro h1 h2

theorem digit_ne {b : UInt8} (h : isDigit b = true) (n : Nat) (hn : n < 48) : b ≠ UInt8.ofNat n := by
  have := digit_bounds h
  intro heq; subst heq; simp at this; omega

theorem digit_not_ws {b : UInt8} (h : isDigit b = true) : Key.isWs b = false := by
  simp only [Key.isWs, Bool.or_eq_false_iff, decide_eq_false_iff_not]
  exact ⟨⟨⟨⟨⟨digit_ne h 32 (by omega), digit_ne h 9 (by omega)⟩, digit_ne h 10 (by omega)⟩,
    digit_ne h 11 (by omega)⟩, digit_ne h 12 (by omega)⟩, digit_ne h 13 (by omega)⟩

/-- value of a digit string, most significant first -/
def decVal (b : Bytes) (start : Nat) : Nat := b.foldl (fun acc d => acc * 10 + (d.toNat - 48)) start

theorem digitChar_val {d : Nat} (h : d < 10) : (digitChar d).toNat - 48 = d := by
  have : ∀ d : Nat, d < 10 → (digitChar d).toNat - 48 = d := by decide
  exact this d h

theorem decVal_natDec (n : Nat) : decVal (natDec n) 0 = n := by
  induction n using Nat.strongRecOn with
  | _ n ih =>
    rw [natDec]
    split
    · rename_i h; simp [decVal, digitChar_val h]
    · rename_i h
      have := ih (n / 10) (by omega)
      simp only [decVal, List.foldl_append, List.foldl_cons, List.foldl_nil] at this ⊢
      rw [this, digitChar_val (by omega)]; omega

theorem pyIntDigits_digits (l : Bytes) (pu : Bool) (acc : Option Nat) (hl : l ≠ [])
    (hd : ∀ b ∈ l, isDigit b = true) :
    pyIntDigits l pu acc = some (decVal l (acc.getD 0)) := by
  induction l generalizing pu acc with
  | nil => exact absurd rfl hl
  | cons c r ih =>
    have hc : isDigit c = true := hd c (by simp)
    simp only [pyIntDigits, hc, if_true]
    cases r with
    | nil => simp [pyIntDigits, decVal]
    | cons c' r' =>
      rw [ih _ _ (by simp) (fun b hb => hd b (by simp [hb]))]
      simp [decVal]

theorem pyInt_natDec (n : Nat) : pyInt (natDec n) = some (n : Int) := by
  have hd := natDec_digits n
  have hne := natDec_ne_nil n
  have hmain : pyIntDigits (natDec n) false none = some n := by
    rw [pyIntDigits_digits _ _ _ hne hd]; simp [decVal_natDec]
  unfold pyInt
  split
  · rename_i r heq
    have := hd 45 (by rw [heq]; simp)
    exact absurd rfl (digit_ne this 45 (by omega))
  · rename_i r heq
    have := hd 43 (by rw [heq]; simp)
    exact absurd rfl (digit_ne this 43 (by omega))
  · rw [hmain]; rfl

/-! ## `bytes.split()` of a space-joined list of tokens -/

theorem splitGo_token (t r cur : Bytes) (ht : ∀ b ∈ t, Key.isWs b = false) :
    Key.splitGo (t ++ r) cur = Key.splitGo r (cur ++ t) := by
  induction t generalizing cur with
  | nil => simp
  | cons x t ih =>
    have hx : Key.isWs x = false := ht x (by simp)
    simp only [List.cons_append, Key.splitGo, hx, Bool.false_eq_true, if_false]
    rw [ih _ (fun b hb => ht b (by simp [hb]))]
    simp

theorem pySplitWs_joinSp (ts : List Bytes) (h : ∀ t ∈ ts, t ≠ [] ∧ ∀ b ∈ t, Key.isWs b = false) :
    Key.pySplitWs (joinSp ts) = ts := by
  induction ts with
  | nil => simp [joinSp, Key.pySplitWs, Key.splitGo]
  | cons a r ih =>
    obtain ⟨ha, haw⟩ := h a (by simp)
    cases r with
    | nil =>
      have := splitGo_token a [] [] haw
      simp only [List.append_nil, List.nil_append] at this
      simp [joinSp, Key.pySplitWs, this, Key.splitGo, ha]
    | cons b r' =>
      have ih' := ih (fun t ht => h t (by simp [ht]))
      simp only [Key.pySplitWs] at ih' ⊢
      simp only [joinSp, List.append_assoc, List.singleton_append]
      rw [splitGo_token a _ [] haw]
      have hsp : Key.isWs SP = true := by decide
      simp only [List.nil_append, Key.splitGo, hsp, if_true, ha, if_false]
      rw [ih']

/-! ## value blocks -/

theorem validKey_token {k : Bytes} (h : validKey k = true) :
    k ≠ [] ∧ (∀ b ∈ k, Key.isWs b = false) ∧ ∀ b ∈ k, b ≠ LF := by
  simp only [validKey, Bool.and_eq_true, decide_eq_true_eq, List.all_eq_true, Bool.not_eq_true'] at h
  obtain ⟨⟨h1, -⟩, h3⟩ := h
  refine ⟨by simpa using h1, fun b hb => ?_, fun b hb => ?_⟩
  · have := h3 b hb
    cases hw : Key.isWs b with
    | false => rfl
    | true =>
      have : Key.forbidden b = true := by
        simp only [Key.isWs, Key.forbidden, Bool.or_eq_true, decide_eq_true_eq] at hw ⊢
        exact Or.inl hw
      simp_all
  · have := h3 b hb
    intro heq; subst heq
    have : Key.forbidden LF = true := by decide
    simp_all

theorem lit_VALUE_SP : ofString "VALUE " = ofString "VALUE" ++ [SP] := by with_unfolding_all decide

theorem digits_token (n : Nat) :
    natDec n ≠ [] ∧ (∀ b ∈ natDec n, Key.isWs b = false) ∧ ∀ b ∈ natDec n, b ≠ LF :=
  ⟨natDec_ne_nil n, fun b hb => digit_not_ws (natDec_digits n b hb),
   fun b hb => digit_ne (natDec_digits n b hb) 10 (by omega)⟩

/-- the header line of `renderValue` -/
def valueHdrToks (withCas : Bool) (k : Bytes) (it : AbsMap.Item) : List Bytes :=
  [ofString "VALUE", k, natDec it.flags, natDec it.data.length] ++ (if withCas then [natDec it.cas] else [])

theorem renderValue_eq (withCas : Bool) (k : Bytes) (it : AbsMap.Item) :
    Server.renderValue withCas k it = joinSp (valueHdrToks withCas k it) ++ CRLF ++ it.data ++ CRLF := by
  cases withCas <;> simp [Server.renderValue, valueHdrToks, joinSp, lit_VALUE_SP]

theorem valueHdrToks_ok (withCas : Bool) (k : Bytes) (it : AbsMap.Item) (hk : validKey k = true) :
    ∀ t ∈ valueHdrToks withCas k it, t ≠ [] ∧ (∀ b ∈ t, Key.isWs b = false) ∧ ∀ b ∈ t, b ≠ LF := by
  have hV : ofString "VALUE" ≠ [] ∧ (∀ b ∈ ofString "VALUE", Key.isWs b = false) ∧
      ∀ b ∈ ofString "VALUE", b ≠ LF := by rw [lit_VALUE]; decide
  intro t ht
  cases withCas <;>
    simp only [valueHdrToks, if_true, if_false, Bool.false_eq_true, List.append_nil, List.cons_append,
      List.nil_append, List.mem_cons, List.not_mem_nil, or_false] at ht
  · rcases ht with rfl | rfl | rfl | rfl
    · exact hV
    · exact validKey_token hk
    · exact digits_token _
    · exact digits_token _
  · rcases ht with rfl | rfl | rfl | rfl | rfl
    · exact hV
    · exact validKey_token hk
    · exact digits_token _
    · exact digits_token _
    · exact digits_token _

theorem joinSp_noLF (ts : List Bytes) (h : ∀ t ∈ ts, ∀ b ∈ t, b ≠ LF) : ∀ b ∈ joinSp ts, b ≠ LF := by
  induction ts with
  | nil => simp [joinSp]
  | cons a r ih =>
    cases r with
    | nil => simpa [joinSp] using h a (by simp)
    | cons c r' =>
      intro b hb
      simp only [joinSp, List.append_assoc, List.mem_append, List.mem_cons, List.not_mem_nil, or_false] at hb
      rcases hb with hb | rfl | hb
      · exact h a (by simp) b hb
      · decide
      · exact ih (fun t ht => h t (by simp [ht])) b hb

theorem startsWith_joinSp_VALUE (ts : List Bytes) :
    startsWith (joinSp (ofString "VALUE" :: ts)) (ofString "VALUE") = true := by
  cases ts with
  | nil => simp [joinSp, startsWith]
  | cons a r =>
    simp only [joinSp, startsWith, List.append_assoc]
    rw [List.isPrefixOf_iff_prefix]
    exact List.prefix_append _ _

theorem valueHdr_ok (withCas : Bool) (k : Bytes) (it : AbsMap.Item) (hk : validKey k = true) :
    splitLine (joinSp (valueHdrToks withCas k it) ++ CRLF) = some (joinSp (valueHdrToks withCas k it), []) ∧
    ValueHdr (.values withCas) (joinSp (valueHdrToks withCas k it)) it.data.length := by
  have htok := valueHdrToks_ok withCas k it hk
  have hsplit := pySplitWs_joinSp (valueHdrToks withCas k it) (fun t ht => ⟨(htok t ht).1, (htok t ht).2.1⟩)
  refine ⟨splitLine_noLF _ (joinSp_noLF _ (fun t ht => (htok t ht).2.2)), ?_, ?_, ?_⟩
  · exact startsWith_joinSp_VALUE _
  · rw [hsplit]; cases withCas <;> simp [valueHdrToks]
  · rw [hsplit]
    have : (valueHdrToks withCas k it).getD 3 [] = natDec it.data.length := by
      cases withCas <;> simp [valueHdrToks]
    rw [this]; exact pyInt_natDec _

theorem lit_END_final (kind : FetchKind) (hk : kind ≠ .stats) :
    splitLine (ofString "END" ++ CRLF) = some (ofString "END", []) ∧ FinalLine kind (ofString "END") := by
  refine ⟨splitLine_noLF _ (by rw [lit_END]; decide), by rw [lit_END, lit_VALUE]; decide, fun h => absurd h hk⟩

theorem values_unit (withCas : Bool) (vs : List (Bytes × AbsMap.Item))
    (hk : ∀ kv ∈ vs, validKey kv.1 = true) :
    FetchUnit (.values withCas)
      ((vs.flatMap fun (k, it) => Server.renderValue withCas k it) ++ ofString "END" ++ CRLF) := by
  induction vs with
  | nil =>
    have := lit_END_final (.values withCas) (by simp)
    simpa using FetchUnit.final _ _ this.1 this.2
  | cons kv rest ih =>
    obtain ⟨k, it⟩ := kv
    have hh := valueHdr_ok withCas k it (hk (k, it) (by simp))
    have ih' := ih (fun kv h => hk kv (by simp [h]))
    have := FetchUnit.value _ _ it.data CRLF _ hh.1 hh.2 rfl ih'
    simp only [List.flatMap_cons, renderValue_eq, List.append_assoc] at this ⊢
    exact this

/-! ## what the strict parser accepts -/

theorem parseLine_keysValid (toks : List Bytes) (rest : Bytes) {r : Req} {rest' : Bytes}
    (h : parseLine toks rest = some (r, rest')) : reqKeysValid r := by
  unfold parseLine at h
  repeat' split at h
  all_goals first
    | (simp at h; done)
    | (simp only [Option.some.injEq, Prod.mk.injEq] at h; obtain ⟨rfl, -⟩ := h; simp_all [reqKeysValid]; done)
    | skip
  all_goals (
    simp only [bind, Option.bind_eq_some_iff, pure, Option.some.injEq, Prod.mk.injEq, Prod.exists] at h
    repeat (obtain ⟨_, _, h⟩ := h)
    first
      | (obtain ⟨rfl, -⟩ := h; simp_all [reqKeysValid]; done)
      | (subst_vars; simp_all [reqKeysValid]; done))

theorem parseAll_keysValid (fuel : Nat) (b : Bytes) {reqs : List Req} (h : parseAll fuel b = some reqs) :
    ∀ r ∈ reqs, reqKeysValid r := by
  induction fuel generalizing b reqs with
  | zero =>
    simp only [parseAll] at h
    split at h
    · cases h; simp
    · cases h
  | succ fuel ih =>
    simp only [parseAll] at h
    split at h
    · cases h; simp
    · split at h
      · cases h
      · rename_i r rest hp
        simp only [Option.map_eq_some_iff] at h
        obtain ⟨rs, hrs, rfl⟩ := h
        have hr : reqKeysValid r := by
          unfold parseReq at hp
          split at hp
          · cases hp
          · exact parseLine_keysValid _ _ hp
        intro r' hr'
        simp only [List.mem_cons] at hr'
        rcases hr' with rfl | h'
        · exact hr
        · exact ih _ hrs r' h'

/-! ## one request -/

/-- a reply that is rendered as one line -/
def IsLine (rep : Reply) : Prop := rep ≠ .silent ∧ ∀ vs, rep ≠ .values vs

theorem render_line (r : Req) (rep : Reply) (h : IsLine rep) : LineUnit (Server.render r rep) := by
  obtain ⟨hs, hv⟩ := h
  cases rep with
  | silent => exact absurd rfl hs
  | values vs => exact absurd rfl (hv vs)
  | number n => exact lineUnit_of_noLF _ (digits_token n).2.2
  | _ => exact lineUnit_of_noLF _ (by with_unfolding_all decide)

theorem foldl_inv {α β} (P : β → Prop) (f : β → α → β) (l : List α) (b : β) (hb : P b)
    (hf : ∀ b a, a ∈ l → P b → P (f b a)) : P (l.foldl f b) := by
  induction l generalizing b with
  | nil => exact hb
  | cons a t ih =>
    exact ih _ (hf b a (by simp) hb) (fun b' a' ha' hP => hf b' a' (by simp [ha']) hP)

/-- the kind of reply `applyLoud` gives to each kind of request -/
theorem applyLoud_kind (s : St) (r : Req) :
    match r with
    | .fetch _ _ keys => ∃ vs, (applyLoud s r).2 = .values vs ∧ ∀ kv ∈ vs, kv.1 ∈ keys
    | .quit => (applyLoud s r).2 = .silent
    | _ => IsLine (applyLoud s r).2 := by
  cases r with
  | fetch verb e keys =>
    simp only [applyLoud]
    refine ⟨_, rfl, ?_⟩
    refine foldl_inv (fun (acc : St × List (Bytes × AbsMap.Item)) => ∀ kv ∈ acc.2, kv.1 ∈ keys) _ _ _ ?_ ?_
    · simp
    · intro acc k hk hP
      split
      · exact hP
      · split
        · intro kv hkv
          simp only [List.mem_append, List.mem_cons, List.not_mem_nil, or_false] at hkv
          rcases hkv with h | rfl
          · exact hP kv h
          · exact hk
        · intro kv hkv
          simp only [List.mem_append, List.mem_cons, List.not_mem_nil, or_false] at hkv
          rcases hkv with h | rfl
          · exact hP kv h
          · exact hk
  | quit => rfl
  | store verb k flags e d casv nr =>
    simp only [applyLoud]
    repeat' split
    all_goals simp [IsLine]
  | delete k nr =>
    simp only [applyLoud]
    repeat' split
    all_goals simp [IsLine]
  | arith incr k delta nr =>
    simp only [applyLoud]
    repeat' split
    all_goals simp [IsLine]
  | touch k e nr =>
    simp only [applyLoud]
    repeat' split
    all_goals simp [IsLine]
  | flushAll delay nr =>
    simp only [applyLoud]
    repeat' split
    all_goals simp [IsLine]
  | version => simp [applyLoud, IsLine]

theorem lineUnits_one {u : Bytes} (h : LineUnit u) : Units LineUnit 1 u :=
  ⟨[u], rfl, by simpa using h, by simp⟩

/-- the reply of the reference server to one request is exactly the unit owed for it -/
theorem apply_framed (s : St) (r : Req) (hv : reqKeysValid r) :
    (reqOwed r).Matches (Server.render r (AbsMap.apply s r).2) := by
  have hk := applyLoud_kind s r
  simp only [AbsMap.apply]
  by_cases hn : reqNoreply r = true
  · simp only [reqOwed, hn, if_true, Owed.Matches]
    rfl
  · simp only [reqOwed, hn, Bool.false_eq_true, if_false]
    cases r with
    | fetch verb e keys =>
      obtain ⟨vs, hvs, hkeys⟩ := hk
      simp only [hvs, Owed.Matches]
      have hval : ∀ kv ∈ vs, validKey kv.1 = true := fun kv h => hv kv.1 (hkeys kv h)
      have := values_unit (verb = .gets || verb = .gats) vs hval
      cases verb <;> simpa [Server.render] using this
    | quit => simp [reqNoreply] at hn
    | store verb k flags e d casv nr => exact lineUnits_one (render_line _ _ hk)
    | delete k nr => exact lineUnits_one (render_line _ _ hk)
    | arith incr k delta nr => exact lineUnits_one (render_line _ _ hk)
    | touch k e nr => exact lineUnits_one (render_line _ _ hk)
    | flushAll delay nr => exact lineUnits_one (render_line _ _ hk)
    | version => exact lineUnits_one (render_line _ _ hk)

/-- a whole batch: one unit per request, in order -/
theorem run_framed (s : St) (reqs : List Req) (hv : ∀ r ∈ reqs, reqKeysValid r) :
    ReqsMatch reqs (Server.run s reqs).2 := by
  induction reqs generalizing s with
  | nil => rfl
  | cons r rest ih =>
    have := ih (AbsMap.apply s r).1 (fun r' h => hv r' (by simp [h]))
    exact ⟨Server.render r (AbsMap.apply s r).2, (Server.run (AbsMap.apply s r).1 rest).2, rfl,
      apply_framed s r (hv r (by simp)), this⟩

theorem feed_framed (s : St) (data : Bytes) {s' : St} {reply : Bytes}
    (h : Server.feed s data = some (s', reply)) :
    ∃ reqs : List Req, parseAll data.length data = some reqs ∧ ReqsMatch reqs reply := by
  simp only [Server.feed, Option.map_eq_some_iff] at h
  obtain ⟨reqs, hp, hr⟩ := h
  refine ⟨reqs, hp, ?_⟩
  have := run_framed s reqs (parseAll_keysValid _ _ hp)
  rw [hr] at this
  exact this

/-! ## from the units owed per request to the units owed per call -/

theorem reqsMatch_nothing {reqs : List Req} {reply : Bytes} (h : ReqsMatch reqs reply)
    (hn : ∀ r ∈ reqs, reqOwed r = .nothing) : reply = [] := by
  induction reqs generalizing reply with
  | nil => exact h
  | cons r rest ih =>
    obtain ⟨u, t, rfl, hu, ht⟩ := h
    rw [hn r (by simp)] at hu
    have hu' : u = [] := hu
    rw [hu', ih ht (fun r' h' => hn r' (by simp [h']))]
    rfl

theorem reqsMatch_lines {reqs : List Req} {reply : Bytes} (h : ReqsMatch reqs reply)
    (hn : ∀ r ∈ reqs, reqOwed r = .lines 1) : Units LineUnit reqs.length reply := by
  induction reqs generalizing reply with
  | nil => exact ⟨[], rfl, by simp, by simpa [ReqsMatch] using h⟩
  | cons r rest ih =>
    obtain ⟨u, t, rfl, hu, ht⟩ := h
    rw [hn r (by simp)] at hu
    obtain ⟨us1, hl1, hu1, rfl⟩ : Units LineUnit 1 u := hu
    obtain ⟨us, hl, hus, rfl⟩ := ih ht (fun r' h' => hn r' (by simp [h']))
    refine ⟨us1 ++ us, by simp [hl1, hl]; omega, ?_, by simp⟩
    intro x hx
    rcases List.mem_append.mp hx with h' | h'
    · exact hu1 x h'
    · exact hus x h'

theorem reqsMatch_fetch {r : Req} {reply : Bytes} {kind : FetchKind} (h : ReqsMatch [r] reply)
    (hk : reqOwed r = .fetch kind) : FetchUnit kind reply := by
  obtain ⟨u, t, rfl, hu, ht⟩ := h
  have ht' : t = [] := ht
  rw [hk] at hu
  rw [ht', List.append_nil]
  exact hu
end ServerFraming
