import Pymc.Proofs.FailoverSim
/-! C13: from the newest-first ghost lists of the projection to statements about the chronological contact
    log: index form of the two spacing properties and the sliding-window counts. -/
namespace Failover
open FO2 (Sparse2 SparseK Sorted)

/-- chronological list: the `i`-th and the `(i+K)`-th entries are more than `w` apart -/
def Gap (K w : Nat) (F : List Nat) : Prop := ∀ (i a b : Nat), F[i]? = some a → F[i + K]? = some b → b - a > w

/-- chronological list is non-decreasing -/
def Asc (F : List Nat) : Prop := ∀ (i j a b : Nat), i ≤ j → F[i]? = some a → F[j]? = some b → a ≤ b

theorem sparse2_sparseK {rt : Nat} : ∀ {l : List Nat}, Sparse2 rt l → SparseK 2 rt l
  | [], _ => by intro i x y hx; simp at hx
  | [_], _ => by intro i x y hx hy; cases i <;> simp at hy
  | [_, _], _ => by
    intro i x y hx hy
    cases i with
    | zero => simp at hy
    | succ i => cases i <;> simp at hy
  | a :: b :: c :: r, h => by
    intro i x y hx hy
    cases i with
    | zero => simp at hx hy; subst hx hy; exact h.1
    | succ i =>
      have ih := sparse2_sparseK h.2
      have e : i + 1 + 2 = (i + 2) + 1 := by omega
      rw [e] at hy
      simp only [List.getElem?_cons_succ] at hx hy
      exact ih i x y hx hy

theorem sorted_desc : ∀ {l : List Nat}, Sorted l → ∀ (i j a b : Nat), i ≤ j → l[i]? = some a → l[j]? = some b → b ≤ a
  | [], _ => by intro i j a b _ h; simp at h
  | [x], _ => by
    intro i j a b hij h1 h2
    cases j with
    | zero => cases i <;> simp_all
    | succ j => simp at h2
  | x :: y :: r, h => by
    intro i j a b hij h1 h2
    have ih := sorted_desc h.2
    cases j with
    | zero =>
      have : i = 0 := by omega
      subst this; simp at h1 h2; omega
    | succ j =>
      cases i with
      | zero =>
        simp at h1; subst h1
        simp only [List.getElem?_cons_succ] at h2
        have := ih 0 j y b (by omega) (by simp) h2
        have := h.1
        omega
      | succ i =>
        simp only [List.getElem?_cons_succ] at h1 h2
        exact ih i j a b (by omega) h1 h2

theorem getElem?_reverse_some {l : List Nat} {i : Nat} {a : Nat} (h : l.reverse[i]? = some a) :
    i < l.length ∧ l[l.length - 1 - i]? = some a := by
  have hi : i < l.length := by
    have := (List.getElem?_eq_some_iff.1 h).1
    simpa using this
  exact ⟨hi, by rw [← List.getElem?_reverse hi]; exact h⟩

theorem gap_of_sparseK {K w : Nat} {l : List Nat} (h : SparseK K w l) : Gap K w l.reverse := by
  intro i a b ha hb
  obtain ⟨hi, ha'⟩ := getElem?_reverse_some ha
  obtain ⟨hi2, hb'⟩ := getElem?_reverse_some hb
  have e : l.length - 1 - i = (l.length - 1 - (i + K)) + K := by omega
  rw [e] at ha'
  exact h _ b a hb' ha'

theorem asc_of_sorted {l : List Nat} (h : Sorted l) : Asc l.reverse := by
  intro i j a b hij ha hb
  obtain ⟨hi, ha'⟩ := getElem?_reverse_some ha
  obtain ⟨hj, hb'⟩ := getElem?_reverse_some hb
  exact sorted_desc h _ _ b a (by omega) hb' ha'

theorem gap_tail {K w x : Nat} {r : List Nat} (h : Gap K w (x :: r)) : Gap K w r := by
  intro i a b ha hb
  exact h (i + 1) a b (by simpa using ha) (by rw [show i + 1 + K = (i + K) + 1 by omega]; simpa using hb)

theorem asc_tail {x : Nat} {r : List Nat} (h : Asc (x :: r)) : Asc r := by
  intro i j a b hij ha hb
  exact h (i + 1) (j + 1) a b (by omega) (by simpa using ha) (by simpa using hb)

/-- at most `K` entries of a non-decreasing list with `K`-gaps `> w` lie in any window `[t, t + w]` -/
theorem countIn_le {K w : Nat} : ∀ (F : List Nat), Gap K w F → Asc F → ∀ t : Nat, countIn t w F ≤ K
  | [], _, _, t => by simp [countIn]
  | x :: r, hg, ha, t => by
    by_cases hx : t ≤ x
    · -- everything from index K on is beyond the window
      have hdrop : ∀ y ∈ (x :: r).drop K, ¬ (decide (t ≤ y) && decide (y ≤ t + w)) = true := by
        intro y hy
        obtain ⟨j, hj⟩ := List.getElem?_of_mem hy
        rw [List.getElem?_drop] at hj
        have hjlt : j < (x :: r).length := by
          have := (List.getElem?_eq_some_iff.1 hj).1
          omega
        obtain ⟨a, haj⟩ : ∃ a, (x :: r)[j]? = some a := ⟨(x :: r)[j], List.getElem?_eq_getElem hjlt⟩
        have h1 := hg j a y haj (by rw [Nat.add_comm]; exact hj)
        have h2 := ha 0 j x a (by omega) (by simp) haj
        simp only [Bool.and_eq_true, decide_eq_true_eq, not_and, Nat.not_le]
        intro _
        omega
      have : (x :: r).filter (fun y => decide (t ≤ y) && decide (y ≤ t + w)) =
          ((x :: r).take K).filter (fun y => decide (t ≤ y) && decide (y ≤ t + w)) := by
        conv => lhs; rw [← List.take_append_drop K (x :: r)]
        rw [List.filter_append, List.filter_eq_nil_iff.2 hdrop, List.append_nil]
      unfold countIn
      rw [this]
      exact Nat.le_trans (List.length_filter_le _ _) (by simp; omega)
    · have ih := countIn_le r (gap_tail hg) (asc_tail ha) t
      unfold countIn at ih ⊢
      simp only [List.filter_cons]
      have : (decide (t ≤ x) && decide (x ≤ t + w)) = false := by simp [hx]
      simp only [this]
      exact ih

/-! ### the ghost lists are the reversed observations -/

theorem histOf_eq (s : Srv) (L : List Contact) : histOf s L = (oserrTimes s L).reverse := by
  have gen : ∀ (L : List Contact) (acc : List Time),
      L.foldl (histStep s) acc = (oserrTimes s L).reverse ++ acc := by
    intro L
    induction L with
    | nil => intro acc; simp [oserrTimes]
    | cons x r ih =>
      intro acc
      simp only [List.foldl_cons, ih, oserrTimes, histStep, List.filter_cons]
      by_cases h : x.1 = s ∧ x.2.2 = .oserror
      · simp [h]
      · have : (x.1 == s && x.2.2 == Outcome.oserror) = false := by
          simp at h ⊢; exact h
        simp [h, this]
  simpa [histOf] using gen L []

theorem sinceLastOk_snoc (s : Srv) (L : List Contact) (x : Contact) :
    sinceLastOk s (L ++ [x]) = if x.1 = s ∧ x.2.2 = .ok then [] else sinceLastOk s L ++ [x] := by
  unfold sinceLastOk
  simp only [List.reverse_append, List.reverse_cons, List.reverse_nil, List.nil_append, List.singleton_append,
    List.takeWhile_cons]
  by_cases h : x.1 = s ∧ x.2.2 = .ok
  · simp [h]
  · have : (x.1 == s && x.2.2 == Outcome.ok) = false := by simp at h ⊢; exact h
    simp [h, this]

theorem oserrTimes_append (s : Srv) (A B : List Contact) : oserrTimes s (A ++ B) = oserrTimes s A ++ oserrTimes s B := by
  simp [oserrTimes]

theorem streakOf_eq (s : Srv) (L : List Contact) : streakOf s L = (oserrTimes s (sinceLastOk s L)).reverse := by
  have gen : ∀ l : List Contact, streakOf s l.reverse = (oserrTimes s (sinceLastOk s l.reverse)).reverse := by
    intro l
    induction l with
    | nil => simp [streakOf, sinceLastOk, oserrTimes]
    | cons x r ih =>
      rw [List.reverse_cons, streakOf_append, sinceLastOk_snoc, ih]
      simp only [List.foldl_cons, List.foldl_nil, streakStep]
      obtain ⟨b, t, o⟩ := x
      by_cases hb : b = s
      · subst hb
        cases o <;> simp [oserrTimes]
      · simp [hb, oserrTimes]
  simpa using gen L.reverse

end Failover
