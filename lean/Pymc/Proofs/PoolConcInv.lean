import Pymc.Model.PoolConc
/-! Inductive invariant of the micro-step pool model (C08): definitions and the initial state. -/
namespace PoolConc

/-- objects that are neither in `used` nor in `free` but still open, and which this thread is
responsible for: in transit inside `get`/`release` (lock held) or awaiting `after_remove`. -/
def Pc.own : Pc → List Obj
  | .getTest o _ | .getAppend o _ | .relAppend o => [o]
  | .desRel o true _ | .desAfter o _ => [o]
  | .clrRel l => l
  | .clrAfter o r => o :: r
  | _ => []

/-- pool slots reserved by a thread inside its critical section (object in transit, or about to be created) -/
def Pc.slots : Pc → Nat
  | .getTest _ _ | .getAppend _ _ | .relAppend _ | .getCreate _ => 1
  | _ => 0

/-- the object in `used` this thread still has to remove -/
def Pc.owes : Pc → Option Obj
  | .getRel o _ | .hold o _ | .relAcq o | .relBody o | .desAcq o _ | .desBody o _ => some o
  | _ => none

/-! evaluation of the classification functions on every constructor (generated; all `rfl`) -/
@[simp, grind =] theorem Pc.inCS_idle  : Pc.idle.inCS = false := rfl
@[simp, grind =] theorem Pc.holds_idle  : Pc.idle.holds = none := rfl
@[simp, grind =] theorem Pc.own_idle  : Pc.idle.own = [] := rfl
@[simp, grind =] theorem Pc.slots_idle  : Pc.idle.slots = 0 := rfl
@[simp, grind =] theorem Pc.owes_idle  : Pc.idle.owes = none := rfl
@[simp, grind =] theorem Pc.inCS_getLoop (f : Fin) : (Pc.getLoop f).inCS = true := rfl
@[simp, grind =] theorem Pc.holds_getLoop (f : Fin) : (Pc.getLoop f).holds = none := rfl
@[simp, grind =] theorem Pc.own_getLoop (f : Fin) : (Pc.getLoop f).own = [] := rfl
@[simp, grind =] theorem Pc.slots_getLoop (f : Fin) : (Pc.getLoop f).slots = 0 := rfl
@[simp, grind =] theorem Pc.owes_getLoop (f : Fin) : (Pc.getLoop f).owes = none := rfl
@[simp, grind =] theorem Pc.inCS_getPop (f : Fin) : (Pc.getPop f).inCS = true := rfl
@[simp, grind =] theorem Pc.holds_getPop (f : Fin) : (Pc.getPop f).holds = none := rfl
@[simp, grind =] theorem Pc.own_getPop (f : Fin) : (Pc.getPop f).own = [] := rfl
@[simp, grind =] theorem Pc.slots_getPop (f : Fin) : (Pc.getPop f).slots = 0 := rfl
@[simp, grind =] theorem Pc.owes_getPop (f : Fin) : (Pc.getPop f).owes = none := rfl
@[simp, grind =] theorem Pc.inCS_getTest (o : Obj) (f : Fin) : (Pc.getTest o f).inCS = true := rfl
@[simp, grind =] theorem Pc.holds_getTest (o : Obj) (f : Fin) : (Pc.getTest o f).holds = some o := rfl
@[simp, grind =] theorem Pc.own_getTest (o : Obj) (f : Fin) : (Pc.getTest o f).own = [o] := rfl
@[simp, grind =] theorem Pc.slots_getTest (o : Obj) (f : Fin) : (Pc.getTest o f).slots = 1 := rfl
@[simp, grind =] theorem Pc.owes_getTest (o : Obj) (f : Fin) : (Pc.getTest o f).owes = none := rfl
@[simp, grind =] theorem Pc.inCS_getCount (f : Fin) : (Pc.getCount f).inCS = true := rfl
@[simp, grind =] theorem Pc.holds_getCount (f : Fin) : (Pc.getCount f).holds = none := rfl
@[simp, grind =] theorem Pc.own_getCount (f : Fin) : (Pc.getCount f).own = [] := rfl
@[simp, grind =] theorem Pc.slots_getCount (f : Fin) : (Pc.getCount f).slots = 0 := rfl
@[simp, grind =] theorem Pc.owes_getCount (f : Fin) : (Pc.getCount f).owes = none := rfl
@[simp, grind =] theorem Pc.inCS_getCreate (f : Fin) : (Pc.getCreate f).inCS = true := rfl
@[simp, grind =] theorem Pc.holds_getCreate (f : Fin) : (Pc.getCreate f).holds = none := rfl
@[simp, grind =] theorem Pc.own_getCreate (f : Fin) : (Pc.getCreate f).own = [] := rfl
@[simp, grind =] theorem Pc.slots_getCreate (f : Fin) : (Pc.getCreate f).slots = 1 := rfl
@[simp, grind =] theorem Pc.owes_getCreate (f : Fin) : (Pc.getCreate f).owes = none := rfl
@[simp, grind =] theorem Pc.inCS_getAppend (o : Obj) (f : Fin) : (Pc.getAppend o f).inCS = true := rfl
@[simp, grind =] theorem Pc.holds_getAppend (o : Obj) (f : Fin) : (Pc.getAppend o f).holds = some o := rfl
@[simp, grind =] theorem Pc.own_getAppend (o : Obj) (f : Fin) : (Pc.getAppend o f).own = [o] := rfl
@[simp, grind =] theorem Pc.slots_getAppend (o : Obj) (f : Fin) : (Pc.getAppend o f).slots = 1 := rfl
@[simp, grind =] theorem Pc.owes_getAppend (o : Obj) (f : Fin) : (Pc.getAppend o f).owes = none := rfl
@[simp, grind =] theorem Pc.inCS_getRel (o : Obj) (f : Fin) : (Pc.getRel o f).inCS = true := rfl
@[simp, grind =] theorem Pc.holds_getRel (o : Obj) (f : Fin) : (Pc.getRel o f).holds = some o := rfl
@[simp, grind =] theorem Pc.own_getRel (o : Obj) (f : Fin) : (Pc.getRel o f).own = [] := rfl
@[simp, grind =] theorem Pc.slots_getRel (o : Obj) (f : Fin) : (Pc.getRel o f).slots = 0 := rfl
@[simp, grind =] theorem Pc.owes_getRel (o : Obj) (f : Fin) : (Pc.getRel o f).owes = some o := rfl
@[simp, grind =] theorem Pc.inCS_getRaised  : Pc.getRaised.inCS = true := rfl
@[simp, grind =] theorem Pc.holds_getRaised  : Pc.getRaised.holds = none := rfl
@[simp, grind =] theorem Pc.own_getRaised  : Pc.getRaised.own = [] := rfl
@[simp, grind =] theorem Pc.slots_getRaised  : Pc.getRaised.slots = 0 := rfl
@[simp, grind =] theorem Pc.owes_getRaised  : Pc.getRaised.owes = none := rfl
@[simp, grind =] theorem Pc.inCS_hold (o : Obj) (f : Fin) : (Pc.hold o f).inCS = false := rfl
@[simp, grind =] theorem Pc.holds_hold (o : Obj) (f : Fin) : (Pc.hold o f).holds = some o := rfl
@[simp, grind =] theorem Pc.own_hold (o : Obj) (f : Fin) : (Pc.hold o f).own = [] := rfl
@[simp, grind =] theorem Pc.slots_hold (o : Obj) (f : Fin) : (Pc.hold o f).slots = 0 := rfl
@[simp, grind =] theorem Pc.owes_hold (o : Obj) (f : Fin) : (Pc.hold o f).owes = some o := rfl
@[simp, grind =] theorem Pc.inCS_relAcq (o : Obj) : (Pc.relAcq o).inCS = false := rfl
@[simp, grind =] theorem Pc.holds_relAcq (o : Obj) : (Pc.relAcq o).holds = some o := rfl
@[simp, grind =] theorem Pc.own_relAcq (o : Obj) : (Pc.relAcq o).own = [] := rfl
@[simp, grind =] theorem Pc.slots_relAcq (o : Obj) : (Pc.relAcq o).slots = 0 := rfl
@[simp, grind =] theorem Pc.owes_relAcq (o : Obj) : (Pc.relAcq o).owes = some o := rfl
@[simp, grind =] theorem Pc.inCS_relBody (o : Obj) : (Pc.relBody o).inCS = true := rfl
@[simp, grind =] theorem Pc.holds_relBody (o : Obj) : (Pc.relBody o).holds = some o := rfl
@[simp, grind =] theorem Pc.own_relBody (o : Obj) : (Pc.relBody o).own = [] := rfl
@[simp, grind =] theorem Pc.slots_relBody (o : Obj) : (Pc.relBody o).slots = 0 := rfl
@[simp, grind =] theorem Pc.owes_relBody (o : Obj) : (Pc.relBody o).owes = some o := rfl
@[simp, grind =] theorem Pc.inCS_relAppend (o : Obj) : (Pc.relAppend o).inCS = true := rfl
@[simp, grind =] theorem Pc.holds_relAppend (o : Obj) : (Pc.relAppend o).holds = some o := rfl
@[simp, grind =] theorem Pc.own_relAppend (o : Obj) : (Pc.relAppend o).own = [o] := rfl
@[simp, grind =] theorem Pc.slots_relAppend (o : Obj) : (Pc.relAppend o).slots = 1 := rfl
@[simp, grind =] theorem Pc.owes_relAppend (o : Obj) : (Pc.relAppend o).owes = none := rfl
@[simp, grind =] theorem Pc.inCS_relRel  : Pc.relRel.inCS = true := rfl
@[simp, grind =] theorem Pc.holds_relRel  : Pc.relRel.holds = none := rfl
@[simp, grind =] theorem Pc.own_relRel  : Pc.relRel.own = [] := rfl
@[simp, grind =] theorem Pc.slots_relRel  : Pc.relRel.slots = 0 := rfl
@[simp, grind =] theorem Pc.owes_relRel  : Pc.relRel.owes = none := rfl
@[simp, grind =] theorem Pc.inCS_desAcq (o : Obj) (k : Kont) : (Pc.desAcq o k).inCS = false := rfl
@[simp, grind =] theorem Pc.holds_desAcq (o : Obj) (k : Kont) : (Pc.desAcq o k).holds = some o := rfl
@[simp, grind =] theorem Pc.own_desAcq (o : Obj) (k : Kont) : (Pc.desAcq o k).own = [] := rfl
@[simp, grind =] theorem Pc.slots_desAcq (o : Obj) (k : Kont) : (Pc.desAcq o k).slots = 0 := rfl
@[simp, grind =] theorem Pc.owes_desAcq (o : Obj) (k : Kont) : (Pc.desAcq o k).owes = some o := rfl
@[simp, grind =] theorem Pc.inCS_desBody (o : Obj) (k : Kont) : (Pc.desBody o k).inCS = true := rfl
@[simp, grind =] theorem Pc.holds_desBody (o : Obj) (k : Kont) : (Pc.desBody o k).holds = some o := rfl
@[simp, grind =] theorem Pc.own_desBody (o : Obj) (k : Kont) : (Pc.desBody o k).own = [] := rfl
@[simp, grind =] theorem Pc.slots_desBody (o : Obj) (k : Kont) : (Pc.desBody o k).slots = 0 := rfl
@[simp, grind =] theorem Pc.owes_desBody (o : Obj) (k : Kont) : (Pc.desBody o k).owes = some o := rfl
@[simp, grind =] theorem Pc.inCS_desRelT (o : Obj) (k : Kont) : (Pc.desRel o true k).inCS = true := rfl
@[simp, grind =] theorem Pc.holds_desRelT (o : Obj) (k : Kont) : (Pc.desRel o true k).holds = some o := rfl
@[simp, grind =] theorem Pc.own_desRelT (o : Obj) (k : Kont) : (Pc.desRel o true k).own = [o] := rfl
@[simp, grind =] theorem Pc.slots_desRelT (o : Obj) (k : Kont) : (Pc.desRel o true k).slots = 0 := rfl
@[simp, grind =] theorem Pc.owes_desRelT (o : Obj) (k : Kont) : (Pc.desRel o true k).owes = none := rfl
@[simp, grind =] theorem Pc.inCS_desRelF (o : Obj) (k : Kont) : (Pc.desRel o false k).inCS = true := rfl
@[simp, grind =] theorem Pc.holds_desRelF (o : Obj) (k : Kont) : (Pc.desRel o false k).holds = some o := rfl
@[simp, grind =] theorem Pc.own_desRelF (o : Obj) (k : Kont) : (Pc.desRel o false k).own = [] := rfl
@[simp, grind =] theorem Pc.slots_desRelF (o : Obj) (k : Kont) : (Pc.desRel o false k).slots = 0 := rfl
@[simp, grind =] theorem Pc.owes_desRelF (o : Obj) (k : Kont) : (Pc.desRel o false k).owes = none := rfl
@[simp, grind =] theorem Pc.inCS_desAfter (o : Obj) (k : Kont) : (Pc.desAfter o k).inCS = false := rfl
@[simp, grind =] theorem Pc.holds_desAfter (o : Obj) (k : Kont) : (Pc.desAfter o k).holds = some o := rfl
@[simp, grind =] theorem Pc.own_desAfter (o : Obj) (k : Kont) : (Pc.desAfter o k).own = [o] := rfl
@[simp, grind =] theorem Pc.slots_desAfter (o : Obj) (k : Kont) : (Pc.desAfter o k).slots = 0 := rfl
@[simp, grind =] theorem Pc.owes_desAfter (o : Obj) (k : Kont) : (Pc.desAfter o k).owes = none := rfl
@[simp, grind =] theorem Pc.inCS_clrBody  : Pc.clrBody.inCS = true := rfl
@[simp, grind =] theorem Pc.holds_clrBody  : Pc.clrBody.holds = none := rfl
@[simp, grind =] theorem Pc.own_clrBody  : Pc.clrBody.own = [] := rfl
@[simp, grind =] theorem Pc.slots_clrBody  : Pc.clrBody.slots = 0 := rfl
@[simp, grind =] theorem Pc.owes_clrBody  : Pc.clrBody.owes = none := rfl
@[simp, grind =] theorem Pc.inCS_clrRel (l : List Obj) : (Pc.clrRel l).inCS = true := rfl
@[simp, grind =] theorem Pc.holds_clrRel (l : List Obj) : (Pc.clrRel l).holds = none := rfl
@[simp, grind =] theorem Pc.own_clrRel (l : List Obj) : (Pc.clrRel l).own = l := rfl
@[simp, grind =] theorem Pc.slots_clrRel (l : List Obj) : (Pc.clrRel l).slots = 0 := rfl
@[simp, grind =] theorem Pc.owes_clrRel (l : List Obj) : (Pc.clrRel l).owes = none := rfl
@[simp, grind =] theorem Pc.inCS_clrAfter (o : Obj) (r : List Obj) : (Pc.clrAfter o r).inCS = false := rfl
@[simp, grind =] theorem Pc.holds_clrAfter (o : Obj) (r : List Obj) : (Pc.clrAfter o r).holds = none := rfl
@[simp, grind =] theorem Pc.own_clrAfter (o : Obj) (r : List Obj) : (Pc.clrAfter o r).own = o :: r := rfl
@[simp, grind =] theorem Pc.slots_clrAfter (o : Obj) (r : List Obj) : (Pc.clrAfter o r).slots = 0 := rfl
@[simp, grind =] theorem Pc.owes_clrAfter (o : Obj) (r : List Obj) : (Pc.clrAfter o r).owes = none := rfl
@[simp, grind =] theorem Pc.inCS_internalError  : Pc.internalError.inCS = false := rfl
@[simp, grind =] theorem Pc.holds_internalError  : Pc.internalError.holds = none := rfl
@[simp, grind =] theorem Pc.own_internalError  : Pc.internalError.own = [] := rfl
@[simp, grind =] theorem Pc.slots_internalError  : Pc.internalError.slots = 0 := rfl
@[simp, grind =] theorem Pc.owes_internalError  : Pc.internalError.owes = none := rfl

@[simp, grind =] theorem Pc.inCS_desRel (o : Obj) (d : Bool) (k : Kont) : (Pc.desRel o d k).inCS = true := rfl
@[simp, grind =] theorem Pc.holds_desRel (o : Obj) (d : Bool) (k : Kont) : (Pc.desRel o d k).holds = some o := rfl
@[simp, grind =] theorem Pc.slots_desRel (o : Obj) (d : Bool) (k : Kont) : (Pc.desRel o d k).slots = 0 := by cases d <;> rfl
@[simp, grind =] theorem Pc.owes_desRel (o : Obj) (d : Bool) (k : Kont) : (Pc.desRel o d k).owes = none := by cases d <;> rfl

theorem Pc.slots_of_notCS (p : Pc) (h : p.inCS = false) : p.slots = 0 := by
  cases p <;> simp_all [Pc.inCS, Pc.slots]

theorem Pc.slots_le (p : Pc) : p.slots ≤ 1 := by
  cases p <;> simp [Pc.slots]

structure Inv (s : State) : Prop where
  mutex : ∀ t, (s.th t).pc.inCS = true ↔ s.lock = some t
  noErr : ∀ t, (s.th t).pc ≠ .internalError
  popOk : ∀ t f, (s.th t).pc = .getPop f → s.free ≠ []
  cntOk : ∀ t f, (s.th t).pc = .getCount f → s.free = []
  cap : ∀ t, (s.th t).pc.slots + s.used.length + s.free.length ≤ s.maxSize
  nodup : (s.used ++ s.free).Nodup
  ownNodup : ∀ t, (s.th t).pc.own.Nodup
  ownDisj : ∀ t o, o ∈ (s.th t).pc.own → o ∉ s.used ∧ o ∉ s.free
  ownExcl : ∀ t u o, o ∈ (s.th t).pc.own → o ∈ (s.th u).pc.own → t = u
  freshPool : ∀ o, o ∈ s.used ∨ o ∈ s.free → o < s.created
  freshOwn : ∀ t o, o ∈ (s.th t).pc.own → o < s.created
  holdOk : ∀ t o, (s.th t).pc.holds = some o → o < s.created ∧ o ∉ s.free
  holdExcl : ∀ t u o, (s.th t).pc.holds = some o → (s.th u).pc.holds = some o → t = u
  ccPool : ∀ o, o ∈ s.used ∨ o ∈ s.free → s.closedCnt o = 0
  ccOwn : ∀ t o, o ∈ (s.th t).pc.own → s.closedCnt o = 0
  ccGone : ∀ o, o < s.created → o ∉ s.used → o ∉ s.free → (∀ t, o ∉ (s.th t).pc.own) → s.closedCnt o = 1
  ccNew : ∀ o, s.created ≤ o → s.closedCnt o = 0
  owes : ∀ o, o ∈ s.used → ∃ t, (s.th t).pc.owes = some o

theorem inv_init (programs : List Program) (m : Nat) : Inv (init programs m) := by
  constructor <;> simp [init, Pc.inCS, Pc.holds, Pc.own, Pc.slots, Pc.owes]

/-- case analysis of one micro-step: one goal per branch of `stepE`, `s'` replaced by its definition -/
macro "step_cases" hs:ident : tactic => `(tactic| (
  unfold step stepE at $hs:ident
  split at $hs:ident
  all_goals (try split at $hs:ident)
  all_goals (try split at $hs:ident)
  all_goals (try split at $hs:ident)
  all_goals (try (simp only [unlock, Option.map_some, Option.map_none, Option.some.injEq, reduceCtorEq] at $hs:ident))
  all_goals (try split at $hs:ident)
  all_goals (try (simp only [unlock, Option.map_some, Option.map_none, Option.some.injEq, reduceCtorEq] at $hs:ident))
  all_goals (try subst $hs:ident)))

end PoolConc
