import Pymc.Proofs.HashCallProj
import Pymc.Proofs.PooledCallStep
/-!
# `HashClient ∘ Client`: the C01 invariant and runs

* the C01 invariant of the composed model — *every client object registered in `self.clients` that has an open socket
  has a clean pipe* — is preserved by `callH` when the script of the call is well-framed (`callH_clean`), resp. the
  variant for connections that may break (`callH_quiet`); the facts about the inner step come from the single-client
  lemmas (`PooledCall.stepTagged_facts`, `PooledCall.stepTagged_factsF`);
* a composed run is a run of the abstract failover model whose environments are the outcomes of the inner calls
  (`runH_proj`).
-/
namespace HashCall
open Exchange Client Framing Failover

/-- every registered client object with an open socket has only interrupted `recv()` attempts left in its pipe -/
def PipesClean (st : St) : Prop := ∀ x ∈ st.clients, x.2.sockOpen = true → ∀ te ∈ x.2.pipe, te.2 = .eintr

/-- … has no byte readable from its pipe before a fault -/
def PipesQuiet (st : St) : Prop := ∀ x ∈ st.clients, x.2.sockOpen = true → quiet (x.2.pipe.map (·.2))

theorem initClients_refreshed (l : List Srv) (st : St) : Refreshed st (initClients l st) := by
  induction l generalizing st with
  | nil => exact refreshed_refl _
  | cons s r ih => exact refreshed_trans (refreshed_newClient st s) (ih _)

theorem pipesClean_init (servers : List Srv) (t0 : Time) : PipesClean (init servers t0) := by
  intro x hx hopen
  rcases (initClients_refreshed servers { fo := Failover.init servers t0 }).mem x hx with h | ⟨h, -⟩
  · simp at h
  · rw [h] at hopen; cases hopen

theorem pipesQuiet_init (servers : List Srv) (t0 : Time) : PipesQuiet (init servers t0) := by
  intro x hx hopen
  rcases (initClients_refreshed servers { fo := Failover.init servers t0 }).mem x hx with h | ⟨h, -⟩
  · simp at h
  · rw [h] at hopen; cases hopen

/-! ## what one composed call does to `self.clients` -/

theorem retryIfDead_refreshed {c : Cfg} {now : Time} {st st1 : St} (h : retryIfDead c now st = some st1) :
    Refreshed st st1 := by
  unfold retryIfDead at h
  split at h
  · cases h; exact refreshed_refl _
  · unfold retryDead at h
    split at h
    · cases hr : reviveAll ((st.fo.dead.filter (fun p => decide (now - p.2 > c.dt))).map Prod.fst) st with
      | none => simp [hr] at h
      | some st' =>
        simp only [hr, Option.some.injEq] at h
        subst h
        obtain ⟨h1, -, -⟩ := reviveAll_spec _ _ _ hr
        exact ⟨h1.mem, h1.keep⟩
    · cases h; exact refreshed_refl _

theorem getClient_refreshed {Key : Type} (c : Cfg) (route : List Srv → Key → Option Srv) (now : Time) (st : St) (key : Key) :
    Refreshed st (getClient c route now st key).1 ∧
    (∀ s cl, (getClient c route now st key).2 = .client s cl → (s, cl) ∈ (getClient c route now st key).1.clients) := by
  unfold getClient
  cases hr : retryIfDead c now st with
  | none => exact ⟨refreshed_refl _, fun s cl h => by cases h⟩
  | some st1 =>
    have h1 := retryIfDead_refreshed hr
    simp only []
    cases route st1.fo.nodes key with
    | none => cases c.ignoreExc <;> exact ⟨h1, fun s cl h => by cases h⟩
    | some s =>
      simp only []
      cases hcl : alookup s st1.clients with
      | none => exact ⟨h1, fun s cl h => by cases h⟩
      | some cl => exact ⟨h1, fun s' cl' h => by cases h; exact mem_of_alookup hcl⟩

/-- the shape of the state after one call: after `_get_client` the registered clients are those from before or fresh
ones (`st1`); then either no server is contacted and `self.clients` stays as it is, or the inner call is
`stepTagged` on a client object `cl` registered for the routed server `s`, which stays registered with the socket and
the pipe the call left -/
theorem callH_spec {Key : Type} (ccfg : Wire.Cfg) (c : Cfg) (route : List Srv → Key → Option Srv) (st : St) (idx : Nat)
    (now : Time) (rk : Key) (call : Call) (sc : Script) :
    ∃ st1, Refreshed st st1 ∧
      (((callH ccfg c route st idx now rk call sc).2.step = none ∧
          (callH ccfg c route st idx now rk call sc).1.clients = st1.clients) ∨
       (∃ s cl, (s, cl) ∈ st1.clients ∧
          (callH ccfg c route st idx now rk call sc).2.step =
            some (PooledCall.stepTagged ccfg idx cl.sockOpen cl.pipe call sc) ∧
          (callH ccfg c route st idx now rk call sc).2.server = some s ∧
          (callH ccfg c route st idx now rk call sc).2.client = some cl.id ∧
          (callH ccfg c route st idx now rk call sc).1.clients =
            ainsert s { cl with sockOpen := (PooledCall.stepTagged ccfg idx cl.sockOpen cl.pipe call sc).out.sockOpen,
                                pipe := (PooledCall.stepTagged ccfg idx cl.sockOpen cl.pipe call sc).leftover }
              st1.clients)) := by
  obtain ⟨hr, hmem⟩ := getClient_refreshed c route now st rk
  rcases callH_cases ccfg c route st idx now rk call sc with ⟨hk, h⟩ | ⟨hk, ⟨r, -, -, h1, h2, -, -⟩ | ⟨s, cl, hgc, h⟩⟩
  · exact ⟨st, refreshed_refl _, .inl (by rw [h]; exact ⟨rfl, rfl⟩)⟩
  · exact ⟨_, hr, .inl ⟨h2, by rw [h1]⟩⟩
  · refine ⟨_, hr, ?_⟩
    rw [h]
    rcases safelyRunFunc_step ccfg c idx now (getClient c route now st rk).1 s cl call sc with ⟨ha, hb⟩ | ⟨ha, hb⟩
    · exact .inl ⟨ha, hb⟩
    · refine .inr ⟨s, cl, hmem s cl hgc, ha, rfl, ?_, ?_⟩
      · simp only [ha]; rfl
      · rw [hb, contact_clients]

theorem callH_clean {Key : Type} (ccfg : Wire.Cfg) (c : Cfg) (route : List Srv → Key → Option Srv) (st : St) (idx : Nat)
    (now : Time) (rk : Key) (call : Call) (sc : Script) (hinv : PipesClean st) (hwf : WellFramed ccfg call sc.evs) :
    PipesClean (callH ccfg c route st idx now rk call sc).1 ∧
    ∀ stp, (callH ccfg c route st idx now rk call sc).2.step = some stp → stp.idx = idx ∧ StepFacts ccfg false stp := by
  obtain ⟨st1, hr, h⟩ := callH_spec ccfg c route st idx now rk call sc
  have hinv1 : PipesClean st1 := by
    intro x hx hopen
    rcases hr.mem x hx with h | ⟨h, -⟩
    · exact hinv x h hopen
    · rw [h] at hopen; cases hopen
  rcases h with ⟨h1, h2⟩ | ⟨s, cl, hcl, hstep, -, -, hcls⟩
  · refine ⟨fun x hx => hinv1 x (h2 ▸ hx), fun stp h => ?_⟩
    rw [h1] at h; cases h
  · obtain ⟨hfacts, hpost⟩ := PooledCall.stepTagged_facts ccfg idx cl.sockOpen cl.pipe call sc (hinv1 (s, cl) hcl) hwf
    refine ⟨fun x hx hopen => ?_, fun stp h => ?_⟩
    · rw [hcls] at hx
      rcases mem_ainsert hx with h | h
      · exact hinv1 x h hopen
      · subst h; exact hpost hopen
    · rw [hstep] at h
      cases h
      exact ⟨rfl, hfacts⟩

theorem callH_quiet {Key : Type} (ccfg : Wire.Cfg) (c : Cfg) (route : List Srv → Key → Option Srv) (st : St) (idx : Nat)
    (now : Time) (rk : Key) (call : Call) (sc : Script) (hinv : PipesQuiet st) (hff : FaultFramed ccfg call sc.evs) :
    PipesQuiet (callH ccfg c route st idx now rk call sc).1 ∧
    ∀ stp, (callH ccfg c route st idx now rk call sc).2.step = some stp → stp.idx = idx ∧ StepFactsF stp := by
  obtain ⟨st1, hr, h⟩ := callH_spec ccfg c route st idx now rk call sc
  have hinv1 : PipesQuiet st1 := by
    intro x hx hopen
    rcases hr.mem x hx with h | ⟨h, -⟩
    · exact hinv x h hopen
    · rw [h] at hopen; cases hopen
  rcases h with ⟨h1, h2⟩ | ⟨s, cl, hcl, hstep, -, -, hcls⟩
  · refine ⟨fun x hx => hinv1 x (h2 ▸ hx), fun stp h => ?_⟩
    rw [h1] at h; cases h
  · obtain ⟨hfacts, hpost⟩ := PooledCall.stepTagged_factsF ccfg idx cl.sockOpen cl.pipe call sc (hinv1 (s, cl) hcl) hff
    refine ⟨fun x hx hopen => ?_, fun stp h => ?_⟩
    · rw [hcls] at hx
      rcases mem_ainsert hx with h | h
      · exact hinv1 x h hopen
      · subst h; exact hpost hopen
    · rw [hstep] at h
      cases h
      exact ⟨rfl, hfacts⟩

/-! ## runs -/

theorem runH_cons {Key : Type} (ccfg : Wire.Cfg) (c : Cfg) (route : List Srv → Key → Option Srv) (st : St) (k : Nat)
    (hc : HCall Key) (rest : List (HCall Key)) :
    runH ccfg c route st k (hc :: rest) =
      ((runH ccfg c route (callH ccfg c route st k hc.now hc.rk hc.call hc.sc).1 (k + 1) rest).1,
       (callH ccfg c route st k hc.now hc.rk hc.call hc.sc).2 ::
         (runH ccfg c route (callH ccfg c route st k hc.now hc.rk hc.call hc.sc).1 (k + 1) rest).2) :=
  rfl

theorem runH_length {Key : Type} (ccfg : Wire.Cfg) (c : Cfg) (route : List Srv → Key → Option Srv) (st : St) (k : Nat)
    (calls : List (HCall Key)) : (runH ccfg c route st k calls).2.length = calls.length := by
  induction calls generalizing st k with
  | nil => rfl
  | cons hc rest ih => simp [runH_cons, ih]

/-- the observations of a prefix of the history are a prefix of the observations -/
theorem runH_take {Key : Type} (ccfg : Wire.Cfg) (c : Cfg) (route : List Srv → Key → Option Srv) (st : St) (k : Nat)
    (calls : List (HCall Key)) (n : Nat) :
    (runH ccfg c route st k (calls.take n)).2 = (runH ccfg c route st k calls).2.take n := by
  induction calls generalizing st k n with
  | nil => simp [runH]
  | cons hc rest ih =>
    cases n with
    | zero => simp [runH]
    | succ n => simp [runH_cons, ih]

theorem runH_clean {Key : Type} (ccfg : Wire.Cfg) (c : Cfg) (route : List Srv → Key → Option Srv) (st : St) (k : Nat)
    (calls : List (HCall Key)) (hinv : PipesClean st) (hwf : ∀ hc ∈ calls, WellFramed ccfg hc.call hc.sc.evs) :
    PipesClean (runH ccfg c route st k calls).1 ∧
    ∀ i ob, (runH ccfg c route st k calls).2[i]? = some ob → ∀ stp, ob.step = some stp →
      stp.idx = k + i ∧ StepFacts ccfg false stp := by
  induction calls generalizing st k with
  | nil => exact ⟨hinv, fun i ob h => by simp [runH] at h⟩
  | cons hc rest ih =>
    obtain ⟨h1, h2⟩ := callH_clean ccfg c route st k hc.now hc.rk hc.call hc.sc hinv (hwf hc (by simp))
    obtain ⟨h3, h4⟩ := ih (callH ccfg c route st k hc.now hc.rk hc.call hc.sc).1 (k + 1) h1 (fun x h => hwf x (by simp [h]))
    rw [runH_cons]
    refine ⟨h3, fun i ob hi stp hst => ?_⟩
    cases i with
    | zero =>
      simp only [List.getElem?_cons_zero, Option.some.injEq] at hi
      subst hi
      exact h2 stp hst
    | succ i =>
      simp only [List.getElem?_cons_succ] at hi
      obtain ⟨ha, hb⟩ := h4 i ob hi stp hst
      exact ⟨by omega, hb⟩

theorem runH_quiet {Key : Type} (ccfg : Wire.Cfg) (c : Cfg) (route : List Srv → Key → Option Srv) (st : St) (k : Nat)
    (calls : List (HCall Key)) (hinv : PipesQuiet st) (hff : ∀ hc ∈ calls, FaultFramed ccfg hc.call hc.sc.evs) :
    PipesQuiet (runH ccfg c route st k calls).1 ∧
    ∀ i ob, (runH ccfg c route st k calls).2[i]? = some ob → ∀ stp, ob.step = some stp →
      stp.idx = k + i ∧ StepFactsF stp := by
  induction calls generalizing st k with
  | nil => exact ⟨hinv, fun i ob h => by simp [runH] at h⟩
  | cons hc rest ih =>
    obtain ⟨h1, h2⟩ := callH_quiet ccfg c route st k hc.now hc.rk hc.call hc.sc hinv (hff hc (by simp))
    obtain ⟨h3, h4⟩ := ih (callH ccfg c route st k hc.now hc.rk hc.call hc.sc).1 (k + 1) h1 (fun x h => hff x (by simp [h]))
    rw [runH_cons]
    refine ⟨h3, fun i ob hi stp hst => ?_⟩
    cases i with
    | zero =>
      simp only [List.getElem?_cons_zero, Option.some.injEq] at hi
      subst hi
      exact h2 stp hst
    | succ i =>
      simp only [List.getElem?_cons_succ] at hi
      obtain ⟨ha, hb⟩ := h4 i ob hi stp hst
      exact ⟨by omega, hb⟩

/-- what the method returns when a server was contacted: the inner result; or the default / the inner exception,
according to `ignore_exc` and the class of the exception (a `BaseException` always escapes); or — only from states that
violate the bookkeeping invariants — an internal error -/
def ResOfStep (c : Cfg) (res : HRes) (stp : Step) : Prop :=
  (∃ r, stp.out.res = .ok r ∧ (res = .value r ∨ res = .internalError)) ∨
  (∃ e, stp.out.res = .error e ∧
    ((isBaseExc e = true ∧ ∃ s, res = .raised s e) ∨
     (isBaseExc e = false ∧ c.ignoreExc = true ∧ res = .default) ∨
     (isBaseExc e = false ∧ c.ignoreExc = false ∧ ∃ s, res = .raised s e) ∨
     (isOSError e = true ∧ res = .internalError)))

theorem onError_res (c : Cfg) (now : Time) (st : St) (s : Srv) (e : Exc) :
    (isBaseExc e = true ∧ (onError c now st s e).2 = .raised s e) ∨
    (isBaseExc e = false ∧ c.ignoreExc = true ∧ (onError c now st s e).2 = .default) ∨
    (isBaseExc e = false ∧ c.ignoreExc = false ∧ (onError c now st s e).2 = .raised s e) ∨
    (isOSError e = true ∧ (onError c now st s e).2 = .internalError) := by
  unfold onError
  cases hb : isBaseExc e
  · cases ho : isOSError e
    · cases hi : c.ignoreExc <;> simp
    · cases markFailed c now st.fo s with
      | none => simp
      | some fo' => cases hi : c.ignoreExc <;> simp
  · simp

theorem invoke_res (ccfg : Wire.Cfg) (c : Cfg) (idx : Nat) (now : Time) (st : St) (s : Srv) (cl : IClient) (call : Call)
    (sc : Script) (clear : Bool) :
    ResOfStep c (invoke ccfg c idx now st s cl call sc clear).2.1
      (PooledCall.stepTagged ccfg idx cl.sockOpen cl.pipe call sc) := by
  unfold invoke ResOfStep
  simp only [contact_step]
  cases hres : (PooledCall.stepTagged ccfg idx cl.sockOpen cl.pipe call sc).out.res with
  | ok r =>
    left
    refine ⟨r, rfl, ?_⟩
    cases clear
    · exact .inl rfl
    · simp only [if_true]
      cases aerase s (contact ccfg idx st s cl call sc).1.fo.failed
      · exact .inr rfl
      · exact .inl rfl
  | error e =>
    right
    refine ⟨e, rfl, ?_⟩
    rcases onError_res c now (contact ccfg idx st s cl call sc).1 s e with h | h | h | h
    · exact .inl ⟨h.1, s, h.2⟩
    · exact .inr (.inl h)
    · exact .inr (.inr (.inl ⟨h.1, h.2.1, s, h.2.2⟩))
    · exact .inr (.inr (.inr h))

theorem safelyRunFunc_res (ccfg : Wire.Cfg) (c : Cfg) (idx : Nat) (now : Time) (st : St) (s : Srv) (cl : IClient)
    (call : Call) (sc : Script) (stp : Step) (h : (safelyRunFunc ccfg c idx now st s cl call sc).2.2 = some stp) :
    ResOfStep c (safelyRunFunc ccfg c idx now st s cl call sc).2.1 stp := by
  rcases safelyRunFunc_step ccfg c idx now st s cl call sc with ⟨ha, -⟩ | ⟨ha, -⟩
  · rw [ha] at h; cases h
  · rw [ha] at h
    cases h
    unfold safelyRunFunc at ha ⊢
    split
    · split
      · split
        · exact invoke_res ..
        · rename_i h1 h2 h3; simp [h1, h2, h3] at ha
      · split
        · rename_i h1 h2 _ h3; simp [h1, h2, h3] at ha
        · exact invoke_res ..
    · exact invoke_res ..

/-- every observed step of a run is the inner `Client.call` of the corresponding call of the history on some client
object, and the method's result is determined by the inner result as `ResOfStep` says -/
theorem runH_steps {Key : Type} (ccfg : Wire.Cfg) (c : Cfg) (route : List Srv → Key → Option Srv) (st : St) (k : Nat)
    (calls : List (HCall Key)) :
    ∀ (i : Nat) (ob : HObs), (runH ccfg c route st k calls).2[i]? = some ob →
      ∃ hc, calls[i]? = some hc ∧
        ∀ stp, ob.step = some stp →
          (∃ so left, stp = PooledCall.stepTagged ccfg (k + i) so left hc.call hc.sc) ∧ ResOfStep c ob.res stp := by
  induction calls generalizing st k with
  | nil => intro i ob h; simp [runH] at h
  | cons hc rest ih =>
    intro i ob hi
    rw [runH_cons] at hi
    cases i with
    | zero =>
      simp only [List.getElem?_cons_zero, Option.some.injEq] at hi
      subst hi
      refine ⟨hc, rfl, fun stp hst => ?_⟩
      constructor
      · obtain ⟨st1, -, h⟩ := callH_spec ccfg c route st k hc.now hc.rk hc.call hc.sc
        rcases h with ⟨h1, -⟩ | ⟨s, cl, -, hstep, -, -, -⟩
        · rw [h1] at hst; cases hst
        · rw [hstep] at hst
          exact ⟨cl.sockOpen, cl.pipe, (Option.some.inj hst).symm⟩
      · rcases callH_cases ccfg c route st k hc.now hc.rk hc.call hc.sc with ⟨-, h⟩ | ⟨-, ⟨r, -, -, -, h2, -, -⟩ | ⟨s, cl, -, h⟩⟩
        · rw [h] at hst; cases hst
        · rw [h2] at hst; cases hst
        · rw [h] at hst ⊢
          exact safelyRunFunc_res ccfg c k hc.now _ s cl hc.call hc.sc stp hst
    | succ i =>
      simp only [List.getElem?_cons_succ] at hi ⊢
      obtain ⟨hc', h1, h2⟩ := ih _ (k + 1) i ob hi
      refine ⟨hc', h1, fun stp hst => ?_⟩
      have := h2 stp hst
      rwa [show k + 1 + i = k + (i + 1) by omega] at this

/-! ## the run projects onto the abstract model -/

theorem eventsOf_cons {Key : Type} (hc : HCall Key) (rest : List (HCall Key)) (ob : HObs) (obs : List HObs) :
    eventsOf (hc :: rest) (ob :: obs) =
      (match eventOf hc ob with | some e => [e] | none => []) ++ eventsOf rest obs := rfl

theorem absOuts_cons {Key : Type} (c : Cfg) (hc : HCall Key) (rest : List (HCall Key)) (ob : HObs) (obs : List HObs) :
    absOuts c (hc :: rest) (ob :: obs) =
      (if isIllegalKey ob.res then [] else [(absRes c ob.res, contactsOfObs hc.now ob)]) ++ absOuts c rest obs := rfl

theorem run_cons {Key : Type} (c : Cfg) (route : List Srv → Key → Option Srv) (st : State) (e : Event Key)
    (es : List (Event Key)) :
    Failover.run c route st (e :: es) =
      ((Failover.run c route (stepOp c route st e).1 es).1,
        ((stepOp c route st e).2.1, (stepOp c route st e).2.2) :: (Failover.run c route (stepOp c route st e).1 es).2) :=
  rfl

/-- **a composed run is a run of the abstract failover model**: the calls whose key passes `check_key_helper` are the
events (same times, same routing keys, the environment of each being the outcome of its inner `Client.call`); the
bookkeeping state at the end, the results and the contact logs are those of `Failover.run`; and `Cover` is preserved -/
theorem runH_proj {Key : Type} (ccfg : Wire.Cfg) (c : Cfg) (route : List Srv → Key → Option Srv) (hlaw : RouteLaw route)
    (st : St) (k : Nat) (calls : List (HCall Key)) (hcov : Cover st) :
    Failover.run c route st.proj (eventsOf calls (runH ccfg c route st k calls).2) =
      ((runH ccfg c route st k calls).1.proj, absOuts c calls (runH ccfg c route st k calls).2) ∧
    Cover (runH ccfg c route st k calls).1 := by
  induction calls generalizing st k with
  | nil => exact ⟨rfl, hcov⟩
  | cons hc rest ih =>
    obtain ⟨p1, p2⟩ := callH_proj ccfg c route hlaw st k hc.now hc.rk hc.call hc.sc hcov
    have hill := callH_illegal ccfg c route st k hc.now hc.rk hc.call hc.sc
    obtain ⟨h1, h2⟩ := ih (callH ccfg c route st k hc.now hc.rk hc.call hc.sc).1 (k + 1)
      (cover_callH ccfg c route hlaw st k hc.now hc.rk hc.call hc.sc hcov)
    rw [runH_cons]
    refine ⟨?_, h2⟩
    simp only [eventsOf_cons, absOuts_cons, eventOf]
    cases hk : keyOk ccfg hc.call
    · have hst := p1 hk
      rw [hk] at hill
      simp only [Bool.not_false] at hill
      simp only [hill, if_true, List.nil_append]
      rw [hst] at h1
      rw [hst]
      exact h1
    · have hst := p2 hk
      rw [hk] at hill
      simp only [Bool.not_true] at hill
      simp only [hill, Bool.false_eq_true, if_false, List.singleton_append]
      rw [run_cons, hst]
      simp only []
      rw [h1]

/-! ## the contact log and the clock -/

theorem callH_illegal_contacts {Key : Type} (ccfg : Wire.Cfg) (c : Cfg) (route : List Srv → Key → Option Srv) (st : St)
    (idx : Nat) (now : Time) (rk : Key) (call : Call) (sc : Script)
    (h : isIllegalKey (callH ccfg c route st idx now rk call sc).2.res = true) :
    contactsOfObs now (callH ccfg c route st idx now rk call sc).2 = [] := by
  rw [callH_illegal] at h
  rcases callH_cases ccfg c route st idx now rk call sc with ⟨-, h'⟩ | ⟨hk, -⟩
  · rw [h']; rfl
  · rw [hk] at h; cases h

/-- the contact log of the abstract run is the contact log of the composed run -/
theorem runH_contactLog {Key : Type} (ccfg : Wire.Cfg) (c : Cfg) (route : List Srv → Key → Option Srv) (st : St) (k : Nat)
    (calls : List (HCall Key)) :
    contactsOf (absOuts c calls (runH ccfg c route st k calls).2) = contactLog calls (runH ccfg c route st k calls).2 := by
  induction calls generalizing st k with
  | nil => rfl
  | cons hc rest ih =>
    rw [runH_cons]
    simp only [absOuts_cons, contactLog, contactsOf, List.flatMap_append]
    have := ih (callH ccfg c route st k hc.now hc.rk hc.call hc.sc).1 (k + 1)
    simp only [contactsOf] at this
    rw [this]
    cases hill : isIllegalKey (callH ccfg c route st k hc.now hc.rk hc.call hc.sc).2.res
    · simp
    · simp [callH_illegal_contacts ccfg c route st k hc.now hc.rk hc.call hc.sc hill]

theorem chrono_mono {Key : Type} {t t' : Time} (h : t' ≤ t) : ∀ {evs : List (Event Key)}, Chrono t evs → Chrono t' evs
  | [], _ => trivial
  | _ :: _, hc => ⟨Nat.le_trans h hc.1, hc.2⟩

theorem chrono_eventsOf {Key : Type} (t0 : Time) (calls : List (HCall Key)) (obs : List HObs)
    (h : ChronoCalls t0 calls) : Chrono t0 (eventsOf calls obs) := by
  induction calls generalizing t0 obs with
  | nil => cases obs <;> exact trivial
  | cons hc rest ih =>
    cases obs with
    | nil => exact trivial
    | cons ob obs =>
      rw [eventsOf_cons]
      have hr := ih hc.now obs h.2
      unfold eventOf
      cases isIllegalKey ob.res
      · exact ⟨h.1, hr⟩
      · exact chrono_mono h.1 hr

theorem eventsOf_runCmd {Key : Type} (calls : List (HCall Key)) (obs : List HObs) :
    ∀ e ∈ eventsOf calls obs, e.op.isSetMany = false := by
  induction calls generalizing obs with
  | nil => cases obs <;> simp [eventsOf]
  | cons hc rest ih =>
    cases obs with
    | nil => simp [eventsOf]
    | cons ob obs =>
      rw [eventsOf_cons]
      intro e he
      rcases List.mem_append.mp he with he | he
      · unfold eventOf at he
        cases hill : isIllegalKey ob.res
        · simp only [hill, Bool.false_eq_true, if_false, List.mem_singleton] at he; subst he; rfl
        · simp [hill] at he
      · exact ih obs e he

/-- the abstract output that belongs to the `i`-th observation -/
theorem mem_absOuts {Key : Type} (c : Cfg) (calls : List (HCall Key)) (obs : List HObs) (i : Nat) (hc : HCall Key)
    (ob : HObs) (h1 : calls[i]? = some hc) (h2 : obs[i]? = some ob) (h3 : isIllegalKey ob.res = false) :
    (absRes c ob.res, contactsOfObs hc.now ob) ∈ absOuts c calls obs := by
  induction calls generalizing obs i with
  | nil => simp at h1
  | cons hc' rest ih =>
    cases obs with
    | nil => simp at h2
    | cons ob' obs =>
      rw [absOuts_cons]
      cases i with
      | zero =>
        simp only [List.getElem?_cons_zero, Option.some.injEq] at h1 h2
        subst h1; subst h2
        simp [h3]
      | succ i =>
        simp only [List.getElem?_cons_succ] at h1 h2
        exact List.mem_append_right _ (ih obs i h1 h2)
end HashCall
