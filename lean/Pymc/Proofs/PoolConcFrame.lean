import Pymc.Proofs.PoolConcMain
/-! Frame facts about one micro-step of `PoolConc` used by the timed model (C09, overlapping callers):
where objects enter `_free_objs`, where the idle test comes from, what the other threads keep. -/
set_option linter.unusedSimpArgs false
namespace PoolConc

/-- threads other than the one that moves keep their program counter and program -/
theorem th_other_step {s s' : State} {t : Tid} {l : Label} (hs : step s t l = some s') (u : Tid) (hu : u ≠ t) :
    s'.th u = s.th u := by
  step_cases hs
  all_goals (simp only [goto, finish, setTh, close]; simp [hu])

/-- an object enters `_free_objs` only through the `append` of `release` -/
theorem free_origin_step {s s' : State} {t : Tid} {l : Label} (hs : step s t l = some s') (o : Obj)
    (ho : o ∈ s'.free) : o ∈ s.free ∨ (s.th t).pc = .relAppend o := by
  step_cases hs
  all_goals (simp only [goto, finish, setTh, close] at ho ⊢; (try simp_all) <;> grind)

/-- the `append` of `release` puts the object into `_free_objs` -/
theorem relAppend_step {s s' : State} {t : Tid} {l : Label} (hs : step s t l = some s') (o : Obj)
    (hp : (s.th t).pc = .relAppend o) : o ∈ s'.free ∧ (s'.th t).pc = .relRel := by
  step_cases hs
  all_goals (simp only [goto, finish, setTh, close]; (try simp_all))

/-- a thread is at the idle test of `o` only if it was there already or has just popped `o` from `_free_objs` -/
theorem getTest_origin_step {s s' : State} {t : Tid} {l : Label} (hs : step s t l = some s') (u : Tid) (o : Obj) (f : Fin)
    (hp : (s'.th u).pc = .getTest o f) :
    (s.th u).pc = .getTest o f ∨ (u = t ∧ (s.th t).pc = .getPop f ∧ o ∈ s.free) := by
  by_cases hu : u = t
  · subst hu
    step_cases hs
    all_goals (simp only [goto, finish, setTh, close] at hp ⊢; (try simp_all))
  · rw [th_other_step hs u hu] at hp
    exact Or.inl hp

/-- the creator can fail only where it is called -/
theorem createFail_pc {s s' : State} {t : Tid} (hs : step s t .createFail = some s') :
    ∃ f, (s.th t).pc = .getCreate f := by
  step_cases hs
  all_goals simp_all

/-- a micro-step of a thread that is outside every `with self._lock` block while another thread owns the lock
does not touch the pool -/
theorem outsideCS_step_frame {s s' : State} {u : Tid} {l : Label} (hs : step s u l = some s')
    (hcs : (s.th u).pc.inCS = false) (hl : s.lock ≠ none) :
    s'.free = s.free ∧ s'.used = s.used ∧ s'.created = s.created ∧ s'.lock = s.lock := by
  step_cases hs
  all_goals (simp only [goto, finish, setTh, close]; simp_all [Pc.inCS])

/-- leaving the `with` block of `get` releases the lock -/
theorem getRel_step_unlocks {s s' : State} {t : Tid} {l : Label} {o : Obj} {f : Fin} (hs : step s t l = some s')
    (hp : (s.th t).pc = .getRel o f) (hl : s.lock = some t) : s'.lock = none := by
  step_cases hs
  all_goals (simp_all [goto, finish, setTh, close])

/-- where the thread `t` that runs the `while` loop of `get` can be while an object `o` that was in `_free_objs`
(= `F0`) when it entered the loop has not been reached yet, is being tested, or an object of `F0` has been taken -/
def GetLoopInv (F0 : List Obj) (c0 : Nat) (o : Obj) (f : Fin) (t : Tid) (b : State) : Prop :=
  b.created = c0 ∧ (∀ x, x ∈ b.free → x ∈ F0) ∧
  ((o ∈ b.free ∧ ((b.th t).pc = .getLoop f ∨ (b.th t).pc = .getPop f ∨ ∃ o', (b.th t).pc = .getTest o' f ∧ o' ∈ F0)) ∨
   (b.th t).pc = .getTest o f ∨
   ∃ o', (b.th t).pc = .getRel o' f ∧ o' ∈ F0)

theorem getLoopInv_self {F0 : List Obj} {c0 : Nat} {o : Obj} {f : Fin} {t : Tid} {b b' : State} {lb : Label}
    (h : GetLoopInv F0 c0 o f t b) (ho : o ∈ F0) (hl : b.lock = some t) (hs : step b t lb = some b')
    (hlb : (b.th t).pc = .getTest o f → lb = .fresh) (hl' : b'.lock = some t) :
    GetLoopInv F0 c0 o f t b' := by
  obtain ⟨h1, h2, h3⟩ := h
  unfold GetLoopInv
  step_cases hs
  all_goals (simp only [goto, finish, setTh, close] at hl' ⊢; (try simp_all) <;> grind)

theorem getLoopInv_other {F0 : List Obj} {c0 : Nat} {o : Obj} {f : Fin} {t u : Tid} {b b' : State} {lb : Label}
    (h : GetLoopInv F0 c0 o f t b) (hu : t ≠ u) (hcs : (b.th u).pc.inCS = false) (hl : b.lock = some t)
    (hs : step b u lb = some b') : GetLoopInv F0 c0 o f t b' ∧ b'.lock = some t := by
  obtain ⟨e1, e2, e3, e4⟩ := outsideCS_step_frame hs hcs (by rw [hl]; simp)
  have e5 := th_other_step hs t hu
  unfold GetLoopInv at h ⊢
  rw [e1, e3, e4, e5]
  exact ⟨h, hl⟩

end PoolConc
