import Pymc.Proofs.PoolConcInv
/-! Preservation of the no-duplicate / ownership conjuncts of `Inv` by one micro-step. -/
set_option linter.unusedSimpArgs false
namespace PoolConc

theorem nodup_step (s s' : State) (t : Tid) (l : Label) (h : Inv s) (hs : step s t l = some s') :
    (s'.used ++ s'.free).Nodup := by
  have hn := h.nodup
  have hd := h.ownDisj t
  step_cases hs
  all_goals (simp only [goto, finish, setTh, close])
  all_goals (try assumption)
  all_goals (simp_all [Pc.own, List.nodup_append])
  all_goals grind

theorem ownNodup_step (s s' : State) (t : Tid) (l : Label) (h : Inv s) (hs : step s t l = some s') :
    ∀ u, (s'.th u).pc.own.Nodup := by
  have hn := h.nodup
  have ho := h.ownNodup
  step_cases hs
  all_goals (intro u; have hu := ho u; have ht := ho t; simp only [goto, finish, setTh, close]
             by_cases e : u = t <;> simp [e] <;> simp_all [Pc.own, List.nodup_append])

theorem ownDisj_step (s s' : State) (t : Tid) (l : Label) (h : Inv s) (hs : step s t l = some s') :
    ∀ u o, o ∈ (s'.th u).pc.own → o ∉ s'.used ∧ o ∉ s'.free := by
  have hn := h.nodup
  have ho := h.ownDisj
  have hx := h.ownExcl
  have hf := h.freshPool
  step_cases hs
  all_goals (intro u o; have hu := ho u o; have ht := ho t; have hxu := hx u t o; have hfo := hf o; clear ho hx hf h
             simp only [goto, finish, setTh, close]
             by_cases e : u = t <;> simp [e] <;> simp_all [List.nodup_append] <;> grind)


theorem ownExcl_step (s s' : State) (t : Tid) (l : Label) (h : Inv s) (hs : step s t l = some s') :
    ∀ u v o, o ∈ (s'.th u).pc.own → o ∈ (s'.th v).pc.own → u = v := by
  have ho := h.ownDisj
  have hx := h.ownExcl
  have hf := h.freshOwn
  have hn := h.nodup
  step_cases hs
  all_goals (
    intro u v o
    by_cases e : u = t <;> by_cases e' : v = t
    · intros; exact e.trans e'.symm
    · subst e
      have hut := hx u v o; have hov := ho v o; have hfv := hf v o; clear ho hx hf h
      simp only [goto, finish, setTh, close]; simp [e'] <;> (try simp_all [List.nodup_append]) <;> grind
    · subst e'
      have hut := hx u v o; have hov := ho u o; have hfv := hf u o; clear ho hx hf h
      simp only [goto, finish, setTh, close]; simp [e] <;> (try simp_all [List.nodup_append]) <;> grind
    · have hut := hx u v o; clear ho hx hf h
      simp only [goto, finish, setTh, close]; simp [e, e'] <;> simp_all)

end PoolConc
