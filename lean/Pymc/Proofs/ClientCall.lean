import Pymc.Proofs.ClientShapeAll
/-! Helper lemmas for C01: the C01 facts for `Client.call`, derived from the shape of the operation. -/
namespace Client
open Bytes Readers Wire Framing Exchange

theorem mapOut_with_unread {α β} (o : CallOut α) (f : α → Except Exc β) (u : List Ev) :
    mapOut { o with unread := u } f = { mapOut o f with unread := u } := by
  unfold mapOut
  rcases o.res with e | a <;> rfl

theorem call_suffix (cfg : Cfg) (ie so : Bool) (c : Call) (sc : Script) :
    (call cfg ie so c sc).unread <:+ sc.evs := by
  rcases shape cfg c with ⟨res, hcall⟩ | ⟨verb, cmds, nr, f, hcall, -, -, -⟩ |
    ⟨cmds, nr, tok, f, hcall, -, -, -, -⟩ | ⟨kind, cmd, wanted, g, hcall, -⟩ | hq | ⟨gr, hsd⟩
  · rw [hcall]; exact List.suffix_refl _
  · rw [hcall, mapOut_unread]; exact exchangeStore_suffix ..
  · rw [hcall, mapOut_unread]; exact exchangeMisc_suffix ..
  · rw [hcall, mapOut_unread]; exact exchangeFetch_suffix ..
  · subst hq; simp only [call]; exact exchangeMisc_suffix ..
  · subst hsd; rw [call_shutdown, swallowClose_unread, mapOut_unread]; exact exchangeMisc_suffix ..

theorem call_open_result (cfg : Cfg) (ie so : Bool) (c : Call) (sc : Script)
    (hsent : (call cfg ie so c sc).sent ≠ none) (hopen : (call cfg ie so c sc).sockOpen = true) :
    (∃ r, (call cfg ie so c sc).res = .ok r) ∨
    (∃ e, (call cfg ie so c sc).res = .error e ∧ postProcessingError c e) := by
  rcases shape cfg c with ⟨res, hcall⟩ | ⟨verb, cmds, nr, f, hcall, -, -, hpost⟩ |
    ⟨cmds, nr, tok, f, hcall, -, -, -, hpost⟩ | ⟨kind, cmd, wanted, g, hcall, -⟩ | hq | ⟨gr, hsd⟩
  · simp [hcall] at hsent
  · rw [hcall, mapOut_sockOpen] at hopen
    obtain ⟨r, hr, hlen, -, -⟩ := exchangeStore_open _ _ _ _ _ hopen
    rw [hcall, mapOut_res_ok _ _ hr]
    rcases hf : f r with e | a
    · right; exact ⟨e, rfl, hpost r hlen e hf⟩
    · left; exact ⟨a, rfl⟩
  · rw [hcall, mapOut_sockOpen] at hopen
    obtain ⟨r, hr, hlen, -, -⟩ := exchangeMisc_open _ _ _ _ _ hopen
    rw [hcall, mapOut_res_ok _ _ hr]
    rcases hf : f r with e | a
    · right; exact ⟨e, rfl, hpost r hlen e hf⟩
    · left; exact ⟨a, rfl⟩
  · rw [hcall, mapOut_sockOpen] at hopen
    obtain ⟨r, hr, -, -⟩ := exchangeFetch_open _ _ _ _ _ _ hopen
    rw [hcall, mapOut_res_ok _ _ hr]
    left; exact ⟨_, rfl⟩
  · subst hq; simp [call] at hopen
  · subst hsd
    rw [call_shutdown, swallowClose_sockOpen, mapOut_sockOpen] at hopen
    obtain ⟨r, hr, -, -, -⟩ := exchangeMisc_open _ _ _ _ _ hopen
    left; exact ⟨.none, by rw [call_shutdown]; exact swallowClose_res_ok _ (by rw [mapOut_res_ok _ _ hr])⟩

theorem call_clean (cfg : Cfg) (ie so : Bool) (c : Call) (sc : Script)
    (hwf : WellFramed cfg c sc.evs) (hopen : (call cfg ie so c sc).sockOpen = true) :
    Drained (call cfg ie so c sc).unread := by
  obtain ⟨hc, hm⟩ := hwf
  rcases shape cfg c with ⟨res, hcall⟩ | ⟨verb, cmds, nr, f, hcall, -, howed, -⟩ |
    ⟨cmds, nr, tok, f, hcall, -, howed, hlen, -⟩ | ⟨kind, cmd, wanted, g, hcall, howed⟩ | hq | ⟨gr, hsd⟩
  · have : owed cfg c = .nothing := by simp [owed, sends_of_silent hcall]
    rw [this] at hm
    rw [hcall]; exact ⟨hm, hc⟩
  · rw [hcall, mapOut_sockOpen] at hopen
    rw [hcall, mapOut_unread]
    refine exchangeStore_framed _ _ _ _ _ hc ?_ hopen
    rw [howed] at hm
    cases nr <;> exact hm
  · rw [hcall, mapOut_sockOpen] at hopen
    rw [hcall, mapOut_unread]
    refine exchangeMisc_framed _ _ _ _ _ hc ?_ hopen
    rw [howed] at hm
    cases nr with
    | true => exact hm
    | false =>
      cases tok with
      | none => exact hm
      | some t =>
        simp only [Bool.false_eq_true, if_false, owedMisc, Owed.Matches] at hm ⊢
        exact ⟨[joinData sc.evs], by simp [hlen], by simpa [MiscUnit] using hm, by simp⟩
  · rw [hcall, mapOut_sockOpen] at hopen
    rw [hcall, mapOut_unread]
    rw [howed] at hm
    exact exchangeFetch_framed _ _ _ _ _ _ hc hm hopen
  · subst hq; simp [call] at hopen
  · subst hsd
    rw [call_shutdown, swallowClose_sockOpen, mapOut_sockOpen] at hopen
    rw [call_shutdown, swallowClose_unread, mapOut_unread]
    rw [owed_shutdown] at hm
    exact exchangeMisc_framed _ _ _ _ _ hc hm hopen

theorem call_noreply (cfg : Cfg) (ie so : Bool) (c : Call) (sc : Script) (hn : owed cfg c = .nothing)
    (evs' : List Ev) :
    (call cfg ie so c sc).unread = sc.evs ∧
    call cfg ie so c { sc with evs := evs' } = { call cfg ie so c sc with unread := evs' } := by
  rcases shape cfg c with ⟨res, hcall⟩ | ⟨verb, cmds, nr, f, hcall, -, howed, -⟩ |
    ⟨cmds, nr, tok, f, hcall, -, howed, -, -⟩ | ⟨kind, cmd, wanted, g, hcall, howed⟩ | hq | ⟨gr, hsd⟩
  · simp [hcall]
  · cases nr with
    | false => simp [howed] at hn
    | true =>
      have := exchangeStore_noreply verb cmds so sc evs'
      simp only [hcall, mapOut_unread, this.1, this.2, mapOut_with_unread, and_self]
  · cases nr with
    | false => cases tok <;> simp [howed, owedMisc] at hn
    | true =>
      have := exchangeMisc_noreply cmds tok so sc evs'
      simp only [hcall, mapOut_unread, this.1, this.2, mapOut_with_unread, and_self]
  · simp [howed] at hn
  · subst hq
    have := exchangeMisc_noreply [quitCmd] none so sc evs'
    simp only [call, this.1, this.2, and_self]
  · subst hsd; simp [owed_shutdown] at hn

theorem call_not_sent (cfg : Cfg) (ie so : Bool) (c : Call) (sc : Script)
    (h : (call cfg ie so c sc).sent = none) :
    (call cfg ie so c sc).unread = sc.evs ∧ ((call cfg ie so c sc).sockOpen = true → so = true) := by
  rcases shape cfg c with ⟨res, hcall⟩ | ⟨verb, cmds, nr, f, hcall, -, -, -⟩ |
    ⟨cmds, nr, tok, f, hcall, -, -, -, -⟩ | ⟨kind, cmd, wanted, g, hcall, -⟩ | hq | ⟨gr, hsd⟩
  · simp [hcall]
  · rw [hcall, mapOut_sent] at h
    have := exchangeStore_not_sent _ _ _ _ _ h
    simp [hcall, this.1, this.2]
  · rw [hcall, mapOut_sent] at h
    have := exchangeMisc_not_sent _ _ _ _ _ h
    simp [hcall, this.1, this.2]
  · rw [hcall, mapOut_sent] at h
    have := exchangeFetch_not_sent _ _ _ _ _ _ h
    simp [hcall, this.1, this.2]
  · subst hq
    simp only [call] at h ⊢
    have := exchangeMisc_not_sent _ _ _ _ _ h
    simp [this.1]
  · subst hsd
    rw [call_shutdown, swallowClose_sent, mapOut_sent] at h
    have := exchangeMisc_not_sent _ _ _ _ _ h
    simp [call_shutdown, this.1, this.2]
end Client
