import Pymc.Proofs.HashInnerMany
import Pymc.Proofs.HashCallManyProj
/-!
# `HashClient ∘ <inner object>`: general calls (`get_many`, `set_many`, `delete_many`) refine the abstract failover model

The development of `Proofs/HashCallManyProj.lean` with the registered object as a parameter (`HashInner.Inner`), on top of
`Proofs/HashInnerProj.lean`: forgetting the registered objects (`St.proj`),

* one batch: `_safely_run_func` / `_safely_run_set_many` on the registered object is the abstract
  `Failover.safelyRunFunc` / `Failover.safelyRunSetMany` in any environment that gives the server the outcome of the
  invocation (`safelyRunFunc_proj_env`, `safelyRunSetManyG_proj`; the latter needs "no `BaseException` under
  `ignore_exc`");
* the first loop (`routeKeysG_proj`, `routeItemsG_proj`), the second loop (`runBatchesG_proj`), one call (`callGM_proj`),
  runs (`runGM_proj`), the contact log and the clock of the abstract history.

Nothing here looks inside `Inner.step`; the only hypotheses are `Cover` (an invariant) and `projOKG`.
-/
namespace HashInner
open Exchange Client Framing Failover
open HashCall (alookup_ainsert mem_ainsert removeServer_nodes markFailed_nodes addToBatch addToBatchKV batchCall updateRes
  keysOfRes MOp absSafelyRunFunc_congr absInvokeSetMany absSafelyRunSetMany_eq setManyInner_ok setManyInner_err
  absRunBatches_stop addNodes_nil keys_addToBatch keys_addToBatchKV routeKeys_cons_client routeKeys_cons_noClient runMany_inl
  run_single contactsOf_append chrono_append_const assignedOf run_cons chrono_mono)

variable {I : Inner}

/-! ## one batch -/

/-- `safelyRunFunc_proj` in any environment that gives `s` the outcome of the invocation -/
theorem safelyRunFunc_proj_env (ccfg : Wire.Cfg) (c : Cfg) (idx : Nat) (now fin : Time) (st : St I) (s : Srv) (x : Obj I)
    (call : Call) (sc : Script) (env : Srv → Outcome)
    (henv : env s = outcomeOfInner I (safelyRunFunc ccfg c idx now fin st s x call sc).2.2) :
    Failover.safelyRunFunc c now env st.fo s =
      ((safelyRunFunc ccfg c idx now fin st s x call sc).1.fo, absRes I c (safelyRunFunc ccfg c idx now fin st s x call sc).2.1,
        contactsOfInner I s now (safelyRunFunc ccfg c idx now fin st s x call sc).2.2) := by
  rw [← safelyRunFunc_proj]
  exact absSafelyRunFunc_congr c now _ _ st.fo s henv

/-- `return failed` (with the `pop` of the retry branch) in the abstract model -/
theorem finishSetMany_proj (c : Cfg) (st1 : St I) (s : Srv) (ob : I.Obs) (clear : Bool) (r : Res) (cs : List Contact) :
    (if clear then
      match aerase s st1.fo.failed with
      | none => (st1.fo, Result.internalError, cs)
      | some f => ({ st1.fo with failed := f }, Result.value, cs)
    else (st1.fo, Result.value, cs)) =
      ((finishSetMany st1 s ob clear r).1.fo, absRes I c (finishSetMany st1 s ob clear r).2.1, cs) := by
  unfold finishSetMany
  cases clear
  · simp [absRes]
  · simp only [if_true]
    cases aerase s st1.fo.failed <;> simp [absRes]

theorem clsOutcome_base_or {k : ExcClass} (h : k ≠ .base) : k = .oserror ∨ k = .other := by
  cases k
  · exact absurd rfl h
  · exact .inl rfl
  · exact .inr rfl

theorem invokeSetManyG_proj (ccfg : Wire.Cfg) (c : Cfg) (idx : Nat) (now fin : Time) (st : St I) (s : Srv) (x : Obj I)
    (call : Call) (sc : Script) (clear : Bool) (env : Srv → Outcome)
    (henv : env s = outcomeOfInner I (invokeSetManyG ccfg c idx now fin st s x call sc clear).2.2)
    (hok : ¬ (c.ignoreExc = true ∧ escapedBaseG I (invokeSetManyG ccfg c idx now fin st s x call sc clear).2.1 = true)) :
    absInvokeSetMany clear c now env st.fo s =
      ((invokeSetManyG ccfg c idx now fin st s x call sc clear).1.fo,
        absRes I c (invokeSetManyG ccfg c idx now fin st s x call sc clear).2.1,
        contactsOfInner I s now (invokeSetManyG ccfg c idx now fin st s x call sc clear).2.2) := by
  rw [(invokeSetManyG_fst ccfg c idx now fin st s x call sc clear).1] at henv ⊢
  simp only [outcomeOfInner, contactsOfInner] at henv ⊢
  unfold invokeSetManyG at hok ⊢
  simp only [contact_obs] at hok ⊢
  cases hres : I.res (I.step ccfg idx now fin x.st call sc).2 with
  | ok r =>
    rw [hres] at henv
    simp only [outcomeOf] at henv ⊢
    unfold absInvokeSetMany
    rw [setManyInner_ok c now env s henv]
    have h := finishSetMany_proj c (contact ccfg idx now fin st s x call sc).1 s (I.step ccfg idx now fin x.st call sc).2
      clear r [(s, now, Outcome.ok)]
    simp only [contact_fo] at h
    exact h
  | error e =>
    rw [hres] at henv hok
    simp only [outcomeOf] at henv hok ⊢
    unfold absInvokeSetMany
    rw [setManyInner_err c now env s _ henv (clsOutcome_ne_ok _)]
    by_cases hb : I.cls e = .base
    · simp only [hb, if_true] at hok ⊢
      have hi : c.ignoreExc = false := by
        cases hi : c.ignoreExc
        · rfl
        · exact absurd ⟨hi, by simp [escapedBaseG, hb]⟩ hok
      simp [hi, clsOutcome, Failover.onError, absRes, hb]
    · simp only [hb, if_false] at hok ⊢
      cases hi : c.ignoreExc
      · simp only [Bool.not_false, if_true, Bool.false_eq_true, if_false]
        have h := onError_proj c now (contact ccfg idx now fin st s x call sc).1 s e [(s, now, clsOutcome (I.cls e))]
        simp only [contact_fo] at h
        exact h
      · simp only [Bool.not_true, Bool.false_eq_true, if_false, if_true]
        have h := finishSetMany_proj c (contact ccfg idx now fin st s x call sc).1 s (I.step ccfg idx now fin x.st call sc).2
          clear (.keys []) [(s, now, clsOutcome (I.cls e))]
        simp only [contact_fo] at h
        exact h

theorem safelyRunSetManyG_proj (ccfg : Wire.Cfg) (c : Cfg) (idx : Nat) (now fin : Time) (st : St I) (s : Srv) (x : Obj I)
    (call : Call) (sc : Script) (env : Srv → Outcome)
    (henv : env s = outcomeOfInner I (safelyRunSetManyG ccfg c idx now fin st s x call sc).2.2)
    (hok : ¬ (c.ignoreExc = true ∧ escapedBaseG I (safelyRunSetManyG ccfg c idx now fin st s x call sc).2.1 = true)) :
    Failover.safelyRunSetMany c now env st.fo s =
      ((safelyRunSetManyG ccfg c idx now fin st s x call sc).1.fo,
        absRes I c (safelyRunSetManyG ccfg c idx now fin st s x call sc).2.1,
        contactsOfInner I s now (safelyRunSetManyG ccfg c idx now fin st s x call sc).2.2) := by
  rw [absSafelyRunSetMany_eq]
  unfold safelyRunSetManyG at henv hok ⊢
  cases hf : alookup s st.fo.failed with
  | none =>
    simp only [hf] at henv hok ⊢
    exact invokeSetManyG_proj ccfg c idx now fin st s x call sc false env henv hok
  | some p =>
    obtain ⟨attempts, failedTime⟩ := p
    simp only [hf] at henv hok ⊢
    by_cases h1 : attempts < c.ra
    · simp only [h1, if_true] at henv hok ⊢
      by_cases h2 : now - failedTime > c.rt
      · simp only [h2, if_true] at henv hok ⊢
        exact invokeSetManyG_proj ccfg c idx now fin st s x call sc true env henv hok
      · simp only [h2, if_false]; simp [absRes, contactsOfInner]
    · simp only [h1, if_false] at henv hok ⊢
      cases hrm : removeServer now st.fo s with
      | none => simp [absRes, contactsOfInner]
      | some fo' =>
        simp only [hrm] at henv hok ⊢
        exact invokeSetManyG_proj ccfg c idx now fin { st with fo := fo' } s x call sc false env henv hok

/-! ## nodes only leave the rotation -/

theorem invokeSetManyG_nodes (ccfg : Wire.Cfg) (c : Cfg) (idx : Nat) (now fin : Time) (st : St I) (s : Srv) (x : Obj I)
    (call : Call) (sc : Script) (clear : Bool) :
    ∀ y ∈ (invokeSetManyG ccfg c idx now fin st s x call sc clear).1.fo.nodes, y ∈ st.fo.nodes := by
  unfold invokeSetManyG
  simp only []
  cases I.res (contact ccfg idx now fin st s x call sc).2 with
  | ok r => exact (finishSetMany_fst _ s _ clear r).2.2.1
  | error e =>
    simp only []
    split
    · exact fun y hy => hy
    · split
      · exact (finishSetMany_fst _ s _ clear _).2.2.1
      · exact (onError_nodes c now _ s e).1

theorem safelyRunSetManyG_nodes (ccfg : Wire.Cfg) (c : Cfg) (idx : Nat) (now fin : Time) (st : St I) (s : Srv) (x : Obj I)
    (call : Call) (sc : Script) :
    ∀ y ∈ (safelyRunSetManyG ccfg c idx now fin st s x call sc).1.fo.nodes, y ∈ st.fo.nodes := by
  unfold safelyRunSetManyG
  split
  · split
    · split
      · exact invokeSetManyG_nodes ccfg c idx now fin st s x call sc true
      · exact fun y hy => hy
    · split
      · exact fun y hy => hy
      · rename_i fo' hrm
        intro y hy
        exact removeServer_nodes hrm y (invokeSetManyG_nodes ccfg c idx now fin { st with fo := fo' } s x call sc false y hy)
  · exact invokeSetManyG_nodes ccfg c idx now fin st s x call sc false

/-! ## the second loop -/

theorem contactsOfBatchesG_cons (now : Time) (bo : BObs I) (obs : List (BObs I)) :
    contactsOfBatchesG now (bo :: obs) = contactsOfInner I bo.server now bo.inner ++ contactsOfBatchesG now obs := by
  simp only [contactsOfBatchesG, List.flatMap_cons]
  cases bo.inner <;> rfl

theorem outcome_eq (bo : BObs I) : bo.outcome = outcomeOfInner I bo.inner := by
  unfold BObs.outcome outcomeOfInner
  cases bo.inner <;> rfl

/-- what the abstract second loop is to return for the observation of the composed one -/
def absBatchResG (c : Cfg) (r : HRes I.E) (obs : List (BObs I)) : Sum Result (List (Srv × Bool)) :=
  match r with
  | .value _ => .inr (obs.map fun bo => (bo.server, bo.served))
  | r => .inl (absRes I c r)

theorem absRes_stopsG (c : Cfg) (r : HRes I.E) (h1 : ∀ v, r ≠ .value v) (h2 : r ≠ .default)
    (hok : ¬ (c.ignoreExc = true ∧ escapedBaseG I r = true)) : absRes I c r ≠ .value ∧ absRes I c r ≠ .default := by
  cases r with
  | value v => exact absurd rfl (h1 v)
  | default => exact absurd rfl h2
  | raised s e =>
    simp only [absRes]
    by_cases h : (c.ignoreExc && decide (I.cls e = .base)) = true
    · simp only [Bool.and_eq_true] at h
      exact absurd ⟨h.1, by simpa [escapedBaseG] using h.2⟩ hok
    · simp only [h]
      exact ⟨(fun h => by cases h), (fun h => by cases h)⟩
  | allDown => exact ⟨(fun h => by cases h), (fun h => by cases h)⟩
  | illegalKey => exact ⟨(fun h => by cases h), (fun h => by cases h)⟩
  | internalError => exact ⟨(fun h => by cases h), (fun h => by cases h)⟩

/-- the loop stops at the first batch whose result is neither a value nor the default -/
theorem runBatchesG_stop {β γ : Type} (runOne : St I → Srv → Obj I → β → St I × HRes I.E × Option I.Obs)
    (onValue : γ → β → Res → γ) (onDefault : γ → β → γ) (fin : γ → Res) (st st1 : St I) (s : Srv) (b : β)
    (bs : List (Srv × β)) (acc : γ) (cl : Obj I) (r : HRes I.E) (o : Option I.Obs) (hl : alookup s st.clients = some cl)
    (hs : runOne st s cl b = (st1, r, o)) (h1 : ∀ v, r ≠ .value v) (h2 : r ≠ .default) :
    runBatchesG runOne onValue onDefault fin st ((s, b) :: bs) acc = (st1, r, [⟨s, o.map fun _ => cl.id, o, false⟩]) := by
  rw [runBatchesG_cons_some _ _ _ _ st s b bs acc cl hl, hs]
  cases r with
  | value v => exact absurd rfl (h1 v)
  | default => exact absurd rfl h2
  | raised s' e => rfl
  | allDown => rfl
  | illegalKey => rfl
  | internalError => rfl

/-- **the second loop of a multi-key call is the second loop of the abstract model**, in any environment that gives
every contacted server the outcome of its invocation, provided the loop was not ended by a `BaseException` under
`ignore_exc` -/
theorem runBatchesG_proj {β γ : Type} (c : Cfg) (now : Time)
    (runOne : St I → Srv → Obj I → β → St I × HRes I.E × Option I.Obs)
    (onValue : γ → β → Res → γ) (onDefault : γ → β → γ) (fin : γ → Res)
    (absOne : (Srv → Outcome) → State → Srv → State × Result × List Contact)
    (hone : ∀ env st s cl x, env s = outcomeOfInner I (runOne st s cl x).2.2 →
      ¬ (c.ignoreExc = true ∧ escapedBaseG I (runOne st s cl x).2.1 = true) →
      absOne env st.fo s =
        ((runOne st s cl x).1.fo, absRes I c (runOne st s cl x).2.1, contactsOfInner I s now (runOne st s cl x).2.2))
    (hkeep : ∀ st s cl x y, (∃ cl', alookup y st.clients = some cl') →
      ∃ cl', alookup y (runOne st s cl x).1.clients = some cl')
    (env : Srv → Outcome) (st : St I) (bs : List (Srv × β)) (acc : γ)
    (hcl : ∀ s ∈ keys bs, ∃ cl, alookup s st.clients = some cl)
    (henv : ∀ bo ∈ (runBatchesG runOne onValue onDefault fin st bs acc).2.2, env bo.server = bo.outcome)
    (hok : ¬ (c.ignoreExc = true ∧ escapedBaseG I (runBatchesG runOne onValue onDefault fin st bs acc).2.1 = true)) :
    Failover.runBatches (absOne env) st.fo (keys bs) =
      ((runBatchesG runOne onValue onDefault fin st bs acc).1.fo,
        absBatchResG c (runBatchesG runOne onValue onDefault fin st bs acc).2.1
          (runBatchesG runOne onValue onDefault fin st bs acc).2.2,
        contactsOfBatchesG now (runBatchesG runOne onValue onDefault fin st bs acc).2.2) := by
  induction bs generalizing st acc with
  | nil => simp [runBatchesG, Failover.runBatches, keys, absBatchResG, contactsOfBatchesG]
  | cons sx bs ih =>
    obtain ⟨s, x⟩ := sx
    obtain ⟨cl, hl⟩ := hcl s (by simp [keys])
    have hcl1 : ∀ y ∈ keys bs, ∃ cl', alookup y (runOne st s cl x).1.clients = some cl' :=
      fun y hy => hkeep st s cl x y (hcl y (by simp only [keys, List.map_cons, List.mem_cons] at hy ⊢; exact .inr hy))
    have h1 := hone env st s cl x
    have hkeys : keys ((s, x) :: bs) = s :: keys bs := rfl
    rw [hkeys]
    rcases hs : runOne st s cl x with ⟨st1, r, o⟩
    rw [hs] at h1 hcl1
    simp only [] at h1 hcl1
    -- the environment at `s` is the outcome of the head batch, whatever its result
    have hehead : ∀ (served : Bool) (rest : List (BObs I)),
        (∀ bo ∈ (⟨s, o.map fun _ => cl.id, o, served⟩ : BObs I) :: rest, env bo.server = bo.outcome) →
        env s = outcomeOfInner I o := by
      intro served rest h
      have := h ⟨s, o.map fun _ => cl.id, o, served⟩ (by simp)
      rw [outcome_eq] at this
      exact this
    by_cases hv : ∃ v, r = .value v
    · obtain ⟨v, rfl⟩ := hv
      rw [runBatchesG_cons_some _ _ _ _ st s x bs acc cl hl, hs] at henv hok ⊢
      simp only [] at henv hok ⊢
      have h1' := h1 (hehead true _ henv) (by simp [escapedBaseG])
      have hi := ih st1 (onValue acc x v) hcl1 (fun bo hbo => henv bo (by simp [hbo])) hok
      simp only [Failover.runBatches, h1', absRes]
      rw [hi, contactsOfBatchesG_cons]
      generalize runBatchesG runOne onValue onDefault fin st1 bs (onValue acc x v) = R
      obtain ⟨st2, res, obs⟩ := R
      cases res <;> simp [absBatchResG]
    · by_cases hd : r = .default
      · subst hd
        rw [runBatchesG_cons_some _ _ _ _ st s x bs acc cl hl, hs] at henv hok ⊢
        simp only [] at henv hok ⊢
        have h1' := h1 (hehead false _ henv) (by simp [escapedBaseG])
        have hi := ih st1 (onDefault acc x) hcl1 (fun bo hbo => henv bo (by simp [hbo])) hok
        simp only [Failover.runBatches, h1', absRes]
        rw [hi, contactsOfBatchesG_cons]
        generalize runBatchesG runOne onValue onDefault fin st1 bs (onDefault acc x) = R
        obtain ⟨st2, res, obs⟩ := R
        cases res <;> simp [absBatchResG]
      · have hnv : ∀ v, r ≠ .value v := fun v h => hv ⟨v, h⟩
        rw [runBatchesG_stop runOne onValue onDefault fin st st1 s x bs acc cl r o hl hs hnv hd] at henv hok ⊢
        simp only [] at henv hok ⊢
        have h1' := h1 (hehead false [] henv) hok
        obtain ⟨n1, n2⟩ := absRes_stopsG c r hnv hd hok
        rw [absRunBatches_stop (absOne env) st.fo st1.fo s (keys bs) _ _ h1' n1 n2]
        have hres : absBatchResG c r [(⟨s, o.map fun _ => cl.id, o, false⟩ : BObs I)] = .inl (absRes I c r) := by
          cases r with
          | value v => exact absurd rfl (hnv v)
          | default => exact absurd rfl hd
          | raised s' e => rfl
          | allDown => rfl
          | illegalKey => rfl
          | internalError => rfl
        rw [hres]
        simp only [contactsOfBatchesG, List.flatMap_cons, List.flatMap_nil, List.append_nil]
        cases o <;> rfl

/-! ## the first loop -/

/-- what the first loop of the abstract model is to return for the outcome of the composed one -/
def RouteAgreesG {β : Type} (c : Cfg) (A : State × Sum Result (List (Option Srv))) (st' : St I) (accKeys : List Srv)
    (res : Sum (HRes I.E) β) (ks : β → List Srv) : Prop :=
  match res with
  | .inl r => (∀ v, r ≠ .value v) ∧ (isIllegalKey r = false → A = (st'.fo, .inl (absRes I c r)))
  | .inr b' => ∃ assigned, A = (st'.fo, .inr assigned) ∧ ks b' = addNodes (assigned.filterMap id) accKeys ∧
      ∀ s ∈ ks b', ∃ cl, alookup s st'.clients = some cl

theorem routeKeysG_proj {RK : Type} (ccfg : Wire.Cfg) (c : Cfg) (route : List Srv → RK → Option Srv) (hlaw : RouteLaw route)
    (now : Time) (st : St I) (ks : List (RK × Key.K)) (b : List (Srv × List Key.K)) (hc : Cover st)
    (hb : ∀ s ∈ keys b, ∃ cl, alookup s st.clients = some cl) :
    Cover (routeKeysG ccfg c route now st ks b).1 ∧
    RouteAgreesG c (Failover.routeKeys c route now st.fo (ks.map (·.1))) (routeKeysG ccfg c route now st ks b).1 (keys b)
      (routeKeysG ccfg c route now st ks b).2 keys := by
  induction ks generalizing st b with
  | nil => exact ⟨hc, [], rfl, rfl, hb⟩
  | cons rkk ks ih =>
    obtain ⟨rk, k⟩ := rkk
    cases hk : Wire.checkKey ccfg k with
    | error e =>
      simp only [routeKeysG, hk]
      exact ⟨hc, (fun v h => by cases h), (fun h => by cases h)⟩
    | ok w =>
      obtain ⟨hg, hr, hcov, hcl⟩ := getClient_proj c route hlaw now st rk hc
      rcases hgc : getClient c route now st rk with ⟨st1, g⟩
      rw [hgc] at hg hr hcov hcl
      simp only [] at hg hr hcov hcl
      have hb1 : ∀ s ∈ keys b, ∃ cl, alookup s st1.clients = some cl := fun s hs => hr.keep s (hb s hs)
      cases g with
      | internalError =>
        simp only [routeKeysG, hk, hgc, List.map_cons]
        refine ⟨hcov, (fun v h => by cases h), fun _ => ?_⟩
        simp only [Failover.routeKeys, hg, Got.proj, absRes]
      | allDown =>
        simp only [routeKeysG, hk, hgc, List.map_cons]
        refine ⟨hcov, (fun v h => by cases h), fun _ => ?_⟩
        simp only [Failover.routeKeys, hg, Got.proj, absRes]
      | noClient =>
        simp only [routeKeysG, hk, hgc, List.map_cons]
        rw [routeKeys_cons_noClient c route now st.fo st1.fo rk _ hg]
        obtain ⟨h1, h2⟩ := ih st1 b hcov hb1
        refine ⟨h1, ?_⟩
        generalize routeKeysG ccfg c route now st1 ks b = R at h1 h2 ⊢
        obtain ⟨st2, r | b'⟩ := R
        · simp only [RouteAgreesG] at h2 ⊢
          refine ⟨h2.1, fun hill => ?_⟩
          rw [h2.2 hill]
        · simp only [RouteAgreesG] at h2 ⊢
          obtain ⟨assigned, ha, hkeys, hcls⟩ := h2
          exact ⟨none :: assigned, by rw [ha], by simpa using hkeys, hcls⟩
      | client s cl =>
        simp only [routeKeysG, hk, hgc, List.map_cons]
        have hb2 : ∀ y ∈ keys (addToBatch s k b), ∃ cl, alookup y st1.clients = some cl := by
          intro y hy
          rw [keys_addToBatch, addNode_mem] at hy
          rcases hy with rfl | hy
          · exact ⟨cl, hcl y cl rfl⟩
          · exact hb1 y hy
        rw [routeKeys_cons_client c route now st.fo st1.fo rk _ s hg]
        obtain ⟨h1, h2⟩ := ih st1 (addToBatch s k b) hcov hb2
        refine ⟨h1, ?_⟩
        generalize routeKeysG ccfg c route now st1 ks (addToBatch s k b) = R at h1 h2 ⊢
        obtain ⟨st2, r | b'⟩ := R
        · simp only [RouteAgreesG] at h2 ⊢
          refine ⟨h2.1, fun hill => ?_⟩
          rw [h2.2 hill]
        · simp only [RouteAgreesG] at h2 ⊢
          obtain ⟨assigned, ha, hkeys, hcls⟩ := h2
          refine ⟨some s :: assigned, by rw [ha], ?_, hcls⟩
          rw [hkeys, keys_addToBatch]
          rfl

theorem routeItemsG_proj {RK : Type} (ccfg : Wire.Cfg) (c : Cfg) (route : List Srv → RK → Option Srv) (hlaw : RouteLaw route)
    (now : Time) (st : St I) (items : List (RK × Key.K × Wire.Val)) (b : List (Srv × List (Key.K × Wire.Val))) (f : List Key.K)
    (hc : Cover st) (hb : ∀ s ∈ keys b, ∃ cl, alookup s st.clients = some cl) :
    Cover (routeItemsG ccfg c route now st items b f).1 ∧
    RouteAgreesG c (Failover.routeKeys c route now st.fo (items.map (·.1))) (routeItemsG ccfg c route now st items b f).1
      (keys b) (routeItemsG ccfg c route now st items b f).2 (fun x => keys x.1) := by
  induction items generalizing st b f with
  | nil => exact ⟨hc, [], rfl, rfl, hb⟩
  | cons x ks ih =>
    obtain ⟨rk, k, v⟩ := x
    cases hk : Wire.checkKey ccfg k with
    | error e =>
      simp only [routeItemsG, hk]
      exact ⟨hc, (fun v h => by cases h), (fun h => by cases h)⟩
    | ok w =>
      obtain ⟨hg, hr, hcov, hcl⟩ := getClient_proj c route hlaw now st rk hc
      rcases hgc : getClient c route now st rk with ⟨st1, g⟩
      rw [hgc] at hg hr hcov hcl
      simp only [] at hg hr hcov hcl
      have hb1 : ∀ s ∈ keys b, ∃ cl, alookup s st1.clients = some cl := fun s hs => hr.keep s (hb s hs)
      cases g with
      | internalError =>
        simp only [routeItemsG, hk, hgc, List.map_cons]
        refine ⟨hcov, (fun v h => by cases h), fun _ => ?_⟩
        simp only [Failover.routeKeys, hg, Got.proj, absRes]
      | allDown =>
        simp only [routeItemsG, hk, hgc, List.map_cons]
        refine ⟨hcov, (fun v h => by cases h), fun _ => ?_⟩
        simp only [Failover.routeKeys, hg, Got.proj, absRes]
      | noClient =>
        simp only [routeItemsG, hk, hgc, List.map_cons]
        rw [routeKeys_cons_noClient c route now st.fo st1.fo rk _ hg]
        obtain ⟨h1, h2⟩ := ih st1 b (f ++ [k]) hcov hb1
        refine ⟨h1, ?_⟩
        generalize routeItemsG ccfg c route now st1 ks b (f ++ [k]) = R at h1 h2 ⊢
        obtain ⟨st2, r | b'⟩ := R
        · simp only [RouteAgreesG] at h2 ⊢
          refine ⟨h2.1, fun hill => ?_⟩
          rw [h2.2 hill]
        · simp only [RouteAgreesG] at h2 ⊢
          obtain ⟨assigned, ha, hkeys, hcls⟩ := h2
          exact ⟨none :: assigned, by rw [ha], by simpa using hkeys, hcls⟩
      | client s cl =>
        simp only [routeItemsG, hk, hgc, List.map_cons]
        have hb2 : ∀ y ∈ keys (addToBatchKV s k v b), ∃ cl, alookup y st1.clients = some cl := by
          intro y hy
          rw [keys_addToBatchKV, addNode_mem] at hy
          rcases hy with rfl | hy
          · exact ⟨cl, hcl y cl rfl⟩
          · exact hb1 y hy
        rw [routeKeys_cons_client c route now st.fo st1.fo rk _ s hg]
        obtain ⟨h1, h2⟩ := ih st1 (addToBatchKV s k v b) f hcov hb2
        refine ⟨h1, ?_⟩
        generalize routeItemsG ccfg c route now st1 ks (addToBatchKV s k v b) f = R at h1 h2 ⊢
        obtain ⟨st2, r | b'⟩ := R
        · simp only [RouteAgreesG] at h2 ⊢
          refine ⟨h2.1, fun hill => ?_⟩
          rw [h2.2 hill]
        · simp only [RouteAgreesG] at h2 ⊢
          obtain ⟨assigned, ha, hkeys, hcls⟩ := h2
          refine ⟨some s :: assigned, by rw [ha], ?_, hcls⟩
          rw [hkeys, keys_addToBatchKV]
          rfl

/-! ## the environment read off the observation -/

theorem runBatchesG_servers {β γ : Type} (runOne : St I → Srv → Obj I → β → St I × HRes I.E × Option I.Obs)
    (onValue : γ → β → Res → γ) (onDefault : γ → β → γ) (fin : γ → Res) (st : St I) (bs : List (Srv × β)) (acc : γ) :
    ((runBatchesG runOne onValue onDefault fin st bs acc).2.2.map (·.server)).Sublist (keys bs) := by
  induction bs generalizing st acc with
  | nil => simp [runBatchesG, keys]
  | cons sx bs ih =>
    obtain ⟨s, x⟩ := sx
    have hk : keys ((s, x) :: bs) = s :: keys bs := rfl
    rw [hk]
    cases hl : alookup s st.clients with
    | none => simp [runBatchesG, hl]
    | some cl =>
      rw [runBatchesG_cons_some _ _ _ _ st s x bs acc cl hl]
      rcases runOne st s cl x with ⟨st1, r, o⟩
      cases r with
      | value v => simp only [List.map_cons]; exact (ih st1 _).cons_cons s
      | default => simp only [List.map_cons]; exact (ih st1 _).cons_cons s
      | raised s' e => simp
      | allDown => simp
      | illegalKey => simp
      | internalError => simp

theorem envOfBatchesG_mem (obs : List (BObs I)) (hnd : (obs.map (·.server)).Nodup) :
    ∀ bo ∈ obs, envOfBatchesG obs bo.server = bo.outcome := by
  induction obs with
  | nil => intro bo h; simp at h
  | cons b r ih =>
    intro bo hbo
    simp only [List.map_cons, List.nodup_cons] at hnd
    rcases List.mem_cons.mp hbo with h | h
    · subst h
      simp [envOfBatchesG]
    · have hne : (b.server == bo.server) = false := by
        have : b.server ≠ bo.server := fun e => hnd.1 (e ▸ List.mem_map_of_mem h)
        simpa using this
      have := ih hnd.2 bo h
      unfold envOfBatchesG at this ⊢
      rw [List.find?_cons]
      simp only [hne]
      exact this

/-! ## `Cover` through the second loop -/

theorem runBatchesG_cover {β γ : Type} (runOne : St I → Srv → Obj I → β → St I × HRes I.E × Option I.Obs)
    (onValue : γ → β → Res → γ) (onDefault : γ → β → γ) (fin : γ → Res)
    (hnodes : ∀ st s cl x, ∀ y ∈ (runOne st s cl x).1.fo.nodes, y ∈ st.fo.nodes)
    (hkeep : ∀ st s cl x y, (∃ cl', alookup y st.clients = some cl') →
      ∃ cl', alookup y (runOne st s cl x).1.clients = some cl')
    (st : St I) (bs : List (Srv × β)) (acc : γ) (hc : Cover st) :
    Cover (runBatchesG runOne onValue onDefault fin st bs acc).1 := by
  induction bs generalizing st acc with
  | nil => exact hc
  | cons sx bs ih =>
    obtain ⟨s, x⟩ := sx
    cases hl : alookup s st.clients with
    | none => simp only [runBatchesG, hl]; exact hc
    | some cl =>
      rw [runBatchesG_cons_some _ _ _ _ st s x bs acc cl hl]
      have hc1 : Cover (runOne st s cl x).1 := fun y hy => hkeep st s cl x y (hc y (hnodes st s cl x y hy))
      rcases hs : runOne st s cl x with ⟨st1, r, o⟩
      rw [hs] at hc1
      cases r with
      | value v => exact ih st1 _ hc1
      | default => exact ih st1 _ hc1
      | raised s' e => exact hc1
      | allDown => exact hc1
      | illegalKey => exact hc1
      | internalError => exact hc1

/-! ## both loops -/

theorem absResManyG_of_not_value (c : Cfg) (assigned : List (Option Srv)) (r : HRes I.E) (obs : List (BObs I))
    (h : ∀ v, r ≠ .value v) : absResManyG c assigned { res := r, batches := obs } = absRes I c r := by
  unfold absResManyG
  cases r <;> first | rfl | exact absurd rfl (h _)

/-- the multi-key operation of the abstract model when the first loop handed over to the second -/
theorem runMany_inrG {RK β γ : Type} (c : Cfg) (route : List Srv → RK → Option Srv) (now : Time)
    (runOne : St I → Srv → Obj I → β → St I × HRes I.E × Option I.Obs)
    (onValue : γ → β → Res → γ) (onDefault : γ → β → γ) (fin : γ → Res)
    (absOne : (Srv → Outcome) → State → Srv → State × Result × List Contact)
    (hone : ∀ env st s cl x, env s = outcomeOfInner I (runOne st s cl x).2.2 →
      ¬ (c.ignoreExc = true ∧ escapedBaseG I (runOne st s cl x).2.1 = true) →
      absOne env st.fo s =
        ((runOne st s cl x).1.fo, absRes I c (runOne st s cl x).2.1, contactsOfInner I s now (runOne st s cl x).2.2))
    (hkeep : ∀ st s cl x y, (∃ cl', alookup y st.clients = some cl') →
      ∃ cl', alookup y (runOne st s cl x).1.clients = some cl')
    (fo : State) (st1 : St I) (rks : List RK) (assigned : List (Option Srv)) (bs : List (Srv × β)) (acc : γ)
    (hA : Failover.routeKeys c route now fo rks = (st1.fo, .inr assigned))
    (hkeys : keys bs = addNodes (assigned.filterMap id) [])
    (hcl : ∀ s ∈ keys bs, ∃ cl, alookup s st1.clients = some cl)
    (hok : ¬ (c.ignoreExc = true ∧ escapedBaseG I (runBatchesG runOne onValue onDefault fin st1 bs acc).2.1 = true)) :
    Failover.runMany c route now (absOne (envOfBatchesG (runBatchesG runOne onValue onDefault fin st1 bs acc).2.2)) fo rks =
      ((runBatchesG runOne onValue onDefault fin st1 bs acc).1.fo,
        absResManyG c (assignedOf c route now fo rks)
          { res := (runBatchesG runOne onValue onDefault fin st1 bs acc).2.1,
            batches := (runBatchesG runOne onValue onDefault fin st1 bs acc).2.2 },
        contactsOfBatchesG now (runBatchesG runOne onValue onDefault fin st1 bs acc).2.2) := by
  have hnd : ((runBatchesG runOne onValue onDefault fin st1 bs acc).2.2.map (·.server)).Nodup := by
    refine (runBatchesG_servers runOne onValue onDefault fin st1 bs acc).nodup ?_
    rw [hkeys, addNodes_nil]
    exact dedup_nodup _
  have hp := runBatchesG_proj c now runOne onValue onDefault fin absOne hone hkeep
    (envOfBatchesG (runBatchesG runOne onValue onDefault fin st1 bs acc).2.2) st1 bs acc hcl
    (envOfBatchesG_mem _ hnd) hok
  have hass : assignedOf c route now fo rks = assigned := by simp only [assignedOf, hA]
  rw [hkeys, addNodes_nil] at hp
  simp only [Failover.runMany, hA, hp, hass]
  generalize runBatchesG runOne onValue onDefault fin st1 bs acc = R
  obtain ⟨st2, r, obs⟩ := R
  cases r with
  | value v => simp [absBatchResG, absResManyG]
  | default => simp [absBatchResG, absResManyG]
  | raised s e => simp [absBatchResG, absResManyG]
  | allDown => simp [absBatchResG, absResManyG]
  | illegalKey => simp [absBatchResG, absResManyG]
  | internalError => simp [absBatchResG, absResManyG]

/-! ## `get_many` -/

theorem getManyG_cover {RK : Type} (ccfg : Wire.Cfg) (c : Cfg) (route : List Srv → RK → Option Srv) (hlaw : RouteLaw route)
    (st : St I) (idx : Nat) (now fin : Time) (gets : Bool) (ks : List (RK × Key.K)) (scripts : Srv → Script) (hc : Cover st) :
    Cover (getManyG ccfg c route st idx now fin gets ks scripts).1 := by
  obtain ⟨h1, -⟩ := routeKeysG_proj ccfg c route hlaw now st ks [] hc (fun s hs => by simp [keys] at hs)
  unfold getManyG
  rcases hr : routeKeysG ccfg c route now st ks [] with ⟨st1, r | b⟩
  · rw [hr] at h1; exact h1
  · rw [hr] at h1
    exact runBatchesG_cover _ _ _ _ (fun st s cl x => safelyRunFunc_nodes ccfg c idx now fin st s cl _ _)
      (fun st s cl x => (safelyRunFunc_touches ccfg c idx now fin st s cl _ _).keeps) st1 b _ h1

/-- **`get_many` / `gets_many` of the composed model is `get_many` of the abstract model** in the environment read off
the observation, unless `check_key_helper` ended the call or — under `ignore_exc` — a `BaseException` did -/
theorem getManyG_proj {RK : Type} (ccfg : Wire.Cfg) (c : Cfg) (route : List Srv → RK → Option Srv) (hlaw : RouteLaw route)
    (st : St I) (idx : Nat) (now fin : Time) (gets : Bool) (ks : List (RK × Key.K)) (scripts : Srv → Script) (hc : Cover st)
    (hill : isIllegalKey (getManyG ccfg c route st idx now fin gets ks scripts).2.res = false)
    (hok : ¬ (c.ignoreExc = true ∧ escapedBaseG I (getManyG ccfg c route st idx now fin gets ks scripts).2.res = true)) :
    Failover.stepOp c route st.proj
        { now := now, env := envOfBatchesG (getManyG ccfg c route st idx now fin gets ks scripts).2.batches,
          op := .getMany (ks.map (·.1)) } =
      ((getManyG ccfg c route st idx now fin gets ks scripts).1.proj,
        absResManyG c (assignedOf c route now st.fo (ks.map (·.1))) (getManyG ccfg c route st idx now fin gets ks scripts).2,
        contactsOfBatchesG now (getManyG ccfg c route st idx now fin gets ks scripts).2.batches) := by
  obtain ⟨-, h2⟩ := routeKeysG_proj ccfg c route hlaw now st ks [] hc (fun s hs => by simp [keys] at hs)
  simp only [Failover.stepOp, Failover.getMany, St.proj]
  unfold getManyG at hill hok ⊢
  rcases hr : routeKeysG ccfg c route now st ks [] with ⟨st1, r | b⟩
  · rw [hr] at h2
    simp only [hr] at hill hok ⊢
    simp only [RouteAgreesG] at h2
    rw [runMany_inl c route now _ st.fo st1.fo _ _ (h2.2 hill)]
    rw [absResManyG_of_not_value c _ r [] h2.1]
    rfl
  · rw [hr] at h2
    simp only [hr, runGetBatchesG] at hill hok ⊢
    simp only [RouteAgreesG] at h2
    obtain ⟨assigned, hA, hkeys, hcl⟩ := h2
    exact runMany_inrG c route now _ _ _ _ (fun env => Failover.safelyRunFunc c now env)
      (fun env st s cl x he _ => safelyRunFunc_proj_env ccfg c idx now fin st s cl _ _ env he)
      (fun st s cl x => (safelyRunFunc_touches ccfg c idx now fin st s cl _ _).keeps) st.fo st1 _ assigned b _ hA hkeys hcl hok

/-! ## `set_many` -/

theorem setManyG_cover {RK : Type} (ccfg : Wire.Cfg) (c : Cfg) (route : List Srv → RK → Option Srv) (hlaw : RouteLaw route)
    (st : St I) (idx : Nat) (now fin : Time) (items : List (RK × Key.K × Wire.Val)) (expire : Wire.IntArg)
    (noreply : Option Bool) (flags : Option Int) (scripts : Srv → List (Key.K × Wire.Val) → Script) (hc : Cover st) :
    Cover (setManyG ccfg c route st idx now fin items expire noreply flags scripts).1 := by
  obtain ⟨h1, -⟩ := routeItemsG_proj ccfg c route hlaw now st items [] [] hc (fun s hs => by simp [keys] at hs)
  unfold setManyG
  rcases hr : routeItemsG ccfg c route now st items [] [] with ⟨st1, r | ⟨b, f⟩⟩
  · rw [hr] at h1; exact h1
  · rw [hr] at h1
    exact runBatchesG_cover _ _ _ _ (fun st s cl x => safelyRunSetManyG_nodes ccfg c idx now fin st s cl _ _)
      (fun st s cl x => (safelyRunSetManyG_touches ccfg c idx now fin st s cl _ _).keeps) st1 b _ h1

/-- **`set_many` of the composed model is `set_many` of the abstract model** in the environment read off the
observation, under the same hypothesis -/
theorem setManyG_proj {RK : Type} (ccfg : Wire.Cfg) (c : Cfg) (route : List Srv → RK → Option Srv) (hlaw : RouteLaw route)
    (st : St I) (idx : Nat) (now fin : Time) (items : List (RK × Key.K × Wire.Val)) (expire : Wire.IntArg)
    (noreply : Option Bool) (flags : Option Int) (scripts : Srv → List (Key.K × Wire.Val) → Script) (hc : Cover st)
    (hill : isIllegalKey (setManyG ccfg c route st idx now fin items expire noreply flags scripts).2.res = false)
    (hok : ¬ (c.ignoreExc = true ∧
      escapedBaseG I (setManyG ccfg c route st idx now fin items expire noreply flags scripts).2.res = true)) :
    Failover.stepOp c route st.proj
        { now := now, env := envOfBatchesG (setManyG ccfg c route st idx now fin items expire noreply flags scripts).2.batches,
          op := .setMany (items.map (·.1)) } =
      ((setManyG ccfg c route st idx now fin items expire noreply flags scripts).1.proj,
        absResManyG c (assignedOf c route now st.fo (items.map (·.1)))
          (setManyG ccfg c route st idx now fin items expire noreply flags scripts).2,
        contactsOfBatchesG now (setManyG ccfg c route st idx now fin items expire noreply flags scripts).2.batches) := by
  obtain ⟨-, h2⟩ := routeItemsG_proj ccfg c route hlaw now st items [] [] hc (fun s hs => by simp [keys] at hs)
  simp only [Failover.stepOp, Failover.setMany, St.proj]
  unfold setManyG at hill hok ⊢
  rcases hr : routeItemsG ccfg c route now st items [] [] with ⟨st1, r | ⟨b, f⟩⟩
  · rw [hr] at h2
    simp only [hr] at hill hok ⊢
    simp only [RouteAgreesG] at h2
    rw [runMany_inl c route now _ st.fo st1.fo _ _ (h2.2 hill)]
    rw [absResManyG_of_not_value c _ r [] h2.1]
    rfl
  · rw [hr] at h2
    simp only [hr, runSetBatchesG] at hill hok ⊢
    simp only [RouteAgreesG] at h2
    obtain ⟨assigned, hA, hkeys, hcl⟩ := h2
    exact runMany_inrG c route now _ _ _ _ (fun env => Failover.safelyRunSetMany c now env)
      (fun env st s cl x he hk => safelyRunSetManyG_proj ccfg c idx now fin st s cl _ _ env he hk)
      (fun st s cl x => (safelyRunSetManyG_touches ccfg c idx now fin st s cl _ _).keeps) st.fo st1 _ assigned b _ hA hkeys hcl hok

/-! ## `delete_many` -/

theorem eventsOf_nil_right {Key : Type} (calls : List (GCall Key)) : eventsOf (I := I) calls [] = [] := by
  cases calls <;> rfl

theorem absOuts_nil_right {Key : Type} (c : Cfg) (calls : List (GCall Key)) : absOuts (I := I) c calls [] = [] := by
  cases calls <;> rfl

theorem eventsOf_cons_append {Key : Type} (gc : GCall Key) (rest : List (GCall Key)) (ob : HObs I) (obs : List (HObs I)) :
    eventsOf (gc :: rest) (ob :: obs) = eventsOf [gc] [ob] ++ eventsOf rest obs := by
  simp [eventsOf]

theorem absOuts_cons_append {Key : Type} (c : Cfg) (gc : GCall Key) (rest : List (GCall Key)) (ob : HObs I)
    (obs : List (HObs I)) : absOuts c (gc :: rest) (ob :: obs) = absOuts c [gc] [ob] ++ absOuts c rest obs := by
  simp [absOuts]

/-- one single-key call, whatever its tag, is the run of the abstract model over its (at most one) event -/
theorem callG_run1 {Key : Type} (ccfg : Wire.Cfg) (c : Cfg) (route : List Srv → Key → Option Srv) (hlaw : RouteLaw route)
    (st : St I) (idx : Nat) (gc : GCall Key) (hcov : Cover st) :
    Failover.run c route st.proj (eventsOf [gc] [(callG ccfg c route st idx gc.now gc.fin gc.rk gc.call gc.sc).2]) =
      ((callG ccfg c route st idx gc.now gc.fin gc.rk gc.call gc.sc).1.proj,
        absOuts c [gc] [(callG ccfg c route st idx gc.now gc.fin gc.rk gc.call gc.sc).2]) ∧
    Cover (callG ccfg c route st idx gc.now gc.fin gc.rk gc.call gc.sc).1 :=
  runG_proj ccfg c route hlaw st idx [gc] hcov

theorem deleteLoopG_proj {RK : Type} (ccfg : Wire.Cfg) (c : Cfg) (route : List Srv → RK → Option Srv) (hlaw : RouteLaw route)
    (idx : Nat) (now fin : Time) (noreply : Option Bool) (st : St I) (ks : List (RK × Key.K × Script)) (hcov : Cover st) :
    Failover.run c route st.proj
        (eventsOf (gcallsOfDelete now fin noreply ks) (deleteLoopG ccfg c route idx now fin noreply st ks).2) =
      ((deleteLoopG ccfg c route idx now fin noreply st ks).1.proj,
        absOuts c (gcallsOfDelete now fin noreply ks) (deleteLoopG ccfg c route idx now fin noreply st ks).2) ∧
    Cover (deleteLoopG ccfg c route idx now fin noreply st ks).1 := by
  induction ks generalizing st with
  | nil => exact ⟨rfl, hcov⟩
  | cons x rest ih =>
    obtain ⟨rk, k, sc⟩ := x
    have hcalls : gcallsOfDelete now fin noreply ((rk, k, sc) :: rest) =
        { rk := rk, call := .delete k noreply, sc := sc, now := now, fin := fin } :: gcallsOfDelete now fin noreply rest := rfl
    obtain ⟨h1, h2⟩ := callG_run1 ccfg c route hlaw st idx
      { rk := rk, call := .delete k noreply, sc := sc, now := now, fin := fin } hcov
    simp only [] at h1 h2
    rw [hcalls]
    simp only [deleteLoopG]
    rcases hco : callG ccfg c route st idx now fin rk (.delete k noreply) sc with ⟨st1, ob⟩
    rw [hco] at h1 h2
    simp only [] at h1 h2 ⊢
    split
    · rw [eventsOf_cons_append, absOuts_cons_append, eventsOf_nil_right, absOuts_nil_right, List.append_nil,
        List.append_nil]
      exact ⟨h1, h2⟩
    · obtain ⟨h3, h4⟩ := ih st1 h2
      refine ⟨?_, h4⟩
      rw [eventsOf_cons_append, absOuts_cons_append, run_append, h1]
      simp only []
      rw [h3]

/-! ## one general call, runs -/

theorem cover_callGM {RK : Type} (ccfg : Wire.Cfg) (c : Cfg) (route : List Srv → RK → Option Srv) (hlaw : RouteLaw route)
    (st : St I) (idx : Nat) (mc : GMCall RK) (hcov : Cover st) : Cover (callGM ccfg c route st idx mc).1 := by
  obtain ⟨op, now, fin⟩ := mc
  cases op with
  | cmd rk call sc => exact cover_callG ccfg c route hlaw st idx now fin rk call sc hcov
  | getMany gets ks scripts => exact getManyG_cover ccfg c route hlaw st idx now fin gets ks scripts hcov
  | setMany items expire noreply flags scripts =>
    exact setManyG_cover ccfg c route hlaw st idx now fin items expire noreply flags scripts hcov
  | deleteMany ks noreply => exact (deleteLoopG_proj ccfg c route hlaw idx now fin noreply st ks hcov).2

theorem projOK_manyG {c : Cfg} {r : HRes I.E} (h : (!isIllegalKey r && !(c.ignoreExc && escapedBaseG I r)) = true) :
    isIllegalKey r = false ∧ ¬ (c.ignoreExc = true ∧ escapedBaseG I r = true) := by
  simp only [Bool.and_eq_true, Bool.not_eq_true', Bool.and_eq_false_iff] at h
  refine ⟨h.1, fun ⟨h1, h2⟩ => ?_⟩
  rcases h.2 with h3 | h3
  · rw [h1] at h3; cases h3
  · rw [h2] at h3; cases h3

/-- **one general call of the composed model is the run of the abstract model over the events it gives rise to**
(`absOfCallG`), under the hypothesis `projOKG` -/
theorem callGM_proj {RK : Type} (ccfg : Wire.Cfg) (c : Cfg) (route : List Srv → RK → Option Srv) (hlaw : RouteLaw route)
    (st : St I) (idx : Nat) (mc : GMCall RK) (hcov : Cover st) (hok : projOKG c mc (callGM ccfg c route st idx mc).2 = true) :
    Failover.run c route st.proj (absOfCallG ccfg c route st idx mc).1 =
      ((callGM ccfg c route st idx mc).1.proj, (absOfCallG ccfg c route st idx mc).2) := by
  obtain ⟨op, now, fin⟩ := mc
  cases op with
  | cmd rk call sc =>
    exact (callG_run1 ccfg c route hlaw st idx { rk := rk, call := call, sc := sc, now := now, fin := fin } hcov).1
  | getMany gets ks scripts =>
    obtain ⟨hill, hb⟩ := projOK_manyG (r := (getManyG ccfg c route st idx now fin gets ks scripts).2.res) hok
    simp only [absOfCallG, callGM]
    rw [run_single, getManyG_proj ccfg c route hlaw st idx now fin gets ks scripts hcov hill hb]
  | setMany items expire noreply flags scripts =>
    obtain ⟨hill, hb⟩ := projOK_manyG (r := (setManyG ccfg c route st idx now fin items expire noreply flags scripts).2.res) hok
    simp only [absOfCallG, callGM]
    rw [run_single, setManyG_proj ccfg c route hlaw st idx now fin items expire noreply flags scripts hcov hill hb]
  | deleteMany ks noreply => exact (deleteLoopG_proj ccfg c route hlaw idx now fin noreply st ks hcov).1

theorem allProjOKG_cons {RK : Type} (c : Cfg) (mc : GMCall RK) (rest : List (GMCall RK)) (ob : GMObs I) (obs : List (GMObs I)) :
    allProjOKG c (mc :: rest) (ob :: obs) = (projOKG c mc ob && allProjOKG c rest obs) := rfl

/-- **a general composed run is a run of the abstract failover model** over `absOfRunG`, provided every call satisfies
`projOKG`; and `Cover` is preserved -/
theorem runGM_proj {RK : Type} (ccfg : Wire.Cfg) (c : Cfg) (route : List Srv → RK → Option Srv) (hlaw : RouteLaw route)
    (st : St I) (k : Nat) (calls : List (GMCall RK)) (hcov : Cover st)
    (hok : allProjOKG c calls (runGM ccfg c route st k calls).2 = true) :
    Failover.run c route st.proj (absOfRunG ccfg c route st k calls).1 =
      ((runGM ccfg c route st k calls).1.proj, (absOfRunG ccfg c route st k calls).2) := by
  induction calls generalizing st k with
  | nil => rfl
  | cons mc rest ih =>
    rw [runGM_cons, allProjOKG_cons, Bool.and_eq_true] at hok
    have h1 := callGM_proj ccfg c route hlaw st k mc hcov hok.1
    have h2 := ih (callGM ccfg c route st k mc).1 (k + 1) (cover_callGM ccfg c route hlaw st k mc hcov) hok.2
    rw [runGM_cons]
    simp only [absOfRunG]
    rw [run_append, h1]
    simp only []
    rw [h2]

theorem cover_runGM {RK : Type} (ccfg : Wire.Cfg) (c : Cfg) (route : List Srv → RK → Option Srv) (hlaw : RouteLaw route)
    (st : St I) (k : Nat) (calls : List (GMCall RK)) (hcov : Cover st) : Cover (runGM ccfg c route st k calls).1 := by
  induction calls generalizing st k with
  | nil => exact hcov
  | cons mc rest ih =>
    rw [runGM_cons]
    exact ih _ _ (cover_callGM ccfg c route hlaw st k mc hcov)

/-! ## the contact log, the clock and the operations of the abstract history of a general run -/

theorem contactsOfBatchesG_append (now : Time) (a b : List (BObs I)) :
    contactsOfBatchesG now (a ++ b) = contactsOfBatchesG now a ++ contactsOfBatchesG now b := by
  simp [contactsOfBatchesG]

theorem contactsOfBatchesG_single (now : Time) (ob : HObs I) :
    contactsOfBatchesG now (batchOfObsG ob).toList = contactsOfObs now ob := by
  unfold batchOfObsG contactsOfObs
  cases ob.server with
  | none => rfl
  | some s => cases ob.inner <;> simp [contactsOfBatchesG]

/-- the contacts of the abstract output of one single-key call are the contacts of the call -/
theorem contactsOf_absOuts_singleG {Key : Type} (ccfg : Wire.Cfg) (c : Cfg) (route : List Srv → Key → Option Srv) (st : St I)
    (idx : Nat) (gc : GCall Key) :
    contactsOf (absOuts c [gc] [(callG ccfg c route st idx gc.now gc.fin gc.rk gc.call gc.sc).2]) =
      contactsOfObs gc.now (callG ccfg c route st idx gc.now gc.fin gc.rk gc.call gc.sc).2 := by
  have h := runG_contactLog ccfg c route st idx [gc]
  have hrun : (runG ccfg c route st idx [gc]).2 = [(callG ccfg c route st idx gc.now gc.fin gc.rk gc.call gc.sc).2] := rfl
  rw [hrun] at h
  rw [h]
  simp [contactLog]

theorem deleteLoopG_contacts {RK : Type} (ccfg : Wire.Cfg) (c : Cfg) (route : List Srv → RK → Option Srv) (idx : Nat)
    (now fin : Time) (noreply : Option Bool) (st : St I) (ks : List (RK × Key.K × Script)) :
    contactsOf (absOuts c (gcallsOfDelete now fin noreply ks) (deleteLoopG ccfg c route idx now fin noreply st ks).2) =
      contactsOfBatchesG now ((deleteLoopG ccfg c route idx now fin noreply st ks).2.filterMap batchOfObsG) := by
  induction ks generalizing st with
  | nil => rfl
  | cons x rest ih =>
    obtain ⟨rk, k, sc⟩ := x
    have hcalls : gcallsOfDelete now fin noreply ((rk, k, sc) :: rest) =
        { rk := rk, call := .delete k noreply, sc := sc, now := now, fin := fin } :: gcallsOfDelete now fin noreply rest := rfl
    have h1 := contactsOf_absOuts_singleG ccfg c route st idx
      { rk := rk, call := .delete k noreply, sc := sc, now := now, fin := fin }
    simp only [] at h1
    rw [hcalls]
    simp only [deleteLoopG]
    rcases hco : callG ccfg c route st idx now fin rk (.delete k noreply) sc with ⟨st1, ob⟩
    rw [hco] at h1
    simp only [] at h1 ⊢
    have hfm : ∀ l : List (HObs I), (ob :: l).filterMap batchOfObsG = (batchOfObsG ob).toList ++ l.filterMap batchOfObsG := by
      intro l
      cases hb : batchOfObsG ob <;> simp [hb]
    split
    · rw [absOuts_cons_append, absOuts_nil_right, List.append_nil, h1, hfm, contactsOfBatchesG_append,
        contactsOfBatchesG_single]
      simp [contactsOfBatchesG]
    · rw [absOuts_cons_append, contactsOf_append, h1, ih st1, hfm, contactsOfBatchesG_append, contactsOfBatchesG_single]

theorem contactsOf_absOfCallG {RK : Type} (ccfg : Wire.Cfg) (c : Cfg) (route : List Srv → RK → Option Srv) (st : St I)
    (idx : Nat) (mc : GMCall RK) :
    contactsOf (absOfCallG ccfg c route st idx mc).2 = contactsOfBatchesG mc.now (callGM ccfg c route st idx mc).2.batches := by
  obtain ⟨op, now, fin⟩ := mc
  cases op with
  | cmd rk call sc =>
    have h1 := contactsOf_absOuts_singleG ccfg c route st idx { rk := rk, call := call, sc := sc, now := now, fin := fin }
    simp only [absOfCallG, callGM]
    simp only [] at h1
    rw [h1, ← contactsOfBatchesG_single]
  | getMany gets ks scripts => simp [absOfCallG, callGM, contactsOf]
  | setMany items expire noreply flags scripts => simp [absOfCallG, callGM, contactsOf]
  | deleteMany ks noreply => exact deleteLoopG_contacts ccfg c route idx now fin noreply st ks

/-- the contact log of the abstract run is the contact log of the composed run -/
theorem contactsOf_absOfRunG {RK : Type} (ccfg : Wire.Cfg) (c : Cfg) (route : List Srv → RK → Option Srv) (st : St I) (k : Nat)
    (calls : List (GMCall RK)) :
    contactsOf (absOfRunG ccfg c route st k calls).2 = contactLogGM calls (runGM ccfg c route st k calls).2 := by
  induction calls generalizing st k with
  | nil => rfl
  | cons mc rest ih =>
    rw [runGM_cons]
    simp only [absOfRunG, contactLogGM]
    rw [contactsOf_append, contactsOf_absOfCallG, ih]

theorem eventsOf_now_constG {Key : Type} (now : Time) (gcs : List (GCall Key)) (obs : List (HObs I))
    (h : ∀ gc ∈ gcs, gc.now = now) : ∀ e ∈ eventsOf gcs obs, e.now = now := by
  induction gcs generalizing obs with
  | nil => cases obs <;> simp [eventsOf]
  | cons gc rest ih =>
    cases obs with
    | nil => simp [eventsOf]
    | cons ob obs =>
      rw [eventsOf_cons]
      intro e he
      rcases List.mem_append.mp he with he | he
      · unfold eventOf at he
        cases hill : isIllegalKey ob.res
        · simp only [hill, Bool.false_eq_true, if_false, List.mem_singleton] at he
          subst he
          exact h gc (by simp)
        · simp [hill] at he
      · exact ih obs (fun x hx => h x (by simp [hx])) e he

theorem absOfCallG_now {RK : Type} (ccfg : Wire.Cfg) (c : Cfg) (route : List Srv → RK → Option Srv) (st : St I) (idx : Nat)
    (mc : GMCall RK) : ∀ e ∈ (absOfCallG ccfg c route st idx mc).1, e.now = mc.now := by
  obtain ⟨op, now, fin⟩ := mc
  cases op with
  | cmd rk call sc =>
    exact eventsOf_now_constG now _ _ (fun gc h => by simp only [List.mem_singleton] at h; subst h; rfl)
  | getMany gets ks scripts => intro e he; simp only [absOfCallG, List.mem_singleton] at he; subst he; rfl
  | setMany items expire noreply flags scripts => intro e he; simp only [absOfCallG, List.mem_singleton] at he; subst he; rfl
  | deleteMany ks noreply =>
    refine eventsOf_now_constG now _ _ (fun gc h => ?_)
    simp only [gcallsOfDelete, List.mem_map] at h
    obtain ⟨x, -, rfl⟩ := h
    rfl

theorem chrono_absOfRunG {RK : Type} (ccfg : Wire.Cfg) (c : Cfg) (route : List Srv → RK → Option Srv) (st : St I) (k : Nat)
    (t0 : Time) (calls : List (GMCall RK)) (h : ChronoGM t0 calls) : Chrono t0 (absOfRunG ccfg c route st k calls).1 := by
  induction calls generalizing st k t0 with
  | nil => trivial
  | cons mc rest ih =>
    simp only [absOfRunG]
    exact chrono_append_const _ _ (absOfCallG_now ccfg c route st k mc) h.1 (ih _ _ mc.now h.2)

theorem absOfRunG_noSetMany {RK : Type} (ccfg : Wire.Cfg) (c : Cfg) (route : List Srv → RK → Option Srv) (st : St I) (k : Nat)
    (calls : List (GMCall RK)) (h : ∀ mc ∈ calls, mc.op.isSetMany = false) :
    ∀ e ∈ (absOfRunG ccfg c route st k calls).1, e.op.isSetMany = false := by
  induction calls generalizing st k with
  | nil => intro e he; simp [absOfRunG] at he
  | cons mc rest ih =>
    intro e he
    simp only [absOfRunG] at he
    rcases List.mem_append.mp he with he | he
    · have hm := h mc (by simp)
      obtain ⟨op, now, fin⟩ := mc
      cases op with
      | cmd rk call sc => exact eventsOf_runCmd _ _ e he
      | getMany gets ks scripts => simp only [absOfCallG, List.mem_singleton] at he; subst he; rfl
      | setMany items expire noreply flags scripts => cases hm
      | deleteMany ks noreply => exact eventsOf_runCmd _ _ e he
    · exact ih _ _ (fun x hx => h x (by simp [hx])) e he

/-! ## a call that ends in `internalError` shows up in the abstract outputs -/

theorem deleteLoopG_length {RK : Type} (ccfg : Wire.Cfg) (c : Cfg) (route : List Srv → RK → Option Srv) (idx : Nat)
    (now fin : Time) (noreply : Option Bool) (st : St I) (ks : List (RK × Key.K × Script)) :
    (deleteLoopG ccfg c route idx now fin noreply st ks).2.length ≤ ks.length := by
  induction ks generalizing st with
  | nil => simp [deleteLoopG]
  | cons x rest ih =>
    obtain ⟨rk, k, sc⟩ := x
    simp only [deleteLoopG]
    rcases callG ccfg c route st idx now fin rk (.delete k noreply) sc with ⟨st1, ob⟩
    simp only []
    split
    · simp
    · simp only [List.length_cons]
      exact Nat.succ_le_succ (ih st1)

/-- if a general call ends in `internalError`, the abstract outputs read off its observation contain `internalError` -/
theorem callGM_internal_mem {RK : Type} (ccfg : Wire.Cfg) (c : Cfg) (route : List Srv → RK → Option Srv) (st : St I)
    (idx : Nat) (mc : GMCall RK) (h : (callGM ccfg c route st idx mc).2.res = .internalError) :
    ∃ cs, (Result.internalError, cs) ∈ (absOfCallG ccfg c route st idx mc).2 := by
  obtain ⟨op, now, fin⟩ := mc
  cases op with
  | cmd rk call sc =>
    simp only [callGM] at h
    simp only [absOfCallG, absOuts]
    rw [h]
    exact ⟨contactsOfObs now (callG ccfg c route st idx now fin rk call sc).2, by simp [isIllegalKey, absRes]⟩
  | getMany gets ks scripts =>
    simp only [callGM] at h
    simp only [absOfCallG]
    refine ⟨contactsOfBatchesG now (getManyG ccfg c route st idx now fin gets ks scripts).2.batches, List.mem_singleton.mpr ?_⟩
    simp only [absResManyG, h, absRes]
  | setMany items expire noreply flags scripts =>
    simp only [callGM] at h
    simp only [absOfCallG]
    refine ⟨contactsOfBatchesG now (setManyG ccfg c route st idx now fin items expire noreply flags scripts).2.batches,
      List.mem_singleton.mpr ?_⟩
    simp only [absResManyG, h, absRes]
  | deleteMany ks noreply =>
    simp only [callGM, deleteManyG] at h
    simp only [absOfCallG]
    cases hf : (deleteLoopG ccfg c route idx now fin noreply st ks).2.find? (fun ob => raisesG ob.res) with
    | none => rw [hf] at h; cases h
    | some ob =>
      rw [hf] at h
      simp only [] at h
      have hmem := List.mem_of_find?_eq_some hf
      obtain ⟨j, hj⟩ := List.getElem?_of_mem hmem
      have hlt : j < (gcallsOfDelete now fin noreply ks).length := by
        have h1 := (List.getElem?_eq_some_iff.mp hj).1
        have h2 := deleteLoopG_length ccfg c route idx now fin noreply st ks
        simp only [gcallsOfDelete, List.length_map]
        omega
      have := mem_absOuts c (gcallsOfDelete now fin noreply ks) (deleteLoopG ccfg c route idx now fin noreply st ks).2 j
        (gcallsOfDelete now fin noreply ks)[j] ob (List.getElem?_eq_getElem hlt) hj (by rw [h]; rfl)
      rw [h] at this
      exact ⟨_, this⟩

theorem allProjOKG_getElem {RK : Type} (c : Cfg) (calls : List (GMCall RK)) (obs : List (GMObs I)) (i : Nat) (mc : GMCall RK)
    (ob : GMObs I) (h : allProjOKG c calls obs = true) (h1 : calls[i]? = some mc) (h2 : obs[i]? = some ob) :
    projOKG c mc ob = true := by
  induction calls generalizing obs i with
  | nil => simp at h1
  | cons mc' rest ih =>
    cases obs with
    | nil => simp at h2
    | cons ob' obs =>
      rw [allProjOKG_cons, Bool.and_eq_true] at h
      cases i with
      | zero =>
        simp only [List.getElem?_cons_zero, Option.some.injEq] at h1 h2
        subst h1; subst h2
        exact h.1
      | succ i =>
        simp only [List.getElem?_cons_succ] at h1 h2
        exact ih obs i h.2 h1 h2

theorem allProjOKG_take {RK : Type} (c : Cfg) (calls : List (GMCall RK)) (obs : List (GMObs I)) (n : Nat)
    (h : allProjOKG c calls obs = true) : allProjOKG c (calls.take n) (obs.take n) = true := by
  induction calls generalizing obs n with
  | nil => simp [allProjOKG]
  | cons mc rest ih =>
    cases obs with
    | nil => cases n <;> simp [allProjOKG]
    | cons ob obs =>
      cases n with
      | zero => simp [allProjOKG]
      | succ n =>
        rw [allProjOKG_cons, Bool.and_eq_true] at h
        simp only [List.take_succ_cons, allProjOKG_cons, Bool.and_eq_true]
        exact ⟨h.1, ih obs n h.2⟩

/-- in a general run every call of which satisfies `projOKG`, the abstract outputs of call number `i` are among the outputs
of the abstract run, from the same start, over the abstract history of the first `i + 1` calls -/
theorem absOfCallG_mem_run {RK : Type} (ccfg : Wire.Cfg) (c : Cfg) (route : List Srv → RK → Option Srv) (hlaw : RouteLaw route)
    (st : St I) (calls : List (GMCall RK)) (hcov : Cover st)
    (hok : allProjOKG c calls (runGM ccfg c route st 0 calls).2 = true) (i : Nat) (mc : GMCall RK) (hmc : calls[i]? = some mc) :
    ∀ out ∈ (absOfCallG ccfg c route (runGM ccfg c route st 0 (calls.take i)).1 i mc).2,
      out ∈ (Failover.run c route st.proj
        ((absOfRunG ccfg c route st 0 (calls.take i)).1 ++
          (absOfCallG ccfg c route (runGM ccfg c route st 0 (calls.take i)).1 i mc).1)).2 := by
  intro out hout
  have hlt : i < calls.length := (List.getElem?_eq_some_iff.mp hmc).1
  have hoki : allProjOKG c (calls.take i) (runGM ccfg c route st 0 (calls.take i)).2 = true := by
    rw [runGM_take]
    exact allProjOKG_take c calls _ i hok
  have hpre := runGM_proj ccfg c route hlaw st 0 (calls.take i) hcov hoki
  obtain ⟨-, h2⟩ := runGM_split ccfg c route st 0 calls i mc hmc
  rw [Nat.zero_add] at h2
  have hoki' := allProjOKG_getElem c calls _ i mc _ hok hmc h2
  have hcall := callGM_proj ccfg c route hlaw (runGM ccfg c route st 0 (calls.take i)).1 i mc
    (cover_runGM ccfg c route hlaw st 0 (calls.take i) hcov) hoki'
  rw [run_append, hpre]
  simp only []
  rw [hcall]
  exact List.mem_append_right _ hout

/-- the abstract outputs of one call: one entry per event -/
theorem absOfCallG_lengths {RK : Type} (ccfg : Wire.Cfg) (c : Cfg) (route : List Srv → RK → Option Srv) (st : St I)
    (idx : Nat) (mc : GMCall RK) (hcov : Cover st) (hlaw : RouteLaw route)
    (hok : projOKG c mc (callGM ccfg c route st idx mc).2 = true) :
    (absOfCallG ccfg c route st idx mc).2 = (Failover.run c route st.proj (absOfCallG ccfg c route st idx mc).1).2 := by
  rw [callGM_proj ccfg c route hlaw st idx mc hcov hok]
end HashInner
