import Pymc.Proofs.ReadersSegment
/-! Helper lemmas for C03: interrupted system calls (`eintr` events) are invisible, and facts about
the pre-fix `_readsegment`. -/
namespace Readers
open Bytes

/-- apply `f` to the unread-events component of a reader result -/
def mapUnread (f : List Ev → List Ev) (r : Except Err (Bytes × Bytes × List Ev)) :
    Except Err (Bytes × Bytes × List Ev) :=
  r.map fun x => (x.1, x.2.1, f x.2.2)

@[simp] theorem mapUnread_ok (f : List Ev → List Ev) (a b : Bytes) (e : List Ev) :
    mapUnread f (.ok (a, b, e)) = .ok (a, b, f e) := rfl
@[simp] theorem mapUnread_error (f : List Ev → List Ev) (x : Err) :
    mapUnread f (.error x) = .error x := rfl

/-- `fun e => e ≠ .eintr` in a form that `simp` leaves alone -/
def notEintr : Ev → Bool
  | .eintr => false
  | _ => true

theorem notEintr_eq : (fun e : Ev => decide (e ≠ .eintr)) = notEintr := by
  funext e; cases e <;> simp [notEintr]

@[simp] theorem filter_data (b : Bytes) (r : List Ev) :
    (Ev.data b :: r).filter notEintr = .data b :: r.filter notEintr := rfl
@[simp] theorem filter_err (c : Nat) (r : List Ev) :
    (Ev.err c :: r).filter notEintr = .err c :: r.filter notEintr := rfl
@[simp] theorem filter_eintr (r : List Ev) :
    (Ev.eintr :: r).filter notEintr = r.filter notEintr := rfl

theorem joinData_filter (evs : List Ev) : joinData (evs.filter notEintr) = joinData evs := by
  induction evs with
  | nil => rfl
  | cons e r ih => cases e <;> simp [joinData, notEintr, ih]

theorem clean_filter {evs : List Ev} (h : clean evs) : clean (evs.filter notEintr) := by
  induction evs with
  | nil => simp [clean]
  | cons e r ih =>
    cases e with
    | data b => simp [clean] at h ⊢; exact ⟨h.1, ih h.2⟩
    | eintr => simp [clean] at h ⊢; exact ih h
    | err c => simp [clean] at h

/-- an interrupted `recv` only moves `buf` into the accumulator -/
theorem readline_shift (acc buf : Bytes) (evs : List Ev)
    (hc : ¬(acc.getLast? = some CR ∧ buf.head? = some LF)) (hn : findCRLF buf = none) :
    readline acc buf evs = readline (acc ++ buf) [] evs := by
  conv => lhs; rw [readline.eq_def]
  conv => rhs; rw [readline.eq_def]
  simp [hc, hn, findCRLF]

theorem readline_filter (acc buf : Bytes) (evs : List Ev) :
    readline acc buf (evs.filter notEintr) =
      mapUnread (List.filter notEintr) (readline acc buf evs) := by
  fun_induction readline acc buf evs with
  | case1 acc buf evs hc => rw [readline.eq_def]; simp [hc]
  | case2 acc buf evs hc p hp => rw [readline.eq_def]; simp [hc, hp]
  | case3 acc buf hc hn => rw [readline.eq_def]; simp [hc, hn]
  | case4 acc buf hc hn r => rw [readline.eq_def]; simp [hc, hn]
  | case5 acc buf hc hn b r hb ih =>
    rw [← ih]
    conv => lhs; rw [readline.eq_def]
    simp [hc, hn]
  | case6 acc buf hc hn r ih =>
    rw [← ih]
    simp [readline_shift acc buf _ hc hn]
  | case7 acc buf hc hn c r => rw [readline.eq_def]; simp [hc, hn]

/-- an interrupted `recv` only moves `buf` into the accumulator -/
theorem readvalueLoop_shift (acc buf : Bytes) (rlen : Int) (evs : List Ev)
    (hgt : rlen - buf.length > 0) :
    readvalueLoop acc buf rlen evs = readvalueLoop (acc ++ buf) [] (rlen - buf.length) evs := by
  conv => lhs; rw [readvalueLoop.eq_def]
  conv => rhs; rw [readvalueLoop.eq_def]
  have hgt' := hgt
  simp only [gt_iff_lt, Int.sub_pos] at hgt'
  simp [hgt']

theorem readvalueLoop_filter (acc buf : Bytes) (rlen : Int) (evs : List Ev) :
    readvalueLoop acc buf rlen (evs.filter notEintr) =
      mapUnread (List.filter notEintr) (readvalueLoop acc buf rlen evs) := by
  fun_induction readvalueLoop acc buf rlen evs with
  | case1 acc buf rlen hgt => simp only [gt_iff_lt, Int.sub_pos] at hgt; rw [readvalueLoop.eq_def]; simp [hgt]
  | case2 acc buf rlen hgt r => simp only [gt_iff_lt, Int.sub_pos] at hgt; rw [readvalueLoop.eq_def]; simp [hgt]
  | case3 acc buf rlen hgt acc' rlen' b r hb ih =>
    rw [← ih]
    conv => lhs; rw [readvalueLoop.eq_def]
    simp only [gt_iff_lt, Int.sub_pos] at hgt
    simp [hgt, acc', rlen']
  | case4 acc buf rlen hgt acc' rlen' r ih =>
    rw [← ih]
    simp [readvalueLoop_shift acc buf rlen _ hgt, acc', rlen']
  | case5 acc buf rlen hgt c r => simp only [gt_iff_lt, Int.sub_pos] at hgt; rw [readvalueLoop.eq_def]; simp [hgt]
  | case6 buf evs hgt => rw [readvalueLoop.eq_def, if_neg hgt]; simp
  | case7 acc buf evs hne hgt => rw [readvalueLoop.eq_def, if_neg hgt]; simp [hne]
  | case8 acc buf rlen evs hgt hne1 => rw [readvalueLoop.eq_def, if_neg hgt]; simp [hne1]

theorem readsegment_filter (tok buf : Bytes) (evs : List Ev) :
    readsegment tok buf (evs.filter notEintr) =
      mapUnread (List.filter notEintr) (readsegment tok buf evs) := by
  fun_induction readsegment tok buf evs with
  | case1 buf evs p hp => rw [readsegment.eq_def]; simp [hp]
  | case2 buf hn => rw [readsegment.eq_def]; simp [hn]
  | case3 buf hn r => rw [readsegment.eq_def]; simp [hn]
  | case4 buf hn b r hb ih =>
    rw [← ih]
    conv => lhs; rw [readsegment.eq_def]
    simp [hn]
  | case5 buf hn r ih => rw [← ih]; simp
  | case6 buf hn c r => rw [readsegment.eq_def]; simp [hn]

/-! ## the pre-fix `_readsegment` -/

/-- if the end token is already in `buf`, nothing is received and old and new code coincide -/
theorem readsegmentOrig_eq_of_found (tok buf : Bytes) (evs : List Ev) (p : Nat)
    (h : findSub tok buf = some p) :
    readsegmentOrig tok buf evs = readsegment tok buf evs := by
  rw [readsegmentOrig.eq_def, readsegment.eq_def]; simp [h]

/-- without any received piece old and new code coincide -/
theorem readsegmentOrig_nil (tok buf : Bytes) :
    readsegmentOrig tok buf [] = readsegment tok buf [] := by
  rw [readsegmentOrig.eq_def, readsegment.eq_def]

/-- starting from an empty buffer, old and new code agree as long as only eintr's precede … -/
theorem readsegmentOrig_nil_buf_single (tok b : Bytes) (ht : tok ≠ []) :
    readsegmentOrig tok [] [.data b] = readsegment tok [] [.data b] := by
  have hn : findSub tok [] = none := by simp [findSub, ht]
  rw [readsegmentOrig.eq_def, readsegment.eq_def]
  cases b with
  | nil => simp [hn]
  | cons x xs => simp [hn, readsegmentOrig_nil]

end Readers
