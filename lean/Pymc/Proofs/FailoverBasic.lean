import Pymc.Model.Failover
/-! Helper lemmas for C13: association lists, well-formedness of the bookkeeping state. -/
namespace Failover

variable {β : Type}

theorem amem_eq_true_iff (k : Srv) (l : List (Srv × β)) : amem k l = true ↔ ∃ v, alookup k l = some v := by
  simp [amem, Option.isSome_iff_exists]

theorem amem_eq_false_iff (k : Srv) (l : List (Srv × β)) : amem k l = false ↔ alookup k l = none := by
  simp [amem]

theorem alookup_map_replace_self (k : Srv) (v : β) (l : List (Srv × β)) (h : amem k l = true) :
    alookup k (l.map (fun p => if p.1 = k then (k, v) else p)) = some v := by
  induction l with
  | nil => simp [amem, alookup] at h
  | cons p r ih =>
    obtain ⟨k', v'⟩ := p
    by_cases hk : k' = k
    · simp [alookup, hk]
    · have : amem k r = true := by simpa [amem, alookup, hk] using h
      simp [alookup, hk, ih this]

theorem alookup_map_replace_ne (k k' : Srv) (v : β) (l : List (Srv × β)) (hne : k' ≠ k) :
    alookup k' (l.map (fun p => if p.1 = k then (k, v) else p)) = alookup k' l := by
  induction l with
  | nil => rfl
  | cons p r ih =>
    obtain ⟨k'', v'⟩ := p
    by_cases hk : k'' = k
    · subst hk
      have : ¬ k'' = k' := fun h => hne h.symm
      simp [alookup, this, ih]
    · simp only [List.map_cons, hk, if_false, alookup, ih]

theorem alookup_append (k : Srv) (l₁ l₂ : List (Srv × β)) :
    alookup k (l₁ ++ l₂) = (alookup k l₁).or (alookup k l₂) := by
  induction l₁ with
  | nil => simp [alookup]
  | cons p r ih =>
    obtain ⟨k', v'⟩ := p
    by_cases hk : k' = k <;> simp [alookup, hk, ih]

theorem alookup_ainsert_self (k : Srv) (v : β) (l : List (Srv × β)) : alookup k (ainsert k v l) = some v := by
  unfold ainsert
  split
  · rename_i h; exact alookup_map_replace_self k v l h
  · rename_i h
    have : alookup k l = none := by simpa [amem] using h
    simp [alookup_append, this, alookup]

theorem alookup_ainsert_ne (k k' : Srv) (v : β) (l : List (Srv × β)) (hne : k' ≠ k) :
    alookup k' (ainsert k v l) = alookup k' l := by
  unfold ainsert
  split
  · exact alookup_map_replace_ne k k' v l hne
  · have : ¬ k = k' := fun h => hne h.symm
    simp [alookup_append, alookup, this]

theorem alookup_filter_self (k : Srv) (l : List (Srv × β)) : alookup k (l.filter (fun p => p.1 != k)) = none := by
  induction l with
  | nil => rfl
  | cons p r ih =>
    obtain ⟨k', v'⟩ := p
    by_cases hk : k' = k <;> simp [alookup, hk, ih]

theorem alookup_filter_ne (k k' : Srv) (l : List (Srv × β)) (hne : k' ≠ k) :
    alookup k' (l.filter (fun p => p.1 != k)) = alookup k' l := by
  induction l with
  | nil => rfl
  | cons p r ih =>
    obtain ⟨k'', v'⟩ := p
    by_cases hk : k'' = k
    · subst hk
      have : ¬ k'' = k' := fun h => hne h.symm
      simp [alookup, this, ih]
    · by_cases hk2 : k'' = k'
      · subst hk2; simp [alookup, hk]
      · simp [alookup, hk, hk2, ih]

theorem aerase_eq_some {k : Srv} {l l' : List (Srv × β)} (h : aerase k l = some l') :
    (∃ v, alookup k l = some v) ∧ l' = l.filter (fun p => p.1 != k) := by
  unfold aerase at h
  split at h
  · rename_i hm; simp at h; exact ⟨(amem_eq_true_iff k l).1 hm, h.symm⟩
  · simp at h

theorem aerase_eq_none {k : Srv} {l : List (Srv × β)} (h : aerase k l = none) : alookup k l = none := by
  unfold aerase at h
  split at h
  · simp at h
  · rename_i hm; simpa [amem] using hm

theorem aerase_of_lookup {k : Srv} {l : List (Srv × β)} {v : β} (h : alookup k l = some v) :
    aerase k l = some (l.filter (fun p => p.1 != k)) := by
  simp [aerase, amem, h]

/-! keys -/
def keys (l : List (Srv × β)) : List Srv := l.map Prod.fst

theorem mem_keys_iff (k : Srv) (l : List (Srv × β)) : k ∈ keys l ↔ ∃ v, alookup k l = some v := by
  induction l with
  | nil => simp [keys, alookup]
  | cons p r ih =>
    obtain ⟨k', v'⟩ := p
    by_cases hk : k' = k
    · simp [keys, alookup, hk]
    · have hk' : ¬ k = k' := fun h => hk h.symm
      simp only [keys] at ih
      simp [keys, alookup, hk, hk', ih]

theorem mem_of_alookup {k : Srv} {v : β} {l : List (Srv × β)} (h : alookup k l = some v) : (k, v) ∈ l := by
  induction l with
  | nil => simp [alookup] at h
  | cons p r ih =>
    obtain ⟨k', v'⟩ := p
    by_cases hk : k' = k
    · simp [alookup, hk] at h; subst hk h; simp
    · simp [alookup, hk] at h; exact List.mem_cons_of_mem _ (ih h)

theorem alookup_of_mem_nodup {k : Srv} {v : β} {l : List (Srv × β)} (hn : (keys l).Nodup) (h : (k, v) ∈ l) :
    alookup k l = some v := by
  induction l with
  | nil => simp at h
  | cons p r ih =>
    obtain ⟨k', v'⟩ := p
    simp [keys] at hn
    by_cases hk : k' = k
    · subst hk
      simp at h
      rcases h with h | h
      · simp [alookup, h]
      · exact absurd h (hn.1 v)
    · simp at h
      have hk' : ¬ k = k' := fun h => hk h.symm
      simp [alookup, hk]
      exact ih (by simpa [keys] using hn.2) (by simpa [hk'] using h)

theorem keys_filter_nodup (k : Srv) (l : List (Srv × β)) (hn : (keys l).Nodup) :
    (keys (l.filter (fun p => p.1 != k))).Nodup := by
  unfold keys at *
  exact (List.filter_sublist.map _).nodup hn

theorem keys_ainsert (k : Srv) (v : β) (l : List (Srv × β)) :
    keys (ainsert k v l) = if amem k l then keys l else keys l ++ [k] := by
  unfold ainsert
  split
  · simp only [keys, List.map_map]
    apply List.map_congr_left
    intro p _
    by_cases h : p.1 = k <;> simp [h]
  · simp [keys]

theorem keys_ainsert_nodup (k : Srv) (v : β) (l : List (Srv × β)) (hn : (keys l).Nodup) :
    (keys (ainsert k v l)).Nodup := by
  rw [keys_ainsert]
  split
  · exact hn
  · rename_i h
    have : k ∉ keys l := by
      rw [mem_keys_iff]; intro ⟨v, hv⟩; simp [amem, hv] at h
    exact List.nodup_append.2 ⟨hn, by simp, by intro a ha b hb; simp at hb; subst hb; intro e; subst e; exact this ha⟩

theorem alookup_filter (q : Srv → Bool) (x : Srv) (l : List (Srv × β)) :
    alookup x (l.filter (fun p => q p.1)) = if q x then alookup x l else none := by
  induction l with
  | nil => simp [alookup]
  | cons p r ih =>
    obtain ⟨k', v'⟩ := p
    by_cases hk : k' = x
    · subst hk
      by_cases hq : q k' <;> simp [alookup, hq, ih]
    · by_cases hq : q k' <;> simp [alookup, hq, hk, ih]

theorem filter_map_replace (k : Srv) (v : β) (l : List (Srv × β)) :
    (l.map (fun p => if p.1 = k then (k, v) else p)).filter (fun p => p.1 != k) =
      l.filter (fun p => p.1 != k) := by
  induction l with
  | nil => rfl
  | cons p r ih =>
    by_cases h : p.1 = k <;> simp [h] <;> simpa using ih

theorem filter_ainsert_self (k : Srv) (v : β) (l : List (Srv × β)) :
    (ainsert k v l).filter (fun p => p.1 != k) = l.filter (fun p => p.1 != k) := by
  unfold ainsert
  split
  · exact filter_map_replace k v l
  · simp

/-! ### closed forms of the helpers under their preconditions -/

/-- the state after a successful `remove_server(s)` -/
def evict (now : Time) (st : State) (s : Srv) : State :=
  { nodes := st.nodes.erase s
    failed := st.failed.filter (fun p => p.1 != s)
    dead := ainsert s now st.dead
    lastDeadCheck := st.lastDeadCheck }

theorem removeServer_eq {now : Time} {st : State} {s : Srv} {v : Nat × Time}
    (hf : alookup s st.failed = some v) (hn : s ∈ st.nodes) :
    removeServer now st s = some (evict now st s) := by
  simp [removeServer, aerase_of_lookup hf, removeNode, hn, evict]

theorem markFailed_fresh_pos {c : Cfg} {now : Time} {st : State} {s : Srv}
    (hf : alookup s st.failed = none) (hra : c.ra > 0) :
    markFailed c now st s = some { st with failed := ainsert s (0, now) st.failed } := by
  simp [markFailed, amem, hf, hra]

theorem markFailed_fresh_zero {c : Cfg} {now : Time} {st : State} {s : Srv}
    (hf : alookup s st.failed = none) (hra : c.ra = 0) (hn : s ∈ st.nodes) :
    markFailed c now st s = some (evict now st s) := by
  have h1 : alookup s (ainsert s (0, now) st.failed) = some (0, now) := alookup_ainsert_self _ _ _
  simp only [markFailed, amem, hf, hra]
  simp
  rw [removeServer_eq (st := { st with failed := ainsert s (0, now) st.failed }) h1 hn]
  simp [filter_ainsert_self, evict]

theorem markFailed_again {c : Cfg} {now : Time} {st : State} {s : Srv} {a : Nat} {ft : Time}
    (hf : alookup s st.failed = some (a, ft)) :
    markFailed c now st s = some { st with failed := ainsert s (a + 1, now) st.failed } := by
  simp [markFailed, amem, hf]

theorem addNode_mem (s x : Srv) (ns : List Srv) : x ∈ addNode s ns ↔ x = s ∨ x ∈ ns := by
  unfold addNode; split <;> simp <;> grind

theorem addNode_nodup (s : Srv) (ns : List Srv) (h : ns.Nodup) : (addNode s ns).Nodup := by
  unfold addNode; split
  · exact h
  · rename_i hs
    exact List.nodup_append.2 ⟨h, by simp, by intro a ha b hb; simp at hb; subst hb; intro e; subst e; exact hs ha⟩

def addNodes (cands : List Srv) (ns : List Srv) : List Srv := cands.foldl (fun ns s => addNode s ns) ns

theorem addNodes_mem (cands : List Srv) (x : Srv) (ns : List Srv) : x ∈ addNodes cands ns ↔ x ∈ cands ∨ x ∈ ns := by
  induction cands generalizing ns with
  | nil => simp [addNodes]
  | cons c r ih =>
    simp only [addNodes, List.foldl_cons] at ih ⊢
    rw [ih, addNode_mem]; simp; grind

theorem addNodes_nodup (cands : List Srv) (ns : List Srv) (h : ns.Nodup) : (addNodes cands ns).Nodup := by
  induction cands generalizing ns with
  | nil => simpa [addNodes]
  | cons c r ih =>
    simp only [addNodes, List.foldl_cons] at ih ⊢
    exact ih _ (addNode_nodup c ns h)

/-- the state after a firing `_retry_dead()` that revives `cands` -/
def revived (ldc : Time) (st : State) (cands : List Srv) : State :=
  { nodes := addNodes cands st.nodes
    failed := st.failed
    dead := st.dead.filter (fun p => !cands.contains p.1)
    lastDeadCheck := ldc }

theorem reviveAll_eq (cands : List Srv) (st : State) (hnd : cands.Nodup)
    (hm : ∀ s ∈ cands, ∃ v, alookup s st.dead = some v) :
    reviveAll cands st = some (revived st.lastDeadCheck st cands) := by
  induction cands generalizing st with
  | nil =>
    cases st; simp only [reviveAll, revived, addNodes, List.foldl_nil, List.contains_nil, Bool.not_false]
    congr; symm; exact List.filter_eq_self.2 (fun _ _ => rfl)
  | cons c r ih =>
    obtain ⟨v, hv⟩ := hm c (by simp)
    simp only [reviveAll, aerase_of_lookup hv]
    have hnd' := List.nodup_cons.1 hnd
    rw [ih _ hnd'.2]
    · simp only [revived, addNodes, List.foldl_cons, List.filter_filter]
      congr 2
      apply List.filter_congr
      intro p _
      simp [Bool.and_comm]
      grind
    · intro s hs
      obtain ⟨w, hw⟩ := hm s (by simp [hs])
      have hne : s ≠ c := fun e => hnd'.1 (e ▸ hs)
      exact ⟨w, by simpa [alookup_filter_ne c s st.dead hne] using hw⟩

/-- the candidates of `_retry_dead` -/
def candidates (c : Cfg) (now : Time) (st : State) : List Srv :=
  (st.dead.filter (fun p => decide (now - p.2 > c.dt))).map Prod.fst

theorem candidates_nodup (c : Cfg) (now : Time) (st : State) (h : (keys st.dead).Nodup) :
    (candidates c now st).Nodup := by
  unfold candidates keys at *
  exact (List.filter_sublist.map _).nodup h

theorem mem_candidates (c : Cfg) (now : Time) (st : State) (h : (keys st.dead).Nodup) (x : Srv) :
    x ∈ candidates c now st ↔ ∃ td, alookup x st.dead = some td ∧ now - td > c.dt := by
  unfold candidates
  simp only [List.mem_map, List.mem_filter, decide_eq_true_eq]
  constructor
  · rintro ⟨⟨a, td⟩, ⟨hm, ht⟩, rfl⟩
    exact ⟨td, alookup_of_mem_nodup h hm, ht⟩
  · rintro ⟨td, hl, ht⟩
    exact ⟨(x, td), ⟨mem_of_alookup hl, ht⟩, rfl⟩

theorem retryDead_eq (c : Cfg) (now : Time) (st : State) (h : (keys st.dead).Nodup) :
    retryDead c now st = some (if now - st.lastDeadCheck > c.dt then revived now st (candidates c now st)
      else st) := by
  unfold retryDead
  split
  · have := reviveAll_eq (candidates c now st) st (candidates_nodup c now st h)
      (fun s hs => by obtain ⟨td, h1, _⟩ := (mem_candidates c now st h s).1 hs; exact ⟨td, h1⟩)
    simp only [candidates] at this ⊢
    rw [this]
    rfl
  · rfl

/-- the state after the `if self._dead_clients: self._retry_dead()` of `_get_client` -/
def afterRetry (c : Cfg) (now : Time) (st : State) : State :=
  if st.dead.isEmpty then st else
    if now - st.lastDeadCheck > c.dt then revived now st (candidates c now st) else st

theorem retryIfDead_eq (c : Cfg) (now : Time) (st : State) (h : (keys st.dead).Nodup) :
    retryIfDead c now st = some (afterRetry c now st) := by
  unfold retryIfDead afterRetry
  split
  · rfl
  · exact retryDead_eq c now st h

/-! ### well-formedness -/

structure WF (c : Cfg) (st : State) : Prop where
  nodesNodup : st.nodes.Nodup
  deadNodup : (keys st.dead).Nodup
  raZero : c.ra = 0 → st.failed = []
  deadOut : ∀ s td, alookup s st.dead = some td → s ∉ st.nodes

theorem dedup_mem (x : Srv) (l : List Srv) : x ∈ dedup l ↔ x ∈ l := by
  induction l with
  | nil => simp [dedup]
  | cons a r ih => simp [dedup, ih]; grind

theorem dedup_nodup (l : List Srv) : (dedup l).Nodup := by
  induction l with
  | nil => simp [dedup]
  | cons a r ih =>
    simp only [dedup, List.nodup_cons]
    exact ⟨by simp, (List.filter_sublist).nodup ih⟩

theorem wf_init (c : Cfg) (servers : List Srv) (t0 : Time) : WF c (init servers t0) :=
  ⟨dedup_nodup _, by simp [init, keys], by simp [init], by simp [init, alookup]⟩

theorem wf_afterRetry {c : Cfg} {now : Time} {st : State} (h : WF c st) : WF c (afterRetry c now st) := by
  unfold afterRetry
  split
  · exact h
  · split
    · refine ⟨addNodes_nodup _ _ h.nodesNodup, ?_, h.raZero, ?_⟩
      · have := h.deadNodup
        unfold revived keys at *
        exact (List.filter_sublist.map _).nodup this
      · intro s td hs
        simp only [revived] at hs ⊢
        rw [alookup_filter (fun k => !(candidates c now st).contains k)] at hs
        split at hs
        · rename_i hq
          have hnc : s ∉ candidates c now st := by simpa using hq
          rw [addNodes_mem]
          intro hm
          rcases hm with hm | hm
          · exact hnc hm
          · exact h.deadOut s td hs hm
        · simp at hs
    · exact h

end Failover
