import Pymc.Proofs.ServerFraming
import Pymc.Proofs.ClientCut
/-! Concrete instances used by the non-vacuity examples of `Pymc/Props/C01.lean`. -/
namespace C01Examples
open Bytes Readers Wire Exchange Client Framing

/-- `VERSION 1\r\n` -/
def versionReply (d : UInt8) : Bytes := [86, 69, 82, 83, 73, 79, 78, 32, d, 13, 10]
/-- `VALUE k 0 1\r\nx\r\nEND\r\n` -/
def getReply : Bytes :=
  [86, 65, 76, 85, 69, 32, 107, 32, 48, 32, 49, 13, 10] ++ [120] ++ [13, 10] ++ [69, 78, 68, 13, 10]

theorem lit_VERSION : ofString "VERSION" = [86, 69, 82, 83, 73, 79, 78] := by with_unfolding_all decide

theorem owed_version : owed {} .version = .lines 1 := by
  simp [owed, sends, Client.call, exchangeMisc_probe, effNoreply]

theorem owed_get : owed {} (.get (.bytes [107])) = .fetch (.values false) := by
  have h1 : ([Key.K.bytes [107]].mapM (checkKey {})) = .ok [[107]] := by with_unfolding_all rfl
  have h2 : encodeFetch {} .get [Key.K.bytes [107]] none = .ok [103, 101, 116, 32, 107, 13, 10] := by
    with_unfolding_all rfl
  simp [owed, sends, Client.call, fetchValues, h1, h2, exchangeFetch_probe, effNoreply]

theorem versionReply_units (d : UInt8) (hd : d ≠ 13) : Units LineUnit 1 (versionReply d) := by
  refine ⟨[versionReply d], rfl, ?_, by simp⟩
  intro u hu
  simp only [List.mem_cons, List.not_mem_nil, or_false] at hu
  subst hu
  refine ⟨[86, 69, 82, 83, 73, 79, 78, 32, d], ?_⟩
  have hd' : ¬ (d = CR) := hd
  simp [versionReply, splitLine, findCRLF, CR, LF, hd]

theorem getReply_unit : FetchUnit (.values false) getReply := by
  refine .value _ [86, 65, 76, 85, 69, 32, 107, 32, 48, 32, 49] _ _ _ (by decide) ?_ rfl ?_
  · refine ⟨by rw [lit_VALUE]; decide, by decide, by decide⟩
  · exact .final _ [69, 78, 68] (by decide) ⟨by rw [lit_VALUE]; decide, by simp⟩

/-- `version` answered in two pieces -/
theorem wf_version : WellFramed {} .version [.data [86, 69, 82, 83, 73, 79, 78, 32, 49, 13], .data [10]] := by
  refine ⟨by simp [clean], ?_⟩
  rw [owed_version]
  exact versionReply_units 49 (by decide)

/-- `get k` answered in two pieces (with an interrupted `recv()` in between) -/
theorem wf_get : WellFramed {} (.get (.bytes [107]))
    [.data [86, 65, 76, 85, 69, 32, 107, 32, 48, 32, 49, 13, 10, 120], .eintr,
     .data [13, 10, 69, 78, 68, 13, 10]] := by
  refine ⟨by simp [clean], ?_⟩
  rw [owed_get]
  exact getReply_unit

/-! ### the administrative operations -/
/-- `STAT pid 1\r\nEND\r\n` -/
def statsReply : Bytes := [83, 84, 65, 84, 32, 112, 105, 100, 32, 49, 13, 10] ++ [69, 78, 68, 13, 10]

theorem statsReply_unit : FetchUnit .stats statsReply := by
  refine .stat _ [83, 84, 65, 84, 32, 112, 105, 100, 32, 49] _ rfl (by decide) (.inl (by with_unfolding_all decide)) ?_
  exact .final _ [69, 78, 68] (by decide) ⟨by with_unfolding_all decide, fun _ => by with_unfolding_all decide⟩

/-- `stats` answered in two pieces -/
theorem wf_stats : WellFramed {} (.stats []) [.data [83, 84, 65, 84, 32, 112, 105, 100], .eintr,
    .data [32, 49, 13, 10, 69, 78, 68, 13, 10]] :=
  ⟨by simp [clean], by
    have : owed {} (.stats []) = .fetch .stats := by with_unfolding_all decide
    rw [this]; exact statsReply_unit⟩

/-- `cache_memlimit 64` answered `OK\r\n` -/
theorem wf_cacheMemlimit : WellFramed {} (.cacheMemlimit (.int 64)) [.data [79, 75, 13, 10]] :=
  ⟨by simp [clean], by
    have : owed {} (.cacheMemlimit (.int 64)) = .fetch (.values false) := by with_unfolding_all decide
    rw [this]; exact .final _ [79, 75] (by decide) ⟨by with_unfolding_all decide, fun h => by cases h⟩⟩

/-- `shutdown graceful` answered by a line that is not an error line (`OK\r\n`) -/
theorem wf_shutdown : WellFramed {} (.shutdown true) [.data [79, 75, 13, 10]] :=
  ⟨by simp [clean], by
    rw [owed_shutdown]
    exact ⟨[[79, 75, 13, 10]], rfl, by simp [LineUnit]; exact ⟨[79, 75], by decide⟩, by simp [joinData]⟩⟩

/-- a server state in which key `k` holds `x` -/
def stateWithK : AbsMap.St := { items := [([107], ⟨0, 0, [120], 1⟩)], casCtr := 1 }

/-- the reference server's answer to the bytes `get k` sends is `getReply` -/
theorem feed_get : (Client.call {} false true (.get (.bytes [107])) {}).sent = some [103, 101, 116, 32, 107, 13, 10] ∧
    (Server.feed stateWithK [103, 101, 116, 32, 107, 13, 10]).map (·.2) = some getReply := by
  have h1 : ([Key.K.bytes [107]].mapM (checkKey {})) = .ok [[107]] := by with_unfolding_all rfl
  have h2 : encodeFetch {} .get [Key.K.bytes [107]] none = .ok [103, 101, 116, 32, 107, 13, 10] := by
    with_unfolding_all rfl
  refine ⟨?_, by with_unfolding_all decide⟩
  simp [Client.call, fetchValues, h1, h2, exchangeFetch]
  split <;> rfl
end C01Examples
