import Pymc.Proofs.RefineKeys
/-! C04: `set` succeeds; the dict of `get_many`. -/
namespace Client
open Bytes Wire Exchange Readers AbsMap ApiSpec

/-- an explicit `set` (with a reply) always answers `STORED`, and the map then holds the item -/
theorem set_returns_true (cfg : Cfg) (s : St) (k : Key.K) (w : Bytes) (v : Val) (d : Bytes) (e : Int)
    (flags : Option Int) (cas : Option CasArg)
    (hk : KeyOK cfg k) (hf : FlagsOK flags) (hck : checkKey cfg k = .ok w) (hv : encodeVal cfg.utf8 v = .ok d) :
    onServer cfg s (.store .set k v (.int e) (some false) flags cas) =
      (store (settle s) w (flagsOf flags).toNat e d, .ok (.bool true), true) := by
  rw [refines_store cfg s .set k v (.int e) (some false) flags cas hk hf]
  have happ : AbsMap.apply s (.store .set w (flagsOf flags).toNat e d Option.none false) =
      (store (settle s) w (flagsOf flags).toNat e d, .stored) := by
    rw [apply_loud _ _ rfl]; rfl
  simp [spec, hck, hv, checkInteger, nr, happ, storeOutcome]

theorem spec_getMany_result (cfg : Cfg) (s : St) (ks : List Key.K) (wire : List Bytes)
    (hm : ks.mapM (checkKey cfg) = .ok wire) (hn : wire.Nodup) :
    (spec cfg s (.getMany ks)).2 =
      .ok (.dict ((wire.zip ks).filterMap fun p => (live (settle s) p.1).map fun it => (p.2, it.data))) := by
  by_cases hne : ks = []
  · subst hne
    have : wire = [] := by
      have := (mapM_ok _ _ _ hm).1
      exact List.length_eq_zero_iff.1 (by simpa using this)
    subst this
    simp [spec]
  · simp only [spec, hne, if_false, fetchSpec, hm, apply_fetch, hitsDict_distinct cfg s ks wire hm hn,
      List.map_filterMap]
    simp only [Option.map_map]
    rfl

theorem spec_getMany_keys (cfg : Cfg) (s s' : St) (ks : List Key.K) (d : List (Key.K × Bytes))
    (h : spec cfg s (.getMany ks) = (s', .ok (.dict d))) :
    (∀ kv ∈ d, kv.1 ∈ ks) ∧ (d.map (·.1)).Nodup := by
  by_cases hne : ks = []
  · subst hne
    simp [spec] at h
    obtain ⟨_, rfl⟩ := h
    simp
  · simp only [spec, hne, if_false, fetchSpec] at h
    cases hm : ks.mapM (checkKey cfg) with
    | error err => simp [hm] at h
    | ok wire =>
      simp only [hm, apply_fetch, Prod.mk.injEq, Except.ok.injEq, Res.dict.injEq] at h
      obtain ⟨_, rfl⟩ := h
      have := foldDict_keys wire ks Prod.snd (fetchRun s Option.none wire).2
      rw [← hitsDict_eq] at this
      have hkeys : ((hitsDict wire ks (fetchRun s Option.none wire).2).map fun x => (x.1, x.2.data)).map (·.1) =
          (hitsDict wire ks (fetchRun s Option.none wire).2).map (·.1) := by
        rw [List.map_map]; rfl
      constructor
      · intro kv hkv
        apply this.1
        rw [← hkeys]
        exact List.mem_map.2 ⟨kv, hkv, rfl⟩
      · have h2 := this.2
        rw [← hkeys] at h2
        exact h2
end Client
