import Pymc.Proofs.ClientCall
/-! Helper lemmas for C01: sequences of calls on one object (`runFrom`, `runTaggedFrom`). -/
namespace Framing
open Bytes Readers Wire Exchange Client

theorem drained_iff_all_eintr (evs : List Ev) : Drained evs ↔ ∀ e ∈ evs, e = .eintr := by
  induction evs with
  | nil => simp [Drained, joinData, clean]
  | cons e t ih =>
    cases e with
    | data b =>
      simp only [Drained, joinData, clean, List.append_eq_nil_iff, List.mem_cons, forall_eq_or_imp,
        reduceCtorEq, false_and, iff_false]
      intro h; exact h.2.1 h.1.1
    | eintr =>
      simp only [Drained, joinData, clean, List.mem_cons, forall_eq_or_imp, true_and] at ih ⊢
      exact ih
    | err c => simp [Drained, clean]

theorem joinData_append (a b : List Ev) : joinData (a ++ b) = joinData a ++ joinData b := by
  induction a with
  | nil => rfl
  | cons e t ih => cases e <;> simp [joinData, ih]

theorem clean_append {a b : List Ev} (ha : clean a) (hb : clean b) : clean (a ++ b) := by
  induction a with
  | nil => exact hb
  | cons e t ih =>
    cases e with
    | data x => exact ⟨ha.1, ih ha.2⟩
    | eintr => exact ih ha
    | err c => exact ha.elim

/-- a drained pipe in front of a well-framed script is a well-framed script -/
theorem wellFramed_available {cfg : Cfg} {c : Call} {so : Bool} {left evs : List Ev}
    (hinv : so = true → Drained left) (hwf : WellFramed cfg c evs) :
    WellFramed cfg c (available so left evs) ∧ joinData (available so left evs) = joinData evs := by
  cases so with
  | false => exact ⟨hwf, rfl⟩
  | true =>
    obtain ⟨hj, hcl⟩ := hinv rfl
    have : joinData (left ++ evs) = joinData evs := by rw [joinData_append, hj]; rfl
    exact ⟨⟨clean_append hcl hwf.1, by simp only [available, if_true]; rw [this]; exact hwf.2⟩,
      by simp only [available, if_true]; exact this⟩

theorem runFrom_clean (cfg : Cfg) (ie : Bool) (so : Bool) (left : List Ev) (calls : List (Call × Script))
    (hinv : so = true → Drained left) (hwf : ∀ cs ∈ calls, WellFramed cfg cs.1 cs.2.evs) :
    ∀ o ∈ runFrom cfg ie so left calls, o.sockOpen = true → Drained o.unread := by
  induction calls generalizing so left with
  | nil => simp [runFrom]
  | cons cs rest ih =>
    obtain ⟨c, sc⟩ := cs
    have hw := (wellFramed_available hinv (hwf (c, sc) (by simp))).1
    have hcl := call_clean cfg ie so c { sc with evs := available so left sc.evs } hw
    simp only [runFrom, List.mem_cons, forall_eq_or_imp]
    exact ⟨hcl, ih _ _ hcl (fun cs h => hwf cs (by simp [h]))⟩

/-! ## the tagged run -/

theorem map_available {α β} (f : α → β) (so : Bool) (l o : List α) :
    (available so l o).map f = available so (l.map f) (o.map f) := by
  cases so <;> simp [available]

theorem map_drop_of_suffix {α β} (f : α → β) (l : List α) (u : List β) (h : u <:+ l.map f) :
    (l.drop (l.length - u.length)).map f = u := by
  obtain ⟨p, hp⟩ := h
  have hlen : l.length = p.length + u.length := by
    have := congrArg List.length hp; simp at this; omega
  rw [List.map_drop, ← hp]
  have : l.length - u.length = p.length := by omega
  rw [this, List.drop_left]

/-- the facts about one step of the tagged run -/
structure StepFacts (cfg : Cfg) (ie : Bool) (st : Step) : Prop where
  split : st.consumed ++ st.leftover = st.avail
  left : st.leftover.map (·.2) = st.out.unread
  own : ∀ te ∈ st.avail, te.1 = st.idx ∨ te.2 = .eintr

theorem runTaggedFrom_facts (cfg : Cfg) (ie : Bool) (k : Nat) (so : Bool) (left : List TEv)
    (calls : List (Call × Script))
    (hinv : so = true → ∀ te ∈ left, te.2 = .eintr)
    (hwf : ∀ cs ∈ calls, WellFramed cfg cs.1 cs.2.evs) :
    ∀ st ∈ runTaggedFrom cfg ie k so left calls, StepFacts cfg ie st := by
  induction calls generalizing k so left with
  | nil => simp [runTaggedFrom]
  | cons cs rest ih =>
    obtain ⟨c, sc⟩ := cs
    simp only [runTaggedFrom, List.mem_cons, forall_eq_or_imp]
    -- abbreviations
    generalize hav : available so left (sc.evs.map fun e => (k, e)) = avail
    have hmap : avail.map (·.2) = available so (left.map (·.2)) sc.evs := by
      rw [← hav, map_available]; simp [Function.comp_def]
    have hinv' : so = true → Drained (left.map (·.2)) := by
      intro h; rw [drained_iff_all_eintr]
      intro e he
      obtain ⟨te, hte, rfl⟩ := List.mem_map.mp he
      exact hinv h te hte
    have hw := (wellFramed_available hinv' (hwf (c, sc) (by simp))).1
    rw [← hmap] at hw
    generalize ho : call cfg ie so c { sc with evs := avail.map (·.2) } = o
    have hsuf : o.unread <:+ avail.map (·.2) := by
      rw [← ho]; exact call_suffix cfg ie so c _
    have hleft := map_drop_of_suffix (·.2) avail o.unread hsuf
    have hown : ∀ te ∈ avail, te.1 = k ∨ te.2 = .eintr := by
      intro te hte
      rw [← hav] at hte
      cases so with
      | false =>
        simp only [available, Bool.false_eq_true, if_false, List.mem_map] at hte
        obtain ⟨e, -, rfl⟩ := hte; left; rfl
      | true =>
        simp only [available, if_true, List.mem_append, List.mem_map] at hte
        rcases hte with h | ⟨e, -, rfl⟩
        · right; exact hinv rfl te h
        · left; rfl
    refine ⟨⟨List.take_append_drop _ _, hleft, hown⟩, ?_⟩
    apply ih
    · intro hopen te hte
      have hd : Drained o.unread := by
        rw [← ho] at hopen ⊢
        exact call_clean cfg ie so c _ hw hopen
      rw [drained_iff_all_eintr] at hd
      apply hd
      rw [← hleft]
      exact List.mem_map.mpr ⟨te, hte, rfl⟩
    · exact fun cs h => hwf cs (by simp [h])

theorem runTaggedFrom_out (cfg : Cfg) (ie : Bool) (k : Nat) (so : Bool) (left : List TEv)
    (calls : List (Call × Script)) :
    (runTaggedFrom cfg ie k so left calls).map (·.out) = runFrom cfg ie so (left.map (·.2)) calls := by
  induction calls generalizing k so left with
  | nil => simp [runTaggedFrom, runFrom]
  | cons cs rest ih =>
    obtain ⟨c, sc⟩ := cs
    simp only [runTaggedFrom, runFrom, List.map_cons]
    generalize hav : available so left (sc.evs.map fun e => (k, e)) = avail
    have hmap : avail.map (·.2) = available so (left.map (·.2)) sc.evs := by
      rw [← hav, map_available]; simp [Function.comp_def]
    rw [← hmap]
    generalize ho : call cfg ie so c { sc with evs := avail.map (·.2) } = o
    have hsuf : o.unread <:+ avail.map (·.2) := by
      rw [← ho]; exact call_suffix cfg ie so c _
    have hleft := map_drop_of_suffix (·.2) avail o.unread hsuf
    rw [ih, hleft]

/-- every event of the tagged run comes from one of the scripts -/
theorem runTaggedFrom_avail_from_scripts (cfg : Cfg) (ie : Bool) (k : Nat) (so : Bool) (left : List TEv)
    (calls : List (Call × Script)) (P : Ev → Prop)
    (hleft : ∀ te ∈ left, P te.2) (hP : ∀ cs ∈ calls, ∀ e ∈ cs.2.evs, P e) :
    ∀ st ∈ runTaggedFrom cfg ie k so left calls, ∀ te ∈ st.avail, P te.2 := by
  induction calls generalizing k so left with
  | nil => simp [runTaggedFrom]
  | cons cs rest ih =>
    obtain ⟨c, sc⟩ := cs
    simp only [runTaggedFrom, List.mem_cons, forall_eq_or_imp]
    have hav : ∀ te ∈ available so left (sc.evs.map fun e => (k, e)), P te.2 := by
      intro te hte
      cases so with
      | false =>
        simp only [available, Bool.false_eq_true, if_false, List.mem_map] at hte
        obtain ⟨e, he, rfl⟩ := hte
        exact hP (c, sc) (by simp) e he
      | true =>
        simp only [available, if_true, List.mem_append, List.mem_map] at hte
        rcases hte with h | ⟨e, he, rfl⟩
        · exact hleft te h
        · exact hP (c, sc) (by simp) e he
    refine ⟨hav, ?_⟩
    apply ih
    · intro te hte
      exact hav te (List.mem_of_mem_drop hte)
    · exact fun cs h => hP cs (by simp [h])

/-! ## a perfect connection: the whole reply in one piece -/

/-- the reply delivered in one `recv()` (no `recv()` result at all if the reply is empty) -/
def onePiece (reply : Bytes) : List Ev := if reply = [] then [] else [.data reply]

theorem wellFramed_onePiece {cfg : Cfg} {c : Call} {reply : Bytes} (h : (owed cfg c).Matches reply) :
    WellFramed cfg c (onePiece reply) := by
  unfold onePiece
  by_cases hr : reply = []
  · subst hr; exact ⟨trivial, h⟩
  · simp only [hr, if_false]
    exact ⟨⟨hr, trivial⟩, by simpa [joinData] using h⟩

theorem call_onePiece_clean (cfg : Cfg) (ie so : Bool) (c : Call) (sc : Script) (reply : Bytes)
    (h : (owed cfg c).Matches reply)
    (hopen : (call cfg ie so c { sc with evs := onePiece reply }).sockOpen = true) :
    (call cfg ie so c { sc with evs := onePiece reply }).unread = [] := by
  have hd := call_clean cfg ie so c { sc with evs := onePiece reply } (wellFramed_onePiece h) hopen
  have hs := call_suffix cfg ie so c { sc with evs := onePiece reply }
  generalize (call cfg ie so c { sc with evs := onePiece reply }).unread = u at hd hs
  dsimp only at hs
  unfold onePiece at hs
  by_cases hr : reply = []
  · simp only [hr, if_true] at hs; exact List.suffix_nil.mp hs
  · simp only [hr, if_false] at hs
    rcases List.suffix_cons_iff.mp hs with h1 | h1
    · subst h1
      have := hd.1
      simp [joinData] at this
      exact absurd this hr
    · exact List.suffix_nil.mp h1
end Framing
