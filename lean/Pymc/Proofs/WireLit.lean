import Pymc.Model.Wire
import Pymc.Proofs.KeyCheck
/-! Helper lemmas for C02: evaluating `Bytes.ofString` on literals.

`String.toUTF8.toList` does not reduce in the kernel (`ByteArray.toList` is a well-founded loop), so the
literals used by `Wire` are evaluated once here, through `Key.encodeUtf8_core`. -/
namespace Wire
open Bytes

theorem byteArray_toList_loop_eq (bs : ByteArray) (i : Nat) (r : List UInt8) :
    ByteArray.toList.loop bs i r = r.reverse ++ bs.data.toList.drop i := by
  fun_induction ByteArray.toList.loop bs i r with
  | case1 i r h ih =>
    rw [ih]
    have h' : i < bs.data.toList.length := by
      have : bs.size = bs.data.size := rfl
      rw [Array.length_toList]; omega
    rw [List.drop_eq_getElem_cons h']
    simp [ByteArray.get!]
    exact getElem!_pos bs.data i _
  | case2 i r h =>
    have : bs.data.toList.length ≤ i := by
      have : bs.size = bs.data.size := rfl
      rw [Array.length_toList]; omega
    simp [List.drop_of_length_le this]

theorem byteArray_toList_eq_data (bs : ByteArray) : bs.toList = bs.data.toList := by
  simp [ByteArray.toList, byteArray_toList_loop_eq]

/-- `ofString` is the UTF-8 encoder of the model applied to the code points of the string. -/
theorem ofString_eq (s : String) :
    ofString s = Key.encodeUtf8 (s.toList.map (fun ch => ch.val.toNat)) := by
  rw [Key.encodeUtf8_core, ofString, byteArray_toList_eq_data]

@[simp] theorem lit_set : ofString "set" = [115, 101, 116] := by rw [ofString_eq]; decide
@[simp] theorem lit_add : ofString "add" = [97, 100, 100] := by rw [ofString_eq]; decide
@[simp] theorem lit_replace : ofString "replace" = [114, 101, 112, 108, 97, 99, 101] := by
  rw [ofString_eq]; decide
@[simp] theorem lit_append : ofString "append" = [97, 112, 112, 101, 110, 100] := by rw [ofString_eq]; decide
@[simp] theorem lit_prepend : ofString "prepend" = [112, 114, 101, 112, 101, 110, 100] := by
  rw [ofString_eq]; decide
@[simp] theorem lit_cas : ofString "cas" = [99, 97, 115] := by rw [ofString_eq]; decide
@[simp] theorem lit_get : ofString "get" = [103, 101, 116] := by rw [ofString_eq]; decide
@[simp] theorem lit_gets : ofString "gets" = [103, 101, 116, 115] := by rw [ofString_eq]; decide
@[simp] theorem lit_gat : ofString "gat" = [103, 97, 116] := by rw [ofString_eq]; decide
@[simp] theorem lit_gats : ofString "gats" = [103, 97, 116, 115] := by rw [ofString_eq]; decide
@[simp] theorem lit_delete : ofString "delete" = [100, 101, 108, 101, 116, 101] := by rw [ofString_eq]; decide
@[simp] theorem lit_delete_sp : ofString "delete " = [100, 101, 108, 101, 116, 101, 32] := by
  rw [ofString_eq]; decide
@[simp] theorem lit_incr : ofString "incr" = [105, 110, 99, 114] := by rw [ofString_eq]; decide
@[simp] theorem lit_incr_sp : ofString "incr " = [105, 110, 99, 114, 32] := by rw [ofString_eq]; decide
@[simp] theorem lit_decr : ofString "decr" = [100, 101, 99, 114] := by rw [ofString_eq]; decide
@[simp] theorem lit_decr_sp : ofString "decr " = [100, 101, 99, 114, 32] := by rw [ofString_eq]; decide
@[simp] theorem lit_touch : ofString "touch" = [116, 111, 117, 99, 104] := by rw [ofString_eq]; decide
@[simp] theorem lit_touch_sp : ofString "touch " = [116, 111, 117, 99, 104, 32] := by rw [ofString_eq]; decide
@[simp] theorem lit_flush_all : ofString "flush_all" = [102, 108, 117, 115, 104, 95, 97, 108, 108] := by
  rw [ofString_eq]; decide
@[simp] theorem lit_flush_all_sp : ofString "flush_all " = [102, 108, 117, 115, 104, 95, 97, 108, 108, 32] := by
  rw [ofString_eq]; decide
@[simp] theorem lit_version : ofString "version" = [118, 101, 114, 115, 105, 111, 110] := by
  rw [ofString_eq]; decide
@[simp] theorem lit_quit : ofString "quit" = [113, 117, 105, 116] := by rw [ofString_eq]; decide
@[simp] theorem lit_noreply : ofString "noreply" = [110, 111, 114, 101, 112, 108, 121] := by
  rw [ofString_eq]; decide
@[simp] theorem lit_sp_noreply : ofString " noreply" = [32, 110, 111, 114, 101, 112, 108, 121] := by
  rw [ofString_eq]; decide

@[simp] theorem SVerb.name_set : SVerb.set.name = [115, 101, 116] := lit_set
@[simp] theorem SVerb.name_add : SVerb.add.name = [97, 100, 100] := lit_add
@[simp] theorem SVerb.name_replace : SVerb.replace.name = [114, 101, 112, 108, 97, 99, 101] := lit_replace
@[simp] theorem SVerb.name_append : SVerb.append.name = [97, 112, 112, 101, 110, 100] := lit_append
@[simp] theorem SVerb.name_prepend : SVerb.prepend.name = [112, 114, 101, 112, 101, 110, 100] := lit_prepend
@[simp] theorem SVerb.name_cas : SVerb.cas.name = [99, 97, 115] := lit_cas
@[simp] theorem FVerb.name_get : FVerb.get.name = [103, 101, 116] := lit_get
@[simp] theorem FVerb.name_gets : FVerb.gets.name = [103, 101, 116, 115] := lit_gets
@[simp] theorem FVerb.name_gat : FVerb.gat.name = [103, 97, 116] := lit_gat
@[simp] theorem FVerb.name_gats : FVerb.gats.name = [103, 97, 116, 115] := lit_gats
end Wire
