/-! C13: the single-server projection of the HashClient failover bookkeeping (what one server sees of the
    full machine of `Pymc/Model/Failover.lean`), with a ghost history of failed-contact times; the `rt`- and
    `dt`-window bounds as inductive invariants of this small machine.  `FailoverSim.lean` shows that every step
    of the full machine, projected on a server, is a sequence of steps of this machine. -/
namespace FO2

structure Cfg where
  ra : Nat          -- retry_attempts (≥ 0 here; the ≤ 0 branch is ra = 0)
  rt : Nat
  dt : Nat
  hlt : rt < dt

inductive Outcome | ok | oserr | other
deriving DecidableEq

structure S where
  clock : Nat
  inNodes : Bool
  failed : Option (Nat × Nat)      -- (attempts, failed_time)
  dead : Option Nat                -- dead_time
  hist : List Nat                  -- ghost: times of failed (OSError) contacts, newest first
  streak : List Nat                -- ghost: failed contacts since the last successful contact
  epi : Nat                        -- ghost: how many of them belong to the current episode

inductive Evt
  | op (now : Nat) (out : Outcome)     -- a key-addressed call routed to this server
  | revive (now : Nat)                 -- `_retry_dead` brings it back
  | tick (now : Nat)                   -- time passes / calls routed elsewhere
  | swallow (now : Nat) (out : Outcome) -- `set_many` batch under `ignore_exc`: whatever the server does is
                                        -- swallowed by `_set_many`, the bookkeeping proceeds as after a success

def Evt.isSwallow : Evt → Bool
  | .swallow _ _ => true
  | _ => false

/-- ghost bookkeeping of a contact whose outcome is `out` -/
def ghostContact (s : S) (now : Nat) : Outcome → S
  | .ok => { s with streak := [] }
  | .other => s
  | .oserr => { s with hist := now :: s.hist, streak := now :: s.streak }

/-- effect of a contact with outcome `out` when the server is *not* in `_failed_clients` -/
def contactFresh (c : Cfg) (s : S) (now : Nat) : Outcome → S
  | .ok => { s with clock := now, streak := [], epi := 0 }
  | .other => { s with clock := now }
  | .oserr =>
    if c.ra > 0 then { s with clock := now, failed := some (0, now), hist := now :: s.hist, streak := now :: s.streak, epi := s.epi + 1 }
    else { s with clock := now, failed := none, dead := some now, inNodes := false, hist := now :: s.hist, streak := now :: s.streak, epi := s.epi + 1 }

def step (c : Cfg) (s : S) : Evt → Option S
  | .tick now => if s.clock ≤ now then some { s with clock := now } else none
  | .revive now =>
    match s.dead with
    | some td => if s.clock ≤ now ∧ now - td > c.dt then some { s with clock := now, inNodes := true, dead := none, epi := 0 } else none
    | none => none
  | .op now out =>
    if ¬ (s.clock ≤ now ∧ s.inNodes) then none else
    match s.failed with
    | none => some (contactFresh c s now out)
    | some (k, ft) =>
      if k < c.ra then
        if now - ft > c.rt then
          match out with
          | .ok => some { s with clock := now, failed := none, streak := [], epi := 0 }
          | .other => some { s with clock := now }
          | .oserr => some { s with clock := now, failed := some (k + 1, now), hist := now :: s.hist, streak := now :: s.streak, epi := s.epi + 1 }
        else some { s with clock := now }          -- not contacted, default returned
      else
        -- remove_server, then the call is made once more
        let s' := { s with clock := now, failed := none, dead := some now, inNodes := false }
        some (contactFresh c s' now out)
  | .swallow now out =>
    if ¬ (s.clock ≤ now ∧ s.inNodes) then none else
    match s.failed with
    | none => some (ghostContact { s with clock := now } now out)
    | some (k, ft) =>
      if k < c.ra then
        if now - ft > c.rt then some (ghostContact { s with clock := now, failed := none } now out)
        else some { s with clock := now }
      else some (ghostContact { s with clock := now, failed := none, dead := some now, inNodes := false } now out)

def Sparse2 (rt : Nat) : List Nat → Prop
  | a :: b :: c :: r => a - c > rt ∧ Sparse2 rt (b :: c :: r)
  | _ => True

def Sorted : List Nat → Prop
  | a :: b :: r => b ≤ a ∧ Sorted (b :: r)
  | _ => True

structure Inv (c : Cfg) (s : S) : Prop where
  sorted : Sorted s.hist
  clk : ∀ x, s.hist.head? = some x → x ≤ s.clock
  fail : ∀ k ft, s.failed = some (k, ft) → c.ra > 0 ∧ s.hist.head? = some ft ∧
            (k ≥ 1 → ∀ x, s.hist[1]? = some x → ft - x > c.rt)
  healthy : s.failed = none → s.inNodes = true → ∀ x, s.hist.head? = some x → s.clock - x > c.rt
  deadI : ∀ td, s.dead = some td → s.inNodes = false ∧ td ≤ s.clock ∧ ∀ x, s.hist.head? = some x → x ≤ td
  sparse : Sparse2 c.rt s.hist

def init : S := { clock := 0, inNodes := true, failed := none, dead := none, hist := [], streak := [], epi := 0 }

theorem inv_init (c : Cfg) : Inv c init := by
  constructor <;> simp [init, Sorted, Sparse2]

/-- the initial state of a client constructed at time `t0` -/
def initAt (t0 : Nat) : S := { init with clock := t0 }

theorem inv_initAt (c : Cfg) (t0 : Nat) : Inv c (initAt t0) := by
  constructor <;> simp [initAt, init, Sorted, Sparse2]

theorem sparse_cons {rt now : Nat} {h : List Nat} (hs : Sparse2 rt h) (hso : Sorted h)
    (h1 : ∀ x, h[1]? = some x → now - x > rt) : Sparse2 rt (now :: h) := by
  match h, hs, hso, h1 with
  | [], _, _, _ => simp [Sparse2]
  | [_], _, _, _ => simp [Sparse2]
  | a :: b :: r, hs, _, h1 => exact ⟨h1 b (by simp), hs⟩

theorem sorted_cons {now : Nat} {h : List Nat} (hso : Sorted h) (h0 : ∀ x, h.head? = some x → x ≤ now) :
    Sorted (now :: h) := by
  match h, hso, h0 with
  | [], _, _ => simp [Sorted]
  | a :: r, hso, h0 => exact ⟨h0 a (by simp), hso⟩

theorem sorted_second {h : List Nat} (hso : Sorted h) : ∀ x y, h.head? = some x → h[1]? = some y → y ≤ x := by
  match h, hso with
  | [], _ => simp
  | [_], _ => simp
  | a :: b :: r, hso => intro x y hx hy; simp at hx hy; subst hx hy; exact hso.1


theorem inv_contactFresh (c : Cfg) (s : S) (now : Nat) (out : Outcome) (h : Inv c s)
    (hclk : s.clock ≤ now) (hf : s.failed = none) (hd : ∀ td, s.dead = some td → td = now ∧ s.inNodes = false)
    (hrecent : ∀ x, s.hist[1]? = some x → now - x > c.rt)
    (hhealthy : s.inNodes = true → ∀ x, s.hist.head? = some x → now - x > c.rt) :
    Inv c (contactFresh c s now out) := by
  have hhead : ∀ x, s.hist.head? = some x → x ≤ now := fun x hx => Nat.le_trans (h.clk x hx) hclk
  cases out with
  | ok =>
    simp only [contactFresh]
    exact ⟨h.sorted, hhead, by simp [hf], by intro _ hi x hx; exact hhealthy hi x hx,
      by intro td htd; obtain ⟨rfl, hi⟩ := hd td htd; exact ⟨hi, Nat.le_refl _, fun x hx => hhead x hx⟩, h.sparse⟩
  | other =>
    simp only [contactFresh]
    exact ⟨h.sorted, hhead, by simp [hf], by intro _ hi x hx; exact hhealthy hi x hx,
      by intro td htd; obtain ⟨rfl, hi⟩ := hd td htd; exact ⟨hi, Nat.le_refl _, fun x hx => hhead x hx⟩, h.sparse⟩
  | oserr =>
    simp only [contactFresh]
    split
    · rename_i hra
      refine ⟨sorted_cons h.sorted hhead, by simp, ?_, by simp, ?_, sparse_cons h.sparse h.sorted hrecent⟩
      · intro k ft hk; simp at hk; obtain ⟨rfl, rfl⟩ := hk; exact ⟨hra, by simp, by omega⟩
      · intro td htd; obtain ⟨rfl, hi⟩ := hd td htd; exact ⟨hi, Nat.le_refl _, by simp⟩
    · refine ⟨sorted_cons h.sorted hhead, by simp, by simp, by simp, ?_, sparse_cons h.sparse h.sorted hrecent⟩
      intro td htd; simp at htd; subst htd; exact ⟨rfl, Nat.le_refl _, by simp⟩

theorem inv_step (c : Cfg) (s s' : S) (e : Evt) (h : Inv c s) (hs : step c s e = some s')
    (hsw : e.isSwallow = false) : Inv c s' := by
  have hlt := c.hlt
  cases e with
  | swallow now out => simp [Evt.isSwallow] at hsw
  | tick now =>
    simp only [step] at hs
    split at hs <;> simp at hs
    rename_i hc; subst hs
    exact ⟨h.sorted, fun x hx => Nat.le_trans (h.clk x hx) hc, h.fail,
      by intro hf hi x hx; have := h.healthy hf hi x hx; simp at this ⊢; omega,
      by intro td htd; obtain ⟨a, b, d⟩ := h.deadI td htd; exact ⟨a, Nat.le_trans b hc, d⟩, h.sparse⟩
  | revive now =>
    simp only [step] at hs
    split at hs
    · rename_i td htd
      split at hs <;> simp at hs
      rename_i hc; subst hs
      obtain ⟨_, htdc, hx⟩ := h.deadI td htd
      refine ⟨h.sorted, fun x hx' => Nat.le_trans (h.clk x hx') hc.1, h.fail, ?_, by simp, h.sparse⟩
      intro _ _ x hx'
      have := hx x hx'
      simp; omega
    · simp at hs
  | op now out =>
    simp only [step] at hs
    split at hs
    · simp at hs
    · rename_i hc
      have hc' : s.clock ≤ now ∧ s.inNodes = true := by simpa using hc
      obtain ⟨hclk, hin⟩ := hc'
      have hnodead : s.dead = none := by
        cases hd : s.dead with
        | none => rfl
        | some td => have := (h.deadI td hd).1; simp [hin] at this
      split at hs
      · rename_i hf
        simp at hs; subst hs
        apply inv_contactFresh c s now out h hclk hf (by simp [hnodead])
        · intro x hx
          cases hh : s.hist.head? with
          | none => cases hl : s.hist with
            | nil => simp [hl] at hx
            | cons a r => simp [hl] at hh
          | some y =>
            have h1 := h.healthy hf hin y hh
            have h2 := sorted_second h.sorted y x hh hx
            omega
        · intro _ x hx; have := h.healthy hf hin x hx; omega
      · rename_i k ft hf
        obtain ⟨hra, hhd, hk1⟩ := h.fail k ft hf
        have hftc : ft ≤ s.clock := h.clk ft hhd
        split at hs
        · rename_i hk
          split at hs
          · rename_i hgt
            cases out with
            | ok =>
              simp at hs; subst hs
              refine ⟨h.sorted, fun x hx => Nat.le_trans (h.clk x hx) hclk, by simp, ?_, by simp [hnodead], h.sparse⟩
              intro _ _ x hx; simp at hx ⊢; rw [hhd] at hx; cases hx; omega
            | other =>
              simp at hs; subst hs
              exact ⟨h.sorted, fun x hx => Nat.le_trans (h.clk x hx) hclk, h.fail, by simp [hf],
                by simp [hnodead], h.sparse⟩
            | oserr =>
              simp at hs; subst hs
              refine ⟨sorted_cons h.sorted (fun x hx => Nat.le_trans (h.clk x hx) hclk), by simp, ?_, by simp,
                by simp [hnodead], ?_⟩
              · intro k' ft' hk'; simp at hk'; obtain ⟨rfl, rfl⟩ := hk'
                refine ⟨hra, by simp, ?_⟩
                intro _ x hx
                cases hl : s.hist with
                | nil => simp [hl] at hhd
                | cons a r => simp [hl] at hhd hx; subst hhd; subst hx; omega
              · apply sparse_cons h.sparse h.sorted
                intro x hx
                have := sorted_second h.sorted ft x hhd hx
                omega
          · simp at hs; subst hs
            exact ⟨h.sorted, fun x hx => Nat.le_trans (h.clk x hx) hclk, h.fail, by simp [hf],
              by simp [hnodead], h.sparse⟩
        · rename_i hk
          simp at hs; subst hs
          -- final probe: remove_server then one more contact
          have hk1' : k ≥ 1 := by omega
          apply inv_contactFresh c _ now out
          · exact ⟨h.sorted, fun x hx => Nat.le_trans (h.clk x hx) hclk, by simp, by simp, by
              intro td htd; simp at htd; subst htd
              exact ⟨rfl, Nat.le_refl _, fun x hx => Nat.le_trans (h.clk x hx) hclk⟩, h.sparse⟩
          · exact Nat.le_refl _
          · rfl
          · intro td htd; simp at htd; exact ⟨htd.symm, rfl⟩
          · intro x hx; have := hk1 hk1' x hx; simp at hx; omega
          · intro hi; simp at hi

/-! ### the `dt`-window bound -/

def SparseK (K dt : Nat) (l : List Nat) : Prop :=
  ∀ i x y, l[i]? = some x → l[i + K]? = some y → x - y > dt

structure Inv2 (c : Cfg) (s : S) : Prop where
  le_clock : ∀ x ∈ s.streak, x ≤ s.clock
  le_dead : ∀ td, s.dead = some td → ∀ x ∈ s.streak, x ≤ td
  kle : ∀ k ft, s.failed = some (k, ft) → k ≤ c.ra
  epiF : ∀ k ft, s.failed = some (k, ft) → s.inNodes = true → s.epi ≤ k + 1
  epiH : s.failed = none → s.inNodes = true → s.epi = 0
  old : s.inNodes = true → ∀ x ∈ s.streak.drop s.epi, s.clock - x > c.dt
  sparse : SparseK (c.ra + 2) c.dt s.streak

theorem inv2_init (c : Cfg) : Inv2 c init := by
  constructor <;> simp [init, SparseK]

theorem inv2_initAt (c : Cfg) (t0 : Nat) : Inv2 c (initAt t0) := by
  constructor <;> simp [initAt, init, SparseK]

theorem sparseK_cons {K dt now : Nat} {l : List Nat} (h : SparseK K dt l) (hK : 0 < K)
    (h0 : ∀ y, l[K - 1]? = some y → now - y > dt) : SparseK K dt (now :: l) := by
  intro i x y hx hy
  cases i with
  | zero =>
    simp at hx; subst hx
    have : (now :: l)[0 + K]? = l[K - 1]? := by
      cases K with
      | zero => omega
      | succ K => simp
    rw [this] at hy; exact h0 y hy
  | succ j =>
    have e : j + 1 + K = (j + K) + 1 := by omega
    rw [e] at hy
    simp at hx hy
    exact h j x y hx hy

theorem mem_drop_of_getElem {l : List Nat} {n m : Nat} {y : Nat} (h : l[m]? = some y) (hnm : n ≤ m) :
    y ∈ l.drop n := by
  have : (l.drop n)[m - n]? = some y := by
    rw [List.getElem?_drop]; rw [show n + (m - n) = m by omega]; exact h
  exact List.mem_of_getElem? this

/-- pushing a failed contact at `now` on a state whose pre-episode entries are all older than `dt` -/
theorem inv2_push (c : Cfg) (s : S) (now : Nat) (h : Inv2 c s) (hclk : s.clock ≤ now)
    (hepi : s.epi ≤ c.ra + 1) (hold : ∀ x ∈ s.streak.drop s.epi, now - x > c.dt) :
    SparseK (c.ra + 2) c.dt (now :: s.streak) ∧ (∀ x ∈ now :: s.streak, x ≤ now) ∧
    (∀ x ∈ (now :: s.streak).drop (s.epi + 1), now - x > c.dt) := by
  refine ⟨sparseK_cons h.sparse (by omega) ?_, ?_, ?_⟩
  · intro y hy
    have : c.ra + 2 - 1 = c.ra + 1 := by omega
    rw [this] at hy
    exact hold y (mem_drop_of_getElem hy hepi)
  · intro x hx
    simp at hx
    rcases hx with rfl | hx
    · exact Nat.le_refl _
    · exact Nat.le_trans (h.le_clock x hx) hclk
  · simpa using hold

theorem inv2_contactFresh (c : Cfg) (s : S) (now : Nat) (out : Outcome) (h : Inv2 c s)
    (hclk : s.clock ≤ now) (hf : s.failed = none) (hd : ∀ td, s.dead = some td → td = now ∧ s.inNodes = false)
    (hepi : s.epi ≤ c.ra + 1) (hepi0 : s.inNodes = true → s.epi = 0)
    (hold : ∀ x ∈ s.streak.drop s.epi, now - x > c.dt) :
    Inv2 c (contactFresh c s now out) := by
  cases out with
  | ok =>
    simp only [contactFresh]
    constructor <;> simp [hf, SparseK]
  | other =>
    simp only [contactFresh]
    refine ⟨fun x hx => Nat.le_trans (h.le_clock x hx) hclk, ?_, by simp [hf], by simp [hf], ?_, ?_, h.sparse⟩
    · intro td htd x hx; obtain ⟨rfl, _⟩ := hd td htd; exact Nat.le_trans (h.le_clock x hx) hclk
    · intro _ hi; exact hepi0 hi
    · intro _ x hx; exact hold x hx
  | oserr =>
    obtain ⟨p1, p2, p3⟩ := inv2_push c s now h hclk hepi hold
    simp only [contactFresh]
    split
    · refine ⟨p2, ?_, ?_, ?_, by simp, ?_, p1⟩
      · intro td htd x hx; obtain ⟨rfl, _⟩ := hd td htd; exact p2 x hx
      · intro k ft hk; simp at hk; omega
      · intro k ft hk hi; simp at hk; obtain ⟨rfl, rfl⟩ := hk; have := hepi0 hi; simp; omega
      · intro _ x hx; exact p3 x hx
    · refine ⟨p2, ?_, by simp, by simp, by simp, by simp, p1⟩
      intro td htd x hx; simp at htd; subst htd; exact p2 x hx

theorem inv2_step (c : Cfg) (s s' : S) (e : Evt) (h1 : Inv c s) (h : Inv2 c s)
    (hs : step c s e = some s') (hsw : e.isSwallow = false) : Inv2 c s' := by
  have hlt := c.hlt
  cases e with
  | swallow now out => simp [Evt.isSwallow] at hsw
  | tick now =>
    simp only [step] at hs
    split at hs <;> simp at hs
    rename_i hc; subst hs
    refine ⟨fun x hx => Nat.le_trans (h.le_clock x hx) hc, h.le_dead, h.kle, h.epiF, h.epiH, ?_, h.sparse⟩
    intro hi x hx; have := h.old hi x hx; simp at this ⊢; omega
  | revive now =>
    simp only [step] at hs
    split at hs
    · rename_i td htd
      split at hs <;> simp at hs
      rename_i hc; subst hs
      refine ⟨fun x hx => Nat.le_trans (h.le_clock x hx) hc.1, by simp, h.kle, ?_, by simp, ?_, h.sparse⟩
      · intro k ft _ _; simp
      · intro _ x hx
        simp at hx
        have := h.le_dead td htd x hx
        simp; omega
    · simp at hs
  | op now out =>
    simp only [step] at hs
    split at hs
    · simp at hs
    · rename_i hc
      have hc' : s.clock ≤ now ∧ s.inNodes = true := by simpa using hc
      obtain ⟨hclk, hin⟩ := hc'
      have hnodead : s.dead = none := by
        cases hd : s.dead with
        | none => rfl
        | some td => have := (h1.deadI td hd).1; simp [hin] at this
      have holdnow : ∀ x ∈ s.streak.drop s.epi, now - x > c.dt := by
        intro x hx; have := h.old hin x hx; omega
      split at hs
      · rename_i hf
        simp at hs; subst hs
        have e0 := h.epiH hf hin
        exact inv2_contactFresh c s now out h hclk hf (by simp [hnodead]) (by omega) (fun _ => e0) holdnow
      · rename_i k ft hf
        have hk := h.kle k ft hf
        have he := h.epiF k ft hf hin
        split at hs
        · rename_i hklt
          split at hs
          · cases out with
            | ok =>
              simp at hs; subst hs
              constructor <;> simp [SparseK]
            | other =>
              simp at hs; subst hs
              refine ⟨fun x hx => Nat.le_trans (h.le_clock x hx) hclk, by simp [hnodead], h.kle, h.epiF, by simp [hf], ?_, h.sparse⟩
              intro _ x hx; exact holdnow x hx
            | oserr =>
              simp at hs; subst hs
              obtain ⟨p1, p2, p3⟩ := inv2_push c s now h hclk (by omega) holdnow
              refine ⟨p2, by simp [hnodead], ?_, ?_, by simp, ?_, p1⟩
              · intro k' ft' hk'; simp at hk'; omega
              · intro k' ft' hk' _; simp at hk'; obtain ⟨rfl, rfl⟩ := hk'; simp; omega
              · intro _ x hx; exact p3 x hx
          · simp at hs; subst hs
            refine ⟨fun x hx => Nat.le_trans (h.le_clock x hx) hclk, by simp [hnodead], h.kle, h.epiF, by simp [hf], ?_, h.sparse⟩
            intro _ x hx; exact holdnow x hx
        · simp at hs; subst hs
          apply inv2_contactFresh c _ now out
          · refine ⟨fun x hx => Nat.le_trans (h.le_clock x hx) hclk, ?_, by simp, by simp, by simp, by simp, h.sparse⟩
            intro td htd x hx; simp at htd; subst htd; exact Nat.le_trans (h.le_clock x hx) hclk
          · exact Nat.le_refl _
          · rfl
          · intro td htd; simp at htd; exact ⟨htd.symm, rfl⟩
          · show s.epi ≤ c.ra + 1; omega
          · intro hi; simp at hi
          · exact holdnow

/-! ### small invariants that also survive `swallow` -/

structure Small (c : Cfg) (s : S) : Prop where
  h0 : s.hist = [] → s.inNodes = true ∧ s.failed = none ∧ s.dead = none
  h1 : c.ra > 0 → s.hist.length ≤ 1 → s.inNodes = true ∧ s.dead = none ∧ ∀ k ft, s.failed = some (k, ft) → k = 0

theorem small_init (c : Cfg) : Small c init := by
  constructor <;> simp [init]

theorem small_initAt (c : Cfg) (t0 : Nat) : Small c (initAt t0) := by
  constructor <;> simp [initAt, init]

theorem small_step (c : Cfg) (s s' : S) (e : Evt) (h : Small c s) (hs : step c s e = some s') : Small c s' := by
  obtain ⟨h0, h1⟩ := h
  cases e with
  | tick now =>
    simp only [step] at hs
    split at hs <;> simp at hs
    subst hs; exact ⟨h0, h1⟩
  | revive now =>
    simp only [step] at hs
    split at hs
    · split at hs <;> simp at hs
      subst hs
      constructor <;> simp <;> grind
    · simp at hs
  | op now out =>
    simp only [step] at hs
    split at hs
    · simp at hs
    · split at hs
      · simp at hs; subst hs
        cases out <;> simp only [contactFresh] <;> (try split) <;> constructor <;> simp <;> grind
      · split at hs
        · split at hs
          · cases out <;> simp at hs <;> subst hs <;> constructor <;> simp <;> grind
          · simp at hs; subst hs; constructor <;> simp <;> grind
        · simp at hs; subst hs
          cases out <;> simp only [contactFresh] <;> (try split) <;> constructor <;> simp <;> grind
  | swallow now out =>
    simp only [step] at hs
    split at hs
    · simp at hs
    · split at hs
      · simp at hs; subst hs
        cases out <;> simp only [ghostContact] <;> constructor <;> simp <;> grind
      · split at hs
        · split at hs
          · simp at hs; subst hs
            cases out <;> simp only [ghostContact] <;> constructor <;> simp <;> grind
          · simp at hs; subst hs; constructor <;> simp <;> grind
        · simp at hs; subst hs
          cases out <;> simp only [ghostContact] <;> constructor <;> simp <;> grind

/-- the server is in rotation or waiting in `_dead_clients` -/
def Alive (s : S) : Prop := s.inNodes = true ∨ s.dead.isSome = true

theorem alive_step (c : Cfg) (s s' : S) (e : Evt) (h : Alive s) (hs : step c s e = some s') : Alive s' := by
  unfold Alive at *
  cases e with
  | tick now =>
    simp only [step] at hs
    split at hs <;> simp at hs
    subst hs; exact h
  | revive now =>
    simp only [step] at hs
    split at hs
    · split at hs <;> simp at hs
      subst hs; simp
    · simp at hs
  | op now out =>
    simp only [step] at hs
    split at hs
    · simp at hs
    · split at hs
      · simp at hs; subst hs
        cases out <;> simp only [contactFresh] <;> (try split) <;> (try simp) <;> (try grind)
      · split at hs
        · split at hs
          · cases out <;> simp at hs <;> subst hs <;> (try simp) <;> (try grind)
          · simp at hs; subst hs; (try simp) <;> (try grind)
        · simp at hs; subst hs
          cases out <;> simp only [contactFresh] <;> (try split) <;> (try simp) <;> (try grind)
  | swallow now out =>
    simp only [step] at hs
    split at hs
    · simp at hs
    · split at hs
      · simp at hs; subst hs
        cases out <;> simp only [ghostContact] <;> (try simp) <;> (try grind)
      · split at hs
        · split at hs
          · simp at hs; subst hs
            cases out <;> simp only [ghostContact] <;> (try simp) <;> (try grind)
          · simp at hs; subst hs; (try simp) <;> (try grind)
        · simp at hs; subst hs
          cases out <;> simp only [ghostContact] <;> (try simp) <;> (try grind)

/-- a server that was never configured: not in rotation, not dead, never contacted -/
def Absent (s : S) : Prop := s.inNodes = false ∧ s.dead = none ∧ s.hist = [] ∧ s.streak = []

theorem absent_step (c : Cfg) (s s' : S) (e : Evt) (h : Absent s) (hs : step c s e = some s') : Absent s' := by
  obtain ⟨h1, h2, h3, h4⟩ := h
  cases e with
  | tick now =>
    simp only [step] at hs
    split at hs <;> simp at hs
    subst hs; exact ⟨h1, h2, h3, h4⟩
  | revive now => simp [step, h2] at hs
  | op now out => simp [step, h1] at hs
  | swallow now out => simp [step, h1] at hs

/-- a server waiting in `_dead_clients` is out of rotation -/
def DeadOut (s : S) : Prop := s.dead.isSome = true → s.inNodes = false

theorem deadOut_step (c : Cfg) (s s' : S) (e : Evt) (h : DeadOut s) (hs : step c s e = some s') : DeadOut s' := by
  unfold DeadOut at *
  cases e with
  | tick now =>
    simp only [step] at hs
    split at hs <;> simp at hs
    subst hs; exact h
  | revive now =>
    simp only [step] at hs
    split at hs
    · split at hs <;> simp at hs
      subst hs; simp
    · simp at hs
  | op now out =>
    simp only [step] at hs
    split at hs
    · simp at hs
    · split at hs
      · simp at hs; subst hs
        cases out <;> simp only [contactFresh] <;> (try split) <;> (try simp) <;> (try grind)
      · split at hs
        · split at hs
          · cases out <;> simp at hs <;> subst hs <;> (try simp) <;> (try grind)
          · simp at hs; subst hs; (try simp) <;> (try grind)
        · simp at hs; subst hs
          cases out <;> simp only [contactFresh] <;> (try split) <;> (try simp) <;> (try grind)
  | swallow now out =>
    simp only [step] at hs
    split at hs
    · simp at hs
    · split at hs
      · simp at hs; subst hs
        cases out <;> simp only [ghostContact] <;> (try simp) <;> (try grind)
      · split at hs
        · split at hs
          · simp at hs; subst hs
            cases out <;> simp only [ghostContact] <;> (try simp) <;> (try grind)
          · simp at hs; subst hs; (try simp) <;> (try grind)
        · simp at hs; subst hs
          cases out <;> simp only [ghostContact] <;> (try simp) <;> (try grind)

/-- the streak is sorted (newest first) and bounded by the clock -/
structure Inv3 (s : S) : Prop where
  sorted : Sorted s.streak
  le : ∀ x, s.streak.head? = some x → x ≤ s.clock

theorem inv3_push {s : S} {now : Nat} (h : Inv3 s) (hc : s.clock ≤ now) : Sorted (now :: s.streak) :=
  sorted_cons h.sorted (fun x hx => Nat.le_trans (h.le x hx) hc)

theorem inv3_contactFresh (c : Cfg) (s : S) (now : Nat) (out : Outcome) (h : Inv3 s) (hc : s.clock ≤ now) :
    Inv3 (contactFresh c s now out) := by
  cases out with
  | ok => exact ⟨by simp [contactFresh, Sorted], by simp [contactFresh]⟩
  | other => exact ⟨h.sorted, fun x hx => Nat.le_trans (h.le x hx) hc⟩
  | oserr =>
    simp only [contactFresh]
    split
    · exact ⟨inv3_push h hc, by simp⟩
    · exact ⟨inv3_push h hc, by simp⟩

theorem inv3_step (c : Cfg) (s s' : S) (e : Evt) (h : Inv3 s) (hs : step c s e = some s') : Inv3 s' := by
  cases e with
  | tick now =>
    simp only [step] at hs
    split at hs <;> simp at hs
    rename_i hc; subst hs
    exact ⟨h.sorted, fun x hx => Nat.le_trans (h.le x hx) hc⟩
  | revive now =>
    simp only [step] at hs
    split at hs
    · split at hs <;> simp at hs
      rename_i hc; subst hs
      exact ⟨h.sorted, fun x hx => Nat.le_trans (h.le x hx) hc.1⟩
    · simp at hs
  | op now out =>
    simp only [step] at hs
    split at hs
    · simp at hs
    · rename_i hg
      have hc : s.clock ≤ now := by
        have : s.clock ≤ now ∧ s.inNodes = true := by simpa using hg
        exact this.1
      split at hs
      · simp at hs; subst hs
        exact inv3_contactFresh c s now out h hc
      · split at hs
        · split at hs
          · cases out <;> simp at hs <;> subst hs
            · exact ⟨by simp [Sorted], by simp⟩
            · exact ⟨inv3_push h hc, by simp⟩
            · exact ⟨h.sorted, fun x hx => Nat.le_trans (h.le x hx) hc⟩
          · simp at hs; subst hs
            exact ⟨h.sorted, fun x hx => Nat.le_trans (h.le x hx) hc⟩
        · simp at hs; subst hs
          exact inv3_contactFresh c _ now out ⟨h.sorted, fun x hx => Nat.le_trans (h.le x hx) hc⟩ (Nat.le_refl _)
  | swallow now out =>
    simp only [step] at hs
    split at hs
    · simp at hs
    · rename_i hg
      have hc : s.clock ≤ now := by
        have : s.clock ≤ now ∧ s.inNodes = true := by simpa using hg
        exact this.1
      have key : ∀ s0 : S, s0.streak = s.streak → s0.clock = now → Inv3 (ghostContact s0 now out) := by
        intro s0 h1 h2
        cases out <;> simp only [ghostContact]
        · exact ⟨by simp [Sorted], by simp⟩
        · refine ⟨by rw [h1]; exact inv3_push h hc, by simp [h2]⟩
        · exact ⟨by rw [h1]; exact h.sorted, fun x hx => by rw [h1] at hx; rw [h2]; exact Nat.le_trans (h.le x hx) hc⟩
      split at hs
      · simp at hs; subst hs; exact key _ rfl rfl
      · split at hs
        · split at hs
          · simp at hs; subst hs; exact key _ rfl rfl
          · simp at hs; subst hs
            exact ⟨h.sorted, fun x hx => Nat.le_trans (h.le x hx) hc⟩
        · simp at hs; subst hs; exact key _ rfl rfl

theorem inv3_initAt (t0 : Nat) : Inv3 (initAt t0) := ⟨by simp [initAt, init, Sorted], by simp [initAt, init]⟩

/-! ### runs of the projection machine -/

/-- `Steps c sw s s'`: `s'` is reached from `s` by finitely many steps; with `sw = false` none of them is a
`swallow` -/
inductive Steps (c : Cfg) (sw : Bool) : S → S → Prop
  | refl (s : S) : Steps c sw s s
  | tail {s s1 s2 : S} (e : Evt) : Steps c sw s s1 → step c s1 e = some s2 → (sw = false → e.isSwallow = false) →
      Steps c sw s s2

theorem Steps.trans {c : Cfg} {sw : Bool} {a b d : S} (h1 : Steps c sw a b) (h2 : Steps c sw b d) : Steps c sw a d := by
  induction h2 with
  | refl => exact h1
  | tail e _ hs hsw ih => exact Steps.tail e ih hs hsw

theorem Steps.single {c : Cfg} {sw : Bool} {a b : S} (e : Evt) (hs : step c a e = some b)
    (hsw : sw = false → e.isSwallow = false) : Steps c sw a b := Steps.tail e (Steps.refl a) hs hsw

theorem Steps.mono {c : Cfg} {sw sw' : Bool} {a b : S} (h : Steps c sw a b) (hm : sw' = false → sw = false) :
    Steps c sw' a b := by
  induction h with
  | refl => exact Steps.refl _
  | tail e _ hs hsw ih => exact Steps.tail e ih hs (fun h => hsw (hm h))

theorem Steps.small {c : Cfg} {sw : Bool} {a b : S} (h : Steps c sw a b) (h0 : Small c a) : Small c b := by
  induction h with
  | refl => exact h0
  | tail e _ hs _ ih => exact small_step c _ _ e ih hs

theorem Steps.alive {c : Cfg} {sw : Bool} {a b : S} (h : Steps c sw a b) (h0 : Alive a) : Alive b := by
  induction h with
  | refl => exact h0
  | tail e _ hs _ ih => exact alive_step c _ _ e ih hs

theorem Steps.absent {c : Cfg} {sw : Bool} {a b : S} (h : Steps c sw a b) (h0 : Absent a) : Absent b := by
  induction h with
  | refl => exact h0
  | tail e _ hs _ ih => exact absent_step c _ _ e ih hs

theorem Steps.deadOut {c : Cfg} {sw : Bool} {a b : S} (h : Steps c sw a b) (h0 : DeadOut a) : DeadOut b := by
  induction h with
  | refl => exact h0
  | tail e _ hs _ ih => exact deadOut_step c _ _ e ih hs

theorem Steps.inv3 {c : Cfg} {sw : Bool} {a b : S} (h : Steps c sw a b) (h0 : Inv3 a) : Inv3 b := by
  induction h with
  | refl => exact h0
  | tail e _ hs _ ih => exact inv3_step c _ _ e ih hs

theorem Steps.inv {c : Cfg} {a b : S} (h : Steps c false a b) (h0 : Inv c a) : Inv c b := by
  induction h with
  | refl => exact h0
  | tail e _ hs hsw ih => exact inv_step c _ _ e ih hs (hsw rfl)

theorem Steps.inv2 {c : Cfg} {a b : S} (h : Steps c false a b) (h0 : Inv c a) (h2 : Inv2 c a) :
    Inv c b ∧ Inv2 c b := by
  induction h with
  | refl => exact ⟨h0, h2⟩
  | tail e _ hs hsw ih => exact ⟨inv_step c _ _ e ih.1 hs (hsw rfl), inv2_step c _ _ e ih.1 ih.2 hs (hsw rfl)⟩

end FO2
