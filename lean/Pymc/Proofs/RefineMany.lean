import Pymc.Proofs.RefineStore
/-! C05 for delete_many and set_many: one reply line per key. -/
namespace Client
open Bytes Wire Exchange Readers AbsMap ApiSpec

theorem renderAll_quiet (s : St) (reqs : List Req) (h : ∀ r ∈ reqs, reqNoreply r = true) :
    Server.renderAll reqs (applyAll s reqs).2 = [] := by
  induction reqs generalizing s with
  | nil => rfl
  | cons r rs ih =>
    simp only [applyAll, Server.renderAll]
    rw [ih _ (fun x hx => h x (by simp [hx])), apply_quiet s r (h r (by simp))]
    rfl

/-- every request is answered by one plain line from which the store loop reads a value `v` that
matches the reply's meaning -/
theorem renderAll_store_lines (verb : SVerb) (s : St) (reqs : List Req)
    (h : ∀ r ∈ reqs, ∀ s, StoreRep verb (AbsMap.apply s r).2) :
    ∃ lvs : List (Bytes × Option Bool),
      Server.renderAll reqs (applyAll s reqs).2 = joinLines (lvs.map (·.1)) ∧
      (∀ p ∈ lvs, PlainLine p.1 ∧ storeResultValue verb p.1 = some p.2) ∧
      lvs.length = reqs.length ∧
      lvs.map (fun p => some p.2) = (applyAll s reqs).2.map storeOutcome := by
  induction reqs generalizing s with
  | nil => exact ⟨[], rfl, by simp, rfl, by simp [applyAll]⟩
  | cons r rs ih =>
    obtain ⟨lvs, h1, h2, h3, h4⟩ := ih (AbsMap.apply s r).1 (fun x hx => h x (by simp [hx]))
    obtain ⟨l, v, g1, g2, g3, g4⟩ := store_rep_line verb _ (h r (by simp) s) r
    refine ⟨(l, v) :: lvs, ?_, ?_, by simp [h3], ?_⟩
    · simp only [applyAll, Server.renderAll, h1, g1, List.map_cons, joinLines_cons]
    · intro p hp
      rcases List.mem_cons.1 hp with rfl | hp
      · exact ⟨g2, g3⟩
      · exact h2 p hp
    · simp only [applyAll, List.map_cons, h4, g4]

theorem renderAll_lines (s : St) (reqs : List Req)
    (h : ∀ r ∈ reqs, ∀ s, ∃ l, Server.render r (AbsMap.apply s r).2 = l ++ CRLF ∧ PlainLine l) :
    ∃ ls : List Bytes,
      Server.renderAll reqs (applyAll s reqs).2 = joinLines ls ∧ (∀ l ∈ ls, PlainLine l) ∧
      ls.length = reqs.length := by
  induction reqs generalizing s with
  | nil => exact ⟨[], rfl, by simp, rfl⟩
  | cons r rs ih =>
    obtain ⟨ls, h1, h2, h3⟩ := ih (AbsMap.apply s r).1 (fun x hx => h x (by simp [hx]))
    obtain ⟨l, g1, g2⟩ := h r (by simp) s
    refine ⟨l :: ls, ?_, ?_, by simp [h3]⟩
    · simp only [applyAll, Server.renderAll, h1, g1, joinLines_cons]
    · intro p hp
      rcases List.mem_cons.1 hp with rfl | hp
      · exact g2
      · exact h2 p hp

/-! ## delete_many -/
theorem refines_deleteMany (cfg : Cfg) (s : St) (ks : List Key.K) (noreply : Option Bool)
    (hk : ∀ k ∈ ks, KeyOK cfg k) :
    onServer cfg s (.deleteMany ks noreply) =
      ((spec cfg s (.deleteMany ks noreply)).1, (spec cfg s (.deleteMany ks noreply)).2, true) := by
  by_cases hne : ks = []
  · subst hne
    rw [onServer_not_sent]
    · simp [call, spec]
    · simp [call]
  cases hm : ks.mapM (checkKey cfg) with
  | error err =>
    have henc : ∀ nr, encodeDelete cfg ks nr = .error .illegalInput := by
      intro nr; rw [encodeDelete_eq, hm]; cases err; rfl
    rw [onServer_not_sent]
    · simp [call, hne, henc, early, spec, hm]
    · simp [call, hne, henc, early]
  | ok ws =>
    have hws : ∀ w ∈ ws, validKey w = true := by
      intro w hw
      obtain ⟨k, hkm, hkw⟩ := mapM_ok_mem _ _ _ hm w hw
      exact checkKey_validKey hkw (fun h => hk k hkm (h ▸ hkw))
    have henc : ∀ nr, encodeDelete cfg ks nr = .ok (ws.map fun w => deleteCmd w nr) := by
      intro nr; rw [encodeDelete_eq, hm]; rfl
    have hparse : ∀ nr, parseAll (ws.map fun w => deleteCmd w nr).flatten.length
        (ws.map fun w => deleteCmd w nr).flatten = some (ws.map fun w => Req.delete w nr) := by
      intro nr
      exact parseAll_map ws _ _ (fun w hw => parsesAs_of fun rest => C02_parse_deleteCmd w nr rest (hws w hw))
    simp only [spec, hne, if_false, hm, nr_eq]
    rcases Bool.eq_false_or_eq_true (boolOr noreply cfg.defaultNoreply) with hnr | hnr
    · simp only [hnr]
      rw [onServer_misc_quiet cfg s _ (ws.map fun w => deleteCmd w true) _ (ws.map fun w => Req.delete w true)
        _ _ (fun evs => by simp only [call, hne, if_false, hnr, henc]; rfl) (hparse true) rfl]
      exact renderAll_quiet s _ (by simp [reqNoreply])
    · simp only [hnr]
      obtain ⟨ls, h1, h2, h3⟩ := renderAll_lines s (ws.map fun w => Req.delete w false) (by
        intro r hr s
        obtain ⟨w, _, rfl⟩ := List.mem_map.1 hr
        rw [apply_loud _ _ rfl]
        rcases applyLoud_delete s w false with h | h
        · exact ⟨_, by rw [h]; rfl, plain_DELETED⟩
        · exact ⟨_, by rw [h]; rfl, plain_NOT_FOUND⟩)
      rw [onServer_misc_loud cfg s _ (ws.map fun w => deleteCmd w false) _ (ws.map fun w => Req.delete w false)
        _ _ ls (fun evs => by simp only [call, hne, if_false, hnr, henc]; rfl) (hparse false) rfl h1 h2
        (by simpa using h3)]

/-! ## set_many -/
theorem failed_all_stored (items : List (Key.K × Val)) (rs : List (Option Bool))
    (h : ∀ r ∈ rs, r = some true) :
    ((items.zip rs).filterMap fun (x : (Key.K × Val) × Option Bool) =>
      if x.2 = some true then Option.none else some x.1.1) = [] := by
  induction items generalizing rs with
  | nil => simp
  | cons a items ih =>
    cases rs with
    | nil => simp
    | cons r rs =>
      have hr := h r (by simp)
      simp only [List.zip_cons_cons, List.filterMap_cons, hr, if_true]
      exact ih rs (fun x hx => h x (by simp [hx]))

theorem storeOutcome_stored (rep : Reply) (v : Option Bool) (h : storeOutcome rep = some v) :
    v = some true ↔ rep = .stored := by
  cases rep <;> simp [storeOutcome] at h <;> subst h <;> simp

theorem failed_agree (items : List (Key.K × Val)) (lvs : List (Bytes × Option Bool)) (reps : List Reply)
    (h : lvs.map (fun p => some p.2) = reps.map storeOutcome) :
    ((items.zip (lvs.map (·.2))).filterMap fun (x : (Key.K × Val) × Option Bool) =>
      if x.2 = some true then Option.none else some x.1.1) =
    ((items.zip reps).filterMap fun (x : (Key.K × Val) × Reply) =>
      if x.2 = .stored then Option.none else some x.1.1) := by
  induction lvs generalizing items reps with
  | nil =>
    cases reps with
    | nil => simp
    | cons _ _ => simp at h
  | cons p lvs ih =>
    cases reps with
    | nil => simp at h
    | cons rep reps =>
      simp only [List.map_cons, List.cons.injEq] at h
      cases items with
      | nil => simp
      | cons a items =>
        have := storeOutcome_stored rep p.2 h.1.symm
        simp only [List.map_cons, List.zip_cons_cons, List.filterMap_cons, ih items reps h.2]
        by_cases hs : rep = Reply.stored
        · simp [hs, this.2 hs]
        · have hp : ¬ p.2 = some true := fun h => hs (this.1 h)
          simp [hs, hp]

/-- `set_many`'s post-processing: the keys whose reply was not `STORED` -/
def postSetMany (items : List (Key.K × Val)) (rs : List (Option Bool)) : Except Exc Res :=
  .ok (.keys ((items.zip rs).filterMap fun (x : (Key.K × Val) × Option Bool) =>
    if x.2 = some true then Option.none else some x.1.1))

theorem call_setMany (cfg : Cfg) (items : List (Key.K × Val)) (expire : IntArg) (noreply : Option Bool)
    (flags : Option Int) (cmds : List Bytes) (nr : Bool) (hnr : boolOr noreply cfg.defaultNoreply = nr)
    (henc : encodeStore cfg .set items expire nr flags 0 none = .ok cmds) (evs : List Ev) :
    call cfg false true (.setMany items expire noreply flags) { evs := evs } =
      mapOut (exchangeStore .set cmds nr true { evs := evs }) (postSetMany items) := by
  simp only [call, hnr, henc]
  rfl

theorem refines_setMany (cfg : Cfg) (s : St) (items : List (Key.K × Val)) (expire : IntArg)
    (noreply : Option Bool) (flags : Option Int)
    (hk : ∀ kv ∈ items, KeyOK cfg kv.1) (hf : FlagsOK flags) :
    onServer cfg s (.setMany items expire noreply flags) =
      ((spec cfg s (.setMany items expire noreply flags)).1,
       (spec cfg s (.setMany items expire noreply flags)).2, true) := by
  have hspecm : ∀ (x : Except Wire.Err (List (Bytes × Bytes))),
      items.mapM (keyData cfg) = x →
      (items.mapM fun kv => do
        let w ← Wire.checkKey cfg kv.1
        let d ← encodeVal cfg.utf8 kv.2
        pure (w, d)) = x := fun x h => h
  cases expire with
  | nonInt =>
    rw [onServer_not_sent]
    · simp only [call, encodeStore_nonInt, early, spec, checkInteger]
      cases (items.mapM fun kv => do
        let w ← Wire.checkKey cfg kv.1
        let d ← encodeVal cfg.utf8 kv.2
        pure (w, d)) <;> rfl
    · simp [call, encodeStore_nonInt, early]
  | int e =>
  cases hm : items.mapM (keyData cfg) with
  | error err =>
    have henc : ∀ nr, encodeStore cfg .set items (.int e) nr flags 0 none = .error .illegalInput := by
      intro nr; rw [encodeStore_int, hm]; cases err; rfl
    rw [onServer_not_sent]
    · simp only [call, henc, early, spec, hspecm _ hm]
    · simp [call, henc, early]
  | ok wds =>
    have hfl : sentFlags flags 0 = flagsOf flags := by cases flags <;> simp [sentFlags, flagsOf]
    have hfl0 : 0 ≤ flagsOf flags := by
      cases flags with
      | none => simp [flagsOf]
      | some f => exact hf f rfl
    have hwds : ∀ wd ∈ wds, validKey wd.1 = true := by
      intro wd hwd
      obtain ⟨kv, hkv, hkd⟩ := mapM_ok_mem _ _ _ hm wd hwd
      have hck := ((keyData_ok_iff cfg kv wd).1 hkd).1
      exact checkKey_validKey hck (fun h => hk kv hkv (h ▸ hck))
    have henc : ∀ nr, encodeStore cfg .set items (.int e) nr flags 0 none =
        .ok (wds.map fun wd => storeCmd .set wd.1 (flagsOf flags) e wd.2 none nr) := by
      intro nr; rw [encodeStore_int, hm, hfl]; rfl
    have hparse : ∀ nr, parseAll (wds.map fun wd => storeCmd .set wd.1 (flagsOf flags) e wd.2 none nr).flatten.length
        (wds.map fun wd => storeCmd .set wd.1 (flagsOf flags) e wd.2 none nr).flatten =
        some (wds.map fun wd => Req.store .set wd.1 (flagsOf flags).toNat e wd.2 none nr) := by
      intro nr
      have hcv : (Option.none : Option Bytes).isSome ↔ SVerb.set = .cas := by simp
      have hcw : ∀ c, (Option.none : Option Bytes) = some c → c ≠ [] ∧ c.all isDigit = true := by simp
      exact parseAll_map wds (fun wd => storeCmd .set wd.1 (flagsOf flags) e wd.2 none nr)
        (fun wd => Req.store .set wd.1 (flagsOf flags).toNat e wd.2 none nr)
        (fun wd hwd => parsesAs_of fun rest =>
          C02_parse_storeCmd .set wd.1 (flagsOf flags) e wd.2 none nr rest (hwds wd hwd) hfl0 hcv hcw)
    simp only [spec, hspecm _ hm, checkInteger, nr_eq]
    rcases Bool.eq_false_or_eq_true (boolOr noreply cfg.defaultNoreply) with hnr | hnr
    · simp only [hnr, if_true]
      have hc := call_setMany cfg items (.int e) noreply flags _ true hnr (henc true)
      have hq := onServer_store_quiet cfg s _ .set _ (postSetMany items) _
        (applyAll s (wds.map fun wd => Req.store .set wd.1 (flagsOf flags).toNat e wd.2 none true)).1
        (applyAll s (wds.map fun wd => Req.store .set wd.1 (flagsOf flags).toNat e wd.2 none true)).2
        hc (hparse true) rfl
      rw [hq]
      · rw [postSetMany, failed_all_stored items _ (by
          intro r hr; obtain ⟨_, _, rfl⟩ := List.mem_map.1 hr; rfl)]
      · exact renderAll_quiet s _ (by
          intro r hr; obtain ⟨_, _, rfl⟩ := List.mem_map.1 hr; rfl)
    · simp only [hnr, Bool.false_eq_true, if_false]
      obtain ⟨lvs, h1, h2, h3, h4⟩ := renderAll_store_lines .set s
        (wds.map fun wd => Req.store .set wd.1 (flagsOf flags).toNat e wd.2 none false) (by
          intro r hr s
          obtain ⟨wd, _, rfl⟩ := List.mem_map.1 hr
          rw [apply_loud _ _ rfl]
          exact applyLoud_store_rep ..)
      have hc := call_setMany cfg items (.int e) noreply flags _ false hnr (henc false)
      have hq := onServer_store_loud cfg s _ .set _ (postSetMany items) _
        (applyAll s (wds.map fun wd => Req.store .set wd.1 (flagsOf flags).toNat e wd.2 none false)).1
        (applyAll s (wds.map fun wd => Req.store .set wd.1 (flagsOf flags).toNat e wd.2 none false)).2
        lvs hc (hparse false) rfl h1 h2 (by simpa using h3)
      rw [hq]
      rw [postSetMany, failed_agree items _ _ h4]
end Client
