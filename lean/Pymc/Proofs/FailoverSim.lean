import Pymc.Proofs.FailoverOps
import Pymc.Proofs.FailoverProj
/-! C13: the simulation lemma (`project_step`): every step of the full failover machine, projected on one
    server `s`, is a finite sequence of steps of the single-server machine `FO2` (a `tick`, possibly a `revive`,
    then an `op` — or a `swallow` for a `set_many` batch under `ignore_exc` — if `s` is contacted). -/
namespace Failover
open FO2 (S Evt Steps step)

def toOut : Outcome → FO2.Outcome
  | .ok => .ok
  | .oserror => .oserr
  | .othererror => .other

def pcfg (c : Cfg) (h : c.rt < c.dt) : FO2.Cfg := ⟨c.ra, c.rt, c.dt, h⟩

/-! ### the ghost lists read off the contact log (chronological), newest first -/

def histStep (s : Srv) (acc : List Time) (x : Contact) : List Time :=
  if x.1 = s ∧ x.2.2 = .oserror then x.2.1 :: acc else acc

/-- times of the contacts to `s` that failed with OSError, newest first -/
def histOf (s : Srv) (L : List Contact) : List Time := L.foldl (histStep s) []

def streakStep (s : Srv) (acc : List Time) (x : Contact) : List Time :=
  if x.1 = s then
    match x.2.2 with
    | .ok => []
    | .oserror => x.2.1 :: acc
    | .othererror => acc
  else acc

/-- times of the OSError contacts to `s` since the last successful contact to `s`, newest first -/
def streakOf (s : Srv) (L : List Contact) : List Time := L.foldl (streakStep s) []

theorem histOf_append (s : Srv) (L cs : List Contact) : histOf s (L ++ cs) = cs.foldl (histStep s) (histOf s L) := by
  simp [histOf, List.foldl_append]

theorem streakOf_append (s : Srv) (L cs : List Contact) :
    streakOf s (L ++ cs) = cs.foldl (streakStep s) (streakOf s L) := by
  simp [streakOf, List.foldl_append]

theorem ghost_other (s b : Srv) (hne : b ≠ s) (L cs : List Contact) (h : ∀ x ∈ cs, x.1 = b) :
    histOf s (L ++ cs) = histOf s L ∧ streakOf s (L ++ cs) = streakOf s L := by
  rw [histOf_append, streakOf_append]
  generalize histOf s L = a
  generalize streakOf s L = a'
  induction cs with
  | nil => simp
  | cons x r ih =>
    have hx : x.1 ≠ s := by rw [h x (by simp)]; exact hne
    simp only [List.foldl_cons, histStep, streakStep, hx, false_and, if_false]
    exact ih (fun y hy => h y (by simp [hy]))

/-- the projection of the full state and contact log on server `s` -/
structure Sim (s : Srv) (st : State) (L : List Contact) (P : S) : Prop where
  view : (P.inNodes, P.failed, P.dead) = view s st
  hist : P.hist = histOf s L
  streak : P.streak = streakOf s L

theorem sim_init (s : Srv) (servers : List Srv) (t0 : Time) (hs : s ∈ servers) :
    Sim s (init servers t0) [] (FO2.initAt t0) := by
  constructor <;> simp [FO2.initAt, FO2.init, view, init, dedup_mem, hs, alookup, histOf, streakOf]

theorem sim_tick {c : Cfg} (hlt : c.rt < c.dt) {s : Srv} {st : State} {L : List Contact} {P : S} {now : Time}
    (hsim : Sim s st L P) (hclk : P.clock ≤ now) :
    step (pcfg c hlt) P (.tick now) = some { P with clock := now } ∧ Sim s st L { P with clock := now } := by
  refine ⟨by simp [step, hclk], ⟨hsim.view, hsim.hist, hsim.streak⟩⟩

theorem sim_afterRetry {c : Cfg} (hlt : c.rt < c.dt) {s : Srv} {st : State} {L : List Contact} {P : S}
    {now : Time} (hwf : WF c st) (hsim : Sim s st L P) (hclk : P.clock = now) :
    ∃ P', Steps (pcfg c hlt) false P P' ∧ Sim s (afterRetry c now st) L P' ∧ P'.clock = now := by
  have hv := hsim.view
  simp only [view, Prod.mk.injEq] at hv
  obtain ⟨hv1, hv2, hv3⟩ := hv
  unfold afterRetry
  split
  · exact ⟨P, Steps.refl _, hsim, hclk⟩
  · split
    · by_cases hc : s ∈ candidates c now st
      · obtain ⟨td, h1, h2⟩ := (mem_candidates c now st hwf.deadNodup s).1 hc
        have hPd : P.dead = some td := hv3.trans h1
        refine ⟨{ P with clock := now, inNodes := true, dead := none, epi := 0 },
          Steps.single (.revive now) ?_ (by simp [Evt.isSwallow]), ⟨?_, hsim.hist, hsim.streak⟩, rfl⟩
        · have h2' : now - td > (pcfg c hlt).dt := h2
          simp only [step, hPd]
          rw [if_pos ⟨by omega, h2'⟩]
        · simp only [view, revived, Prod.mk.injEq]
          refine ⟨?_, hv2, ?_⟩
          · simp [addNodes_mem, hc]
          · rw [alookup_filter (fun k => !(candidates c now st).contains k)]
            simp [hc]
      · refine ⟨P, Steps.refl _, ⟨?_, hsim.hist, hsim.streak⟩, hclk⟩
        simp only [view, revived, Prod.mk.injEq]
        refine ⟨?_, hv2, ?_⟩
        · simp [addNodes_mem, hc, hv1]
        · rw [alookup_filter (fun k => !(candidates c now st).contains k)]
          simp [hc, hv3]
    · exact ⟨P, Steps.refl _, hsim, hclk⟩

/-- a batch call on another server does not change the projection on `s` -/
theorem sim_other {c : Cfg} {now : Time} {env : Srv → Outcome} {s b : Srv} {st : State} {L : List Contact}
    {P : S} {out : State × Result × List Contact} (hne : b ≠ s) (hok : StepOK c now env st b out)
    (hsim : Sim s st L P) : Sim s out.1 (L ++ out.2.2) P := by
  have hg := ghost_other s b hne L out.2.2 (by
    intro x hx
    rcases hok.contacts with h | h <;> rw [h] at hx <;> simp at hx
    rw [hx])
  exact ⟨hsim.view.trans (hok.frame s (Ne.symm hne)).symm, hsim.hist.trans hg.1.symm, hsim.streak.trans hg.2.symm⟩

theorem ghost_self (s : Srv) (now : Time) (o : Outcome) (L : List Contact) :
    histOf s (L ++ [(s, now, o)]) = (if o = .oserror then now :: histOf s L else histOf s L) ∧
    streakOf s (L ++ [(s, now, o)]) = (match o with
      | .ok => []
      | .oserror => now :: streakOf s L
      | .othererror => streakOf s L) := by
  rw [histOf_append, streakOf_append]
  cases o <;> simp [histStep, streakStep]

theorem sim_invokeSpec {c : Cfg} (hlt : c.rt < c.dt) {now : Time} {env : Srv → Outcome} {s : Srv} {st : State}
    {L : List Contact} {P : S} (hwf : WF c st) (hsim : Sim s st L P) (hPf : P.failed = none)
    (_hclk : P.clock = now) :
    Sim s (invokeSpec c now env st s).1 (L ++ (invokeSpec c now env st s).2.2)
      (FO2.contactFresh (pcfg c hlt) P now (toOut (env s))) := by
  have hv := hsim.view
  simp only [view, Prod.mk.injEq] at hv
  obtain ⟨hv1, hv2, hv3⟩ := hv
  have hf : alookup s st.failed = none := hv2.symm.trans hPf
  have hg := ghost_self s now (env s) L
  unfold invokeSpec
  cases he : env s
  · rw [he] at hg
    simp only [toOut, FO2.contactFresh]
    exact ⟨by simp [view, hv1, hv2, hv3], by simp [hg.1, hsim.hist], by simp [hg.2]⟩
  · rw [he] at hg
    simp only [toOut, FO2.contactFresh, marked, hf]
    by_cases hra : c.ra > 0
    · have hra' : (pcfg c hlt).ra > 0 := hra
      simp only [hra, hra', if_true]
      exact ⟨by simp [view, hv1, hv3, alookup_ainsert_self], by simp [hg.1, hsim.hist],
        by simp [hg.2, hsim.streak]⟩
    · have hra' : ¬ (pcfg c hlt).ra > 0 := hra
      simp only [hra, hra', if_false]
      exact ⟨by simp [view_evict_self hwf], by simp [hg.1, hsim.hist], by simp [hg.2, hsim.streak]⟩
  · rw [he] at hg
    simp only [toOut, FO2.contactFresh]
    exact ⟨by simp [view, hv1, hv2, hv3], by simp [hg.1, hsim.hist], by simp [hg.2, hsim.streak]⟩

/-- `project_step` for a batch call on `s` itself: it is the `op` step of the projection -/
theorem sim_self {c : Cfg} (hlt : c.rt < c.dt) {now : Time} {env : Srv → Outcome} {s : Srv} {st : State}
    {L : List Contact} {P : S} (hwf : WF c st) (hin : s ∈ st.nodes) (hsim : Sim s st L P)
    (hclk : P.clock = now) :
    ∃ P', step (pcfg c hlt) P (.op now (toOut (env s))) = some P' ∧
      Sim s (runSpec c now env st s).1 (L ++ (runSpec c now env st s).2.2) P' ∧ P'.clock = now := by
  have hv := hsim.view
  simp only [view, Prod.mk.injEq] at hv
  obtain ⟨hv1, hv2, hv3⟩ := hv
  have hPin : P.inNodes = true := by simp [hv1, hin]
  have hguard : ¬ ¬ (P.clock ≤ now ∧ P.inNodes = true) := by simp [hclk, hPin]
  unfold runSpec
  cases hf : alookup s st.failed with
  | none =>
    have hPf : P.failed = none := hv2.trans hf
    refine ⟨_, by simp only [step, if_neg hguard, hPf], sim_invokeSpec hlt hwf hsim hPf hclk, ?_⟩
    cases env s <;> simp [toOut, FO2.contactFresh] <;> split <;> rfl
  | some p =>
    obtain ⟨a, ft⟩ := p
    have hPf : P.failed = some (a, ft) := hv2.trans hf
    simp only []
    by_cases h1 : a < c.ra
    · have h1' : a < (pcfg c hlt).ra := h1
      simp only [h1, if_true]
      by_cases h2 : now - ft > c.rt
      · have h2' : now - ft > (pcfg c hlt).rt := h2
        simp only [h2, if_true]
        have hg := ghost_self s now (env s) L
        cases he : env s
        · rw [he] at hg
          refine ⟨{ P with clock := now, failed := none, streak := [], epi := 0 }, ?_, ?_, rfl⟩
          · simp only [step, if_neg hguard, hPf, h1', h2', if_true, toOut]
          · exact ⟨by simp [view, hv1, hv3, alookup_filter_self], by simp [hg.1, hsim.hist], by simp [hg.2]⟩
        · rw [he] at hg
          refine ⟨{ P with
              clock := now, failed := some (a + 1, now), hist := now :: P.hist,
              streak := now :: P.streak, epi := P.epi + 1 }, ?_, ?_, rfl⟩
          · simp only [step, if_neg hguard, hPf, h1', h2', if_true, toOut]
          · exact ⟨by simp [view, hv1, hv3, alookup_ainsert_self], by simp [hg.1, hsim.hist],
              by simp [hg.2, hsim.streak]⟩
        · rw [he] at hg
          refine ⟨{ P with clock := now }, ?_, ?_, rfl⟩
          · simp only [step, if_neg hguard, hPf, h1', h2', if_true, toOut]
          · exact ⟨by simp [view, hv1, hv2, hv3], by simp [hg.1, hsim.hist], by simp [hg.2, hsim.streak]⟩
      · have h2' : ¬ now - ft > (pcfg c hlt).rt := h2
        simp only [h2, if_false]
        refine ⟨{ P with clock := now }, ?_, ?_, rfl⟩
        · simp only [step, if_neg hguard, hPf, h1', h2', if_true, if_false]
        · exact ⟨by simp [view, hv1, hv2, hv3], by simp [hsim.hist], by simp [hsim.streak]⟩
    · have h1' : ¬ a < (pcfg c hlt).ra := h1
      simp only [h1, if_false]
      have hsim' : Sim s (evict now st s) L
          { P with clock := now, failed := none, dead := some now, inNodes := false } :=
        ⟨by simp [view_evict_self hwf], hsim.hist, hsim.streak⟩
      refine ⟨_, by simp only [step, if_neg hguard, hPf, h1', if_false],
        sim_invokeSpec hlt (wf_evict s hwf) hsim' rfl rfl, ?_⟩
      cases env s <;> simp [toOut, FO2.contactFresh] <;> split <;> rfl


/-- `project_step` for a `set_many` batch on `s` under `ignore_exc`: it is the `swallow` step -/
theorem sim_swallow {c : Cfg} (hlt : c.rt < c.dt) {now : Time} {env : Srv → Outcome} {s : Srv} {st : State}
    {L : List Contact} {P : S} (hi : c.ignoreExc = true) (hwf : WF c st) (hin : s ∈ st.nodes)
    (hsim : Sim s st L P) (hclk : P.clock = now) :
    ∃ P', step (pcfg c hlt) P (.swallow now (toOut (env s))) = some P' ∧
      Sim s (safelyRunSetMany c now env st s).1 (L ++ (safelyRunSetMany c now env st s).2.2) P' ∧
      P'.clock = now := by
  have hv := hsim.view
  simp only [view, Prod.mk.injEq] at hv
  obtain ⟨hv1, hv2, hv3⟩ := hv
  have hPin : P.inNodes = true := by simp [hv1, hin]
  have hguard : ¬ ¬ (P.clock ≤ now ∧ P.inNodes = true) := by simp [hclk, hPin]
  have hg := ghost_self s now (env s) L
  have ghost : ∀ (st' : State) (P' : S), (P'.inNodes, P'.failed, P'.dead) = view s st' → P'.hist = P.hist →
      P'.streak = P.streak → Sim s st' (L ++ [(s, now, env s)]) (FO2.ghostContact P' now (toOut (env s))) := by
    intro st' P' h1 h2 h3
    cases he : env s <;> rw [he] at hg <;> simp only [toOut, FO2.ghostContact]
    · exact ⟨h1, by simp [hg.1, h2, hsim.hist], by simp [hg.2]⟩
    · exact ⟨h1, by simp [hg.1, h2, hsim.hist], by simp [hg.2, h3, hsim.streak]⟩
    · exact ⟨h1, by simp [hg.1, h2, hsim.hist], by simp [hg.2, h3, hsim.streak]⟩
  have hclkG : ∀ P' : S, (FO2.ghostContact P' now (toOut (env s))).clock = P'.clock := by
    intro P'; cases env s <;> rfl
  rw [safelyRunSetMany_eq_of_ignore now env st s hi, safelyRunFunc_eq hwf hin]
  unfold runSpec
  cases hf : alookup s st.failed with
  | none =>
    have hPf : P.failed = none := hv2.trans hf
    simp only [invokeSpec, List.map_cons, List.map_nil]
    refine ⟨FO2.ghostContact { P with clock := now } now (toOut (env s)),
      by simp only [step, if_neg hguard, hPf], ?_, by rw [hclkG]⟩
    exact ghost st { P with clock := now } hsim.view rfl rfl
  | some p =>
    obtain ⟨a, ft⟩ := p
    have hPf : P.failed = some (a, ft) := hv2.trans hf
    simp only []
    by_cases h1 : a < c.ra
    · have h1' : a < (pcfg c hlt).ra := h1
      simp only [h1, if_true]
      by_cases h2 : now - ft > c.rt
      · have h2' : now - ft > (pcfg c hlt).rt := h2
        simp only [h2, if_true, List.map_cons, List.map_nil]
        refine ⟨FO2.ghostContact { P with clock := now, failed := none } now (toOut (env s)),
          by simp only [step, if_neg hguard, hPf, h1', h2', if_true], ?_, by rw [hclkG]⟩
        exact ghost _ { P with clock := now, failed := none }
          (by simp [view, hv1, hv3, alookup_filter_self]) rfl rfl
      · have h2' : ¬ now - ft > (pcfg c hlt).rt := h2
        simp only [h2, if_false, List.map_nil, List.append_nil]
        refine ⟨{ P with clock := now }, by simp only [step, if_neg hguard, hPf, h1', h2', if_true, if_false],
          ⟨hsim.view, hsim.hist, hsim.streak⟩, rfl⟩
    · have h1' : ¬ a < (pcfg c hlt).ra := h1
      simp only [h1, if_false, invokeSpec, List.map_cons, List.map_nil]
      refine ⟨FO2.ghostContact { P with clock := now, failed := none, dead := some now, inNodes := false } now
          (toOut (env s)),
        by simp only [step, if_neg hguard, hPf, h1', if_false], ?_, by rw [hclkG]⟩
      exact ghost _ { P with clock := now, failed := none, dead := some now, inNodes := false }
        (by simp [view_evict_self hwf]) rfl rfl

/-- `project_step`: one public call of the full machine, projected on server `s`, is a run of the
single-server machine; it contains a `swallow` step only if the call is a `set_many` under `ignore_exc` -/
theorem sim_stepOp {Key : Type} {c : Cfg} (hlt : c.rt < c.dt) {route : List Srv → Key → Option Srv}
    (hlaw : RouteLaw route) {s : Srv} {st : State} {L : List Contact} {P : S} (e : Event Key)
    (hwf : WF c st) (hsim : Sim s st L P) (hclk : P.clock ≤ e.now) :
    ∃ P', Steps (pcfg c hlt) (c.ignoreExc && e.op.isSetMany) P P' ∧
      Sim s (stepOp c route st e).1 (L ++ (stepOp c route st e).2.2) P' ∧ P'.clock = e.now ∧
      WF c (stepOp c route st e).1 := by
  obtain ⟨ht1, ht2⟩ := sim_tick hlt hsim hclk
  have hst0 : Steps (pcfg c hlt) false P { P with clock := e.now } :=
    Steps.single (.tick e.now) ht1 (by simp [Evt.isSwallow])
  have h := stepOp_ind hlaw e hwf
    (fun st' cs => ∃ P', Steps (pcfg c hlt) (c.ignoreExc && e.op.isSetMany) P P' ∧
      Sim s st' (L ++ cs) P' ∧ P'.clock = e.now) ?_ ?_
  · obtain ⟨⟨P', h1, h2, h3⟩, h4⟩ := h
    exact ⟨P', h1, h2, h3, h4⟩
  · -- one batch call
    intro st' b cs0 _ hwf' hin' ⟨P', hs1, hs2, hs3⟩
    have hok := stepOK_runOneOf (c := c) (now := e.now) (env := e.env) e.op hwf' hin'
    by_cases hb : b = s
    · subst hb
      rw [← List.append_assoc]
      have func : runOneOf c e.now e.env e.op st' b = safelyRunFunc c e.now e.env st' b →
          ∃ P'', Steps (pcfg c hlt) (c.ignoreExc && e.op.isSetMany) P P'' ∧
            Sim b (runOneOf c e.now e.env e.op st' b).1 (L ++ cs0 ++ (runOneOf c e.now e.env e.op st' b).2.2) P'' ∧
            P''.clock = e.now := by
        intro heq
        rw [heq, safelyRunFunc_eq hwf' hin']
        obtain ⟨P'', h1, h2, h3⟩ := sim_self hlt (env := e.env) hwf' hin' hs2 hs3
        exact ⟨P'', Steps.tail _ hs1 h1 (by simp [Evt.isSwallow]), h2, h3⟩
      cases hop : e.op with
      | runCmd k => rw [hop] at func; exact func (by simp [runOneOf])
      | getMany ks => rw [hop] at func; exact func (by simp [runOneOf])
      | setMany ks =>
        rw [hop] at func hs1
        rcases Bool.eq_false_or_eq_true c.ignoreExc with hi | hi
        · simp only [runOneOf]
          obtain ⟨P'', h1, h2, h3⟩ := sim_swallow hlt (env := e.env) hi hwf' hin' hs2 hs3
          exact ⟨P'', Steps.tail _ hs1 h1 (by simp [hi, Op.isSetMany]), h2, h3⟩
        · exact func (by simp only [runOneOf]; exact safelyRunSetMany_eq_of_not_ignore _ _ _ _ hi)
    · rw [← List.append_assoc]
      exact ⟨P', hs1, sim_other hb hok hs2, hs3⟩
  · -- the routing state
    unfold pre
    split
    · exact ⟨_, hst0.mono (by simp), by simpa using ht2, rfl⟩
    · obtain ⟨P', h1, h2, h3⟩ := sim_afterRetry hlt (now := e.now) hwf ht2 rfl
      exact ⟨P', (hst0.trans h1).mono (by simp), by simpa using h2, h3⟩

/-- the projection along a whole history -/
theorem sim_run {Key : Type} {c : Cfg} (hlt : c.rt < c.dt) {route : List Srv → Key → Option Srv}
    (hlaw : RouteLaw route) (s : Srv) (evs : List (Event Key)) :
    ∀ (st : State) (L : List Contact) (P : S) (t : Time), WF c st → Sim s st L P → P.clock ≤ t → Chrono t evs →
    ∃ P', Steps (pcfg c hlt) (c.ignoreExc && evs.any (fun e => e.op.isSetMany)) P P' ∧
      Sim s (run c route st evs).1 (L ++ contactsOf (run c route st evs).2) P' ∧
      WF c (run c route st evs).1 := by
  induction evs with
  | nil =>
    intro st L P t hwf hsim _ _
    exact ⟨P, Steps.refl _, by simpa [run, contactsOf] using hsim, hwf⟩
  | cons e es ih =>
    intro st L P t hwf hsim hclk hch
    obtain ⟨P1, h1, h2, h3, h4⟩ := sim_stepOp hlt hlaw e hwf hsim (Nat.le_trans hclk hch.1)
    obtain ⟨P2, g1, g2, g3⟩ := ih _ _ P1 e.now h4 h2 (Nat.le_of_eq h3) hch.2
    rcases hso : stepOp c route st e with ⟨st1, r, cs⟩
    simp only [hso] at g2 g3
    rcases hru : run c route st1 es with ⟨st2, outs⟩
    simp only [hru] at g2 g3
    simp only [run, hso, hru, contactsOf, List.flatMap_cons]
    refine ⟨P2, (h1.mono ?_).trans (g1.mono ?_), by simpa [contactsOf, List.append_assoc] using g2, g3⟩
    · simp only [List.any_cons]; intro h; cases hi : c.ignoreExc <;> simp_all
    · simp only [List.any_cons]; intro h; cases hi : c.ignoreExc <;> simp_all

end Failover
