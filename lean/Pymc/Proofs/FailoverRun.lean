import Pymc.Proofs.FailoverWindow
/-! C13: invariants along whole histories. -/
namespace Failover
open FO2 (S Steps)

variable {Key : Type}

theorem run_append (c : Cfg) (route : List Srv → Key → Option Srv) (a b : List (Event Key)) :
    ∀ st, run c route st (a ++ b) =
      ((run c route (run c route st a).1 b).1, (run c route st a).2 ++ (run c route (run c route st a).1 b).2) := by
  induction a with
  | nil => intro st; simp [run]
  | cons e es ih =>
    intro st
    rcases hso : stepOp c route st e with ⟨st1, r, cs⟩
    simp only [List.cons_append, run, hso, ih st1]

theorem chrono_append (t0 : Time) (a : List (Event Key)) (e : Event Key) :
    Chrono t0 (a ++ [e]) ↔ Chrono t0 a ∧ lastTime t0 a ≤ e.now := by
  induction a generalizing t0 with
  | nil => simp [Chrono, lastTime]
  | cons x r ih => simp [Chrono, lastTime, ih, and_assoc]

theorem run_wf {c : Cfg} {route : List Srv → Key → Option Srv} (hlaw : RouteLaw route) (evs : List (Event Key)) :
    ∀ st, WF c st → WF c (run c route st evs).1 := by
  induction evs with
  | nil => intro st h; exact h
  | cons e es ih =>
    intro st h
    have h1 := (stepOp_ind hlaw e h (fun _ _ => True) (fun _ _ _ _ _ _ _ => trivial) trivial).2
    rcases hso : stepOp c route st e with ⟨st1, r, cs⟩
    rw [hso] at h1
    have := ih st1 h1
    rcases hru : run c route st1 es with ⟨st2, outs⟩
    rw [hru] at this
    simpa [run, hso, hru] using this

/-- every entry of the output of a run is the output of one call made in a well-formed state at a
prefix of the history -/
theorem run_out_mem {c : Cfg} {route : List Srv → Key → Option Srv} (hlaw : RouteLaw route)
    (evs : List (Event Key)) : ∀ st, WF c st → ∀ o ∈ (run c route st evs).2,
    ∃ (pre : List (Event Key)) (e : Event Key) (post : List (Event Key)), evs = pre ++ e :: post ∧
      o = (stepOp c route (run c route st pre).1 e).2 := by
  induction evs with
  | nil => intro st _ o ho; simp [run] at ho
  | cons e es ih =>
    intro st h o ho
    have h1 := (stepOp_ind hlaw e h (fun _ _ => True) (fun _ _ _ _ _ _ _ => trivial) trivial).2
    rcases hso : stepOp c route st e with ⟨st1, r, cs⟩
    rw [hso] at h1
    rcases hru : run c route st1 es with ⟨st2, outs⟩
    simp only [run, hso, hru, List.mem_cons] at ho
    rcases ho with rfl | ho
    · exact ⟨[], e, es, rfl, by simp [run, hso]⟩
    · obtain ⟨pre, e', post, h2, h3⟩ := ih st1 h1 o (by rw [hru]; exact ho)
      refine ⟨e :: pre, e', post, by simp [h2], ?_⟩
      rw [h3]
      simp only [run, hso]

/-! ### the timed invariant behind recovery -/

structure Timed (c : Cfg) (st : State) (t : Time) : Prop where
  ldc : st.lastDeadCheck ≤ t
  dead : ∀ s td, alookup s st.dead = some td → st.lastDeadCheck ≤ td + c.dt

theorem timed_afterRetry {c : Cfg} {st : State} {t now : Time} (hwf : WF c st) (h : Timed c st t) (ht : t ≤ now) :
    Timed c (afterRetry c now st) now := by
  have hl := h.ldc
  have mono : Timed c st now := ⟨Nat.le_trans h.ldc ht, h.dead⟩
  unfold afterRetry
  split
  · exact mono
  · split
    · refine ⟨Nat.le_refl _, ?_⟩
      intro s td hs
      simp only [revived] at hs ⊢
      rw [alookup_filter (fun k => !(candidates c now st).contains k)] at hs
      split at hs
      · rename_i hq
        have hnc : s ∉ candidates c now st := by simpa using hq
        have := fun h => hnc ((mem_candidates c now st hwf.deadNodup s).2 h)
        have : ¬ now - td > c.dt := fun h' => this ⟨td, hs, h'⟩
        omega
      · simp at hs
    · exact mono

theorem timed_stepOp {c : Cfg} {route : List Srv → Key → Option Srv} (hlaw : RouteLaw route) {st : State}
    {t : Time} (e : Event Key) (hwf : WF c st) (h : Timed c st t) (ht : t ≤ e.now) :
    Timed c (stepOp c route st e).1 e.now := by
  refine (stepOp_ind hlaw e hwf (fun st' _ => Timed c st' e.now) ?_ ?_).1
  · intro st' b cs0 _ hwf' hin' hT
    have hok := stepOK_runOneOf (c := c) (now := e.now) (env := e.env) e.op hwf' hin'
    refine ⟨by rw [hok.ldc]; exact hT.ldc, ?_⟩
    intro s td hs
    rw [hok.ldc]
    by_cases hsb : s = b
    · subst hsb
      rcases hok.deadSelf with h1 | h1
      · exact hT.dead s td (h1 ▸ hs)
      · rw [h1] at hs
        simp at hs; subst hs
        have := hT.ldc
        omega
    · have := hok.frame s hsb
      simp only [view, Prod.mk.injEq] at this
      exact hT.dead s td (this.2.2 ▸ hs)
  · unfold pre
    split
    · exact ⟨Nat.le_trans h.ldc ht, h.dead⟩
    · exact timed_afterRetry hwf h ht

theorem timed_run {c : Cfg} {route : List Srv → Key → Option Srv} (hlaw : RouteLaw route)
    (evs : List (Event Key)) : ∀ st t, WF c st → Timed c st t → Chrono t evs →
    Timed c (run c route st evs).1 (lastTime t evs) := by
  induction evs with
  | nil => intro st t _ h _; exact h
  | cons e es ih =>
    intro st t hwf h hch
    have h1 := (stepOp_ind hlaw e hwf (fun _ _ => True) (fun _ _ _ _ _ _ _ => trivial) trivial).2
    have h2 := timed_stepOp hlaw e hwf h hch.1
    rcases hso : stepOp c route st e with ⟨st1, r, cs⟩
    rw [hso] at h1 h2
    have := ih st1 e.now h1 h2 hch.2
    rcases hru : run c route st1 es with ⟨st2, outs⟩
    rw [hru] at this
    simpa [run, hso, hru, lastTime] using this

theorem timed_init (c : Cfg) (servers : List Srv) (t0 : Time) : Timed c (init servers t0) t0 :=
  ⟨by simp [init], by simp [init, alookup]⟩

/-- a dead server whose record is older than two `dead_timeout`s is put back by the next `_get_client` -/
theorem recovered {c : Cfg} {st : State} {t now : Time} {s : Srv} {td : Time} (hwf : WF c st) (h : Timed c st t)
    (hs : alookup s st.dead = some td) (hnow : now > td + 2 * c.dt) :
    s ∈ (afterRetry c now st).nodes ∧ alookup s (afterRetry c now st).dead = none := by
  have h1 := h.dead s td hs
  have hne : st.dead.isEmpty = false := by
    cases hd : st.dead with
    | nil => simp [hd, alookup] at hs
    | cons a r => rfl
  have hc : s ∈ candidates c now st := (mem_candidates c now st hwf.deadNodup s).2 ⟨td, hs, by omega⟩
  unfold afterRetry
  simp only [hne, Bool.false_eq_true, if_false]
  rw [if_pos (by omega)]
  refine ⟨by simp [revived, addNodes_mem, hc], ?_⟩
  simp only [revived]
  rw [alookup_filter (fun k => !(candidates c now st).contains k)]
  simp [hc]

/-! ### the projection of a whole history -/

theorem proj_run {c : Cfg} (hlt : c.rt < c.dt) {route : List Srv → Key → Option Srv} (hlaw : RouteLaw route)
    (servers : List Srv) (t0 : Time) (evs : List (Event Key)) (hch : Chrono t0 evs) (s : Srv) (hs : s ∈ servers) :
    ∃ P, Sim s (run c route (init servers t0) evs).1 (contactsOf (run c route (init servers t0) evs).2) P ∧
      FO2.Small (pcfg c hlt) P ∧ FO2.Alive P ∧ FO2.DeadOut P ∧ FO2.Inv3 P ∧
      ((c.ignoreExc && evs.any (fun e => e.op.isSetMany)) = false → FO2.Inv (pcfg c hlt) P ∧ FO2.Inv2 (pcfg c hlt) P) := by
  obtain ⟨P, h1, h2, _⟩ := sim_run hlt hlaw s evs (init servers t0) [] (FO2.initAt t0) t0 (wf_init c servers t0)
    (sim_init s servers t0 hs) (Nat.le_refl _) hch
  refine ⟨P, by simpa using h2, h1.small (FO2.small_initAt _ t0), h1.alive (Or.inl rfl),
    h1.deadOut (by simp [FO2.DeadOut, FO2.initAt, FO2.init]), h1.inv3 (FO2.inv3_initAt t0), ?_⟩
  intro hsw
  rw [hsw] at h1
  exact h1.inv2 (FO2.inv_initAt _ t0) (FO2.inv2_initAt _ t0)

theorem proj_run_absent {c : Cfg} (hlt : c.rt < c.dt) {route : List Srv → Key → Option Srv} (hlaw : RouteLaw route)
    (servers : List Srv) (t0 : Time) (evs : List (Event Key)) (hch : Chrono t0 evs) (s : Srv) (hs : s ∉ servers) :
    s ∉ (run c route (init servers t0) evs).1.nodes ∧ alookup s (run c route (init servers t0) evs).1.dead = none ∧
      histOf s (contactsOf (run c route (init servers t0) evs).2) = [] ∧
      streakOf s (contactsOf (run c route (init servers t0) evs).2) = [] := by
  have hsim : Sim s (init servers t0) [] { FO2.initAt t0 with inNodes := false } := by
    constructor <;> simp [FO2.initAt, FO2.init, view, init, dedup_mem, hs, alookup, histOf, streakOf]
  obtain ⟨P, h1, h2, _⟩ := sim_run hlt hlaw s evs (init servers t0) [] _ t0 (wf_init c servers t0)
    hsim (Nat.le_refl _) hch
  obtain ⟨a1, a2, a3, a4⟩ := h1.absent ⟨rfl, rfl, rfl, rfl⟩
  have hv := h2.view
  simp only [view, Prod.mk.injEq] at hv
  refine ⟨?_, by rw [← hv.2.2, a2], ?_, ?_⟩
  · intro hmem
    rw [a1] at hv
    simp [hmem] at hv
  · have := h2.hist; simp only [List.nil_append] at this; rw [← this, a3]
  · have := h2.streak; simp only [List.nil_append] at this; rw [← this, a4]


/-- if every dead record is older than two `dead_timeout`s, the next `_get_client` empties `_dead_clients` -/
theorem afterRetry_all {c : Cfg} {st : State} {t now : Time} (hwf : WF c st) (h : Timed c st t)
    (hall : ∀ s td, alookup s st.dead = some td → now > td + 2 * c.dt) :
    (afterRetry c now st).dead = [] ∧ ∀ x, x ∈ (afterRetry c now st).nodes ↔
      (x ∈ st.nodes ∨ ∃ td, alookup x st.dead = some td) := by
  by_cases hd : st.dead = []
  · simp [afterRetry, hd, alookup]
  · obtain ⟨⟨s0, td0⟩, hmem⟩ := List.exists_mem_of_ne_nil _ hd
    have hl0 : alookup s0 st.dead = some td0 := alookup_of_mem_nodup hwf.deadNodup hmem
    have h1 := h.dead s0 td0 hl0
    have h2 := hall s0 td0 hl0
    have hcand : ∀ x, x ∈ candidates c now st ↔ ∃ td, alookup x st.dead = some td := by
      intro x
      rw [mem_candidates c now st hwf.deadNodup x]
      constructor
      · rintro ⟨td, a, _⟩; exact ⟨td, a⟩
      · rintro ⟨td, a⟩; have := hall x td a; exact ⟨td, a, by omega⟩
    have e : afterRetry c now st = revived now st (candidates c now st) := by
      unfold afterRetry
      have hne : st.dead.isEmpty = false := by simpa [List.isEmpty_iff] using hd
      simp only [hne, Bool.false_eq_true, if_false]
      rw [if_pos (by omega)]
    rw [e]
    refine ⟨?_, ?_⟩
    · simp only [revived]
      rw [List.filter_eq_nil_iff]
      intro a ha
      have : a.1 ∈ candidates c now st := (hcand a.1).2 ⟨a.2, alookup_of_mem_nodup hwf.deadNodup ha⟩
      simp [this]
    · intro x
      simp only [revived, addNodes_mem, hcand]
      exact Or.comm

theorem prefRoute_law : RouteLaw prefRoute := by
  constructor
  · intro ns k s h
    unfold prefRoute at h
    split at h
    · simp at h
    · split at h
      · rename_i s' hf
        simp at h; subst h
        have := List.find?_some hf
        simpa using this
      · simp at h; subst h; simp
  · intro ns k
    unfold prefRoute
    split
    · simp
    · split <;> simp

theorem noSwallow_of {c : Cfg} {evs : List (Event Key)} (h : NoSetManyUnderIgnoreExc c evs) :
    (c.ignoreExc && evs.any (fun e => e.op.isSetMany)) = false := by
  cases hi : c.ignoreExc with
  | false => rfl
  | true =>
    simp only [Bool.true_and]
    rw [Bool.eq_false_iff]
    intro ha
    obtain ⟨e, he, hs⟩ := List.any_eq_true.1 ha
    have := h hi e he
    simp [this] at hs

/-- from the newest-first ghost list to the chronological statement and the sliding-window count -/
theorem window_of {K w : Nat} {l F : List Nat} (hF : l = F.reverse) (hs : FO2.SparseK K w l) (hso : FO2.Sorted l) :
    (∀ (i a b : Nat), F[i]? = some a → F[i + K]? = some b → b - a > w) ∧ ∀ t : Nat, countIn t w F ≤ K := by
  have e : F = l.reverse := by rw [hF, List.reverse_reverse]
  rw [e]
  exact ⟨gap_of_sparseK hs, countIn_le _ (gap_of_sparseK hs) (asc_of_sorted hso)⟩

end Failover
