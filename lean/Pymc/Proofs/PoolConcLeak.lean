import Pymc.Proofs.PoolConcMain
/-! The "no reopened socket outside the pool" invariant, valid when `clear` never races with a holder. -/
set_option linter.unusedSimpArgs false
namespace PoolConc

/-- the connection a thread may still perform `work` on -/
def Pc.inUse : Pc → Option Obj
  | .getRel o _ | .hold o _ => some o
  | _ => none

@[simp, grind =] theorem Pc.inUse_idle  : Pc.idle.inUse = none := rfl
@[simp, grind =] theorem Pc.inUse_getLoop (f : Fin) : (Pc.getLoop f).inUse = none := rfl
@[simp, grind =] theorem Pc.inUse_getPop (f : Fin) : (Pc.getPop f).inUse = none := rfl
@[simp, grind =] theorem Pc.inUse_getTest (o : Obj) (f : Fin) : (Pc.getTest o f).inUse = none := rfl
@[simp, grind =] theorem Pc.inUse_getCount (f : Fin) : (Pc.getCount f).inUse = none := rfl
@[simp, grind =] theorem Pc.inUse_getCreate (f : Fin) : (Pc.getCreate f).inUse = none := rfl
@[simp, grind =] theorem Pc.inUse_getAppend (o : Obj) (f : Fin) : (Pc.getAppend o f).inUse = none := rfl
@[simp, grind =] theorem Pc.inUse_getRel (o : Obj) (f : Fin) : (Pc.getRel o f).inUse = some o := rfl
@[simp, grind =] theorem Pc.inUse_getRaised  : Pc.getRaised.inUse = none := rfl
@[simp, grind =] theorem Pc.inUse_hold (o : Obj) (f : Fin) : (Pc.hold o f).inUse = some o := rfl
@[simp, grind =] theorem Pc.inUse_relAcq (o : Obj) : (Pc.relAcq o).inUse = none := rfl
@[simp, grind =] theorem Pc.inUse_relBody (o : Obj) : (Pc.relBody o).inUse = none := rfl
@[simp, grind =] theorem Pc.inUse_relAppend (o : Obj) : (Pc.relAppend o).inUse = none := rfl
@[simp, grind =] theorem Pc.inUse_relRel  : Pc.relRel.inUse = none := rfl
@[simp, grind =] theorem Pc.inUse_desAcq (o : Obj) (k : Kont) : (Pc.desAcq o k).inUse = none := rfl
@[simp, grind =] theorem Pc.inUse_desBody (o : Obj) (k : Kont) : (Pc.desBody o k).inUse = none := rfl
@[simp, grind =] theorem Pc.inUse_desRel (o : Obj) (d : Bool) (k : Kont) : (Pc.desRel o d k).inUse = none := rfl
@[simp, grind =] theorem Pc.inUse_desAfter (o : Obj) (k : Kont) : (Pc.desAfter o k).inUse = none := rfl
@[simp, grind =] theorem Pc.inUse_clrBody  : Pc.clrBody.inUse = none := rfl
@[simp, grind =] theorem Pc.inUse_clrRel (l : List Obj) : (Pc.clrRel l).inUse = none := rfl
@[simp, grind =] theorem Pc.inUse_clrAfter (o : Obj) (r : List Obj) : (Pc.clrAfter o r).inUse = none := rfl
@[simp, grind =] theorem Pc.inUse_internalError  : Pc.internalError.inUse = none := rfl

theorem Pc.holds_of_inUse (p : Pc) (o : Obj) (h : p.inUse = some o) : p.holds = some o := by
  cases p <;> simp_all

structure InvQ (s : State) : Prop where
  inUse : ∀ t o, (s.th t).pc.inUse = some o → o ∈ s.used
  noReopen : ∀ o, s.reopened o = false

theorem invQ_init (programs : List Program) (m : Nat) : InvQ (init programs m) := by
  constructor <;> simp [init]

theorem inUse_step (s s' : State) (t : Tid) (l : Label) (h : Inv s) (hq : InvQ s)
    (hs : step s t l = some s')
    (hc : (s.th t).pc = .clrBody → ∀ u, (s.th u).pc.holds = none) :
    ∀ u o, (s'.th u).pc.inUse = some o → o ∈ s'.used := by
  have hi := hq.inUse
  have hx := h.holdExcl
  have hn := h.nodup
  have hm := h.mutex t
  step_cases hs
  all_goals (
    intro u o
    have hiu := hi u o; have hit := hi t; have hxu := hx u t o
    have hh := Pc.holds_of_inUse (s.th u).pc o
    have hcu := fun e => hc e u
    clear hi hx h hq hc
    simp only [goto, finish, setTh, close]
    by_cases e : u = t <;> simp [e] <;> (try simp_all) <;> grind)

theorem noReopen_step (s s' : State) (t : Tid) (l : Label) (h : Inv s) (hq : InvQ s)
    (hs : step s t l = some s') : ∀ o, s'.reopened o = false := by
  have hi := hq.inUse t
  have hr := hq.noReopen
  have hcc := h.ccPool
  step_cases hs
  all_goals (
    intro o
    have hro := hr o
    clear hr h hq
    simp only [goto, finish, setTh, close]
    (try simp_all) <;> grind)

theorem invQ_reachable {programs : List Program} {m : Nat} {s : State}
    (h : ReachableNoClearRace programs m s) : InvQ s := by
  induction h with
  | init => exact invQ_init programs m
  | step hr hs hc ih =>
    have hI := inv_reachable hr.reachable
    exact ⟨inUse_step _ _ _ _ hI ih hs hc, noReopen_step _ _ _ _ hI ih hs⟩


theorem Op.fin_eq_none (op : Op) : op.fin = none ↔ op = .clear := by
  cases op <;> simp [Op.fin]

theorem noClear_step (s s' : State) (t : Tid) (l : Label)
    (h : ∀ u, Op.clear ∉ (s.th u).prog ∧ (s.th u).pc ≠ .clrBody) (hs : step s t l = some s') :
    ∀ u, Op.clear ∉ (s'.th u).prog ∧ (s'.th u).pc ≠ .clrBody := by
  have ht := h t
  have htl : Op.clear ∉ (s.th t).prog.tail := fun hm => ht.1 (List.mem_of_mem_tail hm)
  step_cases hs
  all_goals (
    intro u
    have hu := h u
    clear h
    simp only [goto, finish, setTh, close]
    by_cases e : u = t <;> simp [e] <;> (try simp_all [Op.fin_eq_none]) <;> grind)

theorem noClear_reachable {programs : List Program} {m : Nat} {s : State}
    (hp : ∀ p ∈ programs, Op.clear ∉ p) (h : Reachable programs m s) :
    ∀ u, Op.clear ∉ (s.th u).prog ∧ (s.th u).pc ≠ .clrBody := by
  induction h with
  | init =>
    intro u
    simp only [init]
    refine ⟨?_, by simp⟩
    simp only [List.getD_eq_getElem?_getD]
    cases hu : programs[u]? with
    | none => simp
    | some p => simp; exact hp p (List.mem_of_getElem? hu)
  | step _ hs ih => exact noClear_step _ _ _ _ ih hs

theorem noClearRace_of_noClear {programs : List Program} {m : Nat} {s : State}
    (hp : ∀ p ∈ programs, Op.clear ∉ p) (h : Reachable programs m s) :
    ReachableNoClearRace programs m s := by
  induction h with
  | init => exact .init
  | step hr hs ih =>
    refine .step ih hs ?_
    intro hc
    exact absurd hc (noClear_reachable hp hr _).2

/-- threads beyond the program list never move -/
theorem extra_threads_idle {programs : List Program} {m : Nat} {s : State}
    (h : Reachable programs m s) : ∀ u, programs.length ≤ u → s.th u = ⟨.idle, []⟩ := by
  induction h with
  | init => intro u hu; simp [init, List.getD_eq_getElem?_getD, List.getElem?_eq_none hu]
  | @step s1 s2 t l _ hs ih =>
    intro u hu
    have hidle : s1.th t = ⟨.idle, []⟩ → False := by
      intro ht
      unfold step stepE at hs
      cases l <;> simp [ht] at hs
    by_cases e : u = t
    · subst e; exact (hidle (ih u hu)).elim
    · have := ih u hu
      step_cases hs
      all_goals (simp only [goto, finish, setTh, close]; simp [e, this])


end PoolConc
