import Pymc.Model.Stacks
/-! Helper lemmas for C16: Python argument binding and well-formed forwarding. -/
namespace Stacks

abbrev Bound := List (String × String)

theorem lookup_nil {α} (k : String) : lookup ([] : List (String × α)) k = none := rfl

theorem lookup_cons {α} (p : String × α) (t : List (String × α)) (k : String) :
    lookup (p :: t) k = if p.1 = k then some p.2 else lookup t k := by
  unfold lookup
  by_cases h : p.1 = k <;> simp [h]

/-- with distinct keys, every entry of the table is what `lookup` finds -/
theorem lookup_of_mem {α} (b : List (String × α)) (hn : (b.map (·.1)).Nodup) (p : String × α) (hp : p ∈ b) :
    lookup b p.1 = some p.2 := by
  induction b with
  | nil => cases hp
  | cons q t ih =>
    rw [lookup_cons]
    simp only [List.map_cons, List.nodup_cons] at hn
    rcases List.mem_cons.mp hp with rfl | hp
    · simp
    · have : q.1 ≠ p.1 := fun h => hn.1 (h ▸ List.mem_map_of_mem hp)
      simp [this, ih hn.2 hp]

/-! ## `mapM` in `Option` -/
theorem mapM_cons_some {α β} (f : α → Option β) (a : α) (t : List α) (v : β) (r : List β)
    (ha : f a = some v) (ht : t.mapM f = some r) : (a :: t).mapM f = some (v :: r) := by
  rw [List.mapM_cons, ha, ht]; rfl

theorem mapM_nil_some {α β} (f : α → Option β) : ([] : List α).mapM f = some [] := by
  rw [List.mapM_nil]; rfl

theorem mapM_some_map_fst (f : String × String → Option (String × String))
    (hf : ∀ p q, f p = some q → q.1 = p.1) (l : List (String × String)) (r : Bound)
    (h : l.mapM f = some r) : r.map (·.1) = l.map (·.1) := by
  induction l generalizing r with
  | nil => rw [List.mapM_nil] at h; cases h; rfl
  | cons a t ih =>
    rw [List.mapM_cons] at h
    cases ha : f a with
    | none => simp [ha] at h
    | some v =>
      cases ht : t.mapM f with
      | none => simp [ha, ht] at h
      | some r' =>
        simp [ha, ht] at h
        subst h
        simp [ih r' ht, hf a v ha]

/-! ## the three `mapM`s of `innerArgs` and `bind` over a table with distinct keys -/

/-- looking up the names of a sub-table gives its values -/
theorem mapM_lookup_sub (b : Bound) (hn : (b.map (·.1)).Nodup) (d : Bound) (hd : ∀ p ∈ d, p ∈ b) :
    (d.map (·.1)).mapM (lookup b) = some (d.map (·.2)) := by
  induction d with
  | nil => exact mapM_nil_some _
  | cons p t ih =>
    exact mapM_cons_some _ _ _ _ _ (lookup_of_mem b hn p (hd p (List.mem_cons_self)))
      (ih fun q hq => hd q (List.mem_cons_of_mem _ hq))

/-- the keyword arguments `name=name` built for the names of a sub-table are that sub-table -/
theorem mapM_kws_sub (b : Bound) (hn : (b.map (·.1)).Nodup) (kws : List (String × String)) (d : Bound)
    (hd : ∀ p ∈ d, p ∈ b) (hk : kws.map (·.1) = d.map (·.1)) (hsame : ∀ kv ∈ kws, kv.1 = kv.2) :
    kws.mapM (fun (x : String × String) => (lookup b x.2).map fun v => (x.1, v)) = some d := by
  induction kws generalizing d with
  | nil =>
    cases d with
    | nil => exact mapM_nil_some _
    | cons => simp at hk
  | cons kv t ih =>
    cases d with
    | nil => simp at hk
    | cons p d' =>
      simp only [List.map_cons, List.cons.injEq] at hk
      have h1 : kv.1 = kv.2 := hsame kv List.mem_cons_self
      refine mapM_cons_some _ _ _ _ _ ?_
        (ih d' (fun q hq => hd q (List.mem_cons_of_mem _ hq)) hk.2
          (fun q hq => hsame q (List.mem_cons_of_mem _ hq)))
      rw [← h1, hk.1, lookup_of_mem b hn p (hd p List.mem_cons_self)]
      rfl

/-- the per-parameter step of `bind` -/
def bindStep (kw : List (String × String)) (p : String × String) : Option (String × String) :=
  match lookup kw p.1 with
  | some v => some (p.1, v)
  | none => if p.2 = "REQUIRED" then none else some (p.1, "default:" ++ p.2)

theorem bindStep_fst (kw : List (String × String)) (p q : String × String) (h : bindStep kw p = some q) :
    q.1 = p.1 := by
  unfold bindStep at h
  split at h
  · cases h; rfl
  · split at h
    · cases h
    · cases h; rfl

/-- when every remaining parameter is given by keyword, the remaining parameters bind to the keywords -/
theorem mapM_bindStep_sub (d : Bound) (hn : (d.map (·.1)).Nodup) (named : Sig) (d' : Bound)
    (hd : ∀ p ∈ d', p ∈ d) (hk : named.map (·.1) = d'.map (·.1)) :
    named.mapM (bindStep d) = some d' := by
  induction named generalizing d' with
  | nil =>
    cases d' with
    | nil => exact mapM_nil_some _
    | cons => simp at hk
  | cons q t ih =>
    cases d' with
    | nil => simp at hk
    | cons p d'' =>
      simp only [List.map_cons, List.cons.injEq] at hk
      refine mapM_cons_some _ _ _ _ _ ?_ (ih d'' (fun r hr => hd r (List.mem_cons_of_mem _ hr)) hk.2)
      unfold bindStep
      rw [hk.1, lookup_of_mem d hn p (hd p List.mem_cons_self)]

/-! ## `bind` -/
theorem bind_eq (s : Sig) (pos : List String) (kw : List (String × String)) :
    bind s pos kw =
      if pos.length > s.length then none else
      if !kw.all (fun a => (s.drop pos.length).any (·.1 = a.1)) then none
      else if !(kw.map (·.1)).Nodup then none
      else ((s.drop pos.length).mapM (bindStep kw)).map fun r =>
        ((s.take pos.length).map (·.1)).zip pos ++ r := rfl

/-- what `bind … = some b` says -/
theorem bind_some (s : Sig) (pos : List String) (kw : List (String × String)) (b : Bound)
    (h : bind s pos kw = some b) :
    pos.length ≤ s.length ∧ ∃ r, (s.drop pos.length).mapM (bindStep kw) = some r ∧
      b = ((s.take pos.length).map (·.1)).zip pos ++ r := by
  rw [bind_eq] at h
  split at h
  · cases h
  · split at h
    · cases h
    · split at h
      · cases h
      · cases hr : (s.drop pos.length).mapM (bindStep kw) with
        | none => simp [hr] at h
        | some r =>
          simp only [hr, Option.map_some, Option.some.injEq] at h
          exact ⟨by omega, r, rfl, h.symm⟩

theorem map_fst_zip (l : List String) (pos : List String) (h : l.length = pos.length) :
    (l.zip pos).map (·.1) = l := by
  induction l generalizing pos with
  | nil => rfl
  | cons a t ih =>
    cases pos with
    | nil => simp at h
    | cons p ps => simp [ih ps (by simpa using h)]

theorem bind_names (s : Sig) (pos : List String) (kw : List (String × String)) (b : Bound)
    (h : bind s pos kw = some b) : b.map (·.1) = s.map (·.1) := by
  obtain ⟨hle, r, hr, rfl⟩ := bind_some s pos kw b h
  have h1 := mapM_some_map_fst (bindStep kw) (bindStep_fst kw) _ r hr
  rw [List.map_append, h1, map_fst_zip _ _ (by simp; omega)]
  rw [← List.map_append, List.take_append_drop]

theorem zip_fst_snd (b : Bound) : (b.map (·.1)).zip (b.map (·.2)) = b := by
  induction b with
  | nil => rfl
  | cons p t ih => simp [ih]

/-- the general forwarding theorem (see `C16_forwarding_preserves_binding`) -/
theorem forwarding_preserves_binding (m : String) (s : Sig) (f : Forward) (pos : List String)
    (kw : List (String × String)) (b : Bound)
    (hw : wellForwarded m s f = true) (hb : bind s pos kw = some b) :
    ∃ ip ik, innerArgs f b = some (ip, ik) ∧ bind s ip ik = some b := by
  have hnames := bind_names s pos kw b hb
  simp only [wellForwarded, Bool.and_eq_true, decide_eq_true_eq, List.all_eq_true] at hw
  obtain ⟨⟨⟨⟨-, hsplit⟩, hsame⟩, hnd⟩, -⟩ := hw
  have hbn : (b.map (·.1)).Nodup := hnames ▸ hnd
  -- the wrapper's positional names are the first `j` names of `b`, its keywords the others
  have hj : f.pos.length ≤ b.length := by
    have := congrArg List.length hsplit
    simp only [List.length_append, List.length_map] at this
    have := congrArg List.length hnames
    simp only [List.length_map] at this
    omega
  have hlen : b.length = s.length := by simpa using congrArg List.length hnames
  have hsplit' : f.pos ++ f.kws.map (·.1) = (b.take f.pos.length).map (·.1) ++ (b.drop f.pos.length).map (·.1) := by
    rw [hsplit, ← hnames, ← List.map_append, List.take_append_drop]
  have hpos : f.pos = (b.take f.pos.length).map (·.1) :=
    (List.append_inj hsplit' (by simp; omega)).1
  have hkws : f.kws.map (·.1) = (b.drop f.pos.length).map (·.1) :=
    (List.append_inj hsplit' (by simp; omega)).2
  have h1 : f.pos.mapM (lookup b) = some ((b.take f.pos.length).map (·.2)) := by
    conv => lhs; rw [hpos]
    exact mapM_lookup_sub b hbn _ (fun p hp => List.mem_of_mem_take hp)
  have h2 : f.kws.mapM (fun (x : String × String) => (lookup b x.2).map fun v => (x.1, v))
      = some (b.drop f.pos.length) :=
    mapM_kws_sub b hbn f.kws _ (fun p hp => List.mem_of_mem_drop hp) hkws
      (fun kv hkv => by simpa using hsame kv hkv)
  refine ⟨(b.take f.pos.length).map (·.2), b.drop f.pos.length, ?_, ?_⟩
  · unfold innerArgs
    rw [h1]
    simp [h2]
  · have hl : ((b.take f.pos.length).map (·.2)).length = f.pos.length := by simp; omega
    rw [bind_eq, hl]
    have hdn : ((b.drop f.pos.length).map (·.1)).Nodup := by
      rw [List.map_drop]; exact hbn.sublist (List.drop_sublist _ _)
    have hdrop : (s.drop f.pos.length).map (·.1) = (b.drop f.pos.length).map (·.1) := by
      rw [List.map_drop, List.map_drop, hnames]
    have hall : (b.drop f.pos.length).all (fun a => (s.drop f.pos.length).any (·.1 = a.1)) = true := by
      simp only [List.all_eq_true, List.any_eq_true, decide_eq_true_eq]
      intro a ha
      have : a.1 ∈ (s.drop f.pos.length).map (·.1) := hdrop ▸ List.mem_map_of_mem ha
      obtain ⟨q, hq, hqa⟩ := List.mem_map.mp this
      exact ⟨q, hq, hqa⟩
    rw [if_neg (by omega), hall]
    simp only [Bool.not_true, Bool.false_eq_true, if_false, hdn, decide_true]
    rw [mapM_bindStep_sub (b.drop f.pos.length) hdn (s.drop f.pos.length) (b.drop f.pos.length)
      (fun p hp => hp) hdrop]
    simp only [Option.map_some, Option.some.injEq]
    have : (s.take f.pos.length).map (·.1) = (b.take f.pos.length).map (·.1) := by
      rw [List.map_take, List.map_take, hnames]
    rw [this, zip_fst_snd, List.take_append_drop]
end Stacks
