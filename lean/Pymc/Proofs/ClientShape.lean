import Pymc.Proofs.ExchangeCall
/-! Helper lemmas for C01: every public operation is one of five shapes (no exchange at all, a store
exchange, a misc exchange, a fetch exchange, `quit`, `shutdown`) followed by post-processing. -/
namespace Client
open Bytes Readers Wire Framing Exchange

theorem mapM_length {ε α β} (f : α → Except ε β) (l : List α) {r : List β}
    (h : l.mapM f = .ok r) : r.length = l.length := by
  induction l generalizing r with
  | nil => simp [List.mapM_nil, pure, Except.pure] at h; subst h; rfl
  | cons a t ih =>
    rw [List.mapM_cons] at h
    cases hf : f a with
    | error e => simp [hf, bind, Except.bind] at h
    | ok b =>
      cases ht : t.mapM f with
      | error e => simp [hf, ht, bind, Except.bind] at h
      | ok bs =>
        simp [hf, ht, bind, Except.bind, pure, Except.pure] at h
        subst h; simp [ih ht]

theorem encodeStore_length {cfg verb items expire nr flags sf cas} {cmds : List Bytes}
    (h : encodeStore cfg verb items expire nr flags sf cas = .ok cmds) : cmds.length = items.length := by
  unfold encodeStore at h
  cases he : checkInteger expire with
  | error e => simp [he, bind, Except.bind] at h
  | ok e =>
    simp only [he, bind, Except.bind] at h
    exact mapM_length _ _ h

theorem encodeDelete_length {cfg ks nr} {cmds : List Bytes}
    (h : encodeDelete cfg ks nr = .ok cmds) : cmds.length = ks.length := by
  unfold encodeDelete at h
  exact mapM_length _ _ h

/-! ## `mapOut` -/
@[simp] theorem mapOut_sockOpen {α β} (o : CallOut α) (f : α → Except Exc β) :
    (mapOut o f).sockOpen = o.sockOpen := by unfold mapOut; split <;> rfl
@[simp] theorem mapOut_unread {α β} (o : CallOut α) (f : α → Except Exc β) :
    (mapOut o f).unread = o.unread := by unfold mapOut; split <;> rfl
@[simp] theorem mapOut_sent {α β} (o : CallOut α) (f : α → Except Exc β) :
    (mapOut o f).sent = o.sent := by unfold mapOut; split <;> rfl
@[simp] theorem mapOut_connected {α β} (o : CallOut α) (f : α → Except Exc β) :
    (mapOut o f).connected = o.connected := by unfold mapOut; split <;> rfl
theorem mapOut_res_ok {α β} (o : CallOut α) (f : α → Except Exc β) {a : α} (h : o.res = .ok a) :
    (mapOut o f).res = f a := by unfold mapOut; simp [h]
theorem mapOut_res_error {α β} (o : CallOut α) (f : α → Except Exc β) {e : Exc} (h : o.res = .error e) :
    (mapOut o f).res = .error e := by unfold mapOut; simp [h]
theorem mapOut_mapOut_ok {α β γ} (o : CallOut α) (h : α → β) (g : β → Except Exc γ) :
    mapOut (mapOut o fun a => .ok (h a)) g = mapOut o fun a => g (h a) := by
  unfold mapOut
  rcases o.res with e | a <;> rfl
theorem mapOut_early {α β} (e : Exc) (so : Bool) (sc : Script) (f : α → Except Exc β) :
    mapOut (early e so sc : CallOut α) f = ⟨.error e, so, false, none, sc.evs⟩ := by
  simp [mapOut, early]

/-! ## `swallowClose` (the `try … except MemcacheUnexpectedCloseError: pass` of `shutdown`) -/
@[simp] theorem swallowClose_sockOpen (o : CallOut Res) : (swallowClose o).sockOpen = o.sockOpen := rfl
@[simp] theorem swallowClose_unread (o : CallOut Res) : (swallowClose o).unread = o.unread := rfl
@[simp] theorem swallowClose_sent (o : CallOut Res) : (swallowClose o).sent = o.sent := rfl
@[simp] theorem swallowClose_connected (o : CallOut Res) : (swallowClose o).connected = o.connected := rfl
theorem swallowClose_with_unread (o : CallOut Res) (u : List Ev) :
    swallowClose { o with unread := u } = { swallowClose o with unread := u } := rfl
theorem swallowClose_with_connected (o : CallOut Res) (b : Bool) :
    swallowClose { o with connected := b } = { swallowClose o with connected := b } := rfl
theorem swallowClose_res_ok (o : CallOut Res) {a : Res} (h : o.res = .ok a) : (swallowClose o).res = .ok a := by
  simp [swallowClose, h]
/-- what `swallowClose` makes of an exception: `MemcacheUnexpectedCloseError` becomes `None`, the others stay -/
theorem swallowClose_res_error (o : CallOut Res) {e : Exc} (h : o.res = .error e) :
    (swallowClose o).res = if e = .unexpectedClose then .ok .none else .error e := by
  simp only [swallowClose, h]
  cases e <;> simp
/-- `shutdown` is a misc exchange of one command that waits for one line, wrapped in `swallowClose` -/
theorem call_shutdown (cfg : Cfg) (ie so : Bool) (g : Bool) (sc : Script) :
    call cfg ie so (.shutdown g) sc =
      swallowClose (mapOut (exchangeMisc [shutdownCmd g] false none so sc) fun _ => .ok .none) := rfl
theorem shutdown_res_ok (cfg : Cfg) (ie so : Bool) (g : Bool) (sc : Script) {r : List Bytes}
    (hx : (exchangeMisc [shutdownCmd g] false none so sc).res = .ok r) :
    (call cfg ie so (.shutdown g) sc).res = .ok .none := by
  rw [call_shutdown]
  exact swallowClose_res_ok _ (mapOut_res_ok _ (fun _ => (.ok .none : Except Exc Res)) hx)
theorem shutdown_res_error (cfg : Cfg) (ie so : Bool) (g : Bool) (sc : Script) {e : Exc}
    (hx : (exchangeMisc [shutdownCmd g] false none so sc).res = .error e) :
    (call cfg ie so (.shutdown g) sc).res = if e = .unexpectedClose then .ok .none else .error e := by
  rw [call_shutdown]
  exact swallowClose_res_error _ (mapOut_res_error _ (fun _ => (.ok .none : Except Exc Res)) hx)

/-! ## shapes -/

/-- the `cas` argument check at the head of `Client.call (.store …)` -/
def casBytes (verb : SVerb) (cas : Option CasArg) : Except Exc (Option Bytes) :=
  match verb, cas with
  | .cas, some a => (liftErr (checkCas a)).map some
  | .cas, none => .error .illegalInput
  | _, _ => .ok none

/-- what a misc exchange that waits for replies is owed -/
def owedMisc (tok : Option Bytes) (n : Nat) : Owed :=
  match tok with
  | none => .lines n
  | some t => .segment t

inductive Shape (cfg : Cfg) (c : Call) : Prop
  | silent (res : Except Exc Res)
      (hcall : ∀ ie so sc, call cfg ie so c sc = ⟨res, so, false, none, sc.evs⟩)
  | store (verb : SVerb) (cmds : List Bytes) (nr : Bool) (f : List (Option Bool) → Except Exc Res)
      (hcall : ∀ ie so sc, call cfg ie so c sc = mapOut (exchangeStore verb cmds nr so sc) f)
      (hnr : effNoreply cfg c = nr)
      (howed : owed cfg c = if nr then .nothing else .lines cmds.length)
      (hpost : ∀ r, r.length = cmds.length → ∀ e, f r = .error e → postProcessingError c e)
  | misc (cmds : List Bytes) (nr : Bool) (tok : Option Bytes) (f : List Bytes → Except Exc Res)
      (hcall : ∀ ie so sc, call cfg ie so c sc = mapOut (exchangeMisc cmds nr tok so sc) f)
      (hnr : effNoreply cfg c = nr)
      (howed : owed cfg c = if nr then .nothing else owedMisc tok cmds.length)
      (hlen : tok ≠ none → cmds.length = 1)
      (hpost : ∀ r, (nr = false → r.length = cmds.length) → ∀ e, f r = .error e → postProcessingError c e)
  | fetch (kind : FetchKind) (cmd : Bytes) (wanted : List Bytes) (g : List FetchEntry → Res)
      (hcall : ∀ ie so sc, call cfg ie so c sc =
        mapOut (exchangeFetch kind cmd wanted ie so sc) fun r => .ok (g r))
      (howed : owed cfg c = .fetch kind)
  | quit (hc : c = .quit)
  | shutdown (g : Bool) (hc : c = .shutdown g)      -- `call_shutdown`

theorem sends_of_silent {cfg c res}
    (hcall : ∀ ie so sc, call cfg ie so c sc = ⟨res, so, false, none, sc.evs⟩) : sends cfg c = false := by
  simp [sends, hcall]
theorem sends_of_store {cfg c verb cmds nr f}
    (hcall : ∀ ie so sc, call cfg ie so c sc = mapOut (exchangeStore verb cmds nr so sc) f) :
    sends cfg c = true := by
  simp [sends, hcall, exchangeStore_probe]
theorem sends_of_misc {cfg c cmds nr tok f}
    (hcall : ∀ ie so sc, call cfg ie so c sc = mapOut (exchangeMisc cmds nr tok so sc) f) :
    sends cfg c = true := by
  simp [sends, hcall, exchangeMisc_probe]
theorem sends_shutdown (cfg : Cfg) (g : Bool) : sends cfg (.shutdown g) = true := by
  simp [sends, call_shutdown, exchangeMisc_probe]
theorem owed_shutdown (cfg : Cfg) (g : Bool) : owed cfg (.shutdown g) = .lines 1 := by
  simp [owed, sends_shutdown, effNoreply]
theorem sends_of_fetch {cfg c kind cmd wanted} {g : List FetchEntry → Except Exc Res}
    (hcall : ∀ ie so sc, call cfg ie so c sc = mapOut (exchangeFetch kind cmd wanted ie so sc) g) :
    sends cfg c = true := by
  simp [sends, hcall, exchangeFetch_probe]
end Client
