import Pymc.Proofs.ExchangeCall
/-! Helper lemmas for C01: every public operation is one of five shapes (no exchange at all, a store
exchange, a misc exchange, a fetch exchange, `quit`) followed by post-processing. -/
namespace Client
open Bytes Readers Wire Framing Exchange

theorem mapM_length {ε α β} (f : α → Except ε β) (l : List α) {r : List β}
    (h : l.mapM f = .ok r) : r.length = l.length := by
  induction l generalizing r with
  | nil => simp [List.mapM_nil, pure, Except.pure] at h; subst h; rfl
  | cons a t ih =>
    rw [List.mapM_cons] at h
    cases hf : f a with
    | error e => simp [hf, bind, Except.bind] at h
    | ok b =>
      cases ht : t.mapM f with
      | error e => simp [hf, ht, bind, Except.bind] at h
      | ok bs =>
        simp [hf, ht, bind, Except.bind, pure, Except.pure] at h
        subst h; simp [ih ht]

theorem encodeStore_length {cfg verb items expire nr flags sf cas} {cmds : List Bytes}
    (h : encodeStore cfg verb items expire nr flags sf cas = .ok cmds) : cmds.length = items.length := by
  unfold encodeStore at h
  cases he : checkInteger expire with
  | error e => simp [he, bind, Except.bind] at h
  | ok e =>
    simp only [he, bind, Except.bind] at h
    exact mapM_length _ _ h

theorem encodeDelete_length {cfg ks nr} {cmds : List Bytes}
    (h : encodeDelete cfg ks nr = .ok cmds) : cmds.length = ks.length := by
  unfold encodeDelete at h
  exact mapM_length _ _ h

/-! ## `mapOut` -/
@[simp] theorem mapOut_sockOpen {α β} (o : CallOut α) (f : α → Except Exc β) :
    (mapOut o f).sockOpen = o.sockOpen := by unfold mapOut; split <;> rfl
@[simp] theorem mapOut_unread {α β} (o : CallOut α) (f : α → Except Exc β) :
    (mapOut o f).unread = o.unread := by unfold mapOut; split <;> rfl
@[simp] theorem mapOut_sent {α β} (o : CallOut α) (f : α → Except Exc β) :
    (mapOut o f).sent = o.sent := by unfold mapOut; split <;> rfl
@[simp] theorem mapOut_connected {α β} (o : CallOut α) (f : α → Except Exc β) :
    (mapOut o f).connected = o.connected := by unfold mapOut; split <;> rfl
theorem mapOut_res_ok {α β} (o : CallOut α) (f : α → Except Exc β) {a : α} (h : o.res = .ok a) :
    (mapOut o f).res = f a := by unfold mapOut; simp [h]
theorem mapOut_res_error {α β} (o : CallOut α) (f : α → Except Exc β) {e : Exc} (h : o.res = .error e) :
    (mapOut o f).res = .error e := by unfold mapOut; simp [h]
theorem mapOut_mapOut_ok {α β γ} (o : CallOut α) (h : α → β) (g : β → Except Exc γ) :
    mapOut (mapOut o fun a => .ok (h a)) g = mapOut o fun a => g (h a) := by
  unfold mapOut
  rcases o.res with e | a <;> rfl
theorem mapOut_early {α β} (e : Exc) (so : Bool) (sc : Script) (f : α → Except Exc β) :
    mapOut (early e so sc : CallOut α) f = ⟨.error e, so, false, none, sc.evs⟩ := by
  simp [mapOut, early]

/-! ## shapes -/

/-- the `cas` argument check at the head of `Client.call (.store …)` -/
def casBytes (verb : SVerb) (cas : Option CasArg) : Except Exc (Option Bytes) :=
  match verb, cas with
  | .cas, some a => (liftErr (checkCas a)).map some
  | .cas, none => .error .illegalInput
  | _, _ => .ok none

/-- what a misc exchange that waits for replies is owed -/
def owedMisc (tok : Option Bytes) (n : Nat) : Owed :=
  match tok with
  | none => .lines n
  | some t => .segment t

inductive Shape (cfg : Cfg) (c : Call) : Prop
  | silent (res : Except Exc Res)
      (hcall : ∀ ie so sc, call cfg ie so c sc = ⟨res, so, false, none, sc.evs⟩)
  | store (verb : SVerb) (cmds : List Bytes) (nr : Bool) (f : List (Option Bool) → Except Exc Res)
      (hcall : ∀ ie so sc, call cfg ie so c sc = mapOut (exchangeStore verb cmds nr so sc) f)
      (hnr : effNoreply cfg c = nr)
      (howed : owed cfg c = if nr then .nothing else .lines cmds.length)
      (hpost : ∀ r, r.length = cmds.length → ∀ e, f r = .error e → postProcessingError c e)
  | misc (cmds : List Bytes) (nr : Bool) (tok : Option Bytes) (f : List Bytes → Except Exc Res)
      (hcall : ∀ ie so sc, call cfg ie so c sc = mapOut (exchangeMisc cmds nr tok so sc) f)
      (hnr : effNoreply cfg c = nr)
      (howed : owed cfg c = if nr then .nothing else owedMisc tok cmds.length)
      (hlen : tok ≠ none → cmds.length = 1)
      (hpost : ∀ r, (nr = false → r.length = cmds.length) → ∀ e, f r = .error e → postProcessingError c e)
  | fetch (kind : FetchKind) (cmd : Bytes) (wanted : List Bytes) (g : List FetchEntry → Res)
      (hcall : ∀ ie so sc, call cfg ie so c sc =
        mapOut (exchangeFetch kind cmd wanted ie so sc) fun r => .ok (g r))
      (howed : owed cfg c = .fetch kind)
  | quit (hc : c = .quit)

theorem sends_of_silent {cfg c res}
    (hcall : ∀ ie so sc, call cfg ie so c sc = ⟨res, so, false, none, sc.evs⟩) : sends cfg c = false := by
  simp [sends, hcall]
theorem sends_of_store {cfg c verb cmds nr f}
    (hcall : ∀ ie so sc, call cfg ie so c sc = mapOut (exchangeStore verb cmds nr so sc) f) :
    sends cfg c = true := by
  simp [sends, hcall, exchangeStore_probe]
theorem sends_of_misc {cfg c cmds nr tok f}
    (hcall : ∀ ie so sc, call cfg ie so c sc = mapOut (exchangeMisc cmds nr tok so sc) f) :
    sends cfg c = true := by
  simp [sends, hcall, exchangeMisc_probe]
theorem sends_of_fetch {cfg c kind cmd wanted} {g : List FetchEntry → Except Exc Res}
    (hcall : ∀ ie so sc, call cfg ie so c sc = mapOut (exchangeFetch kind cmd wanted ie so sc) g) :
    sends cfg c = true := by
  simp [sends, hcall, exchangeFetch_probe]
end Client
